import re, sys
INC="/repo/include/"
def ins(fname, anchor, text, where="before", count=1, nth=None):
    """insert text (full lines) before/after each line containing anchor"""
    p=INC+fname; lines=open(p).read().split("\n"); out=[]; n=0
    for ln in lines:
        hit = (ln == anchor[:-1]) if anchor.endswith('$') else (anchor in ln)
        if hit:
            n+=1
            if nth is not None and n!=nth: hit=False
        if hit:
            ind=ln[:len(ln)-len(ln.lstrip())]
            blk=[(ind+t if t and not t.startswith("#") else t) for t in text.split("\n")]
            if where=="before": out.extend(blk); out.append(ln)
            else: out.append(ln); out.extend(blk)
        else: out.append(ln)
    if nth is None: assert n==count, (fname, anchor, n, count)
    else: assert n>=nth, (fname, anchor, n)
    open(p,"w").write("\n".join(out))
def wrap(fname, anchor, hooked):
    """#ifdef VERIF <hooked> #else <original line> #endif"""
    p=INC+fname; lines=open(p).read().split("\n"); out=[]; n=0
    for ln in lines:
        if anchor in ln:
            n+=1
            ind=ln[:len(ln)-len(ln.lstrip())]
            out.append("#ifdef YAKUSHIMA_VERIF")
            out.extend(ind+t for t in hooked.split("\n"))
            out.append("#else"); out.append(ln); out.append("#endif")
        else: out.append(ln)
    assert n==1,(fname,anchor,n)
    open(p,"w").write("\n".join(out))
def include(fname, after):
    p=INC+fname; s=open(p).read(); assert after in s,(fname,after)
    s=s.replace(after, after+'\n#include "verif_hook.h"',1); open(p,"w").write(s)

# atomic_wrapper.h
include("atomic_wrapper.h","#pragma once\n")
ins("atomic_wrapper.h","return __atomic_load_n(&ptr, __ATOMIC_RELAXED);","YAKUSHIMA_VERIF_PRE(k_load, o_other, &ptr);")
ins("atomic_wrapper.h","return __atomic_load_n(&ref, __ATOMIC_ACQUIRE);","YAKUSHIMA_VERIF_PRE(k_load, o_other, &ref);")
ins("atomic_wrapper.h","__atomic_load(ptr, ret, __ATOMIC_ACQUIRE);","YAKUSHIMA_VERIF_PRE(k_load, o_other, ptr);")
ins("atomic_wrapper.h","__atomic_store_n(&ptr, static_cast<T>(val), __ATOMIC_RELAXED);","YAKUSHIMA_VERIF_PRE(k_store, o_other, &ptr);")
ins("atomic_wrapper.h","__atomic_store_n(&ptr, static_cast<T>(val), __ATOMIC_RELEASE);","YAKUSHIMA_VERIF_PRE(k_store, o_other, &ptr);")
ins("atomic_wrapper.h","__atomic_store(ptr, val, __ATOMIC_RELEASE);","YAKUSHIMA_VERIF_PRE(k_store, o_other, ptr);")
ins("atomic_wrapper.h","return __atomic_compare_exchange_n(ptr, expected, *desired, true,","YAKUSHIMA_VERIF_PRE(k_cas, o_other, ptr);")

# version.h
ins("version.h","if (body_.compare_exchange_weak(expected, desired,","YAKUSHIMA_VERIF_PRE(k_cas, o_version, &body_);",count=8)
ins("version.h","                break;","YAKUSHIMA_VERIF_POST(k_cas, o_version, &body_, desired, 1);",count=7)
ins("version.h","                    return;","YAKUSHIMA_VERIF_POST(k_cas, o_version, &body_, desired, 2);")
ins("version.h","if (expected.get_locked()) {","    YAKUSHIMA_VERIF_PRE(k_spin, o_version, &body_);",where="after")
wrap("version.h","return body_.load(std::memory_order_acquire);",
 "YAKUSHIMA_VERIF_PRE(k_load, o_version, &body_);\nnode_version64_body vb_ = body_.load(std::memory_order_acquire);\nYAKUSHIMA_VERIF_POST(k_load, o_version, &body_, vb_, 1);\nreturn vb_;")
ins("version.h","            _mm_pause();","YAKUSHIMA_VERIF_PRE(k_spin, o_version, &body_);",count=2)
ins("version.h","body_.store(newv, std::memory_order_release);","YAKUSHIMA_VERIF_PRE(k_store, o_version, &body_);\nYAKUSHIMA_VERIF_POST(k_store, o_version, &body_, newv, 1);")

# permutation.h
include("permutation.h",'#include "scheme.h"')
ins("permutation.h","std::uint64_t per_body(body_.load(std::memory_order_acquire));","YAKUSHIMA_VERIF_PRE(k_load, o_perm, &body_);",count=3)
wrap("permutation.h","        return body_.load(std::memory_order_acquire);",
 "YAKUSHIMA_VERIF_PRE(k_load, o_perm, &body_);\nstd::uint64_t vp_ = body_.load(std::memory_order_acquire);\nYAKUSHIMA_VERIF_POST(k_load, o_perm, &body_, vp_, 1);\nreturn vp_;")
wrap("permutation.h","void init() { body_.store(0, std::memory_order_release); }",
 "void init() {\n    YAKUSHIMA_VERIF_PRE(k_store, o_perm, &body_);\n    YAKUSHIMA_VERIF_POST(k_store, o_perm, &body_, 0ULL, 1);\n    body_.store(0, std::memory_order_release);\n}")
ins("permutation.h","body_.store(new_body, std::memory_order_release);","YAKUSHIMA_VERIF_PRE(k_store, o_perm, &body_);\nYAKUSHIMA_VERIF_POST(k_store, o_perm, &body_, new_body, 1);")
ins("permutation.h","body_.store(nb, std::memory_order_release);","YAKUSHIMA_VERIF_PRE(k_store, o_perm, &body_);\nYAKUSHIMA_VERIF_POST(k_store, o_perm, &body_, nb, 1);")
ins("permutation.h","std::uint64_t body = body_.load(std::memory_order_acquire);","YAKUSHIMA_VERIF_PRE(k_load, o_perm, &body_);")
ins("permutation.h","body_.store(body, std::memory_order_release);","YAKUSHIMA_VERIF_PRE(k_store, o_perm, &body_);\nYAKUSHIMA_VERIF_POST(k_store, o_perm, &body_, body, 1);")

# base_node.h (plain slot reads)
ins("base_node.h","        return key_length_.at(index);","YAKUSHIMA_VERIF_PRE(k_load, o_slot_key, &key_length_.at(index));")
ins("base_node.h","        return key_slice_.at(index);","YAKUSHIMA_VERIF_PRE(k_load, o_slot_key, &key_slice_.at(index));")
ins("base_node.h","        return key_length_;","YAKUSHIMA_VERIF_PRE(k_load, o_slot_key, &key_length_);",nth=2)
ins("base_node.h","        return key_slice_;","YAKUSHIMA_VERIF_PRE(k_load, o_slot_key, &key_slice_);",nth=2)

# interior_node.h
ins("interior_node.h","return n_keys_.load(std::memory_order_acquire);","YAKUSHIMA_VERIF_PRE(k_load, o_nkeys, &n_keys_);")
ins("interior_node.h","n_keys_.store(new_n_key, std::memory_order_release);","YAKUSHIMA_VERIF_PRE(k_store, o_nkeys, &n_keys_);")
wrap("interior_node.h","void n_keys_decrement() { n_keys_.fetch_sub(1); }","void n_keys_decrement() {\n    YAKUSHIMA_VERIF_PRE(k_rmw, o_nkeys, &n_keys_);\n    n_keys_.fetch_sub(1);\n}")
wrap("interior_node.h","void n_keys_increment() { n_keys_.fetch_add(1); }","void n_keys_increment() {\n    YAKUSHIMA_VERIF_PRE(k_rmw, o_nkeys, &n_keys_);\n    n_keys_.fetch_add(1);\n}")
ins("interior_node.h","ret_child = children.at(i);","YAKUSHIMA_VERIF_PRE(k_load, o_child, &children.at(i));")
ins("interior_node.h","ret_child = children.at(n_key);","YAKUSHIMA_VERIF_PRE(k_load, o_child, &children.at(n_key));")

# link_or_value.h
wrap("link_or_value.h","void init_lv() { child_or_v_ = kValPtrFlag; }",
 "void init_lv() {\n    YAKUSHIMA_VERIF_PRE(k_store, o_lv, &child_or_v_);\n    YAKUSHIMA_VERIF_POST(k_store, o_lv, &child_or_v_, kValPtrFlag, 1);\n    child_or_v_ = kValPtrFlag;\n}")
ins("link_or_value.h","        storeReleaseN(child_or_v_, ptr);","YAKUSHIMA_VERIF_POST(k_store, o_lv, &child_or_v_, ptr, 1);")
ins("link_or_value.h","        storeReleaseN(child_or_v_, ptr | kChildFlag);","YAKUSHIMA_VERIF_POST(k_store, o_lv, &child_or_v_, ptr | kChildFlag, 1);")
ins("link_or_value.h","        *this = *nlv;","YAKUSHIMA_VERIF_PRE(k_store, o_lv, &child_or_v_);\nYAKUSHIMA_VERIF_POST(k_store, o_lv, &child_or_v_, nlv->child_or_v_, 1);")

# tree_instance.h
ins("tree_instance.h","expected = root_lock_.load(std::memory_order_acquire);","YAKUSHIMA_VERIF_PRE(k_load, o_root_lock, &root_lock_);")
ins("tree_instance.h","                if (expected) {","    YAKUSHIMA_VERIF_PRE(k_spin, o_root_lock, &root_lock_);",where="after")
ins("tree_instance.h","if (root_lock_.compare_exchange_weak(expected, desired,","YAKUSHIMA_VERIF_PRE(k_cas, o_root_lock, &root_lock_);")
ins("tree_instance.h","                    return;","YAKUSHIMA_VERIF_POST(k_cas, o_root_lock, &root_lock_, true, 1);")
ins("tree_instance.h","root_lock_.store(false, std::memory_order_release);","YAKUSHIMA_VERIF_PRE(k_store, o_root_lock, &root_lock_);\nYAKUSHIMA_VERIF_POST(k_store, o_root_lock, &root_lock_, false, 1);")

# thread_info.h
ins("thread_info.h","bool expected(running_.load(std::memory_order_acquire));","YAKUSHIMA_VERIF_PRE(k_load, o_running, &running_);")
ins("thread_info.h","bool expected(running_.load(std::memory_order_acquire));","YAKUSHIMA_VERIF_POST(k_load, o_running, &running_, expected, 1);",where="after")
ins("thread_info.h","            if (expected) { return false; }","YAKUSHIMA_VERIF_PRE(k_cas, o_running, &running_);",where="after")
ins("thread_info.h","                return true;","YAKUSHIMA_VERIF_POST(k_cas, o_running, &running_, true, 1);")

def ins_after_next(fname, anchor, closing, text):
    p=INC+fname; lines=open(p).read().split("\n"); out=[]; state=0
    for ln in lines:
        out.append(ln)
        if state==0 and anchor in ln: state=1
        elif state==1 and ln.rstrip()==closing:
            ind=ln[:len(ln)-len(ln.lstrip())]
            out.extend(ind+t for t in text.split("\n")); state=2
    assert state==2,(fname,anchor)
    open(p,"w").write("\n".join(out))
ins_after_next("thread_info.h","                return true;","            }","YAKUSHIMA_VERIF_POST(k_cas, o_running, &running_, expected, 0);")
include("thread_info.h",'#include "garbage_collection.h"')
wrap("thread_info.h","        return begin_epoch_.load(std::memory_order_acquire);",
 "YAKUSHIMA_VERIF_PRE(k_load, o_begin_epoch, &begin_epoch_);\nEpoch ve_ = begin_epoch_.load(std::memory_order_acquire);\nYAKUSHIMA_VERIF_POST(k_load, o_begin_epoch, &begin_epoch_, ve_, 1);\nreturn ve_;")
ins("thread_info.h","        return running_.load(std::memory_order_acquire);","YAKUSHIMA_VERIF_PRE(k_load, o_running, &running_);")
ins("thread_info.h","begin_epoch_.store(epoch, std::memory_order_relaxed);","YAKUSHIMA_VERIF_PRE(k_store, o_begin_epoch, &begin_epoch_);\nYAKUSHIMA_VERIF_POST(k_store, o_begin_epoch, &begin_epoch_, epoch, 1);")
ins("thread_info.h","running_.store(tf, std::memory_order_relaxed);","YAKUSHIMA_VERIF_PRE(k_store, o_running, &running_);\nYAKUSHIMA_VERIF_POST(k_store, o_running, &running_, tf, 1);")

# epoch.h
include("epoch.h","#include <atomic>")
wrap("epoch.h","static void epoch_inc() { epoch_.fetch_add(1); }",
 "static void epoch_inc() {\n    YAKUSHIMA_VERIF_PRE(k_rmw, o_epoch, &epoch_);\n    Epoch old_ = epoch_.fetch_add(1);\n    YAKUSHIMA_VERIF_POST(k_rmw, o_epoch, &epoch_, old_ + 1, 1);\n}")
wrap("epoch.h","static Epoch get_epoch() { return epoch_.load(std::memory_order_acquire); }",
 "static Epoch get_epoch() {\n    YAKUSHIMA_VERIF_PRE(k_load, o_epoch, &epoch_);\n    Epoch e_ = epoch_.load(std::memory_order_acquire);\n    YAKUSHIMA_VERIF_POST(k_load, o_epoch, &epoch_, e_, 1);\n    return e_;\n}")

# garbage_collection.h
wrap("garbage_collection.h","        return gc_epoch_.load(std::memory_order_acquire);",
 "YAKUSHIMA_VERIF_PRE(k_load, o_gc_epoch, &gc_epoch_);\nEpoch g_ = gc_epoch_.load(std::memory_order_acquire);\nYAKUSHIMA_VERIF_POST(k_load, o_gc_epoch, &gc_epoch_, g_, 1);\nreturn g_;")
ins("garbage_collection.h","gc_epoch_.store(epoch, std::memory_order_release);","YAKUSHIMA_VERIF_PRE(k_store, o_gc_epoch, &gc_epoch_);\nYAKUSHIMA_VERIF_POST(k_store, o_gc_epoch, &gc_epoch_, epoch, 1);")
ins("garbage_collection.h","        node_container_.push(elem);","YAKUSHIMA_VERIF_PRE(k_retire, o_gc_queue, &node_container_);\nYAKUSHIMA_VERIF_POST(k_retire, o_gc_queue, std::get<gc_target_index>(elem), std::get<gc_epoch_index>(elem), 0);")
ins("garbage_collection.h","        value_container_.push(elem);","YAKUSHIMA_VERIF_PRE(k_retire, o_gc_queue, &value_container_);\nYAKUSHIMA_VERIF_POST(k_retire, o_gc_queue, std::get<gc_target_index>(elem), std::get<gc_epoch_index>(elem), 1);")
ins("garbage_collection.h","delete std::get<gc_target_index>(cache_node_container_); // NOLINT","YAKUSHIMA_VERIF_POST(k_reclaim, o_gc_queue, std::get<gc_target_index>(cache_node_container_), std::get<gc_epoch_index>(cache_node_container_), 0);",count=2)
ins("garbage_collection.h","delete std::get<gc_target_index>(elem); // NOLINT","YAKUSHIMA_VERIF_POST(k_reclaim, o_gc_queue, std::get<gc_target_index>(elem), std::get<gc_epoch_index>(elem), 0);",count=2)
ins("garbage_collection.h","            ::operator delete($","YAKUSHIMA_VERIF_POST(k_reclaim, o_gc_queue, std::get<gc_target_index>(cache_value_container_), std::get<gc_epoch_index>(cache_value_container_), 1);",count=2)
ins("garbage_collection.h","            ::operator delete(std::get<gc_target_index>(elem),","YAKUSHIMA_VERIF_POST(k_reclaim, o_gc_queue, std::get<gc_target_index>(elem), std::get<gc_epoch_index>(elem), 1);",count=2)
ins("garbage_collection.h","        while (!node_container_.empty()) {","YAKUSHIMA_VERIF_PRE(k_load, o_gc_queue, &node_container_);",count=2)
ins("garbage_collection.h","        while (!value_container_.empty()) {","YAKUSHIMA_VERIF_PRE(k_load, o_gc_queue, &value_container_);",count=2)
ins("garbage_collection.h","if (!node_container_.try_pop(elem)) { continue; }","YAKUSHIMA_VERIF_PRE(k_rmw, o_gc_queue, &node_container_);",count=2)
ins("garbage_collection.h","if (!value_container_.try_pop(elem)) { continue; }","YAKUSHIMA_VERIF_PRE(k_rmw, o_gc_queue, &value_container_);",count=2)

# manager_thread.h
ins("manager_thread.h","if (kEpochThreadEnd.load(std::memory_order_acquire)) break;","YAKUSHIMA_VERIF_PRE(k_load, o_end_flag, &kEpochThreadEnd);")
ins("manager_thread.h","if (kEpochThreadEnd.load(std::memory_order_acquire)) { break; }","YAKUSHIMA_VERIF_PRE(k_load, o_end_flag, &kEpochThreadEnd);")
ins("manager_thread.h","if (kGCThreadEnd.load(std::memory_order_acquire)) { break; }","YAKUSHIMA_VERIF_PRE(k_load, o_end_flag, &kGCThreadEnd);")
ins("manager_thread.h","kEpochThreadEnd.store(true, std::memory_order_release);","YAKUSHIMA_VERIF_PRE(k_store, o_end_flag, &kEpochThreadEnd);")
ins("manager_thread.h","kGCThreadEnd.store(true, std::memory_order_release);","YAKUSHIMA_VERIF_PRE(k_store, o_end_flag, &kGCThreadEnd);")

# clock.h
ins("clock.h","    std::this_thread::sleep_for(std::chrono::milliseconds(ms));","#ifdef YAKUSHIMA_VERIF\nif (auto* yh_ = ::yakushima::verif::get(); yh_ && yh_->sleep && yh_->sleep(ms)) { return; }\n#endif")

include("clock.h",'#include "log.h"')
include("version.h",'#include "atomic_wrapper.h"')
