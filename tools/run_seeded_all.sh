#!/bin/sh
# usage: run_seeded_all.sh <srcdir> <outdir> : for every seeded change <srcdir>/<id>/patch.diff apply it to /repo, run
# ./check <id> (quick tier), record exit code + VIOLATION lines in <outdir>/<id>.json, undo it.
SRC=$1; OUT=$2; mkdir -p $OUT
for d in $SRC/C*; do
  id=$(basename $d)
  [ -f $d/patch.diff ] || continue
  git -C /repo apply $d/patch.diff || { echo "{\"$id\": \"patch does not apply\"}" > $OUT/$id.json; continue; }
  start=$(date +%s)
  (cd /verif && ./check $id > $OUT/$id.log 2>&1); rc=$?
  end=$(date +%s)
  git -C /repo checkout -- .
  python3 - "$id" "$rc" "$OUT" "$((end-start))" <<'PY'
import json,sys,re
pid,rc,out,secs=sys.argv[1],int(sys.argv[2]),sys.argv[3],int(sys.argv[4])
log=open("%s/%s.log"%(out,pid)).read()
viol=[l for l in log.split("\n") if l.startswith("VIOLATION")]
what=[l.strip()[3:].strip() for l in log.split("\n") if l.strip().startswith("->")]
json.dump({"command":"git -C /repo apply seeded/%s/patch.diff && ./check %s (quick tier) && git -C /repo checkout -- ."%(pid,pid),
           "exit_code":rc,"violation_lines":viol,"first_report":(what[0][:600] if what else ""),"seconds":secs,
           "detected": rc==1 and bool(viol)}, open("%s/%s.json"%(out,pid),"w"), indent=1)
PY
  echo "$id rc=$rc"
done
git -C /repo status --short | grep -v _build
