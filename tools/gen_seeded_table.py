#!/usr/bin/env python3
"""print the markdown table of DESIGN.md section 8 from /verif/seeded/*/meta.json"""
import json, os, glob
rows = []
for d in sorted(glob.glob("/verif/seeded/*")):
    mp = os.path.join(d, "meta.json")
    if not os.path.exists(mp):
        continue
    m = json.load(open(mp))
    ck = m.get("checks_run", {})
    rows.append("| %s | %s | %s | %s | %s |" % (
        os.path.basename(d), m.get("summary", "")[:160].replace("|", "/"), ", ".join(m.get("files_changed", [])).replace("include/", ""),
        "yes" if ck.get("detected") else "NO", (ck.get("first_report", "") or "")[:170].replace("|", "/").replace("\n", " ")))
print("| seeded change | what it does | file | caught by `./check <id>` (quick) | first report |")
print("|---|---|---|---|---|")
print("\n".join(rows))
