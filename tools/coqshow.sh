#!/bin/sh
# usage: coqshow.sh File.v LINE  -- print the goal just before LINE (debug aid)
f=$1; n=$2
b=$(basename $f .v)
head -n $((n-1)) $f > /tmp/dbg/${b}_dbg.v
echo "Show. Abort All." >> /tmp/dbg/${b}_dbg.v
cd $(dirname $f) && timeout 120 coqc -Q . Yk /tmp/dbg/${b}_dbg.v 2>&1 | head -${3:-60}
