#!/bin/sh
# usage: try_seeded.sh <patch> <check id> [more ids]: apply a seeded change to /repo, run the checks, undo it
P=$1; shift
git -C /repo apply "$P" || { echo "patch does not apply"; exit 2; }
for id in "$@"; do
  out=$(cd /verif && ./check $id 2>&1 | tail -3)
  echo "[$id] $out" | cut -c1-600
done
git -C /repo checkout -- .
git -C /repo status --short | grep -v _build
