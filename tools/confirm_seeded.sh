#!/bin/sh
# usage: confirm_seeded.sh <id> : in a scratch worktree, confirm that the seeded change of /tmp/mut_out/<id>
# compiles, passes the existing suite, and that its demo passes without and fails with the change.
ID=$1
ROOT=${2:-/tmp/mut_out}
SRC=$ROOT/$ID
W=/tmp/cw_seed
TAG=${3:-}
OUT=/tmp/confirm/$ID$TAG.txt
mkdir -p /tmp/confirm
[ -d $W ] || git -C /repo worktree add -f $W HEAD -q
cd $W && git checkout -q -- . && git clean -fdq -e _b
if [ ! -d third_party/googletest/googletest ] || [ -z "$(ls third_party/googletest 2>/dev/null)" ]; then cp -r /repo/third_party/googletest/* third_party/googletest/ 2>/dev/null; fi
{
echo "== $ID"
FLAGS="-std=c++17 -O1 -I$W/include -DYAKUSHIMA_LINUX -DYAKUSHIMA_EPOCH_TIME=40 -DYAKUSHIMA_MAX_PARALLEL_SESSIONS=8"
g++ $FLAGS $SRC/demo.cpp -o /tmp/confirm/demo_$ID.clean -lglog -ltbb -lpthread 2>&1 | grep -E "error" | head -3
timeout 300 /tmp/confirm/demo_$ID.clean > /tmp/confirm/demo_$ID.clean.out 2>&1; echo "demo without change: exit $?"
git apply $SRC/patch.diff && echo "patch applies" || echo "PATCH DOES NOT APPLY"
g++ $FLAGS $SRC/demo.cpp -o /tmp/confirm/demo_$ID.mut -lglog -ltbb -lpthread 2>&1 | grep -E "error" | head -3
timeout 300 /tmp/confirm/demo_$ID.mut > /tmp/confirm/demo_$ID.mut.out 2>&1; echo "demo with change: exit $?"
tail -3 /tmp/confirm/demo_$ID.mut.out | cut -c1-300
cmake -G Ninja -S . -B _b -DCMAKE_BUILD_TYPE=RelWithDebInfo -DBUILD_BENCHMARK=OFF -DBUILD_DOCUMENTS=OFF > /dev/null 2>&1
cmake --build _b -- -k 0 > /tmp/confirm/build_$ID.log 2>&1
echo "build failures: $(grep -c '^FAILED' /tmp/confirm/build_$ID.log)"
ctest --test-dir _b -j8 --timeout 600 > /tmp/confirm/ctest_$ID.log 2>&1
grep -E "tests passed|tests failed" /tmp/confirm/ctest_$ID.log
grep -E "\*\*\*" /tmp/confirm/ctest_$ID.log | head -8
git checkout -q -- .
rm -f /tmp/confirm/demo_$ID.clean /tmp/confirm/demo_$ID.mut
} > $OUT 2>&1
cat $OUT
