#!/usr/bin/env python3
"""import a confirmed seeded change from /tmp/mut_out/<id> into /verif/seeded/<id>/ with meta.json
usage: import_seeded.py <id> <detecting checks comma separated> <summary of check outputs file>"""
import json, os, re, shutil, sys
pid = sys.argv[1]
srcroot = sys.argv[3] if len(sys.argv) > 3 else "/tmp/mut_out"
name = sys.argv[4] if len(sys.argv) > 4 else pid
src = "%s/%s" % (srcroot, pid)
dst = "/verif/seeded/%s" % name
os.makedirs(dst, exist_ok=True)
for f in ("patch.diff", "demo.cpp", "notes.md"):
    if os.path.exists(os.path.join(src, f)):
        shutil.copy(os.path.join(src, f), os.path.join(dst, f))
conf = open("/tmp/confirm/%s.txt" % pid).read() if os.path.exists("/tmp/confirm/%s.txt" % pid) else ""
notes = open(os.path.join(src, "notes.md")).read() if os.path.exists(os.path.join(src, "notes.md")) else ""
needs = ""
m = re.search(r"(?is)(needs|to manifest|manifest)[^\n]*\n(.{0,600})", notes)
if m:
    needs = m.group(0)[:600]
detect = json.load(open(sys.argv[2])) if len(sys.argv) > 2 and os.path.exists(sys.argv[2]) else {}
summary = ""
for ln in notes.split("\n"):
    if ln.strip().startswith("#"):
        summary = ln.strip("# ").strip()
        break
meta = dict(property=pid, summary=summary, source="independent sub-agent given only the property text and a scratch worktree",
            files_changed=sorted(set(re.findall(r"^\+\+\+ b/(\S+)", open(os.path.join(dst, "patch.diff")).read(), flags=re.M))),
            needs_to_manifest=needs,
            confirmed=dict(how="tools/confirm_seeded.sh: scratch worktree; demo built against unmodified and modified headers; "
                               "full pinned suite rebuilt and run with the change", log=conf),
            checks_run=detect)
json.dump(meta, open(os.path.join(dst, "meta.json"), "w"), indent=1)
print("imported", pid)
