"""C15 -- values: layout, tags (leaf part, bit for bit against ValueDefs) and the concurrent clause: a reader
racing with overwrites of the same key (values of different lengths) returns exactly one of the written
values -- right bytes, right length -- judged by the verified linearizability checker."""
import json

from . import common as C
from . import conc
from . import leaf


def gen_overwrite(rng, shape):
    sc = conc.gen_scenario(rng, shape, kinds=("put", "put", "get", "get", "uput"), nthreads=rng.choice([2, 3]),
                           ops_per_thread=rng.choice([1, 2]), scans=rng.random() < 0.3)
    return sc


def conc_part(res):
    import random
    from . import seq
    seq.scripts_phase(res, "c15", seq.gen_overwrite_scripts(random.Random(res.seed + 5), res.tier), ["res", "alloc"],
                      "overwrite_scripts")
    conc.conc_phase(res, "c15", ("lin", "null", "scan", "deadlock"), ["single", "last", "sublayer-last"], (), False,
                    150 if res.tier == "quick" else 1000,
                    ("preempt1",) if res.tier == "quick" else ("preempt1", "preempt2", "pct"),
                    3 if res.tier == "quick" else 12, gen=gen_overwrite, label="overwrite_vs_reader")


def run(tier, seed):
    res = C.Result("C15", tier, seed, level="proof")
    res.assumptions = [
        "theorems are about the Coq definitions (coq/*Defs.v); tie: every real leaf function is run on generated "
        "arguments and compared bit for bit with the extracted definitions",
        "the concurrent clause (old or new value, never a mixture) is explored on the real library under the scheduler "
        "(sequentially consistent interleavings at hook granularity: the byte copy of a value is one step)",
    ]
    return leaf.run_leaf_property(res, "c15", leaf.gen_val, leaf.nontrivial_val, post=conc_part)


def replay(path, tier, seed):
    r = json.load(open(path))
    if str(r.get("kind", "")).startswith("seq-"):
        from . import seq
        return seq.replay_seq("C15", "c15", path, ["res", "alloc"])
    if str(r.get("kind", "")).startswith("conc-"):
        print(json.dumps(r, indent=1)[:3000])
        return 1
    res = C.Result("C15", tier, seed)
    return leaf.replay(res, "c15", path)
