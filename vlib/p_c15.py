"""C15 -- values: layout, tags (leaf part)"""
from . import common as C
from . import leaf


def run(tier, seed):
    res = C.Result("C15", tier, seed, level="proof")
    res.assumptions = [
        "theorems are about the Coq definitions (coq/*Defs.v); tie: every real leaf function is run on generated "
        "arguments and compared bit for bit with the extracted definitions",
    ]
    return leaf.run_leaf_property(res, "c15", leaf.gen_val, leaf.nontrivial_val)


def replay(path, tier, seed):
    res = C.Result("C15", tier, seed)
    return leaf.replay(res, "c15", path)
