"""C06 -- a concurrent insert is seen by the scan or invalidates its node-version set.

Theorems: coq/BorderScanProofs.v (scanner over one border node, any
interleaving: a key that is bound and missing from a completed scan's result
implies the node's insert counter differs from the recorded one once the insert
has unlocked) + VersionProofs (equal stable versions => no completed insert).
Exploration (not proof): multi-node scans against inserts that split nodes the
scanner has left / is reading / has not reached, on the real code under the
scheduler; the oracle is the property itself, evaluated after all operations
have completed (the driver re-validates the collected pairs before leaving)."""
import json

from . import common as C
from . import conc

WANT = ("seen_or_stale", "scan", "null", "deadlock")


def run(tier, seed):
    res = C.Result("C06", tier, seed, level="proof")
    res.assumptions = ["proof covers one border node; the hand-over between nodes under splits is explored, not proved",
                       "sequentially consistent interleavings only"]
    return conc.run_conc_property(res, "c06", WANT, ["single", "full", "two", "interior", "sublayer", "empty"],
                                  ("put", "uput"), True, 150, 1500, tie_shapes=(),
                                  catalogue_filter=lambda sc: any(o.startswith("scan") or "getmiss" in sc.name for ops in sc.threads for o in ops))


def replay(path, tier, seed):
    r = json.load(open(path))
    print(json.dumps(r, indent=1)[:3000])
    return 1
