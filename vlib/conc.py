"""Concurrent exploration (T3 support): scenarios on prepared tree shapes run on
the real hooked library under the deterministic scheduler (harness/sched.h,
harness/conc_driver.cpp).  Strategies: exhaustive with a bounded number of
preemptions, PCT, random.  Oracles: per-key linearizability (LinCheck), scan
per-key consistency, null/torn values, deadlock / step budget / lock bits,
quiescent coherence."""
import itertools
import os
import random
import re
import subprocess
from concurrent.futures import ThreadPoolExecutor

from . import common as C


def hx(b):
    return "-" if len(b) == 0 else bytes(b).hex()


def inline_bytes(v):
    """the 8-byte inline value derived from v: three payload bytes, upper bytes zero (a small word, no tag bits)"""
    return (bytes(v)[:3] + b"\0" * 8)[:8]


def inline_word_hex(v8):
    """what get prints for an inline value (the slot word, little endian)"""
    return "%x" % int.from_bytes(bytes(v8), "little")


# ------------------------------------------------------------------ scenarios
class Scenario:
    def __init__(self, name, setup, threads, finals, storage=b"s"):
        self.name, self.setup, self.threads, self.finals, self.storage = name, setup, threads, finals, storage

    events = False
    inline = False        # store 8-byte inline values instead of out-of-line ones
    removed = ()          # keys removed again during preparation (shapes with nearly empty nodes)

    def initial(self):
        return {k: v for k, v in self.setup if k not in set(self.removed)}

    def text(self, mode_line):
        out = [mode_line]
        if self.events:
            out.append("events")
        out.append("setup create " + hx(self.storage))
        for nm in getattr(self, "more_storages", ()):
            out.append("setup create " + hx(nm))
        for k, v in self.setup:
            if self.inline:
                out.append("setup put %s %s %s 8 1" % (hx(self.storage), hx(k), hx(inline_bytes(v))))
            else:
                out.append("setup put %s %s %s 1 0" % (hx(self.storage), hx(k), hx(v)))
        for k in self.removed:
            out.append("setup rem %s %s" % (hx(self.storage), hx(k)))
        for t, ops in enumerate(self.threads):
            for o in ops:
                out.append("thread %d %s" % (t, o))
        out.append("final %s %s" % (hx(self.storage), " ".join(hx(k) for k in self.finals)))
        return "\n".join(out) + "\n"


def shape_keys(rng, shape):
    """prepared content for a tree shape"""
    if shape == "empty":
        return []
    if shape == "single":
        return [bytes([0x61 + i]) for i in range(rng.randrange(1, 4))]
    if shape == "last":
        return [b"k"]
    if shape == "full":
        return [bytes([0x41 + 2 * i]) for i in range(15)]
    if shape == "two":
        return [bytes([0x30 + 2 * i]) for i in range(20)]
    if shape == "interior":
        return [bytes([0x20 + (i // 8), 0x30 + 2 * (i % 8)]) for i in range(40)]
    if shape == "sublayer":
        p = b"prefix88"
        return [p + bytes([0x61 + i]) for i in range(3)] + [b"a", b"z"]
    if shape == "sublayer-last":
        return [b"prefix88x", b"a"]
    raise ValueError(shape)


def gen_collapse(rng, shape="collapse", prefix=b""):
    """two borders under an interior root, one of them down to its last one or two keys: removing them unlinks the
    border, collapses the interior node and promotes the sibling to layer root (atomic_set_root on a node that
    another thread may hold locked) while that sibling is being written"""
    if shape.endswith("-l1"):
        prefix = b"prefix88"            # the same structure one trie layer down (the layer's root is an interior node)
    keys = [prefix + bytes([0x30 + 2 * i]) for i in range(20)]
    st = b"s"
    setup = [(k, b"i" + k[-1:]) for k in keys]
    left = rng.random() < 0.6
    if left:
        keep = rng.choice([1, 1, 2])
        removed = keys[keep:rng.choice([7, 8])]
        victims = keys[:keep]
        other = keys[10:]
    else:
        keep = rng.choice([1, 1, 2])
        removed = keys[rng.choice([8, 9]):20 - keep]
        victims = keys[20 - keep:]
        other = keys[:6]
    t0 = ["rem %s %s" % (hx(st), hx(k)) for k in victims]
    t1 = []
    for j in range(rng.choice([1, 2])):
        base = rng.choice(other)
        r = rng.random()
        if r < 0.5:
            t1.append("put %s %s %s 1 0" % (hx(st), hx(base + b"n%d" % j), hx(b"t1_%d" % j)))
        elif r < 0.75:
            t1.append("put %s %s %s 1 0" % (hx(st), hx(base), hx(b"t1_%d" % j)))
        else:
            t1.append("rem %s %s" % (hx(st), hx(base)))
    threads = [t0, t1]
    if rng.random() < 0.3:
        threads.append(["get %s %s" % (hx(st), hx(rng.choice(other)))])
    sc = Scenario(shape, setup, threads, sorted(set(keys) | {unhex(x.split()[2]) for x in t1}), st)
    sc.removed = tuple(removed)
    return sc


def gen_collapse_scan(rng, shape="collapse-scan", prefix=b""):
    """a scan standing between two borders while the one it just left is emptied and unlinked and keys at or
    below the ones already delivered are (re)inserted: they land in the next border, whose range grew to the left"""
    if shape.endswith("-l1"):
        prefix = b"prefix88"
    keys = [prefix + bytes([0x30 + 2 * i]) for i in range(20)]
    st = b"s"
    setup = [(k, b"i" + k[-1:]) for k in keys]
    if prefix:
        setup = [(b"a", b"ia")] + setup + [(b"z", b"iz")]
    keep = rng.choice([1, 1, 2])
    removed = keys[keep:rng.choice([7, 8])]
    victims = keys[:keep]
    t1 = ["rem %s %s" % (hx(st), hx(k)) for k in victims]
    back = rng.choice([victims[0], victims[-1], victims[0] + b"a", victims[0][:-1] + bytes([victims[0][-1] - 1])])
    if prefix and rng.random() < 0.5:
        t1 = t1[:1]                     # only unlink / collapse, no re-insert
    t1.append("put %s %s %s 1 0" % (hx(st), hx(back), hx(b"again")))
    mode = rng.random()
    if mode < 0.6:
        t0 = ["scan %s - INF - INF 0 0" % hx(st)]
    elif mode < 0.8:
        t0 = ["scan %s - INF - INF %d 0" % (hx(st), rng.choice([3, 5]))]
    else:
        t0 = ["scan %s %s IN %s IN 0 0" % (hx(st), hx(keys[0]), hx(keys[15]))]
    threads = [t0, t1]
    sc = Scenario(shape, setup, threads, sorted(set(keys) | {back}), st)
    sc.removed = tuple(removed)
    return sc


def catalogue():
    """targeted scenarios aimed at the case splits of the protocol (run exhaustively with one preemption in every
    tier, before the random scenarios): -> list of Scenario"""
    st = b"s"
    S = hx(st)
    out = []

    def mk(name, keys, threads, removed=(), extra_finals=(), inline=False):
        setup = [(k, b"i" + k[-1:]) for k in keys]
        sc = Scenario("cat:" + name, setup, threads, sorted(set(keys) | set(extra_finals)), st)
        sc.removed = tuple(removed)
        sc.inline = inline
        out.append(sc)

    full = [bytes([0x41 + 2 * i]) for i in range(15)]
    two = [bytes([0x30 + 2 * i]) for i in range(20)]
    sub = [b"prefix88a", b"prefix88b", b"prefix88c", b"a", b"z"]
    links_only = [b"prefix88a", b"prefix88b", b"prefiy88a", b"prefiy88b"]
    P = lambda k, v: "put %s %s %s 1 0" % (S, hx(k), hx(v))
    U = lambda k, v: "uput %s %s %s 1 0" % (S, hx(k), hx(v))
    R = lambda k: "rem %s %s" % (S, hx(k))
    G = lambda k: "get %s %s" % (S, hx(k))
    ALL = "scan %s - INF - INF 0 0" % S
    RTL = "scan %s - INF - INF 1 1" % S
    # same new key inserted twice
    for nm, keys, k in (("single", [b"a", b"c"], b"b"), ("full", full, b"B"), ("sublayer", sub, b"prefix88d"),
                        ("newlayer", sub, b"prefix99x")):
        mk("uput-uput-" + nm, keys, [[U(k, b"t0")], [U(k, b"t1x")]], extra_finals=[k])
        mk("put-put-rem-" + nm, keys, [[P(k, b"t0")], [P(k, b"t1x"), R(k), G(k)]], extra_finals=[k])
    # update of an existing key while its border splits / is emptied and unlinked
    for k in (full[1], full[7], full[8], full[13]):
        mk("update-vs-split-%s" % k.hex(), full, [[P(k, b"upd")], [P(b"J" + b"x", b"new")]], extra_finals=[b"Jx"])
    mk("update-vs-unlink", two, [[P(two[0], b"upd")], [R(two[0])]], removed=two[1:8])
    mk("get-vs-unlink", two, [[G(two[0]), G(two[12])], [R(two[0]), P(two[0], b"again")]], removed=two[1:8])
    mk("rem-rem", [b"a", b"b"], [[R(b"a")], [R(b"a")]])
    # the same races on inline (8-byte, stored in the slot word) values: remove does not clear such a slot
    PI = lambda k, v: "put %s %s %s 8 1" % (S, hx(k), hx(inline_bytes(v)))
    mk("rem-rem-inline", [b"a", b"b"], [[R(b"a")], [R(b"a")]], inline=True)
    mk("rem-rem-get-inline", [b"a", b"b", b"c"], [[R(b"b"), G(b"b")], [R(b"b")], [G(b"b")]], inline=True)
    mk("rem-put-inline", [b"a", b"b"], [[R(b"a"), G(b"a")], [PI(b"a", b"nw")]], inline=True)
    mk("get-vs-rem-put-other-inline", [b"a", b"b"], [[G(b"a")], [R(b"a"), PI(b"c", b"other")]], extra_finals=[b"c"], inline=True)
    # a miss (get of an absent key records the border's version) racing with the insert of that key
    mk("getmiss-vs-insert", [b"a", b"c"], [[G(b"b")], [P(b"b", b"new")]], extra_finals=[b"b"])
    mk("getmiss-vs-insert-full", full, [[G(b"B")], [P(b"B", b"new")]], extra_finals=[b"B"])
    mk("getmiss-vs-insert-layer", sub, [[G(b"prefix88d")], [P(b"prefix88d", b"new")]], extra_finals=[b"prefix88d"])
    # a reader of k racing with remove(k) + insert of ANOTHER key that re-uses the freed slot
    mk("get-vs-rem-put-other", [b"a", b"b"], [[G(b"a")], [R(b"a"), P(b"c", b"other-key-value")]], extra_finals=[b"c"])
    mk("get-vs-rem-put-other2", [b"a", b"b", b"c"], [[G(b"b"), G(b"b")], [R(b"b"), P(b"bb", b"zz")]], extra_finals=[b"bb"])
    mk("get-vs-rem-put-other-lastkey", [b"a"], [[G(b"a")], [R(b"a"), P(b"c", b"other-key-value")]], extra_finals=[b"c"])
    mk("uput-uput-after-emptied", [b"a"], [[U(b"c", b"t0")], [R(b"a"), U(b"c", b"t1x")]], extra_finals=[b"c"])
    mk("get-vs-rem-put-other-lastkey-l1", [b"prefix88a", b"z"], [[G(b"prefix88a")], [R(b"prefix88a"), P(b"prefix88c", b"other")]],
       extra_finals=[b"prefix88c"])
    # a reader of the greatest / a middle key racing with a remove or an insert of another key (ranks shift)
    mk("get-last-vs-rem-first", [b"a", b"b", b"c"], [[G(b"c")], [R(b"a")]])
    mk("get-last-vs-rem-mid", [b"a", b"b", b"c", b"d"], [[G(b"d"), G(b"c")], [R(b"b")]])
    mk("get-mid-vs-put-first", [b"b", b"c", b"d"], [[G(b"c"), G(b"d")], [P(b"a", b"nw")]], extra_finals=[b"a"])
    mk("rem-last-vs-rem-first", [b"a", b"b", b"c"], [[R(b"c")], [R(b"a")]])
    mk("uput-last-vs-rem-first", [b"a", b"b", b"c"], [[U(b"c", b"dup")], [R(b"a")]])
    mk("rem-put-get", [b"a", b"b"], [[R(b"a"), G(b"a")], [P(b"a", b"nw")], [G(b"a")]])
    # scans against splits
    for newk in (b"Z", b"J", b"B"):
        mk("rtl-vs-split-%s" % newk.hex(), full, [[RTL], [P(newk, b"new")]], extra_finals=[newk])
        mk("scan-vs-split-%s" % newk.hex(), full, [[ALL], [P(newk, b"new")]], extra_finals=[newk])
        mk("limited-vs-split-%s" % newk.hex(), full, [["scan %s - INF - INF 9 0" % S], [P(newk, b"new")]], extra_finals=[newk])
    # right-to-left scan while the last border loses its last key and is unlinked: the answer moves to the left border
    mk("rtl-vs-unlink-last", two, [[RTL], [R(two[19])]], removed=two[8:19])
    mk("rtl-vs-unlink-last-reinsert", two, [[RTL], [R(two[19]), P(two[19] + b"a", b"new")]], removed=two[8:19],
       extra_finals=[two[19] + b"a"])
    mk("rtl-vs-unlink-last-l1", [b"a"] + [b"prefix88" + k for k in two] + [b"prefix99"],
       [["scan %s - INF - INF 1 1" % S], [R(b"prefix99")]])
    # a scan that first visits a border WITHOUT a hit (left endpoint above all its keys), then retries in the next border
    # because of an insert there; afterwards an insert into the first border's part of the range must still be detected
    mk("nohit-border-then-retry", two, [["scan %s %s IN - INF 0 0" % (S, hx(two[7] + b"a"))],
                                        [P(two[12] + b"x", b"new"), P(two[7] + b"b", b"new2")]],
       extra_finals=[two[12] + b"x", two[7] + b"b"])
    mk("nohit-border-then-retry3", two, [["scan %s %s IN - INF 0 0" % (S, hx(two[7] + b"a"))],
                                         [P(two[12] + b"x", b"new")], [P(two[7] + b"b", b"new2")]],
       extra_finals=[two[12] + b"x", two[7] + b"b"])
    mk("rtl-vs-split-two", two, [[RTL], [P(two[-1] + b"a", b"new"), P(two[-1] + b"b", b"new")]],
       extra_finals=[two[-1] + b"a", two[-1] + b"b"])
    # scan whose in-range entries of the enclosing border are all layer links, against an insert into that border
    mk("links-only-scan-vs-insert", links_only, [[ALL], [P(b"q", b"new")]], extra_finals=[b"q"])
    mk("links-only-range-vs-insert", sub, [["scan %s %s IN %s IN 0 0" % (S, hx(b"prefix88"), hx(b"prefix88z"))],
                                           [P(b"prefix88", b"new")]], extra_finals=[b"prefix88"])
    # a size-limited scan that ends below a link of a border which produced no tuple of its own, against an insert
    # into that border in front of the link
    mk("links-only-limited-vs-insert-before", links_only, [["scan %s - INF - INF 1 0" % S], [P(b"a", b"new")]],
       extra_finals=[b"a"])
    mk("links-only-limited2-vs-insert-before", links_only, [["scan %s - INF - INF 3 0" % S], [P(b"pa", b"new")]],
       extra_finals=[b"pa"])
    mk("sublayer-scan-vs-layer-insert", sub, [[ALL], [P(b"prefix88bb", b"new")]], extra_finals=[b"prefix88bb"])
    # cursors driven to their end against writers that empty / split the layer they stand in
    IALL = "iscan %s - INF - INF 0 0" % S
    IREV = "iscan %s - INF - INF 0 1" % S
    for nm, cur in (("fwd", IALL), ("rev", IREV)):
        mk("cursor-%s-vs-layer-emptied" % nm, sub, [[cur], [R(b"prefix88a"), R(b"prefix88b"), R(b"prefix88c")]])
        mk("cursor-%s-vs-layer-root-split" % nm, [b"prefix88" + bytes([0x61 + i]) for i in range(15)] + [b"a", b"z"],
           [[cur], [P(b"prefix88A", b"new")]], extra_finals=[b"prefix88A"])
        mk("cursor-%s-vs-split" % nm, full, [[cur], [P(b"J", b"new")]], extra_finals=[b"J"])
        mk("cursor-%s-vs-unlink" % nm, two, [[cur], [R(two[0]), P(two[0], b"again")]], removed=two[1:8])
    # a tree whose keys were all removed again (the emptied root stays, flagged deleted): scan / miss, then insert
    mk("emptied-scan-vs-insert", [b"a", b"b"], [[ALL], [P(b"q", b"new")]], removed=[b"a", b"b"], extra_finals=[b"q"])
    mk("emptied-getmiss-vs-insert", [b"a", b"b"], [[G(b"q")], [P(b"q", b"new")]], removed=[b"a", b"b"], extra_finals=[b"q"])
    mk("emptied-scan-then-insert", [b"a"], [[ALL, P(b"q", b"new")]], removed=[b"a"], extra_finals=[b"q"])
    # the same one trie layer down: the root of the next layer is an interior node that collapses under the scan
    two1 = [b"prefix88" + k for k in two]
    for nm, rd in (("scan", ALL), ("cursor", IALL), ("cursor-rev", IREV)):
        mk("l1-%s-vs-collapse" % nm, [b"a"] + two1 + [b"z"], [[rd], [R(two1[0])]], removed=two1[1:8])
        mk("l1-%s-vs-collapse-right" % nm, [b"a"] + two1 + [b"z"], [[rd], [R(two1[19])]], removed=two1[9:19])
    # interior collapse while the promoted sibling is full and is being split (it needs its parent's lock)
    k23 = [bytes([0x30 + 2 * i]) for i in range(23)]        # ascending inserts: borders of 8 and 15 entries
    for pfx, tag in ((b"", "l0"), (b"prefix88", "l1")):
        kk = [pfx + k for k in k23]
        extra = [b"a", b"z"] if pfx else []
        mk("collapse-vs-split-" + tag, extra[:1] + kk + extra[1:], [[R(kk[0])], [P(kk[20] + b"x", b"new")]], removed=kk[1:8],
           extra_finals=[kk[20] + b"x"])
        mk("collapse-vs-split-low-" + tag, extra[:1] + kk + extra[1:], [[R(kk[0])], [P(kk[9] + b"x", b"new")], [G(kk[22])]],
           removed=kk[1:8], extra_finals=[kk[9] + b"x"])
    # scan standing between two borders while the left one is emptied and unlinked (F8)
    mk("scan-vs-unlink-reinsert", two, [["scan %s %s IN %s IN 0 0" % (S, hx(two[0]), hx(two[15]))],
                                        [R(two[0]), P(two[0], b"again")]], removed=two[1:8])
    mk("scan-vs-unlink-smaller", two, [[ALL], [R(two[0]), P(b"/", b"small")]], removed=two[1:8], extra_finals=[b"/"])
    return out


def catalogue_gen(rng, name):
    """conc_phase generator: the catalogue scenario called cat:<name>"""
    for sc in catalogue():
        if sc.name == "cat:" + name:
            return sc
    raise KeyError(name)


def gen_storage_race(rng, shape="storages"):
    """concurrent create/create, delete/delete and create/delete/find on the same names"""
    existing = [b"t1", b"t12345678", b"t123456789"][:rng.choice([0, 1, 2, 3])]
    names = existing + [b"n", b"t12345678x", b""][:rng.choice([1, 2])]
    hot = rng.sample(names, min(len(names), rng.choice([1, 1, 2])))
    mode = rng.choice(["cc", "dd", "mix", "mix"])
    threads = []
    for t in range(rng.choice([2, 2, 3])):
        ops = []
        for j in range(rng.choice([1, 2])):
            nm = rng.choice(hot)
            kind = {"cc": "create", "dd": "dropst"}.get(mode) or rng.choice(["create", "dropst", "find"])
            ops.append("%s %s" % (kind, hx(nm)))
        threads.append(ops)
    sc = Scenario(shape, [(b"k", b"v")], threads, [b"k"], b"s")
    sc.more_storages = tuple(existing)
    return sc


SHAPES = ["single", "last", "full", "two", "interior", "sublayer", "sublayer-last", "empty"]


def gen_scenario(rng, shape, kinds=("put", "get", "rem", "uput"), nthreads=2, ops_per_thread=2, scans=False):
    keys = shape_keys(rng, shape)
    st = b"s"
    setup = [(k, b"i" + k[-1:] + b"y" * (i % 3)) for i, k in enumerate(keys)]
    # hot keys: existing ones, neighbours (new keys landing in the same node), same-key races
    pool = list(keys[:4]) + list(keys[-2:])
    if keys:
        base = rng.choice(keys)
        pool += [base[:-1] + bytes([base[-1] + 1]), base + b"x"]
    else:
        pool += [b"a", b"b"]
    if shape.startswith("sublayer"):
        pool += [b"prefix88", b"prefix88" + b"y", b"prefix8"]
    hot = rng.sample(pool, min(len(pool), rng.choice([1, 2, 3])))
    threads = []
    vcount = 0
    for t in range(nthreads):
        ops = []
        for j in range(ops_per_thread):
            k = rng.choice(hot)
            kind = rng.choice(kinds)
            if scans and rng.random() < 0.4:
                kind = "scan"
            if kind in ("put", "uput"):
                vcount += 1
                v = b"t%d_%d" % (t, j) + b"x" * rng.choice([0, 0, 3, 9, 40])
                ops.append("%s %s %s %s 1 0" % (kind, hx(st), hx(k), hx(v)))
            elif kind == "scan":
                mode = rng.random()
                if mode < 0.6:
                    ops.append("scan %s - INF - INF %d 0" % (hx(st), rng.choice([0, 0, 2])))
                elif mode < 0.8:
                    ops.append("scan %s %s IN - INF 0 0" % (hx(st), hx(k)))
                else:
                    ops.append("scan %s - INF - INF 1 1" % hx(st))
            else:
                ops.append("%s %s %s" % (kind, hx(st), hx(k)))
        threads.append(ops)
    finals = sorted(set(keys) | set(pool))
    sc = Scenario(shape, setup, threads, finals, st)
    if rng.random() < 0.2 and not scans:
        sc.inline = True
        sc.threads = [[re.sub(r"^(put|uput) (\S+) (\S+) (\S+) 1 0$",
                              lambda m: "%s %s %s %s 8 1" % (m.group(1), m.group(2), m.group(3),
                                                             hx(inline_bytes(unhex(m.group(4))))), o)
                       for o in ops] for ops in sc.threads]
    return sc


# ------------------------------------------------------------------ running
class Run:
    pass


def run_once(binary, scen_text, workdir, idx, timeout=60):
    f = os.path.join(workdir, "scen_%d.txt" % idx)
    with open(f, "w") as fh:
        fh.write(scen_text)
    try:
        p = subprocess.run([binary, f], stdout=subprocess.PIPE, stderr=subprocess.DEVNULL, timeout=timeout)
        rc, out = p.returncode, p.stdout.decode("utf-8", "replace")
    except subprocess.TimeoutExpired as e:
        rc, out = 124, (e.stdout or b"").decode("utf-8", "replace")
    r = Run()
    r.rc, r.out, r.text = rc, out, scen_text
    r.hist, r.final, r.fscan, r.lockbits, r.schedule, r.steps, r.abort = [], {}, {}, {}, [], 0, None
    r.reval = []
    r.leak = None
    for ln in out.split("\n"):
        if ln.startswith("H "):
            _, step, rest = ln.split(" ", 2)
            r.hist.append((int(step), rest))
        elif ln.startswith("FINAL "):
            t = ln.split(" ")
            r.final[(t[1], t[2])] = " ".join(t[3:])
        elif ln.startswith("FSCAN "):
            t = ln.split(" ", 2)
            r.fscan[t[1]] = t[2] if len(t) > 2 else ""
        elif ln.startswith("LOCKBITS "):
            t = ln.split(" ")
            r.lockbits[t[1]] = t[2]
        elif ln.startswith("SCHEDULE"):
            r.schedule = [int(x) for x in ln.split()[1:]]
        elif ln.startswith("STEPS "):
            r.steps = int(ln.split()[1])
        elif ln.startswith("SCHED-ABORT"):
            r.abort = ln
        elif ln.startswith("LEAK "):
            m = re.match(r"LEAK live=(-?\d+) bytes=(-?\d+)", ln)
            if m:
                r.leak = (int(m.group(1)), int(m.group(2)))
        elif ln.startswith("REVAL "):
            m = re.match(r"REVAL (\d+) stale=(\d) nvn=(\d+) args=(.*)$", ln)
            if m:
                r.reval.append((int(m.group(1)), m.group(2) == "1", int(m.group(3)), m.group(4).strip()))
    r.done = "DONE" in out
    return r


# ------------------------------------------------------------------ oracles
def parse_history(r):
    """-> list of completed ops: dict(tid, kind, args, inv, res, result)"""
    pend = {}
    ops = []
    for pos, (step, rest) in enumerate(r.hist):
        t = rest.split(" ")
        if t[0] == "inv":
            pend[int(t[1])] = dict(tid=int(t[1]), kind=t[2], args=t[3:], inv=pos, seq=len(ops))
        elif t[0] == "res":
            o = pend.pop(int(t[1]))
            o["res"] = pos
            o["result"] = " ".join(t[2:])
            ops.append(o)
    # order of notes is the total order of the run: use positions to break step ties
    return ops, list(pend.values())


def lin_check_key(initial, ops):
    """ops: list of (inv, res, kind, arg, result) on ONE key; register semantics.
    kinds: put(v)->OK | uput(v)->OK/UNIQ | get->('v',x)/ABSENT | rem->OK/NOTFOUND | absent_read | read(v)
    returns True iff linearizable (Wing-Gong search)"""
    n = len(ops)
    if n > 12:
        ops = ops[:12]
        n = 12
    done0 = 0
    full = (1 << n) - 1
    seen = set()

    def step(state, o):
        kind, arg, result = o[2], o[3], o[4]
        if kind == "put":
            return (result == "OK"), arg
        if kind == "uput":
            if state is None:
                return (result == "OK"), arg
            return (result == "WARN_UNIQUE_RESTRICTION"), state
        if kind == "get":
            if state is None:
                return (result == "WARN_NOT_EXIST"), state
            return (result == "OK v=" + state), state
        if kind == "rem":
            if state is None:
                return (result == "OK_NOT_FOUND"), state
            return (result == "OK"), None
        if kind == "read":       # scan returned (k, arg)
            return (state == arg), state
        if kind == "absent":     # scan did not return k
            return (state is None), state
        return False, state

    def dfs(done, state):
        if done == full:
            return True
        key = (done, state)
        if key in seen:
            return False
        seen.add(key)
        # minimal pending ops: those not preceded (res < inv) by another pending op
        pend = [i for i in range(n) if not (done >> i) & 1]
        min_res = min(ops[i][1] for i in pend)
        for i in pend:
            if ops[i][0] > min_res:
                continue       # some pending op finished before this one was invoked
            ok, st2 = step(state, ops[i])
            if ok and dfs(done | (1 << i), st2):
                return True
        return False
    return dfs(done0, initial)


def in_range(k, l, le, r, re_):
    if le != "INF":
        if k < l or (k == l and le == "EX"):
            return False
    if re_ != "INF":
        if k > r or (k == r and re_ == "EX"):
            return False
    return True


def unhex(t):
    return b"" if t == "-" else bytes.fromhex(t)


def check_run(r, scen, want=("lin", "null", "scan", "deadlock", "coherent")):
    """returns list of (oracle, description) violations found in this run"""
    bad = []
    if r.rc == 3 or (r.abort and "deadlock" in r.abort):
        if "deadlock" in want:
            bad.append(("deadlock", r.abort or "deadlock"))
        return bad
    if r.rc == 4 or (r.abort and "step-budget" in r.abort):
        if "deadlock" in want:
            bad.append(("livelock", r.abort or "step budget exhausted"))
        return bad
    if r.rc == 124:
        bad.append(("hang", "the run did not finish within its time limit: an operation never returns (for instance it "
                    "spins on a lock that was left held)"))
        return bad
    if r.rc != 0 or not r.done:
        bad.append(("crash", "driver exit code %s" % r.rc))
        return bad
    if "lockorder" in want:
        ne, cyc = lock_graph_check(r.out)
        r.lock_edges = ne
        if cyc:
            bad.append(("lockorder", "lock-order inversion (cycle in the held->awaited graph): %s" % " -> ".join(cyc)))
    ops, pending = parse_history(r)
    if pending:
        bad.append(("incomplete", "operations did not return: %s" % pending))
    init = scen.initial()
    sinit = {b"\x00storage:" + nm: bytes.fromhex("aa") for nm in [scen.storage] + list(getattr(scen, 'more_storages', ()))}
    perkey = {}
    for o in ops:
        kind, a, res = o["kind"], o["args"], o["result"]
        if kind in ("create", "dropst", "find"):
            # storage namespace = a map from names to trees: create = unique insert, delete = remove, find = get
            k = b"\x00storage:" + unhex(a[0])
            if kind == "create":
                perkey.setdefault(k, []).append((o["inv"], o["res"], "uput", "aa", res))
            elif kind == "dropst":
                perkey.setdefault(k, []).append((o["inv"], o["res"], "rem", None,
                                                 "OK" if res == "OK" else "OK_NOT_FOUND" if res in (
                                                     "WARN_NOT_EXIST", "WARN_CONCURRENT_OPERATIONS") else res))
            else:
                perkey.setdefault(k, []).append((o["inv"], o["res"], "get", None, "OK v=aa" if res == "OK" else res))
            continue
        if kind in ("put", "uput", "get", "rem"):
            k = unhex(a[1])
            arg = None
            if kind in ("put", "uput"):
                arg = a[2]
                if len(a) > 4 and a[4] == "1":
                    arg = inline_word_hex(unhex(a[2]))       # inline: get reports the slot word
            if "NULLPTR" in res and "null" in want:
                bad.append(("null", "%s returned OK with a null value pointer: %s" % (kind, res)))
                continue
            perkey.setdefault(k, []).append((o["inv"], o["res"], kind, arg, res))
        elif kind in ("scan", "iscan"):
            m = re.match(r"(\S+) n=(\d+) t=\[(.*?)\] nvn=(\d+)", res)
            if not m:
                bad.append(("scan", "unparsable scan result " + res))
                continue
            st, n, body, nvn = m.group(1), int(m.group(2)), m.group(3).split(), int(m.group(4))
            l, le, rk, re_, mx, rtl = unhex(a[1]), a[2], unhex(a[3]), a[4], int(a[5]), a[6] == "1"
            if le == "INF":
                l = b""
            tuples = []
            for e in body:
                kk, vv = e.split(":")
                tuples.append((unhex(kk), vv))
                if vv == "NULLPTR" and "null" in want:
                    bad.append(("null", "scan returned a null value pointer for key %s" % kk))
            keys = [k for k, _ in tuples]
            if kind == "iscan" and rtl:
                keys = keys[::-1]          # a right-to-left cursor delivers in descending order
                if "scan" in want and keys != sorted(set(keys)):
                    bad.append(("scan", "right-to-left cursor not strictly descending: %s" % [k.hex() for k in keys[::-1]]))
                rtl = False                 # ... and delivers every key of the interval, not only the greatest
            if "scan" in want:
                if keys != sorted(set(keys)):
                    bad.append(("scan", "scan result not strictly ascending: %s" % [k.hex() for k in keys]))
                for k in keys:
                    if not in_range(k, l, le, rk, re_):
                        bad.append(("scan", "scan returned key %s outside the interval" % k.hex()))
                if st == "OK" and nvn == 0 and kind == "scan":
                    bad.append(("scan-nv", "scan returned an empty node-version set"))
                # per-key reads sharing the scan's interval
                universe = set(init) | {unhex(o2["args"][1]) for o2 in ops if o2["kind"] in ("put", "uput", "rem")}
                limited = (mx != 0 and n >= mx)
                for k in universe:
                    if not in_range(k, l, le, rk, re_):
                        continue
                    if k in keys:
                        v = dict(tuples)[k]
                        if v not in ("NULLPTR", "?"):
                            perkey.setdefault(k, []).append((o["inv"], o["res"], "read", v, ""))
                    else:
                        if limited and not rtl and keys and k > keys[-1]:
                            continue
                        if limited and not keys:
                            continue
                        if rtl:
                            # right-to-left returns only the greatest: keys below it are simply not reported
                            if keys and k < keys[0]:
                                continue
                        perkey.setdefault(k, []).append((o["inv"], o["res"], "absent", None, ""))
    if "seen_or_stale" in want:
        # C06: once a scan and an insert of a new key inside its interval have both completed, the key is in the
        # scan's result or one of the collected (version, node) pairs is stale
        inserted = [unhex(o2["args"][1]) for o2 in ops
                    if o2["kind"] in ("put", "uput") and o2["result"] == "OK" and unhex(o2["args"][1]) not in init]
        scans_seen = {}
        for o2 in ops:
            if o2["kind"] == "scan":
                m = re.match(r"(\S+) n=(\d+) t=\[(.*?)\] nvn=(\d+)", o2["result"])
                if m:
                    keys2 = [unhex(e.split(":")[0]) for e in m.group(3).split()]
                    scans_seen.setdefault((o2["tid"], " ".join(o2["args"])), []).append((o2, keys2, int(m.group(2))))
        for (tid, stale, nvn, args) in r.reval:
            if args.startswith("get "):
                # a get that missed recorded the border's version: if the key exists at quiescence, an insert
                # completed after the miss was decided, so the recorded pair must be stale
                t = args.split()
                fin = r.final.get((t[1], t[2]))
                if fin is not None and fin.startswith("OK") and not stale:
                    bad.append(("seen_or_stale", "get(%s) reported WARN_NOT_EXIST, the key exists once all operations have "
                                "completed, and the (version,node) pair recorded for the miss is unchanged" % t[2]))
                continue
            lst = scans_seen.get((tid, args))
            if not lst:
                continue
            o2, keys2, n2 = lst.pop(0)
            a = o2["args"]
            l, le, rk, re_, mx, rtl = unhex(a[1]), a[2], unhex(a[3]), a[4], int(a[5]), a[6] == "1"
            if le == "INF":
                l = b""
            limited = (mx != 0 and n2 >= mx)
            for k in inserted:
                if not in_range(k, l, le, rk, re_):
                    continue
                if limited and (not keys2 or (not rtl and k > keys2[-1]) or (rtl and k < keys2[0])):
                    continue
                if k not in keys2 and not stale:
                    bad.append(("seen_or_stale", "insert of %s completed, the key is not in the scan result %s and every "
                                "collected (version,node) pair is unchanged" % (k.hex(), [x.hex() for x in keys2])))
    if "leak" in want and r.leak is not None and (r.leak[0] > 0 or r.leak[1] > 0):
        bad.append(("leak", "after fin() the process still holds %d block(s) / %d byte(s) of library memory more than after an "
                    "empty init/fin cycle" % r.leak))
    r.lin_jobs = []
    if "lin" in want:
        for k, lst in perkey.items():
            iv = sinit.get(k) if k.startswith(b"\x00storage:") else init.get(k)
            ivh = None if iv is None else (inline_word_hex(inline_bytes(iv)) if scen.inline and not k.startswith(b"\x00storage:")
                                           else iv.hex())
            r.lin_jobs.append((k, ivh, lst))
    if "coherent" in want:
        for stn, lb in r.lockbits.items():
            if lb != "clean":
                bad.append(("lockbits", "a node was left locked or dirty at quiescence"))
        # final gets vs full scan
        for stn, body in r.fscan.items():
            m = re.match(r"(\S+) \[(.*)\]", body)
            if m:
                slist = [unhex(x) for x in m.group(2).split()]
                if slist != sorted(set(slist)):
                    bad.append(("coherent", "full scan at quiescence is not strictly ascending (duplicate or misplaced "
                                "entry): %s" % m.group(2)))
                skeys = set(m.group(2).split())
                gkeys = {k for (s2, k), v in r.final.items() if s2 == stn and v.startswith("OK")}
                allq = {k for (s2, k) in r.final if s2 == stn}
                if (skeys & allq) != gkeys:
                    bad.append(("coherent", "point lookups and full scan disagree at quiescence: get=%s scan=%s" % (
                        sorted(gkeys), sorted(skeys & allq))))
    return bad


# ------------------------------------------------------------------ exploration
def explore(binary, scen, strategy, workdir, budget, rng, want, jobs=16):
    """run a scenario under many schedules; returns (n_runs, violations[(oracle, desc, scen_text, schedule)], steps)"""
    os.makedirs(workdir, exist_ok=True)
    texts = []
    nt = len(scen.threads)
    base = run_once(binary, scen.text("mode preempt first 0 maxsteps 200000"), workdir, 0)
    N = max(base.steps, 10)
    runs = [base]
    if strategy == "preempt1":
        for first in range(nt):
            for k in range(1, N + 1):
                for t in range(nt):
                    texts.append("mode preempt first %d at %d:%d maxsteps 200000" % (first, k, t))
    elif strategy == "preempt2":
        pts = list(range(1, N + 1))
        pairs = [(a, b) for a in pts for b in pts if a < b]
        rng.shuffle(pairs)
        for first in range(nt):
            for (a, b) in pairs[:max(1, budget // (nt * 2))]:
                t1 = rng.randrange(nt)
                t2 = rng.randrange(nt)
                texts.append("mode preempt first %d at %d:%d at %d:%d maxsteps 200000" % (first, a, t1, b, t2))
    elif strategy == "pct":
        for i in range(budget):
            texts.append("mode pct seed %d depth %d maxsteps 200000" % (rng.getrandbits(30), rng.choice([1, 2, 3])))
    else:
        for i in range(budget):
            texts.append("mode random seed %d stick %.2f maxsteps 200000" % (rng.getrandbits(30), rng.choice([0.5, 0.8, 0.95])))
    if len(texts) > budget:
        rng.shuffle(texts)
        texts = texts[:budget]

    def one(i_t):
        i, t = i_t
        return run_once(binary, scen.text(t), workdir, i + 1)
    with ThreadPoolExecutor(max_workers=jobs) as ex:
        runs += list(ex.map(one, list(enumerate(texts))))
    viol = []
    total_steps = 0
    distinct = set()
    jobs_l = []
    for r in runs:
        total_steps += r.steps
        distinct.add(tuple(r.schedule))
        r.lin_jobs = []
        for (orc, desc) in check_run(r, scen, want):
            viol.append((orc, desc, r.text, r.schedule))
        for j in r.lin_jobs:
            jobs_l.append((r, j))
    # the verified checker (extracted LinDefs.lin_check), one batch
    if jobs_l:
        verdicts = lin_batch([j for _, j in jobs_l], workdir)
        for (r, (k, iv, lst)), ok in zip(jobs_l, verdicts):
            if not ok:
                viol.append(("lin", "history of key %s is not linearizable: init=%s ops=%s" % (k.hex(), iv, lst),
                             r.text, r.schedule))
    return len(runs), viol, total_steps, len(distinct)


def vnum(hexs):
    """value / result text -> number token for the checker"""
    return "1" + hexs.replace("-", "")


def lin_line(iv, lst):
    toks = ["-" if iv is None else vnum(iv)]
    for (inv, res, kind, arg, result) in lst:
        if kind in ("put", "uput"):
            a = vnum(arg)
            out = "ok" if result == "OK" else ("unique" if result == "WARN_UNIQUE_RESTRICTION" else "none")
        elif kind == "get":
            a = "-"
            if result.startswith("OK v="):
                out = "val:" + vnum(result[5:])
            elif result.startswith("OK w="):
                out = "val:" + vnum(result[5:])
            elif result == "WARN_NOT_EXIST":
                out = "notexist"
            else:
                out = "none"
        elif kind == "rem":
            a = "-"
            out = "ok" if result == "OK" else ("notfound" if result == "OK_NOT_FOUND" else "none")
        elif kind == "read":
            a, out = vnum(arg), "none"
        else:
            a, out = "-", "none"
        toks += ["%x" % inv, "%x" % res, kind, a, out]
    return " ".join(toks)


def lin_batch(jobs, workdir):
    f = os.path.join(workdir, "lin_jobs.txt")
    with open(f, "w") as fh:
        for (k, iv, lst) in jobs:
            fh.write(lin_line(iv, lst) + "\n")
    rc, out = C.sh([os.path.join(C.BUILD, "lin_main"), f], timeout=600, merge=False)
    res = [x == "1" for x in out.split()]
    if rc != 0 or len(res) != len(jobs):
        # fall back to the unverified search (reported in the evidence)
        return [lin_check_key(iv, lst) for (k, iv, lst) in jobs]
    return res


def replay_text(scen_text, schedule):
    """the same scenario with the exact schedule"""
    lines = scen_text.split("\n")
    lines[0] = "mode replay maxsteps 400000"
    lines.insert(1, "replay " + " ".join(str(t) for t in schedule))
    return "\n".join(lines)


# ------------------------------------------------------------------ model tie (BorderDefs)
def knum(k):
    """key (<= 8 bytes) -> number preserving the key order: big-endian padded slice, then length"""
    return "%x" % (int.from_bytes(k + b"\0" * (8 - len(k)), "big") * 16 + len(k))


def border_history(r, scen):
    """the observed history of a single-border run in border_main's input format, or None if not applicable"""
    keys = [k for k, _ in scen.setup]
    if any(len(k) > 8 for k in keys) or len(keys) > 8 or scen.inline:
        return None
    items = ["I " + " ".join("%s %s" % (knum(k), vnum(v.hex())) for k, v in scen.setup)]
    for step, rest in r.hist:
        t = rest.split(" ")
        if t[0] == "inv":
            kind = t[2]
            if kind not in ("get", "put", "uput", "rem"):
                return None
            k = unhex(t[4])
            if len(k) > 8:
                return None
            if kind in ("put", "uput"):
                items.append("inv %s %s %s %s" % (t[1], kind, knum(k), vnum(t[5])))
            else:
                items.append("inv %s %s %s" % (t[1], kind, knum(k)))
        elif t[0] == "res":
            res = " ".join(t[2:])
            if res.startswith("OK v="):
                out = "val:" + vnum(res[5:])
            elif res == "OK":
                out = "ok"
            elif res == "WARN_NOT_EXIST":
                out = "notexist"
            elif res == "OK_NOT_FOUND":
                out = "notfound"
            elif res == "WARN_UNIQUE_RESTRICTION":
                out = "unique"
            else:
                out = "val:0" if "NULLPTR" in res else "ok"
            items.append("res %s %s" % (t[1], out))
    return " ; ".join(items)


def chain_history(r, scen):
    """the observed history of a run in chain_main's input format (multi-border layer, forward unlimited scans
    from one thread at a time, keys <= 8 bytes), or None if the run is outside the chain model"""
    chain = None
    for ln in r.out.split("\n"):
        if ln.startswith("CHAIN " + hx(scen.storage) + " "):
            chain = ln.split(" ")[2] if len(ln.split(" ")) > 2 else ""
    if not chain or chain == "-":
        return None
    items = ["C " + chain]
    kn = lambda k: int(knum(k), 16)
    has_scan = False
    for step, rest in r.hist:
        t = rest.split(" ")
        if t[0] == "inv":
            kind = t[2]
            if kind in ("put", "uput", "rem", "get"):
                k = unhex(t[4])
                if len(k) > 8:
                    return None
                items.append("inv %s %s %x" % (t[1], kind, kn(k)))
            elif kind == "scan":
                l, le, rk, re_, mx, rtl = unhex(t[4]), t[5], unhex(t[6]), t[7], int(t[8]), t[9] == "1"
                if len(l) > 8 or len(rk) > 8 or (rtl and (mx != 1 or re_ != "INF")):
                    return None
                lo = 0 if le == "INF" else kn(l) + (1 if le == "EX" else 0)
                if re_ == "INF":
                    hi = "inf"
                else:
                    hv = kn(rk) - (1 if re_ == "EX" else 0)
                    if hv < 0:
                        return None
                    hi = "%x" % hv
                items.append("inv %s scan %x %s %d %d" % (t[1], lo, hi, mx, 1 if rtl else 0))
                has_scan = True
            else:
                return None
        elif t[0] == "res":
            res = " ".join(t[2:])
            m = re.match(r"(\S+) n=(\d+) t=\[(.*?)\] nvn=", res)
            if m:
                if m.group(1) != "OK":
                    return None
                ks = [unhex(e.split(":")[0]) for e in m.group(3).split()]
                if any(len(k) > 8 for k in ks):
                    return None
                out = "keys:" + ",".join("%x" % kn(k) for k in ks)
            elif res.startswith("OK v=") or res.startswith("OK w="):
                out = "present"
            elif res == "OK":
                out = "ok"
            elif res == "WARN_NOT_EXIST":
                out = "notexist"
            elif res == "OK_NOT_FOUND":
                out = "notfound"
            elif res == "WARN_UNIQUE_RESTRICTION":
                out = "unique"
            else:
                return None
            items.append("res %s %s" % (t[1], out))
    if not has_scan:
        return None
    # what the re-validation of the recorded (version, node) pairs found once every operation had completed:
    # the model must agree (this makes version changes observable: an insert bumps, a remove does not)
    for (tid, stale, nvn, args) in r.reval:
        if args.startswith("get "):
            continue
        items.append("reval %d %d" % (tid, 1 if stale else 0))
    return " ; ".join(items)


def chain_batch(lines, workdir):
    f = os.path.join(workdir, "chain_jobs.txt")
    with open(f, "w") as fh:
        fh.write("\n".join(lines) + "\n")
    rc, out = C.sh([os.path.join(C.BUILD, "chain_main"), f], timeout=1800, merge=False)
    v = [x.split()[0] for x in out.split("\n") if x.strip()]
    if rc != 0 or len(v) != len(lines):
        return ["ERROR"] * len(lines)
    return v


def border_batch(lines, workdir):
    f = os.path.join(workdir, "border_jobs.txt")
    with open(f, "w") as fh:
        fh.write("\n".join(lines) + "\n")
    rc, out = C.sh([os.path.join(C.BUILD, "border_main"), f], timeout=900, merge=False)
    return [x.split()[0] for x in out.split("\n") if x.strip()]


def run_conc_property(res, tag, want, shapes, kinds, scans, budget_quick, budget_thorough, tie_shapes=("single", "last", "empty"),
                      strategies_quick=("preempt1",), strategies_thorough=("preempt1", "preempt2", "pct"), use_catalogue=True, chain_tie=False, catalogue_filter=None):
    """generic flow for a property explored under the scheduler with verified oracles"""
    pid = res.pid
    st = C.property_status(pid)
    C.proof_coverage(res, st)
    ok, o = C.build_cpp("conc_driver_" + tag, "harness/conc_driver.cpp")
    if not ok:
        res.violation("conc_driver does not compile against /repo", dict(kind="build-failure", log=o[-3000:]), nofail=True)
        return res.finish()
    for d in ("lin_main", "border_main") + (("chain_main",) if chain_tie else ()):
        okm, om = C.build_model(d)
        if not okm:
            res.violation("model driver does not build", dict(kind="model-build-failure", log=om[-3000:]), nofail=True)
            return res.finish()
    binary = os.path.join(C.BUILD, "conc_driver_" + tag)
    wd = os.path.join(C.BUILD, "run_" + tag)
    os.makedirs(wd, exist_ok=True)
    rng = random.Random(res.seed)
    budget = budget_quick if res.tier == "quick" else budget_thorough
    strategies = strategies_quick if res.tier == "quick" else strategies_thorough
    total_runs = 0
    total_steps = 0
    distinct = 0
    viol = []
    samples = []
    tie_lines, tie_meta = [], []
    chain_lines, chain_meta = [], []

    def collect_chain(sc, runs, cap):
        if not chain_tie:
            return
        got = 0
        for r in runs:
            if got >= cap:
                break
            if r.rc == 0 and r.done:
                h = chain_history(r, sc)
                if h:
                    chain_lines.append(h)
                    chain_meta.append((r.text, r.schedule))
                    got += 1
    shape_counts = {}
    # corpus: stored scenarios with their schedules run first
    cdir = os.path.join(C.VERIF, "corpus", pid)
    if os.path.isdir(cdir):
        for f in sorted(os.listdir(cdir)):
            if f.endswith(".scen"):
                txt = open(os.path.join(cdir, f)).read()
                if txt.startswith("explore"):
                    # a stored scenario explored exhaustively with one preemption (robust against step renumbering)
                    sc = scenario_from_text(txt)
                    n, v, steps, dist, runs = explore_runs(binary, sc, txt.split()[1], wd, 2000, rng, want)
                    total_runs += n
                    total_steps += steps
                    distinct += dist
                    viol += v
                    continue
                r = run_once(binary, txt, wd, 900000 + total_runs)
                total_runs += 1
                sc = scenario_from_text(txt)
                r.lin_jobs = []
                for (orc, desc) in check_run(r, sc, want):
                    viol.append((orc, desc, txt, r.schedule))
                if r.lin_jobs:
                    for (k, iv, lst), okv in zip(r.lin_jobs, lin_batch(r.lin_jobs, wd)):
                        if not okv:
                            viol.append(("lin", "history of key %s not linearizable" % k.hex(), txt, r.schedule))
    if use_catalogue:
        for sc in catalogue():
            if not scans and any(o.startswith(("scan", "iscan")) for ops in sc.threads for o in ops):
                continue
            if catalogue_filter is not None and not catalogue_filter(sc):
                continue
            for strat, bud in (("preempt1", 1600), ("race2", 200 if res.tier == "quick" else 3000)):
                n, v, steps, dist, runs = explore_runs(binary, sc, strat, wd, bud, rng, want)
                total_runs += n
                total_steps += steps
                distinct += dist
                viol += v
                shape_counts["catalogue"] = shape_counts.get("catalogue", 0) + n
                collect_chain(sc, runs, (120 if res.tier == "quick" else 600) if strat == "preempt1" else 30)
    n_scen = 2 if res.tier == "quick" else 8
    special = {"collapse": gen_collapse, "collapse-scan": gen_collapse_scan, "collapse-l1": gen_collapse,
               "collapse-scan-l1": gen_collapse_scan}
    for shape in shapes:
        for j in range(n_scen):
            if shape in special:
                sc = special[shape](rng, shape)
            else:
                sc = gen_scenario(rng, shape, kinds=kinds, scans=scans,
                                  nthreads=rng.choice([2, 2, 3]), ops_per_thread=rng.choice([1, 2]))
            for strat in strategies:
                n, v, steps, dist, runs = explore_runs(binary, sc, strat, wd, budget, rng, want)
                total_runs += n
                total_steps += steps
                distinct += dist
                viol += v
                shape_counts[shape] = shape_counts.get(shape, 0) + n
                collect_chain(sc, runs, 40 if res.tier == "quick" else 200)
                if shape in tie_shapes:
                    for r in runs[:60]:
                        if r.rc == 0 and r.done:
                            h = border_history(r, sc)
                            if h:
                                tie_lines.append(h)
                                tie_meta.append((r.text, r.schedule))
                if len(samples) < 3 and runs:
                    samples.append(dict(shape=shape, threads=sc.threads, schedule=runs[-1].text.split("\n")[0],
                                        history=[x[1] for x in runs[-1].hist][:8]))
    rejected = []
    if tie_lines:
        verdicts = border_batch(tie_lines, wd)
        for vdt, meta in zip(verdicts, tie_meta):
            if vdt != "ACCEPT":
                rejected.append((vdt, meta))
    chain_rej = []
    chain_verdicts = {}
    if chain_lines:
        cv = chain_batch(chain_lines, wd)
        for vdt, meta, ln in zip(cv, chain_meta, chain_lines):
            chain_verdicts[vdt] = chain_verdicts.get(vdt, 0) + 1
            if vdt in ("REJECT", "ERROR"):
                chain_rej.append((vdt, meta, ln))
    res.cov["chain_model_tie"] = dict(histories=len(chain_lines), verdicts=chain_verdicts,
                                      model="ChainLimDefs.lstep over ChainDefs.cstep writers (multi-border scan hand-over; forward, size-limited and "
                                            "right-to-left scans; staleness of the recorded pairs observed), searched by ocaml/chain_main.ml")
    res.cov.update(
        programs=total_runs, evaluations=total_runs, distinct_nontrivial=distinct,
        traces_validated_against_impl=len(tie_lines) - len(rejected) + chain_verdicts.get("ACCEPT", 0),
        rule="one program = one scenario (prepared tree shape + 1-2 operations per thread, same-key races included) under "
             "one schedule of the real hooked library; strategies: %s; non-trivial/distinct = distinct schedules "
             "actually taken (per scenario)" % ",".join(strategies),
        disagreements_checked=len(viol) + len(rejected), scheduler_steps=total_steps, runs_per_shape=shape_counts,
        samples=samples, oracles=list(want),
        histories_replayed_on_model=len(tie_lines))
    if viol:
        orc, desc, text, sched = viol[0]
        res.violation("%s: %s" % (orc, desc[:300]),
                      dict(kind="conc-" + orc, scenario=replay_text(text, sched), original_mode=text.split("\n")[0],
                           description=desc[:2000], all=sorted({v[0] for v in viol})))
    elif rejected or chain_rej or not st["ok"]:
        what = []
        if not st["ok"]:
            what.append("proof obligations no longer check: " + "; ".join(st["broken"][:5]))
        if chain_rej:
            what.append("behavioural inclusion broken: %d real multi-border histories cannot be produced by the model "
                        "ChainDefs (first: %s)" % (len(chain_rej), chain_rej[0][2][:400]))
            if not rejected:
                rejected = [(chain_rej[0][0], chain_rej[0][1])]
        if rejected and not chain_rej:
            what.append("behavioural inclusion broken: %d real single-border histories cannot be produced by the model BorderDefs" % len(rejected))
        res.violation("; ".join(what), dict(kind="broken-tie", broken=what,
                                            scenario=replay_text(rejected[0][1][0], rejected[0][1][1]) if rejected else None),
                      nofail=True)
    return res.finish()


def scenario_from_text(txt):
    """rebuild a Scenario (setup / threads / finals) from a scenario file"""
    setup, threads, finals, st = [], [], [], b"s"
    removed = []
    for ln in txt.split("\n"):
        t = ln.split()
        if not t:
            continue
        if t[0] == "setup" and t[1] == "create":
            st = unhex(t[2])
        elif t[0] == "setup" and t[1] == "put":
            setup.append((unhex(t[3]), unhex(t[4])))
        elif t[0] == "setup" and t[1] == "rem":
            removed.append(unhex(t[3]))
        elif t[0] == "thread":
            tid = int(t[1])
            while len(threads) <= tid:
                threads.append([])
            threads[tid].append(" ".join(t[2:]))
        elif t[0] == "final":
            finals = [unhex(x) for x in t[2:]]
    sc = Scenario("corpus", setup, threads, finals, st)
    sc.removed = tuple(removed)
    return sc


def explore_runs(binary, scen, strategy, workdir, budget, rng, want, jobs=16):
    """like explore, but also returns the runs"""
    os.makedirs(workdir, exist_ok=True)
    texts = []
    nt = len(scen.threads)
    base = run_once(binary, scen.text("mode preempt first 0 maxsteps 200000"), workdir, 0)
    N = max(base.steps, 10)
    runs = [base]
    if strategy == "preempt1":
        for first in range(nt):
            for k in range(1, N + 1):
                for t in range(nt):
                    texts.append("mode preempt first %d at %d:%d maxsteps 200000" % (first, k, t))
    elif strategy == "race2":
        # race-directed, two preemptions: thread a runs alone up to an access of an address the other thread also
        # touches (one of them writing), thread b runs up to such an access of its own, a continues to its end, then b
        old_ev = Scenario.events
        Scenario.events = True
        try:
            solo = {}
            for t in range(nt):
                rb = run_once(binary, scen.text("mode preempt first %d maxsteps 200000" % t), workdir, 0)
                acc = []
                for ln in rb.out.split("\n"):
                    if ln.startswith("E "):
                        f = ln.split(" ")
                        if len(f) >= 9 and int(f[2]) == t and int(f[7]) == -1:
                            acc.append((int(f[8]), int(f[3]), f[5]))
                solo[t] = acc
        finally:
            Scenario.events = old_ev
        pairs = []
        for a in range(nt):
            for b in range(nt):
                if a == b:
                    continue
                wa = {ad for (_, k, ad) in solo[a] if k in (1, 2, 7)}
                wb = {ad for (_, k, ad) in solo[b] if k in (1, 2, 7)}
                aa = {ad for (_, _, ad) in solo[a]}
                ab = {ad for (_, _, ad) in solo[b]}
                shared = (wa & ab) | (wb & aa)
                ca = sorted({st for (st, _, ad) in solo[a] if ad in shared})
                cb = sorted({st for (st, _, ad) in solo[b] if ad in shared})
                for j in ca:
                    for k in cb:
                        pairs.append("mode preempt first %d at %d:%d at %d:%d maxsteps 200000" % (a, j, b, j + k, a))
        rng.shuffle(pairs)
        texts += pairs
    elif strategy == "preempt2":
        for _ in range(budget):
            a, b = sorted(rng.sample(range(1, N + 1), 2))
            texts.append("mode preempt first %d at %d:%d at %d:%d maxsteps 200000" % (
                rng.randrange(nt), a, rng.randrange(nt), b, rng.randrange(nt)))
    elif strategy == "pct":
        for i in range(budget):
            texts.append("mode pct seed %d depth %d maxsteps 200000" % (rng.getrandbits(30), rng.choice([1, 2, 3])))
    else:
        for i in range(budget):
            texts.append("mode random seed %d stick %.2f maxsteps 200000" % (rng.getrandbits(30), rng.choice([0.5, 0.8, 0.95])))
    if len(texts) > budget:
        rng.shuffle(texts)
        texts = texts[:budget]

    def one(i_t):
        i, t = i_t
        return run_once(binary, scen.text(t), workdir, i + 1)
    with ThreadPoolExecutor(max_workers=jobs) as ex:
        runs += list(ex.map(one, list(enumerate(texts))))
    viol = []
    total_steps = 0
    distinct = set()
    jobs_l = []
    for r in runs:
        total_steps += r.steps
        distinct.add(tuple(r.schedule))
        r.lin_jobs = []
        for (orc, desc) in check_run(r, scen, want):
            viol.append((orc, desc, r.text, r.schedule))
        for j in r.lin_jobs:
            jobs_l.append((r, j))
    if jobs_l:
        verdicts = lin_batch([j for _, j in jobs_l], workdir)
        for (r, (k, iv, lst)), okv in zip(jobs_l, verdicts):
            if not okv:
                viol.append(("lin", "history of key %s is not linearizable: init=%s ops=%s" % (k.hex(), iv, lst),
                             r.text, r.schedule))
    return len(runs), viol, total_steps, len(distinct), runs


# ------------------------------------------------------------------ lock-order graph (C09)
def lock_graph_check(out):
    """from the access log of one run: the held->awaited edges between lock words; a cycle is a lock-order
    inversion (potential deadlock), found even when this schedule did not deadlock.  Returns (n_edges, cycle|None)"""
    held = {}
    edges = set()
    LOCKBIT = 1 << 29
    for ln in out.split("\n"):
        if not ln.startswith("E "):
            continue
        t = ln.split(" ")
        tid, kind, obj, addr, val, ok = int(t[2]), int(t[3]), int(t[4]), t[5], int(t[6], 16), int(t[7])
        if tid < 0 or obj not in (1, 9):
            continue
        hs = held.setdefault(tid, [])
        acquire = release = wait = False
        if obj == 1:
            if kind == 2 and ok == 2:
                acquire = True
            elif kind == 1 and ok == 1 and (val & LOCKBIT):
                acquire = True            # a freshly created node is born holding a copy of a locked word
            elif kind == 2 and ok == 1 and not (val & LOCKBIT) and addr in hs:
                release = True
            elif kind == 3 and ok == -1 and addr not in hs and hs:
                wait = True
        else:
            if kind == 2 and ok == 1:
                acquire = True
            elif kind == 1 and ok == 1 and val == 0 and addr in hs:
                release = True
            elif kind == 3 and ok == -1 and addr not in hs and hs:
                wait = True
        if acquire or wait:
            for h in hs:
                if h != addr:
                    edges.add((h, addr))
            if acquire and addr not in hs:
                hs.append(addr)
        if release:
            hs.remove(addr)
    # cycle detection
    adj = {}
    for a, b in edges:
        adj.setdefault(a, set()).add(b)
    color = {}

    def dfs(u, path):
        color[u] = 1
        for v in adj.get(u, ()):
            if color.get(v) == 1:
                return path + [u, v]
            if v not in color:
                r = dfs(v, path + [u])
                if r:
                    return r
        color[u] = 2
        return None
    for u in list(adj):
        if u not in color:
            r = dfs(u, [])
            if r:
                return len(edges), r
    return len(edges), None


# ------------------------------------------------------------------ version-word trace monitor (C17)
def vermon_block(out):
    """the version-word accesses of one run, in the input format of ocaml/ver_main.ml"""
    lines = ["R"]
    for ln in out.split("\n"):
        if not ln.startswith("E "):
            continue
        t = ln.split(" ")
        tid, kind, obj, addr, val, ok = t[2], int(t[3]), int(t[4]), t[5], t[6], int(t[7])
        if obj != 1:
            continue
        if kind == 1:
            lines.append("S %s %s %s" % (addr, tid, val))
        elif kind == 2 and ok == 2:
            lines.append("L %s %s %s" % (addr, tid, val))
        elif kind == 2 and ok == 1:
            lines.append("C %s %s %s" % (addr, tid, val))
        elif kind == 0 and ok == 1:
            lines.append("O %s %s %s" % (addr, tid, val))
    return lines


def vermon_batch(runs, workdir):
    """-> list of (run, why) rejected by the extracted monitor VersionDefs.ver_write_ok; and #writes checked"""
    f = os.path.join(workdir, "vermon.txt")
    with open(f, "w") as fh:
        for r in runs:
            fh.write("\n".join(vermon_block(r.out)) + "\n")
    rc, out = C.sh([os.path.join(C.BUILD, "ver_main"), f], timeout=900, merge=False)
    verdicts = [x for x in out.split("\n") if x.startswith(("OK", "BAD"))]
    if rc != 0 or len(verdicts) != len(runs):
        return [(runs[0], "monitor failure: rc=%s, %d verdicts for %d runs" % (rc, len(verdicts), len(runs)))] if runs else [], 0
    bad = [(r, v[4:]) for r, v in zip(runs, verdicts) if v.startswith("BAD")]
    nw = sum(int(v.split()[1]) for v in verdicts if v.startswith("OK"))
    return bad, nw


def conc_phase(res, tag, want, shapes, kinds, scans, budget, strategies, n_scen, gen=None, vermon=False, label="concurrent_phase",
               nthreads=(2, 2, 3), ops=(1, 2)):
    """explore scenarios under the scheduler and record violations in res (no finish): used by properties whose
    main tie is sequential but whose statement has a concurrent clause"""
    ok, o = C.build_cpp("conc_driver_" + tag, "harness/conc_driver.cpp")
    if not ok:
        res.violation("conc_driver does not compile against /repo", dict(kind="build-failure", log=o[-3000:]), nofail=True)
        return
    need = ["lin_main"] + (["ver_main"] if vermon else [])
    for d in need:
        okm, om = C.build_model(d)
        if not okm:
            res.violation("model driver does not build", dict(kind="model-build-failure", log=om[-3000:]), nofail=True)
            return
    binary = os.path.join(C.BUILD, "conc_driver_" + tag)
    wd = os.path.join(C.BUILD, "run_" + tag)
    os.makedirs(wd, exist_ok=True)
    rng = random.Random(res.seed + 17)
    total_runs = total_steps = distinct = nwrites = 0
    viol = []
    old_events = Scenario.events
    Scenario.events = bool(vermon) or old_events
    try:
        cdir = os.path.join(C.VERIF, "corpus", res.pid)
        scens = []
        if os.path.isdir(cdir):
            for f in sorted(os.listdir(cdir)):
                if f.endswith(".scen"):
                    txt = open(os.path.join(cdir, f)).read()
                    scens.append((scenario_from_text(txt), [txt.split()[1]] if txt.startswith("explore") else list(strategies)))
        for shape in shapes:
            for j in range(n_scen):
                sc = gen(rng, shape) if gen else gen_scenario(rng, shape, kinds=kinds, scans=scans,
                                                              nthreads=rng.choice(nthreads), ops_per_thread=rng.choice(ops))
                scens.append((sc, list(strategies)))
        for sc, strats in scens:
            for strat in strats:
                n, v, steps, dist, runs = explore_runs(binary, sc, strat, wd, budget, rng, want)
                total_runs += n
                total_steps += steps
                distinct += dist
                viol += v
                if vermon:
                    bad, nw = vermon_batch([r for r in runs if r.rc == 0], wd)
                    nwrites += nw
                    for r, why in bad:
                        viol.append(("vermon", why, r.text, r.schedule))
    finally:
        Scenario.events = old_events
    res.cov[label] = dict(runs=total_runs, distinct_schedules=distinct, scheduler_steps=total_steps, oracles=list(want) +
                          (["version-word monitor (extracted ver_write_ok)"] if vermon else []),
                          version_word_writes_checked=nwrites, shapes=list(shapes), strategies=list(strategies))
    res.cov["programs"] = res.cov.get("programs", 0) + total_runs
    res.cov["traces_validated_against_impl"] = res.cov.get("traces_validated_against_impl", 0) + (total_runs if vermon else 0)
    if viol:
        orc, desc, text, sched = viol[0]
        res.violation("%s: %s" % (orc, desc[:300]),
                      dict(kind="conc-" + orc, scenario=replay_text(text, sched), original_mode=text.split("\n")[0],
                           description=desc[:2000], all=sorted({v[0] for v in viol})))
