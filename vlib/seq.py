"""Sequential correspondence (T2): generated operation scripts run on the real
library (harness/seq_driver.cpp, rebuilt from /repo) and on the extracted Coq
model (ocaml/seq_main.ml); results compared per category.  The extracted Spec
(ordered map of maps) is evaluated on the same script: it is the property
oracle for the observable results."""
import os
import random
import time
import re

from . import common as C

ALPH = [0x00, 0x01, 0x61, 0x80, 0xff]


def hx(b):
    return "-" if len(b) == 0 else bytes(b).hex()


# ------------------------------------------------------------------ generators
class KeyGen:
    """keys over a small alphabet, lengths clustered around slice boundaries, shared 8-byte prefixes"""

    def __init__(self, rng, layers=3, long_tail=False):
        self.rng = rng
        self.prefixes = [b""]
        for _ in range(rng.randrange(2, 6)):
            n = rng.choice([8, 8, 16, 16, 24])
            self.prefixes.append(bytes(rng.choice(ALPH) for _ in range(n)))
        # a prefix with an all-0xff slice and an all-zero slice (boundary tuples)
        if rng.random() < 0.5:
            self.prefixes.append(b"\xff" * 8)
        if rng.random() < 0.5:
            self.prefixes.append(b"\x00" * 8)
        self.long_tail = long_tail
        self.dense0 = False

    def suffix_len(self):
        r = self.rng.random()
        if r < 0.35:
            return self.rng.choice([0, 1, 2])
        if r < 0.7:
            return self.rng.choice([7, 8, 9])
        if r < 0.85:
            return self.rng.choice([3, 4, 5, 6])
        if r < 0.95:
            return self.rng.choice([15, 16, 17])
        if self.long_tail and r > 0.995:
            return self.rng.choice([255, 256, 257, 300])
        return self.rng.choice([23, 24, 25])

    def dense0_key(self):
        """short keys in layer 0: 1-3 bytes over a medium alphabet, with many prefix / zero-padding relations
        ("I", "Ia", "I\\0") -- drives interior splits and separator comparisons with different lengths"""
        rng = self.rng
        alph = [0x00, 0x01, 0x20, 0x41, 0x49, 0x61, 0x62, 0x7a, 0x80, 0xfe, 0xff] + list(range(0x30, 0x3a))
        n = rng.choice([1, 1, 2, 2, 2, 3, 3, 4])
        return bytes(rng.choice(alph) for _ in range(n))

    def key(self, dense=False):
        rng = self.rng
        if self.dense0:
            return self.dense0_key()
        p = rng.choice(self.prefixes) if rng.random() < 0.5 else b""
        n = self.suffix_len()
        if dense:
            # dense: vary the last bytes over the full byte range so that many keys fit in one layer
            body = bytes(rng.choice(ALPH) for _ in range(max(0, n - 2))) + bytes(
                rng.randrange(256) for _ in range(min(n, 2)))
        else:
            body = bytes(rng.choice(ALPH) for _ in range(n))
        return p + body


def gen_script(rng, tier, n_keys=None, storages=1, scans=True, dumps=True, inline_frac=0.1,
               with_storage_ops=False, max_ops=None, phantoms=False, putinfo=False, iscans=False):
    """one program: create storage(s), build, probe, delete, re-insert; returns list of op lines"""
    kg = KeyGen(rng, long_tail=(tier == "thorough"))
    if n_keys is None:
        n_keys = rng.choice([5, 14, 16, 17, 40, 130, 260] if tier == "quick" else [16, 40, 130, 300, 1200, 2500])
        if rng.random() < 0.3:
            # one dense layer: many borders under interior nodes that split
            kg.dense0 = True
            n_keys = rng.choice([150, 300, 450] if tier == "quick" else [300, 600, 1500])
    names = [b"s"] if storages == 1 else [b"s", b"", b"s\x00", b"storage-long-name-1", b"storage-long-name-2"][:storages]
    ops = ["init", "enter"]
    for nm in names:
        ops.append("create " + hx(nm))
    live = {nm: {} for nm in names}
    pool = []
    seen = set()
    while len(pool) < n_keys:
        k = kg.key(dense=rng.random() < 0.6)
        if k not in seen:
            seen.add(k)
            pool.append(k)
    order = rng.choice(["asc", "desc", "shuffle"])
    if kg.dense0 and rng.random() < 0.5:
        # grid mode: a two-byte grid (many equally long keys -> many borders, full interior nodes), then keys that
        # are proper prefixes / zero-extensions of grid keys (separators that differ from the pivots only in length)
        nl = rng.choice([17, 17, 20, 34])
        l1 = [0x41 + i for i in range(nl)]
        l2 = [0x61 + i for i in range(8)]
        grid = [bytes([a, b]) for a in l1 for b in l2]
        exact = rng.random() < 0.6
        if exact:
            grid = grid[:135]        # ascending: 16 borders of 8 (last 15) under ONE full interior node (15 separators)
        elif rng.random() < 0.5:
            rng.shuffle(grid)
        # then batches of keys that are proper prefixes / short extensions of grid keys: each batch overflows one
        # border, the new separator differs from its neighbours (and from the interior's pivot) only in length
        letters = l1[1:16]
        rng.shuffle(letters)
        if exact and rng.random() < 0.7:
            letters.remove(0x49)
            letters.insert(0, 0x49)      # the batch under the middle separator first: the interior split compares it with the pivot
        extra = []
        for a in letters[:rng.choice([1, 3, 8, 15])]:
            extra += [bytes([a])] + [bytes([a, c]) for c in range(1, 8)] + ([bytes([a, 0x61, 0])] if rng.random() < 0.3 else [])
        pool = grid + extra
        order = "keep"
    if order == "keep":
        pass
    elif order == "asc":
        pool.sort()
    elif order == "desc":
        pool.sort(reverse=True)
    else:
        rng.shuffle(pool)
    inline_storage = rng.random() < inline_frac

    def val():
        n = rng.choice([0, 1, 2, 7, 8, 9, 31])
        return bytes(rng.randrange(256) for _ in range(n))

    def put(nm, k, unique=False):
        if putinfo and not inline_storage and not unique and rng.random() < 0.5:
            v = val()
            ops.append("putinfo %s %s %s" % (hx(nm), hx(k), hx(v)))
            live[nm][k] = v
            return
        if inline_storage:
            v = bytes([rng.randrange(256) for _ in range(3)] + [0] * 5)   # small word: bits 62/63 clear
            if v == b"\0" * 8:
                v = b"\1" + b"\0" * 7
            ops.append("put %s %s %s 8 %d 1" % (hx(nm), hx(k), hx(v), int(unique)))
        else:
            v = val()
            al = rng.choice([1, 1, 8, 8, 16, 64, 4096])
            ops.append("put %s %s %s %d %d 0" % (hx(nm), hx(k), hx(v), al, int(unique)))
        if not (unique and k in live[nm]):
            live[nm][k] = v

    def endpoint_key(nm):
        ks = sorted(live[nm])
        r = rng.random()
        if ks and r < 0.7:
            k = rng.choice(ks)
            m = rng.random()
            if m < 0.3:
                return k
            if m < 0.45:
                return k[:rng.randrange(len(k) + 1)]
            if m < 0.6:
                return k + bytes([rng.choice([0x00, 0xff])])
            if m < 0.67 and len(k) >= 8:
                return k[:8 * (len(k) // 8)]
            if m < 0.74:
                return k[:-1] + bytes([(k[-1] + 1) & 0xff]) if k else b"\0"
            if m < 0.86:
                pad = rng.choice([256, 257, 264, 512, 248, 260]) - len(k)
                return k + bytes([rng.choice([0x00, 0x61, 0xff])]) * max(pad, 1)
            return k[:max(0, len(k) - 1)]
        return kg.key()

    def scan(nm):
        le = rng.choice(["EX", "IN", "INF"])
        re_ = rng.choice(["EX", "IN", "INF"])
        lk, rk = endpoint_key(nm), endpoint_key(nm)
        if rng.random() < 0.8 and le != "INF" and re_ != "INF" and lk > rk:
            lk, rk = rk, lk
        if le == "INF" and rng.random() < 0.7:
            lk = b""
        if re_ == "INF" and rng.random() < 0.7:
            rk = b""
        mx = rng.choice([0, 0, 1, 2, 5, len(live[nm])])
        rtl = 0
        if rng.random() < 0.15:
            rtl, mx = 1, (1 if rng.random() < 0.9 else mx)
            if rng.random() < 0.9:
                re_, rk = "INF", b""
        lt, rt = hx(lk), hx(rk)
        if rng.random() < 0.02:
            lt = "~%d" % rng.choice([0, 1, 3])
        ops.append("scan %s %s %s %s %s %d %d" % (hx(nm), lt, le, rt, re_, mx, rtl))

    def phantom(nm):
        # a read that collects node versions, then an insert of an absent key into the range it covered
        ks = sorted(live[nm])
        if rng.random() < 0.2:
            k = endpoint_key(nm)
            if k not in live[nm]:
                ops.append("getmiss %s %s %s" % (hx(nm), hx(k), hx(b"ph")))
                live[nm][k] = b"ph"
            return
        before = len(ops)
        scan(nm)
        a = ops.pop().split()
        if len(ops) != before or a[2].startswith("~"):
            return
        lk = b"" if a[2] == "-" else bytes.fromhex(a[2])
        rk = b"" if a[4] == "-" else bytes.fromhex(a[4])
        cands = []
        for base in ([lk, rk] + (rng.sample(ks, min(3, len(ks))) if ks else [])):
            cands += [base, base + b"\x00", base[:-1], base[:8], base + b"\xff", base[:-1] + b"\x01" if base else b"\x01"]
            if len(base) >= 8:
                cands += [base[:8] + b"\x00", base[:7]]
        rng.shuffle(cands)
        k = next((c for c in cands if c not in live[nm]), None)
        if k is None:
            return
        ops.append("phantom %s %s" % (" ".join(a[1:]), hx(k) + " " + hx(b"ph")))
        live[nm][k] = b"ph"   # (only inserted when the driver finds it covered; the generator's view may differ)

    def iscan(nm):
        before = len(ops)
        scan(nm)
        a = ops.pop().split()
        if rng.random() < 0.3 and not a[2].startswith("~") and not a[4].startswith("~"):
            # the cursor's node-version set must detect a later insert into its interval (C10 / C06)
            lk = b"" if a[2] == "-" else bytes.fromhex(a[2])
            rk = b"" if a[4] == "-" else bytes.fromhex(a[4])
            cands = []
            for base in [lk, rk] + (rng.sample(sorted(live[nm]), min(2, len(live[nm]))) if live[nm] else []):
                cands += [base + b"\x01", base[:-1] + b"\x01" if base else b"\x01", base[:8] + b"m" if len(base) >= 8 else base + b"m",
                          base + b"\xff"]
            rng.shuffle(cands)
            k = next((c for c in cands if c not in live[nm]), None)
            if k is not None:
                ops.append("iphantom %s %s %s %s %s %d %s %s" % (a[1], a[2], a[3], a[4], a[5], int(rng.random() < 0.5), hx(k), hx(b"ph")))
                live[nm][k] = b"ph"
                return
        ops.append("iscan %s %s %s %s %s %d" % (a[1], a[2], a[3], a[4], a[5], int(rng.random() < 0.5)))

    def probe(nm, n):
        for _ in range(n):
            r = rng.random()
            ks = list(live[nm])
            if iscans and r < 0.6:
                iscan(nm)
            elif phantoms and r < 0.5:
                phantom(nm)
            elif r < 0.45:
                k = rng.choice(ks) if ks and rng.random() < 0.7 else endpoint_key(nm)
                ops.append("get %s %s" % (hx(nm), hx(k)))
            elif scans:
                scan(nm)

    nm0 = names[0]
    step = max(1, n_keys // 6)
    for i, k in enumerate(pool):
        nm = names[i % len(names)] if storages > 1 else nm0
        put(nm, k, unique=rng.random() < 0.1)
        if rng.random() < 0.04:
            put(nm, rng.choice(list(live[nm])), unique=rng.random() < 0.5)      # overwrite / unique clash
        if (i + 1) % step == 0:
            probe(nm, 3)
            if dumps:
                ops.append("dump " + hx(nm))
    for nm in names:
        probe(nm, 6 if tier == "quick" else 12)
        if dumps:
            ops.append("dump " + hx(nm))
            ops.append("mem " + hx(nm))
    # deletes: in some order, possibly all
    for nm in names:
        ks = list(live[nm])
        mode = rng.choice(["asc", "desc", "shuffle", "half"])
        if mode == "asc":
            ks.sort()
        elif mode == "desc":
            ks.sort(reverse=True)
        else:
            rng.shuffle(ks)
        if mode == "half":
            ks = ks[:len(ks) // 2]
        dstep = max(1, len(ks) // 4)
        for i, k in enumerate(ks):
            ops.append("rem %s %s" % (hx(nm), hx(k)))
            live[nm].pop(k, None)
            if rng.random() < 0.05:
                ops.append("rem %s %s" % (hx(nm), hx(k)))                       # double remove
            if (i + 1) % dstep == 0:
                probe(nm, 2)
                if dumps:
                    ops.append("dump " + hx(nm))
        probe(nm, 4)
        if dumps:
            ops.append("dump " + hx(nm))
    # re-insert a part, in another order
    back = pool[:]
    rng.shuffle(back)
    for i, k in enumerate(back[:max(3, n_keys // 3)]):
        nm = names[i % len(names)] if storages > 1 else nm0
        put(nm, k)
    for nm in names:
        probe(nm, 4)
        if dumps:
            ops.append("dump " + hx(nm))
            ops.append("mem " + hx(nm))
    # final audit: every key the script believes stored must be readable, and one full scan per storage
    for nm in names:
        ks = sorted(live[nm])
        if len(ks) > 400:
            ks = rng.sample(ks, 400)
        for k in ks:
            ops.append("get %s %s" % (hx(nm), hx(k)))
        ops.append("scan %s - INF - INF 0 0" % hx(nm))
    if with_storage_ops:
        ops.append("list")
        ops.append("find " + hx(b"nosuch"))
        ops.append("get %s %s" % (hx(b"nosuch"), hx(b"k")))
        ops.append("put %s %s %s 1 0 0" % (hx(b"nosuch"), hx(b"k"), hx(b"v")))
        ops.append("rem %s %s" % (hx(b"nosuch"), hx(b"k")))
        ops.append("scan %s - INF - INF 0 0" % hx(b"nosuch"))
        ops.append("create " + hx(names[0]))
        ops.append("dropst " + hx(names[-1]))
        ops.append("dropst " + hx(names[-1]))
        ops.append("list")
        ops.append("create " + hx(names[-1]))
        ops.append("scan %s - INF - INF 0 0" % hx(names[-1]))
        ops.append("list")
    ops += ["leave", "fin"]
    if max_ops and len(ops) > max_ops:
        ops = ops[:max_ops] + ["leave", "fin"]
    return ops


# ------------------------------------------------------------------ running
ID_RE = re.compile(r"#(\d+)")


def canon_ids(records):
    """renumber #ids by first appearance over the whole run"""
    m = {}

    def sub(mo):
        k = mo.group(1)
        if k not in m:
            m[k] = len(m) + 1
        return "#%d" % m[k]
    return [ID_RE.sub(sub, r) for r in records]


def split_records(ops, lines, prefixed):
    """group output lines into one record per op; returns (records, spec_lines)"""
    recs, specs = [], []
    i = 0
    n = len(lines)

    def nextline():
        nonlocal i
        while i < n:
            ln = lines[i]
            i += 1
            if prefixed and ln.startswith("S "):
                specs.append(ln[2:])
                continue
            if prefixed and ln.startswith("M "):
                return ln[2:]
            return ln
        return None
    for op in ops:
        if not op or op.startswith("#"):
            continue
        cur_specs = len(specs)
        ln = nextline()
        if ln is None:
            recs.append(None)
            continue
        if ln == "dump":
            body = [ln]
            while True:
                l2 = nextline()
                if l2 is None:
                    break
                body.append(l2)
                if l2 == "enddump":
                    break
            recs.append("\n".join(body))
        else:
            recs.append(ln)
        # keep exactly one spec slot per op
        while len(specs) > cur_specs + 1:
            specs.pop()
        if len(specs) == cur_specs:
            specs.append(None)
    return recs, specs


def abstract(line):
    """the observable part of a result line (what the Spec talks about)"""
    if line is None:
        return None
    s = re.sub(r" mod=\S+ cre=\S+ cvp=\S+", "", line)
    s = re.sub(r" EARLYPUB=\d+", "", s)
    s = re.sub(r" aa=\d+ af=\d+$", "", s)
    s = re.sub(r" existed=.*$", "", s)
    s = re.sub(r" end=\S+ cb=\[.*\]$", "", s)
    s = re.sub(r" nv=\[.*\]$", "", s)
    s = re.sub(r" nv=\S+$", "", s)
    return s


def nv_part(line):
    if line is None:
        return None
    m = re.search(r" cb=(\[.*\])$", line)
    if m:
        return m.group(1)
    m = re.search(r" nv=(\[.*\]|\S+)$", line)
    return m.group(1) if m else ""


def alloc_part(line):
    if line is None:
        return None
    m = re.search(r" aa=\d+ af=\d+$", line)
    return m.group(0) if m else ""


def info_part(line):
    if line is None:
        return None
    m = re.search(r" mod=\S+ cre=\S+", line)
    return m.group(0) if m else ""


class SeqRun:
    pass


IMPL_TIMEOUT = 60      # seconds per script on the real library (normal scripts run in well under a second)


def run_script(tag, ops, name="s", spec_only=False):
    """returns SeqRun with per-op records of both sides, or .error"""
    r = SeqRun()
    r.ops = [o for o in ops if o and not o.startswith("#")]
    d = os.path.join(C.BUILD, "run_" + tag)
    os.makedirs(d, exist_ok=True)
    sf = os.path.join(d, name + ".ops")
    with open(sf, "w") as f:
        f.write("\n".join(r.ops) + "\n")
    r.script = sf
    rc, out = C.sh([os.path.join(C.BUILD, "seq_driver_" + tag), sf], timeout=IMPL_TIMEOUT, merge=False)
    r.error = None
    if rc != 0:
        r.error = ("the implementation did not finish the script within %d s (an operation does not terminate)" % IMPL_TIMEOUT
                   if rc == 124 else "seq_driver exited %d (crash or abort of the implementation)" % rc)
        r.impl_raw = out
        lines = out.split("\n")
        r.crash_at = len([x for x in lines if x])
        return r
    impl_lines = out.split("\n")
    if impl_lines and impl_lines[-1] == "":
        impl_lines.pop()
    rc, out = C.sh([os.path.join(C.BUILD, "seq_main"), sf] + (["spec"] if spec_only else []), timeout=900, merge=False)
    if rc != 0:
        r.error = "model driver exited %d" % rc
        return r
    model_lines = out.split("\n")
    if model_lines and model_lines[-1] == "":
        model_lines.pop()
    irec, _ = split_records(r.ops, impl_lines, False)
    mrec, specs = split_records(r.ops, model_lines, True)
    # canonical ids
    r.impl = canon_ids([x if x is not None else "" for x in irec])
    r.model = canon_ids([x if x is not None else "" for x in mrec])
    r.spec = specs
    return r


NOSPEC = ("init", "fin", "enter", "leave", "sleep", "dump", "phantom", "getmiss", "iphantom")


def compare(r, categories):
    """returns dict category -> list of op indices where impl and model differ,
    plus 'oracle' -> indices where the implementation's observable result differs from the Spec"""
    res = {c: [] for c in categories}
    res["oracle"] = []
    for i, op in enumerate(r.ops):
        kind = op.split()[0]
        a, b = r.impl[i], r.model[i]
        if kind == "dump":
            if "dump" in categories and a != b:
                res["dump"].append(i)
            continue
        if kind == "mem":
            if "mem" in categories and a != b:
                res["mem"].append(i)
            if "mem" in categories and i < len(r.spec) and r.spec[i] is not None and a != r.spec[i]:
                res["oracle"].append(i)
            continue
        if a is not None and "EARLYPUB" in a:
            res["oracle"].append(i)      # a permutation word listed a slot whose entry had not been written yet
        if kind == "leave" and a is not None and "UNSTABLE" in a:
            res["oracle"].append(i)      # a value handed out by get inside the session changed before leave
        if kind in ("fin", "iopen", "inext", "iclose"):
            continue       # cursor steps interleaved with writes: oracle only (see cursor_check)
        if "res" in categories and abstract(a) != abstract(b):
            res["res"].append(i)
        if "nv" in categories and nv_part(a) != nv_part(b):
            res["nv"].append(i)
        if "info" in categories and info_part(a) != info_part(b):
            res["info"].append(i)
        if "alloc" in categories and alloc_part(a) != alloc_part(b):
            res["alloc"].append(i)
        if kind not in NOSPEC and i < len(r.spec) and r.spec[i] is not None:
            if abstract(a) != r.spec[i]:
                res["oracle"].append(i)
    return res


def build(tag, defs=()):
    ok, o = C.build_cpp("seq_driver_" + tag, "harness/seq_driver.cpp", defs=defs)
    if not ok:
        return False, "seq_driver does not compile against /repo:\n" + o[-3000:]
    okm, om = C.build_model("seq_main")
    if not okm:
        return False, "model driver does not build:\n" + om[-3000:]
    return True, ""


def minimize(tag, ops, still_fails, budget=60):
    """delta-debugging on the op list (keeping init/enter/create and leave/fin)"""
    head = [o for o in ops if o.split()[0] in ("init", "enter", "create")]
    tail = ["leave", "fin"]
    body = [o for o in ops if o.split()[0] not in ("init", "enter", "create", "leave", "fin")]
    n = 2
    tries = 0
    global IMPL_TIMEOUT
    saved_timeout, IMPL_TIMEOUT = IMPL_TIMEOUT, 15
    t_end = time.time() + 240
    while len(body) >= 2 and tries < budget and time.time() < t_end:
        chunk = max(1, len(body) // n)
        reduced = False
        for s in range(0, len(body), chunk):
            cand = body[:s] + body[s + chunk:]
            tries += 1
            if still_fails(head + cand + tail):
                body = cand
                n = max(n - 1, 2)
                reduced = True
                break
            if tries >= budget:
                break
        if not reduced:
            if chunk == 1:
                break
            n = min(len(body), n * 2)
    IMPL_TIMEOUT = saved_timeout
    return head + body + tail


def gen_overwrite_scripts(rng, tier):
    """values handed out inside a session vs later overwrites of the same key (same and different lengths, all
    alignments): the old copy must stay intact until leave, the new one must be returned afterwards"""
    out = []
    for n in range(6 if tier == "quick" else 30):
        ops = ["init", "enter", "create 73"]
        keys = [bytes([0x61 + i]) for i in range(rng.choice([1, 3, 16]))] + [b"prefix88a"]
        cur = {}
        for k in keys:
            v = bytes(rng.randrange(256) for _ in range(rng.choice([1, 4, 8, 9, 32, 100])))
            ops.append("put 73 %s %s %d 0 0" % (hx(k), hx(v), rng.choice([1, 8, 16, 64])))
            cur[k] = v
        for _ in range(rng.randrange(4, 12)):
            k = rng.choice(keys)
            ops.append("get 73 %s" % hx(k))
            r = rng.random()
            if r < 0.6:
                v = bytes((b + 1 + rng.randrange(200)) & 0xff for b in cur[k])      # same length, every byte different
            else:
                v = bytes(rng.randrange(256) for _ in range(rng.choice([0, 1, 8, 33])))
            al = rng.choice([1, 8, 16, 64]) if r >= 0.3 else None
            m = re.search(r"put 73 %s \S+ (\d+) " % hx(k), "\n".join(reversed(ops)))
            ops.append("put 73 %s %s %s 0 0" % (hx(k), hx(v), al if al is not None else (m.group(1) if m else "1")))
            cur[k] = v
            if rng.random() < 0.5:
                ops.append("get 73 %s" % hx(k))
            if rng.random() < 0.15:
                ops += ["leave", "enter"]
        ops += ["leave", "fin"]
        out.append(("overwrite%d" % n, ops))
    return out


def gen_split_boundary_scripts(rng, tier):
    """a full border (15 ENTRIES) whose entries around the split point share one 8-byte slice and differ only in
    length: zero extensions "m\\0" / "m\\0\\0", and an 8-byte key next to the layer link of longer keys with the same
    first 8 bytes (one entry, however many long keys).  The 16th entry is inserted at a chosen rank around the split
    point (7, 8, 9); then every key is looked up, intervals with endpoints at the family keys are scanned (scan and
    cursor) and the tree is dumped.  Optionally everything sits below a common 8-byte prefix (layer 1)."""
    out = []
    n_scripts = 30 if tier == "quick" else 200
    tries = 0
    while len(out) < n_scripts and tries < n_scripts * 20:
        tries += 1
        n = len(out)
        prefix = b"" if rng.random() < 0.6 else rng.choice([b"prefix88", b"\0" * 8, b"\xff" * 8])
        fam_kind = rng.choice(["zero", "link", "link", "both"])
        base = bytes([rng.choice([0x6d, 0x01, 0x80])]) + bytes(rng.choice([0, 0x41]) for _ in range(rng.randrange(0, 4)))
        b8 = (base + b"\0" * 8)[:8]
        entries = []          # (order key, [real keys]) ; order key = (padded slice, length or 9 for the link)
        if fam_kind in ("zero", "both"):
            for j in range(0, 8 - len(base) + 1):
                k = base + b"\0" * j
                entries.append(((k + b"\0" * 8)[:8], len(k), [k]))
        if fam_kind in ("link", "both"):
            if not any(e[2] == [b8] for e in entries):
                entries.append((b8, 8, [b8]))
            longs = rng.sample([b8 + b"XYZ", b8 + b"\0", b8 + b"\0\0", b8 + b"\xff"], rng.choice([1, 1, 2, 3]))
            entries.append((b8, 9, sorted(longs)))
        entries.sort(key=lambda e: (e[0], e[1]))
        if len(entries) < 2:
            continue
        new_i = rng.randrange(len(entries))
        target_rank = rng.choice([7, 8, 8, 8, 9])
        need_below = target_rank - new_i
        n_fam_before = len(entries) - 1
        need_above = 15 - n_fam_before - need_below
        if need_below < 0 or need_above < 0:
            continue
        lows = [bytes([0x00, i + 1]) for i in range(need_below)]
        if lows and max(lows) >= min(e[2][0] for e in entries):
            continue
        highs = [bytes([0xfe, i]) for i in range(need_above)]
        new_e = entries[new_i]
        old_keys = lows + highs + [k for e in entries if e is not new_e for k in e[2]]
        rng.shuffle(old_keys)
        ops = ["init", "enter", "create 73"]
        if prefix:
            ops.append("put 73 %s 76 1 0 0" % hx(b"a"))
        for k in old_keys:
            ops.append("put 73 %s %s 1 0 0" % (hx(prefix + k), hx(b"v" + k[:3])))
        ops.append("dump 73")
        for k in new_e[2]:
            ops.append("put 73 %s %s 1 0 0" % (hx(prefix + k), hx(b"NEW")))
        allk = sorted(old_keys + new_e[2])
        for k in allk:
            ops.append("get 73 %s" % hx(prefix + k))
        ops.append("scan 73 - INF - INF 0 0")
        fam_keys = [k for e in entries for k in e[2]]
        ends = sorted(set(fam_keys + [(k + b"\0" * 8)[:8] for k in fam_keys]))
        for _ in range(8):
            a, b = rng.choice(ends), rng.choice(ends)
            if a > b:
                a, b = b, a
            le, re_ = rng.choice(["IN", "IN", "EX"]), rng.choice(["IN", "EX", "INF"])
            if a == b and not (le == "IN" and re_ in ("IN", "INF")):
                le, re_ = "IN", ("IN" if re_ != "INF" else "INF")
            ops.append("scan 73 %s %s %s %s %d 0" % (hx(prefix + a), le, "-" if re_ == "INF" else hx(prefix + b), re_,
                                                     rng.choice([0, 0, 1, 3])))
            if rng.random() < 0.5:
                ops.append("iscan 73 %s %s %s %s %d" % (hx(prefix + a), le, "-" if re_ == "INF" else hx(prefix + b), re_,
                                                        int(rng.random() < 0.5)))
        ops.append("dump 73")
        ops.append("put 73 %s %s 1 1 0" % (hx(prefix + new_e[2][0]), hx(b"DUP")))       # unique insert must fail
        for k in rng.sample(allk, 5):
            ops.append("rem 73 %s" % hx(prefix + k))
        ops.append("scan 73 - INF - INF 0 0")
        ops += ["dump 73", "leave", "fin"]
        out.append(("splitb%d" % n, ops))
    return out


def gen_storage_cycle_scripts(rng, tier):
    """storages created and deleted repeatedly, ending with NO storage left (or all destroyed) before fin()"""
    out = []
    for n in range(6 if tier == "quick" else 24):
        ops = ["init", "fin", "init", "enter"]
        names = [b"s", b"t12345678", b"t123456789", b""][:rng.choice([1, 2, 4])]
        for rnd in range(rng.choice([1, 2, 3])):
            for nm in names:
                ops.append("create " + hx(nm))
                for i in range(rng.choice([0, 1, 20])):
                    ops.append("put %s %s %s 8 0 0" % (hx(nm), hx(bytes([0x41 + i % 26, i])), hx(b"v")))
            if rng.random() < 0.3:
                ops.append("list")
            order = list(names)
            rng.shuffle(order)
            for nm in order:
                ops.append("dropst " + hx(nm))
            if rng.random() < 0.5:
                ops.append("list")
        end = rng.random()
        if end < 0.3:
            ops.append("destroy")
        elif end < 0.5:
            ops += ["create 73", "destroy"]
        ops += ["leave", "fin"]
        out.append(("stcycle%d" % n, ops))
    return out


def gen_failed_ddl_scripts(rng, tier):
    """more failed storage operations (delete / find / create of unknown or existing names) than there are session
    slots: each must release what it took, so the operations after them still complete"""
    out = []
    for n in range(3 if tier == "quick" else 10):
        ops = ["init", "enter", "create 73"]
        m = rng.choice([9, 12, 20])
        for i in range(m):
            r = rng.random()
            if r < 0.5:
                ops.append("dropst %s" % hx(b"nosuch%d" % i))
            elif r < 0.7:
                ops.append("create 73")
            elif r < 0.85:
                ops.append("find %s" % hx(b"nosuch%d" % i))
            else:
                ops.append("put %s 61 62 1 0 0" % hx(b"nosuch%d" % i))
        ops += ["create 74", "put 74 61 62 1 0 0", "get 74 61", "dropst 74", "list", "leave", "enter", "get 73 61", "leave", "fin"]
        out.append(("ddl%d" % n, ops))
    return out


def gen_deep_layer_scripts(rng, tier):
    """one next layer (and layer 0) filled until its interior root is full and splits: every insert reports its
    modified / created border (putinfo), the split of a layer root cascades into the border that holds the link"""
    out = []
    for n in range(2 if tier == "quick" else 6):
        prefix = rng.choice([b"prefix88", b"", b"\0" * 8, b"prefix88prefix99"])
        count = rng.choice([150, 200, 290])
        keys = [prefix + bytes([0x21 + i // 90, 0x21 + i % 90]) for i in range(count)]
        order = rng.choice(["asc", "desc", "shuffle"])
        if order == "desc":
            keys.reverse()
        elif order == "shuffle":
            rng.shuffle(keys)
        ops = ["init", "enter", "create 73", "put 73 61 76 1 0 0", "put 73 7a 76 1 0 0"]
        for k in keys:
            ops.append("putinfo 73 %s %s" % (hx(k), hx(b"v")))
        ops.append("scan 73 - INF - INF 0 0")
        for k in rng.sample(keys, 20):
            ops.append("get 73 %s" % hx(k))
        ops += ["dump 73", "leave", "fin"]
        out.append(("deep%d" % n, ops))
    return out


def gen_gc_scripts(rng, tier):
    """several retirements in one session with gc passes in between (the session stays open, so nothing is
    reclaimable yet), then leave and fin: everything must be released in the end"""
    out = []
    for n in range(4 if tier == "quick" else 16):
        ops = ["init", "fin", "init", "enter", "create 73"]
        keys = [bytes([0x61 + i]) for i in range(rng.choice([4, 8, 20]))]
        for k in keys:
            ops.append("put 73 %s %s %d 0 0" % (hx(k), hx(bytes(rng.randrange(256) for _ in range(rng.choice([1, 9, 40])))),
                                                 rng.choice([1, 8, 64])))
        rng.shuffle(keys)
        for i, k in enumerate(keys):
            if rng.random() < 0.5:
                ops.append("rem 73 %s" % hx(k))
            else:
                ops.append("put 73 %s %s 8 0 0" % (hx(k), hx(b"new" + bytes([i]))))
            if i % 3 == 2:
                ops.append("sleep %d" % rng.choice([60, 100, 130]))
        if rng.random() < 0.5:
            ops += ["leave", "sleep 100", "enter"]
        ops += ["leave", "fin"]
        out.append(("gc%d" % n, ops))
    return out


def scripts_phase(res, tag, scripts, categories, label):
    """run extra scripts on the real library and the extracted model, record violations in res (no finish):
    used by properties whose main tie is elsewhere but whose statement has a sequential store-level clause"""
    ok, msg = build(tag)
    if not ok:
        res.violation(msg[:300], dict(kind="build-failure", log=msg[-4000:]), nofail=True)
        return
    nops = 0
    bad = []
    from concurrent.futures import ThreadPoolExecutor
    with ThreadPoolExecutor(max_workers=12) as ex:
        ran = list(ex.map(lambda no: run_script(tag, no[1], name=no[0]), scripts))
    for (name, ops), r in zip(scripts, ran):
        if r.error:
            bad.append((name, "crash", r.error, ops, None))
            continue
        nops += len(r.ops)
        c = compare(r, categories)
        for i in c["oracle"]:
            bad.append((name, "oracle", "result differs from the specification at `%s`: %s (spec: %s)" % (
                r.ops[i][:100], r.impl[i][:200], r.spec[i] if i < len(r.spec) else None), ops, i))
        for cat in categories:
            for i in c[cat]:
                bad.append((name, cat, "impl `%s` vs model `%s` at `%s`" % (r.impl[i][:200], r.model[i][:200], r.ops[i][:100]), ops, i))
    res.cov[label] = dict(scripts=len(scripts), operations=nops, categories=list(categories), failures=len(bad))
    res.cov["programs"] = res.cov.get("programs", 0) + len(scripts)
    if bad:
        orac = [b for b in bad if b[1] in ("oracle", "crash")]
        name, cat, why, ops, i = (orac or bad)[0]
        res.violation("%s: %s" % (cat, why[:300]), dict(kind="seq-" + cat, script=ops, why=why, tag=tag, categories=list(categories)),
                      nofail=not orac)


def gen_longkey_scripts(rng, tier):
    """keys up to the documented 30 KiB (one trie layer per 8 bytes: thousands of layers), judged by the Spec alone"""
    out = []
    for n in range(3 if tier == "quick" else 10):
        ops = ["init", "enter", "create 73"]
        L = rng.choice([8192, 20000, 30000, 30 * 1024])
        base = bytes(rng.choice([0x41, 0x00, 0xff]) for _ in range(1)) * L
        keys = [base, base[:-1] + b"B", base[:-1], base[:L // 2] + b"x", base[:16] + b"z", base[:8], base[:9], b"short"]
        rng.shuffle(keys)
        for i, k in enumerate(keys):
            ops.append("put 73 %s %s 8 %d 0" % (hx(k), hx(b"v%d" % i), int(rng.random() < 0.2)))
        for k in keys[:4]:
            ops.append("get 73 %s" % hx(k))
        ops.append("scan 73 - INF - INF 0 0")
        ops.append("scan 73 %s IN %s EX 0 0" % (hx(base[:20]), hx(base[:-1] + b"C")))
        ops.append("iscan 73 %s EX - INF %d" % (hx(base[:L // 2]), rng.randrange(2)))
        ops.append("put 73 %s %s 8 0 0" % (hx(keys[0]), hx(b"overwritten")))
        ops.append("get 73 %s" % hx(keys[0]))
        for k in keys[:5]:
            ops.append("rem 73 %s" % hx(k))
        ops.append("get 73 %s" % hx(keys[0]))
        ops.append("scan 73 - INF - INF 0 0")
        ops += ["leave", "fin"]
        out.append(("long%d" % n, ops))
    return out


def longkey_phase(res, tag):
    """implementation vs the Spec only (no slot-level model) on keys up to 30 KiB"""
    import random
    ok, msg = build(tag)
    if not ok:
        res.violation(msg[:300], dict(kind="build-failure", log=msg[-4000:]), nofail=True)
        return
    scripts = gen_longkey_scripts(random.Random(res.seed + 77), res.tier)
    nops = 0
    bad = []
    for name, ops in scripts:
        r = run_script(tag, ops, name=name, spec_only=True)
        if r.error:
            bad.append(("crash", r.error, ops))
            continue
        nops += len(r.ops)
        c = compare(r, [])
        for i in c["oracle"]:
            bad.append(("oracle", "result differs from the specification at `%s...`: %s (spec: %s)" % (
                r.ops[i][:60], r.impl[i][:200], (r.spec[i] or "")[:200]), ops))
    res.cov["long_key_scripts"] = dict(scripts=len(scripts), operations=nops, max_key_bytes=30 * 1024, oracle="extracted Spec only",
                                       failures=len(bad))
    res.cov["programs"] = res.cov.get("programs", 0) + len(scripts)
    if bad:
        cat, why, ops = bad[0]
        res.violation("long keys: %s" % why[:300], dict(kind="seq-" + cat, script=[o[:200] for o in ops], why=why, tag=tag, categories=[]))


# ------------------------------------------------------------------ property runner
def load_corpus(pid):
    d = os.path.join(C.VERIF, "corpus", pid)
    out = []
    if os.path.isdir(d):
        for f in sorted(os.listdir(d)):
            if f.endswith(".ops"):
                out.append((f, [l.rstrip("\n") for l in open(os.path.join(d, f)) if l.strip()]))
    return out


def op_mix(scripts):
    mix = {}
    for ops in scripts:
        for o in ops:
            k = o.split()[0]
            mix[k] = mix.get(k, 0) + 1
    return mix


def run_seq_property(res, tag, categories, n_quick, n_thorough, gen_kwargs=None, use_oracle=True,
                     extra_check=None, nontrivial_min_ops=20, defs=(), post=None, extra_scripts=None):
    """generic flow for a property decided by the sequential model:
       proofs -> builds -> corpus + generated scripts -> compare -> oracle -> decide"""
    pid = res.pid
    gen_kwargs = gen_kwargs or {}
    st = C.property_status(pid)
    C.proof_coverage(res, st)
    proof_broken = not st["ok"]
    if proof_broken:
        C.log("[%s] proof obligations broken: %s" % (pid, st["broken"]))
        C.log(st["log"][-2500:])
    ok, msg = build(tag, defs=defs)
    if not ok:
        res.violation(msg[:300], dict(kind="build-failure", log=msg[-4000:],
                                      broken="harness/model build against /repo"), nofail=True)
        return res.finish()
    rng = random.Random(res.seed)
    n = n_quick if res.tier == "quick" else n_thorough
    scripts = [(name, ops) for name, ops in load_corpus(pid)]
    for i in range(n):
        scripts.append(("gen%d" % i, gen_script(random.Random(rng.getrandbits(48)), res.tier, **gen_kwargs)))
    if extra_scripts:
        scripts += list(extra_scripts(random.Random(rng.getrandbits(48)), res.tier))
    total_ops = 0
    mism = []      # (script name, category, op index, op, impl, model)
    orac = []      # (script name, op index, op, impl, spec)
    crashes = []
    distinct = set()
    samples = []
    known = C.known_findings(pid)
    from concurrent.futures import ThreadPoolExecutor
    with ThreadPoolExecutor(max_workers=12) as ex:
        ran = list(ex.map(lambda no: run_script(tag, no[1], name=no[0]), scripts))
    for (name, ops), r in zip(scripts, ran):
        if r.error:
            crashes.append((name, r.error, ops))
            continue
        total_ops += len(r.ops)
        if len(r.ops) >= nontrivial_min_ops:
            distinct.add(hash(tuple(r.ops)))
        cmpres = compare(r, categories)
        for cat in categories:
            for i in cmpres[cat]:
                mism.append((name, cat, i, r.ops[i], r.impl[i], r.model[i], ops))
        if use_oracle:
            for i in cmpres["oracle"]:
                orac.append((name, i, r.ops[i], r.impl[i], r.spec[i], ops))
        if extra_check:
            for (i, why) in extra_check(r):
                orac.append((name, i, r.ops[i], r.impl[i], why, ops))
        if len(samples) < 3 and len(r.ops) > 10:
            j = min(len(r.ops) - 1, 5 + len(samples) * 7)
            samples.append(dict(script=name, op=r.ops[j], impl=r.impl[j][:300], model=r.model[j][:300]))
    allops = [ops for _, ops in scripts]
    res.cov.update(
        programs=len(scripts), evaluations=total_ops, distinct_nontrivial=len(distinct),
        rule="one program = one generated operation script (build / probe / delete / re-insert phases over keys "
             "clustered at slice boundaries) run on the real library and on the extracted Coq model; compared "
             "categories: %s; non-trivial = at least %d operations; distinct by script text" % (",".join(categories), nontrivial_min_ops),
        disagreements_checked=len(mism) + len(orac), op_mix=op_mix(allops), samples=samples or [dict(note="no sample")],
        oracle_failures=len(orac), crashes=len(crashes), corpus_scripts=len(load_corpus(pid)))

    def still_fails_oracle(cand):
        rr = run_script(tag, cand, name="min")
        if rr.error:
            return False
        c2 = compare(rr, categories)
        if c2["oracle"]:
            return True
        return bool(extra_check and extra_check(rr))

    if crashes:
        name, err, ops = crashes[0]
        res.violation("implementation crashed on script %s: %s" % (name, err),
                      dict(kind="crash", script=ops, error=err, tag=tag))
    elif orac:
        name, i, op, impl, spec, ops = orac[0]
        small = minimize(tag, ops, still_fails_oracle, budget=40 if res.tier == "quick" else 120)
        rr = run_script(tag, small, name="min")
        detail = None
        if not rr.error:
            c2 = compare(rr, categories)
            bad = c2["oracle"] or ([x[0] for x in extra_check(rr)] if extra_check else [])
            if bad:
                j = bad[0]
                detail = dict(op=rr.ops[j], impl=rr.impl[j][:2000], expected=(rr.spec[j] if j < len(rr.spec) else None),
                              model=rr.model[j][:2000])
        res.violation("oracle: implementation result differs from the specification at `%s`" % op[:200],
                      dict(kind="seq-oracle", script=small, first=dict(op=op, impl=impl[:2000], expected=str(spec)[:2000]),
                           minimized=detail, tag=tag, categories=categories))
    elif mism or proof_broken:
        what = []
        if proof_broken:
            what.append("proof obligations no longer check: " + "; ".join(st["broken"][:5]))
        if mism:
            name, cat, i, op, impl, model, ops = mism[0]
            what.append("correspondence (%s) broken at `%s` in %s: %d differing results" % (cat, op[:120], name, len(mism)))
        replay = dict(kind="broken-tie", broken=what, theorems=st["theorems"], tag=tag, categories=categories)
        if mism:
            name, cat, i, op, impl, model, ops = mism[0]
            replay["script"] = ops
            replay["first_mismatch"] = dict(category=cat, op=op, impl=impl[:3000], model=model[:3000])
        res.violation("; ".join(what), replay, nofail=True)
    if post is not None:
        post(res)
    return res.finish()


def replay_seq(pid, tag, path, categories, extra_check=None):
    import json
    r = json.load(open(path))
    ok, msg = build(tag)
    if not ok:
        print("replay: build failed", msg[-500:])
        return 2
    ops = r.get("script")
    if not ops:
        print("replay: no script; broken:", r.get("broken"))
        return 1
    rr = run_script(tag, ops, name="replay")
    if rr.error:
        print("replay:", rr.error)
        return 1
    c = compare(rr, categories)
    bad = False
    for cat, idx in c.items():
        for i in idx[:5]:
            bad = True
            print("[%s] %s\n  impl : %s\n  model: %s\n  spec : %s" % (cat, rr.ops[i], rr.impl[i][:500], rr.model[i][:500],
                                                                 rr.spec[i] if i < len(rr.spec) else None))
    if extra_check:
        for i, why in extra_check(rr):
            bad = True
            print("[check] %s: %s" % (rr.ops[i], why))
    print("replay: %s" % ("property violated / tie broken" if bad else "no difference"))
    return 1 if bad else 0


# ------------------------------------------------------------------ cursor with interleaved writes (C10, second sentence)
def gen_cursor_script(rng, tier):
    """a cursor is opened, advanced a few steps, the tree is modified (inserts that split the node / the root of
    the layer the cursor is in, removes of visited and unvisited keys), advanced again, ... until the end"""
    kg = KeyGen(rng)
    st = b"s"
    ops = ["init", "enter", "create " + hx(st)]
    live = {}
    n = rng.choice([6, 18, 40])
    prefix = rng.choice(kg.prefixes[1:]) if len(kg.prefixes) > 1 else b"prefix88"
    deep = rng.random() < 0.4
    if deep:
        # three trie layers: a second-level slice under the prefix, with the keys a repositioned cursor must land on
        # (the 8-byte key of that slice, the successor of the slice, a successor that strips 0xff bytes)
        mid = rng.choice([b"QQQQQQQQ", b"QQQQQQQ\xff", b"\xff" * 8, b"\0" * 8])
        for suf in (b"a", b"b", b"c"):
            live[prefix + mid + suf] = True
        succ = mid.rstrip(b"\xff")
        if succ:
            live[prefix + succ[:-1] + bytes([succ[-1] + 1])] = True
        if rng.random() < 0.5:
            live[prefix + mid] = True
        for k in sorted(live):
            ops.append("put %s %s 76 1 0 0" % (hx(st), hx(k)))
    while len(live) < n:
        k = (prefix if rng.random() < 0.6 else b"") + bytes([rng.choice(ALPH + [0x62, 0x63, 0x64])] ) + bytes(rng.choice(ALPH) for _ in range(rng.choice([0, 1, 2])))
        if k not in live:
            live[k] = True
            ops.append("put %s %s 76 1 0 0" % (hx(st), hx(k)))
    rtl = int(rng.random() < 0.4)
    early = int(rng.random() < 0.35)
    ops.append("iopen %s - INF - INF %d %d" % (hx(st), rtl, early))
    steps = 0
    while steps < 3 * n:
        for _ in range(rng.randrange(1, 5)):
            ops.append("inext")
            steps += 1
        r = rng.random()
        if r < 0.5:
            # burst of inserts, often under the cursor's prefix (splits the layer the cursor is inside)
            base = prefix if rng.random() < 0.7 else b""
            for _ in range(rng.choice([1, 2, 5, 16])):
                k = base + bytes(rng.choice([0x41, 0x42, 0x43, 0x30, 0x7a, 0x00, 0xff]) for _ in range(rng.choice([1, 2])))
                ops.append("put %s %s 77 1 0 0" % (hx(st), hx(k)))
                live[k] = True
        elif r < 0.8 and live:
            for _ in range(rng.choice([1, 2, 6])):
                if live:
                    k = rng.choice(sorted(live))
                    ops.append("rem %s %s" % (hx(st), hx(k)))
                    live.pop(k, None)
    ops += ["iclose", "leave", "fin"]
    return ops


def cursor_check(r):
    """oracle on the implementation's own outputs.  Returns list of (op index, why, known_pattern: bool)"""
    bad = []
    present = {}          # key -> True while stored
    cur = None
    for i, op in enumerate(r.ops):
        t = op.split()
        out = r.impl[i]
        if t[0] == "put" and out.startswith("put OK"):
            k = bytes.fromhex(t[2]) if t[2] != "-" else b""
            present[k] = True
            if cur:
                cur["touched"].add(k)
                cur["puts_since"].append(k)
        elif t[0] == "rem" and out.startswith("rem OK") and "NOT_FOUND" not in out:
            k = bytes.fromhex(t[2]) if t[2] != "-" else b""
            present.pop(k, None)
            if cur:
                cur["touched"].add(k)
        elif t[0] == "iopen":
            cur = dict(rtl=t[6] == "1", early=t[7] == "1", returned=[], start=set(present), touched=set(),
                       puts_since=[], ended=False, aborted=False)
            m = re.search(r" k=(\S+)", out)
            if m:
                cur["returned"].append(bytes.fromhex(m.group(1)) if m.group(1) != "-" else b"")
                cur["puts_since"] = []
        elif t[0] == "inext" and cur and not cur["ended"]:
            m = re.search(r" k=(\S+)", out)
            exp_abort = " exp_abort=1" in out
            if "WARN_CONCURRENT_OPERATIONS" in out:
                cur["aborted"] = cur["ended"] = True
                if not cur["early"]:
                    bad.append((i, "cursor without early_abort returned WARN_CONCURRENT_OPERATIONS", False))
                continue
            if exp_abort:
                bad.append((i, "early_abort cursor continued although the node under it was modified: " + out, False))
            if m:
                k = bytes.fromhex(m.group(1)) if m.group(1) != "-" else b""
                prev = cur["returned"][-1] if cur["returned"] else None
                if prev is not None and not ((k > prev) if not cur["rtl"] else (k < prev)):
                    bad.append((i, "cursor not strictly monotone: %s after %s" % (k.hex(), prev.hex()), False))
                if k not in cur["start"] and k not in cur["touched"]:
                    bad.append((i, "cursor returned a key that was never stored during the iteration: " + k.hex(), False))
                # keys present throughout, strictly between prev and k, must not be skipped
                stable = [x for x in cur["start"] if x not in cur["touched"] and x in present]
                lo, hi = (prev, k) if not cur["rtl"] else (k, prev)
                skipped = [x for x in stable if (lo is None or x > lo) and (hi is None or x < hi)]
                if skipped:
                    known = (prev is not None and len(prev) > 8 and
                             all(x[:8 * ((len(prev) - 1) // 8)] == prev[:8 * ((len(prev) - 1) // 8)] for x in skipped) and
                             any(p[:8 * ((len(prev) - 1) // 8)] == prev[:8 * ((len(prev) - 1) // 8)] and len(p) > 8
                                 for p in cur["puts_since"]))
                    bad.append((i, "cursor skipped %d key(s) present throughout the iteration, e.g. %s (after %s)" % (
                        len(skipped), skipped[0].hex(), prev.hex() if prev is not None else None), known))
                cur["returned"].append(k)
                cur["puts_since"] = []
            elif "OK_SCAN_END" in out:
                cur["ended"] = True
                prev = cur["returned"][-1] if cur["returned"] else None
                stable = [x for x in cur["start"] if x not in cur["touched"] and x in present]
                skipped = [x for x in stable if prev is None or ((x > prev) if not cur["rtl"] else (x < prev))]
                if skipped:
                    known = (prev is not None and len(prev) > 8 and
                             any(p[:8 * ((len(prev) - 1) // 8)] == prev[:8 * ((len(prev) - 1) // 8)] and len(p) > 8
                                 for p in cur["puts_since"]) and
                             all(x[:8 * ((len(prev) - 1) // 8)] == prev[:8 * ((len(prev) - 1) // 8)] for x in skipped))
                    bad.append((i, "cursor ended while %d key(s) present throughout were not returned, e.g. %s" % (
                        len(skipped), skipped[0].hex()), known))
        elif t[0] == "iclose":
            cur = None
    return bad
