"""C11 -- everything allocated is released: no leak through any operation history"""
import re

from . import common as C
from . import seq

CATS = ["alloc", "res"]
GEN = dict(scans=True, dumps=False, storages=3, with_storage_ops=True, iscans=True)


def add_empty_cycle(ops):
    """a first init/fin cycle without operations: its fin line is the reference balance"""
    return ["init", "fin"] + ops


def balance_check(r):
    """after fin() the process holds no more library-owned memory than after a fin() that followed no operations;
    nothing was released twice or with a wrong size"""
    fins = [(i, r.impl[i]) for i, o in enumerate(r.ops) if o == "fin"]
    bad = []
    if len(fins) >= 2:
        def parse(s):
            m = re.search(r"live=(-?\d+) bytes=(-?\d+) dfree=(\d+) mism=(\d+)", s)
            return tuple(int(x) for x in m.groups()) if m else None
        ref = parse(fins[0][1])
        for i, s in fins[1:]:
            cur = parse(s)
            if not cur or not ref:
                bad.append((i, "unparsable fin line " + s))
                continue
            if cur[0] > max(ref[0], 0) or cur[1] > max(ref[1], 0):
                bad.append((i, "memory still held after fin(): %d blocks / %d bytes (empty cycle: %d / %d)" % (cur[0], cur[1], ref[0], ref[1])))
            if cur[2] != 0 or cur[3] != 0:
                bad.append((i, "double release or size/alignment mismatch at release: dfree=%d mism=%d" % (cur[2], cur[3])))
    return bad


def conc_part(res):
    """writers racing on the same border (the insert path allocates before it locks and must release on every retry
    exit), removes racing with overwrites: after fin() no node or value block may be left"""
    from . import conc
    races = ["uput-uput-single", "uput-uput-full", "put-put-rem-single", "put-put-rem-full", "update-vs-split-43",
             "rem-put-get", "collapse-vs-split-l0", "get-vs-rem-put-other"]
    conc.conc_phase(res, "c11", ("leak", "deadlock"), races, (), False, 1600, ("preempt1",), 1, gen=conc.catalogue_gen,
                    label="balance_after_racing_writers")
    conc.conc_phase(res, "c11", ("leak", "deadlock"), ["single", "full", "two"], ("put", "uput", "rem"), False,
                    150 if res.tier == "quick" else 1200, ("preempt1",) if res.tier == "quick" else ("preempt1", "race2", "pct"),
                    2 if res.tier == "quick" else 8, label="balance_after_racing_writers_random")


def run(tier, seed):
    res = C.Result("C11", tier, seed, level="proof")
    res.assumptions = ["allocator interposition counts operator new/delete of the process; memory TBB's queue keeps internally "
                       "is compared against an empty init/fin cycle of the same process",
                       "the lost-root-CAS path of put is concurrent only and is not reached by sequential scripts"]
    old = seq.gen_script

    def gen(rng, tier_, **kw):
        return add_empty_cycle(old(rng, tier_, **kw))
    seq.gen_script = gen
    try:
        return seq.run_seq_property(res, "c11", CATS, 40, 300, gen_kwargs=GEN, use_oracle=False, extra_check=balance_check,
                                    extra_scripts=lambda rng, tier: seq.gen_gc_scripts(rng, tier) + seq.gen_storage_cycle_scripts(rng, tier),
                                    post=conc_part)
    finally:
        seq.gen_script = old


def replay(path, tier, seed):
    return seq.replay_seq("C11", "c11", path, CATS, extra_check=balance_check)
