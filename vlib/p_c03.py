"""C03 -- quiescent range scan returns exactly the interval"""
from . import common as C
from . import seq

CATS = ["res"]
GEN = dict(scans=True, dumps=False)


def run(tier, seed):
    res = C.Result("C03", tier, seed, level="proof")
    res.assumptions = ["single-threaded runs; the Spec (ordered map + interval filter) is extracted from coq/SpecDefs.v"]
    return seq.run_seq_property(res, "c03", CATS, 40, 400, gen_kwargs=GEN, extra_scripts=seq.gen_split_boundary_scripts)


def replay(path, tier, seed):
    return seq.replay_seq("C03", "c03", path, CATS)
