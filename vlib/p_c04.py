"""C04 -- concurrent scans are per-key consistent and never lose a stable key.

Theorems: coq/BorderScanProofs.v (scanner threads over one border node, any
interleaving: every returned pair was its key's binding at an instant of the
scan, non-null; every key not returned was absent at an instant) + LinProofs
(the per-key checker used as oracle is sound and complete).
Exploration (not proof): multi-node scans (forward, size-limited, right-to-left)
against inserts / updates / removes that split, empty and unlink nodes, on the
real code under the scheduler."""
import json
import os

from . import common as C
from . import conc

WANT = ("lin", "null", "scan", "deadlock")


def run(tier, seed):
    res = C.Result("C04", tier, seed, level="proof")
    res.assumptions = ["proof covers scans of one border node; the hand-over between nodes (next pointer + next version before "
                       "the final check), splits and unlinks under the scanner are explored on the real code, not proved",
                       "sequentially consistent interleavings only"]
    return conc.run_conc_property(res, "c04", WANT, conc.SHAPES + ["collapse-scan", "collapse", "collapse-scan-l1"], ("put", "rem", "uput"), True, 150, 1500, tie_shapes=(), chain_tie=True,
                                  catalogue_filter=lambda sc: any(o.startswith(("scan", "iscan")) for ops in sc.threads for o in ops))


def replay(path, tier, seed):
    r = json.load(open(path))
    print(json.dumps(r, indent=1)[:3000])
    return 1
