"""C13 -- storages are isolated namespaces with map-like create/delete/find/list.
Sequential: differential runs against the extracted model + Spec oracle (theorem C13_refines_map_of_maps).
Concurrent clause (of several concurrent creates / deletes of one name exactly one reports success): real
create/delete/find races under the scheduler, judged by the verified linearizability checker on the name
(create = unique insert, delete = remove, find = get)."""
from . import common as C
from . import conc
from . import seq

CATS = ["res"]
GEN = dict(scans=True, dumps=False, storages=4, with_storage_ops=True)


def conc_part(res):
    conc.conc_phase(res, "c13", ("lin", "deadlock"), ["storages"], (), False, 150 if res.tier == "quick" else 1000,
                    ("preempt1",) if res.tier == "quick" else ("preempt1", "preempt2", "pct"),
                    4 if res.tier == "quick" else 16, gen=conc.gen_storage_race, label="concurrent_storage_ops")


def run(tier, seed):
    res = C.Result("C13", tier, seed, level="proof")
    res.assumptions = ["the theorem is about sequential histories; concurrent create/create, delete/delete and "
                       "create/delete/find races are explored on the real library under the scheduler and judged by "
                       "the verified linearizability checker (they reduce to unique-insert / remove on the outer tree)"]
    return seq.run_seq_property(res, "c13", CATS, 40, 300, gen_kwargs=GEN, post=conc_part, extra_scripts=seq.gen_failed_ddl_scripts)


def replay(path, tier, seed):
    import json
    r = json.load(open(path))
    if str(r.get("kind", "")).startswith("conc-"):
        print(json.dumps(r, indent=1)[:3000])
        return 1
    return seq.replay_seq("C13", "c13", path, CATS)
