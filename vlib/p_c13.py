"""C13 -- storages are isolated namespaces with map-like create/delete/find/list"""
from . import common as C
from . import seq

CATS = ["res"]
GEN = dict(scans=True, dumps=False, storages=4, with_storage_ops=True)


def run(tier, seed):
    res = C.Result("C13", tier, seed, level="proof")
    res.assumptions = ["sequential histories; concurrent create/create and delete/delete races are not in a theorem "
                       "(they reduce to unique-insert / remove on the outer tree, covered for one border by C01)"]
    return seq.run_seq_property(res, "c13", CATS, 40, 300, gen_kwargs=GEN)


def replay(path, tier, seed):
    return seq.replay_seq("C13", "c13", path, CATS)
