"""C12 -- put reports exactly the border nodes whose versions its insert changed"""
import re

from . import common as C
from . import seq

CATS = ["info", "res", "dump"]
GEN = dict(scans=False, dumps=True, putinfo=True, inline_frac=0.0)


def info_check(r):
    bad = []
    for i, op in enumerate(r.ops):
        if op.startswith("putinfo") and " ok=0" in r.impl[i]:
            bad.append((i, "the set of borders whose version changed differs from the inserted_node_info report: " + r.impl[i]))
    return bad


def run(tier, seed):
    res = C.Result("C12", tier, seed, level="proof")
    res.assumptions = ["single-threaded; versions read through node_version64::get_body on every reachable border before/after"]
    return seq.run_seq_property(res, "c12", CATS, 40, 400, gen_kwargs=GEN, use_oracle=False, extra_check=info_check,
                                extra_scripts=seq.gen_deep_layer_scripts)


def replay(path, tier, seed):
    return seq.replay_seq("C12", "c12", path, CATS, extra_check=info_check)
