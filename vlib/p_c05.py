"""C05 -- node-version sets from reads detect every later insert into the read range"""
import re

import json

from . import common as C
from . import conc
from . import seq

# a read (scan or missed get) racing with the insert it has to detect: the recorded version must be the validated one
RACES = ["getmiss-vs-insert", "getmiss-vs-insert-full", "getmiss-vs-insert-layer", "emptied-scan-vs-insert",
         "emptied-getmiss-vs-insert", "emptied-scan-then-insert", "links-only-scan-vs-insert", "links-only-range-vs-insert",
         "links-only-limited-vs-insert-before", "links-only-limited2-vs-insert-before", "scan-vs-split-4a"]


def conc_part(res):
    conc.conc_phase(res, "c05", ("seen_or_stale", "scan", "null", "deadlock"), RACES, (), True, 1600, ("preempt1",), 1,
                    gen=conc.catalogue_gen, label="read_vs_insert_races")

CATS = ["res", "nv"]
GEN = dict(scans=True, dumps=False, phantoms=True, inline_frac=0.0)


def phantom_check(r):
    """the property itself, on the implementation's own output: covered insert => some pair stale, set non-empty"""
    bad = []
    for i, op in enumerate(r.ops):
        k = op.split()[0]
        if k in ("phantom", "getmiss"):
            m = re.search(r"cov=(\d) det=(\d) nvn=(\d+)", r.impl[i])
            if m and m.group(1) == "1" and (m.group(2) == "0" or m.group(3) == "0"):
                bad.append((i, "insert of an absent key inside the covered interval left every collected (version,node) pair unchanged"))
        elif k == "scan":
            m = re.match(r"scan OK n=\d+ .* nv=\[(.*)\]$", r.impl[i])
            if m and m.group(1).strip() == "":
                bad.append((i, "scan of an existing storage returned an empty node-version set"))
    return bad


def run(tier, seed):
    res = C.Result("C05", tier, seed, level="proof")
    res.assumptions = ["sequential form proved (PhantomProofs) and tied differentially; reads racing with the insert are explored "
                       "under the scheduler; the staleness test uses node_version64::get_stable_version on the recorded pointers"]
    return seq.run_seq_property(res, "c05", CATS, 40, 400, gen_kwargs=GEN, use_oracle=False, extra_check=phantom_check, post=conc_part)


def replay(path, tier, seed):
    r = json.load(open(path))
    if str(r.get("kind", "")).startswith("conc-"):
        print(json.dumps(r, indent=1)[:3000])
        return 1
    return seq.replay_seq("C05", "c05", path, CATS, extra_check=phantom_check)
