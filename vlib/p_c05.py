"""C05 -- node-version sets from reads detect every later insert into the read range"""
import re

from . import common as C
from . import seq

CATS = ["res", "nv"]
GEN = dict(scans=True, dumps=False, phantoms=True, inline_frac=0.0)


def phantom_check(r):
    """the property itself, on the implementation's own output: covered insert => some pair stale, set non-empty"""
    bad = []
    for i, op in enumerate(r.ops):
        k = op.split()[0]
        if k in ("phantom", "getmiss"):
            m = re.search(r"cov=(\d) det=(\d) nvn=(\d+)", r.impl[i])
            if m and m.group(1) == "1" and (m.group(2) == "0" or m.group(3) == "0"):
                bad.append((i, "insert of an absent key inside the covered interval left every collected (version,node) pair unchanged"))
        elif k == "scan":
            m = re.match(r"scan OK n=\d+ .* nv=\[(.*)\]$", r.impl[i])
            if m and m.group(1).strip() == "":
                bad.append((i, "scan of an existing storage returned an empty node-version set"))
    return bad


def run(tier, seed):
    res = C.Result("C05", tier, seed, level="proof")
    res.assumptions = ["single-threaded; the staleness test uses node_version64::get_stable_version on the recorded pointers"]
    return seq.run_seq_property(res, "c05", CATS, 40, 400, gen_kwargs=GEN, use_oracle=False, extra_check=phantom_check)


def replay(path, tier, seed):
    return seq.replay_seq("C05", "c05", path, CATS, extra_check=phantom_check)
