"""C08 -- the tree stays coherent (sequential histories: shape equality with the model whose
well-formedness is proved; get / scan agreement through the Spec oracle)"""
from . import common as C
from . import seq

CATS = ["dump", "res"]
GEN = dict(scans=True, dumps=True)


def run(tier, seed):
    res = C.Result("C08", tier, seed, level="proof")
    res.assumptions = ["parent / prev / next pointers of the real tree are compared with the ones determined by the model's shape "
                       "(dump lines: parent=, pok=, prev=, next=)",
                       "the concurrent-quiescence half is explored under C01/C04 (coherent + lockbits oracles), not proved"]
    return seq.run_seq_property(res, "c08", CATS, 40, 400, gen_kwargs=GEN, extra_scripts=seq.gen_split_boundary_scripts)


def replay(path, tier, seed):
    return seq.replay_seq("C08", "c08", path, CATS)
