"""C08 -- the tree stays coherent.  Sequential histories: shape equality with the model whose well-formedness is
proved (C08_wf_reachable); get / scan agreement through the Spec oracle.  Concurrent-quiescence half: once concurrent
writers have all returned, point lookups, the full scan and the lock / dirty bits of every node must be coherent
(no duplicate or misplaced entry, every key found by get iff listed by the scan, nothing left locked) -- explored on
the real library under the scheduler for races that change the structure (same-key inserts, update vs split, unlink,
collapse)."""
import json

from . import common as C
from . import conc
from . import seq

CATS = ["dump", "res"]
GEN = dict(scans=True, dumps=True)
WANT = ("coherent", "deadlock", "null")
RACES = ["uput-uput-single", "uput-uput-full", "uput-uput-sublayer", "uput-uput-newlayer", "put-put-rem-single",
         "put-put-rem-full", "put-put-rem-sublayer", "put-put-rem-newlayer", "update-vs-split-43", "update-vs-split-51",
         "update-vs-unlink", "rem-rem", "rem-put-get", "get-vs-rem-put-other", "rem-last-vs-rem-first"]


def conc_part(res):
    conc.conc_phase(res, "c08", WANT, RACES, (), False, 1600, ("preempt1",), 1, gen=conc.catalogue_gen,
                    label="quiescent_coherence_after_races")
    conc.conc_phase(res, "c08", WANT, ["collapse", "full", "two"], ("put", "rem", "uput"), False,
                    150 if res.tier == "quick" else 1200, ("preempt1",) if res.tier == "quick" else ("preempt1", "race2", "pct"),
                    2 if res.tier == "quick" else 8,
                    gen=lambda rng, shape: conc.gen_collapse(rng, shape) if shape == "collapse" else
                    conc.gen_scenario(rng, shape, kinds=("put", "rem", "uput"), nthreads=rng.choice([2, 3]), ops_per_thread=2),
                    label="quiescent_coherence_random")


def run(tier, seed):
    res = C.Result("C08", tier, seed, level="proof")
    res.assumptions = ["parent / prev / next pointers of the real tree are compared with the ones determined by the model's shape "
                       "(dump lines: parent=, pok=, prev=, next=)",
                       "the concurrent-quiescence half is explored (coherent + lockbits oracles at quiescence), not proved"]
    return seq.run_seq_property(res, "c08", CATS, 40, 400, gen_kwargs=GEN, extra_scripts=seq.gen_split_boundary_scripts,
                                post=conc_part)


def replay(path, tier, seed):
    r = json.load(open(path))
    if str(r.get("kind", "")).startswith("conc-"):
        print(json.dumps(r, indent=1)[:3000])
        return 1
    return seq.replay_seq("C08", "c08", path, CATS)
