"""C14 -- sessions are exclusive slots.

Theorems: coq/SessionProofs.v (all capacities n, all interleavings).
Tie (T3): enter/leave of the real library from several threads under the
deterministic scheduler, for capacities 1, 2 and 3; the access log is replayed
on the extracted SessionDefs model (ocaml/sess_main.ml), which also evaluates
the property directly on the history (distinct tokens, capacity)."""
import os
import random
import re
from concurrent.futures import ThreadPoolExecutor

from . import common as C


def gen(rng, nworkers):
    lines = []
    for w in range(nworkers):
        for _ in range(rng.choice([1, 2, 3])):
            lines.append("worker %d enter" % w)
            lines.append("worker %d leave" % w)
    return lines


def modes(rng, n, nworkers=2):
    out = []
    E = nworkers          # the epoch thread runs as the thread after the workers
    for _ in range(n):
        r = rng.random()
        if r < 0.3:
            # windows inside enter / leave: a worker runs a few steps, the epoch thread several periods, the worker again
            w = rng.randrange(nworkers)
            segs = [(w, rng.randrange(1, 16)), (E, rng.randrange(4, 45)), (w, rng.randrange(1, 30))]
            if rng.random() < 0.5:
                segs.insert(0, (rng.randrange(nworkers), rng.randrange(0, 25)))
            if rng.random() < 0.5:
                segs += [(rng.randrange(nworkers), rng.randrange(1, 30)), (E, rng.randrange(2, 30))]
            out.append("mode script " + " ".join("seg %d:%d" % sg for sg in segs) + " maxsteps 60000")
        elif r < 0.55:
            out.append("mode random seed %d stick %.2f maxsteps 60000" % (rng.getrandbits(30), rng.choice([0.3, 0.5, 0.8])))
        elif r < 0.7:
            out.append("mode pct seed %d depth %d maxsteps 60000" % (rng.getrandbits(30), rng.choice([1, 2, 3])))
        else:
            pts = sorted(rng.sample(range(1, 60), rng.choice([1, 2, 3])))
            out.append("mode preempt first %d %s maxsteps 60000" % (
                rng.randrange(3), " ".join("at %d:%d" % (p, rng.randrange(4)) for p in pts)))
    return out


def one(binary, text, wd, idx):
    f = os.path.join(wd, "s_%d.txt" % idx)
    with open(f, "w") as fh:
        fh.write(text)
    rc, out = C.sh([binary, f], timeout=120, merge=False)
    lf = os.path.join(wd, "s_%d.log" % idx)
    with open(lf, "w") as fh:
        fh.write(out)
    verdict = ""
    if rc == 0:
        _, verdict = C.sh([os.path.join(C.BUILD, "sess_main"), lf], timeout=60, merge=False)
    try:
        os.unlink(lf)
    except OSError:
        pass
    return dict(rc=rc, verdict=verdict.strip(), text=text)


def run(tier, seed):
    res = C.Result("C14", tier, seed, level="proof")
    res.assumptions = ["sequentially consistent interleavings of single accesses; trace abstraction in ocaml/sess_main.ml",
                       "capacities exercised on the real code: 1, 2, 3 (the theorems hold for every n)"]
    st = C.property_status("C14")
    C.proof_coverage(res, st)
    builds = {}
    for n in (1, 2, 3):
        ok, o = C.build_cpp("epoch_driver_%d" % n, "harness/epoch_driver.cpp", defs=["YAKUSHIMA_MAX_PARALLEL_SESSIONS=%d" % n])
        if not ok:
            res.violation("driver does not compile against /repo", dict(kind="build-failure", log=o[-3000:]), nofail=True)
            return res.finish()
        builds[n] = os.path.join(C.BUILD, "epoch_driver_%d" % n)
    okm, om = C.build_model("sess_main")
    if not okm:
        res.violation("model replayer does not build", dict(kind="model-build-failure", log=om[-3000:]), nofail=True)
        return res.finish()
    rng = random.Random(seed)
    wd = os.path.join(C.BUILD, "run_c14")
    os.makedirs(wd, exist_ok=True)
    jobs = []
    for _ in range(6 if tier == "quick" else 40):
        cap = rng.choice([1, 2, 3])
        nw = rng.choice([2, 3, 4])
        body = gen(rng, nw)
        for m in modes(rng, 60 if tier == "quick" else 250, nw):
            jobs.append((builds[cap], "\n".join([m] + body) + "\n"))
    with ThreadPoolExecutor(max_workers=16) as ex:
        results = list(ex.map(lambda ij: one(ij[1][0], ij[1][1], wd, ij[0]), list(enumerate(jobs))))
    acc = [r for r in results if r["verdict"].startswith("ACCEPT")]
    viol = [r for r in results if r["verdict"].startswith("VIOLATION")]
    rej = [r for r in results if r["verdict"].startswith("REJECT")]
    bad = [r for r in results if r["rc"] != 0]
    fulls = sum(int(re.search(r"full=(\d+)", r["verdict"]).group(1)) for r in acc)
    res.cov.update(traces_validated_against_impl=len(acc), programs=len(results), evaluations=len(results),
                   distinct_nontrivial=len({r["text"] for r in acc}),
                   rule="one program = 2-4 threads doing 1-3 enter/leave cycles on a table of 1-3 slots under one schedule "
                        "(random / PCT / bounded preemption); non-trivial = accepted run; distinct by scenario+schedule text",
                   disagreements_checked=len(viol) + len(rej), warn_max_sessions_returns=fulls,
                   samples=[dict(schedule=r["text"].split("\n")[0], verdict=r["verdict"]) for r in results[:3]])
    if viol:
        res.violation(viol[0]["verdict"], dict(kind="session-violation", scenario=viol[0]["text"], verdict=viol[0]["verdict"]))
    elif bad:
        res.violation("scheduler run failed rc=%d" % bad[0]["rc"], dict(kind="run-failure", scenario=bad[0]["text"]), nofail=True)
    elif rej or not st["ok"]:
        what = []
        if not st["ok"]:
            what.append("proof obligations no longer check: " + "; ".join(st["broken"][:5]))
        if rej:
            what.append("trace refinement broken: %s (%d traces)" % (rej[0]["verdict"], len(rej)))
        res.violation("; ".join(what), dict(kind="broken-tie", broken=what, scenario=rej[0]["text"] if rej else None), nofail=True)
    return res.finish()


def replay(path, tier, seed):
    import json
    r = json.load(open(path))
    print(r)
    return 1
