"""Leaf-function properties (C19 permutation word, C17 version word, C18 key
order, C15 value layout): theorems + per-call differential correspondence
between the extracted Coq definitions and the real functions."""
import os
import random

from . import common as C


def run_cases(tag, cases):
    """returns (impl_lines, model_lines, oracle_fails{idx:why}, err)"""
    d = os.path.join(C.BUILD, "run_" + tag)
    os.makedirs(d, exist_ok=True)
    cf = os.path.join(d, "cases.txt")
    with open(cf, "w") as f:
        f.write("\n".join(cases) + "\n")
    rc, out = C.sh([os.path.join(C.BUILD, "leaf_driver_" + tag), cf], timeout=600, merge=False)
    if rc != 0:
        return None, None, None, "leaf_driver exited %d: %s" % (rc, out[-1500:])
    impl = out.split("\n")
    if impl and impl[-1] == "":
        impl.pop()
    inf = os.path.join(d, "impl.txt")
    with open(inf, "w") as f:
        f.write("\n".join(impl) + "\n")
    rc, out = C.sh([os.path.join(C.BUILD, "leaf_main"), cf, inf], timeout=600, merge=False)
    if rc != 0:
        return None, None, None, "leaf_model exited %d: %s" % (rc, out[-1500:])
    model, orc = [], {}
    for l in out.split("\n"):
        if l.startswith("ORACLE "):
            _, i, why = l.split(" ", 2)
            orc[int(i)] = why
        elif l != "" or len(model) < len(impl):
            model.append(l)
    while len(model) > len(impl) and model[-1] == "":
        model.pop()
    return impl, model, orc, None


# ---------------------------------------------------------------- generators
def rand_perm_word(rng, n, junk=True, invalid=False):
    slots = rng.sample(range(15), n)
    if invalid and n >= 2:
        slots[rng.randrange(n)] = slots[rng.randrange(n)]
    w = n
    for i, s in enumerate(slots):
        w |= s << (4 * (i + 1))
    if junk:
        for i in range(n, 15):
            if rng.random() < 0.5:
                w |= rng.randrange(16) << (4 * (i + 1))
    return w, slots


def gen_perm(rng, tier):
    reps = 2 if tier == "quick" else 12
    cases = []
    dist = dict(insert=0, delete=0, empty=0, split=0, index=0, cnk=0, malformed=0)
    for n in range(0, 15):
        for r in range(0, n + 1):
            for _ in range(reps):
                w, slots = rand_perm_word(rng, n, junk=rng.random() < 0.6)
                free = [s for s in range(15) if s not in slots]
                # every free slot for the boundary ranks, a random one elsewhere
                ps = free if (r in (0, n) and _ == 0) else [rng.choice(free)]
                for p in ps:
                    cases.append("perm insert %x %x %x" % (w, r, p)); dist["insert"] += 1
    for n in range(1, 16):
        for r in range(0, n):
            for _ in range(reps + 1):
                w, _s = rand_perm_word(rng, n, junk=rng.random() < 0.6)
                cases.append("perm delete %x %x" % (w, r)); dist["delete"] += 1
    for n in range(0, 16):
        for _ in range(4 * reps):
            w, _s = rand_perm_word(rng, n, junk=rng.random() < 0.6)
            if n < 15 or True:
                # junk nibbles equal to 15 inside the first n would throw in bitset::set; n-prefix is < 15
                cases.append("perm empty %x" % w); dist["empty"] += 1
            cases.append("perm cnk %x" % w); dist["cnk"] += 1
            if n:
                cases.append("perm index %x %x" % (w, rng.randrange(n))); dist["index"] += 1
            cases.append("perm setcnk %x %x" % (w, rng.randrange(16)))
    for n in range(0, 16):
        cases.append("perm split %x" % n); dist["split"] += 1
    # malformed stream: duplicated slots, still inside defined behaviour (no shift >= 64)
    for _ in range(len(cases) // 10):
        n = rng.randrange(2, 15)
        w, _s = rand_perm_word(rng, n, invalid=True)
        k = rng.randrange(3)
        if k == 0:
            cases.append("perm insert %x %x %x" % (w, rng.randrange(n + 1), rng.randrange(15)))
        elif k == 1:
            cases.append("perm delete %x %x" % (w, rng.randrange(n)))
        else:
            cases.append("perm index %x %x" % (w, rng.randrange(n)))
        dist["malformed"] += 1
    return cases, dist


def nontrivial_perm(case):
    t = case.split()
    return t[1] in ("insert", "delete", "empty", "split") and not (t[1] != "split" and int(t[2], 16) & 15 == 0)


# ---------------------------------------------------------------- property runner
def run_leaf_property(res, tag, gen, nontrivial, defs=(), extra_rounds=3):
    """common flow: proofs, builds, differential run, oracle, violation decision"""
    pid = res.pid
    st = C.property_status(pid)
    C.proof_coverage(res, st)
    proof_broken = not st["ok"]
    if proof_broken:
        C.log("[%s] proof obligations broken: %s" % (pid, st["broken"]))
        C.log(st["log"][-3000:])

    ok, o = C.build_cpp("leaf_driver_" + tag, "harness/leaf_driver.cpp", defs=defs)
    if not ok:
        res.cov["explanation"] = "harness does not compile against /repo"
        res.violation("leaf_driver does not compile against /repo's current tree",
                      dict(kind="build-failure", log=o[-4000:],
                           broken="correspondence harness/leaf_driver.cpp vs /repo/include"), nofail=True)
        return res.finish()
    okm, om = C.build_model("leaf_main")
    if not okm:
        res.violation("extracted model does not build",
                      dict(kind="model-build-failure", log=om[-4000:], broken=st["broken"]), nofail=True)
        return res.finish()

    rng = random.Random(res.seed)
    cases, dist = gen(rng, res.tier)
    impl, model, orc, err = run_cases(tag, cases)
    if err:
        res.violation("driver failure: " + err,
                      dict(kind="driver-failure", error=err,
                           broken="correspondence run (implementation crashed or model failed)"), nofail=True)
        res.cov.update(programs=len(cases), disagreements_checked=0, samples=cases[:3])
        return res.finish()
    mism = [i for i in range(len(cases)) if i >= len(impl) or i >= len(model) or impl[i] != model[i]]
    res.cov.update(
        programs=len(cases), evaluations=len(cases),
        distinct_nontrivial=len({c for c in cases if nontrivial(c)}),
        rule="one case = one call of a real leaf function on generated arguments, compared with the extracted Coq "
             "definition bit for bit; non-trivial = an update/search on a non-empty object; distinct by argument text",
        disagreements_checked=len(mism), input_distribution=dist,
        samples=[dict(case=cases[i], impl=impl[i], model=model[i]) for i in
                 sorted(rng.sample(range(len(cases)), min(5, len(cases))))],
        oracle_failures=len(orc))
    if orc:
        # the implementation violates the property's own specification on a concrete input
        i = sorted(orc)[0]
        res.violation("oracle: %s on `%s` -> %s" % (orc[i], cases[i], impl[i]),
                      dict(kind="leaf-oracle", case=cases[i], impl=impl[i], model=model[i] if i < len(model) else None,
                           why=orc[i], all_failing=[cases[j] for j in sorted(orc)][:20], tag=tag, defs=list(defs)))
    elif mism or proof_broken:
        # correspondence or proof broke: search harder for an input on which the property itself fails
        found = None
        for k in range(extra_rounds):
            rng2 = random.Random(res.seed * 7919 + k + 1)
            c2, _ = gen(rng2, "thorough")
            i2, m2, o2, e2 = run_cases(tag, c2)
            if e2:
                break
            if o2:
                j = sorted(o2)[0]
                found = dict(kind="leaf-oracle", case=c2[j], impl=i2[j], model=m2[j], why=o2[j], tag=tag,
                             defs=list(defs))
                break
        if found:
            res.violation("oracle (search): %s on `%s`" % (found["why"], found["case"]), found)
        else:
            what = []
            if proof_broken:
                what.append("proof obligations no longer check: " + "; ".join(st["broken"][:5]))
            if mism:
                i = mism[0]
                what.append("correspondence broken at `%s`: impl=%s model=%s (%d differing lines)" % (
                    cases[i], impl[i] if i < len(impl) else None, model[i] if i < len(model) else None, len(mism)))
            res.violation("; ".join(what),
                          dict(kind="broken-tie", broken=what,
                               first_mismatch=(dict(case=cases[mism[0]], impl=impl[mism[0]] if mism[0] < len(impl) else None,
                                                    model=model[mism[0]] if mism[0] < len(model) else None) if mism else None),
                               theorems=st["theorems"], tag=tag, defs=list(defs)), nofail=True)
    return res.finish()


def replay(res, tag, path, defs=()):
    import json
    r = json.load(open(path))
    ok, o = C.build_cpp("leaf_driver_" + tag, "harness/leaf_driver.cpp", defs=defs)
    okm, om = C.build_model("leaf_main")
    if not (ok and okm):
        print("replay: build failed")
        return 2
    cases = [r["case"]] if "case" in r else ([r["first_mismatch"]["case"]] if r.get("first_mismatch") else [])
    if not cases:
        print("replay: nothing to run; broken obligations: %s" % r.get("broken"))
        return 1
    impl, model, orc, err = run_cases(tag, cases)
    print("case  :", cases[0])
    print("impl  :", impl[0] if impl else err)
    print("model :", model[0] if model else err)
    print("oracle:", orc.get(0, "ok") if orc is not None else err)
    return 1 if (err or orc or impl != model) else 0
