"""Leaf-function properties (C19 permutation word, C17 version word, C18 key
order, C15 value layout): theorems + per-call differential correspondence
between the extracted Coq definitions and the real functions."""
import os
import random

from . import common as C


def run_cases(tag, cases):
    """returns (impl_lines, model_lines, oracle_fails{idx:why}, err)"""
    d = os.path.join(C.BUILD, "run_" + tag)
    os.makedirs(d, exist_ok=True)
    cf = os.path.join(d, "cases.txt")
    with open(cf, "w") as f:
        f.write("\n".join(cases) + "\n")
    rc, out = C.sh([os.path.join(C.BUILD, "leaf_driver_" + tag), cf], timeout=600, merge=False)
    if rc != 0:
        return None, None, None, "leaf_driver exited %d: %s" % (rc, out[-1500:])
    impl = out.split("\n")
    if impl and impl[-1] == "":
        impl.pop()
    inf = os.path.join(d, "impl.txt")
    with open(inf, "w") as f:
        f.write("\n".join(impl) + "\n")
    rc, out = C.sh([os.path.join(C.BUILD, "leaf_main"), cf, inf], timeout=600, merge=False)
    if rc != 0:
        return None, None, None, "leaf_model exited %d: %s" % (rc, out[-1500:])
    model, orc = [], {}
    for l in out.split("\n"):
        if l.startswith("ORACLE "):
            _, i, why = l.split(" ", 2)
            orc[int(i)] = why
        elif l != "" or len(model) < len(impl):
            model.append(l)
    while len(model) > len(impl) and model[-1] == "":
        model.pop()
    return impl, model, orc, None


# ---------------------------------------------------------------- generators
def rand_perm_word(rng, n, junk=True, invalid=False):
    slots = rng.sample(range(15), n)
    if invalid and n >= 2:
        slots[rng.randrange(n)] = slots[rng.randrange(n)]
    w = n
    for i, s in enumerate(slots):
        w |= s << (4 * (i + 1))
    if junk:
        for i in range(n, 15):
            if rng.random() < 0.5:
                w |= rng.randrange(16) << (4 * (i + 1))
    return w, slots


def gen_perm(rng, tier):
    reps = 2 if tier == "quick" else 12
    cases = []
    dist = dict(insert=0, delete=0, empty=0, split=0, index=0, cnk=0, malformed=0)
    for n in range(0, 15):
        for r in range(0, n + 1):
            for _ in range(reps):
                w, slots = rand_perm_word(rng, n, junk=rng.random() < 0.6)
                free = [s for s in range(15) if s not in slots]
                # every free slot for the boundary ranks, a random one elsewhere
                ps = free if (r in (0, n) and _ == 0) else [rng.choice(free)]
                for p in ps:
                    cases.append("perm insert %x %x %x" % (w, r, p)); dist["insert"] += 1
    for n in range(1, 16):
        for r in range(0, n):
            for _ in range(reps + 1):
                w, _s = rand_perm_word(rng, n, junk=rng.random() < 0.6)
                cases.append("perm delete %x %x" % (w, r)); dist["delete"] += 1
    for n in range(0, 16):
        for _ in range(4 * reps):
            w, _s = rand_perm_word(rng, n, junk=rng.random() < 0.6)
            if n < 15 or True:
                # junk nibbles equal to 15 inside the first n would throw in bitset::set; n-prefix is < 15
                cases.append("perm empty %x" % w); dist["empty"] += 1
            cases.append("perm cnk %x" % w); dist["cnk"] += 1
            if n:
                cases.append("perm index %x %x" % (w, rng.randrange(n))); dist["index"] += 1
            cases.append("perm setcnk %x %x" % (w, rng.randrange(16)))
    for n in range(0, 16):
        cases.append("perm split %x" % n); dist["split"] += 1
    for n in range(0, 15):
        for klen in (0, 1, 8, 9, 17):
            cases.append("perm publish %x %x %x" % (n, klen, rng.randrange(n + 1)))
    # malformed stream: duplicated slots, still inside defined behaviour (no shift >= 64)
    for _ in range(len(cases) // 10):
        n = rng.randrange(2, 15)
        w, _s = rand_perm_word(rng, n, invalid=True)
        k = rng.randrange(3)
        if k == 0:
            cases.append("perm insert %x %x %x" % (w, rng.randrange(n + 1), rng.randrange(15)))
        elif k == 1:
            cases.append("perm delete %x %x" % (w, rng.randrange(n)))
        else:
            cases.append("perm index %x %x" % (w, rng.randrange(n)))
        dist["malformed"] += 1
    return cases, dist


def nontrivial_perm(case):
    t = case.split()
    return t[1] in ("insert", "delete", "empty", "split") and not (t[1] != "split" and int(t[2], 16) & 15 == 0)


# ---------------------------------------------------------------- property runner
def run_leaf_property(res, tag, gen, nontrivial, defs=(), extra_rounds=3, post=None):
    """common flow: proofs, builds, differential run, oracle, violation decision"""
    pid = res.pid
    st = C.property_status(pid)
    C.proof_coverage(res, st)
    proof_broken = not st["ok"]
    if proof_broken:
        C.log("[%s] proof obligations broken: %s" % (pid, st["broken"]))
        C.log(st["log"][-3000:])

    ok, o = C.build_cpp("leaf_driver_" + tag, "harness/leaf_driver.cpp", defs=defs)
    if not ok:
        res.cov["explanation"] = "harness does not compile against /repo"
        res.violation("leaf_driver does not compile against /repo's current tree",
                      dict(kind="build-failure", log=o[-4000:],
                           broken="correspondence harness/leaf_driver.cpp vs /repo/include"), nofail=True)
        return res.finish()
    okm, om = C.build_model("leaf_main")
    if not okm:
        res.violation("extracted model does not build",
                      dict(kind="model-build-failure", log=om[-4000:], broken=st["broken"]), nofail=True)
        return res.finish()

    rng = random.Random(res.seed)
    cases, dist = gen(rng, res.tier)
    impl, model, orc, err = run_cases(tag, cases)
    if err:
        res.violation("driver failure: " + err,
                      dict(kind="driver-failure", error=err,
                           broken="correspondence run (implementation crashed or model failed)"), nofail=True)
        res.cov.update(programs=len(cases), disagreements_checked=0, samples=cases[:3])
        return res.finish()
    mism = [i for i in range(len(cases)) if i >= len(impl) or i >= len(model) or impl[i] != model[i]]
    res.cov.update(
        programs=len(cases), evaluations=len(cases),
        distinct_nontrivial=len({c for c in cases if nontrivial(c)}),
        rule="one case = one call of a real leaf function on generated arguments, compared with the extracted Coq "
             "definition bit for bit; non-trivial = an update/search on a non-empty object; distinct by argument text",
        disagreements_checked=len(mism), input_distribution=dist,
        samples=[dict(case=cases[i], impl=impl[i], model=model[i]) for i in
                 sorted(rng.sample(range(len(cases)), min(5, len(cases))))],
        oracle_failures=len(orc))
    if orc:
        # the implementation violates the property's own specification on a concrete input
        i = sorted(orc)[0]
        res.violation("oracle: %s on `%s` -> %s" % (orc[i], cases[i], impl[i]),
                      dict(kind="leaf-oracle", case=cases[i], impl=impl[i], model=model[i] if i < len(model) else None,
                           why=orc[i], all_failing=[cases[j] for j in sorted(orc)][:20], tag=tag, defs=list(defs)))
    elif mism or proof_broken:
        # correspondence or proof broke: search harder for an input on which the property itself fails
        found = None
        for k in range(extra_rounds):
            rng2 = random.Random(res.seed * 7919 + k + 1)
            c2, _ = gen(rng2, "thorough")
            i2, m2, o2, e2 = run_cases(tag, c2)
            if e2:
                break
            if o2:
                j = sorted(o2)[0]
                found = dict(kind="leaf-oracle", case=c2[j], impl=i2[j], model=m2[j], why=o2[j], tag=tag,
                             defs=list(defs))
                break
        if found:
            res.violation("oracle (search): %s on `%s`" % (found["why"], found["case"]), found)
        else:
            what = []
            if proof_broken:
                what.append("proof obligations no longer check: " + "; ".join(st["broken"][:5]))
            if mism:
                i = mism[0]
                what.append("correspondence broken at `%s`: impl=%s model=%s (%d differing lines)" % (
                    cases[i], impl[i] if i < len(impl) else None, model[i] if i < len(model) else None, len(mism)))
            res.violation("; ".join(what),
                          dict(kind="broken-tie", broken=what,
                               first_mismatch=(dict(case=cases[mism[0]], impl=impl[mism[0]] if mism[0] < len(impl) else None,
                                                    model=model[mism[0]] if mism[0] < len(model) else None) if mism else None),
                               theorems=st["theorems"], tag=tag, defs=list(defs)), nofail=True)
    if post is not None:
        post(res)
    return res.finish()


def replay(res, tag, path, defs=()):
    import json
    r = json.load(open(path))
    ok, o = C.build_cpp("leaf_driver_" + tag, "harness/leaf_driver.cpp", defs=defs)
    okm, om = C.build_model("leaf_main")
    if not (ok and okm):
        print("replay: build failed")
        return 2
    cases = [r["case"]] if "case" in r else ([r["first_mismatch"]["case"]] if r.get("first_mismatch") else [])
    if not cases:
        print("replay: nothing to run; broken obligations: %s" % r.get("broken"))
        return 1
    impl, model, orc, err = run_cases(tag, cases)
    print("case  :", cases[0])
    print("impl  :", impl[0] if impl else err)
    print("model :", model[0] if model else err)
    print("oracle:", orc.get(0, "ok") if orc is not None else err)
    return 1 if (err or orc or impl != model) else 0


# ---------------------------------------------------------------- C17 version word
def mk_ver(vins, locked, insdel, splitting, vsplit, deleted, root, border):
    return (vins | (locked << 29) | (insdel << 30) | (splitting << 31) | (vsplit << 32) |
            (deleted << 61) | (root << 62) | (border << 63))


def gen_ver(rng, tier):
    ctrs = [0, 1, 2, 1 << 28, (1 << 29) - 2, (1 << 29) - 1]
    cases = []
    dist = dict(decode=0, unlock=0, lock=0, stable=0, set=0, inc=0)
    words = []
    for flags in range(64):
        f = [(flags >> i) & 1 for i in range(6)]
        for vi in ctrs:
            for vs in (ctrs if tier == "thorough" else [rng.choice(ctrs), (1 << 29) - 1]):
                words.append(mk_ver(vi, f[0], f[1], f[2], vs, f[3], f[4], f[5]))
    for _ in range(200 if tier == "quick" else 3000):
        words.append(rng.getrandbits(64))
    for w in words:
        cases.append("ver decode %x" % w); dist["decode"] += 1
        cases.append("ver unlock %x" % w); dist["unlock"] += 1
        cases.append("ver lock %x" % w); dist["lock"] += 1
        cases.append("ver stable %x" % w); dist["stable"] += 1
        if rng.random() < 0.5:
            fld = rng.choice(["locked", "insdel", "splitting", "deleted", "root", "border"])
            cases.append("ver set %x %s %d" % (w, fld, rng.randrange(2))); dist["set"] += 1
        if rng.random() < 0.5:
            cases.append("ver incv %x" % w); cases.append("ver incs %x" % w); dist["inc"] += 2
    cases.append("ver init")
    return cases, dist


def nontrivial_ver(case):
    t = case.split()
    return t[1] in ("unlock", "lock", "set", "incv", "incs") and len(t) > 2 and int(t[2], 16) != 0


# ---------------------------------------------------------------- C18 key order
def wf_tuple(rng, alph=(0x00, 0x01, 0x61, 0x80, 0xff)):
    ln = rng.choice([0, 1, 2, 3, 7, 8, 9, 9])
    nb = min(ln, 8)
    b = [rng.choice(alph) for _ in range(nb)] + [0] * (8 - nb)
    s = int.from_bytes(bytes(b), "big")
    return s, ln


def gen_key(rng, tier):
    cases = []
    dist = dict(lt=0, oftuple=0, border=0, interior=0, malformed=0)
    n_pairs = 1500 if tier == "quick" else 20000
    # systematic: all length pairs x a few slice relations
    for la in range(10):
        for lb in range(10):
            for rel in range(4):
                a = wf_tuple(rng)
                nb = min(la, 8)
                sa = int.from_bytes(bytes([rng.choice((0, 1, 0x61, 0xff)) for _ in range(nb)] + [0] * (8 - nb)), "big")
                if rel == 0:
                    sb = sa
                elif rel == 1:
                    sb = sa ^ (1 << rng.randrange(64))
                else:
                    sb = wf_tuple(rng)[0]
                nb2 = min(lb, 8)
                sb &= ~((1 << (8 * (8 - nb2))) - 1) if nb2 < 8 else (1 << 64) - 1
                cases.append("key lt %x %x %x %x" % (sa, la, sb, lb)); dist["lt"] += 1
    for _ in range(n_pairs):
        a, b = wf_tuple(rng), wf_tuple(rng)
        if rng.random() < 0.3:
            b = (a[0], b[1]) if min(b[1], 8) >= min(a[1], 8) else b
        cases.append("key lt %x %x %x %x" % (a[0], a[1], b[0], b[1])); dist["lt"] += 1
    for _ in range(n_pairs // 10):
        # malformed: non-zero bytes past the length (operator< is still deterministic)
        cases.append("key lt %x %x %x %x" % (rng.getrandbits(64), rng.randrange(10), rng.getrandbits(64), rng.randrange(10)))
        dist["malformed"] += 1
    for _ in range(300 if tier == "quick" else 3000):
        k = bytes(rng.choice((0, 1, 0x61, 0x80, 0xff)) for _ in range(rng.choice([0, 1, 2, 7, 8, 9, 10, 16, 17])))
        cases.append("key oftuple %s" % (k.hex() if k else "-")); dist["oftuple"] += 1

    def canon(t):
        return (t[0], t[1])
    for _ in range(600 if tier == "quick" else 6000):
        n = rng.randrange(0, 16)
        ts = sorted({wf_tuple(rng) for _ in range(n)}, key=canon)
        n = len(ts)
        k = rng.choice(ts) if ts and rng.random() < 0.5 else wf_tuple(rng)
        if ts and rng.random() < 0.4:
            # same slice as a stored tuple, neighbouring length (8-byte key vs link, key vs its zero extension)
            base = rng.choice(ts)
            ln = rng.choice([8, 9, max(0, base[1] - 1), min(9, base[1] + 1)])
            nb = min(ln, 8)
            sl = base[0] & (~((1 << (8 * (8 - nb))) - 1) if nb < 8 else (1 << 64) - 1)
            k = (sl, ln)
        cases.append("key border %x %s %x %x" % (n, " ".join("%x %x" % t for t in ts), k[0], k[1])); dist["border"] += 1
        seps = [t for t in ts if t[1] != 0]
        cases.append("key interior %x %s %x %x" % (len(seps), " ".join("%x %x" % t for t in seps), k[0], k[1]))
        dist["interior"] += 1
    return cases, dist


def nontrivial_key(case):
    t = case.split()
    return t[1] in ("lt", "border", "interior") and not (t[1] != "lt" and t[2] == "0")


# ---------------------------------------------------------------- C15 value layout
def gen_val(rng, tier):
    cases = []
    dist = dict(create=0, word=0, inline=0)
    lens = [0, 1, 7, 8, 9, 255, 4095, 4096, (1 << 20) + 1] + ([4 << 20] if tier == "thorough" else [])
    aligns = [1 << i for i in range(13)]
    for ln in lens:
        for al in aligns:
            cases.append("val create %x %x" % (ln, al)); dist["create"] += 1
    for _ in range(100 if tier == "quick" else 2000):
        cases.append("val create %x %x" % (rng.randrange(0, 5000), rng.choice(aligns))); dist["create"] += 1
    for _ in range(200):
        w = rng.getrandbits(62) if rng.random() < 0.7 else rng.getrandbits(64)
        cases.append("val word %x" % w); dist["word"] += 1
        cases.append("val inline %x" % (rng.getrandbits(62))); dist["inline"] += 1
    cases.append("val word 4000000000000000")
    cases.append("val word 0")
    return cases, dist


def nontrivial_val(case):
    return case.split()[1] == "create"
