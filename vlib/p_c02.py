"""C02 -- single-threaded behaviour equals an ordered byte-string map"""
from . import common as C
from . import seq

CATS = ["res"]
GEN = dict(scans=False, dumps=False)


def run(tier, seed):
    res = C.Result("C02", tier, seed, level="proof")
    res.assumptions = ["single-threaded runs; the Spec (ordered map of maps) is extracted from coq/SpecDefs.v",
                       "30 KiB keys: the model has no length limit; one long-key script per thorough run"]
    return seq.run_seq_property(res, "c02", CATS, 50, 500, gen_kwargs=GEN, extra_scripts=seq.gen_split_boundary_scripts, post=lambda res: seq.longkey_phase(res, "c02"))


def replay(path, tier, seed):
    return seq.replay_seq("C02", "c02", path, CATS)
