"""C01 -- point operations (put/get/remove) on a storage are linearizable.

Theorems: coq/BorderProofs.v (one border node, any number of threads, any
interleaving: every get returns a binding its key had inside its interval and
never null; writers take effect at one step under the lock; lock and
representation invariants; the original reader is refuted) + coq/LinProofs.v
(the per-key checker is sound and complete).
Tie: real single-border histories must be producible by the proven model
(behavioural inclusion, ocaml/border_main.ml).
Exploration (not proof): splits, node deletion, interior and layer descent
under concurrency, on prepared shapes, with the verified LinCheck as oracle."""
import json
import os

from . import common as C
from . import conc

WANT = ("lin", "null", "deadlock", "coherent")


def run(tier, seed):
    res = C.Result("C01", tier, seed, level="proof")
    res.assumptions = [
        "proof covers one border node that never splits (keys <= 8 bytes); structure modifications racing with point "
        "operations are explored on the real code (bounded preemptions / PCT), not proved",
        "sequentially consistent interleavings only; the 29-bit insert counter is unbounded in the model "
        "(fewer than 2^29 inserts complete during one read)",
    ]
    return conc.run_conc_property(res, "c01", WANT, conc.SHAPES, ("put", "get", "rem", "uput"), False, 150, 1500)


def replay(path, tier, seed):
    r = json.load(open(path))
    C.build_cpp("conc_driver_c01", "harness/conc_driver.cpp")
    C.build_model("lin_main")
    sc = r.get("scenario")
    if not sc:
        print("replay: no scenario; broken:", r.get("broken"))
        return 1
    wd = os.path.join(C.BUILD, "run_c01")
    os.makedirs(wd, exist_ok=True)
    x = conc.run_once(os.path.join(C.BUILD, "conc_driver_c01"), sc, wd, 999999)
    scen = conc.scenario_from_text(sc)
    x.lin_jobs = []
    bad = conc.check_run(x, scen, WANT)
    for (k, iv, lst), okv in zip(x.lin_jobs, conc.lin_batch(x.lin_jobs, wd) if x.lin_jobs else []):
        if not okv:
            bad.append(("lin", "history of key %s not linearizable: %s" % (k.hex(), lst)))
    for h in x.hist:
        print("H", h)
    print("violations:", bad or "none")
    return 1 if bad else 0
