"""C18 -- key order (leaf part)"""
from . import common as C
from . import leaf


def run(tier, seed):
    res = C.Result("C18", tier, seed, level="proof")
    res.assumptions = [
        "theorems are about the Coq definitions (coq/*Defs.v); tie: every real leaf function is run on generated "
        "arguments and compared bit for bit with the extracted definitions",
    ]
    return leaf.run_leaf_property(res, "c18", leaf.gen_key, leaf.nontrivial_key)


def replay(path, tier, seed):
    res = C.Result("C18", tier, seed)
    return leaf.replay(res, "c18", path)
