"""C18 -- one key order everywhere: every comparison site as a leaf function (bit for bit against KeyDefs + the
canonical-order oracle), and the sites that are inline in the split / routing code exercised through the store:
full borders whose entries around the split point share one 8-byte slice and differ only in length, compared with
the extracted model (results, Spec oracle, dumps)."""
import json
import random

from . import common as C
from . import leaf
from . import seq


def store_part(res):
    seq.scripts_phase(res, "c18", seq.gen_split_boundary_scripts(random.Random(res.seed + 3), res.tier),
                      ["res", "dump"], "split_boundary_scripts")


def run(tier, seed):
    res = C.Result("C18", tier, seed, level="proof")
    res.assumptions = [
        "theorems are about the Coq definitions (coq/*Defs.v); tie: every real leaf function is run on generated "
        "arguments and compared bit for bit with the extracted definitions; inline comparison sites (border split side "
        "decision, interior routing during splits) are tied through store-level scripts against the extracted model",
    ]
    return leaf.run_leaf_property(res, "c18", leaf.gen_key, leaf.nontrivial_key, post=store_part)


def replay(path, tier, seed):
    r = json.load(open(path))
    if str(r.get("kind", "")).startswith("seq-"):
        return seq.replay_seq("C18", "c18", path, ["res", "dump"])
    res = C.Result("C18", tier, seed)
    return leaf.replay(res, "c18", path)
