"""C10 -- the cursor API (iscan) enumerates the scan interval in both directions"""
from . import common as C
from . import seq

CATS = ["res", "nv"]
GEN = dict(scans=True, dumps=False, iscans=True)


def run(tier, seed):
    res = C.Result("C10", tier, seed, level="proof")
    res.assumptions = ["quiescent sentence only: the concurrent sentence (cursor steps interleaved with writers) is not in a theorem",
                       "iscan returns the value pointer only: the driver checks it is the pointer get() returns for full_key()"]
    return seq.run_seq_property(res, "c10", CATS, 40, 400, gen_kwargs=GEN)


def replay(path, tier, seed):
    return seq.replay_seq("C10", "c10", path, CATS)
