"""C10 -- the cursor API (iscan) enumerates the scan interval in both directions.

First sentence (quiescent): executable model IScanDefs tied to the code on
generated trees / intervals / directions, extracted Spec as oracle.
Second sentence (cursor steps interleaved with writers): explored with
single-threaded scripts that modify the tree BETWEEN cursor steps (they reach
every retry path of iscan_findnext); oracle on the implementation's outputs:
strictly monotone, only keys stored at some instant, no key present throughout
is skipped, early_abort reports a modification of the node under the cursor."""
import os
import random

from . import common as C
from . import seq

CATS = ["res", "nv"]
GEN = dict(scans=True, dumps=False, iscans=True)


def iphantom_check(r):
    """the cursor's node-version set: a covered insert must leave a recorded pair stale, and the set is not empty"""
    import re
    bad = []
    for i, op in enumerate(r.ops):
        if op.startswith("iphantom"):
            m = re.search(r"cov=(\d) det=(\d) nvn=(\d+)", r.impl[i])
            if m and m.group(1) == "1" and (m.group(2) == "0" or m.group(3) == "0"):
                bad.append((i, "a cursor was driven to its end, then an absent key of its interval was inserted: no recorded "
                               "(version,node) pair is stale (%s)" % r.impl[i]))
    return bad


def cursor_phase(res, tier, seed):
    ok, msg = seq.build("c10")
    if not ok:
        return 0, 0
    rng = random.Random(seed * 31 + 7)
    scripts = []
    cdir = os.path.join(C.VERIF, "corpus", "C10")
    for f in sorted(os.listdir(cdir)) if os.path.isdir(cdir) else []:
        if f.endswith(".cur"):
            scripts.append((f, [l.strip() for l in open(os.path.join(cdir, f)) if l.strip()]))
    for i in range(60 if tier == "quick" else 600):
        scripts.append(("cur%d" % i, seq.gen_cursor_script(random.Random(rng.getrandbits(40)), tier)))
    known_hits = 0
    steps = 0
    known = C.known_findings("C10")
    from concurrent.futures import ThreadPoolExecutor
    with ThreadPoolExecutor(max_workers=12) as ex:
        ran = list(ex.map(lambda no: seq.run_script("c10", no[1], name=no[0]), scripts))
    for (name, ops), r in zip(scripts, ran):
        if r.error:
            res.violation("cursor script crashed the implementation: " + r.error, dict(kind="crash", script=ops, tag="c10"))
            continue
        steps += sum(1 for o in r.ops if o.startswith("inext"))
        for (i, why, is_known) in seq.cursor_check(r):
            if is_known and known:
                known_hits += 1
            else:
                def still(cand):
                    rr = seq.run_script("c10", cand, name="min")
                    return (not rr.error) and any(not k for (_, _, k) in seq.cursor_check(rr))
                small = seq.minimize("c10", ops, still, budget=40)
                res.violation("cursor: " + why, dict(kind="cursor-oracle", script=small, why=why, tag="c10"))
                break
    if known_hits and known:
        res.known.append("%s (%d occurrences in this run; replay %s)" % (known[0]["what"][:160], known_hits, known[0]["replay"]))
    return len(scripts), steps


def run(tier, seed):
    res = C.Result("C10", tier, seed, level="proof")
    res.assumptions = ["quiescent sentence: model + Spec oracle; the concurrent sentence is explored with writes between "
                       "cursor steps (single thread), not in a theorem",
                       "iscan returns the value pointer only: the driver checks it is the pointer get() returns for full_key()"]
    n, steps = cursor_phase(res, tier, seed)
    res.cov["cursor_scripts"] = n
    res.cov["cursor_steps_with_interleaved_writes"] = steps
    return seq.run_seq_property(res, "c10", CATS, 40, 400, gen_kwargs=GEN, extra_check=iphantom_check)


def replay(path, tier, seed):
    import json
    r = json.load(open(path))
    if r.get("kind") == "cursor-oracle":
        seq.build("c10")
        rr = seq.run_script("c10", r["script"], name="replay")
        b = seq.cursor_check(rr)
        for i, o in enumerate(rr.ops):
            if o.split()[0] in ("iopen", "inext"):
                print(o, "->", rr.impl[i])
        print("violations:", b or "none")
        return 1 if b else 0
    return seq.replay_seq("C10", "c10", path, CATS, extra_check=iphantom_check)
