"""Shared machinery of the /verif checks: build of the Coq development, the
extracted model and the C++ harnesses from /repo's *current* working tree,
proof-obligation accounting, evidence files, violation reports."""
import fcntl
import hashlib
import json
import os
import re
import subprocess
import sys
import time

VERIF = os.path.dirname(os.path.dirname(os.path.abspath(__file__)))
REPO = os.environ.get("YK_REPO", "/repo")
COQ = os.path.join(VERIF, "coq")
BUILD = os.path.join(VERIF, "build")
EVID = os.path.join(VERIF, "evidence")
REPLAYS = os.path.join(VERIF, "replays")
GUARD = "YAKUSHIMA_VERIF"

CXXFLAGS = ["-std=c++17", "-I" + os.path.join(REPO, "include"), "-DYAKUSHIMA_LINUX",
            "-DYAKUSHIMA_EPOCH_TIME=40", "-D" + GUARD]
LIBS = ["-lglog", "-ltbb", "-lpthread"]

ALLOWED_AXIOMS = {
    # standard-library axioms that may appear (each named in the trusted base when it does)
    "functional_extensionality_dep", "proof_irrelevance", "JMeq_eq", "eq_rect_eq",
    "classic", "propositional_extensionality",
}
FORBIDDEN = re.compile(
    r"\b(Admitted|admit|Axiom|Axioms|Parameter|Parameters|Conjecture|Hypothesis|Variable)\b"
    r"|Unset\s+Guard|bypass_check|type-in-type|impredicative-set|Admit\s+Obligations|Unset\s+Positivity"
    r"|Unset\s+Universe")


def log(*a):
    print(*a, file=sys.stderr, flush=True)


def sh(cmd, timeout=600, cwd=None, env=None, stdin=None, merge=True):
    """run, return (rc, stdout+stderr) (stdout only when merge=False)"""
    try:
        p = subprocess.run(cmd, cwd=cwd, env=env, stdin=stdin, stdout=subprocess.PIPE,
                           stderr=subprocess.STDOUT if merge else subprocess.DEVNULL, timeout=timeout,
                           shell=isinstance(cmd, str))
        return p.returncode, p.stdout.decode("utf-8", "replace")
    except subprocess.TimeoutExpired as e:
        out = (e.stdout or b"").decode("utf-8", "replace")
        return 124, out + "\n[timeout after %ss]" % timeout


class Lock:
    def __init__(self, name):
        os.makedirs(BUILD, exist_ok=True)
        self.path = os.path.join(BUILD, name + ".lock")

    def __enter__(self):
        self.f = open(self.path, "w")
        fcntl.flock(self.f, fcntl.LOCK_EX)
        return self

    def __exit__(self, *a):
        fcntl.flock(self.f, fcntl.LOCK_UN)
        self.f.close()


def write_if_changed(path, text):
    try:
        if open(path).read() == text:
            return False
    except OSError:
        pass
    with open(path, "w") as f:
        f.write(text)
    return True


# --------------------------------------------------------------------------
# C++ harness builds (always from /repo's current tree)
# --------------------------------------------------------------------------
def build_cpp(out_name, src, defs=(), opt="-O1", extra=(), timeout=600):
    """compile VERIF/<src> against /repo/include into build/<out_name>; returns (ok, log)"""
    os.makedirs(BUILD, exist_ok=True)
    out = os.path.join(BUILD, out_name)
    tmp = out + ".tmp%d" % os.getpid()
    cmd = ["g++", opt, "-g"] + CXXFLAGS + ["-D" + d for d in defs] + list(extra) + \
          [os.path.join(VERIF, src), "-o", tmp] + LIBS
    if not any(d.startswith("YAKUSHIMA_MAX_PARALLEL_SESSIONS") for d in defs):
        cmd.insert(1, "-DYAKUSHIMA_MAX_PARALLEL_SESSIONS=8")
    rc, o = sh(cmd, timeout=timeout)
    if rc == 0:
        os.replace(tmp, out)
    else:
        try:
            os.unlink(tmp)
        except OSError:
            pass
    return rc == 0, o


# --------------------------------------------------------------------------
# Coq development
# --------------------------------------------------------------------------
def regen_consts():
    """T1: rebuild the constants probe from /repo and regenerate coq/Consts.v"""
    ok, o = build_cpp("probe_consts", "tools/probe_consts.cpp", opt="-O0")
    if not ok:
        return False, "probe_consts does not compile against /repo:\n" + o[-3000:]
    rc, out = sh([os.path.join(BUILD, "probe_consts")], timeout=60)
    if rc != 0:
        return False, "probe_consts failed:\n" + out[-2000:]
    write_if_changed(os.path.join(COQ, "Consts.v"), out)
    return True, out


def coq_sources():
    """the development = the files listed in coq/_CoqProject (a .v file that is not listed is not built,
    not imported and not part of any theorem's dependencies)"""
    listed = [l.strip() for l in open(os.path.join(COQ, "_CoqProject")) if l.strip().endswith(".v")]
    return sorted(f for f in listed if os.path.exists(os.path.join(COQ, f)) or f == "Consts.v")


def scan_forbidden():
    """fail closed on any escape hatch in the development"""
    bad = []
    for f in coq_sources():
        if f == "Consts.v":
            continue
        txt = open(os.path.join(COQ, f)).read()
        # strip comments (non-nested is enough for our files; nested handled by loop)
        prev = None
        while prev != txt:
            prev = txt
            txt = re.sub(r"\(\*[^(*]*?\*\)", " ", txt, flags=re.S)
        txt = re.sub(r"\(\*.*?\*\)", " ", txt, flags=re.S)
        for m in FORBIDDEN.finditer(txt):
            w = m.group(0)
            # Variable/Hypothesis are fine inside a Section
            if w in ("Variable", "Hypothesis"):
                before = txt[:m.start()]
                if len(re.findall(r"\bSection\s+\w+", before)) > len(re.findall(r"\bEnd\s+\w+\s*\.", before)):
                    continue
            bad.append("%s: %s" % (f, w))
    return bad


def coq_make(targets, timeout=1500):
    """make the given .vo targets (full .vo build; never -vos); returns (ok, log)"""
    with Lock("coq"):
        okc, msg = regen_consts()
        if not okc:
            return False, msg
        if not os.path.exists(os.path.join(COQ, "Makefile")) or \
                os.path.getmtime(os.path.join(COQ, "Makefile")) < os.path.getmtime(os.path.join(COQ, "_CoqProject")):
            rc, o = sh("coq_makefile -f _CoqProject -o Makefile", cwd=COQ, timeout=60)
            if rc != 0:
                return False, o
        rc, o = sh(["make", "-k", "-j16"] + list(targets), cwd=COQ, timeout=timeout)
        return rc == 0, o


def property_status(pid):
    """compile Properties_<pid>.v on its own, capture Print Assumptions.
    returns dict(theorems=[...], discharged=[...], axioms={thm:[...]}, ok=bool, log=str)"""
    fn = "Properties_%s.v" % pid
    src = open(os.path.join(COQ, fn)).read()
    thms = re.findall(r"^(?:Theorem|Example|Corollary)\s+(\w+)", src, flags=re.M)
    deps_ok, mlog = coq_make(["Properties_%s.vo" % pid, "ConstsCheck.vo"])
    res = dict(theorems=thms, discharged=[], axioms={}, ok=False, log=mlog, broken=[])
    if not deps_ok:
        # which file / theorem broke
        m = re.findall(r'File "\./([\w.]+)", line (\d+)', mlog)
        res["broken"] = ["%s:%s" % x for x in m] or ["make failed"]
        # theorems of files that did compile are not counted: fail closed
        return res
    with Lock("coq"):
        rc, out = sh(["coqc", "-Q", ".", "Yk", fn], cwd=COQ, timeout=600)
    res["log"] = mlog + "\n" + out
    if rc != 0:
        res["broken"] = [fn]
        return res
    # Print Assumptions output blocks follow the order of the commands
    printed = re.findall(r"Print Assumptions (\w+)\.", src)
    blocks = re.split(r"(?=Closed under the global context|Axioms:)", out)
    blocks = [b for b in blocks if b.startswith("Closed") or b.startswith("Axioms:")]
    bad_ax = []
    for name, blk in zip(printed, blocks):
        if blk.startswith("Closed"):
            res["axioms"][name] = []
        else:
            ax = re.findall(r"^\s*([\w.]+)\s*:", blk, flags=re.M)
            ax = [a.split(".")[-1] for a in ax if a != "Axioms"]
            res["axioms"][name] = ax
            for a in ax:
                if a not in ALLOWED_AXIOMS:
                    bad_ax.append("%s depends on %s" % (name, a))
    if len(blocks) != len(printed):
        bad_ax.append("Print Assumptions count mismatch (%d vs %d)" % (len(blocks), len(printed)))
    forb = scan_forbidden()
    if forb:
        res["broken"] = ["forbidden construct: " + x for x in forb]
        return res
    if bad_ax:
        res["broken"] = bad_ax
        return res
    res["discharged"] = list(thms)
    res["ok"] = True
    return res


def build_model(driver):
    """extract the Coq model (Extract.v -> ykmodel.ml) and link it with ocaml/<driver>.ml
    into build/<driver>; returns (ok, log)"""
    ok, o = coq_make(["Extract.vo"])
    if not ok:
        return False, o
    with Lock("ocaml"):
        d = os.path.join(BUILD, "ocaml_" + driver)
        os.makedirs(d, exist_ok=True)
        srcs = [os.path.join(COQ, "ykmodel.ml"), os.path.join(COQ, "ykmodel.mli"),
                os.path.join(VERIF, "ocaml", "yutil.ml"), os.path.join(VERIF, "ocaml", driver + ".ml")]
        out = os.path.join(BUILD, driver)
        if os.path.exists(out) and all(os.path.getmtime(s) <= os.path.getmtime(out) for s in srcs):
            return True, "up to date"
        for s in srcs:
            sh(["cp", s, d])
        rc, o = sh(["ocamlfind", "ocamlopt", "-w", "-a", "ykmodel.mli", "ykmodel.ml", "yutil.ml",
                    driver + ".ml", "-o", out], cwd=d, timeout=600)
        return rc == 0, o


# --------------------------------------------------------------------------
# results
# --------------------------------------------------------------------------
TRUSTED_BASE = [
    "Coq 8.16.1 kernel (coqc); vm_compute inside proofs of finite sweeps/witnesses; no native_compute",
    "no axioms declared; Print Assumptions of every property theorem is parsed on every run",
    "extraction (ExtrOcamlBasic only: bool/option/list/prod/unit/sumbool -> OCaml; no Extract Constant) + ocamlopt",
    "ocaml drivers and C++ harness drivers (canonical printers), the Python orchestrator",
    "tools/probe_consts.cpp + ConstsCheck.v (constants regenerated from /repo on every run)",
    "g++ 12 / glibc / TBB as the execution platform of the implementation side",
]


def known_findings(pid):
    try:
        d = json.load(open(os.path.join(VERIF, "known_findings.json")))
    except OSError:
        return []
    return [f for f in d.get("findings", []) if f.get("property") == pid and f.get("status") == "open"]


class Result:
    def __init__(self, pid, tier, seed, level="proof"):
        self.pid, self.tier, self.seed, self.level = pid, tier, seed, level
        self.t0 = time.time()
        self.cov = {}
        self.assumptions = []
        self.violations = []   # (replay_obj, nofail)
        self.known = []        # strings

    def violation(self, what, replay, nofail=False):
        self.violations.append((what, replay, nofail))

    def finish(self):
        os.makedirs(EVID, exist_ok=True)
        os.makedirs(REPLAYS, exist_ok=True)
        for k in self.known:
            print("KNOWN-FINDING: property=%s %s" % (self.pid, k))
        lines = []
        for what, replay, nofail in self.violations:
            blob = json.dumps(replay, sort_keys=True, indent=1)
            h = hashlib.sha1(blob.encode()).hexdigest()[:10]
            path = os.path.join(REPLAYS, "%s-%s.json" % (self.pid, h))
            with open(path, "w") as f:
                f.write(blob)
            lines.append("VIOLATION property=%s replay=%s%s" % (
                self.pid, path, " no-failing-input-found" if nofail else ""))
            log("  -> " + what)
        ev = dict(property_id=self.pid, tier=self.tier, seed=self.seed, level=self.level,
                  coverage=self.cov, assumptions=self.assumptions,
                  wall_s=round(time.time() - self.t0, 2), violations=len(self.violations))
        with open(os.path.join(EVID, self.pid + ".json"), "w") as f:
            json.dump(ev, f, indent=1, sort_keys=True)
        for l in lines:
            print(l)
        sys.stdout.flush()
        return 1 if lines else 0


def proof_coverage(res, st, checker="coqc -Q coq Yk coq/Properties_%s.v (after make -k of its dependencies)"):
    res.cov["obligations"] = len(st["theorems"])
    res.cov["discharged"] = len(st["discharged"])
    res.cov["checker_cmd"] = checker % res.pid
    res.cov["trusted_base"] = list(TRUSTED_BASE)
    res.cov["theorems"] = st["theorems"]
    res.cov["axioms_per_theorem"] = st["axioms"]
    used = sorted({a for v in st["axioms"].values() for a in v})
    res.cov["axioms_used"] = used
    if used:
        res.cov["trusted_base"].append("standard-library axioms used: " + ", ".join(used))
