"""C20 -- mem_usage reports the real shape and footprint of a storage"""
from . import common as C
from . import seq

CATS = ["mem", "dump"]
GEN = dict(scans=False, dumps=True)


def run(tier, seed):
    res = C.Result("C20", tier, seed, level="proof")
    res.assumptions = ["node sizes (320 bytes) and slot size come from the constants probe (ConstsCheck.v)"]
    return seq.run_seq_property(res, "c20", CATS, 40, 300, gen_kwargs=GEN)


def replay(path, tier, seed):
    return seq.replay_seq("C20", "c20", path, CATS)
