"""C17 -- version word: leaf functions (bit for bit), the locking protocol (BorderDefs theorems), and a trace
monitor on real runs: every CAS on a published version word must be accepted by the extracted
VersionDefs.ver_write_ok on the word current at that instant (C17_monitor_sound: a lock is taken only when
free, released only by unlock applied to the current word, and by its holder)."""
import json

from . import common as C
from . import conc
from . import leaf


def conc_part(res):
    n = 2 if res.tier == "quick" else 6
    conc.conc_phase(res, "c17", ("deadlock", "coherent"), ["full", "two", "interior", "sublayer", "last"],
                    ("put", "rem", "uput", "get"), False, 120 if res.tier == "quick" else 800,
                    ("preempt1",) if res.tier == "quick" else ("preempt1", "preempt2", "pct"), n, vermon=True,
                    label="version_word_trace_monitor")
    conc.conc_phase(res, "c17", ("deadlock", "coherent"), ["collapse"], (), False, 1600 if res.tier == "quick" else 2500,
                    ("preempt1", "race2") if res.tier == "quick" else ("preempt1", "race2", "preempt2", "pct"),
                    3 if res.tier == "quick" else 10,
                    gen=conc.gen_collapse, vermon=True, label="version_word_trace_monitor_collapse")


def run(tier, seed):
    res = C.Result("C17", tier, seed, level="proof")
    res.assumptions = [
        "theorems are about the Coq definitions (coq/*Defs.v); tie: every real leaf function is run on generated "
        "arguments and compared bit for bit with the extracted definitions; the writes of real concurrent runs are "
        "checked by the extracted monitor",
        "sequentially consistent interleavings (scheduler serialises the real threads)",
    ]
    return leaf.run_leaf_property(res, "c17", leaf.gen_ver, leaf.nontrivial_ver, post=conc_part)


def replay(path, tier, seed):
    r = json.load(open(path))
    if r.get("kind", "").startswith("conc-"):
        print(json.dumps(r, indent=1)[:3000])
        return 1
    res = C.Result("C17", tier, seed)
    return leaf.replay(res, "c17", path)
