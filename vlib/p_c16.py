"""C16 -- init/fin cycles are repeatable.

Theorems: coq/LifecycleProofs.v (stop-flag protocol: while running the
background loops of every cycle stay alive; fresh state after fin/init; the
pinned source, which never cleared the flags, is refuted).
Tie: real init/fin/destroy cycles in real time (epoch period 2 ms): the facts
the model predicts per cycle are observed on the library (nothing visible, all
slots free, epoch advances, retired memory reclaimed while running)."""
import os
import random
import re

from . import common as C


def run(tier, seed):
    res = C.Result("C16", tier, seed, level="proof")
    res.assumptions = ["'the epoch advances' is a liveness fact observed in real time (>= 3 increments in 40 periods), not proved",
                       "the lifecycle model abstracts the threads to their stop-flag tests (one test per loop iteration)"]
    st = C.property_status("C16")
    C.proof_coverage(res, st)
    ok, o = C.build_cpp("cycle_driver", "harness/cycle_driver.cpp",
                        defs=["YAKUSHIMA_MAX_PARALLEL_SESSIONS=4"], extra=["-UYAKUSHIMA_EPOCH_TIME", "-DYAKUSHIMA_EPOCH_TIME=2"])
    if not ok:
        res.violation("cycle_driver does not compile", dict(kind="build-failure", log=o[-3000:]), nofail=True)
        return res.finish()
    rng = random.Random(seed)
    wd = os.path.join(C.BUILD, "run_c16")
    os.makedirs(wd, exist_ok=True)
    nruns = 4 if tier == "quick" else 25
    bad = []
    total_cycles = 0
    samples = []
    scripts = set()
    for i in range(nruns):
        ncyc = rng.choice([2, 3, 4]) if tier == "quick" else rng.choice([2, 3, 5, 8])
        lines = ["cycle %d %d %d" % (rng.choice([3, 10, 40]), rng.choice([0, 0, 1, 2, 3, 4]), int(rng.random() < 0.3)) for _ in range(ncyc)]
        scripts.add(tuple(lines))
        f = os.path.join(wd, "cy_%d.txt" % i)
        open(f, "w").write("\n".join(lines) + "\n")
        rc, out = C.sh([os.path.join(C.BUILD, "cycle_driver"), f], timeout=300, merge=False)
        outl = [l for l in out.split("\n") if l.startswith("cycle ")]
        if rc != 0 or len(outl) != ncyc:
            bad.append(("crash or hang in cycle %d (rc=%d)" % (len(outl) + 1, rc), lines, out[-500:]))
            continue
        for ln, spec in zip(outl, lines):
            total_cycles += 1
            nops = int(spec.split()[1])
            m = dict(re.findall(r"(\w+)=(\S+)", ln))
            why = None
            if m.get("list") != "WARN_NOT_EXIST:0" or m.get("find_old") != "WARN_NOT_EXIST":
                why = "a storage of the previous cycle is visible after init: " + ln
            elif m.get("slots_free") != "4/4" or m.get("first_slot") != "0" or m.get("busy_after_init") != "0":
                why = "not every session slot is free after init: " + ln
            elif int(m.get("epoch_advance", "0")) < 3:
                why = "the epoch does not advance in this cycle (advance=%s in 40 periods)" % m.get("epoch_advance")
            elif int(m.get("reclaimed", "0")) < nops:
                why = "retired memory is not reclaimed while running (reclaimed %s of %d blocks)" % (m.get("reclaimed"), nops)
            elif m.get("put") != "OK" or m.get("get") != "OK":
                why = "the system is not functional in this cycle: " + ln
            elif "destroy" in m and (m.get("list_after_destroy") != "WARN_NOT_EXIST" or m.get("create_after_destroy") != "OK"):
                why = "destroy() did not leave an empty usable system: " + ln
            if why:
                bad.append((why, lines, ln))
        if len(samples) < 2:
            samples.append(dict(script=lines, output=outl))
    res.cov.update(programs=nruns, evaluations=total_cycles, distinct_nontrivial=len(scripts),
                   rule="one program = 2-8 init/fin cycles (with work, sessions left open, destroy) on the real library in "
                        "real time; each cycle is checked against the facts the lifecycle model proves; distinct by script",
                   disagreements_checked=len(bad), samples=samples, traces_validated_against_impl=total_cycles - len(bad))
    if bad:
        why, lines, ln = bad[0]
        res.violation(why, dict(kind="lifecycle", script=lines, observed=ln, all=[b[0] for b in bad][:10]))
    elif not st["ok"]:
        res.violation("proof obligations no longer check: %s" % st["broken"][:5], dict(kind="broken-tie", broken=st["broken"]), nofail=True)
    return res.finish()


def replay(path, tier, seed):
    import json
    r = json.load(open(path))
    ok, o = C.build_cpp("cycle_driver", "harness/cycle_driver.cpp",
                        defs=["YAKUSHIMA_MAX_PARALLEL_SESSIONS=4"], extra=["-UYAKUSHIMA_EPOCH_TIME", "-DYAKUSHIMA_EPOCH_TIME=2"])
    f = os.path.join(C.BUILD, "replay_c16.txt")
    open(f, "w").write("\n".join(r["script"]) + "\n")
    rc, out = C.sh([os.path.join(C.BUILD, "cycle_driver"), f], timeout=300, merge=False)
    print(out)
    return 1
