"""C09 -- operations always complete: no deadlock and no lock left held.

Theorems: coq/LockOrderProofs.v (ordered acquisition admits no deadlock, for any
number of threads and locks), border-model lock invariant (C01).
Tie / exploration: real runs under the scheduler on shapes that force splits,
node deletion, parent creation and root changes; per run (1) the scheduler's
deadlock detector (every live thread waits for a write) and step budget,
(2) lock bits at quiescence, (3) the held->awaited graph of the run's lock
words is acyclic, i.e. a rank function exists for the acquisition pattern that
was exercised (the hypothesis of the theorem) -- a lock-order inversion is
reported even if this schedule did not deadlock."""
import json
import os

from . import common as C
from . import conc

WANT = ("deadlock", "coherent", "lockorder", "null")


def run(tier, seed):
    res = C.Result("C09", tier, seed, level="proof")
    # every call terminates also without any concurrency: shapes on which a retry loop could make no progress
    # (equal-slice entries on both sides of a split, cursors and scans with endpoints there, failed storage
    # operations beyond the number of session slots); a script that does not finish is reported
    import random
    from . import seq
    rs = random.Random(seed + 9)
    seq.scripts_phase(res, "c09", seq.gen_split_boundary_scripts(rs, tier) + seq.gen_failed_ddl_scripts(rs, tier),
                      ["res"], "sequential_termination_scripts")
    res.assumptions = ["termination of optimistic retry loops under fair schedules is a liveness property: explored with a "
                       "step budget, not proved", "the rank function is witnessed per run (acyclic lock-order graph), "
                       "not derived from the tree structure"]
    conc.Scenario.events = True
    try:
        return conc.run_conc_property(res, "c09", WANT, ["full", "two", "interior", "sublayer", "sublayer-last", "last"],
                                      ("put", "rem", "uput", "get"), True, 150, 1500, tie_shapes=())
    finally:
        conc.Scenario.events = False


def replay(path, tier, seed):
    r = json.load(open(path))
    print(json.dumps(r, indent=1)[:3000])
    return 1
