"""C07 -- memory handed out inside a session stays valid until that session leaves.

Theorems: coq/EpochProofs.v (no_early_free for the repaired enter, for every
number of slots and every interleaving; the original enter is refuted).
Tie (T3): worker sessions, the epoch thread and the gc thread of the REAL
library run under the deterministic scheduler; the access log is replayed on
the extracted model (ocaml/epoch_main.ml): every access must be a step the
model can take, with the values the model predicts.
Oracle (independent of the model): on the log itself, no object is reclaimed
while a session that was active when it was retired is still active."""
import os
import random
import re
from concurrent.futures import ThreadPoolExecutor

from . import common as C


def hx(b):
    return "-" if len(b) == 0 else bytes(b).hex()


KEYS = [b"k1", b"k2", b"k3", b"prefix88a", b"prefix88b"]


def gen_workers(rng, nworkers):
    out = []
    for w in range(nworkers):
        ops = []
        if nworkers > 1 and w == 1 and rng.random() < 0.5:
            # a long-lived reader: it holds what it read until the very end
            out.append(["enter"] + ["get " + hx(rng.choice(KEYS)) for _ in range(rng.randrange(3, 9))] + ["leave"])
            continue
        for cyc in range(rng.choice([1, 1, 2])):
            ops.append("enter")
            for _ in range(rng.randrange(1, 4)):
                k = rng.choice(KEYS)
                r = rng.random()
                if r < 0.45:
                    ops.append("rem " + hx(k))
                elif r < 0.75:
                    ops.append("put %s %s" % (hx(k), hx(b"v%d" % rng.randrange(100))))
                else:
                    ops.append("get " + hx(k))
            ops.append("get " + hx(rng.choice(KEYS)))
            ops.append("leave")
        out.append(ops)
    return out


def gen_slot_handover(rng, binary=None, workdir=None):
    """three workers on two slots: worker 0 leaves while worker 1 enters on the slot being released, worker 1 then reads
    and keeps what it read; worker 2 (other slot) removes / overwrites that key and leaves; epoch and gc threads run;
    worker 1 leaves last.  The hand-over is placed inside worker 0's leave (between its stores, located by a dry run)
    and inside worker 1's enter."""
    k = rng.choice(KEYS)
    w0 = ["enter", "get " + hx(rng.choice(KEYS)), "leave"]
    w1 = ["enter", "get " + hx(k), "get " + hx(k), "leave"]
    w2 = ["enter", rng.choice(["rem " + hx(k), "put %s %s" % (hx(k), hx(b"new"))]), "leave"]
    workers = [w0, w1, w2]
    E, G = 3, 4
    a0 = None
    if binary is not None:
        # dry run: worker 0 alone; the step at which it stores running = false in leave
        f = os.path.join(workdir, "dry.txt")
        with open(f, "w") as fh:
            fh.write(scen_text("mode script seg 0:2000 maxsteps 60000", workers))
        rc, out = C.sh([binary, f], timeout=60, merge=False)
        n = 0
        for ln in out.split("\n"):
            t = ln.split(" ")
            if ln.startswith("E ") and t[2] == "0" and t[7] == "-1":
                n += 1
                if t[3] == "1" and t[4] == "5":
                    a0 = n
    modes = []
    for i in range(60):
        a = (a0 + rng.choice([-1, 0, 0, 1, 1, 2])) if (a0 and i % 2 == 0) else rng.randrange(8, 70)
        segs = [(0, a), (1, rng.choice([4, 5, 6, 7, 8, 12, 30])), (0, rng.randrange(1, 6)), (1, rng.randrange(5, 40)),
                (2, rng.randrange(60, 220)), (E, rng.randrange(8, 50)), (G, rng.randrange(10, 80)),
                (E, rng.randrange(0, 30)), (G, rng.randrange(0, 60))]
        modes.append("mode script " + " ".join("seg %d:%d" % sg for sg in segs) + " maxsteps 60000")
    return workers, modes


def scen_text(mode_line, workers):
    out = [mode_line]
    for k in KEYS:
        out.append("setup %s %s" % (hx(k), hx(b"init")))
    for w, ops in enumerate(workers):
        for o in ops:
            out.append("worker %d %s" % (w, o))
    return "\n".join(out) + "\n"


def gen_modes(rng, nworkers, n):
    """schedules aimed at the windows inside enter / between retire and gc passes, plus random and pct"""
    E, G = nworkers, nworkers + 1
    modes = []
    for _ in range(n):
        r = rng.random()
        if r < 0.3:
            # hand-overs between workers, epoch thread and gc thread at arbitrary points
            segs = [(rng.randrange(nworkers + 2), rng.randrange(1, 90)) for _ in range(rng.randrange(5, 14))]
            modes.append("mode script " + " ".join("seg %d:%d" % sg for sg in segs) + " maxsteps 60000")
        elif r < 0.6:
            w = rng.randrange(nworkers)
            segs = [(w, rng.randrange(2, 8)), (E, rng.randrange(4, 30)), (w, rng.randrange(10, 140)),
                    (E, rng.randrange(1, 12)), (G, rng.randrange(10, 70))]
            if rng.random() < 0.5:
                segs.insert(0, (rng.randrange(nworkers), rng.randrange(0, 60)))
            if rng.random() < 0.5:
                segs += [(rng.randrange(nworkers), rng.randrange(5, 80)), (E, rng.randrange(5, 30)), (G, rng.randrange(10, 60))]
            modes.append("mode script " + " ".join("seg %d:%d" % s for s in segs) + " maxsteps 60000")
        elif r < 0.8:
            modes.append("mode pct seed %d depth %d maxsteps 60000" % (rng.getrandbits(30), rng.choice([2, 3, 4])))
        else:
            modes.append("mode random seed %d stick %.2f maxsteps 60000" % (rng.getrandbits(30), rng.choice([0.6, 0.9, 0.97])))
    return modes


def log_oracle(out):
    """on the raw log: reclaim of an object while a session active at its retirement is still active"""
    items = []
    nworkers = 0
    for ln in out.split("\n"):
        if ln.startswith("ROLES"):
            nworkers = int(re.search(r"workers=(\d+)", ln).group(1))
        elif ln.startswith("H "):
            t = ln.split(" ")
            items.append((int(t[1]), "H", t[2:]))
        elif ln.startswith("E "):
            t = ln.split(" ")
            items.append((int(t[1]), "E", t[2:]))
    items.sort(key=lambda x: x[0])
    active = {}          # worker -> session serial
    serial = 0
    retired = {}         # addr -> set of session serials active at retire
    left = set()
    bad = []
    for seq, kind, t in items:
        if kind == "H":
            if t[0] == "ret" and t[2] == "enter" and t[3] != "FULL":
                serial += 1
                active[int(t[1])] = serial
            elif t[0] == "call" and t[2] == "leave":
                s = active.pop(int(t[1]), None)
                if s is not None:
                    left.add(s)
        else:
            tid, k, obj, addr, val, ok = int(t[0]), int(t[1]), int(t[2]), t[3], t[4], int(t[5])
            if k == 5 and ok >= 0:
                retired[addr] = set(active.values())
            elif k == 6 and ok >= 0 and addr in retired:
                still = [s for s in retired[addr] if s not in left]
                if still:
                    bad.append("object %s reclaimed at seq %d while session(s) %s active at its retirement are still open" % (addr, seq, still))
                del retired[addr]
    return bad


def one_run(binary, text, workdir, idx, repaired=True):
    f = os.path.join(workdir, "e_%d.txt" % idx)
    with open(f, "w") as fh:
        fh.write(text)
    rc, out = C.sh([binary, f], timeout=120, merge=False)
    lf = os.path.join(workdir, "e_%d.log" % idx)
    with open(lf, "w") as fh:
        fh.write(out)
    verdict = ""
    if rc == 0:
        rc2, verdict = C.sh([os.path.join(C.BUILD, "epoch_main"), lf, "1" if repaired else "0"], timeout=120, merge=False)
        verdict = verdict.strip()
    orc = log_oracle(out) if rc == 0 else []
    m = re.search(r"STEPS (\d+)", out)
    try:
        os.unlink(lf)
    except OSError:
        pass
    return dict(rc=rc, verdict=verdict, oracle=orc, text=text, steps=int(m.group(1)) if m else 0,
                nevents=out.count("\nE "), reclaims=out.count(" 6 12 "))


def run(tier, seed):
    res = C.Result("C07", tier, seed, level="proof")
    res.assumptions = [
        "sequentially consistent interleavings of single accesses (the scheduler serialises the real threads); "
        "C++ relaxed/acquire/release reorderings are outside the model",
        "trace abstraction in ocaml/epoch_main.ml (raw accesses -> model events) is trusted",
        "tbb::concurrent_queue behaves as a FIFO; time (sleepMs) is a scheduling step",
    ]
    st = C.property_status("C07")
    C.proof_coverage(res, st)
    proof_broken = not st["ok"]
    builds = {}
    for n in (1, 2):
        ok, o = C.build_cpp("epoch_driver_%d" % n, "harness/epoch_driver.cpp",
                            defs=["YAKUSHIMA_MAX_PARALLEL_SESSIONS=%d" % n])
        if not ok:
            res.violation("epoch_driver does not compile against /repo", dict(kind="build-failure", log=o[-3000:],
                          broken="harness/epoch_driver.cpp vs /repo/include"), nofail=True)
            return res.finish()
        builds[n] = os.path.join(C.BUILD, "epoch_driver_%d" % n)
    okm, om = C.build_model("epoch_main")
    if not okm:
        res.violation("model replayer does not build", dict(kind="model-build-failure", log=om[-3000:]), nofail=True)
        return res.finish()
    rng = random.Random(seed)
    wd = os.path.join(C.BUILD, "run_c07")
    os.makedirs(wd, exist_ok=True)
    jobs = []
    # corpus first (scenario files declare the capacity in a comment line "# sessions N")
    cdir = os.path.join(C.VERIF, "corpus", "C07")
    for f in sorted(os.listdir(cdir)) if os.path.isdir(cdir) else []:
        txt = open(os.path.join(cdir, f)).read()
        m = re.search(r"# sessions (\d+)", txt)
        jobs.append((builds[int(m.group(1)) if m else 1], txt))
    n_sc = 6 if tier == "quick" else 40
    per = 40 if tier == "quick" else 250
    for _ in range(n_sc):
        cap = rng.choice([1, 2, 2])
        nw = rng.choice([1, 2]) if cap == 2 else rng.choice([1, 2])
        workers = gen_workers(rng, nw)
        for mode in gen_modes(rng, nw, per):
            jobs.append((builds[cap], scen_text(mode, workers)))

    # slot hand-over between a leaving and an entering session (three workers, two slots)
    for _ in range(2 if tier == "quick" else 10):
        workers, modes = gen_slot_handover(rng, builds[2], wd)
        for mode in modes:
            jobs.append((builds[2], scen_text(mode, workers)))

    def go(ij):
        i, (b, t) = ij
        return one_run(b, t, wd, i)
    with ThreadPoolExecutor(max_workers=16) as ex:
        results = list(ex.map(go, list(enumerate(jobs))))
    accepted = sum(1 for r in results if r["verdict"].startswith("ACCEPT"))
    rejected = [r for r in results if r["verdict"].startswith("REJECT")]
    unsafe = [r for r in results if r["verdict"].startswith("UNSAFE") or r["oracle"]]
    crashed = [r for r in results if r["rc"] not in (0,)]
    steps = sum(r["steps"] for r in results)
    res.cov.update(
        traces_validated_against_impl=accepted, programs=len(results), evaluations=len(results),
        distinct_nontrivial=len({r["text"] for r in results if r["nevents"] > 50}),
        rule="one program = one scenario (1-2 worker sessions doing enter / remove / overwrite / get / leave, the real "
             "epoch thread and gc thread) under one schedule (scripted windows inside enter and between retire and "
             "gc passes, PCT, random); non-trivial = more than 50 logged accesses; distinct by scenario+schedule text",
        disagreements_checked=len(rejected) + len(unsafe),
        scheduler_steps=steps, reclaims_observed=sum(r["reclaims"] for r in results),
        samples=[dict(schedule=r["text"].split("\n")[0], verdict=r["verdict"]) for r in results[:3]])
    if unsafe:
        r = unsafe[0]
        res.violation("an object was reclaimed while a session active at its retirement was still open: %s %s" % (
            r["verdict"], r["oracle"][:1]), dict(kind="epoch-unsafe", scenario=r["text"], verdict=r["verdict"],
                                                 oracle=r["oracle"][:3]))
    elif crashed:
        r = crashed[0]
        res.violation("scheduler run failed (rc=%d)" % r["rc"], dict(kind="epoch-run-failure", scenario=r["text"], rc=r["rc"]),
                      nofail=True)
    elif rejected or proof_broken:
        what = []
        if proof_broken:
            what.append("proof obligations no longer check: " + "; ".join(st["broken"][:5]))
        if rejected:
            what.append("trace refinement broken: %s (%d of %d traces rejected by EpochDefs.step)" % (
                rejected[0]["verdict"], len(rejected), len(results)))
        res.violation("; ".join(what), dict(kind="broken-tie", broken=what,
                                            scenario=rejected[0]["text"] if rejected else None,
                                            theorems=st["theorems"]), nofail=True)
    return res.finish()


def replay(path, tier, seed):
    import json
    r = json.load(open(path))
    sc = r.get("scenario")
    if not sc:
        print("replay: no scenario; broken:", r.get("broken"))
        return 1
    m = re.search(r"# sessions (\d+)", sc)
    n = int(m.group(1)) if m else 1
    ok, o = C.build_cpp("epoch_driver_%d" % n, "harness/epoch_driver.cpp", defs=["YAKUSHIMA_MAX_PARALLEL_SESSIONS=%d" % n])
    C.build_model("epoch_main")
    wd = os.path.join(C.BUILD, "run_c07")
    os.makedirs(wd, exist_ok=True)
    x = one_run(os.path.join(C.BUILD, "epoch_driver_%d" % n), sc, wd, 99999)
    print("model replay:", x["verdict"])
    print("log oracle  :", x["oracle"] or "ok")
    return 1 if (x["oracle"] or not x["verdict"].startswith("ACCEPT")) else 0
