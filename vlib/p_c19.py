"""C19 -- the leaf permutation word"""
from . import common as C
from . import leaf


def run(tier, seed):
    res = C.Result("C19", tier, seed, level="proof")
    res.assumptions = [
        "theorems are about coq/PermDefs.v; tie: every permutation.h operation is run on generated words and "
        "compared bit for bit with the extracted definitions (plus tree dumps under C08)",
        "single-word publication: each model operation returns one word; the real functions end in one set_body",
    ]
    return leaf.run_leaf_property(res, "c19", leaf.gen_perm, leaf.nontrivial_perm)


def replay(path, tier, seed):
    res = C.Result("C19", tier, seed)
    return leaf.replay(res, "c19", path)
