"""C19 -- the leaf permutation word: every operation bit for bit against PermDefs (+ list-level oracle, + exactly
one store per update), and the reader-side clause (a reader sees either the old or the new ordering): lookups
racing with inserts / removes of OTHER keys of the same leaf, which shift ranks and change the count, judged by the
verified linearizability checker on the real library under the scheduler."""
import json

from . import common as C
from . import conc
from . import leaf

READER_SCENARIOS = ["get-last-vs-rem-first", "get-last-vs-rem-mid", "get-mid-vs-put-first", "rem-last-vs-rem-first",
                    "uput-last-vs-rem-first", "get-vs-rem-put-other", "get-vs-rem-put-other2"]


def conc_part(res):
    import random
    from . import seq
    rs = random.Random(res.seed + 19)
    scripts = [("pub%d" % i, seq.gen_script(random.Random(rs.getrandbits(40)), res.tier, scans=False, dumps=False))
               for i in range(6 if res.tier == "quick" else 40)]
    scripts += seq.gen_split_boundary_scripts(rs, res.tier)[:10]
    seq.scripts_phase(res, "c19", scripts, ["res"], "publication_order_scripts")
    conc.conc_phase(res, "c19", ("lin", "null", "deadlock", "coherent"), READER_SCENARIOS, (), False, 1600, ("preempt1",), 1,
                    gen=conc.catalogue_gen, label="reader_vs_reordering")
    if res.tier != "quick":
        conc.conc_phase(res, "c19", ("lin", "null", "deadlock", "coherent"), ["single", "full"], ("get", "rem", "put", "uput"),
                        False, 800, ("preempt2", "pct"), 6, label="reader_vs_reordering_random")


def run(tier, seed):
    res = C.Result("C19", tier, seed, level="proof")
    res.assumptions = [
        "theorems are about coq/PermDefs.v; tie: every permutation.h operation is run on generated words and "
        "compared bit for bit with the extracted definitions (plus tree dumps under C08)",
        "single-word publication: each model operation returns one word; the real functions must end in exactly one "
        "store of the word (counted through the hooks)",
        "reader side: explored under the scheduler (sequentially consistent interleavings), judged by lin_check",
    ]
    return leaf.run_leaf_property(res, "c19", leaf.gen_perm, leaf.nontrivial_perm, post=conc_part)


def replay(path, tier, seed):
    r = json.load(open(path))
    if str(r.get("kind", "")).startswith("seq-"):
        from . import seq
        return seq.replay_seq("C19", "c19", path, ["res"])
    if str(r.get("kind", "")).startswith("conc-"):
        print(json.dumps(r, indent=1)[:3000])
        return 1
    res = C.Result("C19", tier, seed)
    return leaf.replay(res, "c19", path)
