// drv_common.h: helpers shared by the harness drivers (hex, ids, structure walk)
#pragma once
#include "alloc_track.h"

#include <cstdint>
#include <cstdio>
#include <cstring>
#include <iostream>
#include <map>
#include <sstream>
#include <string>
#include <vector>

#include "kvs.h"

using namespace yakushima;

static std::string unhex(const std::string& h) {
    std::string k;
    if (h == "-") return k;
    for (std::size_t i = 0; i + 1 < h.size(); i += 2)
        k.push_back(static_cast<char>(std::stoi(h.substr(i, 2), nullptr, 16)));
    return k;
}
static std::string tohex(const void* p, std::size_t n) {
    static const char* d = "0123456789abcdef";
    if (n == 0) return "-";
    std::string s;
    const auto* b = static_cast<const unsigned char*>(p);
    for (std::size_t i = 0; i < n; ++i) {
        s.push_back(d[b[i] >> 4]);
        s.push_back(d[b[i] & 15]);
    }
    return s;
}
static std::string tohex(const std::string& s) { return tohex(s.data(), s.size()); }
static std::string hx(std::uint64_t v) {
    char buf[32];
    std::snprintf(buf, sizeof buf, "%llx", static_cast<unsigned long long>(v));
    return buf;
}
static std::uint64_t rawv(node_version64_body b) {
    std::uint64_t r;
    std::memcpy(&r, &b, 8);
    return r;
}
static std::string idof(const void* p) {
    if (p == nullptr) return "-";
    const auto* r = vtrack::find(p);
    if (r == nullptr) return "#?" + hx(reinterpret_cast<std::uintptr_t>(p));
    return "#" + std::to_string(r->serial);
}
// a node_version64* points inside a node: recover the node (version_ is a member of base_node)
static std::string idof_nvp(node_version64* nvp, const std::map<node_version64*, base_node*>& m) {
    auto it = m.find(nvp);
    if (it == m.end()) return "#?nv";
    return idof(it->second);
}

static scan_endpoint ep(const std::string& s) {
    if (s == "EX") return scan_endpoint::EXCLUSIVE;
    if (s == "IN") return scan_endpoint::INCLUSIVE;
    return scan_endpoint::INF;
}

// key token: hex | "-" (empty) | "~N" (null data, size N)
static std::string_view keyview(const std::string& tok, std::string& store) {
    if (!tok.empty() && tok[0] == '~') {
        return std::string_view(static_cast<const char*>(nullptr),
                                static_cast<std::size_t>(std::stoul(tok.substr(1))));
    }
    store = unhex(tok);
    return std::string_view(store);
}

// ---- structure walk ---------------------------------------------------------
struct walker {
    std::ostringstream& out;
    std::map<node_version64*, base_node*>& nv2node;

    void value_desc(value* vp) {
        if (value::is_value_ptr(vp)) {
            auto [p, sz, al] = value::get_gc_info(vp);
            out << "V" << idof(p) << ":" << value::get_len(vp) << ":" << static_cast<std::size_t>(al)
                << ":" << tohex(value::get_body(vp), value::get_len(vp) > 16 ? 16 : value::get_len(vp));
        } else {
            out << "W" << hx(reinterpret_cast<std::uintptr_t>(vp));
        }
    }

    void walk(base_node* n, base_node* expect_parent) {
        nv2node[n->get_version_ptr()] = n;
        if (n->get_version_border()) {
            auto* b = dynamic_cast<border_node*>(n);
            permutation perm{b->get_permutation().get_body()};
            out << "B " << idof(b) << " ver=" << hx(rawv(b->get_version())) << " perm="
                << hx(perm.get_body()) << " parent=" << idof(b->get_parent())
                << " pok=" << (b->get_parent() == expect_parent) << " prev=" << idof(b->get_prev())
                << " next=" << idof(b->get_next()) << " n=" << static_cast<int>(perm.get_cnk()) << " [";
            std::vector<base_node*> subs;
            for (std::size_t r = 0; r < perm.get_cnk(); ++r) {
                std::size_t i = perm.get_index_of_rank(r);
                out << " " << i << ":" << hx(__builtin_bswap64(b->get_key_slice_at(i))) << ":"
                    << static_cast<int>(b->get_key_length_at(i)) << ":";
                link_or_value* lv = b->get_lv_at(i);
                if (base_node* nl = lv->get_next_layer(); nl != nullptr) {
                    out << "L" << idof(nl);
                    subs.push_back(nl);
                } else if (value* vp = lv->get_value(); vp != nullptr) {
                    value_desc(vp);
                } else {
                    out << "E";
                }
            }
            out << " ]\n";
            for (auto* s : subs) walk(s, b);
        } else {
            auto* it = dynamic_cast<interior_node*>(n);
            std::size_t nk = it->get_n_keys();
            out << "I " << idof(it) << " ver=" << hx(rawv(it->get_version())) << " parent="
                << idof(it->get_parent()) << " pok=" << (it->get_parent() == expect_parent)
                << " n=" << nk << " keys=[";
            for (std::size_t i = 0; i < nk; ++i)
                out << " " << hx(__builtin_bswap64(it->get_key_slice_at(i))) << ":"
                    << static_cast<int>(it->get_key_length_at(i));
            out << " ] ch=[";
            for (std::size_t i = 0; i <= nk; ++i) out << " " << idof(it->get_child_at(i));
            out << " ]\n";
            for (std::size_t i = 0; i <= nk; ++i) walk(it->get_child_at(i), it);
        }
    }
};

