// epoch_driver: worker sessions, the epoch thread and the gc thread of the real
// library, all under the deterministic scheduler; prints the event log of the
// reclamation protocol (enter/leave accesses, epoch and gc-epoch accesses,
// retire, reclaim) for replay against the Coq model EpochDefs, and checks the
// property directly on the log (no object is reclaimed while a session that
// was active when it was retired is still active).
//
// scenario: mode ... ; worker <tid> <op>  with ops: enter | leave | put K V | rem K | hold
#include "drv_common.h"
#include "sched.h"

struct wop {
    std::string kind;
    std::vector<std::string> args;
};

int main(int argc, char** argv) {
    if (argc < 2) return 2;
    FILE* f = std::fopen(argv[1], "r");
    if (!f) return 2;
    auto& S = vsched::sched::get();
    std::vector<std::vector<wop>> workers;
    std::vector<std::pair<std::string, std::string>> setup;
    int depth = 2;
    static char line[1 << 16];
    while (std::fgets(line, sizeof line, f)) {
        std::istringstream in(line);
        std::string w;
        in >> w;
        if (w.empty() || w[0] == '#') continue;
        if (w == "mode") {
            std::string m;
            in >> m;
            S.mode = m == "pct" ? 1 : (m == "replay" ? 2 : (m == "preempt" ? 3 : (m == "script" ? 4 : 0)));
            std::string k;
            while (in >> k) {
                if (k == "seed") { std::uint64_t s; in >> s; S.rng.seed(s); }
                else if (k == "stick") in >> S.stick;
                else if (k == "depth") in >> depth;
                else if (k == "maxsteps") in >> S.max_steps;
                else if (k == "first") in >> S.first_thread;
                else if (k == "seg") { std::string pt; in >> pt; auto c = pt.find(':'); S.script.emplace_back(std::stoi(pt.substr(0, c)), std::stoi(pt.substr(c + 1))); }
                else if (k == "at") {
                    std::string pt; in >> pt; auto c = pt.find(':');
                    S.preempts.emplace_back(std::stoull(pt.substr(0, c)), std::stoi(pt.substr(c + 1)));
                }
            }
        } else if (w == "replay") {
            int t;
            while (in >> t) S.replay.push_back(t);
        } else if (w == "setup") {
            std::string k, v;
            in >> k >> v;
            setup.emplace_back(k, v);
        } else if (w == "worker") {
            std::size_t tid;
            in >> tid;
            wop o;
            in >> o.kind;
            std::string a;
            while (in >> a) o.args.push_back(a);
            if (workers.size() <= tid) workers.resize(tid + 1);
            workers[tid].push_back(o);
        }
    }
    std::fclose(f);
    // no init(): the background threads are run by this driver under the scheduler
    thread_info_table::init();
    const std::string st = "s";
    create_storage(st);
    {
        Token t{};
        enter(t);
        for (auto& kv : setup) {
            std::string k = unhex(kv.first), v = unhex(kv.second);
            put<char>(t, st, k, v.data(), v.size());
        }
        leave(t);
    }
    auto& table = thread_info_table::get_thread_info_table();
    std::cout << "TABLE " << hx(reinterpret_cast<std::uintptr_t>(&table.at(0))) << " " << sizeof(thread_info) << " "
              << table.size() << "\n";
    if (S.mode == 1)
        for (int i = 1; i < depth; ++i) S.change_pts.push_back(1 + S.rng() % 600);
    S.log_pre = true;
    vsched::install();
    std::atomic<int> live_workers{static_cast<int>(workers.size())};
    std::vector<std::function<void()>> bodies;
    const std::size_t nw = workers.size();
    for (std::size_t w = 0; w < nw; ++w) {
        bodies.emplace_back([w, &workers, &st, &live_workers] {
            Token tok{};
            bool in = false;
            for (auto& o : workers[w]) {
                if (o.kind == "enter") {
                    vsched::note("call " + std::to_string(w) + " enter");
                    status s = enter(tok);
                    in = (s == status::OK);
                    vsched::note("ret " + std::to_string(w) + " enter " + (in ? hx(reinterpret_cast<std::uintptr_t>(tok)) : std::string("FULL")));
                } else if (o.kind == "leave") {
                    if (in) {
                        vsched::note("call " + std::to_string(w) + " leave " + hx(reinterpret_cast<std::uintptr_t>(tok)));
                        leave(tok);
                        vsched::note("ret " + std::to_string(w) + " leave");
                    }
                    in = false;
                } else if (o.kind == "put" && in) {
                    std::string k = unhex(o.args[0]), v = unhex(o.args[1]);
                    put<char>(tok, st, k, v.data(), v.size());
                } else if (o.kind == "rem" && in) {
                    remove(tok, st, unhex(o.args[0]));
                } else if (o.kind == "get" && in) {
                    std::pair<char*, std::size_t> g{};
                    get<char>(st, unhex(o.args[0]), g);
                }
            }
            if (in) leave(tok);
            if (--live_workers == 0) {
                epoch_manager::set_epoch_thread_end();
                epoch_manager::set_gc_thread_end();
            }
        });
    }
    bodies.emplace_back([] { epoch_manager::epoch_thread(); });
    bodies.emplace_back([] { epoch_manager::gc_thread(); });
    vsched::run(bodies);
    vsched::uninstall();
    std::cout << "ROLES workers=" << nw << " epoch=" << nw << " gc=" << (nw + 1) << "\n";
    std::cout << "SCHEDULE";
    for (int t : S.trace) std::cout << " " << t;
    std::cout << "\nSTEPS " << S.steps << "\n";
    for (auto& nt : S.notes) std::cout << "H " << nt.first << " " << nt.second << "\n";
    for (auto& e : S.log) {
        std::cout << "E " << e.seq << " " << e.tid << " " << e.kind << " " << e.obj << " " << hx(e.addr) << " "
                  << hx(e.val) << " " << e.ok << "\n";
    }
    destroy();
    thread_info_table::fin();
    std::cout << "DONE\n";
    std::cout.flush();
    return 0;
}
