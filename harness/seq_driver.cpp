// seq_driver: executes an operation script (one op per line) on the real
// yakushima library, single-threaded, and prints one canonical result per op
// (dumps print several lines).  ocaml/seq_main.ml prints the same lines from
// the extracted Coq model.  Node/value identities are printed as #<serial>
// (allocation serial numbers); the orchestrator renumbers them by first
// appearance on both sides before comparing.
#include "alloc_track.h"

#include <cstdint>
#include <cstdio>
#include <cstring>
#include <iostream>
#include <map>
#include <sstream>
#include <string>
#include <vector>

#include "kvs.h"

using namespace yakushima;

static std::string unhex(const std::string& h) {
    std::string k;
    if (h == "-") return k;
    for (std::size_t i = 0; i + 1 < h.size(); i += 2)
        k.push_back(static_cast<char>(std::stoi(h.substr(i, 2), nullptr, 16)));
    return k;
}
static std::string tohex(const void* p, std::size_t n) {
    static const char* d = "0123456789abcdef";
    if (n == 0) return "-";
    std::string s;
    const auto* b = static_cast<const unsigned char*>(p);
    for (std::size_t i = 0; i < n; ++i) {
        s.push_back(d[b[i] >> 4]);
        s.push_back(d[b[i] & 15]);
    }
    return s;
}
static std::string tohex(const std::string& s) { return tohex(s.data(), s.size()); }
static std::string hx(std::uint64_t v) {
    char buf[32];
    std::snprintf(buf, sizeof buf, "%llx", static_cast<unsigned long long>(v));
    return buf;
}
static std::uint64_t rawv(node_version64_body b) {
    std::uint64_t r;
    std::memcpy(&r, &b, 8);
    return r;
}
static std::string idof(const void* p) {
    if (p == nullptr) return "-";
    const auto* r = vtrack::find(p);
    if (r == nullptr) return "#?" + hx(reinterpret_cast<std::uintptr_t>(p));
    return "#" + std::to_string(r->serial);
}
// a node_version64* points inside a node: recover the node (version_ is a member of base_node)
static std::string idof_nvp(node_version64* nvp, const std::map<node_version64*, base_node*>& m) {
    auto it = m.find(nvp);
    if (it == m.end()) return "#?nv";
    return idof(it->second);
}

static scan_endpoint ep(const std::string& s) {
    if (s == "EX") return scan_endpoint::EXCLUSIVE;
    if (s == "IN") return scan_endpoint::INCLUSIVE;
    return scan_endpoint::INF;
}

// key token: hex | "-" (empty) | "~N" (null data, size N)
static std::string_view keyview(const std::string& tok, std::string& store) {
    if (!tok.empty() && tok[0] == '~') {
        return std::string_view(static_cast<const char*>(nullptr),
                                static_cast<std::size_t>(std::stoul(tok.substr(1))));
    }
    store = unhex(tok);
    return std::string_view(store);
}

// ---- structure walk ---------------------------------------------------------
struct walker {
    std::ostringstream& out;
    std::map<node_version64*, base_node*>& nv2node;

    void value_desc(value* vp) {
        if (value::is_value_ptr(vp)) {
            auto [p, sz, al] = value::get_gc_info(vp);
            out << "V" << idof(p) << ":" << value::get_len(vp) << ":" << static_cast<std::size_t>(al)
                << ":" << tohex(value::get_body(vp), value::get_len(vp) > 16 ? 16 : value::get_len(vp));
        } else {
            out << "W" << hx(reinterpret_cast<std::uintptr_t>(vp));
        }
    }

    void walk(base_node* n, base_node* expect_parent) {
        nv2node[n->get_version_ptr()] = n;
        if (n->get_version_border()) {
            auto* b = dynamic_cast<border_node*>(n);
            permutation perm{b->get_permutation().get_body()};
            out << "B " << idof(b) << " ver=" << hx(rawv(b->get_version())) << " perm="
                << hx(perm.get_body()) << " parent=" << idof(b->get_parent())
                << " pok=" << (b->get_parent() == expect_parent) << " prev=" << idof(b->get_prev())
                << " next=" << idof(b->get_next()) << " n=" << static_cast<int>(perm.get_cnk()) << " [";
            std::vector<base_node*> subs;
            for (std::size_t r = 0; r < perm.get_cnk(); ++r) {
                std::size_t i = perm.get_index_of_rank(r);
                out << " " << i << ":" << hx(__builtin_bswap64(b->get_key_slice_at(i))) << ":"
                    << static_cast<int>(b->get_key_length_at(i)) << ":";
                link_or_value* lv = b->get_lv_at(i);
                if (base_node* nl = lv->get_next_layer(); nl != nullptr) {
                    out << "L" << idof(nl);
                    subs.push_back(nl);
                } else if (value* vp = lv->get_value(); vp != nullptr) {
                    value_desc(vp);
                } else {
                    out << "E";
                }
            }
            out << " ]\n";
            for (auto* s : subs) walk(s, b);
        } else {
            auto* it = dynamic_cast<interior_node*>(n);
            std::size_t nk = it->get_n_keys();
            out << "I " << idof(it) << " ver=" << hx(rawv(it->get_version())) << " parent="
                << idof(it->get_parent()) << " pok=" << (it->get_parent() == expect_parent)
                << " n=" << nk << " keys=[";
            for (std::size_t i = 0; i < nk; ++i)
                out << " " << hx(__builtin_bswap64(it->get_key_slice_at(i))) << ":"
                    << static_cast<int>(it->get_key_length_at(i));
            out << " ] ch=[";
            for (std::size_t i = 0; i <= nk; ++i) out << " " << idof(it->get_child_at(i));
            out << " ]\n";
            for (std::size_t i = 0; i <= nk; ++i) walk(it->get_child_at(i), it);
        }
    }
};

int main(int argc, char** argv) {
    if (argc < 2) return 2;
    FILE* f = std::fopen(argv[1], "r");
    if (!f) return 2;
    vtrack::enable();
    Token token{};
    bool have_token = false;
    long long base_live = 0, base_bytes = 0;
    std::map<std::pair<std::string, std::string>, std::size_t> want_align;
    std::map<node_version64*, base_node*> nv2node;
    static char line[1 << 20];
    while (std::fgets(line, sizeof line, f)) {
        std::istringstream in(line);
        std::string op;
        in >> op;
        if (op.empty() || op[0] == '#') continue;
        std::ostringstream out;
        auto tk = [&in]() {
            std::string t;
            in >> t;
            return t;
        };
        if (op == "init") {
            base_live = vtrack::g_live_count.load();
            base_bytes = vtrack::g_live_bytes.load();
            init();
            out << "init";
        } else if (op == "fin") {
            if (have_token) {
                leave(token);
                have_token = false;
            }
            fin();
            out << "fin live=" << (vtrack::g_live_count.load() - base_live)
                << " bytes=" << (vtrack::g_live_bytes.load() - base_bytes)
                << " dfree=" << vtrack::g_double_free.load() << " mism=" << vtrack::g_size_mismatch.load();
            nv2node.clear();
            want_align.clear();
        } else if (op == "enter") {
            status s = enter(token);
            have_token = (s == status::OK);
            out << "enter " << s;
        } else if (op == "leave") {
            status s = leave(token);
            have_token = false;
            out << "leave " << s;
        } else if (op == "destroy") {
            out << "destroy " << destroy();
            nv2node.clear();
        } else if (op == "create") {
            std::string s = unhex(tk());
            out << "create " << create_storage(s);
        } else if (op == "dropst") {
            std::string s = unhex(tk());
            out << "dropst " << delete_storage(s);
        } else if (op == "find") {
            std::string s = unhex(tk());
            tree_instance* ti{};
            out << "find " << find_storage(s, &ti);
        } else if (op == "list") {
            std::vector<std::pair<std::string, tree_instance*>> v;
            status s = list_storages(v);
            out << "list " << s << " [";
            for (auto& e : v) out << " " << tohex(e.first);
            out << " ]";
        } else if (op == "put") {
            std::string st = unhex(tk()), k = unhex(tk()), v = unhex(tk());
            std::size_t al = std::stoul(tk());
            bool uniq = tk() == "1", inl = tk() == "1";
            inserted_node_info info{nullptr, nullptr};
            status s;
            std::string cvp = "-";
            if (inl) {
                char* word = nullptr;
                std::memcpy(&word, v.data(), v.size() < 8 ? v.size() : 8);
                char** created = nullptr;
                s = put<char*>(token, st, k, &word, sizeof(char*), &created,
                               static_cast<value_align_type>(alignof(char*)), uniq, &info);
                if (s == status::OK) cvp = (reinterpret_cast<char*>(created) == word) ? "1" : "0";
            } else {
                char* created = nullptr;
                s = put<char>(token, st, k, v.data(), v.size(), &created,
                              static_cast<value_align_type>(al), uniq, &info);
                if (s == status::OK) {
                    bool ok = created != nullptr && std::memcmp(created, v.data(), v.size()) == 0 &&
                              reinterpret_cast<std::uintptr_t>(created) % (al ? al : 1) == 0;
                    // created_value_ptr designates the stored copy: a get must return the same address
                    std::pair<char*, std::size_t> g{};
                    if (get<char>(st, k, g) == status::OK) ok = ok && g.first == created;
                    cvp = ok ? "1" : "0";
                    want_align[{st, k}] = al;
                }
            }
            out << "put " << s;
            if (s == status::OK) {
                // walk to learn node addresses lazily: version pointers are inside nodes
                auto nid = [&](node_version64* p) -> std::string {
                    if (p == nullptr) return "-";
                    // version_ is at a fixed offset inside base_node: find the node by scanning back
                    // (nodes are 64-byte aligned allocations of 320 bytes)
                    auto a = reinterpret_cast<std::uintptr_t>(p);
                    for (std::uintptr_t base = a & ~std::uintptr_t{63}; base + 512 > a; base -= 64) {
                        if (const auto* r = vtrack::find(reinterpret_cast<void*>(base)); r != nullptr && r->live)
                            return "#" + std::to_string(r->serial);
                        if (base < 64) break;
                    }
                    return "#?nv";
                };
                out << " mod=" << nid(info.modified_nvp) << " cre=" << nid(info.created_nvp) << " cvp=" << cvp;
            }
        } else if (op == "get") {
            std::string st = unhex(tk()), k = unhex(tk());
            std::pair<char*, std::size_t> g{};
            std::pair<node_version64_body, node_version64*> cv{};
            status s = get<char>(st, k, g, &cv);
            out << "get " << s;
            if (s == status::OK) {
                const auto* r = g.first ? vtrack::find(nullptr) : nullptr;
                (void) r;
                // out-of-line values live inside a tracked block; inline words are small numbers
                bool is_ptr = reinterpret_cast<std::uintptr_t>(g.first) > 0x100000000ULL;
                if (is_ptr) {
                    std::size_t al = want_align.count({st, k}) ? want_align[{st, k}] : 1;
                    out << " v=" << tohex(g.first, g.second) << " len=" << g.second << " al="
                        << (reinterpret_cast<std::uintptr_t>(g.first) % (al ? al : 1) == 0);
                } else {
                    std::uintptr_t w = reinterpret_cast<std::uintptr_t>(g.first);
                    out << " w=" << hx(w) << " len=" << g.second;
                }
            } else if (cv.second != nullptr) {
                auto a = reinterpret_cast<std::uintptr_t>(cv.second);
                std::string id = "#?nv";
                for (std::uintptr_t base = a & ~std::uintptr_t{63}; base + 512 > a; base -= 64) {
                    if (const auto* r = vtrack::find(reinterpret_cast<void*>(base)); r != nullptr && r->live) {
                        id = "#" + std::to_string(r->serial);
                        break;
                    }
                }
                out << " nv=" << id << ":" << hx(rawv(cv.first));
            }
        } else if (op == "rem") {
            std::string st = unhex(tk()), k = unhex(tk());
            out << "rem " << remove(token, st, k);
        } else if (op == "scan") {
            std::string st = unhex(tk());
            std::string ls, rs;
            std::string lt = tk();
            scan_endpoint le = ep(tk());
            std::string rt = tk();
            scan_endpoint re = ep(tk());
            std::size_t mx = std::stoul(tk());
            bool rtl = tk() == "1";
            std::string_view lk = keyview(lt, ls), rk = keyview(rt, rs);
            std::vector<std::tuple<std::string, char*, std::size_t>> tl;
            std::vector<std::pair<node_version64_body, node_version64*>> nv;
            status s = scan<char>(st, lk, le, rk, re, tl, &nv, mx, rtl);
            out << "scan " << s << " n=" << tl.size() << " t=[";
            for (auto& e : tl) {
                char* p = std::get<1>(e);
                bool is_ptr = reinterpret_cast<std::uintptr_t>(p) > 0x100000000ULL;
                out << " " << tohex(std::get<0>(e)) << ":";
                if (is_ptr) out << tohex(p, std::get<2>(e));
                else out << "w" << hx(reinterpret_cast<std::uintptr_t>(p));
                out << ":" << std::get<2>(e);
            }
            out << " ] nv=[";
            for (auto& e : nv) {
                auto a = reinterpret_cast<std::uintptr_t>(e.second);
                std::string id = "#?nv";
                for (std::uintptr_t base = a & ~std::uintptr_t{63}; base + 512 > a; base -= 64) {
                    if (const auto* r = vtrack::find(reinterpret_cast<void*>(base)); r != nullptr && r->live) {
                        id = "#" + std::to_string(r->serial);
                        break;
                    }
                }
                out << " " << id << ":" << hx(rawv(e.first));
            }
            out << " ]";
        } else if (op == "dump") {
            std::string st = unhex(tk());
            tree_instance* ti{};
            if (find_storage(st, &ti) != status::OK) {
                out << "dump none";
            } else {
                base_node* root = ti->load_root_ptr();
                out << "dump\n";
                if (root != nullptr) {
                    walker w{out, nv2node};
                    w.walk(root, nullptr);
                }
                out << "enddump";
            }
        } else if (op == "mem") {
            std::string st = unhex(tk());
            auto ms = mem_usage(st);
            out << "mem [";
            for (auto& [n, u, r] : ms) out << " " << n << ":" << u << ":" << r;
            out << " ]";
        } else {
            out << "?";
        }
        std::cout << out.str() << "\n";
    }
    std::fclose(f);
    std::cout.flush();
    return 0;
}
