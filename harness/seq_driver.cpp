// seq_driver: executes an operation script (one op per line) on the real
// yakushima library, single-threaded, and prints one canonical result per op
// (dumps print several lines).  ocaml/seq_main.ml prints the same lines from
// the extracted Coq model.  Node/value identities are printed as #<serial>
// (allocation serial numbers); the orchestrator renumbers them by first
// appearance on both sides before comparing.
#include "drv_common.h"
#include <chrono>
#include <functional>
#include <thread>

// C19 (publication): whenever a permutation word of a border node is stored, every slot it lists must already hold
// its entry (the link_or_value word is not the cleared marker): a reader that sees the new ordering finds the entries
static std::uint64_t g_early_pub = 0;
#ifdef YAKUSHIMA_VERIF
static void pub_post(int kind, int obj, const volatile void* addr, std::uint64_t val, int) {
    if (kind != yakushima::verif::k_store || obj != yakushima::verif::o_perm) return;
    static const std::ptrdiff_t off_perm = [] {
        border_node d;
        return reinterpret_cast<char*>(&d.get_permutation()) - reinterpret_cast<char*>(&d);
    }();
    static const std::ptrdiff_t off_lv = [] {
        border_node d;
        return reinterpret_cast<char*>(d.get_lv_at(0)) - reinterpret_cast<char*>(&d);
    }();
    char* base = reinterpret_cast<char*>(const_cast<void*>(addr)) - off_perm;
    const auto* r = vtrack::find(base);
    if (r == nullptr || !r->live || r->size != sizeof(border_node)) return;      // a local copy of a word, not a node's
    permutation pm{val};
    std::size_t n = pm.get_cnk();
    if (n > 15) return;
    for (std::size_t i = 0; i < n; ++i) {
        std::size_t sl = pm.get_index_of_rank(i);
        if (sl >= 15) continue;
        auto* lv = reinterpret_cast<link_or_value*>(base + off_lv + static_cast<std::ptrdiff_t>(sl * sizeof(link_or_value)));
        if (lv->is_cleared()) ++g_early_pub;
    }
}
static yakushima::verif::hooks g_pub_hooks{nullptr, pub_post, nullptr};
#endif

int main(int argc, char** argv) {
    if (argc < 2) return 2;
    FILE* f = std::fopen(argv[1], "r");
    if (!f) return 2;
    vtrack::enable();
#ifdef YAKUSHIMA_VERIF
    yakushima::verif::get() = &g_pub_hooks;
#endif
    Token token{};
    bool have_token = false;
    std::vector<std::pair<const char*, std::string>> held;   // (address, bytes) of values handed out in this session
    std::vector<std::string> held_st;                        // ... and the storage each came from
    long long base_live = 0, base_bytes = 0;
    std::map<std::pair<std::string, std::string>, std::size_t> want_align;
    std::map<node_version64*, base_node*> nv2node;
    static char line[1 << 20];
    while (std::fgets(line, sizeof line, f)) {
        std::istringstream in(line);
        std::string op;
        in >> op;
        if (op.empty() || op[0] == '#') continue;
        std::ostringstream out;
        const std::uint64_t aa0 = vtrack::g_aligned_allocs.load(), af0 = vtrack::g_aligned_frees.load();
        auto tk = [&in]() {
            std::string t;
            in >> t;
            return t;
        };
        if (op == "init") {
            base_live = vtrack::g_live_count.load();
            base_bytes = vtrack::g_live_bytes.load();
            init();
            out << "init";
        } else if (op == "fin") {
            if (have_token) {
                leave(token);
                have_token = false;
            }
            decltype(held)().swap(held);
            decltype(held_st)().swap(held_st);
            fin();
            nv2node.clear();
            want_align.clear();
            out << "fin live=" << (vtrack::g_live_count.load() - base_live)
                << " bytes=" << (vtrack::g_live_bytes.load() - base_bytes)
                << " dfree=" << vtrack::g_double_free.load() << " mism=" << vtrack::g_size_mismatch.load();
            nv2node.clear();
            want_align.clear();
        } else if (op == "enter") {
            status s = enter(token);
            have_token = (s == status::OK);
            decltype(held)().swap(held);
            decltype(held_st)().swap(held_st);
            out << "enter " << s;
        } else if (op == "sleep") {
            std::this_thread::sleep_for(std::chrono::milliseconds(std::stoul(tk())));
            out << "sleep";
        } else if (op == "leave") {
            // what a get handed out inside this session must still be there, unchanged, until leave (C07 / C15)
            std::size_t changed = 0;
            for (auto& h : held)
                if (std::memcmp(h.first, h.second.data(), h.second.size()) != 0) ++changed;
            decltype(held)().swap(held);       // the driver's own copies must not count as library memory
            decltype(held_st)().swap(held_st);
            status s = leave(token);
            have_token = false;
            out << "leave " << s;
            if (changed != 0) out << " UNSTABLE=" << changed;
        } else if (op == "destroy") {
            out << "destroy " << destroy();
            nv2node.clear();
            // destroy() and delete_storage() release their trees at once (not through the epoch scheme)
            decltype(held)().swap(held);
            decltype(held_st)().swap(held_st);
        } else if (op == "create") {
            std::string s = unhex(tk());
            out << "create " << create_storage(s);
        } else if (op == "dropst") {
            std::string s = unhex(tk());
            out << "dropst " << delete_storage(s);
            for (std::size_t i = held.size(); i-- > 0;)
                if (held_st[i] == s) {
                    held.erase(held.begin() + static_cast<std::ptrdiff_t>(i));
                    held_st.erase(held_st.begin() + static_cast<std::ptrdiff_t>(i));
                }
        } else if (op == "find") {
            std::string s = unhex(tk());
            tree_instance* ti{};
            out << "find " << find_storage(s, &ti);
        } else if (op == "list") {
            std::vector<std::pair<std::string, tree_instance*>> v;
            status s = list_storages(v);
            out << "list " << s << " [";
            for (auto& e : v) out << " " << tohex(e.first);
            out << " ]";
        } else if (op == "put") {
            std::string st = unhex(tk()), k = unhex(tk()), v = unhex(tk());
            std::size_t al = std::stoul(tk());
            bool uniq = tk() == "1", inl = tk() == "1";
            inserted_node_info info{nullptr, nullptr};
            status s;
            std::string cvp = "-";
            if (inl) {
                char* word = nullptr;
                std::memcpy(&word, v.data(), v.size() < 8 ? v.size() : 8);
                char** created = nullptr;
                s = put<char*>(token, st, k, &word, sizeof(char*), &created,
                               static_cast<value_align_type>(alignof(char*)), uniq, &info);
                if (s == status::OK) cvp = (reinterpret_cast<char*>(created) == word) ? "1" : "0";
            } else {
                char* created = nullptr;
                s = put<char>(token, st, k, v.data(), v.size(), &created,
                              static_cast<value_align_type>(al), uniq, &info);
                if (s == status::OK) {
                    bool ok = created != nullptr && std::memcmp(created, v.data(), v.size()) == 0 &&
                              reinterpret_cast<std::uintptr_t>(created) % (al ? al : 1) == 0;
                    // created_value_ptr designates the stored copy: a get must return the same address
                    std::pair<char*, std::size_t> g{};
                    if (get<char>(st, k, g) == status::OK) ok = ok && g.first == created;
                    cvp = ok ? "1" : "0";
                    want_align[{st, k}] = al;
                }
            }
            out << "put " << s;
            if (s == status::OK) {
                // walk to learn node addresses lazily: version pointers are inside nodes
                auto nid = [&](node_version64* p) -> std::string {
                    if (p == nullptr) return "-";
                    // version_ is at a fixed offset inside base_node: find the node by scanning back
                    // (nodes are 64-byte aligned allocations of 320 bytes)
                    auto a = reinterpret_cast<std::uintptr_t>(p);
                    for (std::uintptr_t base = a & ~std::uintptr_t{63}; base + 512 > a; base -= 64) {
                        if (const auto* r = vtrack::find(reinterpret_cast<void*>(base)); r != nullptr && r->live)
                            return "#" + std::to_string(r->serial);
                        if (base < 64) break;
                    }
                    return "#?nv";
                };
                out << " mod=" << nid(info.modified_nvp) << " cre=" << nid(info.created_nvp) << " cvp=" << cvp;
            }
        } else if (op == "get") {
            std::string st = unhex(tk()), k = unhex(tk());
            std::pair<char*, std::size_t> g{};
            std::pair<node_version64_body, node_version64*> cv{};
            status s = get<char>(st, k, g, &cv);
            out << "get " << s;
            if (s == status::OK) {
                const auto* r = g.first ? vtrack::find(nullptr) : nullptr;
                (void) r;
                // out-of-line values live inside a tracked block; inline words are small numbers
                bool is_ptr = reinterpret_cast<std::uintptr_t>(g.first) > 0x100000000ULL;
                if (is_ptr) {
                    if (have_token && g.second != 0) {
                        held.emplace_back(g.first, std::string(g.first, g.second));
                        held_st.push_back(st);
                    }
                    std::size_t al = want_align.count({st, k}) ? want_align[{st, k}] : 1;
                    out << " v=" << tohex(g.first, g.second) << " len=" << g.second << " al="
                        << (reinterpret_cast<std::uintptr_t>(g.first) % (al ? al : 1) == 0);
                } else {
                    std::uintptr_t w = reinterpret_cast<std::uintptr_t>(g.first);
                    out << " w=" << hx(w) << " len=" << g.second;
                }
            } else if (cv.second != nullptr) {
                auto a = reinterpret_cast<std::uintptr_t>(cv.second);
                std::string id = "#?nv";
                for (std::uintptr_t base = a & ~std::uintptr_t{63}; base + 512 > a; base -= 64) {
                    if (const auto* r = vtrack::find(reinterpret_cast<void*>(base)); r != nullptr && r->live) {
                        id = "#" + std::to_string(r->serial);
                        break;
                    }
                }
                out << " nv=" << id << ":" << hx(rawv(cv.first));
            }
        } else if (op == "rem") {
            std::string st = unhex(tk()), k = unhex(tk());
            out << "rem " << remove(token, st, k);
        } else if (op == "scan") {
            std::string st = unhex(tk());
            std::string ls, rs;
            std::string lt = tk();
            scan_endpoint le = ep(tk());
            std::string rt = tk();
            scan_endpoint re = ep(tk());
            std::size_t mx = std::stoul(tk());
            bool rtl = tk() == "1";
            std::string_view lk = keyview(lt, ls), rk = keyview(rt, rs);
            std::vector<std::tuple<std::string, char*, std::size_t>> tl;
            std::vector<std::pair<node_version64_body, node_version64*>> nv;
            status s = scan<char>(st, lk, le, rk, re, tl, &nv, mx, rtl);
            out << "scan " << s << " n=" << tl.size() << " t=[";
            for (auto& e : tl) {
                char* p = std::get<1>(e);
                bool is_ptr = reinterpret_cast<std::uintptr_t>(p) > 0x100000000ULL;
                out << " " << tohex(std::get<0>(e)) << ":";
                if (is_ptr) out << tohex(p, std::get<2>(e));
                else out << "w" << hx(reinterpret_cast<std::uintptr_t>(p));
                out << ":" << std::get<2>(e);
            }
            out << " ] nv=[";
            for (auto& e : nv) {
                auto a = reinterpret_cast<std::uintptr_t>(e.second);
                std::string id = "#?nv";
                for (std::uintptr_t base = a & ~std::uintptr_t{63}; base + 512 > a; base -= 64) {
                    if (const auto* r = vtrack::find(reinterpret_cast<void*>(base)); r != nullptr && r->live) {
                        id = "#" + std::to_string(r->serial);
                        break;
                    }
                }
                out << " " << id << ":" << hx(rawv(e.first));
            }
            out << " ]";
        } else if (op == "iphantom") {
            // iphantom S L le R re rtl K V : a cursor driven to its end collecting the (node, version) callbacks, then insert K
            // (absent, inside the interval) and test whether some collected pair went stale (C10: the cursor's node set
            // gives the guarantee of C06)
            std::string st = unhex(tk());
            std::string ls, rs;
            std::string lt = tk();
            scan_endpoint le = ep(tk());
            std::string rt = tk();
            scan_endpoint re = ep(tk());
            bool rtl = tk() == "1";
            std::string k = unhex(tk()), v = unhex(tk());
            std::string_view lk = keyview(lt, ls), rk = keyview(rt, rs);
            std::vector<std::pair<node_version64*, node_version64_body>> cbs;
            auto cb = [&cbs](node_version64* p, node_version64_body b) {
                cbs.emplace_back(p, b);
                return false;
            };
            iscan_context* ctx = nullptr;
            void* val = nullptr;
            status rc = iscan_open(st, lk, le, rk, re, rtl, false, ctx, val, cb);
            status first = rc;
            std::size_t nres = 0;
            while (rc == status::OK && nres < 100000) {
                ++nres;
                rc = iscan_next(ctx, val, cb);
            }
            if (ctx != nullptr) iscan_close(ctx);
            status s = (first == status::OK || first == status::OK_SCAN_END) ? status::OK : first;
            std::pair<char*, std::size_t> g{};
            bool absent = get<char>(st, k, g) == status::WARN_NOT_EXIST;
            std::string lks = (le == scan_endpoint::INF) ? std::string() : std::string(lk);
            bool inl = le == scan_endpoint::INF || k > lks || (k == lks && le == scan_endpoint::INCLUSIVE);
            bool inr = re == scan_endpoint::INF || k < std::string(rk) || (k == std::string(rk) && re == scan_endpoint::INCLUSIVE);
            bool cov = s == status::OK && absent && inl && inr;
            status ps = status::OK;
            if (cov) ps = put<char>(token, st, k, v.data(), v.size());
            if (cov && ps == status::OK) want_align[{st, k}] = 1;
            bool det = false;
            for (auto& e : cbs)
                if (e.first->get_stable_version() != e.second) det = true;
            out << op << " " << s << " n=" << nres << " cov=" << cov << " det=" << (cov ? det : false)
                << " nvn=" << cbs.size() << " put=" << ps;
        } else if (op == "phantom" || op == "getmiss") {
            // phantom S L le R re max rtl K V : scan collecting node versions, then insert K (absent, inside
            // the covered interval) and test whether some collected (version,node) pair went stale.
            // getmiss S K V : get K (miss) with checked_version, insert K, test staleness.
            std::string st = unhex(tk());
            std::vector<std::pair<node_version64_body, node_version64*>> nv;
            bool cov = false;
            std::string k, v;
            std::size_t nres = 0;
            status s = status::OK;
            if (op == "phantom") {
                std::string ls, rs;
                std::string lt = tk();
                scan_endpoint le = ep(tk());
                std::string rt = tk();
                scan_endpoint re = ep(tk());
                std::size_t mx = std::stoul(tk());
                bool rtl = tk() == "1";
                k = unhex(tk());
                v = unhex(tk());
                std::string_view lk = keyview(lt, ls), rk = keyview(rt, rs);
                std::vector<std::tuple<std::string, char*, std::size_t>> tl;
                s = scan<char>(st, lk, le, rk, re, tl, &nv, mx, rtl);
                nres = tl.size();
                std::pair<char*, std::size_t> g{};
                bool absent = get<char>(st, k, g) == status::WARN_NOT_EXIST;
                std::string lks = (le == scan_endpoint::INF) ? std::string() : std::string(lk);
                bool inl = le == scan_endpoint::INF || k > lks || (k == lks && le == scan_endpoint::INCLUSIVE);
                bool inr = re == scan_endpoint::INF || k < std::string(rk) || (k == std::string(rk) && re == scan_endpoint::INCLUSIVE);
                cov = s == status::OK && absent && inl && inr;
                if (cov && mx != 0 && nres >= mx) {
                    // limited read: covered up to the last entry produced
                    if (!rtl) cov = k < std::get<0>(tl.back());
                    else cov = k > std::get<0>(tl.back());
                }
                if (rtl && nres == 0) cov = cov && true;
            } else {
                k = unhex(tk());
                v = unhex(tk());
                std::pair<char*, std::size_t> g{};
                std::pair<node_version64_body, node_version64*> cv{};
                s = get<char>(st, k, g, &cv);
                cov = s == status::WARN_NOT_EXIST;
                if (cv.second != nullptr) nv.emplace_back(cv);
            }
            status ps = status::OK;
            if (cov) ps = put<char>(token, st, k, v.data(), v.size());
            if (cov && ps == status::OK) want_align[{st, k}] = 1;      // default alignment of put<char>
            bool det = false;
            for (auto& e : nv)
                if (e.second->get_stable_version() != e.first) det = true;
            out << op << " " << s << " n=" << nres << " cov=" << cov << " det=" << (cov ? det : false)
                << " nvn=" << nv.size() << " put=" << ps;
        } else if (op == "putinfo") {
            // putinfo S K V : the property of C12 evaluated on the implementation alone: snapshot every border's
            // version, put with inserted_node_info, snapshot again, compare the set of changed borders with the report
            std::string st = unhex(tk()), k = unhex(tk()), v = unhex(tk());
            tree_instance* ti{};
            std::map<base_node*, std::uint64_t> before, after;
            std::map<base_node*, bool> isborder;
            std::function<void(base_node*, std::map<base_node*, std::uint64_t>&)> snap =
                    [&](base_node* n, std::map<base_node*, std::uint64_t>& m) {
                        if (n == nullptr) return;
                        m[n] = rawv(n->get_version());
                        if (n->get_version_border()) {
                            isborder[n] = true;
                            auto* b = dynamic_cast<border_node*>(n);
                            permutation perm{b->get_permutation().get_body()};
                            for (std::size_t r = 0; r < perm.get_cnk(); ++r) {
                                base_node* nl = b->get_lv_at(perm.get_index_of_rank(r))->get_next_layer();
                                if (nl != nullptr) snap(nl, m);
                            }
                        } else {
                            isborder[n] = false;
                            auto* it = dynamic_cast<interior_node*>(n);
                            for (std::size_t i = 0; i <= it->get_n_keys(); ++i) snap(it->get_child_at(i), m);
                        }
                    };
            bool found = find_storage(st, &ti) == status::OK;
            if (found) snap(ti->load_root_ptr(), before);
            inserted_node_info info{nullptr, nullptr};
            std::pair<char*, std::size_t> g{};
            bool existed = found && get<char>(st, k, g) == status::OK;
            status s = put<char>(token, st, k, v.data(), v.size(), static_cast<char**>(nullptr),
                                 static_cast<value_align_type>(1), false, &info);
            if (found) snap(ti->load_root_ptr(), after);
            if (s == status::OK) want_align[{st, k}] = 1;
            auto node_of = [&](node_version64* p) -> base_node* {
                for (auto& kv : after)
                    if (kv.first->get_version_ptr() == p) return kv.first;
                return nullptr;
            };
            std::size_t changed = 0;
            bool ok = true;
            base_node* modn = node_of(info.modified_nvp);
            base_node* cren = node_of(info.created_nvp);
            for (auto& kv : before) {
                if (!isborder[kv.first]) continue;
                auto it = after.find(kv.first);
                if (it == after.end()) continue;
                if (it->second != kv.second) {
                    ++changed;
                    if (kv.first != modn) ok = false; // a border changed that was not reported
                }
            }
            // split sibling: a new border with a left neighbour
            base_node* split_new = nullptr;
            for (auto& kv : after)
                if (before.find(kv.first) == before.end() && isborder[kv.first] &&
                    dynamic_cast<border_node*>(kv.first)->get_prev() != nullptr)
                    split_new = kv.first;
            if (existed) {
                if (changed != 0) ok = false;      // an overwrite changes no node version
            } else if (s == status::OK) {
                if (modn == nullptr) ok = false;
                if (modn != nullptr && before.count(modn) && before[modn] == after[modn]) ok = false; // reported but unchanged
                if (split_new != cren) ok = false;
            }
            out << "putinfo " << s << " existed=" << existed << " changed=" << changed << " split=" << (split_new != nullptr)
                << " ok=" << ok;
        } else if (op == "iscan") {
            // iscan S L le R re rtl : open, next until the end, close; keys through full_key(), callbacks recorded
            std::string st = unhex(tk());
            std::string ls, rs;
            std::string lt = tk();
            scan_endpoint le = ep(tk());
            std::string rt = tk();
            scan_endpoint re = ep(tk());
            bool rtl = tk() == "1";
            std::string_view lk = keyview(lt, ls), rk = keyview(rt, rs);
            std::vector<std::pair<node_version64*, node_version64_body>> cbs;
            auto cb = [&cbs](node_version64* p, node_version64_body b) {
                cbs.emplace_back(p, b);
                return false;
            };
            iscan_context* ctx = nullptr;
            void* val = nullptr;
            status rc = iscan_open(st, lk, le, rk, re, rtl, false, ctx, val, cb);
            status first = rc;
            std::ostringstream body;
            std::size_t n = 0;
            while (rc == status::OK && n < 100000) {
                std::string fk = ctx->full_key();
                std::pair<char*, std::size_t> g{};
                status gs = get<char>(st, fk, g);
                body << " " << tohex(fk) << ":";
                if (gs != status::OK) body << "NOGET";
                else if (static_cast<void*>(g.first) != val) body << "PTRDIFF";
                else if (reinterpret_cast<std::uintptr_t>(g.first) > 0x100000000ULL) body << tohex(g.first, g.second);
                else body << "w" << hx(reinterpret_cast<std::uintptr_t>(g.first));
                ++n;
                rc = iscan_next(ctx, val, cb);
            }
            if (ctx != nullptr) iscan_close(ctx);
            status shown = (first == status::OK || first == status::OK_SCAN_END) ? status::OK : first;
            out << "iscan " << shown << " n=" << n << " t=[" << body.str() << " ] end=" << rc << " cb=[";
            for (auto& e : cbs) {
                auto a = reinterpret_cast<std::uintptr_t>(e.first);
                std::string id = "#?nv";
                for (std::uintptr_t base = a & ~std::uintptr_t{63}; base + 512 > a; base -= 64) {
                    if (const auto* r = vtrack::find(reinterpret_cast<void*>(base)); r != nullptr && r->live) {
                        id = "#" + std::to_string(r->serial);
                        break;
                    }
                }
                out << " " << id << ":" << hx(rawv(e.second));
            }
            out << " ]";
        } else if (op == "iopen" || op == "inext" || op == "iclose") {
            // a cursor kept across operations (the script may modify the tree between its steps)
            static iscan_context* cur = nullptr;
            static void* cval = nullptr;
            static std::string cstore;
            static bool cearly = false;
            static status clast = status::OK_SCAN_END;
            static border_node* watch_bn = nullptr;       // the border under the cursor after the last step
            static node_version64_body watch_v{};
            static std::uint64_t watch_perm = 0;
            auto dummy = [](node_version64*, node_version64_body) { return false; };
            auto snapshot = [&]() {
                watch_bn = nullptr;
                if (cur != nullptr && clast == status::OK && !cur->stack_empty()) {
                    watch_bn = cur->stack_top().bn;
                    watch_v = watch_bn->get_version();
                    watch_perm = watch_bn->get_permutation().get_body();
                }
            };
            auto show = [&](status rc) {
                out << op << " " << rc;
                if (rc == status::OK) {
                    std::string fk = cur->full_key();
                    out << " k=" << tohex(fk);
                    std::pair<char*, std::size_t> g{};
                    status gs = get<char>(cstore, fk, g);
                    out << " v=" << ((gs == status::OK && static_cast<void*>(g.first) == cval) ? "cur" : "old");
                }
            };
            if (op == "iopen") {
                if (cur != nullptr) iscan_close(cur);
                cstore = unhex(tk());
                std::string ls, rs;
                std::string lt = tk();
                scan_endpoint le = ep(tk());
                std::string rt = tk();
                scan_endpoint re = ep(tk());
                bool rtl = tk() == "1";
                cearly = tk() == "1";
                static std::string lks, rks;
                lks = unhex(lt);
                rks = unhex(rt);
                clast = iscan_open(cstore, lks, le, rks, re, rtl, cearly, cur, cval, dummy);
                show(clast);
                snapshot();
            } else if (op == "inext") {
                if (cur == nullptr || clast != status::OK) {
                    out << "inext CLOSED";
                } else {
                    bool changed = watch_bn != nullptr && (watch_bn->get_version() != watch_v ||
                                                           watch_bn->get_permutation().get_body() != watch_perm);
                    clast = iscan_next(cur, cval, dummy);
                    show(clast);
                    out << " exp_abort=" << (cearly && changed);
                    snapshot();
                }
            } else {
                if (cur != nullptr) iscan_close(cur);
                cur = nullptr;
                out << "iclose OK";
            }
        } else if (op == "dump") {
            std::string st = unhex(tk());
            tree_instance* ti{};
            if (find_storage(st, &ti) != status::OK) {
                out << "dump none";
            } else {
                base_node* root = ti->load_root_ptr();
                out << "dump\n";
                if (root != nullptr) {
                    walker w{out, nv2node};
                    w.walk(root, nullptr);
                }
                out << "enddump";
            }
        } else if (op == "mem") {
            std::string st = unhex(tk());
            auto ms = mem_usage(st);
            out << "mem [";
            for (auto& [n, u, r] : ms) out << " " << n << ":" << u << ":" << r;
            out << " ]";
        } else {
            out << "?";
        }
        if (op == "put" || op == "rem" || op == "create" || op == "dropst" || op == "destroy" || op == "putinfo") {
            out << " aa=" << (vtrack::g_aligned_allocs.load() - aa0) << " af=" << (vtrack::g_aligned_frees.load() - af0);
        }
        if (g_early_pub != 0) {
            out << " EARLYPUB=" << g_early_pub;
            g_early_pub = 0;
        }
        std::cout << out.str() << "\n";
    }
    std::fclose(f);
    std::cout.flush();
    return 0;
}
