// sched.h: deterministic scheduler for real threads running the hooked library.
// Exactly one registered thread runs at a time; every hooked shared-memory
// access (YAKUSHIMA_VERIF_PRE) is a scheduling point.  A thread that reports
// kind=spin is waiting for another thread's write and is not scheduled again
// until some write happened.  Schedules are replayable (list of thread ids).
#pragma once
#include <atomic>
#include <condition_variable>
#include <cstdint>
#include <cstdio>
#include <cstdlib>
#include <functional>
#include <mutex>
#include <random>
#include <string>
#include <thread>
#include <unistd.h>
#include <vector>

#include "verif_hook.h"

namespace vsched {

struct event {
    int tid;
    int kind;
    int obj;
    std::uintptr_t addr;
    std::uint64_t val;
    int ok;
    std::uint64_t step;
    std::uint64_t seq;
};

enum tstate { T_NEW, T_READY, T_RUNNING, T_BLOCKED, T_DONE };

struct sched {
    std::mutex m;
    std::condition_variable cv;
    int n = 0;
    int current = -1;
    std::vector<tstate> st;
    std::vector<std::uint64_t> blocked_seq;
    std::vector<char> accessed;          // per thread: did it access memory since its last spin hook?
    std::uint64_t write_seq = 0;
    std::uint64_t steps = 0;
    std::uint64_t max_steps = 2000000;
    bool active = false;
    // policy
    int mode = 0; // 0 random (sticky), 1 pct, 2 replay
    std::mt19937_64 rng{1};
    double stick = 0.7;
    std::vector<int> prio;               // pct
    std::vector<std::uint64_t> change_pts;
    std::vector<int> replay;             // thread id per step
    std::vector<std::pair<std::uint64_t, int>> preempts; // mode 3: at step s switch to thread t
    int first_thread = 0;
    std::vector<std::pair<int, int>> script;   // mode 4: (thread, number of times to schedule it) segments
    std::size_t script_pos = 0;
    std::size_t replay_pos = 0;
    std::vector<int> trace;              // chosen thread per step (for replays)
    // log
    std::mutex logm;
    std::vector<event> log;
    bool log_on = true;
    bool log_pre = false;   // also log every access at the moment it is performed
    // user log lines (history), with the step at which they were emitted
    std::vector<std::pair<std::uint64_t, std::string>> notes;   // (seq, text)
    std::uint64_t seq = 0;
    int deadlock = 0;
    int sleeper = -1;     // thread that just called sleepMs: it gives way to the others
    int last_chosen = -1;
    std::uint64_t run_len = 0;          // consecutive steps of last_chosen
    std::uint64_t fair_quantum = 3000;  // fairness: a thread that ran this long yields to the others
    int rr = 0;

    static sched& get() {
        static sched s;
        return s;
    }
};

inline thread_local int my_tid = -1;

inline void note(const std::string& s) {
    sched& S = sched::get();
    std::lock_guard<std::mutex> lk(S.logm);
    S.notes.emplace_back(S.seq++, s);
}

// choose the next thread to run; caller holds S.m
inline int pick(sched& S, int me) {
    std::vector<int> cand;
    for (int t = 0; t < S.n; ++t) {
        if (S.st[t] == T_READY) cand.push_back(t);
        else if (S.st[t] == T_BLOCKED && S.blocked_seq[t] != S.write_seq) cand.push_back(t);
    }
    if (cand.empty()) return -1;
    int chosen = -1;
    if (S.mode == 2) {
        if (S.replay_pos < S.replay.size()) {
            int want = S.replay[S.replay_pos++];
            for (int c : cand)
                if (c == want) chosen = c;
        }
        if (chosen < 0) chosen = cand[0];
    } else if (S.mode == 4) {
        while (chosen < 0 && S.script_pos < S.script.size()) {
            auto& seg = S.script[S.script_pos];
            bool ok = false;
            for (int c : cand)
                if (c == seg.first) ok = true;
            if (seg.second > 0 && ok) {
                chosen = seg.first;
                --seg.second;
            } else {
                ++S.script_pos;
            }
        }
        if (chosen < 0 && me != S.sleeper)
            for (int c : cand)
                if (c == me) chosen = c;
        if (chosen < 0) {
            // round robin among the others (a sleeping thread goes last)
            for (std::size_t q = 0; q < cand.size() && chosen < 0; ++q) {
                int c = cand[(S.rr + q) % cand.size()];
                if (c != S.sleeper || cand.size() == 1) chosen = c;
            }
            ++S.rr;
        }
        if (chosen < 0) chosen = cand[0];
    } else if (S.mode == 3) {
        // non-preemptive except at the listed steps
        for (auto& pe : S.preempts)
            if (pe.first == S.steps)
                for (int c : cand)
                    if (c == pe.second) chosen = c;
        if (chosen < 0 && me < 0 && S.trace.empty())
            for (int c : cand)
                if (c == S.first_thread) chosen = c;
        if (chosen < 0 && me != S.sleeper)
            for (int c : cand)
                if (c == me) chosen = c;
        if (chosen < 0) {
            for (std::size_t q = 0; q < cand.size() && chosen < 0; ++q) {
                int c = cand[(S.rr + q) % cand.size()];
                if (c != S.sleeper || cand.size() == 1) chosen = c;
            }
            ++S.rr;
        }
        if (chosen < 0) chosen = cand[0];
    } else if (S.mode == 1) {
        for (std::uint64_t cp : S.change_pts)
            if (cp == S.steps && me >= 0) S.prio[me] = -static_cast<int>(S.steps) - 1;
        int best = cand[0];
        for (int c : cand)
            if (S.prio[c] > S.prio[best]) best = c;
        chosen = best;
    } else {
        bool me_ok = false;
        for (int c : cand)
            if (c == me) me_ok = true;
        std::uniform_real_distribution<double> U(0, 1);
        if (me_ok && me != S.sleeper && U(S.rng) < S.stick) chosen = me;
        else chosen = cand[S.rng() % cand.size()];
    }
    // fairness: retry loops without a spin point (e.g. readers restarting from the root while a structure
    // modification is parked) must not starve the thread they are waiting for
    if (chosen == S.last_chosen) {
        if (++S.run_len > S.fair_quantum && cand.size() > 1 && S.mode != 2) {
            for (std::size_t q = 0; q < cand.size(); ++q) {
                int c = cand[(S.rr + q) % cand.size()];
                if (c != chosen) {
                    chosen = c;
                    break;
                }
            }
            ++S.rr;
            S.run_len = 0;
        }
    } else {
        S.run_len = 0;
    }
    S.last_chosen = chosen;
    S.trace.push_back(chosen);
    return chosen;
}

inline void fail_exit(sched& S, int code, const char* why) {
    std::fprintf(stdout, "SCHED-ABORT %s steps=%llu\n", why, static_cast<unsigned long long>(S.steps));
    std::fprintf(stdout, "SCHEDULE");
    for (int t : S.trace) std::fprintf(stdout, " %d", t);
    std::fprintf(stdout, "\n");
    {
        std::lock_guard<std::mutex> lk(S.logm);
        for (auto& nt : S.notes) std::fprintf(stdout, "H %llu %s\n", static_cast<unsigned long long>(nt.first), nt.second.c_str());
        if (S.log_pre)
            for (auto& e : S.log)
                std::fprintf(stdout, "E %llu %d %d %d %llx %llx %d %llu\n", static_cast<unsigned long long>(e.seq), e.tid, e.kind,
                             e.obj, static_cast<unsigned long long>(e.addr), static_cast<unsigned long long>(e.val), e.ok,
                             static_cast<unsigned long long>(e.step));
    }
    std::fflush(stdout);
    _exit(code);
}

// hand the baton on and wait for it to come back; caller holds lk
inline void yield_locked(sched& S, std::unique_lock<std::mutex>& lk, int me, bool blocked) {
    S.st[me] = blocked ? T_BLOCKED : T_READY;
    if (blocked) S.blocked_seq[me] = S.write_seq;
    ++S.steps;
    if (S.steps > S.max_steps) fail_exit(S, 4, "step-budget-exhausted");
    int nx = pick(S, me);
    if (nx < 0) {
        S.deadlock = 1;
        fail_exit(S, 3, "deadlock: every live thread is waiting for a write");
    }
    S.current = nx;
    S.cv.notify_all();
    S.cv.wait(lk, [&] { return S.current == me; });
    S.st[me] = T_RUNNING;
}

inline void hook_pre(int kind, int obj, const volatile void* addr) {
    if (my_tid < 0) return;
    sched& S = sched::get();
    if (!S.active) return;
    std::unique_lock<std::mutex> lk(S.m);
    bool is_write = (kind == yakushima::verif::k_store || kind == yakushima::verif::k_cas ||
                     kind == yakushima::verif::k_rmw || kind == yakushima::verif::k_retire);
    if (is_write) ++S.write_seq;
    // a spin hook means "waiting for a write" only if the thread has looked at memory since its previous spin hook:
    // two spin hooks in a row (lock(): test, pause) must not count as waiting twice for the same observation
    bool waits = false;
    if (kind == yakushima::verif::k_spin) {
        waits = S.accessed[static_cast<std::size_t>(my_tid)] != 0;
        S.accessed[static_cast<std::size_t>(my_tid)] = 0;
    } else {
        S.accessed[static_cast<std::size_t>(my_tid)] = 1;
    }
    yield_locked(S, lk, my_tid, waits);
    if (S.log_pre) {
        // the access happens right after this point, before the next scheduling point
        std::lock_guard<std::mutex> lk2(S.logm);
        S.log.push_back(event{my_tid, kind, obj, reinterpret_cast<std::uintptr_t>(addr), 0, -1, S.steps, S.seq++});
    }
}

inline void hook_post(int kind, int obj, const volatile void* addr, std::uint64_t val, int ok) {
    sched& S = sched::get();
    if (!S.log_on) return;
    std::lock_guard<std::mutex> lk(S.logm);
    S.log.push_back(event{my_tid, kind, obj, reinterpret_cast<std::uintptr_t>(addr), val, ok, S.steps, S.seq++});
}

inline bool hook_sleep(std::uint64_t ms) {
    (void) ms;
    if (my_tid < 0) return false;
    sched& S = sched::get();
    if (!S.active) return false;
    std::unique_lock<std::mutex> lk(S.m);
    S.sleeper = my_tid;
    if (S.mode == 1 && my_tid < static_cast<int>(S.prio.size())) {
        // a sleeping thread drops below everybody else (otherwise a background loop starves the workers)
        int mn = 0;
        for (int p : S.prio) mn = p < mn ? p : mn;
        S.prio[my_tid] = mn - 1;
    }
    yield_locked(S, lk, my_tid, false);
    if (S.sleeper == my_tid) S.sleeper = -1;
    return true; // no real sleep under the scheduler
}

inline yakushima::verif::hooks g_hooks{hook_pre, hook_post, hook_sleep};

inline void install() { yakushima::verif::get() = &g_hooks; }
inline void uninstall() { yakushima::verif::get() = nullptr; }

// run the bodies as controlled threads until all are done
inline void run(std::vector<std::function<void()>> bodies) {
    sched& S = sched::get();
    S.n = static_cast<int>(bodies.size());
    S.st.assign(S.n, T_NEW);
    S.blocked_seq.assign(S.n, 0);
    S.accessed.assign(static_cast<std::size_t>(S.n), 1);
    S.current = -1;
    S.trace.clear();
    if (S.mode == 1 && S.prio.empty()) {
        for (int t = 0; t < S.n; ++t) S.prio.push_back(static_cast<int>(S.rng() % 1000) + 1);
    }
    S.active = true;
    std::vector<std::thread> th;
    for (int t = 0; t < S.n; ++t) {
        th.emplace_back([t, &bodies, &S] {
            my_tid = t;
            {
                std::unique_lock<std::mutex> lk(S.m);
                S.st[t] = T_READY;
                S.cv.notify_all();
                S.cv.wait(lk, [&] { return S.current == t; });
                S.st[t] = T_RUNNING;
            }
            bodies[t]();
            {
                std::unique_lock<std::mutex> lk(S.m);
                S.st[t] = T_DONE;
                ++S.write_seq; // finishing may unblock nobody, but be conservative
                int nx = pick(S, -1);
                bool all_done = true;
                for (int u = 0; u < S.n; ++u)
                    if (S.st[u] != T_DONE) all_done = false;
                if (nx < 0 && !all_done) {
                    S.deadlock = 1;
                    fail_exit(S, 3, "deadlock: every live thread is waiting for a write");
                }
                S.current = nx < 0 ? -2 : nx;
                S.cv.notify_all();
            }
            my_tid = -1;
        });
    }
    {
        std::unique_lock<std::mutex> lk(S.m);
        S.cv.wait(lk, [&] {
            for (int t = 0; t < S.n; ++t)
                if (S.st[t] != T_READY) return false;
            return true;
        });
        int first = pick(S, -1);
        S.current = first;
        S.cv.notify_all();
    }
    for (auto& t : th) t.join();
    S.active = false;
}

} // namespace vsched
