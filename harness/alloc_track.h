// alloc_track.h: operator new/delete interposer for the harness drivers.
// Every allocation gets a serial number; a pointer maps to the serial of the
// most recent allocation at that address (robust against address reuse).
// Counters give the allocation balance (C11).
#pragma once
#include <atomic>
#include <cstddef>
#include <cstdint>
#include <cstdio>
#include <cstdlib>
#include <cstring>
#include <mutex>
#include <new>

namespace vtrack {

struct rec {
    void* p;
    std::uint64_t serial;
    std::size_t size;
    std::size_t align;
    bool live;
};

static constexpr std::size_t kCap = 1u << 22; // open addressing, power of two
static rec* g_tab = nullptr;
static std::atomic<std::uint64_t> g_serial{0};
static std::atomic<long long> g_live_count{0};
static std::atomic<long long> g_live_bytes{0};
static std::atomic<std::uint64_t> g_double_free{0};
static std::atomic<std::uint64_t> g_size_mismatch{0};
static std::atomic<std::uint64_t> g_aligned_allocs{0}; // operator new(size, align): nodes and value blocks
static std::atomic<std::uint64_t> g_aligned_frees{0};
static std::atomic<bool> g_on{false};
static std::mutex g_mu;

static inline std::size_t h(void* p) {
    auto x = reinterpret_cast<std::uintptr_t>(p);
    x ^= x >> 33;
    x *= 0xff51afd7ed558ccdULL;
    x ^= x >> 29;
    return static_cast<std::size_t>(x) & (kCap - 1);
}

static inline void enable() {
    if (g_tab == nullptr) g_tab = static_cast<rec*>(std::calloc(kCap, sizeof(rec)));
    g_on.store(true);
}
static inline void disable() { g_on.store(false); }

static inline void on_alloc(void* p, std::size_t sz, std::size_t al) {
    if (!g_on.load(std::memory_order_relaxed) || p == nullptr) return;
    std::lock_guard<std::mutex> lk(g_mu);
    std::size_t i = h(p);
    for (std::size_t n = 0; n < kCap; ++n, i = (i + 1) & (kCap - 1)) {
        if (g_tab[i].p == nullptr || g_tab[i].p == p) {
            g_tab[i].p = p;
            g_tab[i].serial = ++g_serial;
            g_tab[i].size = sz;
            g_tab[i].align = al;
            g_tab[i].live = true;
            ++g_live_count;
            g_live_bytes += static_cast<long long>(sz);
            return;
        }
    }
}

// size == SIZE_MAX: unsized delete
static inline void on_free(void* p, std::size_t sz, std::size_t al) {
    if (!g_on.load(std::memory_order_relaxed) || p == nullptr) return;
    std::lock_guard<std::mutex> lk(g_mu);
    std::size_t i = h(p);
    for (std::size_t n = 0; n < kCap; ++n, i = (i + 1) & (kCap - 1)) {
        if (g_tab[i].p == nullptr) return; // allocated before tracking started
        if (g_tab[i].p == p) {
            if (!g_tab[i].live) {
                ++g_double_free;
                return;
            }
            if (sz != SIZE_MAX && sz != g_tab[i].size) ++g_size_mismatch;
            if (al != 0 && g_tab[i].align != 0 && al != g_tab[i].align) ++g_size_mismatch;
            g_tab[i].live = false;
            --g_live_count;
            g_live_bytes -= static_cast<long long>(g_tab[i].size);
            return;
        }
    }
}

// serial of the allocation containing p (exact start), 0 if unknown
static inline const rec* find(const void* p) {
    if (g_tab == nullptr || p == nullptr) return nullptr;
    std::lock_guard<std::mutex> lk(g_mu);
    std::size_t i = h(const_cast<void*>(p));
    for (std::size_t n = 0; n < kCap; ++n, i = (i + 1) & (kCap - 1)) {
        if (g_tab[i].p == nullptr) return nullptr;
        if (g_tab[i].p == p) return &g_tab[i];
    }
    return nullptr;
}

} // namespace vtrack

static inline void* vt_alloc(std::size_t sz, std::size_t al) {
    void* p = nullptr;
    std::size_t a = al < sizeof(void*) ? sizeof(void*) : al;
    if (posix_memalign(&p, a, sz ? sz : 1) != 0) throw std::bad_alloc();
    return p;
}

void* operator new(std::size_t sz) {
    void* p = vt_alloc(sz, alignof(std::max_align_t));
    vtrack::on_alloc(p, sz, 0);
    return p;
}
void* operator new[](std::size_t sz) {
    void* p = vt_alloc(sz, alignof(std::max_align_t));
    vtrack::on_alloc(p, sz, 0);
    return p;
}
void* operator new(std::size_t sz, std::align_val_t al) {
    void* p = vt_alloc(sz, static_cast<std::size_t>(al));
    if (vtrack::g_on.load(std::memory_order_relaxed)) ++vtrack::g_aligned_allocs;
    vtrack::on_alloc(p, sz, static_cast<std::size_t>(al));
    return p;
}
void* operator new[](std::size_t sz, std::align_val_t al) {
    void* p = vt_alloc(sz, static_cast<std::size_t>(al));
    vtrack::on_alloc(p, sz, static_cast<std::size_t>(al));
    return p;
}
void operator delete(void* p) noexcept {
    vtrack::on_free(p, SIZE_MAX, 0);
    std::free(p);
}
void operator delete[](void* p) noexcept {
    vtrack::on_free(p, SIZE_MAX, 0);
    std::free(p);
}
void operator delete(void* p, std::size_t sz) noexcept {
    vtrack::on_free(p, sz, 0);
    std::free(p);
}
void operator delete[](void* p, std::size_t sz) noexcept {
    vtrack::on_free(p, sz, 0);
    std::free(p);
}
void operator delete(void* p, std::align_val_t al) noexcept {
    if (p != nullptr && vtrack::g_on.load(std::memory_order_relaxed)) ++vtrack::g_aligned_frees;
    vtrack::on_free(p, SIZE_MAX, static_cast<std::size_t>(al));
    std::free(p);
}
void operator delete[](void* p, std::align_val_t al) noexcept {
    vtrack::on_free(p, SIZE_MAX, static_cast<std::size_t>(al));
    std::free(p);
}
void operator delete(void* p, std::size_t sz, std::align_val_t al) noexcept {
    if (p != nullptr && vtrack::g_on.load(std::memory_order_relaxed)) ++vtrack::g_aligned_frees;
    vtrack::on_free(p, sz, static_cast<std::size_t>(al));
    std::free(p);
}
void operator delete[](void* p, std::size_t sz, std::align_val_t al) noexcept {
    vtrack::on_free(p, sz, static_cast<std::size_t>(al));
    std::free(p);
}
