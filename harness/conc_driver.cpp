// conc_driver: runs a scenario (a prepared tree + a few operations per thread)
// on the real, hooked library under the deterministic scheduler and prints the
// history (invocations / responses in the total order of the run), the
// schedule actually taken, and the quiescent final state.
//
// scenario file:
//   mode random|pct|replay   seed N   stick P   depth D   maxsteps N
//   replay t t t ...                       (mode replay)
//   setup <seq op>                         (single-threaded preparation; ops as in seq_driver)
//   thread <tid> <op>                      (put/get/rem/scan/uput ... executed by thread tid)
//   final <storage> <key> ...              (keys to read back at quiescence)
#include "drv_common.h"
#include "sched.h"

#include <algorithm>
#include <sys/personality.h>
#include <unistd.h>
#include <mutex>

struct top {
    std::string kind;
    std::vector<std::string> args;
};

static std::string join(const std::vector<std::string>& v) {
    std::string s;
    for (auto& x : v) s += " " + x;
    return s;
}

struct scan_rec {
    std::size_t tid;
    std::string args;
    std::vector<std::pair<node_version64_body, node_version64*>> nv;
};
static std::mutex g_rec_mu;
static std::vector<scan_rec> g_scans;
static thread_local std::size_t g_cur_tid = 0;

// the leaf chain of layer 0 of a storage, with the lower bound of every border's range (from the interior
// separators): "lo:key,key|lo:key|..." in the numbering slice*16+length; "-" if the layer has layer links
static bool chain_walk(base_node* n, unsigned __int128 lo, std::ostringstream& out, bool& first) {
    auto num = [](key_slice_type ks, key_length_type kl) {
        return (static_cast<unsigned __int128>(__builtin_bswap64(ks)) << 4) | static_cast<unsigned>(kl);
    };
    auto pr = [&out](unsigned __int128 v) {
        std::uint64_t hi = static_cast<std::uint64_t>(v >> 64), lo64 = static_cast<std::uint64_t>(v);
        if (hi != 0) out << hx(hi) << std::string(16 - hx(lo64).size(), '0') << hx(lo64);
        else out << hx(lo64);
    };
    if (n->get_version_border()) {
        auto* b = dynamic_cast<border_node*>(n);
        permutation perm{b->get_permutation().get_body()};
        if (!first) out << "|";
        first = false;
        pr(lo);
        out << ":";
        for (std::size_t r = 0; r < perm.get_cnk(); ++r) {
            std::size_t i = perm.get_index_of_rank(r);
            if (b->get_key_length_at(i) > 8) return false;
            if (r != 0) out << ",";
            pr(num(b->get_key_slice_at(i), b->get_key_length_at(i)));
        }
        return true;
    }
    auto* it = dynamic_cast<interior_node*>(n);
    for (std::size_t i = 0; i <= it->get_n_keys(); ++i) {
        unsigned __int128 l2 = i == 0 ? lo : num(it->get_key_slice_at(i - 1), it->get_key_length_at(i - 1));
        if (!chain_walk(it->get_child_at(i), l2, out, first)) return false;
    }
    return true;
}

static std::string do_op(Token token, const top& o) {
    std::ostringstream out;
    const auto& a = o.args;
    if (o.kind == "put" || o.kind == "uput") {
        std::string st = unhex(a[0]), k = unhex(a[1]), v = unhex(a[2]);
        std::size_t al = a.size() > 3 ? std::stoul(a[3]) : 1;
        bool inl = a.size() > 4 && a[4] == "1";
        status s;
        if (inl) {
            char* word = nullptr;
            std::memcpy(&word, v.data(), v.size() < 8 ? v.size() : 8);
            s = put<char*>(token, st, k, &word, sizeof(char*), static_cast<char***>(nullptr),
                           static_cast<value_align_type>(alignof(char*)), o.kind == "uput",
                           static_cast<inserted_node_info*>(nullptr));
        } else {
            s = put<char>(token, st, k, v.data(), v.size(), static_cast<char**>(nullptr),
                          static_cast<value_align_type>(al), o.kind == "uput",
                          static_cast<inserted_node_info*>(nullptr));
        }
        out << s;
    } else if (o.kind == "get") {
        std::string st = unhex(a[0]), k = unhex(a[1]);
        std::pair<char*, std::size_t> g{};
        std::pair<node_version64_body, node_version64*> cv{};
        status s = get<char>(st, k, g, &cv);
        out << s;
        if (s == status::WARN_NOT_EXIST && cv.second != nullptr) {
            // the (version, node) pair a transaction would re-validate for this miss
            std::lock_guard<std::mutex> lk(g_rec_mu);
            g_scans.push_back(scan_rec{g_cur_tid, "get" + join(o.args), {cv}});
        }
        if (s == status::OK) {
            if (g.first == nullptr) out << " NULLPTR len=" << g.second;
            else if (reinterpret_cast<std::uintptr_t>(g.first) > 0x100000000ULL)
                out << " v=" << tohex(g.first, g.second);
            else out << " w=" << hx(reinterpret_cast<std::uintptr_t>(g.first));
        }
    } else if (o.kind == "create") {
        out << create_storage(unhex(a[0]));
    } else if (o.kind == "dropst") {
        out << delete_storage(unhex(a[0]));
    } else if (o.kind == "find") {
        tree_instance* ti{};
        out << find_storage(unhex(a[0]), &ti);
    } else if (o.kind == "rem") {
        std::string st = unhex(a[0]), k = unhex(a[1]);
        out << remove(token, st, k);
    } else if (o.kind == "scan") {
        std::string st = unhex(a[0]), ls, rs;
        std::string_view lk = keyview(a[1], ls), rk = keyview(a[3], rs);
        std::vector<std::tuple<std::string, char*, std::size_t>> tl;
        std::vector<std::pair<node_version64_body, node_version64*>> nv;
        status s = scan<char>(st, lk, ep(a[2]), rk, ep(a[4]), tl, &nv, std::stoul(a[5]), a[6] == "1");
        out << s << " n=" << tl.size() << " t=[";
        for (auto& e : tl) {
            char* p = std::get<1>(e);
            out << " " << tohex(std::get<0>(e)) << ":";
            if (p == nullptr) out << "NULLPTR";
            else if (reinterpret_cast<std::uintptr_t>(p) > 0x100000000ULL) out << tohex(p, std::get<2>(e));
            else out << "w" << hx(reinterpret_cast<std::uintptr_t>(p));
        }
        {
            std::lock_guard<std::mutex> lk(g_rec_mu);
            g_scans.push_back(scan_rec{g_cur_tid, join(o.args), nv});
        }
        out << " ] nvn=" << nv.size();
        // the recorded (version, node) pairs, re-validated later by the driver: keep raw pointers
        out << " nvraw=[";
        for (auto& e : nv) out << " " << hx(reinterpret_cast<std::uintptr_t>(e.second)) << ":" << hx(rawv(e.first));
        out << " ]";
    } else if (o.kind == "iscan") {
        // a cursor opened and driven to its end (one iscan_next per step of the caller)
        std::string st = unhex(a[0]), ls, rs;
        std::string_view lk = keyview(a[1], ls), rk = keyview(a[3], rs);
        bool rtl = a[6] == "1";
        std::size_t ncb = 0;
        auto cb = [&ncb](node_version64*, node_version64_body) {
            ++ncb;
            return false;
        };
        iscan_context* ctx = nullptr;
        void* val = nullptr;
        status rc = iscan_open(st, lk, ep(a[2]), rk, ep(a[4]), rtl, false, ctx, val, cb);
        status first = rc;
        std::ostringstream body;
        std::size_t n = 0;
        while (rc == status::OK && n < 10000) {
            body << " " << tohex(ctx->full_key()) << ":" << (val == nullptr ? "NULLPTR" : "?");
            ++n;
            rc = iscan_next(ctx, val, cb);
        }
        if (ctx != nullptr) iscan_close(ctx);
        status shown = (first == status::OK || first == status::OK_SCAN_END) ? status::OK : first;
        out << shown << " n=" << n << " t=[" << body.str() << " ] nvn=" << ncb << " end=" << rc;
    } else {
        out << "?";
    }
    return out.str();
}

int main(int argc, char** argv) {
    if (argc < 2) return 2;
    {
        // same addresses in every run of the same scenario (race-directed exploration matches accesses of
        // different runs by address): switch address space randomisation off and start again
        int pers = personality(0xffffffff);
        if (pers != -1 && (pers & ADDR_NO_RANDOMIZE) == 0 && personality(pers | ADDR_NO_RANDOMIZE) != -1)
            execv("/proc/self/exe", argv);
    }
    FILE* f = std::fopen(argv[1], "r");
    if (!f) return 2;
    vtrack::enable();
    auto& S = vsched::sched::get();
    std::vector<std::string> setup;
    std::vector<std::vector<top>> threads;
    std::vector<std::pair<std::string, std::string>> finals;
    std::vector<std::pair<std::string, std::string>> revalidate; // scans whose nv sets to recheck
    int depth = 2;
    bool print_events = false;
    static char line[1 << 20];
    while (std::fgets(line, sizeof line, f)) {
        std::istringstream in(line);
        std::string w;
        in >> w;
        if (w.empty() || w[0] == '#') continue;
        if (w == "mode") {
            std::string m;
            in >> m;
            S.mode = m == "pct" ? 1 : (m == "replay" ? 2 : (m == "preempt" ? 3 : (m == "script" ? 4 : 0)));
            std::string k;
            while (in >> k) {
                if (k == "seed") {
                    std::uint64_t s;
                    in >> s;
                    S.rng.seed(s);
                } else if (k == "stick") {
                    in >> S.stick;
                } else if (k == "depth") {
                    in >> depth;
                } else if (k == "maxsteps") {
                    in >> S.max_steps;
                } else if (k == "seg") {
                    std::string pt;
                    in >> pt;
                    auto c = pt.find(':');
                    S.script.emplace_back(std::stoi(pt.substr(0, c)), std::stoi(pt.substr(c + 1)));
                } else if (k == "first") {
                    in >> S.first_thread;
                } else if (k == "at") {
                    // at <step>:<tid>
                    std::string pt;
                    in >> pt;
                    auto c = pt.find(':');
                    S.preempts.emplace_back(std::stoull(pt.substr(0, c)), std::stoi(pt.substr(c + 1)));
                }
            }
        } else if (w == "replay") {
            int t;
            while (in >> t) S.replay.push_back(t);
        } else if (w == "setup") {
            std::string rest;
            std::getline(in, rest);
            setup.push_back(rest);
        } else if (w == "thread") {
            std::size_t tid;
            in >> tid;
            top o;
            in >> o.kind;
            std::string a;
            while (in >> a) o.args.push_back(a);
            if (threads.size() <= tid) threads.resize(tid + 1);
            threads[tid].push_back(o);
        } else if (w == "events") {
            S.log_pre = true;
            print_events = true;
        } else if (w == "final") {
            std::string st, k;
            in >> st;
            while (in >> k) finals.emplace_back(st, k);
        }
    }
    std::fclose(f);

    // ---- an empty init/fin cycle first: what the process holds after it is the reference for the balance at the end
    init();
    fin();
    const long long base_live = vtrack::g_live_count.load(), base_bytes = vtrack::g_live_bytes.load();
    const long long base_aligned = static_cast<long long>(vtrack::g_aligned_allocs.load()) - static_cast<long long>(vtrack::g_aligned_frees.load());
    // ---- preparation (free running, single thread)
    init();
    Token main_tok{};
    enter(main_tok);
    for (auto& s : setup) {
        std::istringstream in(s);
        top o;
        in >> o.kind;
        std::string a;
        while (in >> a) o.args.push_back(a);
        if (o.kind == "create") {
            create_storage(unhex(o.args[0]));
        } else {
            do_op(main_tok, o);
        }
    }
    leave(main_tok);
    {
        // initial leaf chain of every prepared storage (input of the chain-model tie)
        std::vector<std::pair<std::string, tree_instance*>> sts;
        list_storages(sts);
        for (auto& e : sts) {
            base_node* root = e.second->load_root_ptr();
            std::ostringstream o;
            bool first = true;
            if (root != nullptr && chain_walk(root, 0, o, first)) std::cout << "CHAIN " << tohex(e.first) << " " << o.str() << "\n";
            else std::cout << "CHAIN " << tohex(e.first) << " -\n";
        }
    }

    // ---- the controlled run
    if (S.mode == 1) {
        // pct: d-1 priority change points over an estimated run length
        for (int i = 1; i < depth; ++i) S.change_pts.push_back(1 + S.rng() % 400);
    }
    vsched::install();
    std::vector<std::function<void()>> bodies;
    std::vector<Token> toks(threads.size());
    for (std::size_t t = 0; t < threads.size(); ++t) {
        bodies.emplace_back([t, &threads, &toks] {
            Token tok{};
            g_cur_tid = t;
            while (enter(tok) != status::OK) {}
            toks[t] = tok;
            for (auto& o : threads[t]) {
                vsched::note("inv " + std::to_string(t) + " " + o.kind + join(o.args));
                std::string r = do_op(tok, o);
                vsched::note("res " + std::to_string(t) + " " + r);
            }
            // the session stays open until the recorded node versions have been re-validated
        });
    }
    vsched::run(bodies);
    vsched::uninstall();
    // once every operation has completed: re-validate the (version, node) pairs the scans collected
    for (auto& sr : g_scans) {
        bool stale = false;
        for (auto& e : sr.nv)
            if (e.second->get_stable_version() != e.first) stale = true;
        std::cout << "REVAL " << sr.tid << " stale=" << stale << " nvn=" << sr.nv.size() << " args=" << sr.args << "\n";
    }
    for (auto tk : toks)
        if (tk != nullptr) leave(tk);

    // ---- report
    std::cout << "SCHEDULE";
    for (int t : S.trace) std::cout << " " << t;
    std::cout << "\nSTEPS " << S.steps << "\n";
    for (auto& nt : S.notes) std::cout << "H " << nt.first << " " << nt.second << "\n";
    if (print_events)
        for (auto& e : S.log)
            std::cout << "E " << e.seq << " " << e.tid << " " << e.kind << " " << e.obj << " " << hx(e.addr) << " "
                      << hx(e.val) << " " << e.ok << " " << e.step << "\n";
    // quiescent state
    for (auto& fk : finals) {
        std::pair<char*, std::size_t> g{};
        status s = get<char>(unhex(fk.first), unhex(fk.second), g);
        std::cout << "FINAL " << fk.first << " " << fk.second << " " << s;
        if (s == status::OK) {
            if (g.first == nullptr) std::cout << " NULLPTR";
            else if (reinterpret_cast<std::uintptr_t>(g.first) > 0x100000000ULL) std::cout << " v=" << tohex(g.first, g.second);
            else std::cout << " w=" << hx(reinterpret_cast<std::uintptr_t>(g.first));
        }
        std::cout << "\n";
    }
    // full scan + structure + lock bits per storage mentioned
    std::vector<std::string> sts;
    for (auto& fk : finals)
        if (std::find(sts.begin(), sts.end(), fk.first) == sts.end()) sts.push_back(fk.first);
    for (auto& stn : sts) {
        std::vector<std::tuple<std::string, char*, std::size_t>> tl;
        status s = scan<char>(unhex(stn), "", scan_endpoint::INF, "", scan_endpoint::INF, tl, nullptr, 0, false);
        std::cout << "FSCAN " << stn << " " << s << " [";
        for (auto& e : tl) std::cout << " " << tohex(std::get<0>(e));
        std::cout << " ]\n";
        tree_instance* ti{};
        if (find_storage(unhex(stn), &ti) == status::OK && ti->load_root_ptr() != nullptr) {
            std::ostringstream out;
            std::map<node_version64*, base_node*> nv2node;
            walker w{out, nv2node};
            w.walk(ti->load_root_ptr(), nullptr);
            std::cout << "DUMP " << stn << "\n" << out.str() << "ENDDUMP\n";
            bool left = false;
            for (auto& kv : nv2node) {
                auto b = kv.first->get_body();
                if (b.get_locked() || b.get_inserting_deleting() || b.get_splitting()) left = true;
            }
            std::cout << "LOCKBITS " << stn << " " << (left ? "LEFT" : "clean") << "\n";
        }
    }
    fin();
    // the driver's own containers (strings, vectors, the scheduler's log) are alive and were allocated after the
    // reference point, so only library-sized objects are meaningful: report aligned allocations (nodes, value blocks)
    std::cout << "LEAK live=" << (static_cast<long long>(vtrack::g_aligned_allocs.load()) - static_cast<long long>(vtrack::g_aligned_frees.load()) - base_aligned)
              << " bytes=0\n";
    (void) base_live;
    (void) base_bytes;
    std::cout << "DONE\n";
    std::cout.flush();
    return 0;
}
