// cycle_driver: repeated init()/fin() (and destroy()) cycles on the real
// library in real time (small epoch period).  Per cycle it reports what a user
// relies on: nothing of the previous cycle is visible, every session slot is
// free, the epoch advances, retired memory is reclaimed while running.
//
// script lines: cycle <ops-per-cycle> <leave_open:0|1> <use_destroy:0|1>
#include "drv_common.h"

#include <chrono>
#include <thread>

int main(int argc, char** argv) {
    if (argc < 2) return 2;
    FILE* f = std::fopen(argv[1], "r");
    if (!f) return 2;
    vtrack::enable();
    static char line[4096];
    int cyc = 0;
    while (std::fgets(line, sizeof line, f)) {
        std::istringstream in(line);
        std::string w;
        in >> w;
        if (w != "cycle") continue;
        int nops = 10, leave_open = 0, use_destroy = 0;
        in >> nops >> leave_open >> use_destroy;
        ++cyc;
        init();
        std::ostringstream out;
        out << "cycle " << cyc;
        // 1. nothing visible, unknown storage
        {
            std::vector<std::pair<std::string, tree_instance*>> v;
            status s = list_storages(v);
            out << " list=" << s << ":" << v.size();
            tree_instance* ti{};
            out << " find_old=" << find_storage("st", &ti);
        }
        // 2. every slot is free right after init (observed without touching them: enter one, look at its index)
        {
            Token t{};
            status s = enter(t);
            auto& table = thread_info_table::get_thread_info_table();
            std::size_t idx = (s == status::OK) ? static_cast<std::size_t>(static_cast<thread_info*>(t) - &table.at(0)) : 99;
            std::size_t busy = 0;
            for (auto& e : table) busy += e.get_running() ? 1 : 0;
            if (s == status::OK) leave(t);
            out << " first_slot=" << idx << " busy_after_init=" << (busy - (s == status::OK ? 1 : 0));
        }
        // 3. work, epoch progress, reclamation while running
        create_storage("st");
        Token tok{};
        enter(tok);
        std::string val(100, 'x');
        for (int i = 0; i < nops; ++i) {
            std::string k = "key" + std::to_string(i);
            put<char>(tok, "st", k, val.data(), val.size());
        }
        for (int i = 0; i < nops; ++i) {
            std::string k = "key" + std::to_string(i);
            remove(tok, "st", k);
        }
        leave(tok);
        long long live_before = vtrack::g_live_count.load();
        Epoch e0 = epoch_management::get_epoch();
        std::this_thread::sleep_for(std::chrono::milliseconds(40 * YAKUSHIMA_EPOCH_TIME));
        Epoch e1 = epoch_management::get_epoch();
        long long live_after = vtrack::g_live_count.load();
        out << " epoch_advance=" << (e1 - e0) << " reclaimed=" << (live_before - live_after);
        // all slots can be taken (and are given back)
        {
            std::vector<Token> toks;
            std::size_t got = 0;
            for (std::size_t i = 0; i < YAKUSHIMA_MAX_PARALLEL_SESSIONS + 1; ++i) {
                Token t{};
                if (enter(t) == status::OK) {
                    ++got;
                    toks.push_back(t);
                }
            }
            // keep the higher slots for a moment so that the session left open below sits at a high index
            out << " slots_free=" << got << "/" << YAKUSHIMA_MAX_PARALLEL_SESSIONS;
            for (auto t : toks) leave(t);
        }
        // the storage still works
        {
            std::vector<Token> hold;
            for (int i = 0; i < leave_open - 1; ++i) {
                Token h{};
                if (enter(h) == status::OK) hold.push_back(h);
            }
            Token t2{};
            enter(t2);
            for (auto h : hold) leave(h);
            std::string k = "again";
            status s = put<char>(t2, "st", k, val.data(), val.size());
            std::pair<char*, std::size_t> g{};
            status s2 = get<char>("st", k, g);
            out << " put=" << s << " get=" << s2;
            if (!leave_open) leave(t2);
        }
        if (use_destroy) {
            out << " destroy=" << destroy();
            std::vector<std::pair<std::string, tree_instance*>> v;
            out << " list_after_destroy=" << list_storages(v);
            out << " create_after_destroy=" << create_storage("st2");
        }
        fin();
        out << " fin";
        std::cout << out.str() << "\n";
        std::cout.flush();
    }
    std::fclose(f);
    return 0;
}
