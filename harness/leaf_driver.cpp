// leaf_driver: runs the real leaf functions of yakushima (permutation word,
// version word, key comparison sites, value layout) on the cases of a file,
// one per line, and prints one canonical result line per case.  The Coq model
// (extracted, ocaml/driver.ml) prints the same lines for the same file.
//
// Rebuilt from /repo/include on every check run.
#include <cstdint>
#include <cstdio>
#include <cstring>
#include <iostream>
#include <new>
#include <sstream>
#include <string>
#include <vector>

#include "kvs.h"

using namespace yakushima;

// ---- allocation recorder (value layout) -----------------------------------
static thread_local bool g_rec = false;
static thread_local std::size_t g_new_size = 0, g_new_align = 0, g_new_calls = 0;
static thread_local std::size_t g_del_size = 0, g_del_align = 0, g_del_calls = 0;
static thread_local void* g_new_ptr = nullptr;

void* operator new(std::size_t sz, std::align_val_t al) {
    void* p = nullptr;
    std::size_t a = static_cast<std::size_t>(al);
    if (a < sizeof(void*)) a = sizeof(void*);
    if (posix_memalign(&p, a, sz ? sz : 1) != 0) throw std::bad_alloc();
    if (g_rec) {
        g_new_size = sz;
        g_new_align = static_cast<std::size_t>(al);
        g_new_ptr = p;
        ++g_new_calls;
    }
    return p;
}
void operator delete(void* p, std::size_t sz, std::align_val_t al) noexcept {
    if (g_rec) {
        g_del_size = sz;
        g_del_align = static_cast<std::size_t>(al);
        ++g_del_calls;
    }
    free(p);
}
void operator delete(void* p, std::align_val_t) noexcept { free(p); }

static inline std::uint64_t bswap(std::uint64_t x) { return __builtin_bswap64(x); }

// single-word publication (C19): count the stores to a permutation word during one operation
static int g_perm_stores = 0;
// publication order inside border_node::insert_lv_at: (object, address) of every store, in order
static std::vector<std::pair<int, const volatile void*>> g_store_log;
#ifdef YAKUSHIMA_VERIF
static void cnt_post(int kind, int obj, const volatile void* addr, std::uint64_t, int) {
    if (kind == yakushima::verif::k_store && obj == yakushima::verif::o_perm) ++g_perm_stores;
    if (kind == yakushima::verif::k_store) g_store_log.emplace_back(obj, addr);
}
static yakushima::verif::hooks g_cnt_hooks{nullptr, cnt_post, nullptr};
#endif

// node_version64_body <-> raw word
static std::uint64_t raw(node_version64_body b) {
    std::uint64_t r;
    std::memcpy(&r, &b, 8);
    return r;
}
static node_version64_body body(std::uint64_t r) {
    node_version64_body b;
    std::memcpy(&b, &r, 8);
    return b;
}

static std::string hex(std::uint64_t v) {
    char buf[32];
    std::snprintf(buf, sizeof buf, "%llx", static_cast<unsigned long long>(v));
    return buf;
}

// hand-built border with the given entries in slots 0..n-1 (already in key order)
struct ent {
    std::uint64_t s;
    unsigned l;
};

int main(int argc, char** argv) {
    if (argc < 2) return 2;
    FILE* f = std::fopen(argv[1], "r");
    if (!f) return 2;
#ifdef YAKUSHIMA_VERIF
    yakushima::verif::get() = &g_cnt_hooks;
#endif
    char line[1 << 16];
    while (std::fgets(line, sizeof line, f)) {
        std::istringstream in(line);
        std::string grp, op;
        in >> grp >> op;
        if (grp.empty() || grp[0] == '#') continue;
        std::ostringstream out;
        auto rd = [&in]() {
            std::string t;
            in >> t;
            return static_cast<std::uint64_t>(std::stoull(t, nullptr, 16));
        };
        if (grp == "perm") {
            if (op == "insert") {
                auto w = rd(), r = rd(), p = rd();
                permutation pm{w};
                g_perm_stores = 0;
                pm.insert_rank(r, p);
                out << hex(pm.get_body()) << " st=" << g_perm_stores;
            } else if (op == "delete") {
                auto w = rd(), r = rd();
                permutation pm{w};
                g_perm_stores = 0;
                pm.delete_rank(r);
                out << hex(pm.get_body()) << " st=" << g_perm_stores;
            } else if (op == "empty") {
                auto w = rd();
                permutation pm{w};
                out << hex(pm.get_empty_slot());
            } else if (op == "publish") {
                // perm publish <n> <klen> <rank> : a border with n entries in slots 0..n-1; insert_lv_at(slot n, a key of
                // klen bytes, rank): the permutation word must be stored AFTER the entry (its link_or_value word) is
                // in place, so that a reader who sees the new ordering finds the entry
                auto n = rd(), klen = rd(), rank = rd();
                auto* b = new border_node();
                b->init_border();
                for (std::uint64_t i = 0; i < n; ++i) {
                    b->set_key_slice_at(i, bswap(0x0100000000000000ULL * (i + 1)));
                    b->set_key_length_at(i, 1);
                    b->get_lv_at(i)->set_value(reinterpret_cast<value*>(0x1000 + 8 * i), nullptr);
                    b->get_permutation().insert_rank(i, i);
                }
                std::string key(klen, 'k');
                g_store_log.clear();
                b->insert_lv_at(n, std::string_view(key), reinterpret_cast<value*>(0x2000), nullptr, rank);
                std::ptrdiff_t last_lv = -1, perm_at = -1;
                for (std::size_t i = 0; i < g_store_log.size(); ++i) {
                    if (g_store_log[i].first == yakushima::verif::o_lv &&
                        g_store_log[i].second == static_cast<const volatile void*>(b->get_lv_at(n)))
                        last_lv = static_cast<std::ptrdiff_t>(i);
                    if (g_store_log[i].first == yakushima::verif::o_perm) {
                        // the word of THIS border (a new next-layer border has its own)
                        permutation& pp = b->get_permutation();
                        if (g_store_log[i].second == static_cast<const volatile void*>(&pp) ||
                            reinterpret_cast<std::uintptr_t>(g_store_log[i].second) - reinterpret_cast<std::uintptr_t>(&pp) < sizeof(permutation))
                            perm_at = static_cast<std::ptrdiff_t>(i);
                    }
                }
                out << "pub=" << ((last_lv >= 0 && perm_at > last_lv) ? "ok" : (perm_at < 0 || last_lv < 0 ? "unseen" : "early"))
                    << " cnk=" << static_cast<int>(b->get_permutation_cnk());
                // (the border and a possibly created next layer are left to the process exit)
            } else if (op == "split") {
                auto n = rd();
                permutation pm{};
                g_perm_stores = 0;
                pm.split_dest(n);
                out << hex(pm.get_body()) << " st=" << g_perm_stores;
            } else if (op == "index") {
                auto w = rd(), r = rd();
                permutation pm{w};
                out << hex(pm.get_index_of_rank(r));
            } else if (op == "cnk") {
                auto w = rd();
                permutation pm{w};
                out << hex(pm.get_cnk()) << " " << hex(pm.get_lowest_key_pos());
            } else if (op == "setcnk") {
                auto w = rd(), c = rd();
                permutation pm{w};
                pm.set_cnk(static_cast<std::uint8_t>(c));
                out << hex(pm.get_body());
            } else if (op == "rearrange") {
                // perm rearrange <w> <n> (<slice_be> <len>)*n  : entries in slots 0..n-1
                auto w = rd(), n = rd();
                std::array<key_slice_type, key_slice_length> sl{};
                std::array<key_length_type, key_slice_length> ln{};
                for (std::uint64_t i = 0; i < n; ++i) {
                    sl.at(i) = bswap(rd());
                    ln.at(i) = static_cast<key_length_type>(rd());
                }
                permutation pm{w};
                pm.rearrange(sl, ln);
                out << hex(pm.get_body());
            }
        } else if (grp == "ver") {
            if (op == "decode") {
                auto b = body(rd());
                out << hex(b.get_vinsert_delete()) << " " << b.get_locked() << " "
                    << b.get_inserting_deleting() << " " << b.get_splitting() << " "
                    << hex(b.get_vsplit()) << " " << b.get_deleted() << " "
                    << b.get_root() << " " << b.get_border();
            } else if (op == "set") {
                // ver set <w> <field> <0|1>
                auto w = rd();
                std::string fld;
                in >> fld;
                auto v = rd() != 0;
                node_version64 nv;
                nv.set_body(body(w));
                if (fld == "locked") {
                    auto b = body(w);
                    b.set_locked(v);
                    nv.set_body(b);
                } else if (fld == "insdel") {
                    nv.atomic_set_inserting_deleting(v);
                } else if (fld == "splitting") {
                    nv.atomic_set_splitting(v);
                } else if (fld == "deleted") {
                    nv.atomic_set_deleted(v);
                } else if (fld == "root") {
                    nv.atomic_set_root(v);
                } else if (fld == "border") {
                    nv.atomic_set_border(v);
                }
                out << hex(raw(nv.get_body()));
            } else if (op == "incv") {
                node_version64 nv;
                nv.set_body(body(rd()));
                nv.atomic_inc_vinsert();
                out << hex(raw(nv.get_body()));
            } else if (op == "incs") {
                auto b = body(rd());
                b.inc_vsplit();
                out << hex(raw(b));
            } else if (op == "unlock") {
                node_version64 nv;
                nv.set_body(body(rd()));
                nv.unlock();
                out << hex(raw(nv.get_body()));
            } else if (op == "lock") {
                // only called on unlocked words (a locked word would spin)
                auto w = rd();
                node_version64 nv;
                nv.set_body(body(w));
                if (body(w).get_locked()) {
                    out << "none";
                } else {
                    nv.lock();
                    out << hex(raw(nv.get_body()));
                }
            } else if (op == "stable") {
                auto b = body(rd());
                out << (!b.get_inserting_deleting() && !b.get_locked() &&
                        !b.get_splitting());
                // get_stable_version returns exactly such words: check by calling
                if (!b.get_inserting_deleting() && !b.get_locked() && !b.get_splitting()) {
                    node_version64 nv;
                    nv.set_body(b);
                    out << " " << hex(raw(nv.get_stable_version()));
                } else {
                    out << " -";
                }
            } else if (op == "init") {
                node_version64 nv;
                nv.init();
                out << hex(raw(nv.get_body()));
            }
        } else if (grp == "key") {
            // slices are given big-endian (model form); lengths 0..9
            auto mk = [&]() {
                auto s = rd();
                auto l = rd();
                return base_node::key_tuple{bswap(s), static_cast<key_length_type>(l)};
            };
            if (op == "lt") {
                auto a = mk(), b = mk();
                out << (a < b) << " " << (a > b) << " " << (a <= b) << " " << (a >= b)
                    << " " << (a == b);
            } else if (op == "oftuple") {
                // key oftuple <hexbytes|-> : key_tuple(string_view)
                std::string hb;
                in >> hb;
                std::string k;
                if (hb != "-")
                    for (std::size_t i = 0; i + 1 < hb.size(); i += 2)
                        k.push_back(static_cast<char>(std::stoi(hb.substr(i, 2), nullptr, 16)));
                base_node::key_tuple t{std::string_view(k)};
                out << hex(bswap(t.get_key_slice())) << " " << hex(t.get_key_length());
            } else if (op == "border") {
                // key border <n> (<s> <l>)*n <ks> <kl> : build a border holding the n entries
                // (given in key order) in slots 0..n-1, then lookup / rank / delete-match
                auto n = rd();
                auto* b = new border_node();
                b->init_border();
                for (std::uint64_t i = 0; i < n; ++i) {
                    auto s = rd();
                    auto l = rd();
                    b->set_key_slice_at(i, bswap(s));
                    b->set_key_length_at(i, static_cast<key_length_type>(l));
                    // a distinguishable non-null inline value word
                    b->get_lv_at(i)->set_value(reinterpret_cast<value*>(0x1000 + 8 * i), nullptr);
                    b->get_permutation().insert_rank(i, i);
                }
                auto s = rd();
                auto l = static_cast<key_length_type>(rd());
                node_version64_body sv{};
                std::size_t pos = 99;
                link_or_value* lv = b->get_lv_of(bswap(s), l, sv, pos);
                out << (lv == nullptr ? std::string("none") : hex(pos));
                link_or_value* lv2 = b->get_lv_of_without_lock(bswap(s), l);
                out << " "
                    << (lv2 == nullptr ? std::string("none")
                                       : hex(static_cast<std::uint64_t>(lv2 - b->get_lv_at(0))));
                if (lv == nullptr && !(l == 0 && n > 0 && b->get_key_length_at(0) == 0)) {
                    out << " " << hex(b->compute_rank_if_insert(bswap(s), l));
                } else {
                    out << " -";
                }
                delete b;
            } else if (op == "interior") {
                // key interior <n> (<s> <l>)*n <ks> <kl> : separators 0..n-1, children 0..n;
                // get_child_of -> child index; then insert(<ks,kl>) on a copy -> key position
                auto n = rd();
                auto* it = new interior_node();
                it->init_interior();
                std::vector<border_node*> ch;
                for (std::uint64_t i = 0; i <= n; ++i) {
                    auto* c = new border_node();
                    c->init_border();
                    ch.push_back(c);
                    it->set_child_at(i, c);
                }
                for (std::uint64_t i = 0; i < n; ++i) {
                    auto s = rd();
                    auto l = rd();
                    it->set_key(i, bswap(s), static_cast<key_length_type>(l));
                }
                it->set_n_keys(static_cast<std::uint8_t>(n));
                auto s = rd();
                auto l = static_cast<key_length_type>(rd());
                node_version64_body v = it->get_stable_version();
                base_node* c = it->get_child_of(bswap(s), l, v);
                std::uint64_t ci = 99;
                for (std::uint64_t i = 0; i <= n; ++i)
                    if (ch[i] == c) ci = i;
                out << hex(ci);
                if (n < key_slice_length) {
                    auto* nc = new border_node();
                    nc->init_border();
                    it->insert(nc, std::make_pair(bswap(s), l));
                    std::uint64_t ki = 99;
                    for (std::uint64_t i = 0; i <= n + 1; ++i)
                        if (it->get_child_at(i) == nc) ki = i;
                    out << " " << hex(ki) << " " << hex(it->get_n_keys());
                    delete nc;
                } else {
                    out << " - -";
                }
                for (auto* p : ch) delete p;
                delete it;
            }
        } else if (grp == "val") {
            if (op == "create") {
                // val create <len> <align> : allocator arguments + header readings
                auto len = rd(), al = rd();
                std::vector<unsigned char> src(len ? len : 1);
                for (std::size_t i = 0; i < src.size(); ++i)
                    src[i] = static_cast<unsigned char>((i * 131 + 7) & 0xff);
                g_rec = true;
                g_new_calls = g_del_calls = 0;
                value* v = value::create_value<false>(src.data(), len,
                                                      static_cast<std::align_val_t>(al));
                auto* bodyp = static_cast<unsigned char*>(value::get_body(v));
                auto [gp, gsz, gal] = value::get_gc_info(v);
                bool same = std::memcmp(bodyp, src.data(), len) == 0;
                out << hex(g_new_size) << " " << hex(g_new_align) << " "
                    << hex(value::get_len(v)) << " "
                    << hex(reinterpret_cast<std::uintptr_t>(bodyp) -
                           reinterpret_cast<std::uintptr_t>(g_new_ptr))
                    << " " << hex(gsz) << " " << hex(static_cast<std::size_t>(gal)) << " "
                    << value::is_value_ptr(v) << " " << value::need_delete(v) << " "
                    << (gp == g_new_ptr) << " " << same << " "
                    << (al == 0 ? 1 : (reinterpret_cast<std::uintptr_t>(bodyp) % al == 0));
                value::delete_value(v);
                out << " " << hex(g_del_size) << " " << hex(g_del_align) << " " << g_new_calls
                    << " " << g_del_calls;
                g_rec = false;
            } else if (op == "word") {
                // val word <w> : slot-word classification (no dereference)
                auto w = rd();
                link_or_value lv;
                std::memcpy(static_cast<void*>(&lv), &w, 8);
                base_node* nl = lv.get_next_layer();
                value* vp = lv.get_value();
                out << (nl == nullptr ? std::string("none")
                                      : hex(reinterpret_cast<std::uintptr_t>(nl)))
                    << " "
                    << (vp == nullptr ? std::string("none")
                                      : hex(reinterpret_cast<std::uintptr_t>(vp)))
                    << " " << value::is_value_ptr(reinterpret_cast<value*>(w));
            } else if (op == "inline") {
                // val inline <w> : create_value<true> + get_body/get_len on an inline word
                auto w = rd();
                value* v = value::create_value<true>(&w, 8, static_cast<std::align_val_t>(8));
                out << hex(reinterpret_cast<std::uintptr_t>(v));
                if (!value::is_value_ptr(v)) {
                    out << " " << hex(reinterpret_cast<std::uintptr_t>(value::get_body(v))) << " "
                        << hex(value::get_len(v)) << " " << value::need_delete(v);
                } else {
                    out << " - - -";
                }
            }
        }
        std::cout << out.str() << "\n";
    }
    std::fclose(f);
    return 0;
}
