(** * SysProofs: the whole sequential system (storages = outer tree + user trees)
    refines the map-of-maps specification for every scan-free operation sequence.

    A. association-list facts ([smap_get]/[ssys_get] after put/del, sortedness of
       the spec system map, [trees_get] after [trees_set]/[trees_del]).
    B. small facts about [put]/[remove]/[WF_store] (null flag, monotonicity in ctr).
    C. the simulation invariant [SysInv] and one step lemma per operation.
    D. [sys_refines_spec], and corollaries [sys_isolation], [sys_unknown_storage]. *)
From Coq Require Import ZArith NArith PeanoNat Lia ZifyBool ZifyN Bool List Sorted.
From Yk Require Import ListAux KeyDefs KeyProofs TreeDefs ScanDefs SysDefs SpecDefs StoreProofs.
Import ListNotations.
Local Open Scope N_scope.

Definition noscan (o : op) : bool :=
  match o with OScan _ _ | OList => false | _ => true end.

Definition op_bytes (o : op) : Prop :=
  match o with
  | OCreate n | ODropStorage n | OFind n => bytes n
  | OPut n k _ _ _ _ | OGet n k | ORemove n k => bytes n /\ bytes k
  | OScan n a => bytes n /\ bytes (sa_l a) /\ bytes (sa_r a)
  | OList | ODestroy => True
  end.

(** ** A. association lists *)
Lemma key_eqb_sym a b : key_eqb a b = key_eqb b a.
Proof.
  destruct (key_eqb a b) eqn:E.
  - apply key_eqb_eq in E. subst. symmetry. apply key_eqb_refl.
  - destruct (key_eqb b a) eqn:E2; [|reflexivity]. apply key_eqb_eq in E2. subst.
    rewrite key_eqb_refl in E. discriminate.
Qed.

Lemma smap_get_put m k a k' :
  smap_get (smap_put m k a) k' = if key_eqb k k' then Some a else smap_get m k'.
Proof.
  induction m as [|[k1 v1] m IH]; cbn [smap_put smap_get]; [reflexivity|].
  destruct (key_eqb k1 k) eqn:E.
  - cbn [smap_get]. apply key_eqb_eq in E. subst k1. destruct (key_eqb k k'); reflexivity.
  - destruct (lex_lt k k1); cbn [smap_get].
    + reflexivity.
    + rewrite IH. destruct (key_eqb k1 k') eqn:E1; [|reflexivity].
      apply key_eqb_eq in E1. subst k1. rewrite key_eqb_sym, E. reflexivity.
Qed.

Lemma smap_get_del m k k' : lex_sorted m ->
  smap_get (smap_del m k) k' = if key_eqb k k' then None else smap_get m k'.
Proof.
  intros S. pose proof (smap_del_sorted m k S) as S'.
  destruct (key_eqb k k') eqn:E.
  - apply key_eqb_eq in E. subst k'. apply (smap_get_none _ _ S'). intros a H.
    apply (smap_del_in m k S) in H. destruct H as [H _]. apply H. reflexivity.
  - assert (k' <> k) as Hn by (intros ->; rewrite key_eqb_refl in E; discriminate).
    destruct (smap_get m k') as [a|] eqn:G.
    + apply (smap_get_in _ _ _ S'). apply (smap_del_in m k S). split; [exact Hn|].
      apply (smap_get_in _ _ _ S). exact G.
    + apply (smap_get_none _ _ S'). intros a H. apply (smap_del_in m k S) in H. destruct H as [_ H].
      apply (smap_get_in _ _ _ S) in H. congruence.
Qed.

(** the system map of the specification: strictly ascending names *)
Definition ssorted (s : spec_sys) : Prop :=
  StronglySorted (fun x y => lex_lt (fst x) (fst y) = true) s.

Lemma ssorted_cons x s :
  ssorted (x :: s) <-> ssorted s /\ forall y, In y s -> lex_lt (fst x) (fst y) = true.
Proof.
  unfold ssorted. split.
  - intros H. apply StronglySorted_inv in H. destruct H as [H1 H2]. split; [exact H1|].
    rewrite Forall_forall in H2. exact H2.
  - intros [H1 H2]. constructor; [exact H1|]. apply Forall_forall. exact H2.
Qed.

Lemma ssys_get_put s n m n' :
  ssys_get (ssys_put s n m) n' = if key_eqb n n' then Some m else ssys_get s n'.
Proof.
  induction s as [|[k1 v1] s IH]; cbn [ssys_put ssys_get]; [reflexivity|].
  destruct (key_eqb k1 n) eqn:E.
  - cbn [ssys_get]. apply key_eqb_eq in E. subst k1. destruct (key_eqb n n'); reflexivity.
  - destruct (lex_lt n k1); cbn [ssys_get].
    + reflexivity.
    + rewrite IH. destruct (key_eqb k1 n') eqn:E1; [|reflexivity].
      apply key_eqb_eq in E1. subst k1. rewrite key_eqb_sym, E. reflexivity.
Qed.

Lemma ssys_get_in s n m : ssys_get s n = Some m -> In (n, m) s.
Proof.
  induction s as [|[k1 v1] s IH]; cbn [ssys_get]; [discriminate|].
  destruct (key_eqb k1 n) eqn:E.
  - apply key_eqb_eq in E. subst k1. intros H. injection H as ->. left. reflexivity.
  - intros H. right. apply IH. exact H.
Qed.

Lemma ssys_put_names s n m x : In x (map fst (ssys_put s n m)) <-> x = n \/ In x (map fst s).
Proof.
  induction s as [|[k1 v1] s IH]; cbn [ssys_put].
  - cbn. split; [intros [H|[]]; left; congruence|intros [H|[]]; left; congruence].
  - destruct (key_eqb k1 n) eqn:E.
    + apply key_eqb_eq in E. subst k1. cbn [map fst In]. split.
      * intros [H|H]; [left; congruence|right; right; exact H].
      * intros [H|[H|H]]; [left; congruence|left; congruence|right; exact H].
    + destruct (lex_lt n k1).
      * cbn [map fst In]. split.
        -- intros [H|H]; [left; congruence|right; exact H].
        -- intros [H|H]; [left; congruence|right; exact H].
      * cbn [map fst In]. rewrite IH. split.
        -- intros [H|[H|H]]; [right; left; exact H|left; exact H|right; right; exact H].
        -- intros [H|[H|H]]; [right; left; exact H|left; exact H|right; right; exact H].
Qed.

Lemma ssys_put_sorted s n m : ssorted s -> ssorted (ssys_put s n m).
Proof.
  induction s as [|[k1 v1] s IH]; intros S; cbn [ssys_put].
  - constructor; constructor.
  - pose proof S as S0. apply ssorted_cons in S. destruct S as [S L]. cbn [fst] in L.
    destruct (key_eqb k1 n) eqn:E.
    + apply key_eqb_eq in E. subst k1. apply ssorted_cons. split; [exact S|exact L].
    + destruct (lex_lt n k1) eqn:Lk.
      * apply ssorted_cons. split; [exact S0|]. intros y [<-|Hy]; [exact Lk|].
        eapply lex_lt_trans; [exact Lk|apply L; exact Hy].
      * apply ssorted_cons. split; [apply IH; exact S|].
        intros [k' a'] Hy. cbn [fst].
        assert (In k' (map fst (ssys_put s n m))) as Hk.
        { apply in_map_iff. exists (k', a'). split; [reflexivity|exact Hy]. }
        apply ssys_put_names in Hk. destruct Hk as [->|Hk].
        -- destruct (lex_lt k1 n) eqn:X; [reflexivity|]. exfalso.
           assert (n = k1) as -> by (apply lex_lt_trich; assumption).
           rewrite key_eqb_refl in E. discriminate.
        -- apply in_map_iff in Hk. destruct Hk as ([k2 a2] & E2 & Hk). cbn [fst] in E2. subst k2.
           apply (L _ Hk).
Qed.

Lemma ssys_del_incl s n x : In x (ssys_del s n) -> In x s.
Proof.
  induction s as [|[k1 v1] s IH]; cbn [ssys_del]; [intros []|].
  destruct (key_eqb k1 n); [intros H; right; exact H|].
  intros [H|H]; [left; exact H|right; apply IH; exact H].
Qed.

Lemma ssys_del_sorted s n : ssorted s -> ssorted (ssys_del s n).
Proof.
  induction s as [|[k1 v1] s IH]; intros S; cbn [ssys_del]; [exact S|].
  apply ssorted_cons in S. destruct S as [S L].
  destruct (key_eqb k1 n); [exact S|]. apply ssorted_cons. split; [apply IH; exact S|].
  intros y Hy. apply L. eapply ssys_del_incl. exact Hy.
Qed.

Lemma ssys_get_notin s n : (forall m, ~ In (n, m) s) -> ssys_get s n = None.
Proof.
  intros H. destruct (ssys_get s n) as [m|] eqn:E; [|reflexivity].
  exfalso. apply (H m). apply ssys_get_in. exact E.
Qed.

Lemma ssys_get_del s n n' : ssorted s ->
  ssys_get (ssys_del s n) n' = if key_eqb n n' then None else ssys_get s n'.
Proof.
  induction s as [|[k1 v1] s IH]; intros S; cbn [ssys_del ssys_get].
  - destruct (key_eqb n n'); reflexivity.
  - apply ssorted_cons in S. destruct S as [S L]. cbn [fst] in L.
    destruct (key_eqb k1 n) eqn:E.
    + apply key_eqb_eq in E. subst k1. destruct (key_eqb n n') eqn:E1; [|reflexivity].
      apply key_eqb_eq in E1. subst n'. apply ssys_get_notin. intros m H.
      specialize (L _ H). cbn [fst] in L. rewrite lex_lt_irrefl in L. discriminate.
    + cbn [ssys_get]. rewrite (IH S). destruct (key_eqb k1 n') eqn:E1; [|reflexivity].
      apply key_eqb_eq in E1. subst k1. rewrite key_eqb_sym, E. reflexivity.
Qed.

(** the table of user trees *)
Lemma trees_get_set ts i t j :
  trees_get (trees_set ts i t) j = if N.eqb i j then Some t else trees_get ts j.
Proof.
  induction ts as [|[i1 t1] ts IH]; cbn [trees_set trees_get]; [reflexivity|].
  destruct (N.eqb_spec i1 i) as [->|Hn]; cbn [trees_get].
  - destruct (N.eqb i j); reflexivity.
  - rewrite IH. destruct (N.eqb_spec i1 j) as [->|Hn2]; [|reflexivity].
    destruct (N.eqb_spec i j); [congruence|reflexivity].
Qed.

Lemma trees_get_del ts i j : i <> j -> trees_get (trees_del ts i) j = trees_get ts j.
Proof.
  intros Hn. induction ts as [|[i1 t1] ts IH]; cbn [trees_del trees_get]; [reflexivity|].
  destruct (N.eqb_spec i1 i) as [->|Hn1].
  - destruct (N.eqb_spec i j); [contradiction|reflexivity].
  - cbn [trees_get]. rewrite IH. reflexivity.
Qed.

(** ** B. facts about the tree operations *)
Lemma WFL_mono c c' ls d : WFL c ls d -> c <= c' -> WFL c' ls d.
Proof.
  intros W Hc. constructor.
  - exact (wl_nodup _ _ _ W).
  - exact (wl_layer _ _ _ W).
  - intros p root i E Hi. pose proof (wl_ids _ _ _ W p root i E Hi). lia.
  - exact (wl_disj _ _ _ W).
  - exact (wl_link _ _ _ W).
  - exact (wl_parent _ _ _ W).
  - exact (wl_nz _ _ _ W).
  - exact (wl_exc _ _ _ W).
Qed.

Lemma WF_store_mono c c' tr : WF_store c tr -> c <= c' -> WF_store c' tr.
Proof.
  unfold WF_store. destruct (t_null tr); [intros; exact I|]. apply WFL_mono.
Qed.

Lemma put_not_null tr k v u c tr' po c' : put tr k v u c = Some (tr', po, c') -> t_null tr' = false.
Proof.
  unfold put. destruct (t_null tr).
  - destruct (new_chain [] (path_of_key k) v c []) as [ls c1]. intros H. injection H as <- _ _. reflexivity.
  - destruct (put_walk (path_of_key k) [] (t_layers tr) v u c) as [[[ls o] c1]|]; [|discriminate].
    intros H. injection H as <- _ _. reflexivity.
Qed.

Lemma remove_null tr k tr' ro : remove tr k = Some (tr', ro) -> t_null tr' = t_null tr.
Proof.
  unfold remove. destruct (t_null tr) eqn:E.
  - intros H. injection H as <- _. exact E.
  - destruct (remove_walk (path_of_key k) [] (t_layers tr)) as [[ls o]|]; [|discriminate].
    intros H. injection H as <- _. reflexivity.
Qed.

Lemma abs_tree_null tr : t_null tr = true -> abs_tree tr = [].
Proof. unfold abs_tree. intros ->. reflexivity. Qed.

Lemma get_some_not_null tr n a : smap_get (abs_tree tr) n = Some a -> t_null tr = false.
Proof.
  destruct (t_null tr) eqn:E; [|reflexivity]. rewrite (abs_tree_null tr E). discriminate.
Qed.

(** ** C. the simulation invariant *)
Definition sval (sid : N) : aval := {| av_bytes := [sid]; av_inline := false |}.

(** [stor s n sid]: the outer tree maps name [n] to the storage with id [sid] *)
Definition stor (s : sys) (n : key) (sid : N) : Prop :=
  smap_get (abs_tree (sy_outer s)) n = Some (sval sid).

Record SysInv (s : sys) (p : spec_state) : Prop := {
  si_outer : WF_store (sy_ctr s) (sy_outer s);
  si_null : sp_null p = t_null (sy_outer s);
  si_sorted : ssorted (sp_map p);
  si_bytes : Forall bytes (map fst (sp_map p));
  si_names : forall n, bytes n ->
    match ssys_get (sp_map p) n with
    | None => smap_get (abs_tree (sy_outer s)) n = None
    | Some m => exists sid tr,
        stor s n sid /\ sid < sy_ctr s /\
        trees_get (sy_trees s) sid = Some tr /\
        WF_store (sy_ctr s) tr /\ t_null tr = false /\ abs_tree tr = m
    end;
  si_inj : forall n1 n2 sid, bytes n1 -> bytes n2 -> stor s n1 sid -> stor s n2 sid -> n1 = n2
}.

Lemma SysInv_init : SysInv sys_init spec_init.
Proof.
  constructor; cbn.
  - exact I.
  - reflexivity.
  - constructor.
  - constructor.
  - intros n _. reflexivity.
  - intros n1 n2 sid _ _ H. unfold stor in H. cbn in H. discriminate.
Qed.

(** every name of the outer abstraction is a name of the specification *)
Lemma inv_get_some s p n a : SysInv s p -> bytes n ->
  smap_get (abs_tree (sy_outer s)) n = Some a ->
  exists m sid tr, ssys_get (sp_map p) n = Some m /\ a = sval sid /\
    stor s n sid /\ sid < sy_ctr s /\ trees_get (sy_trees s) sid = Some tr /\
    WF_store (sy_ctr s) tr /\ t_null tr = false /\ abs_tree tr = m.
Proof.
  intros I Hb G. pose proof (si_names _ _ I n Hb) as H.
  destruct (ssys_get (sp_map p) n) as [m|]; [|congruence].
  destruct H as (sid & tr & St & H). exists m, sid, tr. split; [reflexivity|].
  split; [unfold stor in St; congruence|]. split; [exact St|exact H].
Qed.

Lemma sid_of_abs v sid : abs_value v = sval sid -> sid_of_value v = sid.
Proof.
  unfold abs_value, sval, sid_of_value. intros H. injection H as H _. rewrite H. reflexivity.
Qed.

(** [find_storage] agrees with the specification's map *)
Lemma find_storage_spec s p n : SysInv s p -> bytes n ->
  match ssys_get (sp_map p) n with
  | None => find_storage s n = Some None
  | Some m => exists sid tr,
      find_storage s n = Some (Some sid) /\ stor s n sid /\ sid < sy_ctr s /\
      trees_get (sy_trees s) sid = Some tr /\
      WF_store (sy_ctr s) tr /\ t_null tr = false /\ abs_tree tr = m
  end.
Proof.
  intros I Hb. pose proof (si_names _ _ I n Hb) as H.
  destruct (get_refines _ _ n (si_outer _ _ I) Hb) as (o & G & R).
  unfold find_storage. rewrite G.
  destruct (ssys_get (sp_map p) n) as [m|].
  - destruct H as (sid & tr & St & H). exists sid, tr. split; [|split; [exact St|exact H]].
    unfold stor in St. rewrite St in R. destruct R as [R1 R2]. rewrite R1.
    destruct (go_value o) as [v|]; [|discriminate]. cbn [option_map] in R2.
    assert (abs_value v = sval sid) as R3 by congruence.
    rewrite (sid_of_abs v sid R3). reflexivity.
  - rewrite H in R. destruct R as [R1 R2]. rewrite R1. reflexivity.
Qed.

(** the outer tree with a null root has no storages *)
Lemma inv_null_empty s p : SysInv s p -> t_null (sy_outer s) = true -> sp_map p = [].
Proof.
  intros I Hn. pose proof (si_bytes _ _ I) as Hb. pose proof (si_names _ _ I) as H.
  destruct (sp_map p) as [|[n m] r]; [reflexivity|]. exfalso.
  cbn [map fst] in Hb. apply Forall_cons_iff in Hb. destruct Hb as [Hb _].
  specialize (H n Hb). cbn [ssys_get] in H. rewrite key_eqb_refl in H.
  destruct H as (sid & tr & St & _). unfold stor in St. rewrite (abs_tree_null _ Hn) in St. discriminate.
Qed.

Lemma key_eqb_false_neq a b : key_eqb a b = false -> a <> b.
Proof. intros E ->. rewrite key_eqb_refl in E. discriminate. Qed.

(** replacing the user tree of storage [n]: the generic preservation lemma for put / remove *)
Lemma SysInv_update s p n sid tr' ctr' p' :
  SysInv s p -> bytes n -> stor s n sid -> sid < sy_ctr s ->
  WF_store ctr' tr' -> t_null tr' = false -> sy_ctr s <= ctr' ->
  sp_null p' = sp_null p -> ssorted (sp_map p') -> Forall bytes (map fst (sp_map p')) ->
  (forall n', ssys_get (sp_map p') n' =
              if key_eqb n n' then Some (abs_tree tr') else ssys_get (sp_map p) n') ->
  SysInv {| sy_ctr := ctr'; sy_outer := sy_outer s; sy_trees := trees_set (sy_trees s) sid tr' |} p'.
Proof.
  intros I Hb St Hs W' Hn' Hc Hnull Hsort Hbytes Hget.
  constructor; cbn [sy_ctr sy_outer sy_trees].
  - apply (WF_store_mono _ _ _ (si_outer _ _ I) Hc).
  - rewrite Hnull. exact (si_null _ _ I).
  - exact Hsort.
  - exact Hbytes.
  - intros n' Hb'. rewrite Hget. destruct (key_eqb n n') eqn:E.
    + apply key_eqb_eq in E. subst n'. exists sid, tr'. unfold stor. cbn [sy_outer].
      split; [exact St|]. split; [lia|]. split; [rewrite trees_get_set, N.eqb_refl; reflexivity|].
      split; [exact W'|]. split; [exact Hn'|reflexivity].
    + pose proof (si_names _ _ I n' Hb') as H. destruct (ssys_get (sp_map p) n') as [m|]; [|exact H].
      destruct H as (sid2 & tr2 & St2 & Hs2 & G2 & W2 & N2 & A2). exists sid2, tr2.
      split; [exact St2|]. split; [lia|]. split.
      * rewrite trees_get_set. destruct (N.eqb_spec sid sid2) as [->|Hne]; [|exact G2].
        exfalso. apply (key_eqb_false_neq _ _ E). apply (si_inj _ _ I n n' sid2 Hb Hb' St St2).
      * split; [apply (WF_store_mono _ _ _ W2 Hc)|]. split; [exact N2|exact A2].
  - intros n1 n2 sd H1 H2 S1 S2. apply (si_inj _ _ I n1 n2 sd H1 H2 S1 S2).
Qed.

(** the same, when the abstraction of the tree did not change *)
Lemma SysInv_same s p n sid tr tr' ctr' :
  SysInv s p -> bytes n -> stor s n sid -> sid < sy_ctr s ->
  ssys_get (sp_map p) n = Some (abs_tree tr) ->
  WF_store ctr' tr' -> t_null tr' = false -> sy_ctr s <= ctr' -> abs_tree tr' = abs_tree tr ->
  SysInv {| sy_ctr := ctr'; sy_outer := sy_outer s; sy_trees := trees_set (sy_trees s) sid tr' |} p.
Proof.
  intros I Hb St Hs G W' Hn' Hc Ha.
  apply (SysInv_update s p n sid tr' ctr' p I Hb St Hs W' Hn' Hc eq_refl (si_sorted _ _ I) (si_bytes _ _ I)).
  intros n'. destruct (key_eqb n n') eqn:E; [|reflexivity].
  apply key_eqb_eq in E. subst n'. rewrite Ha. exact G.
Qed.

(** and when the specification replaces the map of [n] *)
Lemma SysInv_put s p n sid tr' ctr' :
  SysInv s p -> bytes n -> stor s n sid -> sid < sy_ctr s ->
  WF_store ctr' tr' -> t_null tr' = false -> sy_ctr s <= ctr' ->
  SysInv {| sy_ctr := ctr'; sy_outer := sy_outer s; sy_trees := trees_set (sy_trees s) sid tr' |}
         {| sp_null := sp_null p; sp_map := ssys_put (sp_map p) n (abs_tree tr') |}.
Proof.
  intros I Hb St Hs W' Hn' Hc.
  apply (SysInv_update s p n sid tr' ctr' _ I Hb St Hs W' Hn' Hc); cbn [sp_null sp_map].
  - reflexivity.
  - apply ssys_put_sorted. exact (si_sorted _ _ I).
  - apply Forall_forall. intros x Hx. apply ssys_put_names in Hx. destruct Hx as [->|Hx]; [exact Hb|].
    pose proof (si_bytes _ _ I) as F. rewrite Forall_forall in F. exact (F x Hx).
  - intros n'. apply ssys_get_put.
Qed.

(** replacing the outer tree by one with the same abstraction (duplicate create) *)
Lemma SysInv_outer_same s p outer' c' :
  SysInv s p -> WF_store c' outer' -> abs_tree outer' = abs_tree (sy_outer s) ->
  t_null outer' = t_null (sy_outer s) -> sy_ctr s <= c' ->
  SysInv {| sy_ctr := c'; sy_outer := outer'; sy_trees := sy_trees s |} p.
Proof.
  intros I W' Ha Hn Hc. constructor; unfold stor; cbn [sy_ctr sy_outer sy_trees].
  - exact W'.
  - rewrite Hn. exact (si_null _ _ I).
  - exact (si_sorted _ _ I).
  - exact (si_bytes _ _ I).
  - intros n Hb. rewrite Ha. pose proof (si_names _ _ I n Hb) as H.
    destruct (ssys_get (sp_map p) n) as [m|]; [|exact H].
    destruct H as (sid & tr & St & Hs & G & W & N & A). exists sid, tr.
    split; [exact St|]. split; [lia|]. split; [exact G|]. split; [apply (WF_store_mono _ _ _ W Hc)|].
    split; [exact N|exact A].
  - rewrite Ha. exact (si_inj _ _ I).
Qed.

(** ** one step *)
Definition step_ok (s : sys) (p : spec_state) (o : op) : Prop :=
  let (s', x) := exec s o in
  let (p', y) := spec_exec p o in
  abs_out x = y /\ SysInv s' p'.

Lemma step_find s p n : SysInv s p -> bytes n -> step_ok s p (OFind n).
Proof.
  intros I Hb. unfold step_ok, exec, spec_exec. pose proof (find_storage_spec s p n I Hb) as F.
  destruct (ssys_get (sp_map p) n) as [m|].
  - destruct F as (sid & tr & F & _). rewrite F. split; [reflexivity|exact I].
  - rewrite F. split; [reflexivity|exact I].
Qed.

Lemma step_get s p n k : SysInv s p -> bytes n -> bytes k -> step_ok s p (OGet n k).
Proof.
  intros I Hb Hk. unfold step_ok, exec, spec_exec. pose proof (find_storage_spec s p n I Hb) as F.
  destruct (ssys_get (sp_map p) n) as [m|].
  - destruct F as (sid & tr & F & _ & _ & G & W & _ & A). rewrite F, G. subst m.
    destruct (get_refines _ _ k W Hk) as (o & E & R). rewrite E. split; [|exact I].
    cbn [abs_out]. destruct (smap_get (abs_tree tr) k) as [a|].
    + destruct R as [R1 R2]. rewrite R1, R2. reflexivity.
    + destruct R as [R1 R2]. rewrite R1, R2. reflexivity.
  - rewrite F. split; [reflexivity|exact I].
Qed.

Lemma step_put s p n k bs al u il : SysInv s p -> bytes n -> bytes k -> step_ok s p (OPut n k bs al u il).
Proof.
  intros I Hb Hk. unfold step_ok, exec, spec_exec. pose proof (find_storage_spec s p n I Hb) as F.
  destruct (ssys_get (sp_map p) n) as [m|] eqn:Gs.
  - destruct F as (sid & tr & F & St & Hs & G & W & N & A). rewrite F, G. subst m.
    assert (WF_store (sy_ctr s + 1) tr) as W1 by (apply (WF_store_mono _ _ _ W); lia).
    destruct (put_refines _ _ k (mk_value (sy_ctr s) bs al il) u W1 Hk) as (tr' & po & c' & E & W' & Hc & R).
    rewrite E. pose proof (put_not_null _ _ _ _ _ _ _ _ E) as N'.
    assert (sy_ctr s <= c') as Hc' by lia.
    pose proof (SysInv_put s p n sid tr' c' I Hb St Hs W' N' Hc') as IP.
    pose proof (fun Ha => SysInv_same s p n sid tr tr' c' I Hb St Hs Gs W' N' Hc' Ha) as IS.
    destruct (smap_get (abs_tree tr) k) as [a|].
    + destruct u.
      * destruct R as [R1 R2]. split; [cbn [abs_out]; rewrite R1; reflexivity|exact (IS R2)].
      * destruct R as [R1 R2]. split; [cbn [abs_out]; rewrite R1; reflexivity|].
        rewrite R2 in IP. exact IP.
    + destruct R as [R1 R2]. split; [cbn [abs_out]; rewrite R1; reflexivity|].
      rewrite R2 in IP. exact IP.
  - rewrite F. split; [reflexivity|exact I].
Qed.

Lemma step_remove s p n k : SysInv s p -> bytes n -> bytes k -> step_ok s p (ORemove n k).
Proof.
  intros I Hb Hk. unfold step_ok, exec, spec_exec. pose proof (find_storage_spec s p n I Hb) as F.
  destruct (ssys_get (sp_map p) n) as [m|] eqn:Gs.
  - destruct F as (sid & tr & F & St & Hs & G & W & N & A). rewrite F, G. subst m.
    destruct (remove_refines _ _ k W Hk) as (tr' & ro & E & W' & R).
    rewrite E. rewrite N in R. pose proof (remove_null _ _ _ _ E) as N'. rewrite N in N'.
    pose proof (SysInv_put s p n sid tr' (sy_ctr s) I Hb St Hs W' N' (N.le_refl _)) as IP.
    pose proof (fun Ha => SysInv_same s p n sid tr tr' (sy_ctr s) I Hb St Hs Gs W' N' (N.le_refl _) Ha) as IS.
    destruct (smap_get (abs_tree tr) k) as [a|].
    + destruct R as [R1 R2]. split; [cbn [abs_out]; rewrite R1; reflexivity|].
      rewrite R2 in IP. exact IP.
    + destruct R as [R1 R2]. split; [cbn [abs_out]; rewrite R1; reflexivity|exact (IS R2)].
  - rewrite F. split; [reflexivity|exact I].
Qed.

Lemma step_destroy s p : SysInv s p -> step_ok s p ODestroy.
Proof.
  intros I. unfold step_ok, exec, spec_exec. pose proof (si_null _ _ I) as Hn.
  destruct (t_null (sy_outer s)) eqn:E.
  - rewrite Hn. split; [reflexivity|]. pose proof (inv_null_empty s p I E) as Hm.
    destruct p as [pn pm]. cbn [sp_null sp_map] in Hn, Hm. subst pn pm. exact I.
  - rewrite Hn. split; [reflexivity|]. constructor; cbn.
    + exact Logic.I.
    + reflexivity.
    + constructor.
    + constructor.
    + intros n _. reflexivity.
    + intros n1 n2 sid _ _ H. unfold stor in H. cbn in H. discriminate.
Qed.

Lemma sval_inj a b : sval a = sval b -> a = b.
Proof. unfold sval. intros H. injection H as H. exact H. Qed.

Lemma step_create s p n : SysInv s p -> bytes n -> step_ok s p (OCreate n).
Proof.
  intros I Hb. unfold step_ok, exec, spec_exec. cbv zeta.
  assert (WF_store (sy_ctr s + 2) (sy_outer s)) as W2 by (apply (WF_store_mono _ _ _ (si_outer _ _ I)); lia).
  destruct (put_refines _ _ n (storage_value (sy_ctr s + 1) (sy_ctr s)) true W2 Hb)
    as (tr' & po & c' & E & W' & Hc & R).
  rewrite E. pose proof (put_not_null _ _ _ _ _ _ _ _ E) as N'.
  pose proof (si_names _ _ I n Hb) as Hn.
  destruct (smap_get (abs_tree (sy_outer s)) n) as [a|] eqn:G.
  - (* the name exists: unique restriction, nothing observable changes *)
    destruct R as [R1 R2]. rewrite R1.
    destruct (ssys_get (sp_map p) n) as [m|]; [|discriminate].
    split; [reflexivity|]. apply (SysInv_outer_same s p tr' c' I W' R2); [|lia].
    rewrite N'. symmetry. exact (get_some_not_null _ _ _ G).
  - destruct R as [R1 R2]. rewrite R1.
    destruct (ssys_get (sp_map p) n) as [m|] eqn:Gs.
    { destruct Hn as (sid & tr & St & _). unfold stor in St. congruence. }
    split; [reflexivity|].
    assert (forall n', smap_get (abs_tree tr') n' =
                       if key_eqb n n' then Some (sval (sy_ctr s)) else smap_get (abs_tree (sy_outer s)) n') as GP.
    { intros n'. rewrite R2, smap_get_put. reflexivity. }
    constructor; unfold stor; cbn [sy_ctr sy_outer sy_trees sp_null sp_map].
    + exact W'.
    + symmetry. exact N'.
    + apply ssys_put_sorted. exact (si_sorted _ _ I).
    + apply Forall_forall. intros x Hx. apply ssys_put_names in Hx. destruct Hx as [->|Hx]; [exact Hb|].
      pose proof (si_bytes _ _ I) as F. rewrite Forall_forall in F. exact (F x Hx).
    + intros n' Hb'. rewrite ssys_get_put. destruct (key_eqb n n') eqn:E1.
      * exists (sy_ctr s), (empty_tree (sy_ctr s)). rewrite GP, E1.
        split; [reflexivity|]. split; [lia|].
        split; [rewrite trees_get_set, N.eqb_refl; reflexivity|].
        destruct (empty_tree_wf c' (sy_ctr s)) as [We Ae]; [lia|].
        split; [exact We|]. split; [reflexivity|exact Ae].
      * pose proof (si_names _ _ I n' Hb') as H.
        destruct (ssys_get (sp_map p) n') as [m|]; [|rewrite GP, E1; exact H].
        destruct H as (sid2 & tr2 & St2 & Hs2 & G2 & Wt & N2 & A2). exists sid2, tr2.
        split; [rewrite GP, E1; exact St2|]. split; [lia|]. split.
        -- rewrite trees_get_set. destruct (N.eqb_spec (sy_ctr s) sid2) as [X|_]; [lia|exact G2].
        -- split; [apply (WF_store_mono _ _ _ Wt); lia|]. split; [exact N2|exact A2].
    + intros n1 n2 sd H1 H2. rewrite !GP.
      destruct (key_eqb n n1) eqn:E1; destruct (key_eqb n n2) eqn:E2.
      * intros _ _. apply key_eqb_eq in E1, E2. congruence.
      * intros S1 S2. exfalso. injection S1 as S1. subst sd.
        destruct (inv_get_some s p n2 _ I H2 S2) as (m & sid & tr & _ & X & _ & Hs & _).
        apply sval_inj in X. lia.
      * intros S1 S2. exfalso. injection S2 as S2. subst sd.
        destruct (inv_get_some s p n1 _ I H1 S1) as (m & sid & tr & _ & X & _ & Hs & _).
        apply sval_inj in X. lia.
      * intros S1 S2. apply (si_inj _ _ I n1 n2 sd H1 H2 S1 S2).
Qed.

Lemma step_drop s p n : SysInv s p -> bytes n -> step_ok s p (ODropStorage n).
Proof.
  intros I Hb. unfold step_ok, exec, spec_exec. cbv zeta.
  pose proof (find_storage_spec s p n I Hb) as F.
  destruct (ssys_get (sp_map p) n) as [m|] eqn:Gs.
  - destruct F as (sid & tr & F & St & Hs & G & W & N & A). rewrite F.
    destruct (remove_refines _ _ n (si_outer _ _ I) Hb) as (tr' & ro & E & W' & R).
    rewrite E. pose proof (remove_null _ _ _ _ E) as N'.
    pose proof St as St0. unfold stor in St0.
    rewrite (get_some_not_null _ _ _ St0), St0 in R. destruct R as [R1 R2]. rewrite R1.
    split; [reflexivity|].
    pose proof (abs_tree_sorted _ _ (si_outer _ _ I)) as So.
    assert (forall n', smap_get (abs_tree tr') n' =
                       if key_eqb n n' then None else smap_get (abs_tree (sy_outer s)) n') as GD.
    { intros n'. rewrite R2. apply smap_get_del. exact So. }
    constructor; unfold stor; cbn [sy_ctr sy_outer sy_trees sp_null sp_map].
    + exact W'.
    + rewrite N'. exact (si_null _ _ I).
    + apply ssys_del_sorted. exact (si_sorted _ _ I).
    + apply Forall_forall. intros x Hx. apply in_map_iff in Hx. destruct Hx as (y & <- & Hy).
      pose proof (si_bytes _ _ I) as Fb. rewrite Forall_forall in Fb. apply Fb.
      apply in_map. eapply ssys_del_incl. exact Hy.
    + intros n' Hb'. rewrite (ssys_get_del _ _ _ (si_sorted _ _ I)). destruct (key_eqb n n') eqn:E1.
      * rewrite GD, E1. reflexivity.
      * pose proof (si_names _ _ I n' Hb') as H.
        destruct (ssys_get (sp_map p) n') as [m2|]; [|rewrite GD, E1; exact H].
        destruct H as (sid2 & tr2 & St2 & Hs2 & G2 & Wt & N2 & A2). exists sid2, tr2.
        split; [rewrite GD, E1; exact St2|]. split; [exact Hs2|]. split.
        -- rewrite trees_get_del; [exact G2|]. intros ->.
           apply (key_eqb_false_neq _ _ E1). apply (si_inj _ _ I n n' sid2 Hb Hb' St St2).
        -- split; [exact Wt|]. split; [exact N2|exact A2].
    + intros n1 n2 sd H1 H2. rewrite !GD.
      destruct (key_eqb n n1); [discriminate|]. destruct (key_eqb n n2); [discriminate|].
      intros S1 S2. apply (si_inj _ _ I n1 n2 sd H1 H2 S1 S2).
  - rewrite F. split; [reflexivity|exact I].
Qed.

Theorem step_refines s p o : SysInv s p -> op_bytes o -> noscan o = true -> step_ok s p o.
Proof.
  intros I Hb Hn. destruct o; cbn [op_bytes noscan] in Hb, Hn; try discriminate.
  - apply step_create; assumption.
  - apply step_drop; assumption.
  - apply step_find; assumption.
  - destruct Hb. apply step_put; assumption.
  - destruct Hb. apply step_get; assumption.
  - destruct Hb. apply step_remove; assumption.
  - apply step_destroy; assumption.
Qed.

(** ** D. operation sequences *)
Lemma exec_all_refines : forall ops s p, SysInv s p ->
  Forall (fun o => noscan o = true) ops -> Forall op_bytes ops ->
  map abs_out (snd (exec_all s ops)) = snd (spec_exec_all p ops) /\
  SysInv (fst (exec_all s ops)) (fst (spec_exec_all p ops)).
Proof.
  induction ops as [|o ops IH]; intros s p I Hn Hb; cbn [exec_all spec_exec_all].
  - split; [reflexivity|exact I].
  - apply Forall_cons_iff in Hn, Hb. destruct Hn as [Hn1 Hn], Hb as [Hb1 Hb].
    pose proof (step_refines s p o I Hb1 Hn1) as S. unfold step_ok in S.
    destruct (exec s o) as [s1 x]. destruct (spec_exec p o) as [p1 y]. destruct S as [S1 S2].
    specialize (IH s1 p1 S2 Hn Hb).
    destruct (exec_all s1 ops) as [s2 xs]. destruct (spec_exec_all p1 ops) as [p2 ys].
    cbn [fst snd map] in *. destruct IH as [IH1 IH2]. split; [|exact IH2].
    rewrite S1, IH1. reflexivity.
Qed.

Theorem sys_refines_spec : forall ops,
  Forall (fun o => noscan o = true) ops -> Forall op_bytes ops ->
  map abs_out (snd (exec_all sys_init ops)) = snd (spec_exec_all spec_init ops).
Proof. intros ops Hn Hb. exact (proj1 (exec_all_refines ops _ _ SysInv_init Hn Hb)). Qed.

Theorem reachable_inv : forall ops,
  Forall (fun o => noscan o = true) ops -> Forall op_bytes ops ->
  SysInv (fst (exec_all sys_init ops)) (fst (spec_exec_all spec_init ops)).
Proof. intros ops Hn Hb. exact (proj2 (exec_all_refines ops _ _ SysInv_init Hn Hb)). Qed.

(** *** the storage names of the two sides are the same list *)
Lemma ssys_in_get s n m : ssorted s -> In (n, m) s -> ssys_get s n = Some m.
Proof.
  induction s as [|[k1 v1] s IH]; intros S H; [destruct H|]. cbn [ssys_get].
  apply ssorted_cons in S. destruct S as [S L]. cbn [fst] in L.
  destruct (key_eqb k1 n) eqn:E.
  - apply key_eqb_eq in E. subst k1. destruct H as [H|H]; [congruence|].
    specialize (L _ H). cbn [fst] in L. rewrite lex_lt_irrefl in L. discriminate.
  - destruct H as [H|H]; [|apply IH; assumption].
    injection H as -> ->. rewrite key_eqb_refl in E. discriminate.
Qed.

Definition key_sorted (l : list key) : Prop := StronglySorted (fun a b => lex_lt a b = true) l.

Lemma sorted_map_fst {B} (m : list (key * B)) :
  StronglySorted (fun x y => lex_lt (fst x) (fst y) = true) m -> key_sorted (map fst m).
Proof.
  induction 1 as [|x m S IH F]; cbn [map]; [constructor|]. constructor; [exact IH|].
  apply Forall_forall. intros k Hk. apply in_map_iff in Hk. destruct Hk as (y & <- & Hy).
  rewrite Forall_forall in F. exact (F y Hy).
Qed.

Lemma key_sorted_ext : forall l1 l2, key_sorted l1 -> key_sorted l2 ->
  (forall x, In x l1 <-> In x l2) -> l1 = l2.
Proof.
  induction l1 as [|a l1 IH]; intros l2 S1 S2 H.
  - destruct l2 as [|b l2]; [reflexivity|]. exfalso. apply (H b). left. reflexivity.
  - destruct l2 as [|b l2]; [exfalso; apply (H a); left; reflexivity|].
    apply StronglySorted_inv in S1, S2. destruct S1 as [S1 L1], S2 as [S2 L2].
    rewrite Forall_forall in L1, L2.
    assert (a = b) as ->.
    { assert (In a (b :: l2)) as Ha by (apply H; left; reflexivity).
      assert (In b (a :: l1)) as Hb by (apply H; left; reflexivity).
      destruct Ha as [->|Ha]; [reflexivity|]. destruct Hb as [->|Hb]; [reflexivity|].
      pose proof (L2 _ Ha) as X. pose proof (L1 _ Hb) as Y.
      apply lex_lt_asym in X. congruence. }
    f_equal. apply IH; [exact S1|exact S2|]. intros x. split; intros Hx.
    + assert (In x (b :: l2)) as X by (apply H; right; exact Hx).
      destruct X as [<-|X]; [|exact X]. specialize (L1 _ Hx). rewrite lex_lt_irrefl in L1. discriminate.
    + assert (In x (b :: l1)) as X by (apply H; right; exact Hx).
      destruct X as [<-|X]; [|exact X]. specialize (L2 _ Hx). rewrite lex_lt_irrefl in L2. discriminate.
Qed.

Theorem SysInv_names s p : SysInv s p -> map fst (abs_tree (sy_outer s)) = map fst (sp_map p).
Proof.
  intros I. pose proof (abs_tree_sorted _ _ (si_outer _ _ I)) as So.
  apply key_sorted_ext.
  - apply sorted_map_fst. exact So.
  - apply sorted_map_fst. exact (si_sorted _ _ I).
  - intros n. split; intros H.
    + apply in_map_iff in H. destruct H as ([n' a] & <- & H). cbn [fst].
      pose proof H as H0. apply (abs_tree_in _ _ n' a (si_outer _ _ I)) in H0. destruct H0 as [Hb _].
      apply (smap_get_in _ _ _ So) in H.
      destruct (inv_get_some s p n' a I Hb H) as (m & _ & _ & G & _).
      apply ssys_get_in in G. apply in_map_iff. exists (n', m). split; [reflexivity|exact G].
    + pose proof (si_bytes _ _ I) as Fb. rewrite Forall_forall in Fb. pose proof (Fb n H) as Hb.
      apply in_map_iff in H. destruct H as ([n' m] & <- & H). cbn [fst] in *.
      pose proof (si_names _ _ I n' Hb) as X. rewrite (ssys_in_get _ _ _ (si_sorted _ _ I) H) in X.
      destruct X as (sid & tr & St & _). unfold stor in St. apply (smap_get_in _ _ _ So) in St.
      apply in_map_iff. exists (n', sval sid). split; [reflexivity|exact St].
Qed.

(** *** isolation: writing to storage [n1] does not change what a get on another name returns *)
Definition writes_to (o : op) (n : key) : Prop :=
  match o with OPut n' _ _ _ _ _ | ORemove n' _ => n' = n | _ => False end.

Lemma get_frame s s' n2 k :
  sy_outer s' = sy_outer s ->
  (forall sid, find_storage s n2 = Some (Some sid) -> trees_get (sy_trees s') sid = trees_get (sy_trees s) sid) ->
  snd (exec s' (OGet n2 k)) = snd (exec s (OGet n2 k)).
Proof.
  intros Ho Ht. unfold exec.
  assert (find_storage s' n2 = find_storage s n2) as F by (unfold find_storage; rewrite Ho; reflexivity).
  rewrite F. destruct (find_storage s n2) as [[sid|]|]; try reflexivity.
  rewrite (Ht sid eq_refl). destruct (trees_get (sy_trees s) sid) as [tr|]; [|reflexivity].
  destruct (get tr k); reflexivity.
Qed.

Lemma write_frame s p o n1 : SysInv s p -> bytes n1 -> writes_to o n1 ->
  sy_outer (fst (exec s o)) = sy_outer s /\
  forall n2 sid, bytes n2 -> n1 <> n2 -> find_storage s n2 = Some (Some sid) ->
    trees_get (sy_trees (fst (exec s o))) sid = trees_get (sy_trees s) sid.
Proof.
  intros I Hb Hw.
  assert (forall sid1 sid tr', stor s n1 sid1 ->
            forall n2, bytes n2 -> n1 <> n2 -> find_storage s n2 = Some (Some sid) ->
            trees_get (trees_set (sy_trees s) sid1 tr') sid = trees_get (sy_trees s) sid) as K.
  { intros sid1 sid tr' St n2 Hb2 Hne F2. rewrite trees_get_set.
    destruct (N.eqb_spec sid1 sid) as [->|_]; [|reflexivity]. exfalso. apply Hne.
    pose proof (find_storage_spec s p n2 I Hb2) as X.
    destruct (ssys_get (sp_map p) n2) as [m|]; [|congruence].
    destruct X as (sid2 & tr2 & F2' & St2 & _). rewrite F2 in F2'. injection F2' as <-.
    apply (si_inj _ _ I n1 n2 sid Hb Hb2 St St2). }
  pose proof (find_storage_spec s p n1 I Hb) as F.
  destruct o; try contradiction; cbn [writes_to] in Hw; subst name; unfold exec;
    (destruct (ssys_get (sp_map p) n1) as [m|];
     [destruct F as (sid1 & tr & F & St & _ & G & _); rewrite F, G
     |rewrite F; split; reflexivity]).
  - destruct (put tr k (mk_value (sy_ctr s) bytes align inline) unique (sy_ctr s + 1)) as [[[tr' po] c']|];
      [|split; reflexivity].
    cbn [fst sy_outer sy_trees]. split; [reflexivity|]. intros n2 sid. apply K. exact St.
  - destruct (remove tr k) as [[tr' ro]|]; [|split; reflexivity].
    cbn [fst sy_outer sy_trees]. split; [reflexivity|]. intros n2 sid. apply K. exact St.
Qed.

Theorem sys_isolation : forall ops o n1 n2 k,
  Forall (fun o => noscan o = true) ops -> Forall op_bytes ops ->
  bytes n1 -> bytes n2 -> writes_to o n1 -> n1 <> n2 ->
  let s := fst (exec_all sys_init ops) in
  snd (exec (fst (exec s o)) (OGet n2 k)) = snd (exec s (OGet n2 k)).
Proof.
  intros ops o n1 n2 k Hn Hb H1 H2 Hw Hne s.
  pose proof (reachable_inv ops Hn Hb) as I. fold s in I.
  destruct (write_frame s _ o n1 I H1 Hw) as [Ho Ht].
  apply get_frame; [exact Ho|]. intros sid F. apply (Ht n2 sid H2 Hne F).
Qed.

(** *** data operations on a name that is not a storage *)
Definition data_op_on (o : op) (n : key) : Prop :=
  match o with
  | OPut n' _ _ _ _ _ | OGet n' _ | ORemove n' _ | OScan n' _ => n' = n
  | _ => False
  end.

Lemma unknown_inv s p o n : SysInv s p -> bytes n -> data_op_on o n ->
  ssys_get (sp_map p) n = None ->
  exec s o = (s, RStatus St_WARN_STORAGE_NOT_EXIST) /\
  spec_exec p o = (p, AStatus St_WARN_STORAGE_NOT_EXIST).
Proof.
  intros I Hb Hd G. pose proof (find_storage_spec s p n I Hb) as F. rewrite G in F.
  destruct o; try contradiction; cbn [data_op_on] in Hd; subst name;
    unfold exec, spec_exec; rewrite F, G; split; reflexivity.
Qed.

Theorem sys_unknown_storage : forall ops o n,
  Forall (fun o => noscan o = true) ops -> Forall op_bytes ops ->
  bytes n -> data_op_on o n ->
  ssys_get (sp_map (fst (spec_exec_all spec_init ops))) n = None ->
  let s := fst (exec_all sys_init ops) in
  exec s o = (s, RStatus St_WARN_STORAGE_NOT_EXIST).
Proof.
  intros ops o n Hn Hb H1 Hd G s.
  exact (proj1 (unknown_inv s _ o n (reachable_inv ops Hn Hb) H1 Hd G)).
Qed.

(** ** axiom audit *)
Print Assumptions sys_refines_spec.
Print Assumptions reachable_inv.
Print Assumptions SysInv_names.
Print Assumptions sys_isolation.
Print Assumptions sys_unknown_storage.

(** the same, with "not a storage" read off the implementation ([OFind] says so) *)
Theorem sys_unknown_storage_find : forall ops o n,
  Forall (fun o => noscan o = true) ops -> Forall op_bytes ops ->
  bytes n -> data_op_on o n ->
  let s := fst (exec_all sys_init ops) in
  snd (exec s (OFind n)) = RStatus St_WARN_NOT_EXIST ->
  exec s o = (s, RStatus St_WARN_STORAGE_NOT_EXIST).
Proof.
  intros ops o n Hn Hb H1 Hd s Hf. pose proof (reachable_inv ops Hn Hb) as I. fold s in I.
  refine (proj1 (unknown_inv s _ o n I H1 Hd _)).
  pose proof (find_storage_spec s _ n I H1) as F.
  destruct (ssys_get (sp_map (fst (spec_exec_all spec_init ops))) n) as [m|]; [|reflexivity].
  destruct F as (sid & tr & F & _). unfold exec in Hf. rewrite F in Hf. discriminate.
Qed.
Print Assumptions sys_unknown_storage_find.
