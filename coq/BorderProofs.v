(** * BorderProofs: the border-node point-operation protocol of BorderDefs.v,
    with the repaired reader ([fixed = true]), is safe for every number of
    threads and every interleaving:

    - (G) a get that returns a value returns a non-null value that was bound to
      its key at some instant inside its interval, a get that returns
      NOT_EXIST had an instant inside its interval where the key was unbound;
    - (R)/(U) removes / puts / unique puts take effect at one step under the
      lock, and their results are justified by a binding inside the interval;
    - (M) the lock bit is a mutex and, whenever it is free, the node represents
      the abstract map (sorted, duplicate-free permutation, no cleared word);
    - (X) the original reader ([fixed = false]) returns OK with a null pointer
      that was never a binding of the key.

    One inductive invariant [Inv], preserved by every event of [bstep true]. *)
From Coq Require Import NArith List Bool PeanoNat Lia ZifyBool ZifyN.
From Yk Require Import ListAux BorderDefs.
Import ListNotations.
Local Open Scope N_scope.

(** ** Lists *)

Lemma skipn_nth_cons {A} (d : A) l r :
  (r < length l)%nat -> skipn r l = nth r l d :: skipn (S r) l.
Proof.
  revert l. induction r as [|r IH]; intros [|a l] H; cbn [length] in H; try lia.
  - reflexivity.
  - cbn [skipn nth]. rewrite (IH l) by lia. reflexivity.
Qed.

Lemma split_at {A} (d : A) l r :
  (r < length l)%nat -> l = firstn r l ++ nth r l d :: skipn (S r) l.
Proof. intros H. rewrite <- (skipn_nth_cons d l r H). symmetry. apply firstn_skipn. Qed.

Lemma in_insert_at {A} r (x y : A) l : In y (insert_at r x l) <-> y = x \/ In y l.
Proof.
  unfold insert_at. rewrite in_app_iff. cbn [In].
  rewrite <- (firstn_skipn r l) at 3. rewrite in_app_iff. intuition congruence.
Qed.

Lemma in_remove_at {A} (d : A) r y l :
  (r < length l)%nat -> (In y l <-> y = nth r l d \/ In y (remove_at r l)).
Proof.
  intros H. unfold remove_at. rewrite (split_at d l r H) at 1.
  rewrite !in_app_iff. cbn [In]. intuition congruence.
Qed.

Lemma in_firstn {A} r (y : A) l : In y (firstn r l) -> In y l.
Proof. intros H. rewrite <- (firstn_skipn r l). apply in_or_app. auto. Qed.

Lemma in_skipn {A} r (y : A) l : In y (skipn r l) -> In y l.
Proof. intros H. rewrite <- (firstn_skipn r l). apply in_or_app. auto. Qed.

Lemma in_remove_at_incl {A} r (y : A) l : In y (remove_at r l) -> In y l.
Proof.
  unfold remove_at. rewrite in_app_iff. intros [H|H].
  - eapply in_firstn; eauto.
  - eapply in_skipn; eauto.
Qed.

(** ** Sorted permutations *)

Fixpoint ksorted (ks : nat -> N) (l : list nat) : Prop :=
  match l with
  | [] => True
  | a :: r => (forall b, In b r -> ks a < ks b) /\ ksorted ks r
  end.

Lemma ksorted_app ks l1 l2 :
  ksorted ks (l1 ++ l2) <->
  ksorted ks l1 /\ ksorted ks l2 /\ (forall a b, In a l1 -> In b l2 -> ks a < ks b).
Proof.
  induction l1 as [|x l1 IH]; cbn [app ksorted In].
  - intuition.
  - rewrite IH. split.
    + intros [H1 (H2 & H3 & H4)]. repeat split; auto.
      * intros b Hb. apply H1. apply in_or_app. auto.
      * intros a b [<-|Ha] Hb; [apply H1; apply in_or_app; auto|auto].
    + intros ([H1 H2] & H3 & H4). repeat split; auto.
      intros b Hb. apply in_app_or in Hb as [Hb|Hb]; auto.
Qed.

Lemma ksorted_ext ks ks' l :
  (forall a, In a l -> ks' a = ks a) -> ksorted ks l -> ksorted ks' l.
Proof.
  induction l as [|x l IH]; cbn [ksorted]; [auto|].
  intros He [H1 H2]. split.
  - intros b Hb. rewrite !He by (cbn; auto). auto.
  - apply IH; auto. intros a Ha. apply He. cbn; auto.
Qed.

Lemma ksorted_inj ks l a b :
  ksorted ks l -> In a l -> In b l -> ks a = ks b -> a = b.
Proof.
  induction l as [|x l IH]; cbn [ksorted In]; [tauto|].
  intros [H1 H2] [<-|Ha] [<-|Hb] E; auto.
  - specialize (H1 _ Hb). lia.
  - specialize (H1 _ Ha). lia.
Qed.

Lemma ksorted_NoDup ks l : ksorted ks l -> NoDup l.
Proof.
  induction l as [|x l IH]; cbn [ksorted]; [constructor|].
  intros [H1 H2]. constructor; auto.
  intros Hin. specialize (H1 _ Hin). lia.
Qed.

Lemma ksorted_insert_at ks l r x :
  ksorted ks l ->
  (forall a, In a (firstn r l) -> ks a < ks x) ->
  (forall a, In a (skipn r l) -> ks x < ks a) ->
  ksorted ks (insert_at r x l).
Proof.
  intros H Hlt Hgt. rewrite <- (firstn_skipn r l) in H.
  apply ksorted_app in H as (H1 & H2 & H3).
  unfold insert_at. apply ksorted_app. cbn [ksorted In]. repeat split; auto.
  intros a b Ha [<-|Hb]; auto.
Qed.

Lemma ksorted_remove_at ks l r :
  (r < length l)%nat -> ksorted ks l -> ksorted ks (remove_at r l).
Proof.
  intros Hr H. rewrite (split_at 0%nat l r Hr) in H.
  apply ksorted_app in H as (H1 & H2 & H3). cbn [ksorted] in H2. destruct H2 as [H2 H4].
  unfold remove_at. apply ksorted_app. repeat split; auto.
  intros a b Ha Hb. apply H3; cbn; auto.
Qed.

Lemma ksorted_nth_not_in_remove ks l r :
  (r < length l)%nat -> ksorted ks l -> ~ In (nth r l 0%nat) (remove_at r l).
Proof.
  intros Hr H Hin. rewrite (split_at 0%nat l r Hr) in H.
  apply ksorted_app in H as (H1 & H2 & H3). cbn [ksorted] in H2. destruct H2 as [H2 H4].
  unfold remove_at in Hin. apply in_app_or in Hin as [Hin|Hin].
  - specialize (H3 _ (nth r l 0%nat) Hin (or_introl eq_refl)). lia.
  - specialize (H2 _ Hin). lia.
Qed.

(** ** [find_rank], [rank_of], [free_slot] *)

Lemma find_rank_none ks pm k r :
  find_rank ks pm k r = None <-> (forall sl, In sl pm -> ks sl <> k).
Proof.
  revert r. induction pm as [|a pm IH]; intros r; cbn [find_rank In].
  - intuition.
  - destruct (N.eqb_spec (ks a) k) as [E|E].
    + split; [discriminate|]. intros H. exfalso. apply (H a); auto.
    + rewrite IH. split.
      * intros H sl [<-|Hs]; auto.
      * intros H sl Hs. apply H; auto.
Qed.

Lemma find_rank_some ks pm k r rk sl :
  find_rank ks pm k r = Some (rk, sl) ->
  exists i, rk = (r + i)%nat /\ (i < length pm)%nat /\ nth i pm 0%nat = sl /\ ks sl = k.
Proof.
  revert r. induction pm as [|a pm IH]; intros r; cbn [find_rank]; [discriminate|].
  destruct (N.eqb_spec (ks a) k) as [E|E].
  - intros H. injection H as <- <-. exists 0%nat. cbn [length nth]. repeat split; auto; lia.
  - intros H. apply IH in H as (i & -> & Hi & Hn & Hk).
    exists (S i). cbn [length nth]. repeat split; auto; lia.
Qed.

Lemma find_rank_sorted ks pm k r sl :
  ksorted ks pm -> In sl pm -> ks sl = k -> exists rk, find_rank ks pm k r = Some (rk, sl).
Proof.
  intros Hs Hin Hk. destruct (find_rank ks pm k r) as [[rk sl']|] eqn:E.
  - pose proof E as E'. apply find_rank_some in E' as (i & _ & Hi & Hn & Hk').
    assert (sl' = sl).
    { eapply ksorted_inj; eauto; [|congruence]. subst sl'. apply nth_In. exact Hi. }
    subst. eauto.
  - exfalso. rewrite find_rank_none in E. eapply E; eauto.
Qed.

Lemma rank_of_shift ks pm k r : rank_of ks pm k r = (r + rank_of ks pm k 0)%nat.
Proof.
  revert r. induction pm as [|a pm IH]; intros r; cbn [rank_of]; [lia|].
  destruct (k <? ks a); [lia|]. rewrite (IH (S r)), (IH 1%nat). lia.
Qed.

Lemma rank_of_spec ks pm k :
  ksorted ks pm -> (forall sl, In sl pm -> ks sl <> k) ->
  let r := rank_of ks pm k 0 in
  (r <= length pm)%nat /\
  (forall a, In a (firstn r pm) -> ks a < k) /\
  (forall a, In a (skipn r pm) -> k < ks a).
Proof.
  induction pm as [|x pm IH]; intros Hs Hab; cbn [rank_of].
  - cbn. repeat split; auto; tauto.
  - cbn [ksorted] in Hs. destruct Hs as [H1 H2].
    destruct (N.ltb_spec k (ks x)) as [L|L].
    + cbn [firstn skipn length In]. repeat split; [lia|tauto|].
      intros a [<-|Ha]; auto. specialize (H1 _ Ha). lia.
    + rewrite rank_of_shift. cbn [Nat.add firstn skipn length].
      destruct IH as (I1 & I2 & I3); auto.
      { intros sl Hsl. apply Hab. cbn; auto. }
      repeat split; [lia| |auto].
      intros a [E|Ha]; auto. subst a.
      assert (ks x <> k) by (apply Hab; cbn; auto). lia.
Qed.

Lemma free_slot_spec pm i f :
  let j := free_slot pm i f in
  ~ In j pm \/ (j = (i + f)%nat /\ forall x, (i <= x < i + f)%nat -> In x pm).
Proof.
  revert i. induction f as [|f IH]; intros i; cbn [free_slot].
  - right. split; [lia|]. intros; lia.
  - destruct (existsb (Nat.eqb i) pm) eqn:E.
    + specialize (IH (S i)). cbn zeta in IH. destruct IH as [IH|[IH1 IH2]]; [auto|].
      right. split; [lia|]. intros x Hx.
      destruct (Nat.eq_dec x i) as [->|Hne].
      * apply existsb_exists in E as (y & Hy & Ey). apply Nat.eqb_eq in Ey. subst. exact Hy.
      * apply IH2. lia.
    + left. intros Hin. assert (existsb (Nat.eqb i) pm = true); [|congruence].
      apply existsb_exists. exists i. split; auto. apply Nat.eqb_refl.
Qed.

Lemma free_slot_free pm :
  NoDup pm -> (length pm < 15)%nat -> ~ In (free_slot pm 0 15) pm.
Proof.
  intros Hnd Hlen. destruct (free_slot_spec pm 0 15) as [H|[_ H]]; [exact H|].
  exfalso. assert (incl (seq 0 15) pm).
  { intros x Hx. apply in_seq in Hx. apply H. lia. }
  apply NoDup_incl_length in H0; [|apply seq_NoDup]. rewrite seq_length in H0. lia.
Qed.
