(** * BorderProofs: the border-node point-operation protocol of BorderDefs.v,
    with the repaired reader ([fixed = true]), is safe for every number of
    threads and every interleaving:

    - (G) a get that returns a value returns a non-null value that was bound to
      its key at some instant inside its interval, a get that returns
      NOT_EXIST had an instant inside its interval where the key was unbound;
    - (R)/(U) removes / puts / unique puts take effect at one step under the
      lock, and their results are justified by a binding inside the interval;
    - (M) the lock bit is a mutex and, whenever it is free, the node represents
      the abstract map (sorted, duplicate-free permutation, no cleared word);
    - (X) the original reader ([fixed = false]) returns OK with a null pointer
      that was never a binding of the key.

    One inductive invariant [Inv], preserved by every event of [bstep true]. *)
From Coq Require Import NArith List Bool PeanoNat Lia ZifyBool ZifyN.
From Yk Require Import ListAux BorderDefs.
Import ListNotations.
Local Open Scope N_scope.

(** ** Lists *)

Lemma skipn_nth_cons {A} (d : A) l r :
  (r < length l)%nat -> skipn r l = nth r l d :: skipn (S r) l.
Proof.
  revert l. induction r as [|r IH]; intros [|a l] H; cbn [length] in H; try lia.
  - reflexivity.
  - cbn [skipn nth]. rewrite (IH l) by lia. reflexivity.
Qed.

Lemma split_at {A} (d : A) l r :
  (r < length l)%nat -> l = firstn r l ++ nth r l d :: skipn (S r) l.
Proof. intros H. rewrite <- (skipn_nth_cons d l r H). symmetry. apply firstn_skipn. Qed.

Lemma in_insert_at {A} r (x y : A) l : In y (insert_at r x l) <-> y = x \/ In y l.
Proof.
  unfold insert_at. rewrite in_app_iff. cbn [In].
  rewrite <- (firstn_skipn r l) at 3. rewrite in_app_iff. intuition congruence.
Qed.

Lemma in_remove_at {A} (d : A) r y l :
  (r < length l)%nat -> (In y l <-> y = nth r l d \/ In y (remove_at r l)).
Proof.
  intros H. unfold remove_at. rewrite (split_at d l r H) at 1.
  rewrite !in_app_iff. cbn [In]. intuition congruence.
Qed.

Lemma in_firstn {A} r (y : A) l : In y (firstn r l) -> In y l.
Proof. intros H. rewrite <- (firstn_skipn r l). apply in_or_app. auto. Qed.

Lemma in_skipn {A} r (y : A) l : In y (skipn r l) -> In y l.
Proof. intros H. rewrite <- (firstn_skipn r l). apply in_or_app. auto. Qed.

Lemma in_remove_at_incl {A} r (y : A) l : In y (remove_at r l) -> In y l.
Proof.
  unfold remove_at. rewrite in_app_iff. intros [H|H].
  - eapply in_firstn; eauto.
  - eapply in_skipn; eauto.
Qed.

(** ** Sorted permutations *)

Fixpoint ksorted (ks : nat -> N) (l : list nat) : Prop :=
  match l with
  | [] => True
  | a :: r => (forall b, In b r -> ks a < ks b) /\ ksorted ks r
  end.

Lemma ksorted_app ks l1 l2 :
  ksorted ks (l1 ++ l2) <->
  ksorted ks l1 /\ ksorted ks l2 /\ (forall a b, In a l1 -> In b l2 -> ks a < ks b).
Proof.
  induction l1 as [|x l1 IH]; cbn [app ksorted In].
  - intuition.
  - rewrite IH. split.
    + intros [H1 (H2 & H3 & H4)]. repeat split; auto.
      * intros b Hb. apply H1. apply in_or_app. auto.
      * intros a b [<-|Ha] Hb; [apply H1; apply in_or_app; auto|auto].
    + intros ([H1 H2] & H3 & H4). repeat split; auto.
      intros b Hb. apply in_app_or in Hb as [Hb|Hb]; auto.
Qed.

Lemma ksorted_ext ks ks' l :
  (forall a, In a l -> ks' a = ks a) -> ksorted ks l -> ksorted ks' l.
Proof.
  induction l as [|x l IH]; cbn [ksorted]; [auto|].
  intros He [H1 H2]. split.
  - intros b Hb. rewrite !He by (cbn; auto). auto.
  - apply IH; auto. intros a Ha. apply He. cbn; auto.
Qed.

Lemma ksorted_inj ks l a b :
  ksorted ks l -> In a l -> In b l -> ks a = ks b -> a = b.
Proof.
  induction l as [|x l IH]; cbn [ksorted In]; [tauto|].
  intros [H1 H2] [<-|Ha] [<-|Hb] E; auto.
  - specialize (H1 _ Hb). lia.
  - specialize (H1 _ Ha). lia.
Qed.

Lemma ksorted_NoDup ks l : ksorted ks l -> NoDup l.
Proof.
  induction l as [|x l IH]; cbn [ksorted]; [constructor|].
  intros [H1 H2]. constructor; auto.
  intros Hin. specialize (H1 _ Hin). lia.
Qed.

Lemma ksorted_insert_at ks l r x :
  ksorted ks l ->
  (forall a, In a (firstn r l) -> ks a < ks x) ->
  (forall a, In a (skipn r l) -> ks x < ks a) ->
  ksorted ks (insert_at r x l).
Proof.
  intros H Hlt Hgt. rewrite <- (firstn_skipn r l) in H.
  apply ksorted_app in H as (H1 & H2 & H3).
  unfold insert_at. apply ksorted_app. cbn [ksorted In]. repeat split; auto.
  intros a b Ha [<-|Hb]; auto.
Qed.

Lemma ksorted_remove_at ks l r :
  (r < length l)%nat -> ksorted ks l -> ksorted ks (remove_at r l).
Proof.
  intros Hr H. rewrite (split_at 0%nat l r Hr) in H.
  apply ksorted_app in H as (H1 & H2 & H3). cbn [ksorted] in H2. destruct H2 as [H2 H4].
  unfold remove_at. apply ksorted_app. repeat split; auto.
  intros a b Ha Hb. apply H3; cbn; auto.
Qed.

Lemma ksorted_nth_not_in_remove ks l r :
  (r < length l)%nat -> ksorted ks l -> ~ In (nth r l 0%nat) (remove_at r l).
Proof.
  intros Hr H Hin. rewrite (split_at 0%nat l r Hr) in H.
  apply ksorted_app in H as (H1 & H2 & H3). cbn [ksorted] in H2. destruct H2 as [H2 H4].
  unfold remove_at in Hin. apply in_app_or in Hin as [Hin|Hin].
  - specialize (H3 _ (nth r l 0%nat) Hin (or_introl eq_refl)). lia.
  - specialize (H2 _ Hin). lia.
Qed.

(** ** [find_rank], [rank_of], [free_slot] *)

Lemma find_rank_none ks pm k r :
  find_rank ks pm k r = None <-> (forall sl, In sl pm -> ks sl <> k).
Proof.
  revert r. induction pm as [|a pm IH]; intros r; cbn [find_rank In].
  - intuition.
  - destruct (N.eqb_spec (ks a) k) as [E|E].
    + split; [discriminate|]. intros H. exfalso. apply (H a); auto.
    + rewrite IH. split.
      * intros H sl [<-|Hs]; auto.
      * intros H sl Hs. apply H; auto.
Qed.

Lemma find_rank_some ks pm k r rk sl :
  find_rank ks pm k r = Some (rk, sl) ->
  exists i, rk = (r + i)%nat /\ (i < length pm)%nat /\ nth i pm 0%nat = sl /\ ks sl = k.
Proof.
  revert r. induction pm as [|a pm IH]; intros r; cbn [find_rank]; [discriminate|].
  destruct (N.eqb_spec (ks a) k) as [E|E].
  - intros H. injection H as <- <-. exists 0%nat. cbn [length nth]. repeat split; auto; lia.
  - intros H. apply IH in H as (i & -> & Hi & Hn & Hk).
    exists (S i). cbn [length nth]. repeat split; auto; lia.
Qed.

Lemma find_rank_sorted ks pm k r sl :
  ksorted ks pm -> In sl pm -> ks sl = k -> exists rk, find_rank ks pm k r = Some (rk, sl).
Proof.
  intros Hs Hin Hk. destruct (find_rank ks pm k r) as [[rk sl']|] eqn:E.
  - pose proof E as E'. apply find_rank_some in E' as (i & _ & Hi & Hn & Hk').
    assert (sl' = sl).
    { eapply ksorted_inj; eauto; [|congruence]. subst sl'. apply nth_In. exact Hi. }
    subst. eauto.
  - exfalso. rewrite find_rank_none in E. eapply E; eauto.
Qed.

Lemma rank_of_shift ks pm k r : rank_of ks pm k r = (r + rank_of ks pm k 0)%nat.
Proof.
  revert r. induction pm as [|a pm IH]; intros r; cbn [rank_of]; [lia|].
  destruct (k <? ks a); [lia|]. rewrite (IH (S r)), (IH 1%nat). lia.
Qed.

Lemma rank_of_spec ks pm k :
  ksorted ks pm -> (forall sl, In sl pm -> ks sl <> k) ->
  let r := rank_of ks pm k 0 in
  (r <= length pm)%nat /\
  (forall a, In a (firstn r pm) -> ks a < k) /\
  (forall a, In a (skipn r pm) -> k < ks a).
Proof.
  induction pm as [|x pm IH]; intros Hs Hab; cbn [rank_of].
  - cbn. repeat split; auto; tauto.
  - cbn [ksorted] in Hs. destruct Hs as [H1 H2].
    destruct (N.ltb_spec k (ks x)) as [L|L].
    + cbn [firstn skipn length In]. repeat split; [lia|tauto|].
      intros a [<-|Ha]; auto. specialize (H1 _ Ha). lia.
    + rewrite rank_of_shift. cbn [Nat.add firstn skipn length].
      destruct IH as (I1 & I2 & I3); auto.
      { intros sl Hsl. apply Hab. cbn; auto. }
      repeat split; [lia| |auto].
      intros a [E|Ha]; auto. subst a.
      assert (ks x <> k) by (apply Hab; cbn; auto). lia.
Qed.

Lemma free_slot_spec pm i f :
  let j := free_slot pm i f in
  ~ In j pm \/ (j = (i + f)%nat /\ forall x, (i <= x < i + f)%nat -> In x pm).
Proof.
  revert i. induction f as [|f IH]; intros i; cbn [free_slot].
  - right. split; [lia|]. intros; lia.
  - destruct (existsb (Nat.eqb i) pm) eqn:E.
    + specialize (IH (S i)). cbn zeta in IH. destruct IH as [IH|[IH1 IH2]]; [auto|].
      right. split; [lia|]. intros x Hx.
      destruct (Nat.eq_dec x i) as [->|Hne].
      * apply existsb_exists in E as (y & Hy & Ey). apply Nat.eqb_eq in Ey. subst. exact Hy.
      * apply IH2. lia.
    + left. intros Hin. assert (existsb (Nat.eqb i) pm = true); [|congruence].
      apply existsb_exists. exists i. split; auto. apply Nat.eqb_refl.
Qed.

Lemma free_slot_free pm :
  NoDup pm -> (length pm < 15)%nat -> ~ In (free_slot pm 0 15) pm.
Proof.
  intros Hnd Hlen. destruct (free_slot_spec pm 0 15) as [H|[_ H]]; [exact H|].
  exfalso. assert (incl (seq 0 15) pm).
  { intros x Hx. apply in_seq in Hx. apply H. lia. }
  apply NoDup_incl_length in H0; [|apply seq_NoDup]. rewrite seq_length in H0. lia.
Qed.

(** ** [updf], [updm], [note_binding] *)

Lemma updf_same {A} (f : nat -> A) t x : updf f t x t = x.
Proof. unfold updf. rewrite Nat.eqb_refl. reflexivity. Qed.

Lemma updf_other {A} (f : nat -> A) t x t' : t' <> t -> updf f t x t' = f t'.
Proof. intros H. unfold updf. destruct (Nat.eqb_spec t' t); [contradiction|reflexivity]. Qed.

Lemma updm_same m k x : updm m k x k = x.
Proof. unfold updm. rewrite N.eqb_refl. reflexivity. Qed.

Lemma updm_other m k x k' : k' <> k -> updm m k x k' = m k'.
Proof. intros H. unfold updm. destruct (N.eqb_spec k' k); [contradiction|reflexivity]. Qed.

Lemma nb_op thr k x t : t_op (note_binding thr k x t) = t_op (thr t).
Proof.
  unfold note_binding. destruct (t_op (thr t)) as [o|] eqn:E; [|exact E].
  destruct (op_key o =? k); [reflexivity|exact E].
Qed.

Lemma nb_pc thr k x t : t_pc (note_binding thr k x t) = t_pc (thr t).
Proof.
  unfold note_binding. destruct (t_op (thr t)) as [o|]; [|reflexivity].
  destruct (op_key o =? k); reflexivity.
Qed.

Lemma nb_seen_incl thr k x t : incl (t_seen (thr t)) (t_seen (note_binding thr k x t)).
Proof.
  unfold note_binding. destruct (t_op (thr t)) as [o|]; [|apply incl_refl].
  destruct (op_key o =? k); [|apply incl_refl]. cbn [t_seen]. apply incl_tl, incl_refl.
Qed.

Lemma nb_seen_bm thr m k x t o :
  t_op (thr t) = Some o -> In (m (op_key o)) (t_seen (thr t)) ->
  In (updm m k x (op_key o)) (t_seen (note_binding thr k x t)).
Proof.
  intros Ho Hin. unfold note_binding, updm. rewrite Ho.
  destruct (op_key o =? k); cbn [t_seen In]; auto.
Qed.

Lemma nb_seen_self thr k x t o :
  t_op (thr t) = Some o -> op_key o = k -> t_seen (note_binding thr k x t) = x :: t_seen (thr t).
Proof. intros Ho Hk. unfold note_binding. rewrite Ho, Hk, N.eqb_refl. reflexivity. Qed.

(** ** The invariant *)

Definition in_cs (p : bpc) : bool :=
  match p with
  | PValidate _ _ | PUnlockRetry | PRelook _ | PInsDel | PStoreKey _ _ | PStoreLv _ _
  | PStorePerm _ _ | PUnlockIns | POverwrite _ | PClear _ _ | PShrink _ | PUnlockPlain _ => true
  | _ => false
  end.

(** the inserting_deleting bit is set exactly in this phase of the lock holder *)
Definition in_ins (p : bpc) : bool :=
  match p with
  | PStoreKey _ _ | PStoreLv _ _ | PStorePerm _ _ | PUnlockIns => true
  | _ => false
  end.

Definition plain (p : bpc) : bool :=
  match p with PShrink _ | PStorePerm _ _ => false | _ => true end.

Definition is_get (o : bop) : Prop := match o with OpGet _ => True | _ => False end.
Definition is_rem (o : bop) : Prop := match o with OpRem _ => True | _ => False end.
Definition op_ok (o : bop) : Prop := match o with OpPut _ v | OpUput _ v => v <> 0 | _ => True end.

(** what a result claims about the bindings seen during the operation *)
Definition res_ok (o : bop) (seen : list (option N)) (r : bres) : Prop :=
  match o, r with
  | OpGet _, ROkVal w => w <> 0 /\ In (Some w) seen
  | OpGet _, RNotExist => In None seen
  | OpPut _ v, ROk => In (Some v) seen
  | OpUput _ v, ROk => In (Some v) seen
  | OpUput _ _, RUnique => exists w, In (Some w) seen
  | OpRem _, ROk => In None seen
  | OpRem _, RNotFound => In None seen
  | _, _ => False
  end.

Lemma res_ok_incl o seen seen' r : incl seen seen' -> res_ok o seen r -> res_ok o seen' r.
Proof.
  intros Hi. destruct o, r; cbn [res_ok]; auto.
  - intros [H1 H2]; auto.
  - intros [w H]; eauto.
Qed.

(** the node represents the map (a cleared word = unbound: a remove between
    its two stores) *)
Definition RepP (ks : nat -> N) (pm : list nat) (lv : nat -> N) (m : N -> option N) : Prop :=
  forall k,
    (forall sl, In sl pm -> ks sl = k -> m k = if lv sl =? 0 then None else Some (lv sl)) /\
    ((forall sl, In sl pm -> ks sl <> k) -> m k = None).

Section ThreadInv.
  Variables (ins : bool) (vi : N) (pm : list nat) (ks lv : nat -> N) (m : N -> option N).

  (** "no insert completed or started writing keys since version [v] was validated" *)
  Definition Cnd (v : N) : Prop := vi = v /\ ins = false.
  Definition absent (k : N) : Prop := forall sl, In sl pm -> ks sl <> k.
  Definition some_seen (seen : list (option N)) : Prop := exists w, In (Some w) seen.
  Definition found_ok (k : N) (seen : list (option N)) (v : N) (found : option nat) : Prop :=
    v <= vi /\
    (Cnd v -> match found with None => absent k | Some sl => ks sl = k /\ some_seen seen end).
  Definition insert_pos (k : N) (r : nat) : Prop :=
    (r <= length pm)%nat /\
    (forall a, In a (firstn r pm) -> ks a < k) /\
    (forall a, In a (skipn r pm) -> k < ks a).

  Definition TP (o : bop) (seen : list (option N)) (pc : bpc) : Prop :=
    let k := op_key o in
    match pc with
    | PIdle | PStable0 | PUnlockRetry | PRelook _ => True
    | PPerm v => v <= vi /\ (Cnd v -> forall sl, In sl pm -> ks sl = k -> some_seen seen)
    | PSearch v rest =>
      v <= vi /\
      (Cnd v -> ksorted ks rest /\ (forall sl, In sl pm -> ks sl = k -> In sl rest) /\
                (forall sl, In sl rest -> ks sl = k -> some_seen seen))
    | PCheck1 v found => found_ok k seen v found
    | PLoadLv v sl => is_get o /\ found_ok k seen v (Some sl)
    | PFinal v sl w => is_get o /\ v <= vi /\ (Cnd v -> w = 0 \/ In (Some w) seen)
    | PRemFinal v => is_rem o /\ found_ok k seen v None
    | PLock v found => found_ok k seen v found
    | PValidate v found => found_ok k seen v found
    | PInsDel => absent k
    | PStoreKey sl r => ~ In sl pm /\ insert_pos k r
    | PStoreLv sl r => ~ In sl pm /\ insert_pos k r /\ ks sl = k
    | PStorePerm sl r =>
      ~ In sl pm /\ insert_pos k r /\ ks sl = k /\
      match o with OpPut _ v | OpUput _ v => lv sl = v | _ => True end
    | PUnlockIns => res_ok o seen ROk
    | POverwrite sl => In sl pm /\ ks sl = k
    | PClear sl rk => is_rem o /\ (rk < length pm)%nat /\ nth rk pm 0%nat = sl /\ ks sl = k
    | PShrink rk =>
      is_rem o /\ (rk < length pm)%nat /\ ks (nth rk pm 0%nat) = k /\ lv (nth rk pm 0%nat) = 0 /\
      In None seen
    | PUnlockPlain r => res_ok o seen r
    | PDone r => res_ok o seen r
    end.

  Definition TI (th : bthread) : Prop :=
    match t_op th with
    | None => t_pc th = PIdle
    | Some o => op_ok o /\ In (m (op_key o)) (t_seen th) /\ TP o (t_seen th) (t_pc th)
    end.
End ThreadInv.

(** the shared words as seen while thread at [p] holds the lock *)
Definition sview_cs (s : bstate) (p : bpc) : Prop :=
  b_locked s = true /\ b_insdel s = in_ins p /\
  (forall sl, In sl (b_perm s) -> b_lvs s sl = 0 ->
     match p with PShrink rk => sl = nth rk (b_perm s) 0%nat | _ => False end) /\
  (forall sl, ~ In sl (b_perm s) -> b_lvs s sl <> 0 ->
     match p with PStorePerm sl' _ => sl = sl' | _ => False end).

Definition sview_free (s : bstate) : Prop :=
  b_insdel s = false /\
  (forall sl, In sl (b_perm s) -> b_lvs s sl <> 0) /\
  (forall sl, ~ In sl (b_perm s) -> b_lvs s sl = 0).

Definition TIs (s : bstate) (th : bthread) : Prop :=
  TI (b_insdel s) (b_vins s) (b_perm s) (b_keys s) (b_lvs s) (bm s) th.

Record Inv (s : bstate) : Prop := {
  I_uniq : forall t1 t2, in_cs (t_pc (b_thr s t1)) = true -> in_cs (t_pc (b_thr s t2)) = true -> t1 = t2;
  I_holder : b_locked s = true -> exists t, in_cs (t_pc (b_thr s t)) = true;
  I_cs : forall t, in_cs (t_pc (b_thr s t)) = true -> sview_cs s (t_pc (b_thr s t));
  I_free : b_locked s = false -> sview_free s;
  I_sorted : ksorted (b_keys s) (b_perm s);
  I_rep : RepP (b_keys s) (b_perm s) (b_lvs s) (bm s);
  I_thr : forall t, TIs s (b_thr s t)
}.

Lemma inv_init : Inv binit.
Proof.
  constructor; cbn; try discriminate; auto.
  - intros _. repeat split; auto.
  - intros k. split; auto.
Qed.

Lemma inv_unlocked_nocs s t : Inv s -> b_locked s = false -> in_cs (t_pc (b_thr s t)) = false.
Proof.
  intros HI Hl. destruct (in_cs (t_pc (b_thr s t))) eqn:E; [|reflexivity].
  destruct (I_cs s HI t E) as [H _]. congruence.
Qed.

Lemma inv_cs_other s t t' :
  Inv s -> in_cs (t_pc (b_thr s t)) = true -> t' <> t -> in_cs (t_pc (b_thr s t')) = false.
Proof.
  intros HI Hc Hne. destruct (in_cs (t_pc (b_thr s t'))) eqn:E; [|reflexivity].
  exfalso. apply Hne. eapply I_uniq; eauto.
Qed.

(** slots outside the permutation hold the cleared word unless an insert is
    in its store phase *)
Lemma inv_free_zero s sl :
  Inv s -> b_insdel s = false -> ~ In sl (b_perm s) -> b_lvs s sl = 0.
Proof.
  intros HI Hins Hnin. destruct (b_locked s) eqn:L.
  - destruct (I_holder s HI L) as [t Ht]. destruct (I_cs s HI t Ht) as (_ & Hi & _ & Hf).
    destruct (N.eq_dec (b_lvs s sl) 0) as [E|E]; [exact E|]. exfalso.
    specialize (Hf sl Hnin E). destruct (t_pc (b_thr s t)); try contradiction.
    cbn in Hi. congruence.
  - destruct (I_free s HI L) as (_ & _ & Hf). auto.
Qed.

Lemma some_seen_incl seen seen' : incl seen seen' -> some_seen seen -> some_seen seen'.
Proof. intros Hi [w H]. exists w. auto. Qed.

Lemma found_ok_frame ins vi pm ks ins' vi' pm' ks' k seen seen' v found :
  found_ok ins vi pm ks k seen v found ->
  incl seen seen' ->
  vi <= vi' ->
  (forall v, v <= vi -> vi' = v -> ins' = false ->
     vi = v /\ ins = false /\ (forall sl, ks' sl = ks sl) /\ incl pm' pm) ->
  found_ok ins' vi' pm' ks' k seen' v found.
Proof.
  intros [Hle HC] Hincl Hv F. split; [lia|]. intros [E1 E2].
  destruct (F v Hle E1 E2) as (A & B & Ck & Ip). specialize (HC (conj A B)).
  destruct found as [sl|].
  - rewrite Ck. destruct HC as [H1 H2]. split; [exact H1|]. eapply some_seen_incl; eauto.
  - intros sl Hsl. rewrite Ck. apply HC. apply Ip. exact Hsl.
Qed.

(** threads outside the critical section: their facts survive every change of
    the shared words that keeps keys and shrinks the permutation as long as
    their validated counter is current *)
Lemma TI_frame ins vi pm ks lv m ins' vi' pm' ks' lv' m' th th' :
  TI ins vi pm ks lv m th ->
  t_op th' = t_op th -> t_pc th' = t_pc th -> incl (t_seen th) (t_seen th') ->
  in_cs (t_pc th) = false ->
  vi <= vi' ->
  (forall v, v <= vi -> vi' = v -> ins' = false ->
     vi = v /\ ins = false /\ (forall sl, ks' sl = ks sl) /\ incl pm' pm) ->
  (forall o, t_op th = Some o -> In (m' (op_key o)) (t_seen th')) ->
  TI ins' vi' pm' ks' lv' m' th'.
Proof.
  destruct th as [op pc seen], th' as [op' pc' seen']. cbn [t_op t_pc t_seen].
  intros HT -> -> Hincl Hcs Hv F Hm. unfold TI in *. cbn [t_op t_pc t_seen] in *.
  destruct op as [o|]; [|exact HT]. destruct HT as (Hok & _ & HP).
  split; [exact Hok|]. split; [apply Hm; reflexivity|].
  destruct pc; cbn [in_cs] in Hcs; try discriminate; cbn [TP] in *; auto.
  - destruct HP as [Hle HC]. split; [lia|]. intros [E1 E2].
    destruct (F v Hle E1 E2) as (A & B & Ck & Ip). specialize (HC (conj A B)).
    intros sl Hsl Hk. eapply some_seen_incl; [exact Hincl|].
    apply (HC sl); [apply Ip; exact Hsl|]. rewrite <- Ck. exact Hk.
  - destruct HP as [Hle HC]. split; [lia|]. intros [E1 E2].
    destruct (F v Hle E1 E2) as (A & B & Ck & Ip). destruct (HC (conj A B)) as (S1 & S2 & S3).
    split; [|split].
    + eapply ksorted_ext; [|exact S1]. intros; apply Ck.
    + intros sl Hsl Hk. apply S2; [apply Ip; exact Hsl|]. rewrite <- Ck. exact Hk.
    + intros sl Hsl Hk. eapply some_seen_incl; [exact Hincl|]. apply (S3 sl Hsl).
      rewrite <- Ck. exact Hk.
  - eapply found_ok_frame; eauto.
  - destruct HP as [Hg HP]. split; [exact Hg|]. eapply found_ok_frame; eauto.
  - destruct HP as (Hg & Hle & HC). split; [exact Hg|]. split; [lia|]. intros [E1 E2].
    destruct (F v Hle E1 E2) as (A & B & _). destruct (HC (conj A B)) as [H|H]; auto.
  - destruct HP as [Hg HP]. split; [exact Hg|]. eapply found_ok_frame; eauto.
  - eapply found_ok_frame; eauto.
  - eapply res_ok_incl; eauto.
Qed.

(** ** Three step schemes *)

Lemma TIs_same_shared s s' th :
  b_insdel s' = b_insdel s -> b_vins s' = b_vins s -> b_perm s' = b_perm s ->
  b_keys s' = b_keys s -> b_lvs s' = b_lvs s -> bm s' = bm s ->
  TIs s th -> TIs s' th.
Proof. unfold TIs. intros -> -> -> -> -> ->. auto. Qed.

(** a step that changes only the stepping thread *)
Lemma inv_local_step s s' t th' :
  Inv s ->
  b_locked s' = b_locked s -> b_insdel s' = b_insdel s -> b_vins s' = b_vins s ->
  b_perm s' = b_perm s -> b_keys s' = b_keys s -> b_lvs s' = b_lvs s -> bm s' = bm s ->
  b_thr s' t = th' -> (forall t', t' <> t -> b_thr s' t' = b_thr s t') ->
  in_cs (t_pc th') = in_cs (t_pc (b_thr s t)) ->
  in_ins (t_pc th') = in_ins (t_pc (b_thr s t)) ->
  plain (t_pc th') = true -> plain (t_pc (b_thr s t)) = true ->
  TIs s th' ->
  Inv s'.
Proof.
  intros HI El Ei Ev Ep Ek Elv Em Et Eo Hcs Hins Hp' Hp HT.
  assert (Hpc : forall t', in_cs (t_pc (b_thr s' t')) = in_cs (t_pc (b_thr s t'))).
  { intros t'. destruct (Nat.eq_dec t' t) as [->|Hne]; [rewrite Et; exact Hcs|rewrite Eo; auto]. }
  constructor.
  - intros t1 t2. rewrite !Hpc. apply (I_uniq s HI).
  - rewrite El. intros L. destruct (I_holder s HI L) as [t0 H0]. exists t0. rewrite Hpc. exact H0.
  - intros t'. rewrite Hpc. intros Hc. pose proof (I_cs s HI t' Hc) as (V1 & V2 & V3 & V4).
    unfold sview_cs. rewrite El, Ei, Ep, Elv.
    destruct (Nat.eq_dec t' t) as [->|Hne].
    + rewrite Et. rewrite Hins. repeat split; auto.
      * intros sl H1 H2. specialize (V3 sl H1 H2).
        destruct (t_pc (b_thr s t)); try contradiction. discriminate Hp.
      * intros sl H1 H2. specialize (V4 sl H1 H2).
        destruct (t_pc (b_thr s t)); try contradiction. discriminate Hp.
    + rewrite Eo by auto. repeat split; auto.
  - rewrite El. intros L. pose proof (I_free s HI L) as (F1 & F2 & F3).
    unfold sview_free. rewrite Ei, Ep, Elv. auto.
  - rewrite Ek, Ep. apply (I_sorted s HI).
  - rewrite Ek, Ep, Elv, Em. apply (I_rep s HI).
  - intros t'. apply (TIs_same_shared s); auto.
    destruct (Nat.eq_dec t' t) as [->|Hne]; [rewrite Et; exact HT|rewrite Eo by auto; apply (I_thr s HI)].
Qed.

(** a step of the lock holder *)
Lemma inv_holder_step s s' t p' :
  Inv s ->
  in_cs (t_pc (b_thr s t)) = true ->
  t_pc (b_thr s' t) = p' ->
  (forall t', t' <> t ->
     t_op (b_thr s' t') = t_op (b_thr s t') /\ t_pc (b_thr s' t') = t_pc (b_thr s t') /\
     incl (t_seen (b_thr s t')) (t_seen (b_thr s' t')) /\
     (forall o, t_op (b_thr s t') = Some o -> In (bm s (op_key o)) (t_seen (b_thr s t')) ->
                In (bm s' (op_key o)) (t_seen (b_thr s' t')))) ->
  b_vins s <= b_vins s' ->
  (forall v, v <= b_vins s -> b_vins s' = v -> b_insdel s' = false ->
     b_vins s = v /\ b_insdel s = false /\ (forall sl, b_keys s' sl = b_keys s sl) /\
     incl (b_perm s') (b_perm s)) ->
  (if in_cs p' then sview_cs s' p' else b_locked s' = false /\ sview_free s') ->
  ksorted (b_keys s') (b_perm s') ->
  RepP (b_keys s') (b_perm s') (b_lvs s') (bm s') ->
  TIs s' (b_thr s' t) ->
  Inv s'.
Proof.
  intros HI Hc Ep Ho Hv F Hview Hsort Hrep HT.
  assert (Hoth : forall t', in_cs (t_pc (b_thr s' t')) = true -> t' = t).
  { intros t' H. destruct (Nat.eq_dec t' t) as [|Hne]; [assumption|].
    destruct (Ho t' Hne) as (_ & E & _). rewrite E in H.
    rewrite (inv_cs_other s t t' HI Hc Hne) in H. discriminate. }
  constructor; auto.
  - intros t1 t2 H1 H2. rewrite (Hoth _ H1), (Hoth _ H2). reflexivity.
  - intros L. exists t. rewrite Ep. destruct (in_cs p'); [reflexivity|].
    destruct Hview as [L' _]. congruence.
  - intros t' H. pose proof (Hoth _ H). subst t'. rewrite Ep in *. rewrite H in Hview. exact Hview.
  - intros L. destruct (in_cs p').
    + destruct Hview as [L' _]. congruence.
    + apply Hview.
  - intros t'. destruct (Nat.eq_dec t' t) as [->|Hne]; [exact HT|].
    destruct (Ho t' Hne) as (E1 & E2 & E3 & E4).
    pose proof (I_thr s HI t') as HT'. unfold TIs in *.
    eapply TI_frame; eauto.
    + apply (inv_cs_other s t t' HI Hc Hne).
    + intros o Hop. apply E4; auto. unfold TI in HT'. rewrite Hop in HT'. apply HT'.
Qed.

(** a successful CAS on the lock bit *)
Lemma inv_lock_step s s' t th' :
  Inv s ->
  b_locked s = false -> b_locked s' = true ->
  b_insdel s' = b_insdel s -> b_vins s' = b_vins s ->
  b_perm s' = b_perm s -> b_keys s' = b_keys s -> b_lvs s' = b_lvs s -> bm s' = bm s ->
  b_thr s' t = th' -> (forall t', t' <> t -> b_thr s' t' = b_thr s t') ->
  in_cs (t_pc th') = true -> in_ins (t_pc th') = false -> plain (t_pc th') = true ->
  TIs s th' ->
  Inv s'.
Proof.
  intros HI L L' Ei Ev Ep Ek Elv Em Et Eo Hcs Hins Hp HT.
  assert (Hoth : forall t', in_cs (t_pc (b_thr s' t')) = true -> t' = t).
  { intros t' H. destruct (Nat.eq_dec t' t) as [|Hne]; [assumption|].
    rewrite Eo in H by auto. rewrite (inv_unlocked_nocs s t' HI L) in H. discriminate. }
  pose proof (I_free s HI L) as (F1 & F2 & F3).
  constructor.
  - intros t1 t2 H1 H2. rewrite (Hoth _ H1), (Hoth _ H2). reflexivity.
  - intros _. exists t. rewrite Et. exact Hcs.
  - intros t' H. pose proof (Hoth _ H). subst t'. rewrite Et.
    unfold sview_cs. rewrite Ei, Ep, Elv, Hins. repeat split; auto.
    + intros sl H1 H2. exfalso. apply (F2 sl H1 H2).
    + intros sl H1 H2. exfalso. apply H2. apply F3. exact H1.
  - congruence.
  - rewrite Ek, Ep. apply (I_sorted s HI).
  - rewrite Ek, Ep, Elv, Em. apply (I_rep s HI).
  - intros t'. apply (TIs_same_shared s); auto.
    destruct (Nat.eq_dec t' t) as [->|Hne]; [rewrite Et; exact HT|rewrite Eo by auto; apply (I_thr s HI)].
Qed.

(** ** Steps outside the critical section *)

Lemma inv_thr_facts s t o :
  Inv s -> t_op (b_thr s t) = Some o ->
  op_ok o /\ In (bm s (op_key o)) (t_seen (b_thr s t)) /\
  TP (b_insdel s) (b_vins s) (b_perm s) (b_keys s) (b_lvs s) o (t_seen (b_thr s t)) (t_pc (b_thr s t)).
Proof. intros HI Ho. pose proof (I_thr s HI t) as H. unfold TIs, TI in H. rewrite Ho in H. exact H. Qed.

Lemma inv_set_pc s t o p' :
  Inv s -> t_op (b_thr s t) = Some o ->
  in_cs p' = in_cs (t_pc (b_thr s t)) -> in_ins p' = in_ins (t_pc (b_thr s t)) ->
  plain p' = true -> plain (t_pc (b_thr s t)) = true ->
  TP (b_insdel s) (b_vins s) (b_perm s) (b_keys s) (b_lvs s) o (t_seen (b_thr s t)) p' ->
  Inv (set_pc s t p').
Proof.
  intros HI Ho H1 H2 H3 H4 HP. destruct (inv_thr_facts s t o HI Ho) as (Hok & Hin & _).
  apply (inv_local_step s (set_pc s t p') t
           {| t_op := t_op (b_thr s t); t_pc := p'; t_seen := t_seen (b_thr s t) |});
    try reflexivity; try assumption.
  - cbn [set_pc b_thr]. apply updf_same.
  - intros t' Hne. cbn [set_pc b_thr]. apply updf_other. exact Hne.
  - unfold TIs, TI. cbn [t_op t_pc t_seen]. rewrite Ho. auto.
Qed.

Lemma stable_true s : stable s = true -> b_locked s = false /\ b_insdel s = false.
Proof. unfold stable. destruct (b_locked s), (b_insdel s); cbn; intuition discriminate. Qed.

Lemma stable_false s : negb (stable s) = false -> b_locked s = false /\ b_insdel s = false.
Proof. intros H. apply stable_true. destruct (stable s); [reflexivity|discriminate]. Qed.

Ltac noncs H := rewrite H; reflexivity.

(** at a stable moment a key that is in the permutation is bound, and the
    binding is on the ghost list *)
Lemma stable_some_seen s t o :
  Inv s -> t_op (b_thr s t) = Some o -> b_locked s = false ->
  forall sl, In sl (b_perm s) -> b_keys s sl = op_key o -> some_seen (t_seen (b_thr s t)).
Proof.
  intros HI Ho L sl Hsl Hk. destruct (inv_thr_facts s t o HI Ho) as (_ & Hin & _).
  pose proof (I_rep s HI (op_key o)) as [R1 _]. rewrite (R1 sl Hsl Hk) in Hin.
  pose proof (I_free s HI L) as (_ & F2 & _).
  destruct (N.eqb_spec (b_lvs s sl) 0) as [E|E]; [exfalso; eapply F2; eauto|].
  exists (b_lvs s sl). exact Hin.
Qed.

(** (re)start of the optimistic search at a stable version *)
Lemma step_to_perm s t o :
  Inv s -> t_op (b_thr s t) = Some o -> in_cs (t_pc (b_thr s t)) = false ->
  b_locked s = false ->
  Inv (set_pc s t (PPerm (b_vins s))).
Proof.
  intros HI Ho Hcs L. apply (inv_set_pc s t o); auto.
  - destruct (t_pc (b_thr s t)); try discriminate; reflexivity.
  - destruct (t_pc (b_thr s t)); try discriminate; reflexivity.
  - cbn [TP]. split; [lia|]. intros _ sl Hsl Hk. eapply stable_some_seen; eauto.
Qed.

Lemma step_to_stable0 s t o :
  Inv s -> t_op (b_thr s t) = Some o -> in_cs (t_pc (b_thr s t)) = false ->
  Inv (set_pc s t PStable0).
Proof.
  intros HI Ho Hcs. apply (inv_set_pc s t o); auto.
  - destruct (t_pc (b_thr s t)); try discriminate; reflexivity.
  - destruct (t_pc (b_thr s t)); try discriminate; reflexivity.
  - exact I.
Qed.

Lemma step_perm s t o v :
  Inv s -> t_op (b_thr s t) = Some o -> t_pc (b_thr s t) = PPerm v ->
  Inv (set_pc s t (PSearch v (b_perm s))).
Proof.
  intros HI Ho Hpc. destruct (inv_thr_facts s t o HI Ho) as (_ & _ & HP).
  rewrite Hpc in HP. cbn [TP] in HP. destruct HP as [Hle HC].
  apply (inv_set_pc s t o); auto; try (noncs Hpc). cbn [TP]. split; [exact Hle|].
  intros Hc. split; [apply (I_sorted s HI)|]. split; [auto|exact (HC Hc)].
Qed.

Lemma step_search_nil s t o v :
  Inv s -> t_op (b_thr s t) = Some o -> t_pc (b_thr s t) = PSearch v [] ->
  Inv (set_pc s t (PCheck1 v None)).
Proof.
  intros HI Ho Hpc. destruct (inv_thr_facts s t o HI Ho) as (_ & _ & HP).
  rewrite Hpc in HP. cbn [TP] in HP. destruct HP as [Hle HC].
  apply (inv_set_pc s t o); auto; try (noncs Hpc). cbn [TP]. split; [exact Hle|].
  intros Hc sl Hsl Hk. destruct (HC Hc) as (_ & S2 & _). apply (S2 sl Hsl Hk).
Qed.

Lemma step_search_cons s t o v sl rest s' :
  Inv s -> t_op (b_thr s t) = Some o -> t_pc (b_thr s t) = PSearch v (sl :: rest) ->
  match search_step (op_key o) (b_keys s sl) with
  | Some true => Some (set_pc s t (PCheck1 v (Some sl)))
  | Some false => Some (set_pc s t (PCheck1 v None))
  | None => Some (set_pc s t (PSearch v rest))
  end = Some s' ->
  Inv s'.
Proof.
  intros HI Ho Hpc. destruct (inv_thr_facts s t o HI Ho) as (_ & _ & HP).
  rewrite Hpc in HP. cbn [TP] in HP. destruct HP as [Hle HC].
  unfold search_step.
  destruct (N.eqb_spec (b_keys s sl) (op_key o)) as [E|E];
    [|destruct (N.ltb_spec (op_key o) (b_keys s sl)) as [L|L]];
    intros H; injection H as <-; apply (inv_set_pc s t o); auto; try (noncs Hpc); cbn [TP].
  - split; [exact Hle|]. intros Hc. split; [exact E|].
    destruct (HC Hc) as (_ & _ & S3). apply (S3 sl); cbn; auto.
  - split; [exact Hle|]. intros Hc. destruct (HC Hc) as ([S1 S2] & S3 & _).
    intros x Hx Hk. destruct (S3 x Hx Hk) as [<-|Hr]; [lia|]. specialize (S1 x Hr). lia.
  - split; [exact Hle|]. intros Hc. destruct (HC Hc) as ([S1 S2] & S3 & S4). split; [exact S2|].
    split.
    + intros x Hx Hk. destruct (S3 x Hx Hk) as [<-|Hr]; [contradiction|exact Hr].
    + intros x Hx Hk. apply (S4 x); cbn; auto.
Qed.

Lemma absent_none_seen s t o :
  Inv s -> t_op (b_thr s t) = Some o ->
  absent (b_perm s) (b_keys s) (op_key o) -> In None (t_seen (b_thr s t)).
Proof.
  intros HI Ho Hab. destruct (inv_thr_facts s t o HI Ho) as (_ & Hin & _).
  pose proof (I_rep s HI (op_key o)) as [_ R2]. rewrite <- (R2 Hab). exact Hin.
Qed.

Lemma step_check1_pass s t o v found s' :
  Inv s -> t_op (b_thr s t) = Some o -> t_pc (b_thr s t) = PCheck1 v found ->
  b_insdel s = false -> b_vins s = v ->
  match o, found with
  | OpGet _, None => Some (set_pc s t (PDone RNotExist))
  | OpGet _, Some sl => Some (set_pc s t (PLoadLv v sl))
  | OpRem _, None => Some (set_pc s t (PRemFinal v))
  | OpUput _ _, Some _ => Some (set_pc s t (PDone RUnique))
  | _, _ => Some (set_pc s t (PLock v found))
  end = Some s' ->
  Inv s'.
Proof.
  intros HI Ho Hpc Hi Hv. destruct (inv_thr_facts s t o HI Ho) as (_ & Hin & HP).
  rewrite Hpc in HP. cbn [TP] in HP.
  assert (Hc : Cnd (b_insdel s) (b_vins s) v) by (split; assumption).
  assert (Hnone : found = None -> In None (t_seen (b_thr s t))).
  { intros ->. destruct HP as [_ HP]. eapply absent_none_seen; eauto. }
  assert (Hsome : forall sl, found = Some sl -> some_seen (t_seen (b_thr s t))).
  { intros sl ->. destruct HP as [_ HP]. apply (HP Hc). }
  destruct o, found; intros H; injection H as <-; apply (inv_set_pc s t _ _ HI Ho);
    try (noncs Hpc); try reflexivity; cbn [TP res_ok is_get is_rem]; eauto.
  eapply Hsome; reflexivity.
Qed.

Lemma step_loadlv s t o v sl :
  Inv s -> t_op (b_thr s t) = Some o -> t_pc (b_thr s t) = PLoadLv v sl ->
  Inv (set_pc s t (PFinal v sl (b_lvs s sl))).
Proof.
  intros HI Ho Hpc. destruct (inv_thr_facts s t o HI Ho) as (_ & Hin & HP).
  rewrite Hpc in HP. cbn [TP] in HP. destruct HP as (Hg & Hle & HC).
  apply (inv_set_pc s t o); auto; try (noncs Hpc). cbn [TP]. split; [exact Hg|]. split; [exact Hle|].
  intros Hc. destruct (HC Hc) as [Hk _].
  destruct (in_dec Nat.eq_dec sl (b_perm s)) as [Hsl|Hsl].
  - pose proof (I_rep s HI (op_key o)) as [R1 _]. rewrite (R1 sl Hsl Hk) in Hin.
    destruct (N.eqb_spec (b_lvs s sl) 0) as [E|E]; auto.
  - left. apply inv_free_zero; auto. apply Hc.
Qed.

Lemma step_final_pass s t o v sl w :
  Inv s -> t_op (b_thr s t) = Some o -> t_pc (b_thr s t) = PFinal v sl w ->
  b_insdel s = false -> b_vins s = v -> w <> 0 ->
  Inv (set_pc s t (PDone (ROkVal w))).
Proof.
  intros HI Ho Hpc Hi Hv Hw. destruct (inv_thr_facts s t o HI Ho) as (_ & Hin & HP).
  rewrite Hpc in HP. cbn [TP] in HP. destruct HP as (Hg & Hle & HC).
  apply (inv_set_pc s t o); auto; try (noncs Hpc). cbn [TP].
  destruct o; try contradiction. cbn [res_ok]. split; [exact Hw|].
  destruct (HC (conj Hv Hi)) as [E|E]; [contradiction|exact E].
Qed.

Lemma step_remfinal_pass s t o v :
  Inv s -> t_op (b_thr s t) = Some o -> t_pc (b_thr s t) = PRemFinal v ->
  b_insdel s = false -> b_vins s = v ->
  Inv (set_pc s t (PDone RNotFound)).
Proof.
  intros HI Ho Hpc Hi Hv. destruct (inv_thr_facts s t o HI Ho) as (_ & Hin & HP).
  rewrite Hpc in HP. cbn [TP] in HP. destruct HP as (Hg & Hle & HC).
  apply (inv_set_pc s t o); auto; try (noncs Hpc). cbn [TP].
  destruct o; try contradiction. cbn [res_ok]. eapply absent_none_seen; eauto.
  apply HC. split; assumption.
Qed.

(** ** The representation relation under the writers' stores *)

Lemma RepP_ext ks ks' pm lv lv' m :
  (forall a, In a pm -> ks' a = ks a) -> (forall a, In a pm -> lv' a = lv a) ->
  RepP ks pm lv m -> RepP ks' pm lv' m.
Proof.
  intros Hk Hl R k. destruct (R k) as [R1 R2]. split.
  - intros sl Hsl E. rewrite Hk in E by exact Hsl. rewrite Hl by exact Hsl. auto.
  - intros H. apply R2. intros sl Hsl. rewrite <- Hk by exact Hsl. auto.
Qed.

Lemma RepP_insert ks pm lv m k r sl :
  RepP ks pm lv m -> absent pm ks k -> ks sl = k -> lv sl <> 0 ->
  RepP ks (insert_at r sl pm) lv (updm m k (Some (lv sl))).
Proof.
  intros R Hab Hk Hv k'. destruct (R k') as [R1 R2]. split.
  - intros x Hx E. apply in_insert_at in Hx as [->|Hx].
    + rewrite Hk in E. subst k'. rewrite updm_same.
      destruct (N.eqb_spec (lv sl) 0); [contradiction|reflexivity].
    + destruct (N.eq_dec k' k) as [->|Hne]; [exfalso; eapply Hab; eauto|].
      rewrite updm_other by exact Hne. auto.
  - intros H. destruct (N.eq_dec k' k) as [->|Hne].
    + exfalso. apply (H sl); [apply in_insert_at; auto|exact Hk].
    + rewrite updm_other by exact Hne. apply R2. intros x Hx. apply H. apply in_insert_at; auto.
Qed.

Lemma RepP_store ks pm lv m k sl w :
  RepP ks pm lv m -> ksorted ks pm -> In sl pm -> ks sl = k ->
  RepP ks pm (updf lv sl w) (updm m k (if w =? 0 then None else Some w)).
Proof.
  intros R Hs Hsl Hk k'. destruct (R k') as [R1 R2]. split.
  - intros x Hx E. destruct (N.eq_dec k' k) as [->|Hne].
    + assert (x = sl) by (eapply ksorted_inj; eauto; congruence). subst x.
      rewrite updm_same, updf_same. reflexivity.
    + rewrite updm_other by exact Hne. rewrite updf_other by congruence. auto.
  - intros H. destruct (N.eq_dec k' k) as [->|Hne]; [exfalso; eapply H; eauto|].
    rewrite updm_other by exact Hne. auto.
Qed.

Lemma RepP_shrink ks pm lv m rk :
  RepP ks pm lv m -> (rk < length pm)%nat -> lv (nth rk pm 0%nat) = 0 ->
  RepP ks (remove_at rk pm) lv m.
Proof.
  intros R Hrk Hz k'. destruct (R k') as [R1 R2]. split.
  - intros x Hx E. apply R1; [eapply in_remove_at_incl; eauto|exact E].
  - intros H. destruct (N.eq_dec (ks (nth rk pm 0%nat)) k') as [E|E].
    + rewrite (R1 _ (nth_In pm 0%nat Hrk) E), Hz. reflexivity.
    + apply R2. intros x Hx. apply (in_remove_at 0%nat rk x pm Hrk) in Hx as [->|Hx]; auto.
Qed.

(** ** Steps of the lock holder *)

Lemma F_same (i : bool) (v : N) (pm : list nat) (ks : nat -> N) :
  forall v0, v0 <= v -> v = v0 -> i = false ->
    v = v0 /\ i = false /\ (forall sl : nat, ks sl = ks sl) /\ incl pm pm.
Proof. intros. repeat split; auto. apply incl_refl. Qed.

Lemma view_release s s' p :
  sview_cs s p -> plain p = true -> b_insdel s' = false ->
  b_perm s' = b_perm s -> b_lvs s' = b_lvs s -> sview_free s'.
Proof.
  intros (_ & _ & V3 & V4) Hp Hi Ep El. unfold sview_free. rewrite Ep, El.
  split; [exact Hi|]. split.
  - intros sl H1 H2. specialize (V3 sl H1 H2). destruct p; try contradiction; discriminate.
  - intros sl H1. destruct (N.eq_dec (b_lvs s sl) 0) as [E|E]; [exact E|].
    specialize (V4 sl H1 E). destruct p; try contradiction; discriminate.
Qed.

(** holder step that leaves the ghost map and the other threads alone *)
Lemma inv_holder_plain s t o p' l' i' v' pm' ks' lv' :
  Inv s -> t_op (b_thr s t) = Some o -> in_cs (t_pc (b_thr s t)) = true ->
  let s' := set_pc {| b_locked := l'; b_insdel := i'; b_vins := v'; b_perm := pm';
                      b_keys := ks'; b_lvs := lv'; bm := bm s; b_thr := b_thr s |} t p' in
  b_vins s <= v' ->
  (forall v, v <= b_vins s -> v' = v -> i' = false ->
     b_vins s = v /\ b_insdel s = false /\ (forall sl, ks' sl = b_keys s sl) /\ incl pm' (b_perm s)) ->
  (if in_cs p' then sview_cs s' p' else l' = false /\ sview_free s') ->
  ksorted ks' pm' -> RepP ks' pm' lv' (bm s) ->
  TP i' v' pm' ks' lv' o (t_seen (b_thr s t)) p' ->
  Inv s'.
Proof.
  intros HI Ho Hcs s' Hv F Hview Hsort Hrep HP.
  destruct (inv_thr_facts s t o HI Ho) as (Hok & Hin & _).
  apply (inv_holder_step s s' t p' HI Hcs); auto.
  - unfold s'. cbn [set_pc b_thr]. rewrite updf_same. reflexivity.
  - intros t' Hne. unfold s'. cbn [set_pc b_thr bm]. rewrite updf_other by exact Hne.
    repeat split; auto. apply incl_refl.
  - unfold s', TIs, TI. cbn [set_pc b_thr b_insdel b_vins b_perm b_keys b_lvs bm].
    rewrite updf_same. cbn [t_op t_pc t_seen]. rewrite Ho. auto.
Qed.

(** holder step that is a linearization point: the ghost map changes at the
    holder's key and every in-flight operation on it records the binding *)
Lemma inv_holder_nb s t o p' x l' i' v' pm' ks' lv' :
  Inv s -> t_op (b_thr s t) = Some o -> in_cs (t_pc (b_thr s t)) = true ->
  let k := op_key o in
  let s' := set_pc {| b_locked := l'; b_insdel := i'; b_vins := v'; b_perm := pm';
                      b_keys := ks'; b_lvs := lv'; bm := updm (bm s) k x;
                      b_thr := note_binding (b_thr s) k x |} t p' in
  b_vins s <= v' ->
  (forall v, v <= b_vins s -> v' = v -> i' = false ->
     b_vins s = v /\ b_insdel s = false /\ (forall sl, ks' sl = b_keys s sl) /\ incl pm' (b_perm s)) ->
  (if in_cs p' then sview_cs s' p' else l' = false /\ sview_free s') ->
  ksorted ks' pm' -> RepP ks' pm' lv' (updm (bm s) k x) ->
  TP i' v' pm' ks' lv' o (x :: t_seen (b_thr s t)) p' ->
  Inv s'.
Proof.
  intros HI Ho Hcs k s' Hv F Hview Hsort Hrep HP.
  destruct (inv_thr_facts s t o HI Ho) as (Hok & Hin & _).
  apply (inv_holder_step s s' t p' HI Hcs); auto.
  - unfold s'. cbn [set_pc b_thr]. rewrite updf_same. reflexivity.
  - intros t' Hne. unfold s'. cbn [set_pc b_thr bm]. rewrite updf_other by exact Hne.
    rewrite nb_op, nb_pc. repeat split; auto.
    + apply nb_seen_incl.
    + intros o' Ho' Hin'. apply nb_seen_bm; auto.
  - unfold s', TIs, TI. cbn [set_pc b_thr b_insdel b_vins b_perm b_keys b_lvs bm].
    rewrite updf_same. cbn [t_op t_pc t_seen]. rewrite nb_op, Ho.
    rewrite (nb_seen_self (b_thr s) k x t o Ho eq_refl).
    split; [exact Hok|]. split; [|exact HP]. fold k. rewrite updm_same. cbn; auto.
Qed.

Ltac incs H := rewrite H; reflexivity.

Lemma holder_view s t p :
  Inv s -> t_pc (b_thr s t) = p -> in_cs p = true -> sview_cs s p.
Proof. intros HI <- H. apply (I_cs s HI t H). Qed.

Lemma step_invoke s t o :
  Inv s -> t_pc (b_thr s t) = PIdle -> op_ok o ->
  Inv {| b_locked := b_locked s; b_insdel := b_insdel s; b_vins := b_vins s; b_perm := b_perm s;
         b_keys := b_keys s; b_lvs := b_lvs s; bm := bm s;
         b_thr := updf (b_thr s) t {| t_op := Some o; t_pc := PStable0; t_seen := [bm s (op_key o)] |} |}.
Proof.
  intros HI Hpc Hok.
  eapply (inv_local_step s _ t {| t_op := Some o; t_pc := PStable0; t_seen := [bm s (op_key o)] |});
    try reflexivity; try exact HI; cbn [b_thr t_pc].
  - apply updf_same.
  - intros t' Hne. apply updf_other. exact Hne.
  - noncs Hpc.
  - noncs Hpc.
  - noncs Hpc.
  - unfold TIs, TI. cbn. auto.
Qed.

Lemma step_return s t r :
  Inv s -> t_pc (b_thr s t) = PDone r ->
  Inv {| b_locked := b_locked s; b_insdel := b_insdel s; b_vins := b_vins s; b_perm := b_perm s;
         b_keys := b_keys s; b_lvs := b_lvs s; bm := bm s;
         b_thr := updf (b_thr s) t idle_thread |}.
Proof.
  intros HI Hpc.
  eapply (inv_local_step s _ t idle_thread); try reflexivity; try exact HI; cbn [b_thr t_pc idle_thread].
  - apply updf_same.
  - intros t' Hne. apply updf_other. exact Hne.
  - noncs Hpc.
  - noncs Hpc.
  - noncs Hpc.
Qed.

Lemma step_lock s t o v found :
  Inv s -> t_op (b_thr s t) = Some o -> t_pc (b_thr s t) = PLock v found -> b_locked s = false ->
  Inv (set_pc {| b_locked := true; b_insdel := b_insdel s; b_vins := b_vins s; b_perm := b_perm s;
                 b_keys := b_keys s; b_lvs := b_lvs s; bm := bm s; b_thr := b_thr s |}
              t (PValidate v found)).
Proof.
  intros HI Ho Hpc L. destruct (inv_thr_facts s t o HI Ho) as (Hok & Hin & HP).
  rewrite Hpc in HP. cbn [TP] in HP.
  eapply (inv_lock_step s _ t {| t_op := t_op (b_thr s t); t_pc := PValidate v found;
                                 t_seen := t_seen (b_thr s t) |});
    try reflexivity; try exact HI; try exact L; cbn [set_pc b_thr].
  - apply updf_same.
  - intros t' Hne. apply updf_other. exact Hne.
  - unfold TIs, TI. cbn [t_op t_pc t_seen]. rewrite Ho. auto.
Qed.

Lemma step_validate s t o v found s' :
  Inv s -> t_op (b_thr s t) = Some o -> t_pc (b_thr s t) = PValidate v found ->
  (if negb (b_vins s =? v) then Some (set_pc s t PUnlockRetry)
   else match found with
        | None => Some (set_pc s t PInsDel)
        | Some _ => Some (set_pc s t (PRelook v))
        end) = Some s' ->
  Inv s'.
Proof.
  intros HI Ho Hpc. destruct (inv_thr_facts s t o HI Ho) as (_ & _ & HP).
  rewrite Hpc in HP. cbn [TP] in HP. destruct HP as [Hle HC].
  destruct (holder_view s t _ HI Hpc eq_refl) as (_ & Hi & _). cbn [in_ins] in Hi.
  destruct (N.eqb_spec (b_vins s) v) as [E|E]; cbn [negb];
    [destruct found|]; intros H; injection H as <-;
    apply (inv_set_pc s t o); auto; try (incs Hpc); cbn [TP]; auto.
  apply HC. split; assumption.
Qed.

Lemma step_relook s t o v s' :
  Inv s -> t_op (b_thr s t) = Some o -> t_pc (b_thr s t) = PRelook v ->
  match find_rank (b_keys s) (b_perm s) (op_key o) 0 with
  | None => match o with
            | OpRem _ => Some (set_pc s t (PUnlockPlain RNotFound))
            | _ => Some (set_pc s t PUnlockRetry)
            end
  | Some (r, sl) => match o with
                    | OpRem _ => Some (set_pc s t (PClear sl r))
                    | _ => Some (set_pc s t (POverwrite sl))
                    end
  end = Some s' ->
  Inv s'.
Proof.
  intros HI Ho Hpc.
  destruct (find_rank (b_keys s) (b_perm s) (op_key o) 0) as [[r sl]|] eqn:E.
  - apply find_rank_some in E as (i & -> & Hi & Hn & Hk). cbn [Nat.add].
    assert (Hsl : In sl (b_perm s)) by (rewrite <- Hn; apply nth_In; exact Hi).
    destruct o; intros H; injection H as <-; apply (inv_set_pc s t _ _ HI Ho);
      try (incs Hpc); try reflexivity; cbn [TP is_rem]; auto.
  - rewrite find_rank_none in E.
    pose proof (absent_none_seen s t o HI Ho E) as Hn.
    destruct o; intros H; injection H as <-; apply (inv_set_pc s t _ _ HI Ho);
      try (incs Hpc); try reflexivity; cbn [TP res_ok]; auto.
Qed.

Lemma step_unlock_retry s t o :
  Inv s -> t_op (b_thr s t) = Some o -> t_pc (b_thr s t) = PUnlockRetry ->
  Inv (set_pc {| b_locked := false; b_insdel := b_insdel s; b_vins := b_vins s; b_perm := b_perm s;
                 b_keys := b_keys s; b_lvs := b_lvs s; bm := bm s; b_thr := b_thr s |} t PStable0).
Proof.
  intros HI Ho Hpc. pose proof (holder_view s t _ HI Hpc eq_refl) as V.
  apply (inv_holder_plain s t o); auto; try (incs Hpc).
  - lia.
  - apply F_same.
  - cbn [in_cs]. split; [reflexivity|]. eapply view_release; eauto. apply V.
  - apply (I_sorted s HI).
  - apply (I_rep s HI).
  - exact I.
Qed.

Lemma step_unlock_plain s t o r :
  Inv s -> t_op (b_thr s t) = Some o -> t_pc (b_thr s t) = PUnlockPlain r ->
  Inv (set_pc {| b_locked := false; b_insdel := b_insdel s; b_vins := b_vins s; b_perm := b_perm s;
                 b_keys := b_keys s; b_lvs := b_lvs s; bm := bm s; b_thr := b_thr s |} t (PDone r)).
Proof.
  intros HI Ho Hpc. pose proof (holder_view s t _ HI Hpc eq_refl) as V.
  destruct (inv_thr_facts s t o HI Ho) as (_ & _ & HP). rewrite Hpc in HP. cbn [TP] in HP.
  apply (inv_holder_plain s t o); auto; try (incs Hpc).
  - lia.
  - apply F_same.
  - cbn [in_cs]. split; [reflexivity|]. eapply view_release; eauto. apply V.
  - apply (I_sorted s HI).
  - apply (I_rep s HI).
Qed.

Lemma step_unlock_ins s t o :
  Inv s -> t_op (b_thr s t) = Some o -> t_pc (b_thr s t) = PUnlockIns ->
  Inv (set_pc {| b_locked := false; b_insdel := false; b_vins := b_vins s + 1; b_perm := b_perm s;
                 b_keys := b_keys s; b_lvs := b_lvs s; bm := bm s; b_thr := b_thr s |} t (PDone ROk)).
Proof.
  intros HI Ho Hpc. pose proof (holder_view s t _ HI Hpc eq_refl) as V.
  destruct (inv_thr_facts s t o HI Ho) as (_ & _ & HP). rewrite Hpc in HP. cbn [TP] in HP.
  apply (inv_holder_plain s t o); auto; try (incs Hpc).
  - lia.
  - intros v Hle E. lia.
  - cbn [in_cs]. split; [reflexivity|]. eapply view_release; eauto.
  - apply (I_sorted s HI).
  - apply (I_rep s HI).
Qed.

Lemma insert_pos_ext pm ks ks' k r :
  (forall a, In a pm -> ks' a = ks a) -> insert_pos pm ks k r -> insert_pos pm ks' k r.
Proof.
  intros He (H1 & H2 & H3). split; [exact H1|]. split.
  - intros a Ha. rewrite He by (eapply in_firstn; eauto). auto.
  - intros a Ha. rewrite He by (eapply in_skipn; eauto). auto.
Qed.

Lemma insert_pos_absent pm ks k r : insert_pos pm ks k r -> absent pm ks k.
Proof.
  intros (_ & H2 & H3) sl Hsl. rewrite <- (firstn_skipn r pm) in Hsl.
  apply in_app_or in Hsl as [H|H]; [specialize (H2 _ H)|specialize (H3 _ H)]; lia.
Qed.

Lemma step_insdel s t o :
  Inv s -> t_op (b_thr s t) = Some o -> t_pc (b_thr s t) = PInsDel ->
  Nat.leb 15 (length (b_perm s)) = false ->
  Inv (set_pc {| b_locked := b_locked s; b_insdel := true; b_vins := b_vins s; b_perm := b_perm s;
                 b_keys := b_keys s; b_lvs := b_lvs s; bm := bm s; b_thr := b_thr s |}
              t (PStoreKey (free_slot (b_perm s) 0 15) (rank_of (b_keys s) (b_perm s) (op_key o) 0))).
Proof.
  intros HI Ho Hpc Hlen. destruct (holder_view s t _ HI Hpc eq_refl) as (V1 & V2 & V3 & V4).
  destruct (inv_thr_facts s t o HI Ho) as (_ & _ & HP). rewrite Hpc in HP. cbn [TP] in HP.
  apply Nat.leb_gt in Hlen.
  apply (inv_holder_plain s t o); auto; try (incs Hpc).
  - lia.
  - intros v _ _ H. discriminate H.
  - cbn [in_cs]. unfold sview_cs.
    cbn [set_pc b_locked b_insdel b_perm b_lvs in_ins]. repeat split; auto.
  - apply (I_sorted s HI).
  - apply (I_rep s HI).
  - cbn [TP]. split.
    + apply free_slot_free; [|exact Hlen]. eapply ksorted_NoDup. apply (I_sorted s HI).
    + apply rank_of_spec; [apply (I_sorted s HI)|exact HP].
Qed.

Lemma step_storekey s t o sl r :
  Inv s -> t_op (b_thr s t) = Some o -> t_pc (b_thr s t) = PStoreKey sl r ->
  Inv (set_pc {| b_locked := b_locked s; b_insdel := b_insdel s; b_vins := b_vins s; b_perm := b_perm s;
                 b_keys := updf (b_keys s) sl (op_key o); b_lvs := b_lvs s; bm := bm s;
                 b_thr := b_thr s |} t (PStoreLv sl r)).
Proof.
  intros HI Ho Hpc. destruct (holder_view s t _ HI Hpc eq_refl) as (V1 & V2 & V3 & V4).
  destruct (inv_thr_facts s t o HI Ho) as (_ & _ & HP). rewrite Hpc in HP. cbn [TP] in HP.
  destruct HP as [Hnin Hpos]. cbn [in_ins] in V2.
  assert (He : forall a, In a (b_perm s) -> updf (b_keys s) sl (op_key o) a = b_keys s a).
  { intros a Ha. apply updf_other. intros ->. contradiction. }
  apply (inv_holder_plain s t o); auto; try (incs Hpc).
  - lia.
  - intros v _ _ H. congruence.
  - cbn [in_cs]. unfold sview_cs.
    cbn [set_pc b_locked b_insdel b_perm b_lvs in_ins]. repeat split; auto.
  - eapply ksorted_ext; [exact He|]. apply (I_sorted s HI).
  - eapply RepP_ext; [exact He|reflexivity|]. apply (I_rep s HI).
  - cbn [TP]. split; [exact Hnin|]. split; [eapply insert_pos_ext; eauto|]. apply updf_same.
Qed.

Lemma step_storelv s t o sl r v :
  Inv s -> t_op (b_thr s t) = Some o -> t_pc (b_thr s t) = PStoreLv sl r ->
  (o = OpPut (op_key o) v \/ o = OpUput (op_key o) v) ->
  Inv (set_pc {| b_locked := b_locked s; b_insdel := b_insdel s; b_vins := b_vins s; b_perm := b_perm s;
                 b_keys := b_keys s; b_lvs := updf (b_lvs s) sl v; bm := bm s; b_thr := b_thr s |}
              t (PStorePerm sl r)).
Proof.
  intros HI Ho Hpc Hov. destruct (holder_view s t _ HI Hpc eq_refl) as (V1 & V2 & V3 & V4).
  destruct (inv_thr_facts s t o HI Ho) as (_ & _ & HP). rewrite Hpc in HP. cbn [TP] in HP.
  destruct HP as (Hnin & Hpos & Hk). cbn [in_ins] in V2.
  assert (He : forall a, In a (b_perm s) -> updf (b_lvs s) sl v a = b_lvs s a).
  { intros a Ha. apply updf_other. intros ->. contradiction. }
  apply (inv_holder_plain s t o); auto; try (incs Hpc).
  - lia.
  - intros v0 _ _ H. congruence.
  - cbn [in_cs]. unfold sview_cs.
    cbn [set_pc b_locked b_insdel b_perm b_lvs in_ins]. repeat split; auto.
    + intros a Ha. rewrite He by exact Ha. apply V3. exact Ha.
    + intros a Ha Hz. destruct (Nat.eq_dec a sl) as [E|E]; [exact E|].
      rewrite updf_other in Hz by exact E. exfalso. apply (V4 a Ha Hz).
  - apply (I_sorted s HI).
  - eapply RepP_ext; [reflexivity|exact He|]. apply (I_rep s HI).
  - cbn [TP]. split; [exact Hnin|]. split; [exact Hpos|]. split; [exact Hk|].
    destruct Hov as [->| ->]; apply updf_same.
Qed.

Lemma step_storeperm s t o sl r v :
  Inv s -> t_op (b_thr s t) = Some o -> t_pc (b_thr s t) = PStorePerm sl r ->
  (o = OpPut (op_key o) v \/ o = OpUput (op_key o) v) ->
  Inv (set_pc {| b_locked := b_locked s; b_insdel := b_insdel s; b_vins := b_vins s;
                 b_perm := insert_at r sl (b_perm s);
                 b_keys := b_keys s; b_lvs := b_lvs s; bm := updm (bm s) (op_key o) (Some v);
                 b_thr := note_binding (b_thr s) (op_key o) (Some v) |}
              t PUnlockIns).
Proof.
  intros HI Ho Hpc Hov. destruct (holder_view s t _ HI Hpc eq_refl) as (V1 & V2 & V3 & V4).
  destruct (inv_thr_facts s t o HI Ho) as (Hok & _ & HP). rewrite Hpc in HP. cbn [TP] in HP.
  destruct HP as (Hnin & Hpos & Hk & Hlv). cbn [in_ins] in V2.
  assert (Hv : b_lvs s sl = v /\ v <> 0).
  { destruct Hov as [E|E]; rewrite E in Hlv, Hok; cbn in Hok; auto. }
  destruct Hv as [Hv Hv0].
  apply (inv_holder_nb s t o); auto; try (incs Hpc).
  - lia.
  - intros v0 _ _ H. congruence.
  - cbn [in_cs]. unfold sview_cs.
    cbn [set_pc b_locked b_insdel b_perm b_lvs in_ins]. repeat split; auto.
    + intros a Ha Hz. apply in_insert_at in Ha as [->|Ha]; [congruence|]. apply (V3 a Ha Hz).
    + intros a Ha Hz. apply Ha. apply in_insert_at. left.
      apply V4; [|exact Hz]. intros Hin. apply Ha. apply in_insert_at. auto.
  - destruct Hpos as (P1 & P2 & P3).
    apply ksorted_insert_at; [apply (I_sorted s HI)| |]; rewrite Hk; assumption.
  - rewrite <- Hv. apply RepP_insert; auto.
    + apply (I_rep s HI).
    + eapply insert_pos_absent; eauto.
    + congruence.
  - cbn [TP]. destruct Hov as [->| ->]; cbn [res_ok In]; auto.
Qed.

Lemma step_overwrite s t o sl v :
  Inv s -> t_op (b_thr s t) = Some o -> t_pc (b_thr s t) = POverwrite sl ->
  o = OpPut (op_key o) v ->
  Inv (set_pc {| b_locked := b_locked s; b_insdel := b_insdel s; b_vins := b_vins s; b_perm := b_perm s;
                 b_keys := b_keys s; b_lvs := updf (b_lvs s) sl v; bm := updm (bm s) (op_key o) (Some v);
                 b_thr := note_binding (b_thr s) (op_key o) (Some v) |}
              t (PUnlockPlain ROk)).
Proof.
  intros HI Ho Hpc Hov. destruct (holder_view s t _ HI Hpc eq_refl) as (V1 & V2 & V3 & V4).
  destruct (inv_thr_facts s t o HI Ho) as (Hok & _ & HP). rewrite Hpc in HP. cbn [TP] in HP.
  destruct HP as (Hsl & Hk). cbn [in_ins] in V2.
  assert (Hv0 : v <> 0) by (rewrite Hov in Hok; exact Hok).
  apply (inv_holder_nb s t o); auto; try (incs Hpc).
  - lia.
  - apply F_same.
  - cbn [in_cs]. unfold sview_cs.
    cbn [set_pc b_locked b_insdel b_perm b_lvs in_ins]. repeat split; auto.
    + intros a Ha Hz. destruct (Nat.eq_dec a sl) as [->|E].
      * rewrite updf_same in Hz. contradiction.
      * rewrite updf_other in Hz by exact E. apply (V3 a Ha Hz).
    + intros a Ha Hz. rewrite updf_other in Hz by (intros ->; contradiction). apply (V4 a Ha Hz).
  - apply (I_sorted s HI).
  - pose proof (RepP_store _ _ _ _ (op_key o) sl v (I_rep s HI) (I_sorted s HI) Hsl Hk) as R.
    destruct (N.eqb_spec v 0); [contradiction|exact R].
  - cbn [TP]. rewrite Hov. cbn [res_ok In]. auto.
Qed.

Lemma step_clear s t o sl rk :
  Inv s -> t_op (b_thr s t) = Some o -> t_pc (b_thr s t) = PClear sl rk ->
  Inv (set_pc {| b_locked := b_locked s; b_insdel := b_insdel s; b_vins := b_vins s; b_perm := b_perm s;
                 b_keys := b_keys s; b_lvs := updf (b_lvs s) sl 0; bm := updm (bm s) (op_key o) None;
                 b_thr := note_binding (b_thr s) (op_key o) None |}
              t (PShrink rk)).
Proof.
  intros HI Ho Hpc. destruct (holder_view s t _ HI Hpc eq_refl) as (V1 & V2 & V3 & V4).
  destruct (inv_thr_facts s t o HI Ho) as (Hok & _ & HP). rewrite Hpc in HP. cbn [TP] in HP.
  destruct HP as (Hrem & Hrk & Hn & Hk). cbn [in_ins] in V2.
  assert (Hsl : In sl (b_perm s)) by (rewrite <- Hn; apply nth_In; exact Hrk).
  apply (inv_holder_nb s t o); auto; try (incs Hpc).
  - lia.
  - apply F_same.
  - cbn [in_cs]. unfold sview_cs.
    cbn [set_pc b_locked b_insdel b_perm b_lvs in_ins]. repeat split; auto.
    + intros a Ha Hz. destruct (Nat.eq_dec a sl) as [->|E]; [symmetry; exact Hn|].
      rewrite updf_other in Hz by exact E. exfalso. apply (V3 a Ha Hz).
    + intros a Ha Hz. rewrite updf_other in Hz by (intros ->; contradiction). apply (V4 a Ha Hz).
  - apply (I_sorted s HI).
  - apply (RepP_store _ _ _ _ (op_key o) sl 0 (I_rep s HI) (I_sorted s HI) Hsl Hk).
  - cbn [TP In]. rewrite Hn, updf_same. repeat split; auto.
Qed.

Lemma step_shrink s t o rk :
  Inv s -> t_op (b_thr s t) = Some o -> t_pc (b_thr s t) = PShrink rk ->
  Inv (set_pc {| b_locked := b_locked s; b_insdel := b_insdel s; b_vins := b_vins s;
                 b_perm := remove_at rk (b_perm s);
                 b_keys := b_keys s; b_lvs := b_lvs s; bm := bm s; b_thr := b_thr s |}
              t (PUnlockPlain ROk)).
Proof.
  intros HI Ho Hpc. destruct (holder_view s t _ HI Hpc eq_refl) as (V1 & V2 & V3 & V4).
  destruct (inv_thr_facts s t o HI Ho) as (Hok & _ & HP). rewrite Hpc in HP. cbn [TP] in HP.
  destruct HP as (Hrem & Hrk & Hk & Hz & Hnone). cbn [in_ins] in V2.
  apply (inv_holder_plain s t o); auto; try (incs Hpc).
  - lia.
  - intros v _ E1 E2. repeat split; auto. intros a. apply in_remove_at_incl.
  - cbn [in_cs]. unfold sview_cs.
    cbn [set_pc b_locked b_insdel b_perm b_lvs in_ins]. repeat split; auto.
    + intros a Ha Hza. pose proof (V3 a (in_remove_at_incl _ _ _ Ha) Hza) as E. subst a.
      eapply ksorted_nth_not_in_remove; eauto. apply (I_sorted s HI).
    + intros a Ha Hza. destruct (in_dec Nat.eq_dec a (b_perm s)) as [Hin|Hin].
      * apply (in_remove_at 0%nat rk a _ Hrk) in Hin as [->|Hin]; [congruence|contradiction].
      * apply (V4 a Hin Hza).
  - apply ksorted_remove_at; [exact Hrk|apply (I_sorted s HI)].
  - apply RepP_shrink; auto. apply (I_rep s HI).
  - cbn [TP]. destruct o; try contradiction. exact Hnone.
Qed.

(** ** Every event preserves the invariant *)

Theorem inv_step s e s' : Inv s -> bstep true s e = Some s' -> Inv s'.
Proof.
  intros HI. destruct e as [t o|t|t]; cbn [bstep].
  - (* invoke *)
    destruct (t_pc (b_thr s t)) eqn:Hpc; try discriminate.
    destruct o as [k|k v|k v|k]; cbn [op_key].
    + intros H; injection H as <-. apply step_invoke; auto. exact I.
    + destruct (N.eqb_spec v 0) as [E|E]; cbn [negb]; [discriminate|].
      intros H; injection H as <-. apply (step_invoke s t (OpPut k v)); auto.
    + destruct (N.eqb_spec v 0) as [E|E]; cbn [negb]; [discriminate|].
      intros H; injection H as <-. apply (step_invoke s t (OpUput k v)); auto.
    + intros H; injection H as <-. apply step_invoke; auto. exact I.
  - (* step *)
    destruct (t_op (b_thr s t)) as [o|] eqn:Ho; [|discriminate].
    destruct (t_pc (b_thr s t)) eqn:Hpc; try discriminate.
    + (* PStable0 *)
      destruct (stable s) eqn:St; intros H; injection H as <-; [|exact HI].
      apply stable_true in St as [L _]. apply (step_to_perm s t o); auto. noncs Hpc.
    + (* PPerm *) intros H; injection H as <-. eapply step_perm; eauto.
    + (* PSearch *)
      destruct rest as [|sl rest].
      * intros H; injection H as <-. eapply step_search_nil; eauto.
      * eapply step_search_cons; eauto.
    + (* PCheck1 *)
      destruct (negb (stable s)) eqn:St; [intros H; injection H as <-; exact HI|].
      apply stable_false in St as [L Hi].
      destruct (N.eqb_spec (b_vins s) v) as [E|E]; cbn [negb].
      * eapply step_check1_pass; eauto.
      * intros H; injection H as <-. apply (step_to_perm s t o); auto. noncs Hpc.
    + (* PLoadLv *) intros H; injection H as <-. eapply step_loadlv; eauto.
    + (* PFinal *)
      destruct (negb (stable s)) eqn:St; [intros H; injection H as <-; exact HI|].
      apply stable_false in St as [L Hi].
      destruct (N.eqb_spec (b_vins s) v) as [E|E]; cbn [negb].
      * cbn [andb]. destruct (N.eqb_spec w 0) as [W|W]; intros H; injection H as <-.
        -- apply (step_to_stable0 s t o); auto. noncs Hpc.
        -- eapply step_final_pass; eauto.
      * intros H; injection H as <-. apply (step_to_stable0 s t o); auto. noncs Hpc.
    + (* PRemFinal *)
      destruct (negb (stable s)) eqn:St; [intros H; injection H as <-; exact HI|].
      apply stable_false in St as [L Hi].
      destruct (N.eqb_spec (b_vins s) v) as [E|E]; cbn [negb]; intros H; injection H as <-.
      * eapply step_remfinal_pass; eauto.
      * apply (step_to_stable0 s t o); auto. noncs Hpc.
    + (* PLock *)
      destruct (b_locked s) eqn:L; intros H; injection H as <-; [exact HI|].
      eapply step_lock; eauto.
    + (* PValidate *) eapply step_validate; eauto.
    + (* PUnlockRetry *) intros H; injection H as <-. eapply step_unlock_retry; eauto.
    + (* PRelook *) eapply step_relook; eauto.
    + (* PInsDel *)
      destruct (Nat.leb 15 (length (b_perm s))) eqn:Hlen; [discriminate|].
      intros H; injection H as <-. eapply step_insdel; eauto.
    + (* PStoreKey *) intros H; injection H as <-. eapply step_storekey; eauto.
    + (* PStoreLv *)
      destruct o as [k|k v|k v|k]; try discriminate; intros H; injection H as <-;
        eapply step_storelv; eauto.
    + (* PStorePerm *)
      destruct o as [k|k v|k v|k]; try discriminate; intros H; injection H as <-.
      * apply (step_storeperm s t (OpPut k v)); auto.
      * apply (step_storeperm s t (OpUput k v)); auto.
    + (* PUnlockIns *) intros H; injection H as <-. eapply step_unlock_ins; eauto.
    + (* POverwrite *)
      destruct o as [k|k v|k v|k]; try discriminate; intros H; injection H as <-.
      apply (step_overwrite s t (OpPut k v)); auto.
    + (* PClear *) intros H; injection H as <-. eapply step_clear; eauto.
    + (* PShrink *) intros H; injection H as <-. eapply step_shrink; eauto.
    + (* PUnlockPlain *) intros H; injection H as <-. eapply step_unlock_plain; eauto.
  - (* return *)
    destruct (t_pc (b_thr s t)) eqn:Hpc; try discriminate.
    intros H; injection H as <-. eapply step_return; eauto.
Qed.

Theorem inv_run tr : forall s s', Inv s -> brun true s tr = Some s' -> Inv s'.
Proof.
  induction tr as [|e tr IH]; intros s s' HI; cbn [brun].
  - intros H; injection H as <-. exact HI.
  - destruct (bstep true s e) as [s1|] eqn:E; [|discriminate].
    apply IH. eapply inv_step; eauto.
Qed.

Corollary inv_reachable tr s : brun true binit tr = Some s -> Inv s.
Proof. apply inv_run. exact inv_init. Qed.

(** ** The properties *)

Lemma ksorted_nth ks l i j :
  ksorted ks l -> (i < j < length l)%nat -> ks (nth i l 0%nat) < ks (nth j l 0%nat).
Proof.
  revert i j. induction l as [|a l IH]; intros i j Hs Hij; cbn [length] in Hij; [lia|].
  destruct Hs as [H1 H2]. destruct j as [|j]; [lia|]. destruct i as [|i]; cbn [nth].
  - apply H1. apply nth_In. lia.
  - apply IH; [exact H2|lia].
Qed.

(** the node represents the map in every reachable state; a cleared word of a
    slot in the permutation (a remove between its two stores) is "unbound" *)
Lemma rep_find_rank s k :
  Inv s ->
  bm s k = match find_rank (b_keys s) (b_perm s) k 0 with
           | Some (_, sl) => if b_lvs s sl =? 0 then None else Some (b_lvs s sl)
           | None => None
           end.
Proof.
  intros HI. destruct (I_rep s HI k) as [R1 R2].
  destruct (find_rank (b_keys s) (b_perm s) k 0) as [[rk sl]|] eqn:E.
  - apply find_rank_some in E as (i & _ & Hi & Hn & Hk). apply R1; [|exact Hk].
    rewrite <- Hn. apply nth_In. exact Hi.
  - apply R2. rewrite find_rank_none in E. exact E.
Qed.

(** (G) *)
Theorem border_get_interval tr s t k r :
  brun true binit tr = Some s ->
  t_op (b_thr s t) = Some (OpGet k) -> t_pc (b_thr s t) = PDone r ->
  (exists w, r = ROkVal w /\ w <> 0 /\ In (Some w) (t_seen (b_thr s t))) \/
  (r = RNotExist /\ In None (t_seen (b_thr s t))).
Proof.
  intros Hrun Ho Hpc. pose proof (inv_reachable tr s Hrun) as HI.
  destruct (inv_thr_facts s t _ HI Ho) as (_ & _ & HP). rewrite Hpc in HP. cbn [TP res_ok] in HP.
  destruct r; try contradiction.
  - left. exists v. destruct HP. auto.
  - right. auto.
Qed.

(** the ghost list of an in-flight operation always contains the current
    binding of its key (so "in [t_seen]" = "was the binding at some instant
    between invocation and now") *)
Theorem border_seen_current tr s t o :
  brun true binit tr = Some s -> t_op (b_thr s t) = Some o ->
  In (bm s (op_key o)) (t_seen (b_thr s t)).
Proof.
  intros Hrun Ho. pose proof (inv_reachable tr s Hrun) as HI.
  apply (inv_thr_facts s t o HI Ho).
Qed.

(** (R) + (U) *)
Theorem border_writers_atomic tr s t :
  brun true binit tr = Some s ->
  let th := b_thr s t in
  (* results *)
  (forall k r, t_op th = Some (OpRem k) -> t_pc th = PDone r ->
     (r = ROk \/ r = RNotFound) /\ In None (t_seen th)) /\
  (forall k v r, t_op th = Some (OpPut k v) -> t_pc th = PDone r ->
     r = ROk /\ In (Some v) (t_seen th)) /\
  (forall k v r, t_op th = Some (OpUput k v) -> t_pc th = PDone r ->
     (r = ROk /\ In (Some v) (t_seen th)) \/ (r = RUnique /\ exists w, In (Some w) (t_seen th))) /\
  (* the linearization steps are taken under the lock and do what the result says *)
  (forall sl rk, t_pc th = PClear sl rk ->
     exists k, t_op th = Some (OpRem k) /\ b_locked s = true /\
               bm s k = Some (b_lvs s sl) /\ b_lvs s sl <> 0) /\
  (forall sl, t_pc th = POverwrite sl ->
     exists o, t_op th = Some o /\ b_locked s = true /\
               bm s (op_key o) = Some (b_lvs s sl) /\ b_lvs s sl <> 0) /\
  (forall sl r, t_pc th = PStorePerm sl r ->
     exists o, t_op th = Some o /\ b_locked s = true /\ bm s (op_key o) = None).
Proof.
  intros Hrun th. pose proof (inv_reachable tr s Hrun) as HI. unfold th.
  assert (Hop : forall p, t_pc (b_thr s t) = p -> p <> PIdle -> exists o, t_op (b_thr s t) = Some o).
  { intros p Hp Hne. pose proof (I_thr s HI t) as H. unfold TIs, TI in H.
    destruct (t_op (b_thr s t)) as [o|]; [eauto|congruence]. }
  split; [|split; [|split; [|split; [|split]]]].
  - intros k r Ho Hpc.
    destruct (inv_thr_facts s t _ HI Ho) as (_ & _ & HP). rewrite Hpc in HP. cbn [TP res_ok] in HP.
    destruct r; try contradiction; auto.
  - intros k v r Ho Hpc.
    destruct (inv_thr_facts s t _ HI Ho) as (_ & _ & HP). rewrite Hpc in HP. cbn [TP res_ok] in HP.
    destruct r; try contradiction; auto.
  - intros k v r Ho Hpc.
    destruct (inv_thr_facts s t _ HI Ho) as (_ & _ & HP). rewrite Hpc in HP. cbn [TP res_ok] in HP.
    destruct r; try contradiction; auto.
  - intros sl rk Hpc. destruct (Hop _ Hpc) as [o Ho]; [discriminate|].
    destruct (inv_thr_facts s t o HI Ho) as (_ & _ & HP). rewrite Hpc in HP. cbn [TP] in HP.
    destruct HP as (Hrem & Hrk & Hn & Hk). destruct o as [|k0 v0|k0 v0|k]; try contradiction. cbn [op_key] in Hk.
    destruct (holder_view s t _ HI Hpc eq_refl) as (V1 & _ & V3 & _).
    assert (Hsl : In sl (b_perm s)) by (rewrite <- Hn; apply nth_In; exact Hrk).
    assert (Hz : b_lvs s sl <> 0) by (intros Hz; apply (V3 sl Hsl Hz)).
    exists k. repeat split; auto.
    destruct (I_rep s HI k) as [R1 _]. rewrite (R1 sl Hsl Hk).
    destruct (N.eqb_spec (b_lvs s sl) 0); [contradiction|reflexivity].
  - intros sl Hpc. destruct (Hop _ Hpc) as [o Ho]; [discriminate|].
    destruct (inv_thr_facts s t o HI Ho) as (_ & _ & HP). rewrite Hpc in HP. cbn [TP] in HP.
    destruct HP as (Hsl & Hk).
    destruct (holder_view s t _ HI Hpc eq_refl) as (V1 & _ & V3 & _).
    assert (Hz : b_lvs s sl <> 0) by (intros Hz; apply (V3 sl Hsl Hz)).
    exists o. repeat split; auto.
    destruct (I_rep s HI (op_key o)) as [R1 _]. rewrite (R1 sl Hsl Hk).
    destruct (N.eqb_spec (b_lvs s sl) 0); [contradiction|reflexivity].
  - intros sl r Hpc. destruct (Hop _ Hpc) as [o Ho]; [discriminate|].
    destruct (inv_thr_facts s t o HI Ho) as (_ & _ & HP). rewrite Hpc in HP. cbn [TP] in HP.
    destruct HP as (Hnin & Hpos & Hk & _).
    destruct (holder_view s t _ HI Hpc eq_refl) as (V1 & _).
    exists o. repeat split; auto.
    destruct (I_rep s HI (op_key o)) as [_ R2]. apply R2. eapply insert_pos_absent; eauto.
Qed.

(** (M) *)
Theorem border_lock_and_representation tr s :
  brun true binit tr = Some s ->
  (* the lock bit is a mutex *)
  (b_locked s = true <->
   exists t, in_cs (t_pc (b_thr s t)) = true /\
             forall t', in_cs (t_pc (b_thr s t')) = true -> t' = t) /\
  (* free lock: the node represents the map *)
  (b_locked s = false ->
     NoDup (b_perm s) /\
     (forall i j, (i < j < length (b_perm s))%nat ->
        b_keys s (nth i (b_perm s) 0%nat) < b_keys s (nth j (b_perm s) 0%nat)) /\
     (forall sl, In sl (b_perm s) -> b_lvs s sl <> 0) /\
     (forall k, bm s k = match find_rank (b_keys s) (b_perm s) k 0 with
                         | Some (_, sl) => Some (b_lvs s sl)
                         | None => None
                         end) /\
     b_insdel s = false) /\
  (* the dirty bit is set exactly while the holder is in the store phase of an insert *)
  (forall t, in_cs (t_pc (b_thr s t)) = true -> b_insdel s = in_ins (t_pc (b_thr s t))) /\
  (* in every state (locked or not): sorted, and the map is represented up to
     the one cleared word of a remove in progress *)
  NoDup (b_perm s) /\
  (forall k, bm s k = match find_rank (b_keys s) (b_perm s) k 0 with
                      | Some (_, sl) => if b_lvs s sl =? 0 then None else Some (b_lvs s sl)
                      | None => None
                      end).
Proof.
  intros Hrun. pose proof (inv_reachable tr s Hrun) as HI.
  assert (Hnd : NoDup (b_perm s)) by (eapply ksorted_NoDup; apply (I_sorted s HI)).
  split; [|split; [|split; [|split]]].
  - split.
    + intros L. destruct (I_holder s HI L) as [t Ht]. exists t. split; [exact Ht|].
      intros t' Ht'. eapply I_uniq; eauto.
    + intros (t & Ht & _). apply (I_cs s HI t Ht).
  - intros L. destruct (I_free s HI L) as (F1 & F2 & F3).
    split; [exact Hnd|]. split; [|split; [exact F2|split; [|exact F1]]].
    + intros i j Hij. apply ksorted_nth; [apply (I_sorted s HI)|exact Hij].
    + intros k. rewrite (rep_find_rank s k HI).
      destruct (find_rank (b_keys s) (b_perm s) k 0) as [[rk sl]|] eqn:E; [|reflexivity].
      apply find_rank_some in E as (i & _ & Hi & Hn & Hk).
      assert (Hsl : In sl (b_perm s)) by (rewrite <- Hn; apply nth_In; exact Hi).
      specialize (F2 sl Hsl). destruct (N.eqb_spec (b_lvs s sl) 0); [contradiction|reflexivity].
  - intros t Ht. apply (I_cs s HI t Ht).
  - exact Hnd.
  - intros k. apply rep_find_rank. exact HI.
Qed.

(** (X): the pinned reader returns OK with the cleared word, which was never
    a binding of the key *)
Definition refuting_trace : list bev :=
  [BInvoke 0 (OpPut 5 7)] ++ repeat (BStep 0) 11 ++ [BReturn 0] ++
  [BInvoke 1 (OpGet 5); BInvoke 2 (OpRem 5)] ++ repeat (BStep 1) 4 ++ repeat (BStep 2) 7 ++
  [BStep 2] ++ [BStep 1] ++ repeat (BStep 2) 2 ++ [BStep 1].

Theorem original_reader_refuted :
  exists tr s t, brun false binit tr = Some s /\
    t_op (b_thr s t) = Some (OpGet 5) /\ t_pc (b_thr s t) = PDone (ROkVal 0) /\
    ~ In (Some 0) (t_seen (b_thr s t)).
Proof.
  exists refuting_trace.
  exists (match brun false binit refuting_trace with Some s => s | None => binit end).
  exists 1%nat. split; [vm_compute; reflexivity|].
  split; [vm_compute; reflexivity|]. split; [vm_compute; reflexivity|].
  vm_compute. intros [H|[H|[]]]; discriminate H.
Qed.

(** the repaired reader on the same schedule goes back to the start *)
Example fixed_reader_retries :
  match brun true binit refuting_trace with
  | Some s => t_pc (b_thr s 1%nat) = PStable0
  | None => False
  end.
Proof. vm_compute. reflexivity. Qed.

(** ** The ghost list only grows while the operation is in flight *)

Lemma set_pc_seen s t' p t : t_seen (b_thr (set_pc s t' p) t) = t_seen (b_thr s t).
Proof. cbn [set_pc b_thr]. unfold updf. destruct (Nat.eqb_spec t t') as [->|]; reflexivity. Qed.

Lemma nb_seen_grows thr k x t : exists l, t_seen (note_binding thr k x t) = l ++ t_seen (thr t).
Proof.
  unfold note_binding. destruct (t_op (thr t)) as [o|]; [destruct (op_key o =? k)|];
    cbn [t_seen]; [exists [x]|exists []|exists []]; reflexivity.
Qed.

Theorem seen_grows fixed s e s' t :
  bstep fixed s e = Some s' ->
  (forall o, e <> BInvoke t o) -> e <> BReturn t ->
  exists l, t_seen (b_thr s' t) = l ++ t_seen (b_thr s t).
Proof.
  intros H Hinv Hret. destruct e as [t' o|t'|t']; cbn [bstep] in H.
  - destruct (t_pc (b_thr s t')); try discriminate H.
    destruct (match o with OpPut _ v | OpUput _ v => negb (v =? 0) | _ => true end); try discriminate H.
    injection H as <-. cbn [b_thr]. unfold updf.
    destruct (Nat.eqb_spec t t') as [->|]; [exfalso; eapply Hinv; reflexivity|exists []; reflexivity].
  - repeat match type of H with
           | context [match ?x with _ => _ end] => destruct x; try discriminate H
           end;
      injection H as <-; rewrite ?set_pc_seen; cbn [b_thr];
      first [exists []; reflexivity | apply nb_seen_grows].
  - destruct (t_pc (b_thr s t')); try discriminate H.
    injection H as <-. cbn [b_thr]. unfold updf.
    destruct (Nat.eqb_spec t t') as [->|]; [exfalso; apply Hret; reflexivity|exists []; reflexivity].
Qed.
