(** * LifecycleDefs: init / fin / destroy cycles and the background threads
    (interface_helper.h init/fin, manager_thread.h: stop flags, epoch_thread and
    gc_thread loops testing the flags once per period).

    [resets] selects init(): [true] = invoke_*_thread clears the stop flag before
    starting the thread (the "fix:" commit for F6), [false] = the pinned source,
    where the flags raised by the first fin() were never cleared. *)
From Coq Require Export List Bool PeanoNat.
Export ListNotations.

Record lc := {
  running : bool;       (* between init() and fin() *)
  ep_flag : bool;       (* kEpochThreadEnd *)
  gc_flag : bool;       (* kGCThreadEnd *)
  ep_alive : bool;      (* the epoch thread of this cycle is still in its loop *)
  gc_alive : bool;
  ep_iters : nat;       (* loop iterations completed in this cycle (each increments the epoch) *)
  gc_iters : nat;
  slots_busy : nat;     (* session slots with running_ = true *)
  storages : nat;       (* entries of the storage table *)
}.

Definition lc_init : lc :=
  {| running := false; ep_flag := false; gc_flag := false; ep_alive := false; gc_alive := false;
     ep_iters := 0; gc_iters := 0; slots_busy := 0; storages := 0 |}.

Inductive lev :=
| LInit                 (* init(): reset the session table, start both threads *)
| LFin                  (* fin(): destroy, raise both flags, join, drain *)
| LDestroy              (* destroy(): drop every storage *)
| LEpochIter            (* the epoch thread finishes one loop iteration and tests its flag *)
| LGcIter               (* the gc thread finishes one loop iteration and tests its flag *)
| LEnter | LLeave       (* a user session *)
| LCreate.              (* create_storage *)

Definition lstep (resets : bool) (s : lc) (e : lev) : option lc :=
  match e with
  | LInit =>
    if running s then None else
    Some {| running := true;
            ep_flag := if resets then false else ep_flag s;
            gc_flag := if resets then false else gc_flag s;
            ep_alive := true; gc_alive := true; ep_iters := 0; gc_iters := 0;
            slots_busy := 0;                     (* thread_info_table::init *)
            storages := storages s |}
  | LFin =>
    if negb (running s) then None else
    (* join: both loops have exited when fin returns *)
    Some {| running := false; ep_flag := true; gc_flag := true; ep_alive := false; gc_alive := false;
            ep_iters := ep_iters s; gc_iters := gc_iters s; slots_busy := slots_busy s; storages := 0 |}
  | LDestroy =>
    Some {| running := running s; ep_flag := ep_flag s; gc_flag := gc_flag s; ep_alive := ep_alive s;
            gc_alive := gc_alive s; ep_iters := ep_iters s; gc_iters := gc_iters s;
            slots_busy := slots_busy s; storages := 0 |}
  | LEpochIter =>
    if negb (ep_alive s) then None else
    Some {| running := running s; ep_flag := ep_flag s; gc_flag := gc_flag s;
            ep_alive := negb (ep_flag s);        (* if (kEpochThreadEnd) break; *)
            gc_alive := gc_alive s; ep_iters := S (ep_iters s); gc_iters := gc_iters s;
            slots_busy := slots_busy s; storages := storages s |}
  | LGcIter =>
    if negb (gc_alive s) then None else
    Some {| running := running s; ep_flag := ep_flag s; gc_flag := gc_flag s; ep_alive := ep_alive s;
            gc_alive := negb (gc_flag s);
            ep_iters := ep_iters s; gc_iters := S (gc_iters s);
            slots_busy := slots_busy s; storages := storages s |}
  | LEnter => Some {| running := running s; ep_flag := ep_flag s; gc_flag := gc_flag s; ep_alive := ep_alive s;
                      gc_alive := gc_alive s; ep_iters := ep_iters s; gc_iters := gc_iters s;
                      slots_busy := S (slots_busy s); storages := storages s |}
  | LLeave => Some {| running := running s; ep_flag := ep_flag s; gc_flag := gc_flag s; ep_alive := ep_alive s;
                      gc_alive := gc_alive s; ep_iters := ep_iters s; gc_iters := gc_iters s;
                      slots_busy := pred (slots_busy s); storages := storages s |}
  | LCreate => Some {| running := running s; ep_flag := ep_flag s; gc_flag := gc_flag s; ep_alive := ep_alive s;
                       gc_alive := gc_alive s; ep_iters := ep_iters s; gc_iters := gc_iters s;
                       slots_busy := slots_busy s; storages := S (storages s) |}
  end.

Fixpoint lrun (resets : bool) (s : lc) (tr : list lev) : option lc :=
  match tr with
  | [] => Some s
  | e :: r => match lstep resets s e with Some s' => lrun resets s' r | None => None end
  end.
