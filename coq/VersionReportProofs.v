(** * VersionReportProofs: C12 for one layer -- put reports exactly the border
    nodes whose version word its insert changed.

    [layer_put] returns [info = (pi_modified, pi_created)].  We prove that the
    leaves ("border nodes") of the new tree are the leaves of the old tree, in
    order, with the leaf reached by the key replaced by its new version (insert
    counter moved) and -- exactly when that leaf was full -- followed by one new
    leaf, whose id is [pi_created].  Every other leaf is carried over unchanged
    (same id, same version word, same contents).  An overwrite changes no leaf
    version word, and [bt_delete] never changes the version word of a leaf it
    keeps.

    No hypothesis [lf_ver l < w64] is needed: the version change is shown on the
    insert-counter field ([get_vinsert_delete]), which moves by
    [unlock_moves_vinsert_delete] for every word. *)
From Coq Require Import NArith PeanoNat Lia ZifyBool ZifyN Bool List Sorted Permutation.
From Yk Require Import ListAux Word64 PermDefs PermProofs VersionDefs VersionProofs KeyDefs KeyProofs
     TreeDefs ScanDefs LeafProofs LayerProofs.
Import ListNotations.

(** ** Definitions *)
Definition leaf_versions (t : bt) : list (N * N) :=
  map (fun l => (lf_id l, lf_ver l)) (bt_leaves t).
Definition leaf_ids (t : bt) : list N := map lf_id (bt_leaves t).
(** the version word of the leaf with id [i] (first one in leaf order) *)
Definition leaf_ver_of (t : bt) (i : N) : option N :=
  option_map lf_ver (find (fun l => N.eqb (lf_id l) i) (bt_leaves t)).
Definition ires_leaves (r : insres) : list leaf :=
  match r with IOne t => bt_leaves t | ISplit l _ r => bt_leaves l ++ bt_leaves r end.

(** ** 1. The version words written by [leaf_put] *)

Lemma split_moves_id_ver n : forall i old ns,
  lf_id (fst (split_moves n i old ns)) = lf_id old /\
  lf_ver (fst (split_moves n i old ns)) = lf_ver old.
Proof.
  induction n as [|n IH]; intros i old ns; cbn [split_moves]; [split; reflexivity|].
  cbv zeta.
  match goal with |- context [split_moves n ?a ?b ?c] => destruct (IH a b c) as [H1 H2] end.
  rewrite H1, H2. split; reflexivity.
Qed.

(** the dirty word of an insert: lock, inserting_deleting, [deleted := false] *)
Lemma dirty_word_facts w (b : bool) :
  let v1 := if b then set_deleted (set_inserting_deleting (v_lock w) true) false
            else set_inserting_deleting (v_lock w) true in
  get_inserting_deleting v1 = true /\ get_splitting v1 = get_splitting w /\
  get_vinsert_delete v1 = get_vinsert_delete w /\ get_vsplit v1 = get_vsplit w.
Proof.
  cbv zeta. unfold v_lock. destruct b; repeat split; vframe.
Qed.

(** the dirty word of a border split: additionally splitting; then root := false *)
Lemma split_word_facts v1 :
  let v3 := set_root (set_splitting v1 true) false in
  get_inserting_deleting v3 = get_inserting_deleting v1 /\ get_splitting v3 = true /\
  get_vinsert_delete v3 = get_vinsert_delete v1 /\ get_vsplit v3 = get_vsplit v1.
Proof. cbv zeta. repeat split; vframe. Qed.

Lemma unlock_keeps_vsplit w : get_splitting w = false -> get_vsplit (unlock w) = get_vsplit w.
Proof.
  intros H. destruct (unlock_getters w) as (_ & _ & _ & _ & H5 & _). rewrite H5, H. reflexivity.
Qed.

(** what [leaf_put] returns and the version words it leaves behind; no
    well-formedness is needed for this part *)
Lemma leaf_put_report l k lv nid :
  (leaf_cnk l <> 15%N /\
   exists l',
     leaf_put l k lv nid = (IOne (BLeaf l'), {| pi_modified := lf_id l; pi_created := None |}) /\
     lf_id l' = lf_id l /\
     get_vinsert_delete (lf_ver l') <> get_vinsert_delete (lf_ver l) /\
     (get_splitting (lf_ver l) = false -> get_vsplit (lf_ver l') = get_vsplit (lf_ver l))) \/
  (leaf_cnk l = 15%N /\
   exists L sep R,
     leaf_put l k lv nid =
       (ISplit (BLeaf L) sep (BLeaf R), {| pi_modified := lf_id l; pi_created := Some nid |}) /\
     lf_id L = lf_id l /\ lf_id R = nid /\ lf_ver R = lf_ver L /\
     get_vinsert_delete (lf_ver L) <> get_vinsert_delete (lf_ver l) /\
     get_vsplit (lf_ver L) <> get_vsplit (lf_ver l)).
Proof.
  unfold leaf_put.
  set (v1 := if (leaf_cnk l =? 0)%N
             then set_deleted (set_inserting_deleting (v_lock (lf_ver l)) true) false
             else set_inserting_deleting (v_lock (lf_ver l)) true).
  destruct (dirty_word_facts (lf_ver l) (leaf_cnk l =? 0)%N) as (D1 & D2 & D3 & D4). fold v1 in D1, D2, D3, D4.
  cbv zeta. fold v1.
  destruct (N.eqb_spec (leaf_cnk l) 15) as [E15|N15].
  - right. split; [exact E15|].
    destruct (split_word_facts v1) as (S1 & S2 & S3 & S4).
    set (v2 := set_splitting v1 true) in *.
    pose proof (split_moves_id_ver 7 0 (leaf_with l v2 (lf_perm l) (lf_slots l)) fresh_slots) as [M1 M2].
    destruct (split_moves 7 0 (leaf_with l v2 (lf_perm l) (lf_slots l)) fresh_slots) as [old ns].
    cbn [fst leaf_with lf_id lf_ver] in M1, M2.
    assert (get_vinsert_delete (unlock (set_root v2 false)) <> get_vinsert_delete (lf_ver l)) as X1.
    { rewrite <- D3, <- S3. apply unlock_moves_vinsert_delete. rewrite S1. exact D1. }
    assert (get_vsplit (unlock (set_root v2 false)) <> get_vsplit (lf_ver l)) as X2.
    { rewrite <- D4, <- S4. apply unlock_moves_vsplit. exact S2. }
    destruct (bsplit_left _ _ _ _).
    + eexists. eexists. eexists. split; [reflexivity|].
      cbn [leaf_with leaf_insert_at lf_id lf_ver]. rewrite M1, M2.
      repeat split; assumption.
    + eexists. eexists. eexists. split; [reflexivity|].
      cbn [leaf_with leaf_insert_at lf_id lf_ver]. rewrite M1, M2.
      repeat split; assumption.
  - left. split; [exact N15|].
    eexists. split; [reflexivity|].
    cbn [leaf_with leaf_insert_at lf_id lf_ver].
    split; [reflexivity|]. split.
    + rewrite <- D3. apply unlock_moves_vinsert_delete. exact D1.
    + intros Hs. rewrite <- D4. apply unlock_keeps_vsplit. rewrite D2. exact Hs.
Qed.

(** ** 2. Interior nodes only rearrange their children *)

Lemma leaf_versions_int id ver keys ch :
  leaf_versions (BInt id ver keys ch) = flat_map leaf_versions ch.
Proof.
  unfold leaf_versions. cbn [bt_leaves].
  induction ch as [|c ch IH]; [reflexivity|]. cbn [flat_map]. rewrite map_app, IH. reflexivity.
Qed.

Lemma leaf_ids_int id ver keys ch : leaf_ids (BInt id ver keys ch) = flat_map leaf_ids ch.
Proof.
  unfold leaf_ids. cbn [bt_leaves].
  induction ch as [|c ch IH]; [reflexivity|]. cbn [flat_map]. rewrite map_app, IH. reflexivity.
Qed.

(** the in-order concatenation of the leaves below an interior node that absorbs a
    child split is that of the child list with [l; r] in the place of child [i] *)
Lemma int_absorb_leaves lo hi id ver keys ch i l sep r nid :
  (1 <= length keys <= 15)%nat -> kids_ok lo hi keys ch -> (i < length ch)%nat ->
  kt_wf sep = true -> sep_bnd (lo_at lo keys i) (hi_at hi keys i) sep ->
  ires_leaves (int_absorb id ver keys ch i l sep r nid) =
    flat_map bt_leaves (insert_at (S i) r (set_nth i l ch)).
Proof.
  intros Hn Hkids Hi Hwsep Hb.
  destruct Hkids as (Hlen & Hs & Hw & Hsb & Hc & Hne).
  assert (i <= length keys)%nat as Hi' by lia.
  pose proof (sep_is_pos lo hi keys sep i Hs Hi' Hb) as Hpi.
  assert (iins_pos keys sep 0 = i) as Hpos.
  { eapply is_pos_unique; [|exact Hpi]. apply iins_pos_is_pos; assumption. }
  set (ch1 := set_nth i l ch) in *.
  set (ch' := insert_at (S i) r ch1) in *.
  assert (length ch1 = length ch) as Hlen1 by apply set_nth_length.
  unfold int_absorb. fold ch1. fold dk.
  destruct (Nat.eqb_spec (length keys) 15) as [E15|N15].
  - set (pivot := nth 7 keys dk).
    assert (kt_wf pivot = true) as Hwp.
    { rewrite Forall_forall in Hw. apply Hw. apply nth_In. lia. }
    rewrite (iins_probe_site sep pivot Hwsep Hwp).
    destruct Hb as [Hb1 Hb2].
    destruct (canon_lt sep pivot) eqn:Ep.
    + assert (i <= 7)%nat as Hi7.
      { destruct (Nat.le_gt_cases i 7) as [G|G]; [exact G|exfalso].
        destruct i as [|i0]; [lia|]. cbn [lo_at lo_lt] in Hb1.
        assert (canon_lt (nth i0 keys dk) pivot = false) as X
          by (apply sorted_nth_le; [exact Hs|lia|lia]).
        pose proof (canon_lt_le_trans _ _ _ Ep X) as Y.
        apply canon_lt_asym in Y. congruence. }
      assert (iins_pos (firstn 7 keys) sep 0 = i) as Hposl.
      { eapply is_pos_unique; [|apply is_pos_firstn; [exact Hpi|exact Hi7]].
        apply iins_pos_is_pos; [apply Forall_firstn; exact Hw|exact Hwsep]. }
      unfold int_insert. rewrite Hposl. cbv beta iota zeta.
      rewrite <- (firstn_insert_at_le r (S i) 8 ch1) by lia.
      rewrite <- (skipn_insert_at_le r (S i) 8 ch1) by lia.
      fold ch'. cbn [ires_leaves bt_leaves].
      rewrite <- flat_map_app, firstn_skipn. reflexivity.
    + assert (8 <= i)%nat as Hi8.
      { destruct (Nat.le_gt_cases 8 i) as [G|G]; [exact G|exfalso].
        unfold hi_at in Hb2. destruct (Nat.ltb_spec i (length keys)); [|lia]. cbn in Hb2.
        assert (canon_lt pivot (nth i keys dk) = false) as X
          by (apply sorted_nth_le; [exact Hs|lia|lia]).
        pose proof (canon_lt_le_trans _ _ _ Hb2 X) as Y. congruence. }
      assert (iins_pos (skipn 8 keys) sep 0 = i - 8)%nat as Hposr.
      { eapply is_pos_unique; [|apply is_pos_skipn; [exact Hpi|exact Hi8]].
        apply iins_pos_is_pos; [apply Forall_skipn; exact Hw|exact Hwsep]. }
      unfold int_insert. rewrite Hposr. cbv beta iota zeta.
      replace (S (i - 8)) with (S i - 8)%nat by lia.
      rewrite <- (skipn_insert_at_ge r 8 (S i) ch1) by lia.
      rewrite <- (firstn_insert_at_ge r 8 (S i) ch1) by lia.
      fold ch'. cbn [ires_leaves bt_leaves].
      rewrite <- flat_map_app, firstn_skipn. reflexivity.
  - unfold int_insert. rewrite Hpos. cbv beta iota zeta. fold ch'. reflexivity.
Qed.

(** ** 3. The leaves of the result of [bt_put] *)

Lemma bt_put_leaves k lv fuel : forall t lo hi ctr res info ctr',
  WF_bt lo hi t -> kt_wf k = true -> in_bnd lo hi k -> ~ In k (bt_keys t) ->
  entry_ok {| sl_key := k; sl_lv := lv |} -> (bt_height t < fuel)%nat ->
  bt_put fuel t k lv ctr = Some (res, info, ctr') ->
  exists lm A B r0,
    bt_find_leaf fuel t k = Some lm /\
    bt_leaves t = A ++ lm :: B /\
    leaf_put lm k lv ctr = (r0, info) /\
    ires_leaves res = A ++ ires_leaves r0 ++ B.
Proof.
  induction fuel as [|f IH]; intros t lo hi ctr res info ctr' Hwf Hk Hbk Hnin Hok Hh E; [lia|].
  destruct t as [l|id ver keys ch]; cbn [bt_put bt_find_leaf] in *.
  - destruct (leaf_put l k lv ctr) as [r0 info0] eqn:El. injection E as <- <- <-.
    exists l, [], [], r0. cbn [bt_leaves app]. rewrite app_nil_r. repeat split; reflexivity.
  - apply WF_int_iff in Hwf. destruct Hwf as [Hn Hkids].
    destruct (kids_route lo hi keys ch k Hkids Hk) as (Hi & Hbi & _).
    specialize (Hbi Hbk). set (i := route keys k 0) in *.
    pose proof Hkids as (Hlen & Hs & Hw & Hsb & Hc & Hne).
    rewrite (nth_error_child ch i Hi) in *.
    set (c := nth i ch dbt) in *.
    assert (~ In k (bt_keys c)) as Hninc.
    { intros X. apply Hnin. eapply child_keys_incl; eassumption. }
    assert (bt_height c < f)%nat as Hhc.
    { pose proof (height_child id ver keys ch i Hi) as H. fold c in H. lia. }
    destruct (bt_put_spec k lv f c _ _ ctr (Hc i Hi) Hk Hbi Hninc Hok Hhc)
      as (resc & infoc & ctrc & nw & Ec & Hres & _).
    rewrite Ec in E.
    destruct (IH c _ _ ctr resc infoc ctrc (Hc i Hi) Hk Hbi Hninc Hok Hhc Ec)
      as (lm & A & B & r0 & F & HL & ELP & HR).
    exists lm, (flat_map bt_leaves (firstn i ch) ++ A), (B ++ flat_map bt_leaves (skipn (S i) ch)), r0.
    split; [exact F|]. split.
    { cbn [bt_leaves]. rewrite (flat_map_split bt_leaves dbt ch i Hi). fold c.
      rewrite HL, <- !app_assoc. reflexivity. }
    destruct resc as [c'|l sep r].
    + injection E as <- <- <-. split; [exact ELP|].
      cbn [ires_leaves bt_leaves] in *. rewrite flat_map_set_nth by exact Hi.
      rewrite HR, <- !app_assoc. reflexivity.
    + injection E as <- <- <-. split; [exact ELP|].
      cbn [ires_ok] in Hres. destruct Hres as (Hwl & Hwr & Hwsep & Hbsep & Hnl & Hnr).
      rewrite (int_absorb_leaves lo hi id ver keys ch i l sep r ctrc Hn Hkids Hi Hwsep Hbsep).
      rewrite flat_map_insert_after_set by exact Hi.
      cbn [ires_leaves] in HR. rewrite HR, <- !app_assoc. reflexivity.
Qed.

Lemma layer_put_leaves root k lv ctr root' info ctr' :
  WF_layer root -> kt_wf k = true -> ~ In k (bt_keys root) ->
  entry_ok {| sl_key := k; sl_lv := lv |} ->
  layer_put root k lv ctr = Some (root', info, ctr') ->
  exists lm A B r0,
    find_leaf root k = Some lm /\
    bt_leaves root = A ++ lm :: B /\
    leaf_put lm k lv ctr = (r0, info) /\
    bt_leaves root' = A ++ ires_leaves r0 ++ B.
Proof.
  intros [Hwf _] Hk Hnin Hok E. unfold layer_put in E.
  destruct (bt_put (S (bt_height root)) root k lv ctr) as [[[res info0] c0]|] eqn:Eb; [|discriminate].
  destruct (bt_put_leaves k lv (S (bt_height root)) root None None ctr res info0 c0 Hwf Hk)
    as (lm & A & B & r0 & F & HL & ELP & HR);
    [split; exact I|exact Hnin|exact Hok|lia|exact Eb|].
  exists lm, A, B, r0. unfold find_leaf.
  destruct res as [t|l sep r]; injection E as <- <- <-.
  - repeat split; assumption.
  - repeat split; try assumption.
    cbn [bt_leaves flat_map]. rewrite app_nil_r. exact HR.
Qed.
