(** * VersionReportProofs: C12 for one layer -- put reports exactly the border
    nodes whose version word its insert changed.

    [layer_put] returns [info = (pi_modified, pi_created)].  We prove that the
    leaves ("border nodes") of the new tree are the leaves of the old tree, in
    order, with the leaf reached by the key replaced by its new version (insert
    counter moved) and -- exactly when that leaf was full -- followed by one new
    leaf, whose id is [pi_created].  Every other leaf is carried over unchanged
    (same id, same version word, same contents).  An overwrite changes no leaf
    version word, and [bt_delete] never changes the version word of a leaf it
    keeps.

    No hypothesis [lf_ver l < w64] is needed: the version change is shown on the
    insert-counter field ([get_vinsert_delete]), which moves by
    [unlock_moves_vinsert_delete] for every word. *)
From Coq Require Import NArith PeanoNat Lia ZifyBool ZifyN Bool List Sorted Permutation.
From Yk Require Import ListAux Word64 PermDefs PermProofs VersionDefs VersionProofs KeyDefs KeyProofs
     TreeDefs ScanDefs LeafProofs LayerProofs.
Import ListNotations.

(** ** Definitions *)
Definition leaf_versions (t : bt) : list (N * N) :=
  map (fun l => (lf_id l, lf_ver l)) (bt_leaves t).
Definition leaf_ids (t : bt) : list N := map lf_id (bt_leaves t).
(** the version word of the leaf with id [i] (first one in leaf order) *)
Definition leaf_ver_of (t : bt) (i : N) : option N :=
  option_map lf_ver (find (fun l => N.eqb (lf_id l) i) (bt_leaves t)).
Definition ires_leaves (r : insres) : list leaf :=
  match r with IOne t => bt_leaves t | ISplit l _ r => bt_leaves l ++ bt_leaves r end.

(** ** 1. The version words written by [leaf_put] *)

Lemma split_moves_id_ver n : forall i old ns,
  lf_id (fst (split_moves n i old ns)) = lf_id old /\
  lf_ver (fst (split_moves n i old ns)) = lf_ver old.
Proof.
  induction n as [|n IH]; intros i old ns; cbn [split_moves]; [split; reflexivity|].
  cbv zeta.
  match goal with |- context [split_moves n ?a ?b ?c] => destruct (IH a b c) as [H1 H2] end.
  rewrite H1, H2. split; reflexivity.
Qed.

(** the dirty word of an insert: lock, inserting_deleting, [deleted := false] *)
Lemma dirty_word_facts w (b : bool) :
  let v1 := if b then set_deleted (set_inserting_deleting (v_lock w) true) false
            else set_inserting_deleting (v_lock w) true in
  get_inserting_deleting v1 = true /\ get_splitting v1 = get_splitting w /\
  get_vinsert_delete v1 = get_vinsert_delete w /\ get_vsplit v1 = get_vsplit w.
Proof.
  cbv zeta. unfold v_lock. destruct b; repeat split; vframe.
Qed.

(** the dirty word of a border split: additionally splitting; then root := false *)
Lemma split_word_facts v1 :
  let v3 := set_root (set_splitting v1 true) false in
  get_inserting_deleting v3 = get_inserting_deleting v1 /\ get_splitting v3 = true /\
  get_vinsert_delete v3 = get_vinsert_delete v1 /\ get_vsplit v3 = get_vsplit v1.
Proof. cbv zeta. repeat split; vframe. Qed.

Lemma unlock_keeps_vsplit w : get_splitting w = false -> get_vsplit (unlock w) = get_vsplit w.
Proof.
  intros H. destruct (unlock_getters w) as (_ & _ & _ & _ & H5 & _). rewrite H5, H. reflexivity.
Qed.

(** what [leaf_put] returns and the version words it leaves behind; no
    well-formedness is needed for this part *)
Lemma leaf_put_report l k lv nid :
  (leaf_cnk l <> 15%N /\
   exists l',
     leaf_put l k lv nid = (IOne (BLeaf l'), {| pi_modified := lf_id l; pi_created := None |}) /\
     lf_id l' = lf_id l /\
     get_vinsert_delete (lf_ver l') <> get_vinsert_delete (lf_ver l) /\
     (get_splitting (lf_ver l) = false -> get_vsplit (lf_ver l') = get_vsplit (lf_ver l))) \/
  (leaf_cnk l = 15%N /\
   exists L sep R,
     leaf_put l k lv nid =
       (ISplit (BLeaf L) sep (BLeaf R), {| pi_modified := lf_id l; pi_created := Some nid |}) /\
     lf_id L = lf_id l /\ lf_id R = nid /\ lf_ver R = lf_ver L /\
     get_vinsert_delete (lf_ver L) <> get_vinsert_delete (lf_ver l) /\
     get_vsplit (lf_ver L) <> get_vsplit (lf_ver l)).
Proof.
  unfold leaf_put.
  set (v1 := if (leaf_cnk l =? 0)%N
             then set_deleted (set_inserting_deleting (v_lock (lf_ver l)) true) false
             else set_inserting_deleting (v_lock (lf_ver l)) true).
  destruct (dirty_word_facts (lf_ver l) (leaf_cnk l =? 0)%N) as (D1 & D2 & D3 & D4). fold v1 in D1, D2, D3, D4.
  cbv zeta. fold v1.
  destruct (N.eqb_spec (leaf_cnk l) 15) as [E15|N15].
  - right. split; [exact E15|].
    destruct (split_word_facts v1) as (S1 & S2 & S3 & S4).
    set (v2 := set_splitting v1 true) in *.
    pose proof (split_moves_id_ver 7 0 (leaf_with l v2 (lf_perm l) (lf_slots l)) fresh_slots) as [M1 M2].
    destruct (split_moves 7 0 (leaf_with l v2 (lf_perm l) (lf_slots l)) fresh_slots) as [old ns].
    cbn [fst leaf_with lf_id lf_ver] in M1, M2.
    assert (get_vinsert_delete (unlock (set_root v2 false)) <> get_vinsert_delete (lf_ver l)) as X1.
    { rewrite <- D3, <- S3. apply unlock_moves_vinsert_delete. rewrite S1. exact D1. }
    assert (get_vsplit (unlock (set_root v2 false)) <> get_vsplit (lf_ver l)) as X2.
    { rewrite <- D4, <- S4. apply unlock_moves_vsplit. exact S2. }
    destruct (bsplit_left _ _ _ _).
    + eexists. eexists. eexists. split; [reflexivity|].
      cbn [leaf_with leaf_insert_at lf_id lf_ver]. rewrite M1, M2.
      repeat split; assumption.
    + eexists. eexists. eexists. split; [reflexivity|].
      cbn [leaf_with leaf_insert_at lf_id lf_ver]. rewrite M1, M2.
      repeat split; assumption.
  - left. split; [exact N15|].
    eexists. split; [reflexivity|].
    cbn [leaf_with leaf_insert_at lf_id lf_ver].
    split; [reflexivity|]. split.
    + rewrite <- D3. apply unlock_moves_vinsert_delete. exact D1.
    + intros Hs. rewrite <- D4. apply unlock_keeps_vsplit. rewrite D2. exact Hs.
Qed.

(** ** 2. Interior nodes only rearrange their children *)

Lemma leaf_versions_int id ver keys ch :
  leaf_versions (BInt id ver keys ch) = flat_map leaf_versions ch.
Proof.
  unfold leaf_versions. cbn [bt_leaves].
  induction ch as [|c ch IH]; [reflexivity|]. cbn [flat_map]. rewrite map_app, IH. reflexivity.
Qed.

Lemma leaf_ids_int id ver keys ch : leaf_ids (BInt id ver keys ch) = flat_map leaf_ids ch.
Proof.
  unfold leaf_ids. cbn [bt_leaves].
  induction ch as [|c ch IH]; [reflexivity|]. cbn [flat_map]. rewrite map_app, IH. reflexivity.
Qed.

(** the in-order concatenation of the leaves below an interior node that absorbs a
    child split is that of the child list with [l; r] in the place of child [i] *)
Lemma int_absorb_leaves lo hi id ver keys ch i l sep r nid :
  (1 <= length keys <= 15)%nat -> kids_ok lo hi keys ch -> (i < length ch)%nat ->
  kt_wf sep = true -> sep_bnd (lo_at lo keys i) (hi_at hi keys i) sep ->
  ires_leaves (int_absorb id ver keys ch i l sep r nid) =
    flat_map bt_leaves (insert_at (S i) r (set_nth i l ch)).
Proof.
  intros Hn Hkids Hi Hwsep Hb.
  destruct Hkids as (Hlen & Hs & Hw & Hsb & Hc & Hne).
  assert (i <= length keys)%nat as Hi' by lia.
  pose proof (sep_is_pos lo hi keys sep i Hs Hi' Hb) as Hpi.
  assert (iins_pos keys sep 0 = i) as Hpos.
  { eapply is_pos_unique; [|exact Hpi]. apply iins_pos_is_pos; assumption. }
  set (ch1 := set_nth i l ch) in *.
  set (ch' := insert_at (S i) r ch1) in *.
  assert (length ch1 = length ch) as Hlen1 by apply set_nth_length.
  unfold int_absorb. fold ch1. fold dk.
  destruct (Nat.eqb_spec (length keys) 15) as [E15|N15].
  - set (pivot := nth 7 keys dk).
    assert (kt_wf pivot = true) as Hwp.
    { rewrite Forall_forall in Hw. apply Hw. apply nth_In. lia. }
    rewrite (iins_probe_site sep pivot Hwsep Hwp).
    destruct Hb as [Hb1 Hb2].
    destruct (canon_lt sep pivot) eqn:Ep.
    + assert (i <= 7)%nat as Hi7.
      { destruct (Nat.le_gt_cases i 7) as [G|G]; [exact G|exfalso].
        destruct i as [|i0]; [lia|]. cbn [lo_at lo_lt] in Hb1.
        assert (canon_lt (nth i0 keys dk) pivot = false) as X
          by (apply sorted_nth_le; [exact Hs|lia|lia]).
        pose proof (canon_lt_le_trans _ _ _ Ep X) as Y.
        apply canon_lt_asym in Y. congruence. }
      assert (iins_pos (firstn 7 keys) sep 0 = i) as Hposl.
      { eapply is_pos_unique; [|apply is_pos_firstn; [exact Hpi|exact Hi7]].
        apply iins_pos_is_pos; [apply Forall_firstn; exact Hw|exact Hwsep]. }
      unfold int_insert. rewrite Hposl. cbv beta iota zeta.
      rewrite <- (firstn_insert_at_le r (S i) 8 ch1) by lia.
      rewrite <- (skipn_insert_at_le r (S i) 8 ch1) by lia.
      fold ch'. cbn [ires_leaves bt_leaves].
      rewrite <- flat_map_app, firstn_skipn. reflexivity.
    + assert (8 <= i)%nat as Hi8.
      { destruct (Nat.le_gt_cases 8 i) as [G|G]; [exact G|exfalso].
        unfold hi_at in Hb2. destruct (Nat.ltb_spec i (length keys)); [|lia]. cbn in Hb2.
        assert (canon_lt pivot (nth i keys dk) = false) as X
          by (apply sorted_nth_le; [exact Hs|lia|lia]).
        pose proof (canon_lt_le_trans _ _ _ Hb2 X) as Y. congruence. }
      assert (iins_pos (skipn 8 keys) sep 0 = i - 8)%nat as Hposr.
      { eapply is_pos_unique; [|apply is_pos_skipn; [exact Hpi|exact Hi8]].
        apply iins_pos_is_pos; [apply Forall_skipn; exact Hw|exact Hwsep]. }
      unfold int_insert. rewrite Hposr. cbv beta iota zeta.
      replace (S (i - 8)) with (S i - 8)%nat by lia.
      rewrite <- (skipn_insert_at_ge r 8 (S i) ch1) by lia.
      rewrite <- (firstn_insert_at_ge r 8 (S i) ch1) by lia.
      fold ch'. cbn [ires_leaves bt_leaves].
      rewrite <- flat_map_app, firstn_skipn. reflexivity.
  - unfold int_insert. rewrite Hpos. cbv beta iota zeta. fold ch'. reflexivity.
Qed.

(** ** 3. The leaves of the result of [bt_put] *)

Lemma bt_put_leaves k lv fuel : forall t lo hi ctr res info ctr',
  WF_bt lo hi t -> kt_wf k = true -> in_bnd lo hi k -> ~ In k (bt_keys t) ->
  entry_ok {| sl_key := k; sl_lv := lv |} -> (bt_height t < fuel)%nat ->
  bt_put fuel t k lv ctr = Some (res, info, ctr') ->
  exists lm A B r0,
    bt_find_leaf fuel t k = Some lm /\
    bt_leaves t = A ++ lm :: B /\
    leaf_put lm k lv ctr = (r0, info) /\
    ires_leaves res = A ++ ires_leaves r0 ++ B.
Proof.
  induction fuel as [|f IH]; intros t lo hi ctr res info ctr' Hwf Hk Hbk Hnin Hok Hh E; [lia|].
  destruct t as [l|id ver keys ch]; cbn [bt_put bt_find_leaf] in *.
  - destruct (leaf_put l k lv ctr) as [r0 info0] eqn:El. injection E as <- <- <-.
    exists l, [], [], r0. cbn [bt_leaves app]. rewrite app_nil_r.
    split; [reflexivity|]. split; [reflexivity|]. split; [exact El|reflexivity].
  - apply WF_int_iff in Hwf. destruct Hwf as [Hn Hkids].
    destruct (kids_route lo hi keys ch k Hkids Hk) as (Hi & Hbi & _).
    specialize (Hbi Hbk). set (i := route keys k 0) in *.
    pose proof Hkids as (Hlen & Hs & Hw & Hsb & Hc & Hne).
    rewrite (nth_error_child ch i Hi) in *.
    set (c := nth i ch dbt) in *.
    assert (~ In k (bt_keys c)) as Hninc.
    { intros X. apply Hnin. eapply child_keys_incl; eassumption. }
    assert (bt_height c < f)%nat as Hhc.
    { pose proof (height_child id ver keys ch i Hi) as H. fold c in H. lia. }
    destruct (bt_put_spec k lv f c _ _ ctr (Hc i Hi) Hk Hbi Hninc Hok Hhc)
      as (resc & infoc & ctrc & nw & Ec & Hres & _).
    rewrite Ec in E.
    destruct (IH c _ _ ctr resc infoc ctrc (Hc i Hi) Hk Hbi Hninc Hok Hhc Ec)
      as (lm & A & B & r0 & F & HL & ELP & HR).
    exists lm, (flat_map bt_leaves (firstn i ch) ++ A), (B ++ flat_map bt_leaves (skipn (S i) ch)), r0.
    split; [exact F|]. split.
    { cbn [bt_leaves]. rewrite (flat_map_split bt_leaves dbt ch i Hi). fold c.
      rewrite HL, <- !app_assoc. reflexivity. }
    destruct resc as [c'|l sep r].
    + injection E as <- <- <-. split; [exact ELP|].
      cbn [ires_leaves bt_leaves] in *. rewrite flat_map_set_nth by exact Hi.
      rewrite HR, <- !app_assoc. reflexivity.
    + injection E as <- <- <-. split; [exact ELP|].
      cbn [ires_ok] in Hres. destruct Hres as (Hwl & Hwr & Hwsep & Hbsep & Hnl & Hnr).
      rewrite (int_absorb_leaves lo hi id ver keys ch i l sep r ctrc Hn Hkids Hi Hwsep Hbsep).
      rewrite flat_map_insert_after_set by exact Hi.
      cbn [ires_leaves] in HR. rewrite HR, <- !app_assoc. reflexivity.
Qed.

Lemma layer_put_leaves root k lv ctr root' info ctr' :
  WF_layer root -> kt_wf k = true -> ~ In k (bt_keys root) ->
  entry_ok {| sl_key := k; sl_lv := lv |} ->
  layer_put root k lv ctr = Some (root', info, ctr') ->
  exists lm A B r0,
    find_leaf root k = Some lm /\
    bt_leaves root = A ++ lm :: B /\
    leaf_put lm k lv ctr = (r0, info) /\
    bt_leaves root' = A ++ ires_leaves r0 ++ B.
Proof.
  intros [Hwf _] Hk Hnin Hok E. unfold layer_put in E.
  destruct (bt_put (S (bt_height root)) root k lv ctr) as [[[res info0] c0]|] eqn:Eb; [|discriminate].
  destruct (bt_put_leaves k lv (S (bt_height root)) root None None ctr res info0 c0 Hwf Hk)
    as (lm & A & B & r0 & F & HL & ELP & HR);
    [split; exact I|exact Hnin|exact Hok|lia|exact Eb|].
  exists lm, A, B, r0. unfold find_leaf.
  destruct res as [t|l sep r]; injection E as <- <- <-.
  - repeat split; assumption.
  - repeat split; try assumption.
    cbn [bt_leaves flat_map]. rewrite app_nil_r. exact HR.
Qed.

(** ** 4. Leaf ids and version lookup *)

Lemma leaf_ids_incl t i : In i (leaf_ids t) -> In i (bt_ids t).
Proof.
  unfold leaf_ids. intros H. apply in_map_iff in H. destruct H as (l & <- & H).
  apply bt_leaves_ids_incl. exact H.
Qed.

Lemma leaf_ids_NoDup t : NoDup (bt_ids t) -> NoDup (leaf_ids t).
Proof.
  induction t as [l|id ver keys ch IH] using bt_ind'.
  - intros _. cbn. constructor; [intros []|constructor].
  - rewrite leaf_ids_int. cbn [bt_ids]. intros H. apply NoDup_cons_iff in H. destruct H as [_ H].
    induction ch as [|c ch IHch]; [constructor|].
    cbn [flat_map] in *. apply Forall_cons_iff in IH. destruct IH as [IHc IHr].
    apply NoDup_app_inv in H. destruct H as (H1 & H2 & H3).
    apply NoDup_app_intro; [apply IHc; exact H1|apply IHch; assumption|].
    intros x X1 X2. apply (H3 x); [apply leaf_ids_incl; exact X1|].
    apply in_flat_map in X2. destruct X2 as (c0 & Hc0 & X2). apply in_flat_map.
    exists c0. split; [exact Hc0|apply leaf_ids_incl; exact X2].
Qed.

Lemma leaf_versions_ids t : map fst (leaf_versions t) = leaf_ids t.
Proof. unfold leaf_versions, leaf_ids. rewrite map_map. reflexivity. Qed.

Lemma find_ver_spec (ls : list leaf) i v :
  NoDup (map lf_id ls) ->
  (option_map lf_ver (find (fun l => N.eqb (lf_id l) i) ls) = Some v <->
   In (i, v) (map (fun l => (lf_id l, lf_ver l)) ls)).
Proof.
  induction ls as [|a ls IH]; intros Hnd; cbn [find map In option_map].
  - split; [discriminate|intros []].
  - cbn [map] in Hnd. apply NoDup_cons_iff in Hnd. destruct Hnd as [Hna Hnd].
    destruct (N.eqb_spec (lf_id a) i) as [E|NE].
    + cbn [option_map]. split.
      * intros H. injection H as <-. left. rewrite E. reflexivity.
      * intros [H|H]; [injection H as _ <-; reflexivity|].
        exfalso. apply Hna. apply in_map_iff in H. destruct H as (l & H & Hl).
        injection H as H1 H2. rewrite E, <- H1. apply in_map. exact Hl.
    + rewrite (IH Hnd). split; [intros H; right; exact H|].
      intros [H|H]; [injection H as H _; contradiction|exact H].
Qed.

(** [leaf_ver_of] is the lookup in [leaf_versions] *)
Lemma leaf_ver_of_spec t i v :
  NoDup (leaf_ids t) -> (leaf_ver_of t i = Some v <-> In (i, v) (leaf_versions t)).
Proof. apply find_ver_spec. Qed.

Lemma leaf_ver_of_leaf t l :
  NoDup (leaf_ids t) -> In l (bt_leaves t) -> leaf_ver_of t (lf_id l) = Some (lf_ver l).
Proof.
  intros Hnd H. apply leaf_ver_of_spec; [exact Hnd|].
  unfold leaf_versions. apply (in_map (fun l => (lf_id l, lf_ver l))). exact H.
Qed.

(** ** 5. C12 for an insert into one layer *)

(** the complete picture: the new leaf sequence is the old one with the reached
    leaf [lm] replaced by [lm'] (same id, insert counter moved) and, exactly when
    [lm] was full, followed by the new leaf [cnew] with id [pi_created info = ctr] *)
Theorem c12_created_iff_split root k lv ctr root' info ctr' :
  WF_layer root -> kt_wf k = true -> ~ In k (bt_keys root) ->
  entry_ok {| sl_key := k; sl_lv := lv |} ->
  (forall i, In i (bt_ids root) -> (i < ctr)%N) ->
  layer_put root k lv ctr = Some (root', info, ctr') ->
  exists lm lm' A B,
    find_leaf root k = Some lm /\ bt_leaves root = A ++ lm :: B /\
    lf_id lm = pi_modified info /\ lf_id lm' = lf_id lm /\
    get_vinsert_delete (lf_ver lm') <> get_vinsert_delete (lf_ver lm) /\
    ((exists c, pi_created info = Some c) <-> leaf_cnk lm = 15%N) /\
    match pi_created info with
    | None =>
      leaf_cnk lm <> 15%N /\ bt_leaves root' = A ++ lm' :: B /\
      (get_splitting (lf_ver lm) = false -> get_vsplit (lf_ver lm') = get_vsplit (lf_ver lm))
    | Some c =>
      leaf_cnk lm = 15%N /\ c = ctr /\ ~ In c (leaf_ids root) /\ In c (leaf_ids root') /\
      get_vsplit (lf_ver lm') <> get_vsplit (lf_ver lm) /\
      exists cnew, lf_id cnew = c /\ lf_ver cnew = lf_ver lm' /\
                   bt_leaves root' = A ++ lm' :: cnew :: B
    end.
Proof.
  intros Hwfl Hk Hnin Hok Hctr E.
  destruct (layer_put_leaves root k lv ctr root' info ctr' Hwfl Hk Hnin Hok E)
    as (lm & A & B & r0 & F & HL & ELP & HR).
  destruct (leaf_put_report lm k lv ctr)
    as [(N15 & l' & E1 & Hid & Hv & Hvs)|(E15 & L & sep & R & E1 & HidL & HidR & HvR & Hv & Hvs)];
    rewrite E1 in ELP; injection ELP as <- <-;
    cbn [pi_modified pi_created ires_leaves bt_leaves app] in *.
  - exists lm, l', A, B.
    split; [exact F|]. split; [exact HL|]. split; [reflexivity|]. split; [exact Hid|].
    split; [exact Hv|]. split.
    { split; [intros [c X]; discriminate|intros X; contradiction]. }
    split; [exact N15|]. split; [exact HR|exact Hvs].
  - exists lm, L, A, B.
    split; [exact F|]. split; [exact HL|]. split; [reflexivity|]. split; [exact HidL|].
    split; [exact Hv|]. split.
    { split; [intros _; exact E15|intros _; eexists; reflexivity]. }
    split; [exact E15|]. split; [reflexivity|]. split.
    { intros X. apply leaf_ids_incl in X. apply Hctr in X. lia. }
    split.
    { unfold leaf_ids. rewrite HR, map_app. apply in_or_app. right. cbn [map]. right. left. exact HidR. }
    split; [exact Hvs|].
    exists R. split; [exact HidR|]. split; [exact HvR|exact HR].
Qed.

(** every border node other than the reported modified one is carried over
    unchanged: same id, same version word, same contents *)
Theorem c12_other_leaves_unchanged root k lv ctr root' info ctr' :
  WF_layer root -> kt_wf k = true -> ~ In k (bt_keys root) ->
  entry_ok {| sl_key := k; sl_lv := lv |} ->
  (forall i, In i (bt_ids root) -> (i < ctr)%N) ->
  layer_put root k lv ctr = Some (root', info, ctr') ->
  forall l, In l (bt_leaves root) -> lf_id l <> pi_modified info ->
            In l (bt_leaves root') /\ In (lf_id l, lf_ver l) (leaf_versions root').
Proof.
  intros Hwfl Hk Hnin Hok Hctr E l Hl Hne.
  destruct (c12_created_iff_split root k lv ctr root' info ctr' Hwfl Hk Hnin Hok Hctr E)
    as (lm & lm' & A & B & F & HL & Hm & Hid & Hv & Hiff & Hc).
  assert (In l (bt_leaves root')) as Hin.
  { rewrite HL in Hl. apply in_app_or in Hl.
    assert (In l A \/ In l B) as Hl'.
    { destruct Hl as [Hl|[Hl|Hl]]; [left; exact Hl| |right; exact Hl].
      exfalso. apply Hne. rewrite <- Hl. exact Hm. }
    destruct (pi_created info) as [c|].
    - destruct Hc as (_ & _ & _ & _ & _ & cnew & _ & _ & ->).
      apply in_or_app. destruct Hl' as [X|X]; [left; exact X|right; right; right; exact X].
    - destruct Hc as (_ & -> & _).
      apply in_or_app. destruct Hl' as [X|X]; [left; exact X|right; right; exact X]. }
  split; [exact Hin|].
  unfold leaf_versions. apply (in_map (fun l => (lf_id l, lf_ver l))). exact Hin.
Qed.

(** the reported modified node is the border reached by the key, and its
    version word changed (its insert counter moved) *)
Theorem c12_modified_changes root k lv ctr root' info ctr' :
  WF_layer root -> kt_wf k = true -> ~ In k (bt_keys root) ->
  entry_ok {| sl_key := k; sl_lv := lv |} ->
  (forall i, In i (bt_ids root) -> (i < ctr)%N) ->
  layer_put root k lv ctr = Some (root', info, ctr') ->
  exists lm lm',
    find_leaf root k = Some lm /\ In lm (bt_leaves root) /\ lf_id lm = pi_modified info /\
    In lm' (bt_leaves root') /\ lf_id lm' = pi_modified info /\
    lf_ver lm' <> lf_ver lm /\
    get_vinsert_delete (lf_ver lm') <> get_vinsert_delete (lf_ver lm).
Proof.
  intros Hwfl Hk Hnin Hok Hctr E.
  destruct (c12_created_iff_split root k lv ctr root' info ctr' Hwfl Hk Hnin Hok Hctr E)
    as (lm & lm' & A & B & F & HL & Hm & Hid & Hv & Hiff & Hc).
  exists lm, lm'. split; [exact F|]. split.
  { rewrite HL. apply in_or_app. right. left. reflexivity. }
  split; [exact Hm|]. split.
  { destruct (pi_created info) as [c|].
    - destruct Hc as (_ & _ & _ & _ & _ & cnew & _ & _ & ->). apply in_or_app. right. left. reflexivity.
    - destruct Hc as (_ & -> & _). apply in_or_app. right. left. reflexivity. }
  split; [rewrite Hid; exact Hm|]. split; [|exact Hv].
  intros X. apply Hv. rewrite X. reflexivity.
Qed.

(** the exact statement: among the border nodes of the old tree, the one whose
    version word differs after the call is precisely [pi_modified info]; the
    border nodes of the new tree that are not border nodes of the old tree are
    precisely [pi_created info] (none, or the one new border of a split) *)
Theorem c12_exact root k lv ctr root' info ctr' :
  WF_layer root -> kt_wf k = true -> ~ In k (bt_keys root) ->
  entry_ok {| sl_key := k; sl_lv := lv |} ->
  (forall i, In i (bt_ids root) -> (i < ctr)%N) ->
  layer_put root k lv ctr = Some (root', info, ctr') ->
  NoDup (leaf_ids root) /\ NoDup (leaf_ids root') /\
  (forall i, In i (leaf_ids root) -> In i (leaf_ids root')) /\
  (forall i, In i (leaf_ids root) ->
     (leaf_ver_of root' i <> leaf_ver_of root i <-> i = pi_modified info)) /\
  (forall i v, In (i, v) (leaf_versions root) ->
     (In (i, v) (leaf_versions root') <-> i <> pi_modified info)) /\
  (forall c, In c (leaf_ids root') /\ ~ In c (leaf_ids root) <-> pi_created info = Some c).
Proof.
  intros Hwfl Hk Hnin Hok Hctr E.
  destruct (layer_put_spec root k lv ctr Hwfl Hk Hnin Hok Hctr) as (root2 & info2 & ctr2 & E2 & Hwfl' & _).
  rewrite E in E2. injection E2 as <- <- <-.
  pose proof (leaf_ids_NoDup root (proj2 Hwfl)) as Hnd.
  pose proof (leaf_ids_NoDup root' (proj2 Hwfl')) as Hnd'.
  destruct (c12_created_iff_split root k lv ctr root' info ctr' Hwfl Hk Hnin Hok Hctr E)
    as (lm & lm' & A & B & F & HL & Hm & Hid & Hv & Hiff & Hc).
  pose proof (c12_other_leaves_unchanged root k lv ctr root' info ctr' Hwfl Hk Hnin Hok Hctr E) as Hoth.
  destruct (c12_modified_changes root k lv ctr root' info ctr' Hwfl Hk Hnin Hok Hctr E)
    as (lm0 & lm0' & F0 & Hin0 & Hm0 & Hin0' & Hm0' & Hne0 & _).
  (* the version lookup before and after *)
  assert (forall i, In i (leaf_ids root) ->
            (leaf_ver_of root' i <> leaf_ver_of root i <-> i = pi_modified info)) as P2.
  { intros i Hi. unfold leaf_ids in Hi. apply in_map_iff in Hi. destruct Hi as (l & <- & Hl).
    rewrite (leaf_ver_of_leaf root l Hnd Hl).
    destruct (N.eq_dec (lf_id l) (pi_modified info)) as [Ei|Ni].
    - assert (l = lm0) as ->.
      { apply (map_NoDup_inj lf_id (bt_leaves root)); [exact Hnd|exact Hl|exact Hin0|congruence]. }
      split; [intros _; exact Ei|intros _].
      rewrite Hm0, <- Hm0'. rewrite (leaf_ver_of_leaf root' lm0' Hnd' Hin0').
      intros X. injection X as X. contradiction.
    - destruct (Hoth l Hl Ni) as [Hl' _].
      rewrite (leaf_ver_of_leaf root' l Hnd' Hl').
      split; [intros X; exfalso; apply X; reflexivity|intros X; contradiction]. }
  split; [exact Hnd|]. split; [exact Hnd'|]. split.
  { intros i Hi. unfold leaf_ids in *. apply in_map_iff in Hi. destruct Hi as (l & <- & Hl).
    destruct (N.eq_dec (lf_id l) (pi_modified info)) as [Ei|Ni].
    - rewrite Ei, <- Hm0'. apply in_map. exact Hin0'.
    - apply in_map. apply (Hoth l Hl Ni). }
  split; [exact P2|]. split.
  { intros i v Hiv.
    assert (In i (leaf_ids root)) as Hi.
    { rewrite <- leaf_versions_ids. apply (in_map fst) in Hiv. exact Hiv. }
    specialize (P2 i Hi).
    apply (leaf_ver_of_spec root i v Hnd) in Hiv. rewrite Hiv in P2.
    rewrite <- (leaf_ver_of_spec root' i v Hnd').
    split.
    - intros X Y. apply P2 in Y. apply Y. exact X.
    - intros X. destruct (leaf_ver_of root' i) as [v'|] eqn:Ev.
      + destruct (N.eq_dec v' v) as [->|Nv]; [reflexivity|].
        exfalso. apply X. apply P2. intros Z. injection Z as Z. contradiction.
      + exfalso. apply X. apply P2. discriminate. }
  intros c. unfold leaf_ids in *.
  destruct (pi_created info) as [c0|].
  - destruct Hc as (_ & -> & Hnc & Hic & _ & cnew & Hidc & _ & HL').
    split.
    + intros [H1 H2]. rewrite HL' in H1. rewrite HL in H2.
      rewrite map_app in H1, H2. cbn [map] in H1, H2. rewrite in_app_iff in H1, H2. cbn [In] in H1, H2.
      destruct H1 as [H1|[H1|[H1|H1]]].
      * exfalso. apply H2. left. exact H1.
      * exfalso. apply H2. right. left. rewrite <- Hid. exact H1.
      * rewrite <- H1, Hidc. reflexivity.
      * exfalso. apply H2. right. right. exact H1.
    + intros X. injection X as <-. split; assumption.
  - destruct Hc as (_ & HL' & _).
    split; [|discriminate].
    intros [H1 H2]. exfalso. apply H2. rewrite HL' in H1. rewrite HL.
    rewrite map_app in *. cbn [map] in *. rewrite Hid in H1. exact H1.
Qed.

(** ** 6. Overwrite: no border version changes *)

Lemma bt_update_leaf_versions k f fuel : forall t,
  (forall l, lf_id (f l) = lf_id l /\ lf_ver (f l) = lf_ver l) ->
  leaf_versions (bt_update_leaf fuel t k f) = leaf_versions t.
Proof.
  induction fuel as [|fu IH]; intros t Hf; [reflexivity|].
  destruct t as [l|id ver keys ch]; cbn [bt_update_leaf].
  - unfold leaf_versions. cbn [bt_leaves map]. destruct (Hf l) as [-> ->]. reflexivity.
  - cbv zeta. destruct (nth_error ch (route keys k 0)) as [c|] eqn:En; [|reflexivity].
    assert (route keys k 0 < length ch)%nat as Hi by (apply nth_error_Some; congruence).
    rewrite !leaf_versions_int. rewrite flat_map_set_nth by exact Hi.
    rewrite (flat_map_split leaf_versions dbt ch _ Hi).
    rewrite (nth_error_nth ch _ dbt En). rewrite (IH c Hf). reflexivity.
Qed.

(** the value overwrite of [put_walk] / [layer_update_spec] (for any slot and any
    new slot contents) leaves every border's (id, version) pair as it was *)
Theorem c12_overwrite_silent root k slot x :
  leaf_versions (update_leaf root k (fun l0 =>
                   leaf_with l0 (lf_ver l0) (lf_perm l0)
                             (set_nth (N.to_nat slot) x (lf_slots l0)))) =
  leaf_versions root.
Proof.
  unfold update_leaf. apply bt_update_leaf_versions. intros l. split; reflexivity.
Qed.

(** ** 7. Delete: the leaves that stay keep their version words *)

Theorem c12_delete_keeps_versions k fuel : forall t t' ret,
  bt_delete fuel t k = Some (DKept t', ret) ->
  incl (leaf_versions t') (leaf_versions t).
Proof.
  induction fuel as [|fu IH]; intros t t' ret E; [discriminate|].
  destruct t as [l|id ver keys ch]; cbn [bt_delete] in E.
  - destruct (leaf_lookup l k) as [[[rank slot] s]|]; [|discriminate].
    cbv zeta in E. destruct (leaf_cnk l =? 1)%N; [discriminate|]. injection E as <- <-.
    unfold leaf_versions. cbn [bt_leaves map]. rewrite leaf_delete_id, leaf_delete_ver.
    apply incl_refl.
  - cbv zeta in E. set (i := route keys k 0) in *.
    destruct (nth_error ch i) as [c|] eqn:En; [|discriminate].
    assert (i < length ch)%nat as Hi by (apply nth_error_Some; congruence).
    destruct (bt_delete fu c k) as [[[c'|] ret0]|] eqn:Ed; [| |discriminate].
    + injection E as <- <-. rewrite !leaf_versions_int, flat_map_set_nth by exact Hi.
      rewrite (flat_map_split leaf_versions dbt ch i Hi).
      apply incl_app_app; [apply incl_refl|]. apply incl_app_app; [|apply incl_refl].
      rewrite (nth_error_nth ch i dbt En). eapply IH. exact Ed.
    + destruct (Nat.eqb (length keys) 1).
      * destruct (nth_error ch (1 - i)) as [sib|] eqn:Es; [|discriminate]. injection E as <- <-.
        rewrite leaf_versions_int. intros y Hy. apply in_flat_map. exists sib.
        split; [eapply nth_error_In; exact Es|exact Hy].
      * injection E as <- <-. rewrite !leaf_versions_int. unfold remove_nth.
        rewrite flat_map_remove_at. rewrite (flat_map_split leaf_versions dbt ch i Hi).
        apply incl_app_app; [apply incl_refl|]. apply incl_appr. apply incl_refl.
Qed.

(** ** sanity: the hypotheses are satisfiable, and the statements are what the
    executable model computes -- plain insert, border split below an interior
    node, and a border split that splits the interior root as well *)
Module VersionReportExample.
  Local Open Scope N_scope.
  Definition kk (i : N) : ktuple := {| ks := i; kl := 8 |}.
  Definition vv (i : N) : lvw := LValue {| v_id := i; v_bytes := []; v_align := 8; v_inline := false |}.
  Definition kvs (n : nat) : list (ktuple * lvw) :=
    map (fun i => (kk (N.of_nat i), vv (N.of_nat i))) (seq 2 n).
  Definition root0 : bt := BLeaf (single_leaf 1 (kk 1) (vv 1)).
  Definition tn (n : nat) : bt :=
    match put_all root0 2 (kvs n) with Some (t, _) => t | None => root0 end.
  (* 39 ascending keys: leaves of 8, 8, 8, 15 entries under one interior node *)
  Definition t39 : bt := tn 38.
  (* 135 keys: 15 leaves of 8 and one of 15 under a full interior root *)
  Definition t135 : bt := tn 134.

  (* ids of old leaves whose version word differs / leaf ids that are new *)
  Definition ver_diff (t t' : bt) : list N :=
    filter (fun i => match leaf_ver_of t i, leaf_ver_of t' i with
                     | Some a, Some b => negb (a =? b)
                     | _, _ => true
                     end) (leaf_ids t).
  Definition new_ids (t t' : bt) : list N :=
    filter (fun c => negb (existsb (N.eqb c) (leaf_ids t))) (leaf_ids t').
  Definition report (t : bt) (k : ktuple) (ctr : N) :=
    match layer_put t k (vv 1000) ctr with
    | Some (t', info, c') =>
      Some (info, ver_diff t t', new_ids t t', length (bt_leaves t), length (bt_leaves t'),
            bt_height t, bt_height t', c')
    | None => None
    end.

  Example t39_shape : map leaf_cnk (bt_leaves t39) = [8; 8; 8; 15] /\ bt_height t39 = 1%nat.
  Proof. vm_compute. split; reflexivity. Qed.

  (* plain insert into the first leaf: only that leaf's version changes *)
  Example t39_plain :
    report t39 (kk 0) 500 =
    Some ({| pi_modified := 1; pi_created := None |}, [1], [], 4%nat, 4%nat, 1%nat, 1%nat, 501).
  Proof. vm_compute. reflexivity. Qed.

  (* insert into the full last leaf: it splits, the new border has id ctr
     (the id counter also advances past the id reserved for an interior sibling) *)
  Example t39_split :
    match report t39 (kk 1000) 500 with
    | Some (info, d, n, l0, l1, h0, h1, c') =>
      pi_created info = Some 500 /\ d = [pi_modified info] /\ n = [500] /\
      l0 = 4%nat /\ l1 = 5%nat /\ h0 = 1%nat /\ h1 = 1%nat /\ c' = 502
    | None => False
    end.
  Proof. vm_compute. repeat split; reflexivity. Qed.

  Example t135_shape :
    length (bt_leaves t135) = 16%nat /\ leaf_cnk (last (bt_leaves t135) dleaf) = 15 /\
    bt_height t135 = 1%nat.
  Proof. vm_compute. repeat split; reflexivity. Qed.

  (* border split + interior split + new root: still exactly one changed and one new border *)
  Example t135_split :
    match report t135 (kk 1000) 500 with
    | Some (info, d, n, l0, l1, h0, h1, c') =>
      pi_created info = Some 500 /\ d = [pi_modified info] /\ n = [500] /\
      l0 = 16%nat /\ l1 = 17%nat /\ h0 = 1%nat /\ h1 = 2%nat /\ c' = 503
    | None => False
    end.
  Proof. vm_compute. repeat split; reflexivity. Qed.

  (* the hypotheses of the theorems hold for t39 and the two inserts above *)
  Lemma t39_WF : WF_layer t39 /\ (forall i, In i (bt_ids t39) -> i < 500).
  Proof.
    assert (entry_ok {| sl_key := kk 1; sl_lv := vv 1 |}) as Hok0
      by (split; [vm_compute; reflexivity|cbn; lia]).
    destruct (single_leaf_WF_layer 1 (kk 1) (vv 1) Hok0) as (H1 & H2 & H3). fold root0 in H1, H2, H3.
    destruct (put_all_spec (kvs 38) root0 2 H1) as (t' & c' & E & Hwf & Hlt & _).
    - rewrite H3. intros i [<-|[]]. lia.
    - let e := eval vm_compute in (kvs 38) in change (kvs 38) with e.
      repeat (apply Forall_cons; [split; [vm_compute; reflexivity|split; [vm_compute; reflexivity|cbn; lia]]|]).
      apply Forall_nil.
    - apply LayerExample.nodupb_sound. vm_compute. reflexivity.
    - intros k Hk X. unfold bt_keys in X. rewrite H2 in X. cbn [map sl_key In] in X.
      destruct X as [<-|[]]. revert Hk. apply LayerExample.existsb_kt_eq_false. vm_compute. reflexivity.
    - unfold t39, tn. rewrite E. split; [exact Hwf|].
      intros i Hi. apply Hlt in Hi.
      assert (option_map snd (put_all root0 2 (kvs 38)) = Some 43) as X by (vm_compute; reflexivity).
      rewrite E in X. cbn [option_map snd] in X. injection X as ->. lia.
  Qed.

  Lemma kk_fresh i : (39 < i)%N \/ i = 0 -> ~ In (kk i) (bt_keys t39).
  Proof.
    intros Hi X.
    assert (forall t, In t (bt_keys t39) -> 1 <= ks t <= 39) as Hr.
    { apply Forall_forall. let e := eval vm_compute in (bt_keys t39) in change (bt_keys t39) with e.
      repeat (apply Forall_cons; [cbn [ks]; lia|]). apply Forall_nil. }
    apply Hr in X. cbn [ks kk] in X. lia.
  Qed.

  Example t39_theorem_applies :
    exists root' info ctr',
      layer_put t39 (kk 1000) (vv 1000) 500 = Some (root', info, ctr') /\
      pi_created info = Some 500 /\
      (forall i, In i (leaf_ids t39) ->
         (leaf_ver_of root' i <> leaf_ver_of t39 i <-> i = pi_modified info)) /\
      (forall c, In c (leaf_ids root') /\ ~ In c (leaf_ids t39) <-> c = 500).
  Proof.
    destruct t39_WF as [Hwf Hlt].
    assert (kt_wf (kk 1000) = true) as Hk by (vm_compute; reflexivity).
    assert (entry_ok {| sl_key := kk 1000; sl_lv := vv 1000 |}) as Hok
      by (split; [vm_compute; reflexivity|cbn; lia]).
    assert (~ In (kk 1000) (bt_keys t39)) as Hnin by (apply kk_fresh; lia).
    destruct (layer_put_spec t39 (kk 1000) (vv 1000) 500 Hwf Hk Hnin Hok Hlt)
      as (root' & info & ctr' & E & _).
    exists root', info, ctr'. split; [exact E|].
    destruct (c12_exact t39 (kk 1000) (vv 1000) 500 root' info ctr' Hwf Hk Hnin Hok Hlt E)
      as (_ & _ & _ & P2 & _ & P4).
    assert (pi_created info = Some 500) as Hc.
    { assert (option_map (fun x => pi_created (snd (fst x))) (layer_put t39 (kk 1000) (vv 1000) 500)
              = Some (Some 500)) as X by (vm_compute; reflexivity).
      rewrite E in X. cbn in X. injection X as X. exact X. }
    split; [exact Hc|]. split; [exact P2|].
    intros c. rewrite (P4 c), Hc. split; [intros X; injection X as <-; reflexivity|intros ->; reflexivity].
  Qed.
End VersionReportExample.

(** ** axiom audit *)
Print Assumptions leaf_put_report.
Print Assumptions bt_put_leaves.
Print Assumptions c12_other_leaves_unchanged.
Print Assumptions c12_modified_changes.
Print Assumptions c12_created_iff_split.
Print Assumptions c12_exact.
Print Assumptions c12_overwrite_silent.
Print Assumptions c12_delete_keeps_versions.
Print Assumptions VersionReportExample.t39_theorem_applies.
