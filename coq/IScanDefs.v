(** * IScanDefs: the cursor API (interface_iscan.h), quiescent semantics:
    iscan_open / iscan_findfirst / iscan_findnext / iscan_next with the explicit
    stack of per-layer positions, the end tuple per layer, the callback
    invocations (node, version) and full_key.  No retries (the tree does not
    change during the iteration). *)
From Yk Require Export ScanDefs.
Local Open Scope N_scope.

Definition kt_min : ktuple := {| ks := 0; kl := 0 |}.
Definition kt_max : ktuple := {| ks := 18446744073709551615; kl := 9 |}.
Definition kt_neqb (a b : ktuple) : bool := negb (kt_eq a b).
(** key_tuple::sup(): above every tuple a node can hold ("fix:" commit for F5) *)
Definition kt_sup : ktuple := {| ks := 18446744073709551615; kl := 10 |}.

Record ielem := {
  ie_key : ktuple;          (* last key returned / start key in this layer *)
  ie_leaf : N;              (* id of the border the position is in *)
  ie_cmp0 : bool;           (* compare_to_end == 0: the end key is still inside this layer's range *)
  ie_rank : nat;            (* next rank to look at *)
}.

Record ictx := {
  ic_end_key : key;
  ic_end_ep : endpoint;
  ic_rtl : bool;
  ic_stack : list ielem;    (* bottom (layer 0) first *)
}.

(** prefix (slices) and byte prefix of the layer the j-th stack element lives in *)
Definition stack_prefix (st : list ielem) : prefix := map (fun e => ks (ie_key e)) st.
Definition full_key (st : list ielem) : key :=
  flat_map (fun e => bytes_of_slice (ks (ie_key e)) (kl (ie_key e))) st.

(** iscan_context::get_end_tuple(offset) with stack size [n] (already including the offset) *)
Definition end_tuple (c : ictx) (n : nat) : ktuple :=
  if negb (ic_rtl c) && ep_eqb (ic_end_ep c) EP_INF then kt_max
  else tuple_of_key (skipn (8 * n) (ic_end_key c)).

Inductive istatus := IS_OK | IS_END | IS_CONT | IS_STUCK.

Record iout := {
  io_status : istatus;
  io_value : option value;
  io_cbs : list (N * N);      (* callback invocations (border id, version), in order *)
  io_ctx : ictx;
}.

Fixpoint leaf_by_id (ls : list leaf) (id : N) : option leaf :=
  match ls with
  | [] => None
  | l :: r => if N.eqb (lf_id l) id then Some l else leaf_by_id r id
  end.

(** the neighbour of a leaf in the chain (next, or prev when right-to-left) *)
Fixpoint neighbour (ls : list leaf) (id : N) (prev : option leaf) (rtl : bool) : option leaf :=
  match ls with
  | [] => None
  | l :: r =>
    if N.eqb (lf_id l) id
    then (if rtl then prev else match r with x :: _ => Some x | [] => None end)
    else neighbour r id (Some l) rtl
  end.

Definition push_elem (c : ictx) (e : ielem) : ictx :=
  {| ic_end_key := ic_end_key c; ic_end_ep := ic_end_ep c; ic_rtl := ic_rtl c; ic_stack := ic_stack c ++ [e] |}.
Definition set_stack (c : ictx) (s : list ielem) : ictx :=
  {| ic_end_key := ic_end_key c; ic_end_ep := ic_end_ep c; ic_rtl := ic_rtl c; ic_stack := s |}.
Definition set_top (c : ictx) (e : ielem) : ictx := set_stack c (removelast (ic_stack c) ++ [e]).

(** iscan_findfirst: descend along the start key *)
Fixpoint ifindfirst (fx12 : bool) (fuel : nat) (ls : layers_t) (c : ictx) (start : key) (sp : endpoint)
         (one_point : bool) (cmp0 : bool) (cbs : list (N * N)) : iout :=
  match fuel with
  | O => {| io_status := IS_STUCK; io_value := None; io_cbs := cbs; io_ctx := c |}
  | S f =>
    let p := stack_prefix (ic_stack c) in
    match layer_get ls p with
    | None => {| io_status := IS_STUCK; io_value := None; io_cbs := cbs; io_ctx := c |}
    | Some root =>
      let kt := if ic_rtl c && ep_eqb sp EP_INF then kt_max else tuple_of_key start in
      match find_leaf root kt with
      | None => {| io_status := IS_STUCK; io_value := None; io_cbs := cbs; io_ctx := c |}
      | Some l =>
        if get_deleted (lf_ver l) && get_root (lf_ver l)
        then {| io_status := IS_END; io_value := None; io_cbs := cbs ++ [(lf_id l, lf_ver l)]; io_ctx := c |}
        else
          let e := {| ie_key := kt; ie_leaf := lf_id l; ie_cmp0 := cmp0; ie_rank := 0 |} in
          match leaf_lookup l kt with
          | Some (_, _, s) =>
            if 8 <? kl (sl_key s) then
              (* case 1: a link: go down *)
              let c' := push_elem c e in
              let cmp0' := cmp0 && kt_eq kt (end_tuple c (length (ic_stack c))) in
              ifindfirst fx12 f ls c' (skipn 8 start) sp one_point cmp0' cbs
            else
              (* case 2: the start key itself *)
              match sl_lv s with
              | LValue v =>
                if ep_eqb sp EP_INCL
                then {| io_status := IS_OK; io_value := Some v; io_cbs := cbs; io_ctx := push_elem c e |}
                else {| io_status := IS_CONT; io_value := None; io_cbs := cbs; io_ctx := push_elem c e |}
              | _ => {| io_status := IS_STUCK; io_value := None; io_cbs := cbs; io_ctx := c |}
              end
          | None =>
            (* case 3: findnext makes the callback for this border, except when it takes the callback range for empty
               (its start tuple equals the end tuple of an inclusive range); the pinned source made up for that only
               when the two KEYS are equal (one_point); when only the tuples are equal -- both endpoints inside one
               next-layer slice that holds no entry -- no border was recorded at all (finding F12; fx12 = false) *)
            let same_tuple := fx12 && cmp0 && ep_eqb (ic_end_ep c) EP_INCL && kt_eq kt (end_tuple c (length (ic_stack c))) in
            let cbs' := if one_point || same_tuple then cbs ++ [(lf_id l, lf_ver l)] else cbs in
            {| io_status := IS_CONT; io_value := None; io_cbs := cbs'; io_ctx := push_elem c e |}
          end
      end
    end
  end.

(** the per-entry decision of iscan_findnext *)
Inductive idec := D_SKIP | D_RANGE_END | D_HIT.
Definition idecide (c : ictx) (cmp0 : bool) (last kt ekt : ktuple) : idec :=
  let rtl := ic_rtl c in
  let start_hit := if rtl then kt_gt last kt else kt_lt last kt in
  if negb start_hit then D_SKIP
  else if negb cmp0 then D_HIT
  else
    let incl := ep_eqb (ic_end_ep c) EP_INCL in
    let hit :=
      if negb rtl
      then (if incl then negb (kt_gt kt ekt) else kt_lt kt ekt || (kt_eq kt ekt && (8 <? kl kt)))
      else (if incl then negb (kt_lt kt ekt) else kt_gt kt ekt || (kt_eq kt ekt && (8 <? kl kt))) in
    if hit then D_HIT else D_RANGE_END.

(** iscan_findnext; [fuel] bounds the total number of entry visits / layer changes *)
Fixpoint ifindnext (fix5 : bool) (fuel : nat) (ls : layers_t) (c : ictx) (cbs : list (N * N)) : iout :=
  match fuel with
  | O => {| io_status := IS_STUCK; io_value := None; io_cbs := cbs; io_ctx := c |}
  | S f =>
    match rev (ic_stack c) with
    | [] => {| io_status := IS_STUCK; io_value := None; io_cbs := cbs; io_ctx := c |}
    | top :: below_rev =>
      let below := rev below_rev in
      let p := stack_prefix below in
      match layer_get ls p with
      | None => {| io_status := IS_STUCK; io_value := None; io_cbs := cbs; io_ctx := c |}
      | Some root =>
        let leaves := bt_leaves root in
        match leaf_by_id leaves (ie_leaf top) with
        | None => {| io_status := IS_STUCK; io_value := None; io_cbs := cbs; io_ctx := c |}
        | Some l =>
          let rtl := ic_rtl c in
          let cmp0 := ie_cmp0 top in
          let last := ie_key top in
          let ekt := if cmp0 then end_tuple c (length below) else (if rtl then kt_min else kt_max) in
          let es := if rtl then rev (leaf_ranked l) else leaf_ranked l in
          let n := length es in
          (* "the callback range (last key .. range end] is empty": only in the layer that holds the range end (cmp0);
             elsewhere [ekt] is a sentinel and a link tuple with an all-0xFF slice may equal it (finding F13; fix5 = false
             keeps the pinned behaviour) *)
          let no_cb_at_end := (negb fix5 || cmp0) && ep_eqb (ic_end_ep c) EP_INCL && kt_eq last ekt in
          if Nat.leb n (ie_rank top) then
            (* permutation exhausted: move to the neighbour *)
            let cbs' := if no_cb_at_end then cbs else cbs ++ [(lf_id l, lf_ver l)] in
            match neighbour leaves (lf_id l) None rtl with
            | None => {| io_status := (if cmp0 then IS_END else IS_CONT); io_value := None; io_cbs := cbs'; io_ctx := c |}
            | Some nb =>
              ifindnext fix5 f ls (set_top c {| ie_key := last; ie_leaf := lf_id nb; ie_cmp0 := cmp0; ie_rank := 0 |}) cbs'
            end
          else
            match nth_error es (ie_rank top) with
            | None => {| io_status := IS_STUCK; io_value := None; io_cbs := cbs; io_ctx := c |}
            | Some (_, s) =>
              let kt := sl_key s in
              match idecide c cmp0 last kt ekt with
              | D_SKIP =>
                ifindnext fix5 f ls (set_top c {| ie_key := last; ie_leaf := lf_id l; ie_cmp0 := cmp0;
                                             ie_rank := S (ie_rank top) |}) cbs
              | D_RANGE_END =>
                {| io_status := IS_END; io_value := None;
                   io_cbs := (if no_cb_at_end then cbs else cbs ++ [(lf_id l, lf_ver l)]); io_ctx := c |}
              | D_HIT =>
                let cbs' := cbs ++ [(lf_id l, lf_ver l)] in
                let top' := {| ie_key := kt; ie_leaf := lf_id l; ie_cmp0 := cmp0; ie_rank := S (ie_rank top) |} in
                if 8 <? kl kt then
                  (* descend into the next layer at its first (last) border *)
                  let child_kt := if rtl then (if fix5 then kt_sup else kt_max) else kt_min in
                  match layer_get ls (p ++ [ks kt]) with
                  | None => {| io_status := IS_STUCK; io_value := None; io_cbs := cbs'; io_ctx := c |}
                  | Some croot =>
                    match find_leaf croot child_kt with
                    | None => {| io_status := IS_STUCK; io_value := None; io_cbs := cbs'; io_ctx := c |}
                    | Some cl =>
                      let cmp0' := cmp0 && kt_eq kt ekt in
                      let c1 := set_top c top' in
                      ifindnext fix5 f ls (push_elem c1 {| ie_key := child_kt; ie_leaf := lf_id cl;
                                                      ie_cmp0 := cmp0'; ie_rank := 0 |}) cbs'
                    end
                  end
                else
                  match sl_lv s with
                  | LValue v => {| io_status := IS_OK; io_value := Some v; io_cbs := cbs'; io_ctx := set_top c top' |}
                  | _ => {| io_status := IS_STUCK; io_value := None; io_cbs := cbs'; io_ctx := c |}
                  end
              end
            end
        end
      end
    end
  end.

(** iscan_next: findnext, popping finished layers *)
Fixpoint inext (fix5 : bool) (fuel : nat) (big : nat) (ls : layers_t) (c : ictx) (cbs : list (N * N)) : iout :=
  match fuel with
  | O => {| io_status := IS_STUCK; io_value := None; io_cbs := cbs; io_ctx := c |}
  | S f =>
    let o := ifindnext fix5 big ls c cbs in
    match io_status o with
    | IS_END => {| io_status := IS_END; io_value := None; io_cbs := io_cbs o; io_ctx := set_stack (io_ctx o) [] |}
    | IS_CONT =>
      let st := removelast (ic_stack (io_ctx o)) in
      match st with
      | [] => {| io_status := IS_END; io_value := None; io_cbs := io_cbs o; io_ctx := set_stack (io_ctx o) [] |}
      | _ => inext fix5 f big ls (set_stack (io_ctx o) st) (io_cbs o)
      end
    | _ => o
    end
  end.

Record iscan_args := { ia_l : key; ia_le : endpoint; ia_r : key; ia_re : endpoint; ia_rtl : bool;
                       ia_lnull : bool; ia_rnull : bool }.

Fixpoint layers_entries (ls : layers_t) : nat :=
  match ls with
  | [] => 0%nat
  | (_, t) :: r => (length (flat_map leaf_ranked (bt_leaves t)) + length (bt_leaves t) + 2 + layers_entries r)%nat
  end.

(** iscan_open (by storage: argument checks as in kvs API; the tree level starts at findfirst) *)
Definition iscan_validate (a : iscan_args) : option status :=
  if (ia_lnull a && negb (Nat.eqb (length (ia_l a)) 0)) || (ia_rnull a && negb (Nat.eqb (length (ia_r a)) 0))
  then Some St_ERR_BAD_USAGE
  else match check_empty_scan_range (ia_l a) (ia_le a) (ia_r a) (ia_re a) with
       | St_OK => None
       | s => Some s
       end.

Definition iscan_open_gen (fix5 : bool) (tr : tree) (a : iscan_args) : iout :=
  let l := match ia_le a with EP_INF => [] | _ => ia_l a end in
  let le := match ia_le a with EP_INF => EP_INCL | e => e end in
  let rtl := ia_rtl a in
  let c := {| ic_end_key := (if rtl then l else ia_r a); ic_end_ep := (if rtl then le else ia_re a);
              ic_rtl := rtl; ic_stack := [] |} in
  if t_null tr then {| io_status := IS_END; io_value := None; io_cbs := []; io_ctx := c |}
  else
    let start := if rtl then ia_r a else l in
    let sp := if rtl then ia_re a else le in
    let one_point := prefix_eqb start (ic_end_key c) && ep_eqb sp EP_INCL && ep_eqb (ic_end_ep c) EP_INCL in
    let cmp0 := negb (negb rtl && ep_eqb sp EP_INF) in
    let big := (layers_entries (t_layers tr) + 4)%nat in
    let o := ifindfirst fix5 (S (length (t_layers tr))) (t_layers tr) c start sp one_point cmp0 [] in
    match io_status o with
    | IS_CONT => inext fix5 (S (length (t_layers tr))) big (t_layers tr) (io_ctx o) (io_cbs o)
    | _ => o
    end.

Definition iscan_next_gen (fix5 : bool) (tr : tree) (c : ictx) : iout :=
  inext fix5 (S (length (t_layers tr))) (layers_entries (t_layers tr) + 4)%nat (t_layers tr) c [].

(** iterate until the end: all (full key, value) pairs and all callbacks *)
Fixpoint iscan_collect (fix5 : bool) (fuel : nat) (tr : tree) (o : iout) (acc : list (key * value)) (cbs : list (N * N))
  : option (list (key * value) * list (N * N)) :=
  match fuel with
  | O => None
  | S f =>
    match io_status o, io_value o with
    | IS_OK, Some v =>
      let acc' := acc ++ [(full_key (ic_stack (io_ctx o)), v)] in
      iscan_collect fix5 f tr (iscan_next_gen fix5 tr (io_ctx o)) acc' (cbs ++ io_cbs o)
    | IS_END, _ => Some (acc, cbs ++ io_cbs o)
    | _, _ => None
    end
  end.

Definition iscan_all_gen (fix5 : bool) (tr : tree) (a : iscan_args) : option (status * list (key * value) * list (N * N)) :=
  match iscan_validate a with
  | Some s => Some (s, [], [])
  | None =>
    match iscan_collect fix5 (layers_entries (t_layers tr) + 4)%nat tr (iscan_open_gen fix5 tr a) [] [] with
    | Some (kv, cbs) => Some (St_OK, kv, cbs)
    | None => None
    end
  end.

(** current source / pinned source (finding F5: the reverse descent started at max()) *)
Definition iscan_open := iscan_open_gen true.
Definition iscan_next := iscan_next_gen true.
Definition iscan_all := iscan_all_gen true.
Definition iscan_all_orig := iscan_all_gen false.
