(** * C17 -- the node version word: unlock installs exactly the specified
    word, setters/counters touch only their own field, counters wrap inside
    their 29 bits.  Property theorems only; each closed by [exact]. *)
From Coq Require Import NArith.
From Yk Require Import Word64 Nibble VersionDefs VersionProofs.
Local Open Scope N_scope.

(** the word [unlock] installs: the three transient flags are cleared, each
    counter is bumped (mod 2^29) iff its dirty flag was set, nothing else moves *)
Theorem C17_unlock_exact : forall w, w < w64 ->
  let f := decode_version w in
  let g := decode_version (unlock w) in
  f_locked g = false /\ f_insdel g = false /\ f_splitting g = false /\
  f_vins g = (if f_insdel f then (f_vins f + 1) mod 2 ^ 29 else f_vins f) /\
  f_vsplit g = (if f_splitting f then (f_vsplit f + 1) mod 2 ^ 29 else f_vsplit f) /\
  f_deleted g = f_deleted f /\ f_root g = f_root f /\ f_border g = f_border f /\
  unlock w < w64.
Proof. exact unlock_exact. Qed.
Print Assumptions C17_unlock_exact.

(** every flag setter: reading back gives the written value, every other
    field (five flags, two counters) is unchanged, the result is a 64-bit word *)
Theorem C17_setters_frame : forall w b, w < w64 ->
  (decode_version (set_locked w b) =
     {| f_vins := get_vinsert_delete w; f_locked := b;
        f_insdel := get_inserting_deleting w; f_splitting := get_splitting w;
        f_vsplit := get_vsplit w; f_deleted := get_deleted w; f_root := get_root w;
        f_border := get_border w |} /\ set_locked w b < w64) /\
  (decode_version (set_inserting_deleting w b) =
     {| f_vins := get_vinsert_delete w; f_locked := get_locked w;
        f_insdel := b; f_splitting := get_splitting w;
        f_vsplit := get_vsplit w; f_deleted := get_deleted w; f_root := get_root w;
        f_border := get_border w |} /\ set_inserting_deleting w b < w64) /\
  (decode_version (set_splitting w b) =
     {| f_vins := get_vinsert_delete w; f_locked := get_locked w;
        f_insdel := get_inserting_deleting w; f_splitting := b;
        f_vsplit := get_vsplit w; f_deleted := get_deleted w; f_root := get_root w;
        f_border := get_border w |} /\ set_splitting w b < w64) /\
  (decode_version (set_deleted w b) =
     {| f_vins := get_vinsert_delete w; f_locked := get_locked w;
        f_insdel := get_inserting_deleting w; f_splitting := get_splitting w;
        f_vsplit := get_vsplit w; f_deleted := b; f_root := get_root w;
        f_border := get_border w |} /\ set_deleted w b < w64) /\
  (decode_version (set_root w b) =
     {| f_vins := get_vinsert_delete w; f_locked := get_locked w;
        f_insdel := get_inserting_deleting w; f_splitting := get_splitting w;
        f_vsplit := get_vsplit w; f_deleted := get_deleted w; f_root := b;
        f_border := get_border w |} /\ set_root w b < w64) /\
  (decode_version (set_border w b) =
     {| f_vins := get_vinsert_delete w; f_locked := get_locked w;
        f_insdel := get_inserting_deleting w; f_splitting := get_splitting w;
        f_vsplit := get_vsplit w; f_deleted := get_deleted w; f_root := get_root w;
        f_border := b |} /\ set_border w b < w64).
Proof. exact setters_frame. Qed.
Print Assumptions C17_setters_frame.

(** [++vinsert_delete] / [++vsplit] wrap inside their own 29 bits and touch
    no other field (in particular no carry into [locked] / [deleted]) *)
Theorem C17_counters_wrap : forall w, w < w64 ->
  (decode_version (inc_vinsert_delete w) =
     {| f_vins := (get_vinsert_delete w + 1) mod 2 ^ 29; f_locked := get_locked w;
        f_insdel := get_inserting_deleting w; f_splitting := get_splitting w;
        f_vsplit := get_vsplit w; f_deleted := get_deleted w; f_root := get_root w;
        f_border := get_border w |} /\ inc_vinsert_delete w < w64) /\
  (decode_version (inc_vsplit w) =
     {| f_vins := get_vinsert_delete w; f_locked := get_locked w;
        f_insdel := get_inserting_deleting w; f_splitting := get_splitting w;
        f_vsplit := (get_vsplit w + 1) mod 2 ^ 29; f_deleted := get_deleted w;
        f_root := get_root w; f_border := get_border w |} /\ inc_vsplit w < w64) /\
  get_vinsert_delete w < 2 ^ 29 /\ get_vsplit w < 2 ^ 29.
Proof. exact counters_wrap. Qed.
Print Assumptions C17_counters_wrap.

(** reasoning by fields is complete: the eight fields determine a 64-bit word *)
Theorem C17_decode_injective : forall w w',
  w < w64 -> w' < w64 -> decode_version w = decode_version w' -> w = w'.
Proof. exact decode_version_inj. Qed.
Print Assumptions C17_decode_injective.

(** get_stable_version returns exactly the words with the three transient flags clear *)
Theorem C17_stable_clean : forall w,
  is_stable w = true <->
  get_locked w = false /\ get_inserting_deleting w = false /\ get_splitting w = false.
Proof. exact stable_clean. Qed.
Print Assumptions C17_stable_clean.

(** one lock attempt: succeeds iff the observed word is unlocked, and then
    sets only the lock bit *)
Theorem C17_try_lock : forall w, w < w64 ->
  (forall w', try_lock w = Some w' ->
     get_locked w = false /\ get_locked w' = true /\
     get_vinsert_delete w' = get_vinsert_delete w /\
     get_inserting_deleting w' = get_inserting_deleting w /\
     get_splitting w' = get_splitting w /\
     get_vsplit w' = get_vsplit w /\
     get_deleted w' = get_deleted w /\
     get_root w' = get_root w /\
     get_border w' = get_border w /\
     w' < w64) /\
  (try_lock w = None <-> get_locked w = true).
Proof. exact try_lock_spec. Qed.
Print Assumptions C17_try_lock.

(** unlocking a locked word always changes it; a dirty flag always moves its counter *)
Theorem C17_unlock_changes : forall w, w < w64 ->
  (get_locked w = true -> unlock w <> w) /\
  (get_inserting_deleting w = true ->
     get_vinsert_delete (unlock w) <> get_vinsert_delete w /\ unlock w <> w) /\
  (get_splitting w = true ->
     get_vsplit (unlock w) <> get_vsplit w /\ unlock w <> w).
Proof. exact unlock_changes. Qed.
Print Assumptions C17_unlock_changes.

(** a freshly initialised version word has every field zero / false *)
Theorem C17_init :
  decode_version version_init =
  {| f_vins := 0; f_locked := false; f_insdel := false; f_splitting := false;
     f_vsplit := 0; f_deleted := false; f_root := false; f_border := false |}.
Proof. exact version_init_decode. Qed.
Print Assumptions C17_init.

(** non-vacuity: vinsert_delete at its maximum with both dirty flags set:
    unlock wraps vinsert_delete to 0 with no carry into [locked], bumps vsplit
    1 -> 2, keeps deleted/root/border.  [wl] is the same word with the lock
    held (the precondition of [unlock] in the code). *)
Example C17_nonvacuous :
  let w := 0xE0000001DFFFFFFF in
  let wl := 0xE0000001FFFFFFFF in
  w < w64 /\
  decode_version w =
    {| f_vins := 536870911; f_locked := false; f_insdel := true; f_splitting := true;
       f_vsplit := 1; f_deleted := true; f_root := true; f_border := true |} /\
  536870911 = 2 ^ 29 - 1 /\
  decode_version (unlock w) =
    {| f_vins := 0; f_locked := false; f_insdel := false; f_splitting := false;
       f_vsplit := 2; f_deleted := true; f_root := true; f_border := true |} /\
  unlock w = 0xE000000200000000 /\
  is_stable w = false /\ is_stable (unlock w) = true /\
  try_lock w = Some wl /\ try_lock wl = None /\
  get_locked wl = true /\ unlock wl = unlock w /\ unlock wl <> wl.
Proof.
  cbv zeta. repeat split; try (vm_compute; reflexivity).
  vm_compute. discriminate.
Qed.
Print Assumptions C17_nonvacuous.

(** ** The version word inside the locking protocol (border model, all interleavings) *)
From Yk Require Import BorderDefs BorderProofs VersionProtoProofs.

(** lock is mutually exclusive: the lock bit is set iff exactly one thread is inside a critical section *)
Theorem C17_mutex : forall tr s,
  brun true binit tr = Some s ->
  (b_locked s = true <->
   exists t, in_cs (t_pc (b_thr s t)) = true /\
             forall t', in_cs (t_pc (b_thr s t')) = true -> t' = t).
Proof. intros tr s H. exact (proj1 (border_lock_and_representation tr s H)). Qed.
Print Assumptions C17_mutex.

(** two equal (stable) versions taken at different times prove that no insert completed in
    between: the insert counter is bumped by exactly the unlock of an insert and never decreases
    (counter unbounded in the protocol model: fewer than 2^29 inserts between the two reads) *)
Theorem C17_equal_stable_no_completed_insert : forall fixed tr s s',
  brun fixed s tr = Some s' -> b_vins s' = b_vins s -> completes_in_run fixed s tr = false.
Proof. exact equal_counter_no_completed_insert. Qed.
Print Assumptions C17_equal_stable_no_completed_insert.

(** ** The trace monitor used on real runs (tie T3): which writes to a published version word are accepted *)
From Yk Require Import VersionMonitorProofs.

(** an accepted lock CAS takes a free lock; among the other accepted writes the only one that releases a
    held lock is [unlock] applied to the word current at that instant, and none takes the lock *)
Theorem C17_monitor_sound : forall cur nw,
  (ver_write_ok cur nw true = true -> get_locked cur = false /\ nw = set_locked cur true /\ get_locked nw = true) /\
  (ver_write_ok cur nw false = true -> get_locked cur = true -> get_locked nw = false -> nw = unlock cur) /\
  (ver_write_ok cur nw false = true -> get_locked cur = false -> get_locked nw = false).
Proof.
  intros cur nw. split; [exact (monitor_lock cur nw) | split; [exact (monitor_release cur nw) | exact (monitor_no_steal cur nw)]].
Qed.
Print Assumptions C17_monitor_sound.
