(** * PermProofs: nibble-level characterisation of every permutation operation *)
From Coq Require Import NArith PeanoNat Lia Bool List FinFun.
From Yk Require Import ListAux Word64 Nibble PermDefs.
Local Open Scope N_scope.

Ltac tb_norm :=
  repeat first
    [ rewrite N.lor_spec | rewrite N.land_spec
    | rewrite testbit_shl | rewrite testbit_shr | rewrite testbit_not64
    | rewrite testbit_nib | rewrite testbit_15 | rewrite testbit_trunc64
    | rewrite N.bits_0 ].

Lemma get_cnk_nib w : get_cnk w = nib w 0.
Proof. unfold get_cnk, nib, cnk_mask. rewrite N.mul_0_r, N.shiftr_0_r. reflexivity. Qed.

Lemma get_cnk_lt16 w : get_cnk w < 16.
Proof. rewrite get_cnk_nib. apply nib_lt16. Qed.

Lemma get_index_of_rank_nib w r : get_index_of_rank w r = nib w (r + 1).
Proof.
  unfold get_index_of_rank, nib, cnk_mask, pkey_bit_size, shr.
  destruct (N.eqb_spec r 0) as [->|Hr].
  - reflexivity.
  - rewrite N.shiftr_shiftr. f_equal. f_equal. lia.
Qed.

Lemma small_testbit_high c n : c < 16 -> 4 <= n -> N.testbit c n = false.
Proof. intros. apply (testbit_small c 4); assumption. Qed.

(** *** insert_rank *)

Lemma insert_rank_lt w r p : get_cnk w < 15 -> insert_rank w r p < w64.
Proof.
  intros Hc. change w64 with (2 ^ 64). apply lt_pow2_bits. intros n Hn.
  unfold insert_rank, pkey_bit_size, cnk_mask, key_slice_length.
  assert (add64 (get_cnk w) 1 = get_cnk w + 1) as ->.
  { unfold add64. apply N.mod_small. unfold w64. lia. }
  destruct (r =? sub64 (get_cnk w + 1) 1); destruct (r =? 0); tb_norm;
    rewrite (testbit_small (get_cnk w + 1) 4) by (cbn; lia);
    destruct (N.ltb_spec n 64); try lia;
    rewrite ?andb_false_r; reflexivity.
Qed.

Lemma insert_rank_cnk w r p : get_cnk w < 15 -> get_cnk (insert_rank w r p) = get_cnk w + 1.
Proof.
  intros Hc. unfold get_cnk at 1. unfold insert_rank, cnk_mask.
  assert (add64 (get_cnk w) 1 = get_cnk w + 1) as ->.
  { unfold add64. apply N.mod_small. unfold w64. lia. }
  apply N.bits_inj. intros n. tb_norm.
  destruct (N.ltb_spec n 4) as [H|H].
  - cbn [negb andb]. rewrite andb_false_r, andb_true_r. reflexivity.
  - rewrite !andb_false_r. symmetry. apply small_testbit_high; lia.
Qed.

(** the three parts of insert_rank / delete_rank, bit by bit *)
Lemma tb_keep_low w k m :
  k <= 64 -> N.testbit (shr (shl w (64 - k)) (64 - k)) m = N.testbit w m && (m <? k).
Proof.
  intros Hk. rewrite testbit_shr, testbit_shl.
  destruct (N.leb_spec (64 - k) (m + (64 - k))); [|lia].
  replace (m + (64 - k) - (64 - k)) with m by lia. cbn [andb].
  destruct (N.ltb_spec (m + (64 - k)) 64); destruct (N.ltb_spec m k); try lia; reflexivity.
Qed.

Lemma tb_shift w a b m :
  N.testbit (shl (shr w a) b) m = (b <=? m) && N.testbit w (m - b + a) && (m <? 64).
Proof. rewrite testbit_shl, testbit_shr. reflexivity. Qed.

Lemma add64_small a b : a + b < w64 -> add64 a b = a + b.
Proof. intros. unfold add64. apply N.mod_small. assumption. Qed.

Lemma sub64_small a b : b <= a -> a < w64 -> sub64 a b = a - b.
Proof.
  intros Hb Ha. unfold sub64. rewrite (N.mod_small b) by lia.
  replace (a + w64 - b) with (a - b + 1 * w64) by lia.
  rewrite N.mod_add by (unfold w64; lia). apply N.mod_small. lia.
Qed.

(** nibble [j] (1..15) of the word after inserting slot [p] at rank [r] *)
Lemma insert_rank_nib w r p j :
  get_cnk w < 15 -> r <= get_cnk w -> p < 16 -> 1 <= j -> j < 16 ->
  nib (insert_rank w r p) j =
    if j <? r + 1 then nib w j
    else if j =? r + 1 then p
    else if r =? get_cnk w then 0 else nib w (j - 1).
Proof.
  intros Hc Hr Hp Hj1 Hj.
  unfold insert_rank, pkey_bit_size, cnk_mask, key_slice_length.
  rewrite (add64_small (get_cnk w) 1) by (unfold w64; lia).
  rewrite (sub64_small (get_cnk w + 1) 1) by (unfold w64; lia).
  replace (get_cnk w + 1 - 1) with (get_cnk w) by lia.
  set (left := if r =? get_cnk w then 0 else shl (shr w (4 * (r + 1))) (4 * (r + 2))).
  set (target := shl p (4 * (r + 1))).
  set (right := if r =? 0 then 0 else shr (shl w (4 * (15 - r))) (4 * (15 - r))).
  assert (forall m, N.testbit left m =
            negb (r =? get_cnk w) && (4 * (r + 2) <=? m) && N.testbit w (m - 4) && (m <? 64)) as Hleft.
  { intros m. unfold left. destruct (r =? get_cnk w); [apply N.bits_0|].
    rewrite tb_shift. cbn [negb andb].
    destruct (N.leb_spec (4 * (r + 2)) m); [|reflexivity].
    cbn [andb]. do 2 f_equal. lia. }
  assert (forall m, N.testbit target m =
            (4 * (r + 1) <=? m) && N.testbit p (m - 4 * (r + 1)) && (m <? 64)) as Htarget.
  { intros m. unfold target. apply testbit_shl. }
  assert (forall m, 4 <= m -> N.testbit right m = N.testbit w m && (m <? 4 * (r + 1))) as Hright.
  { intros m Hm. unfold right. destruct (N.eqb_spec r 0) as [->|Hr0].
    - rewrite N.bits_0. destruct (N.ltb_spec m (4 * (0 + 1))); [lia|].
      rewrite andb_false_r. reflexivity.
    - replace (4 * (15 - r)) with (64 - 4 * (r + 1)) by lia.
      apply tb_keep_low. lia. }
  clearbody left target right.
  apply N.bits_inj. intros n.
  rewrite testbit_nib, N.lor_spec, N.land_spec, !N.lor_spec, testbit_not64, testbit_15.
  rewrite Hleft, Htarget.
  destruct (N.ltb_spec n 4) as [Hn|Hn].
  2:{ rewrite !andb_false_r. symmetry.
      destruct (j <? r + 1); [apply small_testbit_high; [apply nib_lt16|lia]|].
      destruct (j =? r + 1); [apply small_testbit_high; lia|].
      destruct (r =? get_cnk w); [apply N.bits_0|apply small_testbit_high; [apply nib_lt16|lia]]. }
  rewrite (small_testbit_high (get_cnk w + 1)) by lia.
  destruct (N.ltb_spec (n + 4 * j) 4) as [H4|H4]; [lia|].
  destruct (N.ltb_spec (n + 4 * j) 64) as [H64|H64]; [|lia].
  rewrite Hright by exact H4.
  cbn [negb andb]. rewrite !andb_true_r, orb_false_r.
  destruct (N.ltb_spec j (r + 1)) as [Hjr|Hjr].
  - destruct (N.leb_spec (4 * (r + 2)) (n + 4 * j)); [lia|].
    destruct (N.leb_spec (4 * (r + 1)) (n + 4 * j)); [lia|].
    destruct (N.ltb_spec (n + 4 * j) (4 * (r + 1))); [|lia].
    rewrite andb_false_r. cbn [andb orb]. rewrite andb_true_r, testbit_nib.
    destruct (N.ltb_spec n 4); [|lia]. rewrite andb_true_r. reflexivity.
  - destruct (N.ltb_spec (n + 4 * j) (4 * (r + 1))); [lia|].
    rewrite andb_false_r, orb_false_r.
    destruct (N.eqb_spec j (r + 1)) as [Ej|Ej].
    + subst j.
      destruct (N.leb_spec (4 * (r + 2)) (n + 4 * (r + 1))); [lia|].
      destruct (N.leb_spec (4 * (r + 1)) (n + 4 * (r + 1))); [|lia].
      rewrite andb_false_r. cbn [andb orb]. f_equal. lia.
    + destruct (N.leb_spec (4 * (r + 2)) (n + 4 * j)); [|lia].
      destruct (N.leb_spec (4 * (r + 1)) (n + 4 * j)); [|lia].
      rewrite (small_testbit_high p) by lia.
      cbn [andb]. rewrite orb_false_r, andb_true_r.
      destruct (N.eqb_spec r (get_cnk w)) as [Er|Er]; cbn [negb andb]; [reflexivity|].
      rewrite testbit_nib. destruct (N.ltb_spec n 4); [|lia].
      rewrite andb_true_r. f_equal. lia.
Qed.

(** *** delete_rank *)


Lemma delete_rank_cnk w r : 1 <= get_cnk w -> get_cnk (delete_rank w r) = get_cnk w - 1.
Proof.
  intros Hc. unfold get_cnk at 1. unfold delete_rank, cnk_mask.
  pose proof (get_cnk_lt16 w) as Hlt.
  rewrite (sub64_small (get_cnk w) 1) by (unfold w64; lia).
  apply N.bits_inj. intros n. tb_norm.
  destruct (N.ltb_spec n 4) as [H|H].
  - cbn [negb andb]. rewrite andb_false_r, andb_true_r. reflexivity.
  - rewrite !andb_false_r. symmetry. apply small_testbit_high; lia.
Qed.

Lemma delete_rank_lt w r : 1 <= get_cnk w -> delete_rank w r < w64.
Proof.
  intros Hc. change w64 with (2 ^ 64). apply lt_pow2_bits. intros n Hn.
  pose proof (get_cnk_lt16 w) as Hlt.
  unfold delete_rank, pkey_bit_size, cnk_mask, key_slice_length.
  rewrite (sub64_small (get_cnk w) 1) by (unfold w64; lia).
  destruct ((r =? get_cnk w - 1) || (r =? 15 - 1)); destruct (r =? 0); tb_norm;
    rewrite (testbit_small (get_cnk w - 1) 4) by (cbn; lia);
    destruct (N.ltb_spec n 64); try lia;
    rewrite ?andb_false_r; reflexivity.
Qed.

(** nibble [j] (1..15) after deleting rank [r]: nibbles below are kept, the
    ones above move down by one.  (Above the new count the word keeps junk
    from the old word unless [r] was the last rank; the lemma is exact.) *)
Lemma delete_rank_nib w r j :
  w < w64 -> 1 <= get_cnk w -> r < get_cnk w -> 1 <= j -> j < 16 ->
  nib (delete_rank w r) j =
    if j <? r + 1 then nib w j
    else if (r =? get_cnk w - 1) || (r =? 14) then 0
    else if j =? 15 then 0 else nib w (j + 1).
Proof.
  intros Hw Hc Hr Hj1 Hj.
  pose proof (get_cnk_lt16 w) as Hlt.
  unfold delete_rank, pkey_bit_size, cnk_mask, key_slice_length.
  rewrite (sub64_small (get_cnk w) 1) by (unfold w64; lia).
  change (15 - 1) with 14.
  apply N.bits_inj. intros n.
  rewrite testbit_nib.
  destruct (N.ltb_spec n 4) as [Hn|Hn].
  2:{ rewrite andb_false_r. symmetry.
      destruct (j <? r + 1); [apply small_testbit_high; [apply nib_lt16|lia]|].
      destruct ((r =? get_cnk w - 1) || (r =? 14)); [apply N.bits_0|].
      destruct (j =? 15); [apply N.bits_0|apply small_testbit_high; [apply nib_lt16|lia]]. }
  rewrite andb_true_r.
  rewrite N.lor_spec, N.land_spec, testbit_not64, testbit_15.
  rewrite (small_testbit_high (get_cnk w - 1)) by lia.
  rewrite orb_false_r.
  destruct (N.ltb_spec (n + 4 * j) 4) as [H4|H4]; [lia|].
  destruct (N.ltb_spec (n + 4 * j) 64) as [H64|H64]; [|lia].
  cbn [negb andb]. rewrite andb_true_r.
  rewrite N.lor_spec.
  destruct (N.ltb_spec j (r + 1)) as [Hjr|Hjr].
  - destruct (N.eqb_spec r 0) as [|_]; [lia|].
    assert (N.testbit (if (r =? get_cnk w - 1) || (r =? 14) then 0
                       else shl (shr w (4 * (r + 2))) (4 * (r + 1))) (n + 4 * j) = false) as ->.
    { destruct ((r =? get_cnk w - 1) || (r =? 14)); [apply N.bits_0|].
      rewrite testbit_shl. destruct (N.leb_spec (4 * (r + 1)) (n + 4 * j)); [lia|reflexivity]. }
    cbn [orb].
    rewrite testbit_shr, testbit_shl, testbit_nib.
    destruct (N.leb_spec (4 * (15 - r)) (n + 4 * j + 4 * (15 - r))) as [_|]; [|lia].
    destruct (N.ltb_spec (n + 4 * j + 4 * (15 - r)) 64) as [_|]; [|lia].
    destruct (N.ltb_spec n 4); [|lia].
    cbn [andb]. rewrite !andb_true_r. f_equal. lia.
  - assert (N.testbit (if r =? 0 then 0
                       else shr (shl w (4 * (15 - r))) (4 * (15 - r))) (n + 4 * j) = false) as ->.
    { destruct (r =? 0); [apply N.bits_0|].
      rewrite testbit_shr, testbit_shl.
      destruct (N.ltb_spec (n + 4 * j + 4 * (15 - r)) 64); [lia|]. apply andb_false_r. }
    rewrite orb_false_r.
    destruct ((r =? get_cnk w - 1) || (r =? 14)); [reflexivity|].
    rewrite testbit_shl, testbit_shr.
    destruct (N.leb_spec (4 * (r + 1)) (n + 4 * j)); [|lia].
    destruct (N.ltb_spec (n + 4 * j) 64); [|lia].
    cbn [andb]. rewrite andb_true_r.
    destruct (N.eqb_spec j 15) as [->|Hj15].
    + rewrite N.bits_0. apply (testbit_small w 64); [exact Hw|lia].
    + rewrite testbit_nib. destruct (N.ltb_spec n 4); [|lia].
      rewrite andb_true_r. f_equal. lia.
Qed.

(** ** List-level reading *)

Lemma perm_list_length w : length (perm_list w) = N.to_nat (get_cnk w).
Proof. unfold perm_list. rewrite map_length, seq_length. reflexivity. Qed.

Lemma perm_list_nth w i d :
  (i < N.to_nat (get_cnk w))%nat -> nth i (perm_list w) d = nib w (N.of_nat i + 1).
Proof.
  intros Hi. unfold perm_list.
  rewrite (nth_indep _ d (nib w (N.of_nat 0 + 1))) by (rewrite map_length, seq_length; exact Hi).
  rewrite (map_nth (fun i => nib w (N.of_nat i + 1)) _ 0%nat).
  rewrite seq_nth by exact Hi. reflexivity.
Qed.

Theorem insert_rank_list w r p :
  get_cnk w < 15 -> r <= get_cnk w -> p < 16 ->
  perm_list (insert_rank w r p) = insert_at (N.to_nat r) p (perm_list w).
Proof.
  intros Hc Hr Hp.
  apply (list_ext_nth 0).
  - rewrite insert_at_length by (rewrite perm_list_length; lia).
    rewrite !perm_list_length, insert_rank_cnk by exact Hc. lia.
  - intros i Hi. rewrite perm_list_length, insert_rank_cnk in Hi by exact Hc.
    rewrite perm_list_nth by (rewrite insert_rank_cnk by exact Hc; exact Hi).
    rewrite nth_insert_at by (rewrite perm_list_length; lia).
    rewrite insert_rank_nib by lia.
    destruct (N.ltb_spec (N.of_nat i + 1) (r + 1)); destruct (Nat.ltb_spec i (N.to_nat r)); try lia.
    + rewrite perm_list_nth by lia. reflexivity.
    + destruct (N.eqb_spec (N.of_nat i + 1) (r + 1)); destruct (Nat.eqb_spec i (N.to_nat r)); try lia.
      destruct (N.eqb_spec r (get_cnk w)); [lia|].
      rewrite perm_list_nth by lia. f_equal. lia.
Qed.

Theorem delete_rank_list w r :
  w < w64 -> r < get_cnk w ->
  perm_list (delete_rank w r) = remove_at (N.to_nat r) (perm_list w).
Proof.
  intros Hw Hr.
  pose proof (get_cnk_lt16 w) as Hlt.
  assert (1 <= get_cnk w) as Hc by lia.
  apply (list_ext_nth 0).
  - rewrite remove_at_length by (rewrite perm_list_length; lia).
    rewrite !perm_list_length, delete_rank_cnk by exact Hc. lia.
  - intros i Hi. rewrite perm_list_length, delete_rank_cnk in Hi by exact Hc.
    rewrite perm_list_nth by (rewrite delete_rank_cnk by exact Hc; exact Hi).
    rewrite nth_remove_at by (rewrite perm_list_length; lia).
    rewrite delete_rank_nib by lia.
    destruct (N.ltb_spec (N.of_nat i + 1) (r + 1)); destruct (Nat.ltb_spec i (N.to_nat r)); try lia.
    + rewrite perm_list_nth by lia. reflexivity.
    + destruct (N.eqb_spec r (get_cnk w - 1)); [lia|].
      destruct (N.eqb_spec r 14); [lia|]. cbn [orb].
      destruct (N.eqb_spec (N.of_nat i + 1) 15); [lia|].
      rewrite perm_list_nth by lia. f_equal. lia.
Qed.

(** *** get_empty_slot *)

Lemma used_slots_spec per k :
  used_slots per k = map (fun i => nib per (N.of_nat i + 1)) (seq 0 k).
Proof.
  revert per. induction k as [|k IH]; intros per; [reflexivity|].
  cbn [used_slots]. rewrite IH. cbn [seq map].
  replace (N.land (shr per 4) cnk_mask) with (nib per (N.of_nat 0 + 1)) by reflexivity.
  f_equal.
  rewrite <- seq_shift, map_map.
  apply map_ext. intros i.
    unfold nib, shr. rewrite N.shiftr_shiftr. do 2 f_equal. lia.
Qed.

Lemma used_slots_perm_list w : used_slots w (N.to_nat (get_cnk w)) = perm_list w.
Proof. apply used_slots_spec. Qed.

Lemma existsb_eqb_In x l : existsb (N.eqb x) l = true <-> In x l.
Proof.
  rewrite existsb_exists. split.
  - intros [y [Hy E]]. apply N.eqb_eq in E. subst. exact Hy.
  - intros H. exists x. split; [exact H|apply N.eqb_refl].
Qed.

Lemma first_free_some used i fuel j :
  first_free used i fuel = Some j ->
  ~ In j used /\ i <= j /\ j < i + N.of_nat fuel /\ (forall k, i <= k -> k < j -> In k used).
Proof.
  revert i. induction fuel as [|f IH]; intros i H; [discriminate|].
  cbn [first_free] in H.
  destruct (existsb (N.eqb i) used) eqn:E.
  - apply IH in H. destruct H as (Hn & Hle & Hlt & Hall).
    repeat split; try lia; [exact Hn|].
    intros k Hk1 Hk2. destruct (N.eq_dec k i) as [->|Hne].
    + apply existsb_eqb_In. exact E.
    + apply Hall; lia.
  - injection H as <-. repeat split; try lia.
    intros Hin. apply existsb_eqb_In in Hin. congruence.
Qed.

Lemma first_free_none used i fuel :
  first_free used i fuel = None -> forall k, i <= k -> k < i + N.of_nat fuel -> In k used.
Proof.
  revert i. induction fuel as [|f IH]; intros i H k Hk1 Hk2; [lia|].
  cbn [first_free] in H.
  destruct (existsb (N.eqb i) used) eqn:E; [|discriminate].
  destruct (N.eq_dec k i) as [->|Hne].
  - apply existsb_eqb_In. exact E.
  - apply (IH (i + 1) H); lia.
Qed.

Lemma nseq_pigeon (l : list N) :
  (forall k, k < 15 -> In k l) -> (15 <= length l)%nat.
Proof.
  intros H.
  pose (s := map N.of_nat (seq 0 15)).
  assert (NoDup s) as Hnd.
  { unfold s. apply Injective_map_NoDup; [|apply seq_NoDup].
    intros a b. apply Nnat.Nat2N.inj. }
  assert (incl s l) as Hincl.
  { intros x Hx. unfold s in Hx. apply in_map_iff in Hx. destruct Hx as [n [<- Hn]].
    apply in_seq in Hn. apply H. lia. }
  pose proof (NoDup_incl_length Hnd Hincl) as Hlen.
  unfold s in Hlen. rewrite map_length, seq_length in Hlen. exact Hlen.
Qed.

Theorem get_empty_slot_free w :
  get_cnk w < 15 ->
  ~ In (get_empty_slot w) (perm_list w) /\ get_empty_slot w < 15 /\
  (forall k, k < get_empty_slot w -> In k (perm_list w)).
Proof.
  intros Hc. unfold get_empty_slot.
  destruct (N.eqb_spec (get_cnk w) 0) as [E0|E0].
  - assert (perm_list w = []) as ->.
    { unfold perm_list. rewrite E0. reflexivity. }
    repeat split; try lia. intros [].
  - rewrite used_slots_perm_list.
    destruct (first_free (perm_list w) 0 15) as [j|] eqn:E.
    + apply first_free_some in E. destruct E as (Hn & Hle & Hlt & Hall).
      repeat split; [exact Hn|cbn in Hlt; lia|]. intros k Hk. apply Hall; lia.
    + exfalso. pose proof (first_free_none _ _ _ E) as Hall.
      assert (15 <= length (perm_list w))%nat as Hlen.
      { apply nseq_pigeon. intros k Hk. apply Hall; [lia|cbn; lia]. }
      rewrite perm_list_length in Hlen. lia.
Qed.

(** *** split_dest *)

Lemma split_dest_loop_nib i k body j :
  i + N.of_nat k <= 15 -> j < 16 -> 1 <= i ->
  nib (split_dest_loop i k body) j =
    if (i + 1 <=? j) && (j <? i + 1 + N.of_nat k) then N.lor (nib body j) (j - 1) else nib body j.
Proof.
  revert i body. induction k as [|k IH]; intros i body Hik Hj Hi.
  - cbn [split_dest_loop].
    destruct (N.leb_spec (i + 1) j); destruct (N.ltb_spec j (i + 1 + N.of_nat 0)); try lia; reflexivity.
  - cbn [split_dest_loop]. rewrite IH by lia.
    assert (forall n, N.testbit (nib (N.lor body (shl i (pkey_bit_size * (i + 1)))) j) n =
                      N.testbit (if j =? i + 1 then N.lor (nib body j) i else nib body j) n) as Hb.
    { intros n. unfold pkey_bit_size. rewrite testbit_nib, N.lor_spec, testbit_shl.
      destruct (N.ltb_spec n 4) as [Hn|Hn].
      - rewrite andb_true_r.
        destruct (N.eqb_spec j (i + 1)) as [->|Hne].
        + rewrite N.lor_spec, testbit_nib.
          destruct (N.ltb_spec n 4); [|lia]. rewrite andb_true_r.
          destruct (N.leb_spec (4 * (i + 1)) (n + 4 * (i + 1))); [|lia].
          destruct (N.ltb_spec (n + 4 * (i + 1)) 64); [|lia].
          cbn [andb]. rewrite andb_true_r. do 2 f_equal. lia.
        + rewrite testbit_nib. destruct (N.ltb_spec n 4); [|lia]. rewrite andb_true_r.
          destruct (N.leb_spec (4 * (i + 1)) (n + 4 * j)) as [Hle|Hle].
          * rewrite (small_testbit_high i) by lia. cbn [andb]. apply orb_false_r.
          * cbn [andb]. apply orb_false_r.
      - rewrite andb_false_r. symmetry.
        destruct (j =? i + 1).
        + rewrite N.lor_spec, (small_testbit_high (nib body j)), (small_testbit_high i);
            [reflexivity|lia|lia|apply nib_lt16|lia].
        + apply small_testbit_high; [apply nib_lt16|lia]. }
    apply N.bits_inj in Hb. rewrite Hb.
    destruct (N.eqb_spec j (i + 1)) as [->|Hne].
    + destruct (N.leb_spec (i + 1 + 1) (i + 1)); [lia|]. cbn [andb].
      destruct (N.leb_spec (i + 1) (i + 1)); [|lia].
      destruct (N.ltb_spec (i + 1) (i + 1 + N.of_nat (S k))); [|lia].
      cbn [andb]. f_equal. lia.
    + destruct (N.leb_spec (i + 1 + 1) j); destruct (N.leb_spec (i + 1) j); try lia;
      destruct (N.ltb_spec j (i + 1 + 1 + N.of_nat k)); destruct (N.ltb_spec j (i + 1 + N.of_nat (S k)));
        try lia; reflexivity.
Qed.

Theorem split_dest_nib num j :
  1 <= num -> num <= 15 -> j < 16 ->
  nib (split_dest num) j = if j =? 0 then num else if j <=? num then j - 1 else 0.
Proof.
  intros H1 Hn Hj. unfold split_dest.
  assert (forall n, N.testbit (nib (N.lor (split_dest_loop 1 (N.to_nat (num - 1)) 0) num) j) n =
                    N.testbit (N.lor (nib (split_dest_loop 1 (N.to_nat (num - 1)) 0) j)
                                     (if j =? 0 then num else 0)) n) as Hb.
  { intros n. rewrite testbit_nib, !N.lor_spec, testbit_nib.
    destruct (N.ltb_spec n 4) as [Hn4|Hn4].
    - rewrite !andb_true_r. f_equal.
      destruct (N.eqb_spec j 0) as [->|Hj0]; [f_equal; lia|].
      rewrite N.bits_0. apply (testbit_small num 4); [cbn; lia|lia].
    - rewrite !andb_false_r. cbn [orb]. symmetry.
      destruct (j =? 0); [apply small_testbit_high; lia|apply N.bits_0]. }
  apply N.bits_inj in Hb. rewrite Hb.
  rewrite split_dest_loop_nib by lia.
  assert (nib 0 j = 0) as E0.
  { unfold nib. rewrite N.shiftr_0_l. reflexivity. }
  rewrite E0, N.lor_0_l.
  destruct (N.eqb_spec j 0) as [->|Hj0].
  - destruct (N.leb_spec (1 + 1) 0); [lia|]. cbn [andb]. apply N.lor_0_l.
  - rewrite N.lor_0_r.
    destruct (N.leb_spec (1 + 1) j); destruct (N.ltb_spec j (1 + 1 + N.of_nat (N.to_nat (num - 1))));
      destruct (N.leb_spec j num); cbn [andb]; try lia; reflexivity.
Qed.

Theorem split_dest_list num :
  1 <= num -> num <= 15 -> perm_list (split_dest num) = map N.of_nat (seq 0 (N.to_nat num)).
Proof.
  intros H1 Hn.
  assert (get_cnk (split_dest num) = num) as Ec.
  { rewrite get_cnk_nib, split_dest_nib by lia. reflexivity. }
  unfold perm_list. rewrite Ec. apply map_ext_in. intros i Hi. apply in_seq in Hi.
  rewrite split_dest_nib by lia.
  destruct (N.eqb_spec (N.of_nat i + 1) 0); [lia|].
  destruct (N.leb_spec (N.of_nat i + 1) num); lia.
Qed.

(** ** Validity *)
From Coq Require Import Permutation.

Definition Valid (w : N) : Prop :=
  w < w64 /\ get_cnk w <= 15 /\ NoDup (perm_list w) /\ Forall (fun x => x < 15) (perm_list w).

Lemma skipn_S_nth {A} (d : A) l r : (r < length l)%nat -> skipn r l = nth r l d :: skipn (S r) l.
Proof.
  revert r. induction l as [|a l IH]; intros r H; [cbn in H; lia|].
  destruct r as [|r]; [reflexivity|]. cbn [skipn nth]. apply IH. cbn in H. lia.
Qed.

Lemma insert_at_perm {A} r (x : A) l : Permutation (insert_at r x l) (x :: l).
Proof.
  unfold insert_at. symmetry.
  rewrite <- (firstn_skipn r l) at 1. apply Permutation_middle.
Qed.

Theorem insert_rank_valid w r p :
  Valid w -> get_cnk w < 15 -> r <= get_cnk w -> p < 15 -> ~ In p (perm_list w) ->
  Valid (insert_rank w r p).
Proof.
  intros (Hw & Hc & Hnd & Hall) Hc15 Hr Hp Hnin.
  unfold Valid. rewrite insert_rank_list, insert_rank_cnk by lia.
  repeat split.
  - apply insert_rank_lt; exact Hc15.
  - lia.
  - apply (Permutation_NoDup (l := p :: perm_list w)).
    + symmetry. apply insert_at_perm.
    + constructor; assumption.
  - apply Forall_forall. intros x Hx.
    apply (Permutation_in _ (insert_at_perm _ _ _)) in Hx.
    destruct Hx as [<-|Hx]; [exact Hp|].
    rewrite Forall_forall in Hall. apply Hall. exact Hx.
Qed.

Theorem delete_rank_valid w r :
  Valid w -> r < get_cnk w -> Valid (delete_rank w r).
Proof.
  intros (Hw & Hc & Hnd & Hall) Hr.
  unfold Valid. rewrite delete_rank_list, delete_rank_cnk by lia.
  assert (N.to_nat r < length (perm_list w))%nat as Hlen by (rewrite perm_list_length; lia).
  assert (perm_list w = firstn (N.to_nat r) (perm_list w) ++
            nth (N.to_nat r) (perm_list w) 0 :: skipn (S (N.to_nat r)) (perm_list w)) as E.
  { rewrite <- (skipn_S_nth 0) by exact Hlen. symmetry. apply firstn_skipn. }
  repeat split.
  - apply delete_rank_lt. lia.
  - lia.
  - unfold remove_at. rewrite E in Hnd. apply NoDup_remove_1 in Hnd. exact Hnd.
  - apply Forall_forall. intros x Hx. rewrite Forall_forall in Hall. apply Hall.
    unfold remove_at in Hx. rewrite E. apply in_app_or in Hx. apply in_or_app.
    destruct Hx as [Hx|Hx]; [left; exact Hx|right; right; exact Hx].
Qed.

Lemma split_dest_lt num : 1 <= num -> num <= 15 -> split_dest num < w64.
Proof.
  intros H1 Hn. unfold split_dest.
  change w64 with (2 ^ 64). apply lt_pow2_bits. intros n Hn64.
  rewrite N.lor_spec, (testbit_small num 64) by (try lia; change (2^64) with w64; unfold w64; lia).
  rewrite orb_false_r.
  generalize (N.to_nat (num - 1)). intros k.
  assert (forall i body, (forall m, 64 <= m -> N.testbit body m = false) ->
            N.testbit (split_dest_loop i k body) n = false) as Hgen.
  { induction k as [|k IH]; intros i body Hb; cbn [split_dest_loop]; [apply Hb; exact Hn64|].
    apply IH. intros m Hm. rewrite N.lor_spec, Hb, testbit_shl by exact Hm.
    destruct (N.ltb_spec m 64); [lia|]. rewrite andb_false_r. reflexivity. }
  apply Hgen. intros m _. apply N.bits_0.
Qed.

Theorem split_dest_valid num : 1 <= num -> num <= 15 -> Valid (split_dest num).
Proof.
  intros H1 Hn. unfold Valid.
  assert (get_cnk (split_dest num) = num) as Ec.
  { rewrite get_cnk_nib, split_dest_nib by lia. reflexivity. }
  rewrite split_dest_list, Ec by lia.
  repeat split.
  - apply split_dest_lt; assumption.
  - exact Hn.
  - apply Injective_map_NoDup; [|apply seq_NoDup]. intros a b. apply Nnat.Nat2N.inj.
  - apply Forall_forall. intros x Hx. apply in_map_iff in Hx. destruct Hx as [i [<- Hi]].
    apply in_seq in Hi. lia.
Qed.

Lemma init_valid : Valid 0.
Proof.
  unfold Valid. repeat split; try (cbn; lia).
  - constructor.
  - constructor.
Qed.

(** ** No undefined shift *)
Theorem insert_rank_no_ub w r :
  get_cnk w < 15 -> r <= get_cnk w -> Forall (fun s => s < 64) (insert_rank_shifts w r).
Proof.
  intros Hc Hr. unfold insert_rank_shifts, pkey_bit_size, key_slice_length.
  rewrite (add64_small (get_cnk w) 1) by (unfold w64; lia).
  rewrite (sub64_small (get_cnk w + 1) 1) by (unfold w64; lia).
  apply Forall_app. split; [constructor; [lia|constructor]|].
  apply Forall_app. split.
  - destruct (N.eqb_spec r (get_cnk w + 1 - 1)); [constructor|].
    constructor; [lia|constructor; [lia|constructor]].
  - destruct (N.eqb_spec r 0); [constructor|]. constructor; [lia|constructor].
Qed.

Theorem delete_rank_no_ub w r :
  r < get_cnk w -> Forall (fun s => s < 64) (delete_rank_shifts w r).
Proof.
  intros Hr. pose proof (get_cnk_lt16 w) as Hlt.
  unfold delete_rank_shifts, pkey_bit_size, key_slice_length.
  rewrite (sub64_small (get_cnk w) 1) by (unfold w64; lia).
  apply Forall_app. split.
  - destruct (N.eqb_spec r (get_cnk w - 1)); [constructor|].
    destruct (N.eqb_spec r (15 - 1)); [constructor|]. cbn [orb].
    constructor; [lia|constructor; [lia|constructor]].
  - destruct (N.eqb_spec r 0); [constructor|]. constructor; [lia|constructor].
Qed.

(** boolean validity check (extracted, applied to real permutation words) *)
Lemma perm_validb_sound w : perm_validb w = true -> Valid w.
Proof.
  unfold perm_validb, Valid. intros H.
  apply andb_prop in H. destruct H as [H Hnd].
  apply andb_prop in H. destruct H as [H Hall].
  apply andb_prop in H. destruct H as [Hw Hc].
  apply N.ltb_lt in Hw. apply N.leb_le in Hc.
  repeat split; try assumption.
  - clear Hall. induction (perm_list w) as [|x l IH]; [constructor|].
    apply andb_prop in Hnd. destruct Hnd as [Hx Hl].
    constructor.
    + intros Hin. apply existsb_eqb_In in Hin. rewrite Hin in Hx. discriminate.
    + apply IH. exact Hl.
  - apply Forall_forall. rewrite forallb_forall in Hall. intros x Hx.
    apply N.ltb_lt. apply Hall. exact Hx.
Qed.

(** ** Statements in the form the property file exports *)
Lemma c19_insert w r p :
  Valid w -> get_cnk w < 15 -> r <= get_cnk w -> p < 15 -> ~ In p (perm_list w) ->
  perm_list (insert_rank w r p) = insert_at (N.to_nat r) p (perm_list w) /\
  get_cnk (insert_rank w r p) = get_cnk w + 1 /\
  Valid (insert_rank w r p).
Proof.
  intros Hv Hc Hr Hp Hn. split; [|split].
  - apply insert_rank_list; lia.
  - apply insert_rank_cnk; exact Hc.
  - apply insert_rank_valid; assumption.
Qed.

Lemma c19_delete w r :
  Valid w -> r < get_cnk w ->
  perm_list (delete_rank w r) = remove_at (N.to_nat r) (perm_list w) /\
  get_cnk (delete_rank w r) = get_cnk w - 1 /\
  Valid (delete_rank w r).
Proof.
  intros Hv Hr. split; [|split].
  - apply delete_rank_list; [exact (proj1 Hv)|exact Hr].
  - apply delete_rank_cnk. lia.
  - apply delete_rank_valid; assumption.
Qed.

Lemma c19_index w r d :
  r < get_cnk w -> get_index_of_rank w r = nth (N.to_nat r) (perm_list w) d.
Proof.
  intros Hr. rewrite get_index_of_rank_nib, perm_list_nth by lia.
  rewrite Nnat.N2Nat.id. reflexivity.
Qed.

Lemma c19_split num :
  1 <= num -> num <= 15 ->
  perm_list (split_dest num) = map N.of_nat (seq 0 (N.to_nat num)) /\ Valid (split_dest num).
Proof. intros H1 H2. split; [apply split_dest_list|apply split_dest_valid]; assumption. Qed.

Lemma c19_no_ub w r :
  (get_cnk w < 15 -> r <= get_cnk w -> Forall (fun s => s < 64) (insert_rank_shifts w r)) /\
  (r < get_cnk w -> Forall (fun s => s < 64) (delete_rank_shifts w r)).
Proof. split; [apply insert_rank_no_ub|apply delete_rank_no_ub]. Qed.
