(** * ConstsCheck: the constants the model uses are the ones /repo's current
    source compiles to (Consts.v is regenerated from the source on every run). *)
From Coq Require Import NArith.
From Yk Require Import Consts PermDefs VersionDefs ValueDefs.
Local Open Scope N_scope.

Theorem consts_perm :
  c_key_slice_length = PermDefs.key_slice_length /\ c_cnk_mask = PermDefs.cnk_mask /\
  c_cnk_bit_size = 4 /\ c_pkey_bit_size = PermDefs.pkey_bit_size.
Proof. repeat split; reflexivity. Qed.

Theorem consts_version :
  c_version_init = VersionDefs.version_init /\
  c_vins_lo = vins_lo /\ c_vins_len = vins_len /\ c_locked_bit = locked_bit /\
  c_insdel_bit = insdel_bit /\ c_splitting_bit = splitting_bit /\
  c_vsplit_lo = vsplit_lo /\ c_vsplit_len = vsplit_len /\
  c_deleted_bit = deleted_bit /\ c_root_bit = root_bit /\ c_border_bit = border_bit.
Proof. repeat split; reflexivity. Qed.

Theorem consts_value :
  c_kChildFlag = kChildFlag /\ c_kValPtrFlag = kValPtrFlag /\ c_kValPtrFlag_lv = kValPtrFlag /\
  c_value_len_bits = 32 /\ c_value_align_bits = 16 /\ c_sizeof_uintptr = 8.
Proof. repeat split; reflexivity. Qed.
