(** * VersionMonitorProofs: what the trace monitor [ver_write_ok] guarantees. *)
From Coq Require Import NArith List Bool Lia.
From Yk Require Import Word64 VersionDefs VersionProofs.
Import ListNotations.
Local Open Scope N_scope.

(** an accepted lock CAS takes a free lock *)
Lemma monitor_lock cur nw : ver_write_ok cur nw true = true ->
  get_locked cur = false /\ nw = set_locked cur true /\ get_locked nw = true.
Proof.
  unfold ver_write_ok. intros H. apply andb_true_iff in H as [H1 H2].
  apply negb_true_iff in H1. apply N.eqb_eq in H2. subst nw.
  repeat split; auto. apply get_locked_set_locked.
Qed.

(** among the accepted non-lock writes, the only one that releases a held lock is [unlock] applied
    to the current word: a release therefore always carries the counter increments for the
    dirty bits that are set at that instant *)
Lemma monitor_release cur nw : ver_write_ok cur nw false = true ->
  get_locked cur = true -> get_locked nw = false -> nw = unlock cur.
Proof.
  unfold ver_write_ok, ver_setters. cbn [existsb]. intros H Hc Hn.
  rewrite !orb_false_r in H.
  repeat (apply orb_true_iff in H as [H | H]); try (apply N.eqb_eq in H); auto; exfalso; subst nw.
  - destruct (inc_vinsert_delete_frame cur) as (_ & E & _). congruence.
  - destruct (set_inserting_deleting_frame cur true) as (_ & E & _). congruence.
  - destruct (set_splitting_frame cur true) as (_ & E & _); congruence.
  - destruct (set_deleted_frame cur true) as (_ & E & _); congruence.
  - destruct (set_root_frame cur true) as (_ & E & _); congruence.
  - destruct (set_border_frame cur true) as (_ & E & _); congruence.
  - destruct (set_inserting_deleting_frame cur false) as (_ & E & _). congruence.
  - destruct (set_splitting_frame cur false) as (_ & E & _); congruence.
  - destruct (set_deleted_frame cur false) as (_ & E & _); congruence.
  - destruct (set_root_frame cur false) as (_ & E & _); congruence.
  - destruct (set_border_frame cur false) as (_ & E & _); congruence.
Qed.

(** an accepted non-lock write never takes the lock *)
Lemma monitor_no_steal cur nw : ver_write_ok cur nw false = true ->
  get_locked cur = false -> get_locked nw = false.
Proof.
  unfold ver_write_ok, ver_setters. cbn [existsb]. intros H Hc.
  rewrite !orb_false_r in H.
  repeat (apply orb_true_iff in H as [H | H]); try (apply N.eqb_eq in H); subst nw.
  - apply unlock_getters.
  - destruct (inc_vinsert_delete_frame cur) as (_ & E & _). congruence.
  - destruct (set_inserting_deleting_frame cur true) as (_ & E & _). congruence.
  - destruct (set_splitting_frame cur true) as (_ & E & _); congruence.
  - destruct (set_deleted_frame cur true) as (_ & E & _); congruence.
  - destruct (set_root_frame cur true) as (_ & E & _); congruence.
  - destruct (set_border_frame cur true) as (_ & E & _); congruence.
  - destruct (set_inserting_deleting_frame cur false) as (_ & E & _). congruence.
  - destruct (set_splitting_frame cur false) as (_ & E & _); congruence.
  - destruct (set_deleted_frame cur false) as (_ & E & _); congruence.
  - destruct (set_root_frame cur false) as (_ & E & _); congruence.
  - destruct (set_border_frame cur false) as (_ & E & _); congruence.
Qed.
