(** * KeyDefs: (8-byte slice, length) tuples and every comparison site.

    A slice is modelled as the big-endian number of the 8 key bytes (byte 0 of
    the key is the most significant), so that [memcmp] over the first [n] bytes
    is numeric comparison of [s / 256^(8-n)].  The real word is the
    little-endian image (the drivers byte-swap).  Length 0..8 = key ends here,
    9 = continues in the next layer. *)
From Coq Require Export NArith List Bool.
Export ListNotations.
Local Open Scope N_scope.

Record ktuple := { ks : N; kl : N }.

Inductive cmp3 := Lt3 | Eq3 | Gt3.
Definition cmpN (a b : N) : cmp3 :=
  match a ?= b with Lt => Lt3 | Eq => Eq3 | Gt => Gt3 end.

(** memcmp(&a, &b, n) for n <= 8 on two slices *)
Definition memcmp_slice (a b n : N) : cmp3 :=
  let sh := 8 * (8 - n) in cmpN (N.shiftr a sh) (N.shiftr b sh).

(** memcmp over n bytes starting at the slice of a key_tuple object; the byte
    after the slice is the length byte (n = 9 reads it) *)
Definition memcmp_tuple (a b : ktuple) (n : N) : cmp3 :=
  if n <=? 8 then memcmp_slice (ks a) (ks b) n
  else match memcmp_slice (ks a) (ks b) 8 with
       | Eq3 => cmpN (kl a) (kl b)
       | c => c
       end.

(** site 1: key_tuple::operator< (base_node.h) *)
Definition kt_lt (l r : ktuple) : bool :=
  if kl r =? 0 then false
  else if kl l =? 0 then true
  else match memcmp_tuple l r (N.min (kl l) (kl r)) with
       | Lt3 => true
       | Eq3 => kl l <? kl r
       | Gt3 => false
       end.
Definition kt_gt l r := kt_lt r l.
Definition kt_ge l r := negb (kt_lt l r).
Definition kt_le l r := negb (kt_gt l r).
Definition kt_eq (l r : ktuple) : bool := (ks l =? ks r) && (kl l =? kl r).

(** site 2: the per-entry test of border_node::get_lv_of / get_lv_of_without_lock.
    Result of comparing the searched key with one stored entry. *)
Inductive probe := Hit | Stop | Next.
Definition lookup_probe (k t : ktuple) : probe :=
  if (kl k =? 0) && (kl t =? 0) then Hit
  else match memcmp_slice (ks k) (ks t) 8 with
       | Eq3 => if ((8 <? kl k) && (8 <? kl t)) || (kl k =? kl t) then Hit
                else if kl k <? kl t then Stop else Next
       | Lt3 => Stop
       | Gt3 => Next
       end.

(** site 3: border_node::compute_rank_if_insert, per entry: true = insert before this entry *)
Definition rank_probe (k t : ktuple) : bool :=
  match memcmp_slice (ks k) (ks t) 8 with
  | Eq3 => kl k <? kl t
  | Lt3 => true
  | Gt3 => false
  end.

(** site 4: interior_node::get_child_of, per separator: true = descend left of it *)
Definition route_probe (k sep : ktuple) : bool :=
  let comp := N.min (kl k) (kl sep) in
  match memcmp_slice (ks k) (ks sep) (N.min comp 8) with
  | Lt3 => true
  | Eq3 => kl k <? kl sep
  | Gt3 => false
  end.

(** sites 5,6: interior_node::insert position and interior_split side *)
Definition iins_probe (k sep : ktuple) : bool :=
  let comp := if (8 <? kl k) && (8 <? kl sep) then 8 else N.min (kl k) (kl sep) in
  match memcmp_slice (ks k) (ks sep) comp with
  | Lt3 => true
  | Eq3 => kl k <? kl sep
  | Gt3 => false
  end.

(** site 7: border_split side decision: true = new key goes to the left node *)
Definition bsplit_left (k first : ktuple) (rank remaining : N) : bool :=
  let c := memcmp_slice (ks k) (ks first) (N.min (N.min (kl k) (kl first)) 8) in
  (kl k =? 0) ||
  match c with Lt3 => true | _ => false end ||
  (match c with Eq3 => true | _ => false end && (kl k <? kl first)) ||
  (match c with Eq3 => true | _ => false end && (rank <? remaining)).

(** site 8: border_node::delete_of match test *)
Definition delete_match (k t : ktuple) : bool :=
  ((kl k =? 0) && (kl t =? 0)) ||
  ((kl k =? kl t) && match memcmp_slice (ks k) (ks t) 8 with Eq3 => true | _ => false end).

(** the canonical order: slice first (numeric = bytewise), then length *)
Definition canon_lt (a b : ktuple) : bool :=
  (ks a <? ks b) || ((ks a =? ks b) && (kl a <? kl b)).

(** a tuple is well formed when the bytes past its length are zero *)
Definition kt_wf (t : ktuple) : bool :=
  (kl t <=? 9) && (ks t <? 2 ^ 64) &&
  ((8 <=? kl t) || (ks t mod 2 ^ (8 * (8 - kl t)) =? 0)).

(** ** keys as byte strings *)
Definition key := list N. (* bytes, each < 256 *)

Fixpoint slice_of_bytes (bs : list N) (n : nat) : N :=
  match n with
  | O => 0
  | S m => match bs with
           | [] => 0
           | b :: r => b * 256 ^ N.of_nat m + slice_of_bytes r m
           end
  end.

(** key_tuple(std::string_view) *)
Definition tuple_of_key (k : key) : ktuple :=
  if (8 <? N.of_nat (length k))
  then {| ks := slice_of_bytes k 8; kl := 9 |}
  else {| ks := slice_of_bytes k 8; kl := N.of_nat (length k) |}.

(** bytewise lexicographic order, a proper prefix first *)
Fixpoint lex_lt (a b : key) : bool :=
  match a, b with
  | _, [] => false
  | [], _ :: _ => true
  | x :: a', y :: b' => (x <? y) || ((x =? y) && lex_lt a' b')
  end.
