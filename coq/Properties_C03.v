(** * C03 -- range scan returns exactly the keys of the requested interval.
    (Property theorems; the refinement theorem is added by ScanProofs.) *)
From Coq Require Import NArith List.
From Yk Require Import SysDefs SpecDefs.
Import ListNotations.
Local Open Scope N_scope.

(** The scan of the pinned source did NOT ignore the key passed with an INF left
    endpoint: on a two-border tree, scan(l_key = [19], INF, "", INF) starts at the
    border of key 19 and misses the keys of the left border.  [scan_orig_inf] is
    that original behaviour (kept in the model as [scan_orig]); the witness is
    the replay of finding F1. *)
Definition c03_build : list op :=
  OCreate [115] :: map (fun i => OPut [115] [N.of_nat i] [N.of_nat i] 1 false false) (seq 0 20).
Definition c03_args : scan_args :=
  {| sa_l := [19]; sa_le := EP_INF; sa_r := []; sa_re := EP_INF; sa_max := 0%nat; sa_rtl := false;
     sa_lnull := false; sa_rnull := false |}.

Theorem C03_original_inf_ignores_key_refuted :
  exists tr m,
    trees_get (sy_trees (fst (exec_all sys_init c03_build))) 1 = Some tr /\
    ssys_get (sp_map (fst (spec_exec_all spec_init c03_build))) [115] = Some m /\
    option_map (fun o => map (fun kv => (fst kv, abs_value (snd kv))) (so_tuples o)) (scan_orig tr c03_args)
      <> Some (spec_scan_list m c03_args) /\
    option_map (fun o => map (fun kv => (fst kv, abs_value (snd kv))) (so_tuples o)) (scan tr c03_args)
      = Some (spec_scan_list m c03_args).
Proof.
  eexists. eexists. split; [vm_compute; reflexivity|]. split; [vm_compute; reflexivity|].
  split; [vm_compute; intros H; discriminate H|vm_compute; reflexivity].
Qed.
Print Assumptions C03_original_inf_ignores_key_refuted.

(** ** The refinement theorem (ScanProofs): on every store reached by puts and removes, for every interval
    (all endpoint kinds, keys of any length incl. > 255 bytes), every max_size and both directions, the scan
    returns exactly the interval filter of the store's map, in key order. *)
From Yk Require Import KeyDefs KeyProofs TreeDefs ScanDefs StoreProofs ScanProofs.

Theorem C03_scan_is_interval_filter : forall ctr tr a,
  WF_store ctr tr -> scan_inv tr -> bytes (sa_l a) -> bytes (sa_r a) ->
  exists o, scan tr a = Some o /\
    if spec_scan_args_ok a
    then so_status o = (if t_null tr then St_OK_ROOT_IS_NULL else St_OK) /\
         map (fun kv => (fst kv, abs_value (snd kv))) (so_tuples o) = spec_scan_list (abs_tree tr) a
    else so_status o = St_ERR_BAD_USAGE /\ so_tuples o = [].
Proof. exact scan_refines_all. Qed.
Print Assumptions C03_scan_is_interval_filter.

(** the two side conditions are invariants of the store operations (and hold initially) *)
Theorem C03_scan_inv_reachable :
  scan_inv null_tree /\ (forall id, scan_inv (empty_tree id)) /\
  (forall ctr tr k v unique tr' po ctr',
     WF_store ctr tr -> bytes k -> put tr k v unique ctr = Some (tr', po, ctr') -> scan_inv tr -> scan_inv tr') /\
  (forall tr k tr' ro, remove tr k = Some (tr', ro) -> scan_inv tr -> scan_inv tr').
Proof.
  split; [exact scan_inv_null|]. split; [exact scan_inv_empty|]. split; [exact put_scan_inv|exact remove_scan_inv].
Qed.
Print Assumptions C03_scan_inv_reachable.

(** argument validation: exactly the empty / inverted intervals are rejected *)
Theorem C03_scan_validate : forall a,
  (scan_validate a = None <-> spec_scan_args_ok a = true) /\
  (spec_scan_args_ok a = false -> scan_validate a = Some St_ERR_BAD_USAGE).
Proof. exact scan_validate_spec. Qed.
Print Assumptions C03_scan_validate.

(** without the side conditions the statement is false: two well-formed but unreachable stores *)
Theorem C03_side_conditions_needed :
  ~ (forall ctr tr a, WF_store ctr tr -> t_null tr = false -> bytes (sa_l a) -> bytes (sa_r a) ->
       exists o, scan tr a = Some o /\
         if spec_scan_args_ok a
         then so_status o = St_OK /\
              map (fun kv => (fst kv, abs_value (snd kv))) (so_tuples o) = spec_scan_list (abs_tree tr) a
         else so_status o = St_ERR_BAD_USAGE /\ so_tuples o = []).
Proof. exact ScanCounterexamples.scan_refines_false_from_WF_store_alone. Qed.
Print Assumptions C03_side_conditions_needed.

(** ** System level (SysScanProofs): after ANY history of storage and data operations, a scan of any storage
    returns exactly what the map-of-maps specification returns (status and tuples) *)
From Yk Require Import SysProofs SysScanProofs.
Theorem C03_sys_scan_exact : forall ops n a, Forall op_bytes ops -> op_bytes (OScan n a) ->
  abs_out (snd (exec (fst (exec_all sys_init ops)) (OScan n a))) =
  snd (spec_exec (fst (spec_exec_all spec_init ops)) (OScan n a)).
Proof. exact sys_scan_exact. Qed.
Print Assumptions C03_sys_scan_exact.
