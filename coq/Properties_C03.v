(** * C03 -- range scan returns exactly the keys of the requested interval.
    (Property theorems; the refinement theorem is added by ScanProofs.) *)
From Coq Require Import NArith List.
From Yk Require Import SysDefs SpecDefs.
Import ListNotations.
Local Open Scope N_scope.

(** The scan of the pinned source did NOT ignore the key passed with an INF left
    endpoint: on a two-border tree, scan(l_key = [19], INF, "", INF) starts at the
    border of key 19 and misses the keys of the left border.  [scan_orig_inf] is
    that original behaviour (kept in the model as [scan_orig]); the witness is
    the replay of finding F1. *)
Definition c03_build : list op :=
  OCreate [115] :: map (fun i => OPut [115] [N.of_nat i] [N.of_nat i] 1 false false) (seq 0 20).
Definition c03_args : scan_args :=
  {| sa_l := [19]; sa_le := EP_INF; sa_r := []; sa_re := EP_INF; sa_max := 0%nat; sa_rtl := false;
     sa_lnull := false; sa_rnull := false |}.

Theorem C03_original_inf_ignores_key_refuted :
  exists tr m,
    trees_get (sy_trees (fst (exec_all sys_init c03_build))) 1 = Some tr /\
    ssys_get (sp_map (fst (spec_exec_all spec_init c03_build))) [115] = Some m /\
    option_map (fun o => map (fun kv => (fst kv, abs_value (snd kv))) (so_tuples o)) (scan_orig tr c03_args)
      <> Some (spec_scan_list m c03_args) /\
    option_map (fun o => map (fun kv => (fst kv, abs_value (snd kv))) (so_tuples o)) (scan tr c03_args)
      = Some (spec_scan_list m c03_args).
Proof.
  eexists. eexists. split; [vm_compute; reflexivity|]. split; [vm_compute; reflexivity|].
  split; [vm_compute; intros H; discriminate H|vm_compute; reflexivity].
Qed.
Print Assumptions C03_original_inf_ignores_key_refuted.
