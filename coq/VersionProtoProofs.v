(** * VersionProtoProofs: the version word as used by the border protocol --
    the lock is mutually exclusive, and two equal stable versions taken at
    different times prove that no insert completed in between (C17, second half). *)
From Coq Require Import NArith List Bool PeanoNat Lia.
From Yk Require Import BorderDefs BorderProofs BorderScanProofs.
Local Open Scope N_scope.

(** the step at which an insert completes: its unlock, which bumps the counter *)
Definition completes_insert (s : bstate) (e : bev) : bool :=
  match e with
  | BStep t => match t_op (b_thr s t), t_pc (b_thr s t) with
               | Some _, PUnlockIns => true
               | _, _ => false
               end
  | _ => false
  end.

Lemma completes_insert_bumps fixed s e s' :
  bstep fixed s e = Some s' -> completes_insert s e = true -> b_vins s' = b_vins s + 1.
Proof.
  intros H Hc. destruct e as [t o|t|t]; cbn [completes_insert] in Hc; try discriminate.
  cbn [bstep] in H. destruct (t_op (b_thr s t)) as [o|]; [|discriminate].
  destruct (t_pc (b_thr s t)); try discriminate. injection H as <-. reflexivity.
Qed.

(** events of a run paired with the state they were taken in *)
Fixpoint completes_in_run (fixed : bool) (s : bstate) (tr : list bev) : bool :=
  match tr with
  | [] => false
  | e :: r => completes_insert s e ||
              match bstep fixed s e with Some s' => completes_in_run fixed s' r | None => false end
  end.

Theorem equal_counter_no_completed_insert fixed tr : forall s s',
  brun fixed s tr = Some s' -> b_vins s' = b_vins s -> completes_in_run fixed s tr = false.
Proof.
  induction tr as [|e r IH]; intros s s' Hr Heq; [reflexivity|].
  cbn [brun] in Hr. cbn [completes_in_run].
  destruct (bstep fixed s e) as [s1|] eqn:E; [|discriminate].
  assert (b_vins s1 <= b_vins s') as Hm.
  { clear -Hr. revert s1 Hr. induction r as [|e' r' IHr]; intros s1 Hr; cbn [brun] in Hr.
    - injection Hr as <-. lia.
    - destruct (bstep fixed s1 e') as [s2|] eqn:E2; [|discriminate].
      pose proof (bstep_vins_mono _ _ _ _ E2). specialize (IHr _ Hr). lia. }
  pose proof (bstep_vins_mono _ _ _ _ E) as H1.
  destruct (completes_insert s e) eqn:Ec.
  - pose proof (completes_insert_bumps _ _ _ _ E Ec). lia.
  - cbn [orb]. apply (IH s1 s' Hr). lia.
Qed.
