(** * LockOrderDefs: abstract locks acquired in rank order (the locking discipline
    of the writers: node -> previous sibling -> parent -> root lock). *)
From Coq Require Export List Bool PeanoNat.
Export ListNotations.

Record lthread := { held : list nat; waits : option nat }.

(** a thread respects the order when everything it holds ranks below the lock it waits for *)
Definition ordered (rank : nat -> nat) (t : lthread) : Prop :=
  match waits t with
  | Some l => Forall (fun h => rank h < rank l) (held t)
  | None => True
  end.

Definition orderedb (rank : nat -> nat) (t : lthread) : bool :=
  match waits t with
  | Some l => forallb (fun h => Nat.ltb (rank h) (rank l)) (held t)
  | None => true
  end.

(** every awaited lock is held by one of the threads (otherwise the waiter can take it) *)
Definition awaited_held (ts : list lthread) : Prop :=
  forall t l, In t ts -> waits t = Some l -> exists t', In t' ts /\ In l (held t').
