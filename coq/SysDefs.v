(** * SysDefs: the whole sequential system -- storages (an outer tree whose
    values designate user trees), data operations by storage name, destroy.
    (storage_impl.h, kvs.h, interface_destroy.h) *)
From Yk Require Export ScanDefs.
Local Open Scope N_scope.

Record sys := {
  sy_ctr : N;                         (* next allocation id *)
  sy_outer : tree;                    (* storage::storages_ : name -> tree_instance (by value) *)
  sy_trees : list (N * tree);         (* storage id -> user tree *)
}.

Definition sys_init : sys := {| sy_ctr := 1; sy_outer := null_tree; sy_trees := [] |}.

Fixpoint trees_get (ts : list (N * tree)) (sid : N) : option tree :=
  match ts with
  | [] => None
  | (i, t) :: r => if N.eqb i sid then Some t else trees_get r sid
  end.
Fixpoint trees_set (ts : list (N * tree)) (sid : N) (t : tree) : list (N * tree) :=
  match ts with
  | [] => [(sid, t)]
  | (i, u) :: r => if N.eqb i sid then (i, t) :: r else (i, u) :: trees_set r sid t
  end.
Fixpoint trees_del (ts : list (N * tree)) (sid : N) : list (N * tree) :=
  match ts with
  | [] => []
  | (i, u) :: r => if N.eqb i sid then r else (i, u) :: trees_del r sid
  end.

(** the value stored in the outer tree for a storage: the tree_instance object
    (64 bytes, alignment 64); the model keeps the storage id in it *)
Definition storage_value (vid sid : N) : value :=
  {| v_id := vid; v_bytes := [sid]; v_align := 64; v_inline := false |}.
Definition sid_of_value (v : value) : N :=
  match v_bytes v with [x] => x | _ => 0 end.

(** storage::find_storage *)
Definition find_storage (s : sys) (name : key) : option (option N) :=
  match get (sy_outer s) name with
  | None => None
  | Some o => match go_status o, go_value o with
              | St_OK, Some v => Some (Some (sid_of_value v))
              | _, _ => Some None
              end
  end.

Inductive op :=
| OCreate (name : key)
| ODropStorage (name : key)
| OFind (name : key)
| OList
| OPut (name k : key) (bytes : list N) (align : N) (unique inline : bool)
| OGet (name k : key)
| ORemove (name k : key)
| OScan (name : key) (a : scan_args)
| ODestroy.

Inductive out :=
| RStatus (s : status)
| RPut (o : put_out)
| RGet (o : get_out)
| RRemove (o : rem_out)
| RScan (o : scan_out)
| RList (s : status) (names : list key)
| RStuck.                       (* the model cannot make the step (never on a well-formed state) *)

Definition mk_value (id : N) (bytes : list N) (align : N) (inline : bool) : value :=
  {| v_id := (if inline then 0 else id); v_bytes := bytes;
     v_align := (if align <? 8 then 8 else align); v_inline := inline |}.

Definition exec (s : sys) (o : op) : sys * out :=
  match o with
  | OCreate name =>
    (* new border first, then the tree_instance value, then unique put into the outer tree *)
    let bid := sy_ctr s in
    let v := storage_value (bid + 1) bid in
    match put (sy_outer s) name v true (bid + 2) with
    | None => (s, RStuck)
    | Some (outer', po, ctr') =>
      match po_status po with
      | St_OK => ({| sy_ctr := ctr'; sy_outer := outer';
                     sy_trees := trees_set (sy_trees s) bid (empty_tree bid) |}, RStatus St_OK)
      | st => ({| sy_ctr := ctr'; sy_outer := outer'; sy_trees := sy_trees s |}, RStatus st)
      end
    end
  | ODropStorage name =>
    match find_storage s name with
    | None => (s, RStuck)
    | Some None => (s, RStatus St_WARN_NOT_EXIST)
    | Some (Some sid) =>
      match remove (sy_outer s) name with
      | None => (s, RStuck)
      | Some (outer', ro) =>
        match ro_status ro with
        | St_OK => ({| sy_ctr := sy_ctr s; sy_outer := outer'; sy_trees := trees_del (sy_trees s) sid |},
                    RStatus St_OK)
        | _ => ({| sy_ctr := sy_ctr s; sy_outer := outer'; sy_trees := sy_trees s |},
                RStatus St_WARN_CONCURRENT_OPERATIONS)
        end
      end
    end
  | OFind name =>
    match find_storage s name with
    | None => (s, RStuck)
    | Some None => (s, RStatus St_WARN_NOT_EXIST)
    | Some (Some _) => (s, RStatus St_OK)
    end
  | OList =>
    match scan (sy_outer s) {| sa_l := []; sa_le := EP_INF; sa_r := []; sa_re := EP_INF; sa_max := 0;
                               sa_rtl := false; sa_lnull := false; sa_rnull := false |} with
    | None => (s, RStuck)
    | Some so =>
      match so_tuples so with
      | [] => (s, RList St_WARN_NOT_EXIST [])
      | ts => (s, RList St_OK (map fst ts))
      end
    end
  | OPut name k bytes align unique inline =>
    match find_storage s name with
    | None => (s, RStuck)
    | Some None => (s, RStatus St_WARN_STORAGE_NOT_EXIST)
    | Some (Some sid) =>
      match trees_get (sy_trees s) sid with
      | None => (s, RStuck)
      | Some tr =>
        let v := mk_value (sy_ctr s) bytes align inline in
        match put tr k v unique (sy_ctr s + 1) with
        | None => (s, RStuck)
        | Some (tr', po, ctr') =>
          ({| sy_ctr := ctr'; sy_outer := sy_outer s; sy_trees := trees_set (sy_trees s) sid tr' |}, RPut po)
        end
      end
    end
  | OGet name k =>
    match find_storage s name with
    | None => (s, RStuck)
    | Some None => (s, RStatus St_WARN_STORAGE_NOT_EXIST)
    | Some (Some sid) =>
      match trees_get (sy_trees s) sid with
      | None => (s, RStuck)
      | Some tr => match get tr k with None => (s, RStuck) | Some g => (s, RGet g) end
      end
    end
  | ORemove name k =>
    match find_storage s name with
    | None => (s, RStuck)
    | Some None => (s, RStatus St_WARN_STORAGE_NOT_EXIST)
    | Some (Some sid) =>
      match trees_get (sy_trees s) sid with
      | None => (s, RStuck)
      | Some tr =>
        match remove tr k with
        | None => (s, RStuck)
        | Some (tr', ro) =>
          ({| sy_ctr := sy_ctr s; sy_outer := sy_outer s; sy_trees := trees_set (sy_trees s) sid tr' |},
           RRemove ro)
        end
      end
    end
  | OScan name a =>
    match find_storage s name with
    | None => (s, RStuck)
    | Some None => (s, RStatus St_WARN_STORAGE_NOT_EXIST)
    | Some (Some sid) =>
      match trees_get (sy_trees s) sid with
      | None => (s, RStuck)
      | Some tr => match scan tr a with None => (s, RStuck) | Some so => (s, RScan so) end
      end
    end
  | ODestroy =>
    if t_null (sy_outer s) then (s, RStatus St_OK_ROOT_IS_NULL)
    else ({| sy_ctr := sy_ctr s; sy_outer := null_tree; sy_trees := [] |}, RStatus St_OK_DESTROY_ALL)
  end.

Fixpoint exec_all (s : sys) (ops : list op) : sys * list out :=
  match ops with
  | [] => (s, [])
  | o :: r => let '(s1, x) := exec s o in let '(s2, xs) := exec_all s1 r in (s2, x :: xs)
  end.
