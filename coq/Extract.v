(** Extraction of the executable model (ExtrOcamlBasic only: bool, option,
    list, prod, unit, sumbool mapped to OCaml's; N/positive/nat stay the
    extracted datatypes; no Extract Constant). *)
From Coq Require Import Extraction ExtrOcamlBasic.
From Yk Require Import ListAux Word64 PermDefs VersionDefs KeyDefs ValueDefs TreeDefs ScanDefs SysDefs SpecDefs MemDefs IScanDefs EpochDefs SessionDefs LinDefs BorderDefs ChainDefs ChainLimDefs.
Extraction Language OCaml.
Extraction "ykmodel.ml"
  N.add N.mul N.div_eucl N.eqb N.ltb N.leb N.of_nat N.to_nat
  insert_at remove_at
  get_cnk get_index_of_rank get_lowest_key_pos insert_rank delete_rank get_empty_slot
  split_dest set_cnk perm_list perm_validb insert_rank_shifts delete_rank_shifts
  decode_version set_locked set_inserting_deleting set_splitting set_deleted set_root set_border
  inc_vinsert_delete inc_vsplit unlock try_lock is_stable version_init ver_write_ok get_locked
  kt_lt kt_gt kt_le kt_ge kt_eq lookup_probe rank_probe route_probe iins_probe bsplit_left
  delete_match canon_lt kt_wf tuple_of_key lex_lt
  create_value_block vb_body_offset vb_get_len vb_gc_size vb_gc_align
  tag_value_ptr remove_ptr_flag is_value_ptr lv_get_next_layer lv_get_value lv_init value_is_inline
  leaf_ranked bt_leaves bt_id bt_ver layer_get path_of_key bytes_of_slice
  put get remove scan empty_tree null_tree
  sys_init exec exec_all trees_get find_storage spec_init spec_exec abs_out
  EpochDefs.step EpochDefs.run EpochDefs.init_st safe_obj has_left
  sstep srun sinit owns holds
  mem_usage shape_stats iscan_all iscan_open iscan_next full_key
  lin_check run_seq respects_rt
  bstep brun binit pending_result
  cstep crun cinit idle_scan cover all_keys find_node mem live first_live after before
  lstep lrun linit idle_lscan.
