(** * SysScanProofs: the whole sequential system refines the map-of-maps specification
    for EVERY operation sequence, including [OScan] and [OList].

    [SysProofs.v] proves the refinement for scan-free sequences through the invariant
    [SysInv]; [ScanProofs.v] proves the scan refinement on one store under [WF_store] and
    [scan_inv].  Here the two are put together:

    A. [ScanInv s]: [scan_inv] of the outer tree and of every entry of the table of user
       trees; [SysInv2 s p := SysInv s p /\ ScanInv s]; every [exec] step preserves it
       ([exec_ScanInv]).
    B. [step_scan], [step_list]: the two remaining operations satisfy [step_ok].
    C. [step_refines2], [exec_all_refines2], and the theorems [sys_refines_spec_all],
       [reachable_inv2], [sys_scan_exact], [sys_list_exact].
    D. [SysScanExample]: a concrete history (two storages, 20 puts forcing a border split,
       a remove, bounded / right-to-left / bad-usage / unknown-storage scans, list, destroy). *)
From Coq Require Import ZArith NArith PeanoNat Lia ZifyBool ZifyN Bool List Sorted.
From Yk Require Import ListAux KeyDefs KeyProofs TreeDefs ScanDefs SysDefs SpecDefs StoreProofs SysProofs ScanProofs.
Import ListNotations.
Local Open Scope N_scope.

(** ** A. the scan invariant of the whole system *)

(** Every entry of the table (also a shadowed one: [trees_del] removes the first entry of an id only,
    so a pointwise statement through [trees_get] would not be preserved without a no-duplicates
    side condition). *)
Definition trees_inv (ts : list (N * tree)) : Prop := Forall (fun x => scan_inv (snd x)) ts.

Lemma trees_inv_get ts sid tr : trees_inv ts -> trees_get ts sid = Some tr -> scan_inv tr.
Proof.
  induction ts as [|[i t] ts IH]; intros H G; cbn [trees_get] in G; [discriminate|].
  apply Forall_cons_iff in H. destruct H as [H1 H2]. cbn [snd] in H1.
  destruct (N.eqb i sid); [injection G as <-; exact H1|exact (IH H2 G)].
Qed.

Lemma trees_inv_set ts sid tr : trees_inv ts -> scan_inv tr -> trees_inv (trees_set ts sid tr).
Proof.
  intros H Hi. induction ts as [|[i t] ts IH]; cbn [trees_set].
  - constructor; [exact Hi|constructor].
  - apply Forall_cons_iff in H. destruct H as [H1 H2].
    destruct (N.eqb i sid).
    + constructor; [exact Hi|exact H2].
    + constructor; [exact H1|exact (IH H2)].
Qed.

Lemma trees_inv_del ts sid : trees_inv ts -> trees_inv (trees_del ts sid).
Proof.
  intros H. induction ts as [|[i t] ts IH]; cbn [trees_del]; [exact H|].
  apply Forall_cons_iff in H. destruct H as [H1 H2].
  destruct (N.eqb i sid); [exact H2|]. constructor; [exact H1|exact (IH H2)].
Qed.

Definition ScanInv (s : sys) : Prop := scan_inv (sy_outer s) /\ trees_inv (sy_trees s).

Definition SysInv2 (s : sys) (p : spec_state) : Prop := SysInv s p /\ ScanInv s.

(** the formulation through [trees_get] follows *)
Lemma SysInv2_get s p : SysInv2 s p ->
  SysInv s p /\ scan_inv (sy_outer s) /\ (forall sid tr, trees_get (sy_trees s) sid = Some tr -> scan_inv tr).
Proof.
  intros [I [Ho Ht]]. split; [exact I|]. split; [exact Ho|].
  intros sid tr G. exact (trees_inv_get _ _ _ Ht G).
Qed.

Lemma ScanInv_init : ScanInv sys_init.
Proof. split; [exact scan_inv_null|constructor]. Qed.

Theorem SysInv2_init : SysInv2 sys_init spec_init.
Proof. split; [exact SysInv_init|exact ScanInv_init]. Qed.

(** every step preserves the scan invariant *)
Lemma exec_ScanInv s p o : SysInv s p -> op_bytes o -> ScanInv s -> ScanInv (fst (exec s o)).
Proof.
  intros I Hb S. pose proof S as [Ho Ht].
  destruct o as [n|n|n| |n k bs al u il|n k|n k|n a| ]; cbn [op_bytes] in Hb; unfold exec; cbv zeta.
  - (* OCreate *)
    destruct (put (sy_outer s) n (storage_value (sy_ctr s + 1) (sy_ctr s)) true (sy_ctr s + 2))
      as [[[outer' po] ctr']|] eqn:E; [|exact S].
    assert (scan_inv outer') as Ho'.
    { eapply put_scan_inv; [|exact Hb|exact E|exact Ho].
      apply (WF_store_mono _ _ _ (si_outer _ _ I)). lia. }
    destruct (po_status po); cbn [fst]; (split; cbn [sy_outer sy_trees]; [exact Ho'|]);
      first [exact Ht|apply trees_inv_set; [exact Ht|apply scan_inv_empty]].
  - (* ODropStorage *)
    destruct (find_storage s n) as [[sid|]|]; try exact S.
    destruct (remove (sy_outer s) n) as [[outer' ro]|] eqn:E; [|exact S].
    pose proof (remove_scan_inv _ _ _ _ E Ho) as Ho'.
    destruct (ro_status ro); cbn [fst]; (split; cbn [sy_outer sy_trees]; [exact Ho'|]);
      first [exact Ht|apply trees_inv_del; exact Ht].
  - (* OFind *)
    destruct (find_storage s n) as [[sid|]|]; exact S.
  - (* OList *)
    match goal with |- context [scan ?t ?a] => destruct (scan t a) as [so|] end; [|exact S].
    destruct (so_tuples so); exact S.
  - (* OPut *)
    destruct Hb as [Hn Hk]. pose proof (find_storage_spec s p n I Hn) as F.
    destruct (ssys_get (sp_map p) n) as [m|].
    + destruct F as (sid & tr & F & _ & _ & G & W & _). rewrite F, G.
      destruct (put tr k (mk_value (sy_ctr s) bs al il) u (sy_ctr s + 1)) as [[[tr' po] c']|] eqn:E; [|exact S].
      cbn [fst]. split; cbn [sy_outer sy_trees]; [exact Ho|]. apply trees_inv_set; [exact Ht|].
      eapply put_scan_inv; [|exact Hk|exact E|exact (trees_inv_get _ _ _ Ht G)].
      apply (WF_store_mono _ _ _ W). lia.
    + rewrite F. exact S.
  - (* OGet *)
    destruct (find_storage s n) as [[sid|]|]; try exact S.
    destruct (trees_get (sy_trees s) sid) as [tr|]; [|exact S].
    destruct (get tr k); exact S.
  - (* ORemove *)
    destruct (find_storage s n) as [[sid|]|]; try exact S.
    destruct (trees_get (sy_trees s) sid) as [tr|] eqn:G; [|exact S].
    destruct (remove tr k) as [[tr' ro]|] eqn:E; [|exact S].
    cbn [fst]. split; cbn [sy_outer sy_trees]; [exact Ho|]. apply trees_inv_set; [exact Ht|].
    exact (remove_scan_inv _ _ _ _ E (trees_inv_get _ _ _ Ht G)).
  - (* OScan *)
    destruct (find_storage s n) as [[sid|]|]; try exact S.
    destruct (trees_get (sy_trees s) sid) as [tr|]; [|exact S].
    destruct (scan tr a); exact S.
  - (* ODestroy *)
    destruct (t_null (sy_outer s)); [exact S|]. cbn [fst]. split; [exact scan_inv_null|constructor].
Qed.

(** ** B. the two scanning operations *)

Lemma step_scan s p n a : SysInv2 s p -> bytes n -> bytes (sa_l a) -> bytes (sa_r a) ->
  step_ok s p (OScan n a).
Proof.
  intros [I [Ho Ht]] Hb Hl Hr. unfold step_ok, exec, spec_exec. cbv zeta.
  pose proof (find_storage_spec s p n I Hb) as F.
  destruct (ssys_get (sp_map p) n) as [m|].
  - destruct F as (sid & tr & F & _ & _ & G & W & N & A). rewrite F, G. subst m.
    destruct (scan_refines_inv _ tr a W (trees_inv_get _ _ _ Ht G) N Hl Hr) as (o & E & R).
    rewrite E. destruct (spec_scan_args_ok a).
    + destruct R as [R1 R2]. split; [cbn [abs_out]; rewrite R1, R2; reflexivity|exact I].
    + destruct R as [R1 R2]. split; [cbn [abs_out]; rewrite R1, R2; reflexivity|exact I].
  - rewrite F. split; [reflexivity|exact I].
Qed.

(** the argument record of the scan behind [list_storage] *)
Definition all_args : scan_args :=
  {| sa_l := []; sa_le := EP_INF; sa_r := []; sa_re := EP_INF; sa_max := 0%nat; sa_rtl := false;
     sa_lnull := false; sa_rnull := false |}.

Lemma spec_scan_list_all m : spec_scan_list m all_args = m.
Proof.
  unfold spec_scan_list, all_args. cbn [sa_l sa_le sa_r sa_re sa_max sa_rtl Nat.eqb in_left in_right andb].
  induction m as [|x m IH]; [reflexivity|]. cbn [filter]. rewrite IH. reflexivity.
Qed.

Lemma step_list s p : SysInv2 s p -> step_ok s p OList.
Proof.
  intros [I [Ho Ht]]. unfold step_ok, exec, spec_exec. cbv zeta.
  destruct (scan_refines_all _ _ all_args (si_outer _ _ I) Ho) as (o & E & R); [constructor|constructor|].
  change (spec_scan_args_ok all_args) with true in R. cbv iota in R. destruct R as [_ R].
  rewrite spec_scan_list_all in R. unfold all_args in E. rewrite E.
  assert (map fst (so_tuples o) = map fst (sp_map p)) as Hn.
  { rewrite <- (SysInv_names s p I), <- R, map_map. reflexivity. }
  revert Hn. destruct (so_tuples o) as [|t ts]; destruct (sp_map p) as [|q qs]; intros Hn; try discriminate Hn.
  - split; [reflexivity|exact I].
  - split; [cbn [abs_out]; rewrite Hn; reflexivity|exact I].
Qed.

(** ** C. every operation, every sequence *)
Definition step_ok2 (s : sys) (p : spec_state) (o : op) : Prop :=
  let (s', x) := exec s o in
  let (p', y) := spec_exec p o in
  abs_out x = y /\ SysInv2 s' p'.

Theorem step_refines_all s p o : SysInv2 s p -> op_bytes o -> step_ok s p o.
Proof.
  intros I2 Hb. destruct (noscan o) eqn:Hn; [apply step_refines; [exact (proj1 I2)|exact Hb|exact Hn]|].
  destruct o as [n|n|n| |n k bs al u il|n k|n k|n a| ]; try discriminate Hn.
  - apply step_list. exact I2.
  - cbn [op_bytes] in Hb. destruct Hb as (H1 & H2 & H3). apply step_scan; assumption.
Qed.

Theorem step_refines2 s p o : SysInv2 s p -> op_bytes o -> step_ok2 s p o.
Proof.
  intros I2 Hb. pose proof (step_refines_all s p o I2 Hb) as K. destruct I2 as [I S].
  pose proof (exec_ScanInv s p o I Hb S) as S'.
  unfold step_ok in K. unfold step_ok2. destruct (exec s o) as [s' x]. destruct (spec_exec p o) as [p' y].
  cbn [fst] in S'. destruct K as [K1 K2]. split; [exact K1|]. split; assumption.
Qed.

Lemma step_ok_out s p o : step_ok s p o -> abs_out (snd (exec s o)) = snd (spec_exec p o).
Proof. unfold step_ok. destruct (exec s o), (spec_exec p o). intros [H _]. exact H. Qed.

(** the scanning operations do not change the state *)
Lemma exec_scan_state s n a : fst (exec s (OScan n a)) = s.
Proof.
  unfold exec. destruct (find_storage s n) as [[sid|]|]; try reflexivity.
  destruct (trees_get (sy_trees s) sid) as [tr|]; [|reflexivity]. destruct (scan tr a); reflexivity.
Qed.

Lemma exec_list_state s : fst (exec s OList) = s.
Proof.
  unfold exec. match goal with |- context [scan ?t ?a] => destruct (scan t a) as [so|] end; [|reflexivity].
  destruct (so_tuples so); reflexivity.
Qed.

Lemma exec_all_refines2 : forall ops s p, SysInv2 s p -> Forall op_bytes ops ->
  map abs_out (snd (exec_all s ops)) = snd (spec_exec_all p ops) /\
  SysInv2 (fst (exec_all s ops)) (fst (spec_exec_all p ops)).
Proof.
  induction ops as [|o ops IH]; intros s p I Hb; cbn [exec_all spec_exec_all].
  - split; [reflexivity|exact I].
  - apply Forall_cons_iff in Hb. destruct Hb as [Hb1 Hb].
    pose proof (step_refines2 s p o I Hb1) as S. unfold step_ok2 in S.
    destruct (exec s o) as [s1 x]. destruct (spec_exec p o) as [p1 y]. destruct S as [S1 S2].
    specialize (IH s1 p1 S2 Hb).
    destruct (exec_all s1 ops) as [s2 xs]. destruct (spec_exec_all p1 ops) as [p2 ys].
    cbn [fst snd map] in *. destruct IH as [IH1 IH2]. split; [|exact IH2].
    rewrite S1, IH1. reflexivity.
Qed.

Theorem sys_refines_spec_all : forall ops, Forall op_bytes ops ->
  map abs_out (snd (exec_all sys_init ops)) = snd (spec_exec_all spec_init ops).
Proof. intros ops Hb. exact (proj1 (exec_all_refines2 ops _ _ SysInv2_init Hb)). Qed.

Theorem reachable_inv2 : forall ops, Forall op_bytes ops ->
  SysInv2 (fst (exec_all sys_init ops)) (fst (spec_exec_all spec_init ops)).
Proof. intros ops Hb. exact (proj2 (exec_all_refines2 ops _ _ SysInv2_init Hb)). Qed.

(** one scan after any history: status and tuples are those of the interval filter of the storage's map *)
Theorem sys_scan_exact : forall ops n a, Forall op_bytes ops -> op_bytes (OScan n a) ->
  abs_out (snd (exec (fst (exec_all sys_init ops)) (OScan n a))) =
  snd (spec_exec (fst (spec_exec_all spec_init ops)) (OScan n a)).
Proof.
  intros ops n a Hb Ho. apply step_ok_out. apply step_refines_all; [apply reachable_inv2; exact Hb|exact Ho].
Qed.

(** the same, spelled out against the specification's state *)
Corollary sys_scan_tuples : forall ops n a m, Forall op_bytes ops -> op_bytes (OScan n a) ->
  ssys_get (sp_map (fst (spec_exec_all spec_init ops))) n = Some m ->
  abs_out (snd (exec (fst (exec_all sys_init ops)) (OScan n a))) =
  if spec_scan_args_ok a then AScan St_OK (spec_scan_list m a) else AScan St_ERR_BAD_USAGE [].
Proof.
  intros ops n a m Hb Ho G. rewrite (sys_scan_exact ops n a Hb Ho). unfold spec_exec. cbv zeta.
  rewrite G. destruct (spec_scan_args_ok a); reflexivity.
Qed.

Theorem sys_list_exact : forall ops, Forall op_bytes ops ->
  abs_out (snd (exec (fst (exec_all sys_init ops)) OList)) =
  snd (spec_exec (fst (spec_exec_all spec_init ops)) OList).
Proof.
  intros ops Hb. apply step_ok_out. apply step_refines_all; [apply reachable_inv2; exact Hb|exact I].
Qed.

(** ** D. sanity: a concrete history *)
Module SysScanExample.
  Definition keyb (k : key) : bool := forallb (fun b => b <? 256) k.
  Definition op_bytesb (o : op) : bool :=
    match o with
    | OCreate n | ODropStorage n | OFind n => keyb n
    | OPut n k _ _ _ _ | OGet n k | ORemove n k => keyb n && keyb k
    | OScan n a => keyb n && keyb (sa_l a) && keyb (sa_r a)
    | OList | ODestroy => true
    end.
  Lemma op_bytesb_sound o : op_bytesb o = true -> op_bytes o.
  Proof.
    destruct o as [n|n|n| |n k bs al u il|n k|n k|n a| ]; cbn [op_bytesb op_bytes]; intros H;
      try exact I; try (apply StoreExample.bytesb_sound; exact H).
    - apply andb_true_iff in H. destruct H as [H1 H2]. split; apply StoreExample.bytesb_sound; assumption.
    - apply andb_true_iff in H. destruct H as [H1 H2]. split; apply StoreExample.bytesb_sound; assumption.
    - apply andb_true_iff in H. destruct H as [H1 H2]. split; apply StoreExample.bytesb_sound; assumption.
    - apply andb_true_iff in H. destruct H as [H H3]. apply andb_true_iff in H. destruct H as [H1 H2].
      split; [|split]; apply StoreExample.bytesb_sound; assumption.
  Qed.
  Lemma ops_bytesb_sound ops : forallb op_bytesb ops = true -> Forall op_bytes ops.
  Proof.
    intros H. apply Forall_forall. intros o Ho. apply op_bytesb_sound.
    rewrite forallb_forall in H. exact (H o Ho).
  Qed.

  Definition st : key := [115; 116].                 (* the storage "st" *)
  Definition st2 : key := [97].                      (* the storage "a" *)
  Definition kk (i : nat) : key := [N.of_nat i; 1].
  Definition sargs (l : key) (le : endpoint) (r : key) (re : endpoint) (mx : nat) (rtl : bool) : scan_args :=
    {| sa_l := l; sa_le := le; sa_r := r; sa_re := re; sa_max := mx; sa_rtl := rtl;
       sa_lnull := false; sa_rnull := false |}.

  Definition ex_prefix : list op :=
    [OList; OCreate st; OCreate st2; OCreate st]
    ++ map (fun i => OPut st (kk i) [N.of_nat i] 8 false false) (seq 1 20)
    ++ [OPut st2 [9] [9; 9] 8 true true; ORemove st (kk 5)].
  Definition ex_suffix : list op :=
    [OScan st (sargs (kk 3) EP_INCL (kk 8) EP_EXCL 0 false);   (* [3,8) *)
     OScan st (sargs (kk 16) EP_EXCL [] EP_INF 2 false);       (* (16, inf), at most 2 *)
     OScan st (sargs [] EP_INF [] EP_INF 1 true);              (* the greatest *)
     OScan st (sargs (kk 8) EP_INCL (kk 3) EP_INCL 0 false);   (* empty range: bad usage *)
     OScan st2 (sargs [] EP_INF [] EP_INF 0 false);
     OScan [98] (sargs [] EP_INF [] EP_INF 0 false);           (* unknown storage *)
     OList; ODropStorage st2; OList; ODestroy; OList].
  Definition ex_ops : list op := ex_prefix ++ ex_suffix.

  Example ex_ops_bytes : Forall op_bytes ex_ops.
  Proof. apply ops_bytesb_sound. vm_compute. reflexivity. Qed.

  (** the theorem applies ... *)
  Example ex_refines : map abs_out (snd (exec_all sys_init ex_ops)) = snd (spec_exec_all spec_init ex_ops).
  Proof. exact (sys_refines_spec_all ex_ops ex_ops_bytes). Qed.

  (** ... and both sides compute to this list (the 11 results of [ex_suffix]) *)
  Definition av (bs : list N) (il : bool) : aval := {| av_bytes := bs; av_inline := il |}.
  Definition ex_expected : list aout :=
    [AScan St_OK [(kk 3, av [3] false); (kk 4, av [4] false); (kk 6, av [6] false); (kk 7, av [7] false)];
     AScan St_OK [(kk 17, av [17] false); (kk 18, av [18] false)];
     AScan St_OK [(kk 20, av [20] false)];
     AScan St_ERR_BAD_USAGE [];
     AScan St_OK [([9], av [9; 9] true)];
     AStatus St_WARN_STORAGE_NOT_EXIST;
     AList St_OK [st2; st]; AStatus St_OK; AList St_OK [st]; AStatus St_OK_DESTROY_ALL;
     AList St_WARN_NOT_EXIST []].

  Example ex_impl_side : skipn (length ex_prefix) (map abs_out (snd (exec_all sys_init ex_ops))) = ex_expected.
  Proof. vm_compute. reflexivity. Qed.
  Example ex_spec_side : skipn (length ex_prefix) (snd (spec_exec_all spec_init ex_ops)) = ex_expected.
  Proof. vm_compute. reflexivity. Qed.
  Example ex_prefix_results :
    firstn 5 (map abs_out (snd (exec_all sys_init ex_ops))) =
    [AList St_WARN_NOT_EXIST []; AStatus St_OK; AStatus St_OK; AStatus St_WARN_UNIQUE_RESTRICTION; APut St_OK].
  Proof. vm_compute. reflexivity. Qed.

  (** the state the scans run on: two user trees (ids 1 and 4); layer 0 of the first one consists of
      two borders (the 16th put split it) *)
  Example ex_shape :
    let s := fst (exec_all sys_init ex_prefix) in
    (map fst (sy_trees s),
     map (fun x => map (fun l => length (bt_leaves (snd l))) (t_layers (snd x))) (sy_trees s)) =
    ([1; 4], [[2%nat]; [1%nat]]).
  Proof. vm_compute. reflexivity. Qed.

  (** [sys_scan_exact] on the same history *)
  Example ex_scan_exact :
    abs_out (snd (exec (fst (exec_all sys_init ex_prefix)) (OScan st (sargs (kk 3) EP_INCL (kk 8) EP_EXCL 0 false)))) =
    AScan St_OK [(kk 3, av [3] false); (kk 4, av [4] false); (kk 6, av [6] false); (kk 7, av [7] false)].
  Proof.
    rewrite sys_scan_exact; [vm_compute; reflexivity| |].
    - apply ops_bytesb_sound. vm_compute. reflexivity.
    - apply op_bytesb_sound. vm_compute. reflexivity.
  Qed.
End SysScanExample.

(** ** axiom audit *)
Print Assumptions SysInv2_init.
Print Assumptions step_refines_all.
Print Assumptions step_refines2.
Print Assumptions sys_refines_spec_all.
Print Assumptions reachable_inv2.
Print Assumptions sys_scan_exact.
Print Assumptions sys_scan_tuples.
Print Assumptions sys_list_exact.
Print Assumptions SysScanExample.ex_refines.
Print Assumptions SysScanExample.ex_impl_side.
Print Assumptions SysScanExample.ex_spec_side.
Print Assumptions SysScanExample.ex_scan_exact.
