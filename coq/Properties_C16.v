(** * C16 -- init/fin cycles are repeatable *)
From Coq Require Import List Bool.
From Yk Require Import LifecycleDefs LifecycleProofs.
Import ListNotations.

Theorem C16_threads_alive_while_running : forall tr s,
  lrun true lc_init tr = Some s -> running s = true -> ep_alive s = true /\ gc_alive s = true.
Proof. exact threads_alive_while_running. Qed.
Print Assumptions C16_threads_alive_while_running.

Theorem C16_iteration_enabled_while_running : forall tr s,
  lrun true lc_init tr = Some s -> running s = true ->
  exists s1 s2, lstep true s LEpochIter = Some s1 /\ ep_iters s1 = S (ep_iters s) /\ ep_alive s1 = true /\
                lstep true s LGcIter = Some s2 /\ gc_iters s2 = S (gc_iters s) /\ gc_alive s2 = true.
Proof. exact iteration_enabled_while_running. Qed.
Print Assumptions C16_iteration_enabled_while_running.

Theorem C16_fresh_after_fin : forall tr s s1 s2,
  lrun true lc_init tr = Some s -> lstep true s LFin = Some s1 -> lstep true s1 LInit = Some s2 ->
  storages s2 = 0 /\ slots_busy s2 = 0 /\ running s2 = true /\ ep_iters s2 = 0.
Proof. exact fresh_after_fin. Qed.
Print Assumptions C16_fresh_after_fin.

Theorem C16_destroy_leaves_usable : forall tr s s1,
  lrun true lc_init tr = Some s -> lstep true s LDestroy = Some s1 ->
  storages s1 = 0 /\ running s1 = running s /\ ep_alive s1 = ep_alive s /\ gc_alive s1 = gc_alive s.
Proof. exact destroy_leaves_usable. Qed.
Print Assumptions C16_destroy_leaves_usable.

Theorem C16_original_init_refuted :
  exists tr s, lrun false lc_init tr = Some s /\ running s = true /\ ep_alive s = false /\ ep_iters s = 1.
Proof. exact original_init_refuted. Qed.
Print Assumptions C16_original_init_refuted.

Example C16_nonvacuous :
  exists s, lrun true lc_init [LInit; LCreate; LEnter; LEpochIter; LGcIter; LFin; LInit; LEpochIter; LEpochIter; LEnter] = Some s
            /\ running s = true /\ ep_iters s = 2 /\ slots_busy s = 1 /\ storages s = 0.
Proof. eexists. split; [vm_compute; reflexivity|]. cbn. auto. Qed.
