(** * EpochProofs: safety of epoch-based reclamation for the repaired enter
    protocol ([no_early_free]) and refutation of the original one. *)
From Coq Require Import Lia ZifyBool ZifyN.
From Yk Require Import EpochDefs.
Local Open Scope N_scope.

(** ** [upd] *)
Lemma upd_same {A} (f : nat -> A) i v : upd f i v i = v.
Proof. unfold upd. now rewrite Nat.eqb_refl. Qed.

Lemma upd_other {A} (f : nat -> A) i v j : j <> i -> upd f i v j = f j.
Proof. unfold upd. intros H. destruct (Nat.eqb_spec j i); congruence. Qed.

(** ** the original protocol is unsafe *)
Definition bad_trace : list ev :=
  [Claim 0; RdE 0; EStart; EVer; EVer; EIncr; EMinStep; EMinStep; EPublish;
   EStart; EVer; EVer; EIncr; EMinStep; EMinStep; PubB 0; Confirm 0;
   Retire 0 0 0; EPublish; GStart; GCacheStep; GLoopStep]%nat.

Theorem original_enter_refuted :
  exists tr s, run false 1 init_st tr = Some s /\ safe_obj s 0 = false.
Proof.
  exists bad_trace.
  destruct (run false 1 init_st bad_trace) as [s|] eqn:H.
  - exists s. split; [reflexivity|].
    revert H. vm_compute. intros [= <-]. reflexivity.
  - exfalso. revert H. vm_compute. discriminate.
Qed.

(** ** per-slot view of [has_left] *)
Definition gone (sl : slot) (k : nat) : bool :=
  negb (Nat.eqb (sinst sl) k) || match ss sl with SLeft1 | SFree => true | _ => false end.

Lemma has_left_gone s x : has_left s x = gone (slots s (fst x)) (snd x).
Proof. reflexivity. Qed.

(** a recorded instance [k] of a slot is either an old one, or the current one
    and then the session has been confirmed active *)
Definition pok (sl : slot) (k : nat) : Prop :=
  (k < sinst sl)%nat \/
  (k = sinst sl /\ (ss sl = SActive \/ ss sl = SLeft1 \/ ss sl = SFree)).

Lemma pok_not_gone sl k : pok sl k -> gone sl k = false -> ss sl = SActive /\ sinst sl = k.
Proof.
  unfold pok, gone. intros [H|[-> H]] G.
  - destruct (Nat.eqb_spec (sinst sl) k); [lia|discriminate].
  - rewrite Nat.eqb_refl in G. cbn [negb orb] in G.
    destruct H as [H|[H|H]]; rewrite H in G; try discriminate. auto.
Qed.

(** what a slot transition must satisfy w.r.t. recorded instances *)
Definition slot_tr (a b : slot) : Prop :=
  forall k, pok a k ->
    pok b k /\ (gone a k = true -> gone b k = true) /\
    (gone b k = false -> sbegin b = sbegin a).

(** ** the invariant, object part *)
Definition contl (q : nat -> list (N * nat)) (ca : nat -> option (N * nat)) (c : nat)
  : list (N * nat) :=
  match ca c with Some x => [x] | None => [] end ++ q c.

Record InvB (sl : nat -> slot) (ct : nat -> list (N * nat)) (os : nat -> ostatus)
       (pr : nat -> list sess) : Prop := {
  cont_ok : forall c t o, In (t, o) (ct c) ->
      os o = Retired /\
      forall i k, In (i, k) (pr o) -> gone (sl i) k = false -> sbegin (sl i) <= t + 1;
  cont_nodup : forall c, NoDup (map snd (ct c));
  cont_disj : forall c c' o, c <> c' -> In o (map snd (ct c)) -> In o (map snd (ct c')) -> False;
  prot_ok : forall o i k, In (i, k) (pr o) -> pok (sl i) k;
  freed_ok : forall o, os o = Freed -> forall i k, In (i, k) (pr o) -> gone (sl i) k = true;
  nodf : forall o, os o <> DoubleFreed }.

(** ** the invariant, epoch part *)
Definition slot_inv (n : nat) (E : N) (i : nat) (x : slot) : Prop :=
  sbegin x <= E /\ (ss x <> SFree -> (i < n)%nat) /\
  match ss x with
  | SFree | SLeft1 => sbegin x = 0
  | SClaimed => True
  | SRead e => e <= E
  | SPub e => sbegin x = e
  | SActive => E <= sbegin x + 1 /\ 1 <= sbegin x
  end.

(** a gc-epoch value that has been computed (published or not, or already
    loaded by the gc thread) is below the begin epoch of every active session *)
Definition inflight (E : N) (sl : nat -> slot) (v : N) : Prop :=
  v < E /\ forall i, ss (sl i) = SActive -> v < sbegin (sl i).

Definition pv (E : N) (m : option N) : N := match m with Some x => x | None => E end.

Definition ept_inv (E : N) (sl : nat -> slot) (ep : epc) : Prop :=
  match ep with
  | ESleep => True
  | EVerify cur j =>
      cur = E /\ forall i, (i < j)%nat -> ss (sl i) = SActive -> sbegin (sl i) = E
  | EInc => forall i, ss (sl i) = SActive -> sbegin (sl i) = E
  | EMin j m =>
      (1 <= pv E m /\ pv E m <= E) /\
      forall i, (i < j)%nat -> ss (sl i) = SActive -> pv E m <= sbegin (sl i)
  | EPub v => inflight E sl v
  end.

Definition gct_inv (E : N) (sl : nat -> slot) (ca : nat -> option (N * nat)) (gc : gpc) : Prop :=
  match gc with
  | GIdle _ => True
  | GCache _ g => inflight E sl g
  | GLoop c g => inflight E sl g /\ ca c = None
  end.

Record InvA (n : nat) (E G : N) (sl : nat -> slot) (ep : epc) : Prop := {
  E_pos : 1 <= E;
  slots_ok : forall i, slot_inv n E i (sl i);
  ept_ok : ept_inv E sl ep;
  gG_ok : inflight E sl G }.

Definition Inv (n : nat) (s : st) : Prop :=
  InvA n (gE s) (gG s) (slots s) (ept s) /\
  gct_inv (gE s) (slots s) (cache s) (gct s) /\
  InvB (slots s) (contl (queue s) (cache s)) (ost s) (prot s).

Lemma Inv_init n : Inv n init_st.
Proof.
  split; [|split]; cbn.
  - split; cbn; try lia.
    + intros i. unfold slot_inv. cbn. repeat split; try lia. congruence.
    + split; [lia|]. cbn. discriminate.
  - exact I.
  - split; cbn; try contradiction; try discriminate.
    intros. constructor.
Qed.

(** ** updating one slot *)
Lemma inflight_upd E sl v i x :
  inflight E sl v -> (ss x = SActive -> sbegin x = E) -> inflight E (upd sl i x) v.
Proof.
  intros [H1 H2] Hx. split; [exact H1|]. intros j.
  destruct (Nat.eq_dec j i) as [->|Hn].
  - rewrite upd_same. intros Ha. rewrite (Hx Ha). exact H1.
  - rewrite (upd_other _ _ _ _ Hn). apply H2.
Qed.

Lemma inflight_mono E E' sl v : E <= E' -> inflight E sl v -> inflight E' sl v.
Proof. intros HE [H1 H2]. split; [lia|exact H2]. Qed.

Lemma ept_inv_upd E sl ep i x :
  ept_inv E sl ep -> (ss x = SActive -> sbegin x = E) -> ept_inv E (upd sl i x) ep.
Proof.
  intros H Hx. destruct ep as [|cur j| |j m|v]; cbn [ept_inv] in *.
  - exact I.
  - destruct H as [H1 H2]. split; [exact H1|]. intros a Ha.
    destruct (Nat.eq_dec a i) as [->|Hn];
      [rewrite upd_same; auto | rewrite (upd_other _ _ _ _ Hn); auto].
  - intros a.
    destruct (Nat.eq_dec a i) as [->|Hn];
      [rewrite upd_same; auto | rewrite (upd_other _ _ _ _ Hn); auto].
  - destruct H as [H1 H2]. split; [exact H1|]. intros a Ha.
    destruct (Nat.eq_dec a i) as [->|Hn].
    + rewrite upd_same. intros Hact. rewrite (Hx Hact). lia.
    + rewrite (upd_other _ _ _ _ Hn); auto.
  - apply inflight_upd; auto.
Qed.

Lemma gct_inv_upd E sl ca gc i x :
  gct_inv E sl ca gc -> (ss x = SActive -> sbegin x = E) -> gct_inv E (upd sl i x) ca gc.
Proof.
  intros H Hx. destruct gc as [c|c g|c g]; cbn [gct_inv] in *.
  - exact I.
  - apply inflight_upd; auto.
  - destruct H. split; auto. apply inflight_upd; auto.
Qed.

Lemma InvA_upd n E G sl ep i x :
  InvA n E G sl ep -> slot_inv n E i x -> (ss x = SActive -> sbegin x = E) ->
  InvA n E G (upd sl i x) ep.
Proof.
  intros [H1 H2 H3 H4] Hs Hx. split.
  - exact H1.
  - intros a. destruct (Nat.eq_dec a i) as [->|Hn];
      [rewrite upd_same; auto | rewrite (upd_other _ _ _ _ Hn); auto].
  - apply ept_inv_upd; auto.
  - apply inflight_upd; auto.
Qed.

Lemma InvB_upd sl ct os pr i x :
  InvB sl ct os pr -> slot_tr (sl i) x -> InvB (upd sl i x) ct os pr.
Proof.
  intros [H1 H2 H3 H4 H5 H6] Htr. split; auto.
  - intros c t o Hin. destruct (H1 c t o Hin) as [Hr Hp]. split; [exact Hr|].
    intros a k Hk. destruct (Nat.eq_dec a i) as [->|Hn].
    + rewrite upd_same. intros Hg.
      destruct (Htr k (H4 _ _ _ Hk)) as (_ & Hgg & Hb).
      rewrite (Hb Hg). apply (Hp _ _ Hk).
      destruct (gone (sl i) k) eqn:G; auto.
      rewrite (Hgg eq_refl) in Hg. discriminate.
    + rewrite (upd_other _ _ _ _ Hn). apply Hp; auto.
  - intros o a k Hk. destruct (Nat.eq_dec a i) as [->|Hn].
    + rewrite upd_same. apply Htr. eapply H4; eauto.
    + rewrite (upd_other _ _ _ _ Hn). eapply H4; eauto.
  - intros o Ho a k Hk. destruct (Nat.eq_dec a i) as [->|Hn].
    + rewrite upd_same. apply (Htr k (H4 _ _ _ Hk)). eapply H5; eauto.
    + rewrite (upd_other _ _ _ _ Hn). eapply H5; eauto.
Qed.

Lemma Inv_slot n s i x :
  Inv n s -> slot_inv n (gE s) i x -> (ss x = SActive -> sbegin x = gE s) ->
  slot_tr (slots s i) x -> Inv n (set_slots s (upd (slots s) i x)).
Proof.
  intros (HA & HG & HB) Hs Hx Htr.
  split; [|split]; cbn [set_slots gE gG slots queue cache ost prot ept gct].
  - apply InvA_upd; auto.
  - apply gct_inv_upd; auto.
  - apply InvB_upd; auto.
Qed.

Lemma Inv_set_ept n s ep :
  Inv n s -> ept_inv (gE s) (slots s) ep -> Inv n (set_ept s ep).
Proof.
  intros ([H1 H2 H3 H4] & HG & HB) He.
  split; [|split]; cbn [set_ept gE gG slots queue cache ost prot ept gct]; auto.
  split; auto.
Qed.

Lemma Inv_set_gct n s gc :
  Inv n s -> gct_inv (gE s) (slots s) (cache s) gc -> Inv n (set_gct s gc).
Proof.
  intros (HA & HG & HB) He.
  split; [|split]; cbn [set_gct gE gG slots queue cache ost prot ept gct]; auto.
Qed.

(** ** container updates *)
Lemma InvB_ext sl ct ct' os pr :
  (forall c, ct' c = ct c) -> InvB sl ct os pr -> InvB sl ct' os pr.
Proof.
  intros He [H1 H2 H3 H4 H5 H6]. split; auto.
  - intros c t o. rewrite He. apply H1.
  - intros c. rewrite He. apply H2.
  - intros c c' o. rewrite !He. apply H3.
Qed.

Lemma InvB_free sl ct ct' os pr c t o rest :
  InvB sl ct os pr -> ct c = (t, o) :: rest -> ct' c = rest ->
  (forall c', c' <> c -> ct' c' = ct c') ->
  (forall i k, In (i, k) (pr o) -> gone (sl i) k = true) ->
  InvB sl ct' (upd os o (match os o with Retired => Freed | _ => DoubleFreed end)) pr.
Proof.
  intros [H1 H2 H3 H4 H5 H6] Hc Hc' Hoth Hsafe.
  assert (Ho : os o = Retired). { apply (H1 c t o). rewrite Hc. left; auto. }
  rewrite Ho.
  assert (Hsub : forall c' x, In x (ct' c') -> In x (ct c')).
  { intros c' x. destruct (Nat.eq_dec c' c) as [->|Hn].
    - rewrite Hc, Hc'. right; auto.
    - rewrite Hoth; auto. }
  assert (Hsubo : forall c' o', In o' (map snd (ct' c')) -> In o' (map snd (ct c'))).
  { intros c' o' Hin. apply in_map_iff in Hin. destruct Hin as (x & <- & Hx).
    apply in_map. auto. }
  assert (Hnd : NoDup (o :: map snd rest)).
  { specialize (H2 c). rewrite Hc in H2. exact H2. }
  apply NoDup_cons_iff in Hnd. destruct Hnd as [Hnd1 Hnd2].
  assert (Hfresh : forall c' o', In o' (map snd (ct' c')) -> o' <> o).
  { intros c' o' Hin ->. destruct (Nat.eq_dec c' c) as [->|Hn].
    - rewrite Hc' in Hin. auto.
    - apply (H3 c' c o Hn).
      + rewrite <- Hoth; auto.
      + rewrite Hc. left. reflexivity. }
  split.
  - intros c' t' o' Hin.
    assert (o' <> o).
    { apply (Hfresh c'). apply in_map_iff. exists (t', o'). auto. }
    rewrite upd_other by auto. apply (H1 c'). auto.
  - intros c'. destruct (Nat.eq_dec c' c) as [->|Hn].
    + rewrite Hc'. exact Hnd2.
    + rewrite Hoth; auto.
  - intros c1 c2 o' Hn Ha Hb. eapply H3; eauto.
  - auto.
  - intros o'. destruct (Nat.eq_dec o' o) as [->|Hn].
    + intros _. auto.
    + rewrite upd_other by auto. apply H5.
  - intros o'. destruct (Nat.eq_dec o' o) as [->|Hn].
    + rewrite upd_same. discriminate.
    + rewrite upd_other by auto. auto.
Qed.

Lemma in_active n f i k :
  In (i, k) (active_sessions n f) <-> (i < n)%nat /\ ss (f i) = SActive /\ k = sinst (f i).
Proof.
  induction n; cbn [active_sessions].
  - split; [contradiction | lia].
  - rewrite in_app_iff, IHn. split.
    + intros [Hin|Hin].
      * destruct (ss (f n)) eqn:H; cbn in Hin; try contradiction.
        destruct Hin as [[= <- <-]|[]]. auto.
      * destruct Hin as (? & ? & ?). repeat split; auto.
    + intros (Hlt & Ha & ->). destruct (Nat.eq_dec i n) as [->|Hn].
      * left. rewrite Ha. left; auto.
      * right. repeat split; auto. lia.
Qed.

Lemma NoDup_snoc {A} (l : list A) a : NoDup l -> ~ In a l -> NoDup (l ++ [a]).
Proof.
  induction 1 as [|b l Hb Hl IH]; cbn; intros Hn.
  - constructor; [intros []|constructor].
  - constructor.
    + rewrite in_app_iff. cbn. intuition.
    + apply IH. intuition.
Qed.

Lemma InvB_retire n sl ct ct' os pr c t o :
  InvB sl ct os pr -> os o = Linked -> ct' c = ct c ++ [(t, o)] ->
  (forall c', c' <> c -> ct' c' = ct c') ->
  (forall i, ss (sl i) = SActive -> sbegin (sl i) <= t + 1) ->
  InvB sl ct' (upd os o Retired) (upd pr o (active_sessions n sl)).
Proof.
  intros [H1 H2 H3 H4 H5 H6] Ho Hc Hoth Hact.
  assert (Hnot : forall c' t', ~ In (t', o) (ct c')).
  { intros c' t' Hin. destruct (H1 _ _ _ Hin) as [Hr _]. congruence. }
  assert (Hnoto : forall c', ~ In o (map snd (ct c'))).
  { intros c' Hin. apply in_map_iff in Hin. destruct Hin as ([t' o'] & Heq & Hin).
    cbn in Heq. subst. eapply Hnot; eauto. }
  assert (Hin' : forall c' x, In x (ct' c') -> In x (ct c') \/ (c' = c /\ x = (t, o))).
  { intros c' x. destruct (Nat.eq_dec c' c) as [->|Hn].
    - rewrite Hc, in_app_iff. cbn. intuition.
    - rewrite Hoth; auto. }
  assert (Hino : forall c' o', In o' (map snd (ct' c')) ->
                               In o' (map snd (ct c')) \/ (c' = c /\ o' = o)).
  { intros c' o' Hin. apply in_map_iff in Hin. destruct Hin as (x & <- & Hx).
    destruct (Hin' _ _ Hx) as [|[-> ->]].
    - left. apply in_map; auto.
    - right; auto. }
  split.
  - intros c' t' o' Hin. destruct (Hin' _ _ Hin) as [Hold|[-> Heq]].
    + destruct (H1 _ _ _ Hold) as [Hr Hp]. assert (o' <> o) by congruence.
      rewrite !upd_other by auto. auto.
    + injection Heq as -> ->. rewrite !upd_same. split; auto.
      intros i k Hk _. apply in_active in Hk. apply Hact. tauto.
  - intros c'. destruct (Nat.eq_dec c' c) as [->|Hn]; [|rewrite Hoth; auto].
    rewrite Hc, map_app. cbn. apply NoDup_snoc; auto.
  - intros c1 c2 o' Hn Ha Hb.
    destruct (Hino _ _ Ha) as [Ha'|[Ea Eo]].
    + destruct (Hino _ _ Hb) as [Hb'|[Eb Eo]].
      * eauto.
      * subst o'. eapply Hnoto; eauto.
    + subst o'. destruct (Hino _ _ Hb) as [Hb'|[Eb _]].
      * eapply Hnoto; eauto.
      * congruence.
  - intros o' i k. destruct (Nat.eq_dec o' o) as [->|Hn].
    + rewrite upd_same. intros Hk. apply in_active in Hk. right. tauto.
    + rewrite upd_other by auto. apply H4.
  - intros o'. destruct (Nat.eq_dec o' o) as [->|Hn].
    + rewrite upd_same. discriminate.
    + rewrite !upd_other by auto. apply H5.
  - intros o'. destruct (Nat.eq_dec o' o) as [->|Hn].
    + rewrite upd_same; discriminate.
    + rewrite upd_other; auto.
Qed.

(** ** worker events *)
Ltac slot_tr_tac Hss :=
  let k := fresh "k" in let Hk := fresh "Hk" in
  intros k Hk; unfold pok, gone in *; cbn [ss sbegin sinst set_ss] in *;
  rewrite ?Hss in *;
  match goal with |- context [Nat.eqb ?a k] => destruct (Nat.eqb_spec a k) end;
  cbn [negb orb];
  repeat split; intros; try discriminate; try lia;
  intuition (try discriminate; try lia; try congruence).

Lemma step_Claim n s i s' : Inv n s -> step true n s (Claim i) = Some s' -> Inv n s'.
Proof.
  intros HI. pose proof HI as (HA & _ & _).
  pose proof (slots_ok _ _ _ _ _ HA i) as (Hb & Hn & Hm).
  cbn [step]. destruct (Nat.ltb_spec i n); cbn [negb]; [|intros; discriminate].
  destruct (ss (slots s i)) eqn:Hss; try (intros; discriminate). intros [= <-].
  apply Inv_slot; auto.
  - unfold slot_inv; cbn [ss sbegin sinst]. repeat split; auto.
  - cbn. discriminate.
  - intros k Hk. unfold pok, gone in *. cbn [ss sbegin sinst]. rewrite Hss in *.
    assert (k <= sinst (slots s i))%nat by lia.
    destruct (Nat.eqb_spec (S (sinst (slots s i))) k); [lia|].
    cbn [negb orb]. repeat split; auto. left. lia.
Qed.

Lemma step_RdE n s i s' : Inv n s -> step true n s (RdE i) = Some s' -> Inv n s'.
Proof.
  intros HI. pose proof HI as (HA & _ & _).
  pose proof (slots_ok _ _ _ _ _ HA i) as (Hb & Hn & Hm).
  cbn [step].
  destruct (ss (slots s i)) eqn:Hss; try (intros; discriminate). intros [= <-].
  apply Inv_slot; auto.
  - unfold slot_inv; cbn [ss sbegin sinst set_ss]. repeat split; auto; try lia.
    intros _. apply Hn. discriminate.
  - cbn. discriminate.
  - slot_tr_tac Hss.
Qed.

Lemma step_PubB n s i s' : Inv n s -> step true n s (PubB i) = Some s' -> Inv n s'.
Proof.
  intros HI. pose proof HI as (HA & _ & _).
  pose proof (slots_ok _ _ _ _ _ HA i) as (Hb & Hn & Hm).
  cbn [step].
  destruct (ss (slots s i)) eqn:Hss; try (intros; discriminate). intros [= <-].
  apply Inv_slot; auto.
  - unfold slot_inv; cbn [ss sbegin sinst set_ss]. repeat split; auto; try lia.
    intros _. apply Hn. discriminate.
  - cbn. discriminate.
  - slot_tr_tac Hss.
Qed.

Lemma step_Recheck n s i s' : Inv n s -> step true n s (Recheck i) = Some s' -> Inv n s'.
Proof.
  intros HI. pose proof HI as (HA & _ & _).
  pose proof (slots_ok _ _ _ _ _ HA i) as (Hb & Hn & Hm).
  pose proof (E_pos _ _ _ _ _ HA) as HE.
  cbn [step negb].
  destruct (ss (slots s i)) eqn:Hss; try (intros; discriminate). intros [= <-].
  apply Inv_slot; auto.
  - unfold slot_inv; cbn [ss sbegin sinst set_ss].
    destruct (N.eqb_spec (gE s) e); repeat split; auto; try lia;
      intros _; apply Hn; discriminate.
  - cbn [ss sbegin sinst set_ss]. destruct (N.eqb_spec (gE s) e); [lia|discriminate].
  - destruct (gE s =? e); slot_tr_tac Hss.
Qed.

Lemma step_Confirm n s i s' : Inv n s -> step true n s (Confirm i) = Some s' -> Inv n s'.
Proof. cbn [step]. intros; discriminate. Qed.

Lemma step_Leave1 n s i s' : Inv n s -> step true n s (Leave1 i) = Some s' -> Inv n s'.
Proof.
  intros HI. pose proof HI as (HA & _ & _).
  pose proof (slots_ok _ _ _ _ _ HA i) as (Hb & Hn & Hm).
  cbn [step].
  destruct (ss (slots s i)) eqn:Hss; try (intros; discriminate). intros [= <-].
  apply Inv_slot; auto.
  - unfold slot_inv; cbn [ss sbegin sinst set_ss]. repeat split; auto; try lia.
    intros _. apply Hn. discriminate.
  - cbn. discriminate.
  - slot_tr_tac Hss.
Qed.

Lemma step_Leave2 n s i s' : Inv n s -> step true n s (Leave2 i) = Some s' -> Inv n s'.
Proof.
  intros HI. pose proof HI as (HA & _ & _).
  pose proof (slots_ok _ _ _ _ _ HA i) as (Hb & Hn & Hm).
  cbn [step].
  destruct (ss (slots s i)) eqn:Hss; try (intros; discriminate). intros [= <-].
  apply Inv_slot; auto.
  - unfold slot_inv; cbn [ss sbegin sinst set_ss]. repeat split; auto; try lia.
  - cbn. discriminate.
  - slot_tr_tac Hss.
Qed.

Lemma contl_upd_queue_same q ca c l : contl (upd q c l) ca c =
  match ca c with Some x => [x] | None => [] end ++ l.
Proof. unfold contl. now rewrite upd_same. Qed.

Lemma contl_upd_queue_other q ca c l c' : c' <> c -> contl (upd q c l) ca c' = contl q ca c'.
Proof. intros H. unfold contl. now rewrite (upd_other _ _ _ _ H). Qed.

Lemma contl_upd_cache_other q ca c x c' : c' <> c -> contl q (upd ca c x) c' = contl q ca c'.
Proof. intros H. unfold contl. now rewrite (upd_other _ _ _ _ H). Qed.

Lemma step_Retire n s i k o s' :
  Inv n s -> step true n s (Retire i k o) = Some s' -> Inv n s'.
Proof.
  intros (HA & HG & HB). cbn [step].
  destruct (ss (slots s i)) eqn:Hss; try (intros; discriminate).
  destruct (ost s o) eqn:Ho; try (intros; discriminate).
  destruct (Nat.ltb k 2); cbn [negb]; [|intros; discriminate].
  intros [= <-].
  split; [|split]; cbn [gE gG slots queue cache ost prot ept gct]; auto.
  eapply InvB_retire with (c := (2 * i + k)%nat); eauto.
  - rewrite contl_upd_queue_same. unfold contl. now rewrite app_assoc.
  - intros c' Hc'. now apply contl_upd_queue_other.
  - intros a Ha.
    pose proof (slots_ok _ _ _ _ _ HA i) as (_ & _ & Hi). rewrite Hss in Hi.
    pose proof (slots_ok _ _ _ _ _ HA a) as (Hb & _ & _). lia.
Qed.

(** ** epoch-thread events *)
Lemma step_EStart n s s' : Inv n s -> step true n s EStart = Some s' -> Inv n s'.
Proof.
  intros HI. cbn [step]. destruct (ept s); try (intros; discriminate). intros [= <-].
  apply Inv_set_ept; auto. cbn. split; auto. intros; lia.
Qed.

Lemma step_EVer n s s' : Inv n s -> step true n s EVer = Some s' -> Inv n s'.
Proof.
  intros HI. pose proof HI as (HA & _ & _). pose proof (ept_ok _ _ _ _ _ HA) as He.
  cbn [step]. destruct (ept s) as [|cur j| | |]; try (intros; discriminate).
  cbn [ept_inv] in He. destruct He as [-> He].
  destruct (Nat.eqb_spec j n) as [->|Hjn].
  - intros [= <-]. apply Inv_set_ept; auto. cbn [ept_inv]. intros i Hact. apply He; auto.
    pose proof (slots_ok _ _ _ _ _ HA i) as (_ & Hlt & _). apply Hlt. congruence.
  - destruct (negb (sbegin (slots s j) =? 0) && negb (sbegin (slots s j) =? gE s)) eqn:Hc;
      intros [= <-]; apply Inv_set_ept; auto; cbn [ept_inv]; auto.
    split; auto. intros i Hi Hact. destruct (Nat.eq_dec i j) as [->|Hne].
    + pose proof (slots_ok _ _ _ _ _ HA j) as (_ & _ & Hm). rewrite Hact in Hm. lia.
    + apply He; auto. lia.
Qed.

Lemma step_EIncr n s s' : Inv n s -> step true n s EIncr = Some s' -> Inv n s'.
Proof.
  intros ([H1 H2 H3 H4] & HG & HB).
  cbn [step]. destruct (ept s); try (intros; discriminate). intros [= <-].
  cbn [ept_inv] in H3.
  split; [|split]; cbn [gE gG slots queue cache ost prot ept gct]; auto.
  - split.
    + lia.
    + intros i. specialize (H2 i). specialize (H3 i). unfold slot_inv in *.
      destruct H2 as (Ha & Hb & Hc). repeat split; auto; try lia.
      destruct (ss (slots s i)); auto; try lia.
    + cbn. split; [lia|]. intros; lia.
    + eapply inflight_mono; [|eauto]. lia.
  - destruct (gct s); cbn [gct_inv] in *; auto.
    + eapply inflight_mono; [|eauto]. lia.
    + destruct HG. split; auto. eapply inflight_mono; [|eauto]. lia.
Qed.

Lemma step_EMinStep n s s' : Inv n s -> step true n s EMinStep = Some s' -> Inv n s'.
Proof.
  intros HI. pose proof HI as (HA & _ & _). pose proof (ept_ok _ _ _ _ _ HA) as He.
  pose proof (E_pos _ _ _ _ _ HA) as HE.
  cbn [step]. destruct (ept s) as [| | |j m|]; try (intros; discriminate).
  cbn [ept_inv] in He. destruct He as [Hpv He].
  destruct (Nat.eqb_spec j n) as [->|Hjn]; intros [= <-]; apply Inv_set_ept; auto;
    cbn [ept_inv].
  - assert (Hv : match m with Some x => x - 1 | None => gE s - 1 end = pv (gE s) m - 1).
    { destruct m; reflexivity. }
    rewrite Hv. split; [lia|]. intros i Hact.
    pose proof (slots_ok _ _ _ _ _ HA i) as (_ & Hlt & _).
    assert (i < n)%nat by (apply Hlt; congruence).
    specialize (He i H Hact). lia.
  - pose proof (slots_ok _ _ _ _ _ HA j) as (Hb & _ & Hm).
    destruct (N.eqb_spec (sbegin (slots s j)) 0) as [Hz|Hz].
    + split; auto. intros i Hi Hact. destruct (Nat.eq_dec i j) as [->|Hne].
      * rewrite Hact in Hm. lia.
      * apply He; auto. lia.
    + assert (Hp : pv (gE s) (Some match m with
                                     | Some x => N.min x (sbegin (slots s j))
                                     | None => sbegin (slots s j) end)
                   = N.min (pv (gE s) m) (sbegin (slots s j))).
      { destruct m; cbn [pv]; lia. }
      rewrite Hp. split; [lia|]. intros i Hi Hact. destruct (Nat.eq_dec i j) as [->|Hne].
      * lia.
      * assert (i < j)%nat by lia. specialize (He i H Hact). lia.
Qed.

Lemma step_EPublish n s s' : Inv n s -> step true n s EPublish = Some s' -> Inv n s'.
Proof.
  intros ([H1 H2 H3 H4] & HG & HB).
  cbn [step]. destruct (ept s); try (intros; discriminate). intros [= <-].
  cbn [ept_inv] in H3.
  split; [|split]; cbn [gE gG slots queue cache ost prot ept gct]; auto.
  split; auto. exact I.
Qed.

(** ** gc-thread events *)
Lemma free_safe E sl ct os pr g t o c :
  InvB sl ct os pr -> inflight E sl g -> In (t, o) (ct c) -> (g <=? t) = false ->
  forall i k, In (i, k) (pr o) -> gone (sl i) k = true.
Proof.
  intros HB [_ Hf] Hin Hg i k Hk. destruct (gone (sl i) k) eqn:G; auto. exfalso.
  destruct (cont_ok _ _ _ _ HB _ _ _ Hin) as [_ Hp].
  specialize (Hp _ _ Hk G).
  destruct (pok_not_gone _ _ (prot_ok _ _ _ _ HB _ _ _ Hk) G) as [Ha _].
  specialize (Hf _ Ha). apply N.leb_gt in Hg. lia.
Qed.

Lemma step_GStart n s s' : Inv n s -> step true n s GStart = Some s' -> Inv n s'.
Proof.
  intros HI. pose proof HI as (HA & _ & _).
  cbn [step]. destruct (gct s); try (intros; discriminate). intros [= <-].
  apply Inv_set_gct; auto. cbn [gct_inv]. apply (gG_ok _ _ _ _ _ HA).
Qed.

Lemma step_GCacheStep n s s' : Inv n s -> step true n s GCacheStep = Some s' -> Inv n s'.
Proof.
  intros HI. pose proof HI as (HA & HG & HB).
  cbn [step]. destruct (gct s) as [|c g|]; try (intros; discriminate).
  cbn [gct_inv] in HG.
  destruct (cache s c) as [[t o]|] eqn:Hca.
  - destruct (g <=? t) eqn:Hgt; intros [= <-].
    + apply Inv_set_gct; auto. exact I.
    + split; [|split]; cbn [gE gG slots queue cache ost prot ept gct]; auto.
      * cbn [gct_inv]. split; auto. apply upd_same.
      * unfold free_obj.
        eapply InvB_free with (c := c) (t := t) (rest := queue s c); eauto.
        -- unfold contl. now rewrite Hca.
        -- unfold contl. now rewrite upd_same.
        -- intros c' Hc'. now apply contl_upd_cache_other.
        -- eapply free_safe with (c := c); eauto. unfold contl. rewrite Hca. left; auto.
  - intros [= <-]. apply Inv_set_gct; auto. cbn [gct_inv]. auto.
Qed.

Lemma step_GLoopStep n s s' : Inv n s -> step true n s GLoopStep = Some s' -> Inv n s'.
Proof.
  intros HI. pose proof HI as (HA & HG & HB).
  cbn [step]. destruct (gct s) as [| |c g]; try (intros; discriminate).
  cbn [gct_inv] in HG. destruct HG as [Hfl Hca].
  destruct (queue s c) as [|[t o] rest] eqn:Hq.
  - intros [= <-]. apply Inv_set_gct; auto. exact I.
  - destruct (g <=? t) eqn:Hgt; intros [= <-].
    + split; [|split]; cbn [gE gG slots queue cache ost prot ept gct]; auto.
      * exact I.
      * eapply InvB_ext; [|exact HB]. intros c'. unfold contl.
        destruct (Nat.eq_dec c' c) as [->|Hn].
        -- rewrite !upd_same, Hca, Hq. reflexivity.
        -- now rewrite !(upd_other _ _ _ _ Hn).
    + split; [|split]; cbn [gE gG slots queue cache ost prot ept gct]; auto.
      * cbn [gct_inv]. auto.
      * unfold free_obj.
        eapply InvB_free with (c := c) (t := t) (rest := rest); eauto.
        -- unfold contl. now rewrite Hca, Hq.
        -- unfold contl. now rewrite upd_same, Hca.
        -- intros c' Hc'. now apply contl_upd_queue_other.
        -- eapply free_safe with (c := c); eauto. unfold contl. rewrite Hca, Hq. left; auto.
Qed.

(** ** the invariant is inductive *)
Lemma step_inv n s e s' : Inv n s -> step true n s e = Some s' -> Inv n s'.
Proof.
  destruct e.
  - apply step_Claim.
  - apply step_RdE.
  - apply step_PubB.
  - apply step_Recheck.
  - apply step_Confirm.
  - apply step_Retire.
  - apply step_Leave1.
  - apply step_Leave2.
  - apply step_EStart.
  - apply step_EVer.
  - apply step_EIncr.
  - apply step_EMinStep.
  - apply step_EPublish.
  - apply step_GStart.
  - apply step_GCacheStep.
  - apply step_GLoopStep.
Qed.

Lemma run_inv n tr : forall s s', Inv n s -> run true n s tr = Some s' -> Inv n s'.
Proof.
  induction tr as [|e tr IH]; cbn [run]; intros s s' HI.
  - intros [= <-]. exact HI.
  - destruct (step true n s e) as [s1|] eqn:Hs; [|discriminate].
    apply IH. eapply step_inv; eauto.
Qed.

Lemma Inv_safe n s : Inv n s -> forall o, safe_obj s o = true.
Proof.
  intros (_ & _ & HB) o. unfold safe_obj.
  destruct (ost s o) eqn:Ho; auto.
  - apply forallb_forall. intros [i k] Hin. rewrite has_left_gone.
    eapply (freed_ok _ _ _ _ HB); eauto.
  - exfalso. eapply (nodf _ _ _ _ HB); eauto.
Qed.

Theorem no_early_free :
  forall n tr s, run true n init_st tr = Some s -> forall o, safe_obj s o = true.
Proof.
  intros n tr s Hr. apply (Inv_safe n). eapply run_inv; [apply Inv_init|exact Hr].
Qed.

Theorem retired_once :
  forall n tr s, run true n init_st tr = Some s -> forall o, ost s o <> DoubleFreed.
Proof.
  intros n tr s Hr o.
  assert (HI : Inv n s) by (eapply run_inv; [apply Inv_init|exact Hr]).
  destruct HI as (_ & _ & HB). apply (nodf _ _ _ _ HB).
Qed.
