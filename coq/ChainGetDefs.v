(** * ChainGetDefs: a point lookup (get / the search part of put and remove) on a layer whose leaf chain is
    being modified by inserts, removes, SPLITS and UNLINKS (interface_get.h: find_border, get_lv_of, the
    re-validation of the border's version; common_helper.h find_border).

    It completes BorderDefs (one border at slot granularity, no structure modification) at node granularity:
      GBegin k    find_border: route k to the live border covering it, take its stable version
      GRead       look the key up in that border (an atomic read of the border: BorderProofs)
      GValidate   load the border's version again: unchanged -> answer; split or deleted -> start again from the
                  root (the key may have moved to a new right sibling, or the range to a neighbour); only
                  inserts / removes in between -> look the key up again in the same border
    Writers are the events of ChainDefs ([cstep] with the scanner idle): EIns, ERem, ESplit, EUnlink.

    Ghost: [g_seen] = whether k was present, at every instant since the invocation (newest first).
    The property (proved in ChainGetProofs): the answer equals the presence of k at SOME instant between invocation
    and response -- the lookup is linearizable also across splits and unlinks. *)
From Yk Require Export ChainDefs.
Local Open Scope N_scope.

Inductive gpc := GIdle | GSearch | GCheck (found : bool) | GDone (found : bool).

Record getter := {
  g_pc : gpc;
  g_key : N;
  g_cur : N;            (* the border the search is in *)
  g_v : cver;           (* the version it is validated against *)
  g_restarts : N;
}.

Record gstate := {
  g_c : cstate;         (* the layer (scanner idle) *)
  g_get : getter;
  g_seen : list bool;   (* ghost: presence of g_key at every instant since the invocation, newest first *)
}.

Inductive gev :=
| GW (e : cev)          (* a writer event of ChainDefs: EIns / ERem / ESplit / EUnlink *)
| GBegin (k : N) | GRead | GValidate.

Definition idle_getter : getter := {| g_pc := GIdle; g_key := 0; g_cur := 0; g_v := cver0; g_restarts := 0 |}.
Definition ginit (kss : list (list N)) : gstate := {| g_c := cinit kss; g_get := idle_getter; g_seen := [] |}.

Definition is_writer (e : cev) : bool :=
  match e with EIns _ | ERem _ | ESplit _ _ | EUnlink _ _ => true | _ => false end.
Definition searching (g : getter) : bool :=
  match g_pc g with GSearch | GCheck _ => true | _ => false end.
Definition present (k : N) (s : cstate) : bool := mem k (all_keys (c_nodes s)).

(** find_border for k: the live border covering k and its version *)
Definition start_get (ns : list cnode) (k : N) (restarts : N) : option getter :=
  match cover k ns with
  | None => None
  | Some n => Some {| g_pc := GSearch; g_key := k; g_cur := cn_id n; g_v := cn_ver n; g_restarts := restarts |}
  end.

Definition gstep (s : gstate) (e : gev) : option gstate :=
  let g := g_get s in
  match e with
  | GW w =>
      if is_writer w then
        match cstep true (g_c s) w with
        | None => None
        | Some c' => Some {| g_c := c'; g_get := g;
                             g_seen := if searching g then present (g_key g) c' :: g_seen s else g_seen s |}
        end
      else None
  | GBegin k =>
      match g_pc g with
      | GIdle =>
          match start_get (c_nodes (g_c s)) k 0 with
          | None => None
          | Some g' => Some {| g_c := g_c s; g_get := g'; g_seen := [present k (g_c s)] |}
          end
      | _ => None
      end
  | GRead =>
      match g_pc g with
      | GSearch =>
          match find_node (g_cur g) (c_nodes (g_c s)) with
          | None => None
          | Some n =>
              Some {| g_c := g_c s;
                      g_get := {| g_pc := GCheck (mem (g_key g) (cn_keys n)); g_key := g_key g; g_cur := g_cur g;
                                  g_v := g_v g; g_restarts := g_restarts g |};
                      g_seen := g_seen s |}
          end
      | _ => None
      end
  | GValidate =>
      match g_pc g with
      | GCheck found =>
          match find_node (g_cur g) (c_nodes (g_c s)) with
          | None => None
          | Some n =>
              let w := cn_ver n in
              if cver_eqb w (g_v g) then
                Some {| g_c := g_c s;
                        g_get := {| g_pc := GDone found; g_key := g_key g; g_cur := g_cur g; g_v := g_v g;
                                    g_restarts := g_restarts g |};
                        g_seen := g_seen s |}
              else if negb (cv_split w =? cv_split (g_v g)) || cv_del w then
                match start_get (c_nodes (g_c s)) (g_key g) (g_restarts g + 1) with
                | None => None
                | Some g' => Some {| g_c := g_c s; g_get := g'; g_seen := g_seen s |}
                end
              else
                Some {| g_c := g_c s;
                        g_get := {| g_pc := GSearch; g_key := g_key g; g_cur := g_cur g; g_v := w;
                                    g_restarts := g_restarts g |};
                        g_seen := g_seen s |}
          end
      | _ => None
      end
  end.

Fixpoint grun (s : gstate) (evs : list gev) : option gstate :=
  match evs with
  | [] => Some s
  | e :: tl => match gstep s e with Some s' => grun s' tl | None => None end
  end.

(** a history in which the key moves to a new right sibling by a split while the lookup is validated against the old
    border: the lookup restarts and finds it *)
Definition gex_trace : list gev :=
  [GBegin 30; GW (ESplit 1 30); GRead; GValidate; GRead; GValidate].
Definition gex_result : option (gpc * N * list bool) :=
  match grun (ginit [[10]; [20; 30; 40]]) gex_trace with
  | Some s => Some (g_pc (g_get s), g_restarts (g_get s), g_seen s)
  | None => None
  end.
