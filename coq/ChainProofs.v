(** * ChainProofs: the forward scan along the chain of border nodes (model: ChainDefs.v) *)
From Coq Require Import NArith List Bool Lia Permutation.
From Yk Require Import ChainDefs.
Import ListNotations.
Local Open Scope N_scope.

(** ** 0. the evaluated facts *)
Theorem chain_original_not_ascending :
  exists evs s, crun false (cinit [[10]; [20; 30]]) evs = Some s /\
    sc_pc (c_scan s) = CDone /\ sorted_strict (sc_res (c_scan s)) = false.
Proof.
  exists f8_trace.
  destruct (crun false (cinit [[10]; [20; 30]]) f8_trace) as [s|] eqn:E; [|vm_compute in E; discriminate].
  exists s. split; [reflexivity|].
  assert (Some s = crun false (cinit [[10]; [20; 30]]) f8_trace) as H by (symmetry; exact E).
  vm_compute in H. injection H as ->. vm_compute. split; reflexivity.
Qed.

Example chain_nonvacuous : exists evs s, crun true (cinit [[10]; [20; 30]]) evs = Some s /\
  sc_pc (c_scan s) = CDone /\ sc_res (c_scan s) = [10; 20; 30] /\ (1 <=? sc_restarts (c_scan s)) = true.
Proof.
  exists (f8_trace ++ [ERead; ENextVer; EValidate]).
  destruct (crun true (cinit [[10]; [20; 30]]) (f8_trace ++ [ERead; ENextVer; EValidate])) as [s|] eqn:E;
    [|vm_compute in E; discriminate].
  exists s. split; [reflexivity|].
  assert (Some s = crun true (cinit [[10]; [20; 30]]) (f8_trace ++ [ERead; ENextVer; EValidate])) as H
    by (symmetry; exact E).
  vm_compute in H. injection H as ->. vm_compute. repeat split; reflexivity.
Qed.

(** ** 1. versions *)
Definition vle (a b : cver) : Prop :=
  cv_ins a <= cv_ins b /\ cv_split a <= cv_split b /\ (cv_del a = true -> cv_del b = true).

Lemma vle_refl a : vle a a.
Proof. unfold vle. repeat split; auto; lia. Qed.
Lemma vle_trans a b c : vle a b -> vle b c -> vle a c.
Proof. unfold vle. intros (?&?&?) (?&?&?). repeat split; auto; lia. Qed.
Lemma vle_antisym a b : vle a b -> vle b a -> a = b.
Proof.
  unfold vle. destruct a as [i s d], b as [i' s' d']; cbn. intros (?&?&H1) (?&?&H2).
  f_equal; try lia. destruct d, d'; auto. discriminate (H1 eq_refl).
Qed.
Lemma cver_eqb_eq a b : cver_eqb a b = true <-> a = b.
Proof.
  unfold cver_eqb. destruct a as [i s d], b as [i' s' d']; cbn. split.
  - intros H. apply andb_true_iff in H as [H H3]. apply andb_true_iff in H as [H1 H2].
    apply N.eqb_eq in H1, H2. apply eqb_prop in H3. subst. reflexivity.
  - intros H. injection H as -> -> ->. rewrite !N.eqb_refl, eqb_reflx. reflexivity.
Qed.
Lemma vle_bump_ins v : vle v (bump_ins v).
Proof. unfold vle, bump_ins; cbn. repeat split; auto; lia. Qed.
Lemma vle_bump_split v : vle v (bump_split v).
Proof. unfold vle, bump_split; cbn. repeat split; auto; lia. Qed.
Lemma vle_set_del v : vle v (set_del v).
Proof. unfold vle, set_del; cbn. repeat split; auto; lia. Qed.
Lemma bump_ins_neq v : bump_ins v <> v.
Proof. intros H. apply (f_equal cv_ins) in H. cbn in H. lia. Qed.
Lemma bump_split_neq v : bump_split v <> v.
Proof. intros H. apply (f_equal cv_split) in H. cbn in H. lia. Qed.

(** ** 2. sorted lists of keys *)
Lemma sorted_cons x l :
  sorted_strict (x :: l) = true <-> (forall y, In y l -> x < y) /\ sorted_strict l = true.
Proof.
  revert x. induction l as [|y l IH]; intros x.
  - cbn. split; [intros _; split; [intros ? []|reflexivity]|reflexivity].
  - change (sorted_strict (x :: y :: l)) with ((x <? y) && sorted_strict (y :: l)).
    rewrite andb_true_iff, N.ltb_lt. split.
    + intros [H1 H2]. split; [|exact H2]. intros z [<-|Hz]; [exact H1|].
      apply IH in H2 as [H2 _]. specialize (H2 z Hz). lia.
    + intros [H1 H2]. split; [apply H1; left; reflexivity|exact H2].
Qed.

Lemma sorted_app l1 l2 :
  sorted_strict (l1 ++ l2) = true <->
  sorted_strict l1 = true /\ sorted_strict l2 = true /\ (forall a b, In a l1 -> In b l2 -> a < b).
Proof.
  induction l1 as [|x l1 IH].
  - cbn [app]. split; [intros H; repeat split; auto; intros ? ? []|intros (_&H&_); exact H].
  - rewrite <- app_comm_cons, !sorted_cons, IH. split.
    + intros (H1&H2&H3&H4). repeat split; auto.
      * intros y Hy. apply H1, in_or_app; left; exact Hy.
      * intros a b [<-|Ha] Hb; [apply H1, in_or_app; right; exact Hb|apply H4; assumption].
    + intros ((H1&H2)&H3&H4). repeat split; auto.
      * intros y Hy. apply in_app_or in Hy as [Hy|Hy]; [apply H1; exact Hy|apply H4; [left; reflexivity|exact Hy]].
      * intros a b Ha Hb. apply H4; [right; exact Ha|exact Hb].
Qed.

Lemma sorted_filter f l : sorted_strict l = true -> sorted_strict (filter f l) = true.
Proof.
  induction l as [|x l IH]; [reflexivity|]. intros H. apply sorted_cons in H as [H1 H2].
  cbn [filter]. destruct (f x); [|apply IH; exact H2].
  apply sorted_cons. split; [|apply IH; exact H2]. intros y Hy. apply filter_In in Hy as [Hy _]. apply H1, Hy.
Qed.

Lemma in_insert_sorted k x l : In x (insert_sorted k l) <-> x = k \/ In x l.
Proof.
  induction l as [|y l IH]; cbn [insert_sorted].
  - cbn. intuition.
  - destruct (k <? y); cbn [In]; [intuition|]. rewrite IH. intuition.
Qed.

Lemma sorted_insert k l : sorted_strict l = true -> ~ In k l -> sorted_strict (insert_sorted k l) = true.
Proof.
  induction l as [|y l IH]; intros Hs Hn; [reflexivity|]. cbn [insert_sorted].
  destruct (N.ltb_spec k y) as [Hlt|Hge].
  - apply sorted_cons. split; [|exact Hs]. apply sorted_cons in Hs as [H1 _].
    intros z [<-|Hz]; [exact Hlt|]. specialize (H1 z Hz). lia.
  - apply sorted_cons in Hs as [H1 H2]. apply sorted_cons. split.
    + intros z Hz. apply in_insert_sorted in Hz as [->|Hz]; [|apply H1, Hz].
      assert (k <> y) by (intros ->; apply Hn; left; reflexivity). lia.
    + apply IH; [exact H2|]. intros Hk. apply Hn. right. exact Hk.
Qed.

Lemma in_remove_key k x l : In x (remove_key k l) <-> In x l /\ x <> k.
Proof.
  unfold remove_key. rewrite filter_In, negb_true_iff, N.eqb_neq. reflexivity.
Qed.

Lemma mem_true k l : mem k l = true <-> In k l.
Proof.
  unfold mem. rewrite existsb_exists. split.
  - intros (x&Hx&E). apply N.eqb_eq in E. subst. exact Hx.
  - intros H. exists k. split; [exact H|apply N.eqb_refl].
Qed.
Lemma mem_false k l : mem k l = false <-> ~ In k l.
Proof. rewrite <- mem_true. destruct (mem k l); split; congruence. Qed.

Lemma last_key_none l : last_key l = None -> l = [].
Proof.
  unfold last_key. destruct (rev l) eqn:E; [|discriminate]. intros _.
  apply (f_equal (@rev N)) in E. rewrite rev_involutive in E. exact E.
Qed.
Lemma last_key_some l k : last_key l = Some k -> exists l', l = l' ++ [k].
Proof.
  unfold last_key. destruct (rev l) as [|x r] eqn:E; [discriminate|]. intros H. injection H as ->.
  exists (rev r). apply (f_equal (@rev N)) in E. rewrite rev_involutive in E. exact E.
Qed.

(** ** 3. node lists *)
Definition ids (ns : list cnode) : list N := map cn_id ns.
Definition lk (n : cnode) : list N := if live n then cn_keys n else [].
Definition upd (id : N) (f : cnode -> cnode) (x : cnode) : cnode := if cn_id x =? id then f x else x.

Lemma all_keys_eq ns : all_keys ns = flat_map lk ns.
Proof. reflexivity. Qed.
Lemma all_keys_app a b : all_keys (a ++ b) = all_keys a ++ all_keys b.
Proof. unfold all_keys. apply flat_map_app. Qed.
Lemma all_keys_cons n l : all_keys (n :: l) = lk n ++ all_keys l.
Proof. reflexivity. Qed.
Lemma in_all_keys k ns : In k (all_keys ns) <-> exists n, In n ns /\ In k (lk n).
Proof. unfold all_keys. apply in_flat_map. Qed.

Lemma find_node_split id ns n :
  find_node id ns = Some n ->
  exists l1 l2, ns = l1 ++ n :: l2 /\ ~ In id (ids l1) /\ cn_id n = id.
Proof.
  induction ns as [|x ns IH]; [discriminate|]. cbn [find_node].
  destruct (N.eqb_spec (cn_id x) id) as [E|E].
  - intros H. injection H as ->. exists [], ns. repeat split; auto.
  - intros H. destruct (IH H) as (l1&l2&->&Hn&Hid). exists (x :: l1), l2. repeat split; auto.
    cbn. intros [?|?]; [apply E; assumption|apply Hn; assumption].
Qed.

Lemma find_node_In id ns n : find_node id ns = Some n -> In n ns /\ cn_id n = id.
Proof.
  intros H. destruct (find_node_split _ _ _ H) as (l1&l2&->&_&Hid). split; [|exact Hid].
  apply in_or_app. right. left. reflexivity.
Qed.

Lemma find_node_none id ns : find_node id ns = None <-> ~ In id (ids ns).
Proof.
  induction ns as [|x ns IH]; cbn [find_node ids map In]; [tauto|].
  destruct (N.eqb_spec (cn_id x) id) as [E|E].
  - split; [discriminate|]. intros H. exfalso. apply H. left. exact E.
  - fold (ids ns). rewrite IH. tauto.
Qed.

Lemma find_node_some id ns : In id (ids ns) -> exists n, find_node id ns = Some n.
Proof.
  intros H. destruct (find_node id ns) eqn:E; [eauto|]. apply find_node_none in E. contradiction.
Qed.

Section Split.
  Variables (id : N) (l1 l2 : list cnode) (n : cnode).
  Hypothesis Hn : ~ In id (ids l1).
  Hypothesis Hid : cn_id n = id.

  Lemma find_node_mid : find_node id (l1 ++ n :: l2) = Some n.
  Proof.
    induction l1 as [|x l IH]; cbn [app find_node].
    - rewrite Hid, N.eqb_refl. reflexivity.
    - destruct (N.eqb_spec (cn_id x) id) as [E|E]; [exfalso; apply Hn; left; exact E|].
      apply IH. intros H. apply Hn. right. exact H.
  Qed.
  Lemma before_mid : before id (l1 ++ n :: l2) = l1.
  Proof.
    induction l1 as [|x l IH]; cbn [app before].
    - rewrite Hid, N.eqb_refl. reflexivity.
    - destruct (N.eqb_spec (cn_id x) id) as [E|E]; [exfalso; apply Hn; left; exact E|].
      f_equal. apply IH. intros H. apply Hn. right. exact H.
  Qed.
  Lemma after_mid : after id (l1 ++ n :: l2) = l2.
  Proof.
    induction l1 as [|x l IH]; cbn [app after].
    - rewrite Hid, N.eqb_refl. reflexivity.
    - destruct (N.eqb_spec (cn_id x) id) as [E|E]; [exfalso; apply Hn; left; exact E|].
      apply IH. intros H. apply Hn. right. exact H.
  Qed.
  Lemma update_node_mid f : update_node id f (l1 ++ n :: l2) = l1 ++ f n :: l2.
  Proof.
    induction l1 as [|x l IH]; cbn [app update_node].
    - rewrite Hid, N.eqb_refl. reflexivity.
    - destruct (N.eqb_spec (cn_id x) id) as [E|E]; [exfalso; apply Hn; left; exact E|].
      f_equal. apply IH. intros H. apply Hn. right. exact H.
  Qed.
  Lemma insert_after_mid nw : insert_after id nw (l1 ++ n :: l2) = l1 ++ n :: nw :: l2.
  Proof.
    induction l1 as [|x l IH]; cbn [app insert_after].
    - rewrite Hid, N.eqb_refl. reflexivity.
    - destruct (N.eqb_spec (cn_id x) id) as [E|E]; [exfalso; apply Hn; left; exact E|].
      f_equal. apply IH. intros H. apply Hn. right. exact H.
  Qed.
End Split.

Lemma before_after_split id ns n :
  find_node id ns = Some n -> ns = before id ns ++ n :: after id ns.
Proof.
  intros H. destruct (find_node_split _ _ _ H) as (l1&l2&->&Hn&Hid).
  rewrite before_mid, after_mid by assumption. reflexivity.
Qed.

Lemma before_not_in id ns : ~ In id (ids (before id ns)).
Proof.
  induction ns as [|x ns IH]; cbn [before]; [intros []|].
  destruct (N.eqb_spec (cn_id x) id) as [E|E]; [intros []|].
  cbn. intros [?|?]; [apply E; assumption|apply IH; assumption].
Qed.

Lemma ids_app a b : ids (a ++ b) = ids a ++ ids b.
Proof. apply map_app. Qed.

Lemma nodup_find ns n : NoDup (ids ns) -> In n ns -> find_node (cn_id n) ns = Some n.
Proof.
  induction ns as [|x ns IH]; [intros _ []|]. intros Hnd [->|Hin]; cbn [find_node].
  - rewrite N.eqb_refl. reflexivity.
  - cbn in Hnd. apply NoDup_cons_iff in Hnd as [Hx Hnd].
    destruct (N.eqb_spec (cn_id x) (cn_id n)) as [E|E]; [|apply IH; assumption].
    exfalso. apply Hx. rewrite E. apply in_map. exact Hin.
Qed.

Lemma nodup_mid l1 n l2 :
  NoDup (ids (l1 ++ n :: l2)) -> ~ In (cn_id n) (ids l1) /\ ~ In (cn_id n) (ids l2).
Proof.
  rewrite ids_app. cbn. intros H. apply NoDup_remove_2 in H. split; intros Hi; apply H, in_or_app; auto.
Qed.

Lemma update_node_map id f ns :
  NoDup (ids ns) -> update_node id f ns = map (upd id f) ns.
Proof.
  induction ns as [|x ns IH]; [reflexivity|]. intros Hnd. cbn in Hnd. apply NoDup_cons_iff in Hnd as [Hx Hnd].
  cbn [update_node map]. unfold upd at 1. destruct (N.eqb_spec (cn_id x) id) as [E|E].
  - f_equal. rewrite <- (map_id ns) at 1. apply map_ext_in. intros y Hy. unfold upd.
    destruct (N.eqb_spec (cn_id y) id) as [E'|E']; [|reflexivity].
    exfalso. apply Hx. rewrite E, <- E'. apply in_map. exact Hy.
  - f_equal. apply IH. exact Hnd.
Qed.

(** id-preserving maps commute with everything positional *)
Section IdMap.
  Variable g : cnode -> cnode.
  Hypothesis gid : forall x, cn_id (g x) = cn_id x.

  Lemma ids_map l : ids (map g l) = ids l.
  Proof. unfold ids. rewrite map_map. apply map_ext. exact gid. Qed.
  Lemma before_map id l : before id (map g l) = map g (before id l).
  Proof.
    induction l as [|x l IH]; [reflexivity|]. cbn [map before]. rewrite gid.
    destruct (cn_id x =? id); [reflexivity|]. cbn [map]. f_equal. exact IH.
  Qed.
  Lemma after_map id l : after id (map g l) = map g (after id l).
  Proof.
    induction l as [|x l IH]; [reflexivity|]. cbn [map after]. rewrite gid.
    destruct (cn_id x =? id); [reflexivity|]. exact IH.
  Qed.
  Lemma find_node_map id l : find_node id (map g l) = option_map g (find_node id l).
  Proof.
    induction l as [|x l IH]; [reflexivity|]. cbn [map find_node]. rewrite gid.
    destruct (cn_id x =? id); [reflexivity|]. exact IH.
  Qed.
End IdMap.

(** insert_after commutes with before / after at another node *)
Lemma insert_after_notin t nw l : ~ In t (ids l) -> insert_after t nw l = l.
Proof.
  induction l as [|x l IH]; [reflexivity|]. cbn. intros H.
  destruct (N.eqb_spec (cn_id x) t) as [E|E]; [exfalso; apply H; left; exact E|].
  f_equal. apply IH. intros Hi. apply H. right. exact Hi.
Qed.
Lemma in_after x id l : In x (after id l) -> In x l.
Proof.
  induction l as [|y l IH]; [intros []|]. cbn [after]. destruct (cn_id y =? id); cbn [In]; auto.
Qed.
Lemma in_before x id l : In x (before id l) -> In x l.
Proof.
  induction l as [|y l IH]; [intros []|]. cbn [before]. destruct (cn_id y =? id); cbn [In]; [tauto|].
  intros [?|?]; auto.
Qed.
Lemma before_insert_after cur t nw l :
  cur <> cn_id nw -> cur <> t -> before cur (insert_after t nw l) = insert_after t nw (before cur l).
Proof.
  intros H1 H2. induction l as [|x l IH]; [reflexivity|]. cbn [insert_after before].
  destruct (N.eqb_spec (cn_id x) t) as [E|E]; destruct (N.eqb_spec (cn_id x) cur) as [E'|E'];
    cbn [before insert_after].
  - congruence.
  - destruct (N.eqb_spec (cn_id x) cur); [contradiction|].
    destruct (N.eqb_spec (cn_id nw) cur); [congruence|].
    destruct (N.eqb_spec (cn_id x) t); [|contradiction]. reflexivity.
  - destruct (N.eqb_spec (cn_id x) cur); [|contradiction]. reflexivity.
  - destruct (N.eqb_spec (cn_id x) cur); [contradiction|].
    destruct (N.eqb_spec (cn_id x) t); [contradiction|]. f_equal. exact IH.
Qed.
Lemma after_insert_after cur t nw l :
  NoDup (ids l) ->
  cur <> cn_id nw -> cur <> t -> after cur (insert_after t nw l) = insert_after t nw (after cur l).
Proof.
  intros Hnd H1 H2. induction l as [|x l IH]; [reflexivity|]. cbn [insert_after after].
  cbn in Hnd. apply NoDup_cons_iff in Hnd as [Hx Hnd]. specialize (IH Hnd).
  destruct (N.eqb_spec (cn_id x) t) as [E|E]; destruct (N.eqb_spec (cn_id x) cur) as [E'|E'];
    cbn [after insert_after].
  - congruence.
  - destruct (N.eqb_spec (cn_id x) cur); [contradiction|].
    destruct (N.eqb_spec (cn_id nw) cur); [congruence|].
    symmetry. apply insert_after_notin. intros Hi. apply Hx. rewrite E.
    unfold ids in Hi. apply in_map_iff in Hi as (y&<-&Hy). apply in_map. eapply in_after. exact Hy.
  - destruct (N.eqb_spec (cn_id x) cur); [|contradiction]. reflexivity.
  - destruct (N.eqb_spec (cn_id x) cur); [contradiction|]. exact IH.
Qed.
Lemma before_insert_after_same t nw l : before t (insert_after t nw l) = before t l.
Proof.
  induction l as [|x l IH]; [reflexivity|]. cbn [insert_after before].
  destruct (N.eqb_spec (cn_id x) t) as [E|E]; cbn [before].
  - destruct (N.eqb_spec (cn_id x) t); [reflexivity|contradiction].
  - destruct (N.eqb_spec (cn_id x) t); [contradiction|]. f_equal. exact IH.
Qed.
Lemma after_insert_after_same t nw l :
  In t (ids l) -> after t (insert_after t nw l) = nw :: after t l.
Proof.
  induction l as [|x l IH]; [intros []|]. cbn [insert_after after]. intros Hin.
  destruct (N.eqb_spec (cn_id x) t) as [E|E]; cbn [after].
  - destruct (N.eqb_spec (cn_id x) t); [reflexivity|contradiction].
  - destruct (N.eqb_spec (cn_id x) t); [contradiction|]. apply IH. destruct Hin; [contradiction|assumption].
Qed.
Lemma find_node_insert_after id t nw l :
  id <> cn_id nw -> find_node id (insert_after t nw l) = find_node id l.
Proof.
  intros H. induction l as [|x l IH]; [reflexivity|]. cbn [insert_after].
  destruct (N.eqb_spec (cn_id x) t) as [E|E]; cbn [find_node].
  - destruct (cn_id x =? id); [reflexivity|].
    destruct (N.eqb_spec (cn_id nw) id); [congruence|]. reflexivity.
  - destruct (cn_id x =? id); [reflexivity|]. exact IH.
Qed.
Lemma in_insert_after x t nw l : In x (insert_after t nw l) -> x = nw \/ In x l.
Proof.
  induction l as [|y l IH]; [intros []|]. cbn [insert_after].
  destruct (cn_id y =? t); cbn [In].
  - intros [?|[?|?]]; auto.
  - intros [?|?]; [auto|]. destruct (IH H); auto.
Qed.

(** ** 4. well-formed chains *)
Fixpoint pairwise {A} (R : A -> A -> Prop) (l : list A) : Prop :=
  match l with
  | [] => True
  | x :: tl => (forall y, In y tl -> R x y) /\ pairwise R tl
  end.

Lemma pairwise_app {A} (R : A -> A -> Prop) a b :
  pairwise R (a ++ b) <-> pairwise R a /\ pairwise R b /\ (forall x y, In x a -> In y b -> R x y).
Proof.
  induction a as [|x a IH]; cbn [app pairwise].
  - split; [intros H; repeat split; auto; intros ? ? []|intros (_&H&_); exact H].
  - rewrite IH. split.
    + intros (H1&H2&H3&H4). repeat split; auto.
      * intros y Hy. apply H1, in_or_app. left. exact Hy.
      * intros x' y [<-|Hx] Hy; [apply H1, in_or_app; right; exact Hy|apply H4; assumption].
    + intros ((H1&H2)&H3&H4). repeat split; auto.
      * intros y Hy. apply in_app_or in Hy as [Hy|Hy]; [apply H1, Hy|apply H4; [left; reflexivity|exact Hy]].
      * intros x' y Hx Hy. apply H4; [right; exact Hx|exact Hy].
Qed.

Definition rel (a b : cnode) : Prop :=
  live a = true -> live b = true -> cn_lo a <= cn_lo b /\ forall k, In k (cn_keys a) -> k < cn_lo b.
Definition node_ok (n : cnode) : Prop :=
  sorted_strict (cn_keys n) = true /\ forall k, In k (cn_keys n) -> cn_lo n <= k.

Fixpoint next_ok (nx : option N) (tl : list cnode) : Prop :=
  match tl with
  | [] => nx = None
  | Y :: tl' => nx = Some (cn_id Y) \/ (live Y = false /\ next_ok nx tl')
  end.
Fixpoint nexts_ok (ns : list cnode) : Prop :=
  match ns with
  | [] => True
  | X :: tl => next_ok (cn_next X) tl /\ nexts_ok tl
  end.

Record WF (ns : list cnode) (fresh : N) : Prop := {
  wf_nodup : NoDup (ids ns);
  wf_fresh : forall n, In n ns -> cn_id n < fresh;
  wf_dead : forall n, In n ns -> live n = false -> cn_keys n = [];
  wf_ok : forall n, In n ns -> node_ok n;
  wf_ord : pairwise rel ns;
  wf_next : nexts_ok ns }.

Lemma rel_dead_l a b : live a = false -> rel a b.
Proof. intros H H1. congruence. Qed.
Lemma rel_dead_r a b : live b = false -> rel a b.
Proof. intros H _ H1. congruence. Qed.

Lemma nexts_ok_app a b : nexts_ok (a ++ b) -> nexts_ok b.
Proof. induction a as [|x a IH]; cbn [app nexts_ok]; [auto|]. intros [_ H]. apply IH, H. Qed.
Lemma nexts_ok_mid a X b : nexts_ok (a ++ X :: b) -> next_ok (cn_next X) b.
Proof. intros H. apply nexts_ok_app in H. apply H. Qed.

(** next_ok only looks at identities and liveness, and is monotone in "dead" *)
Lemma next_ok_map g nx tl :
  (forall x, cn_id (g x) = cn_id x) -> (forall x, In x tl -> live x = false -> live (g x) = false) ->
  next_ok nx tl -> next_ok nx (map g tl).
Proof.
  intros gid gd. induction tl as [|Y tl IH]; cbn [map next_ok]; [auto|].
  intros [H|[H1 H2]]; [left; rewrite gid; exact H|right]. split; [apply gd; [left; reflexivity|exact H1]|].
  apply IH; [|exact H2]. intros x Hx. apply gd. right. exact Hx.
Qed.
Lemma next_ok_in y tl : next_ok (Some y) tl -> In y (ids tl).
Proof.
  induction tl as [|Y tl IH]; cbn [next_ok]; [discriminate|].
  intros [H|[_ H]]; [injection H as ->; left; reflexivity|right; apply IH, H].
Qed.
Lemma next_ok_none tl : next_ok None tl <-> forall x, In x tl -> live x = false.
Proof.
  induction tl as [|Y tl IH]; cbn [next_ok].
  - split; [intros _ ? []|reflexivity].
  - rewrite IH. split.
    + intros [H|[H1 H2]]; [discriminate|]. intros x [<-|Hx]; auto.
    + intros H. right. split; [apply H; left; reflexivity|]. intros x Hx. apply H. right. exact Hx.
Qed.
(** the shape behind [next_ok (Some y)] *)
Lemma next_ok_some y tl :
  next_ok (Some y) tl -> exists d Y l3, tl = d ++ Y :: l3 /\ cn_id Y = y /\ (forall x, In x d -> live x = false).
Proof.
  induction tl as [|Y tl IH]; cbn [next_ok]; [discriminate|].
  intros [H|[H1 H2]].
  - injection H as ->. exists [], Y, tl. repeat split; auto. intros ? [].
  - destruct (IH H2) as (d&Y'&l3&->&Hid&Hd). exists (Y :: d), Y', l3. repeat split; auto.
    intros x [<-|Hx]; auto.
Qed.
Lemma next_ok_build nx d tl :
  (forall x, In x d -> live x = false) -> next_ok nx tl -> next_ok nx (d ++ tl).
Proof.
  intros Hd H. induction d as [|x d IH]; [exact H|]. cbn [app next_ok]. right.
  split; [apply Hd; left; reflexivity|]. apply IH. intros y Hy. apply Hd. right. exact Hy.
Qed.
Lemma next_ok_hit Y tl : next_ok (Some (cn_id Y)) (Y :: tl).
Proof. left. reflexivity. Qed.

Lemma nexts_ok_after ns id X : nexts_ok ns -> find_node id ns = Some X -> next_ok (cn_next X) (after id ns).
Proof.
  intros H Hf. destruct (find_node_split _ _ _ Hf) as (l1&l2&->&Hn&Hid).
  rewrite after_mid by assumption. eapply nexts_ok_mid. exact H.
Qed.

(** *** the initial chain *)
Lemma mk_nodes_facts kss : forall id,
  sorted_strict (concat kss) = true ->
  forallb (fun ks => match ks with [] => false | _ => true end) kss = true ->
  let ns := mk_nodes id false kss in
  NoDup (ids ns) /\ (forall n, In n ns -> id <= cn_id n < id + N.of_nat (length kss)) /\
  (forall n, In n ns -> live n = true /\ node_ok n /\ In (cn_lo n) (concat kss) /\
                        forall k, In k (cn_keys n) -> In k (concat kss)) /\
  pairwise rel ns /\ nexts_ok ns /\
  match ns with [] => kss = [] | n :: _ => cn_id n = id end.
Proof.
  induction kss as [|ks tl IH]; intros id Hs Hne ns.
  - subst ns. cbn. split; [constructor|]. split; [intros ? []|]. split; [intros ? []|]. auto.
  - cbn [forallb] in Hne. apply andb_true_iff in Hne as [Hks Hne].
    cbn [concat] in Hs. apply sorted_app in Hs as (Hs1&Hs2&Hs3).
    destruct (IH (id + 1) Hs2 Hne) as (I1&I2&I3&I4&I5&I6). clear IH.
    subst ns. cbn [mk_nodes]. set (rest := mk_nodes (id + 1) false tl) in *.
    set (hd := {| cn_id := id; cn_lo := match ks with [] => 0 | k :: _ => k end; cn_keys := ks;
                  cn_next := match tl with [] => None | _ :: _ => Some (id + 1) end; cn_ver := cver0 |}).
    split; [|split; [|split; [|split; [|split]]]].
    + cbn. constructor; [|exact I1]. intros Hin. unfold ids in Hin. apply in_map_iff in Hin as (n&E&Hn).
      apply I2 in Hn. cbn in E. lia.
    + intros n [<-|Hn]; [cbn [hd cn_id length]; lia|]. apply I2 in Hn. cbn [length]. lia.
    + intros n Hin. cbn [concat]. destruct Hin as [<-|Hn].
      * split; [reflexivity|]. split; [split; [exact Hs1|]|split].
        -- cbn [hd cn_lo cn_keys]. intros k Hk.
           destruct ks as [|k0 ks]; [destruct Hk|]. destruct Hk as [<-|Hk]; [lia|].
           apply sorted_cons in Hs1 as [Hs1 _]. specialize (Hs1 k Hk). lia.
        -- apply in_or_app. left. cbn [hd cn_lo]. destruct ks; [discriminate|left; reflexivity].
        -- intros k Hk. apply in_or_app. left. exact Hk.
      * destruct (I3 n Hn) as (J1&J2&J3&J4). repeat split; try apply J2; auto.
        -- apply in_or_app. right. exact J3.
        -- intros k Hk. apply in_or_app. right. apply J4, Hk.
    + cbn [pairwise]. split; [|exact I4].
      intros y Hy _ _. destruct (I3 y Hy) as (_&_&Hlo&_). cbn [hd cn_lo cn_keys]. split.
      * destruct ks as [|k0 ks]; [discriminate|]. apply N.lt_le_incl, Hs3; [left; reflexivity|exact Hlo].
      * intros k Hk. apply Hs3; assumption.
    + cbn [nexts_ok]. split; [|exact I5].
      cbn [hd cn_next]. destruct tl as [|ks' tl']; [subst rest; reflexivity|].
      subst rest. cbn [mk_nodes next_ok cn_id]. left. reflexivity.
    + reflexivity.
Qed.

Lemma WF_init kss : kss_ok kss = true -> WF (c_nodes (cinit kss)) (c_fresh (cinit kss)).
Proof.
  unfold kss_ok. intros H. apply andb_true_iff in H as [H H3]. apply andb_true_iff in H as [H1 H2].
  destruct kss as [|ks tl0]; [discriminate|]. clear H1. cbn [List.tl] in H3.
  cbn [concat] in H2. apply sorted_app in H2 as (Hs1&Hs2&Hs3).
  destruct (mk_nodes_facts tl0 1 Hs2 H3) as (I1&I2&I3&I4&I5&I6).
  cbn [cinit c_nodes c_fresh mk_nodes]. change (0 + 1) with 1.
  set (rest := mk_nodes 1 false tl0) in *.
  constructor.
  - cbn. constructor; [|exact I1]. intros Hin. unfold ids in Hin. apply in_map_iff in Hin as (n&E&Hn).
    apply I2 in Hn. cbn in E. lia.
  - intros n [<-|Hn]; [cbn [cn_id length]; lia|]. apply I2 in Hn. cbn [length]. lia.
  - intros n [<-|Hn]; [discriminate|]. destruct (I3 n Hn) as (Hl&_). congruence.
  - intros n [<-|Hn]; [|apply I3, Hn]. split; [exact Hs1|]. cbn. intros; lia.
  - cbn [pairwise]. split; [|exact I4]. intros y Hy _ _. cbn [cn_lo cn_keys]. split; [lia|].
    intros k Hk. destruct (I3 y Hy) as (_&_&Hlo&_). apply Hs3; assumption.
  - cbn [nexts_ok cn_next]. split; [|exact I5].
    destruct tl0 as [|ks' tl']; [subst rest; reflexivity|]. subst rest. cbn [mk_nodes next_ok cn_id]. left. reflexivity.
Qed.

(** *** cover *)
Lemma cover_from_spec k ns : forall best n,
  cover_from k best ns = Some n ->
  (best = Some n /\ forall b, In b ns -> live b = true -> k < cn_lo b) \/
  (exists l1 l2, ns = l1 ++ n :: l2 /\ live n = true /\ cn_lo n <= k /\
                 forall b, In b l2 -> live b = true -> k < cn_lo b).
Proof.
  induction ns as [|x ns IH]; intros best n; cbn [cover_from].
  - intros ->. left. split; [reflexivity|intros ? []].
  - destruct (live x) eqn:Lx; cbn [andb].
    + destruct (N.leb_spec (cn_lo x) k) as [Hle|Hgt].
      * intros H. apply IH in H as [[E Hb]|(l1&l2&->&H1&H2&H3)].
        -- injection E as ->. right. exists [], ns. repeat split; auto.
        -- right. exists (x :: l1), l2. repeat split; auto.
      * intros H. apply IH in H as [[E Hb]|(l1&l2&->&H1&H2&H3)].
        -- left. split; [exact E|]. intros b [<-|Hin] Hl; [exact Hgt|apply Hb; assumption].
        -- right. exists (x :: l1), l2. repeat split; auto.
    + intros H. apply IH in H as [[E Hb]|(l1&l2&->&H1&H2&H3)].
      * left. split; [exact E|]. intros b [<-|Hin] Hl; [congruence|apply Hb; assumption].
      * right. exists (x :: l1), l2. repeat split; auto.
Qed.

Lemma cover_spec k ns n :
  cover k ns = Some n ->
  exists l1 l2, ns = l1 ++ n :: l2 /\ live n = true /\ cn_lo n <= k /\
                forall b, In b l2 -> live b = true -> k < cn_lo b.
Proof.
  unfold cover. intros H. apply cover_from_spec in H as [[E _]|H]; [discriminate|exact H].
Qed.

(** *** replacing one node *)
Lemma next_ok_replace nx l1 n n' l2 :
  cn_id n' = cn_id n -> (live n = false -> live n' = false) ->
  next_ok nx (l1 ++ n :: l2) -> next_ok nx (l1 ++ n' :: l2).
Proof.
  intros Hid Hl. induction l1 as [|x l1 IH]; cbn [app next_ok].
  - rewrite Hid. intros [H|[H1 H2]]; [left; exact H|right; auto].
  - intros [H|[H1 H2]]; [left; exact H|right; auto].
Qed.
Lemma nexts_ok_replace l1 n n' l2 :
  cn_id n' = cn_id n -> (live n = false -> live n' = false) -> cn_next n' = cn_next n ->
  nexts_ok (l1 ++ n :: l2) -> nexts_ok (l1 ++ n' :: l2).
Proof.
  intros Hid Hl Hnx. induction l1 as [|x l1 IH]; cbn [app nexts_ok].
  - rewrite Hnx. auto.
  - intros [H1 H2]. split; [eapply next_ok_replace; eauto|auto].
Qed.

Lemma WF_replace l1 n n' l2 f :
  WF (l1 ++ n :: l2) f ->
  cn_id n' = cn_id n -> cn_next n' = cn_next n -> (live n = false -> live n' = false) ->
  (live n' = false -> cn_keys n' = []) -> node_ok n' ->
  (forall a, In a l1 -> rel a n') -> (forall b, In b l2 -> rel n' b) ->
  WF (l1 ++ n' :: l2) f.
Proof.
  intros [W1 W2 W3 W4 W5 W6] Hid Hnx Hl Hd Hok Ha Hb. constructor.
  - rewrite ids_app in *. cbn in *. rewrite Hid. exact W1.
  - intros x Hx. apply in_app_or in Hx as [Hx|[<-|Hx]].
    + apply W2, in_or_app. left. exact Hx.
    + rewrite Hid. apply W2, in_or_app. right. left. reflexivity.
    + apply W2, in_or_app. right. right. exact Hx.
  - intros x Hx. apply in_app_or in Hx as [Hx|[<-|Hx]]; [|exact Hd|].
    + apply W3, in_or_app. left. exact Hx.
    + apply W3, in_or_app. right. right. exact Hx.
  - intros x Hx. apply in_app_or in Hx as [Hx|[<-|Hx]]; [|exact Hok|].
    + apply W4, in_or_app. left. exact Hx.
    + apply W4, in_or_app. right. right. exact Hx.
  - apply pairwise_app in W5 as (P1&P2&P3). cbn [pairwise] in P2. destruct P2 as [P2 P4].
    apply pairwise_app. split; [exact P1|]. split; [split; [exact Hb|exact P4]|].
    intros x y Hx [<-|Hy]; [apply Ha, Hx|apply P3; [exact Hx|right; exact Hy]].
  - eapply nexts_ok_replace; eauto.
Qed.

Lemma WF_pair l1 n l2 f :
  WF (l1 ++ n :: l2) f -> (forall a, In a l1 -> rel a n) /\ (forall b, In b l2 -> rel n b).
Proof.
  intros [_ _ _ _ W5 _]. apply pairwise_app in W5 as (P1&P2&P3). cbn [pairwise] in P2. destruct P2 as [P2 P4].
  split; [|exact P2]. intros a Ha. apply P3; [exact Ha|left; reflexivity].
Qed.

Lemma in_lk k n : In k (lk n) <-> live n = true /\ In k (cn_keys n).
Proof. unfold lk. destruct (live n); cbn; intuition congruence. Qed.

Definition ins_f k (x : cnode) := with_keys x (insert_sorted k (cn_keys x)) (bump_ins (cn_ver x)).
(** a remove leaves the version word of its border unchanged *)
Definition rem_f k (x : cnode) := with_keys x (remove_key k (cn_keys x)) (cn_ver x).

Lemma WF_ins ns f k n :
  WF ns f -> cover k ns = Some n -> ~ In k (all_keys ns) -> WF (update_node (cn_id n) (ins_f k) ns) f.
Proof.
  intros W Hc Hk. destruct (cover_spec _ _ _ Hc) as (l1&l2&->&Hl&Hlo&Hb).
  destruct (nodup_mid _ _ _ (wf_nodup _ _ W)) as [N1 N2].
  rewrite update_node_mid by auto.
  destruct (WF_pair _ _ _ _ W) as [Pa Pb].
  assert (Hok : node_ok n) by (apply (wf_ok _ _ W), in_or_app; right; left; reflexivity).
  apply (WF_replace _ _ _ _ _ W); try reflexivity.
  - auto.
  - unfold live. cbn. fold (live n). congruence.
  - destruct Hok as [H1 H2]. split; cbn.
    + apply sorted_insert; [exact H1|]. intros Hi. apply Hk. apply in_all_keys. exists n.
      split; [apply in_or_app; right; left; reflexivity|]. apply in_lk. auto.
    + intros x Hx. apply in_insert_sorted in Hx as [->|Hx]; auto.
  - intros a Ha. exact (Pa a Ha).
  - intros b Hin _ Hlb. destruct (Pb b Hin Hl Hlb) as [P1 P2]. split; [exact P1|]. cbn.
    intros x Hx. apply in_insert_sorted in Hx as [->|Hx]; auto.
Qed.

Lemma WF_rem ns f k n :
  WF ns f -> In n ns -> WF (update_node (cn_id n) (rem_f k) ns) f.
Proof.
  intros W Hin. apply in_split in Hin as (l1&l2&->).
  destruct (nodup_mid _ _ _ (wf_nodup _ _ W)) as [N1 N2].
  rewrite update_node_mid by auto.
  destruct (WF_pair _ _ _ _ W) as [Pa Pb].
  assert (Hin : In n (l1 ++ n :: l2)) by (apply in_or_app; right; left; reflexivity).
  assert (Hok : node_ok n) by (apply (wf_ok _ _ W), Hin).
  apply (WF_replace _ _ _ _ _ W); try reflexivity.
  - auto.
  - unfold live at 1. cbn. fold (live n). intros Hd. rewrite (wf_dead _ _ W n Hin Hd). reflexivity.
  - destruct Hok as [H1 H2]. split; cbn.
    + apply sorted_filter, H1.
    + intros x Hx. apply in_remove_key in Hx as [Hx _]. auto.
  - intros a Ha. exact (Pa a Ha).
  - intros b Hb Hl Hlb. destruct (Pb b Hb Hl Hlb) as [P1 P2]. split; [exact P1|]. cbn.
    intros x Hx. apply in_remove_key in Hx as [Hx _]. auto.
Qed.

(** *** split *)
Definition split_f (m fresh : N) (x : cnode) : cnode :=
  with_next (with_keys x (filter (fun y => y <? m) (cn_keys x)) (bump_split (cn_ver x))) (Some fresh).
Definition split_nw (m fresh : N) (n : cnode) : cnode :=
  {| cn_id := fresh; cn_lo := m; cn_keys := filter (fun x => m <=? x) (cn_keys n);
     cn_next := cn_next n; cn_ver := cver0 |}.

Lemma next_ok_split_in nx l1 T T' nw l2 :
  cn_id T' = cn_id T -> live T = true ->
  next_ok nx (l1 ++ T :: l2) -> next_ok nx (l1 ++ T' :: nw :: l2).
Proof.
  intros Hid Hl. induction l1 as [|x l1 IH]; cbn [app next_ok].
  - rewrite Hid. intros [H|[H1 H2]]; [left; exact H|congruence].
  - intros [H|[H1 H2]]; [left; exact H|right; auto].
Qed.

Lemma WF_split l1 T l2 f m :
  WF (l1 ++ T :: l2) f -> live T = true -> In m (cn_keys T) -> (exists x, In x (cn_keys T) /\ x < m) ->
  WF (l1 ++ split_f m f T :: split_nw m f T :: l2) (f + 1).
Proof.
  intros W Hl Hm (x0&Hx0&Hx0m).
  destruct (WF_pair _ _ _ _ W) as [Pa Pb].
  assert (HinT : In T (l1 ++ T :: l2)) by (apply in_or_app; right; left; reflexivity).
  destruct (wf_ok _ _ W T HinT) as [Hs Hlo].
  assert (HloT : cn_lo T <= m) by (specialize (Hlo x0 Hx0); lia).
  assert (LT' : live (split_f m f T) = true) by exact Hl.
  destruct W as [W1 W2 W3 W4 W5 W6]. constructor.
  - rewrite ids_app in *. cbn [ids map] in *. change (cn_id (split_f m f T)) with (cn_id T).
    change (cn_id (split_nw m f T)) with f.
    replace (ids l1 ++ cn_id T :: f :: map cn_id l2)
      with ((ids l1 ++ [cn_id T]) ++ f :: map cn_id l2) by (rewrite <- app_assoc; reflexivity).
    apply (NoDup_Add (Add_app f _ _)). rewrite <- app_assoc. cbn [app]. split; [exact W1|].
    intros Hin. assert (Hin' : In f (ids (l1 ++ T :: l2))) by (rewrite ids_app; exact Hin).
    unfold ids in Hin'. apply in_map_iff in Hin' as (y&E&Hy). apply W2 in Hy. lia.
  - intros x Hx. apply in_app_or in Hx as [Hx|[<-|[<-|Hx]]].
    + assert (cn_id x < f) by (apply W2, in_or_app; left; exact Hx). lia.
    + change (cn_id (split_f m f T)) with (cn_id T). specialize (W2 T HinT). lia.
    + cbn. lia.
    + assert (cn_id x < f) by (apply W2, in_or_app; right; right; exact Hx). lia.
  - intros x Hx. apply in_app_or in Hx as [Hx|[<-|[<-|Hx]]].
    + apply W3, in_or_app. left. exact Hx.
    + congruence.
    + discriminate.
    + apply W3, in_or_app. right. right. exact Hx.
  - intros x Hx. apply in_app_or in Hx as [Hx|[<-|[<-|Hx]]].
    + apply W4, in_or_app. left. exact Hx.
    + split; cbn; [apply sorted_filter, Hs|]. intros k Hk. apply filter_In in Hk as [Hk _]. auto.
    + split; cbn; [apply sorted_filter, Hs|]. intros k Hk. apply filter_In in Hk as [_ Hk].
      apply N.leb_le in Hk. exact Hk.
    + apply W4, in_or_app. right. right. exact Hx.
  - apply pairwise_app in W5 as (P1&P2&P3). cbn [pairwise] in P2. destruct P2 as [P2 P4].
    apply pairwise_app. split; [exact P1|]. split; [cbn [pairwise]; split; [|split; [|exact P4]]|].
    + intros y [<-|Hy].
      * intros _ _. cbn. split; [exact HloT|]. intros k Hk. apply filter_In in Hk as [_ Hk].
        apply N.ltb_lt in Hk. exact Hk.
      * intros _ Hly. destruct (Pb y Hy Hl Hly) as [Q1 Q2]. split; [exact Q1|]. cbn.
        intros k Hk. apply filter_In in Hk as [Hk _]. auto.
    + intros y Hy _ Hly. destruct (Pb y Hy Hl Hly) as [Q1 Q2]. cbn. split.
      * apply N.lt_le_incl, Q2, Hm.
      * intros k Hk. apply filter_In in Hk as [Hk _]. auto.
    + intros a y Ha [<-|[<-|Hy]].
      * intros La _. destruct (Pa a Ha La Hl) as [Q1 Q2]. split; [exact Q1|exact Q2].
      * intros La _. destruct (Pa a Ha La Hl) as [Q1 Q2]. cbn. split; [lia|].
        intros k Hk. specialize (Q2 k Hk). lia.
      * apply P3; [exact Ha|right; exact Hy].
  - clear - W6 Hl. induction l1 as [|x l1 IH]; cbn [app nexts_ok] in *.
    + destruct W6 as [H1 H2]. split; [left; reflexivity|]. split; [exact H1|exact H2].
    + destruct W6 as [H1 H2]. split; [|apply IH, H2].
      apply (next_ok_split_in _ _ T); [reflexivity|exact Hl|exact H1].
Qed.

(** *** unlink *)
Definition kill_f (x : cnode) : cnode := with_keys x [] (set_del (cn_ver x)).
Definition redir (u : N) (nu : option N) (x : cnode) : cnode :=
  if live x && opt_id_eqb (cn_next x) u then with_next x nu else x.
Definition lo_f (lo : N) (x : cnode) : cnode := with_lo x lo.

Lemma redir_id u nu x : cn_id (redir u nu x) = cn_id x.
Proof. unfold redir. destruct (_ && _); reflexivity. Qed.
Lemma redir_lo u nu x : cn_lo (redir u nu x) = cn_lo x.
Proof. unfold redir. destruct (_ && _); reflexivity. Qed.
Lemma redir_keys u nu x : cn_keys (redir u nu x) = cn_keys x.
Proof. unfold redir. destruct (_ && _); reflexivity. Qed.
Lemma redir_ver u nu x : cn_ver (redir u nu x) = cn_ver x.
Proof. unfold redir. destruct (_ && _); reflexivity. Qed.
Lemma redir_live u nu x : live (redir u nu x) = live x.
Proof. unfold live. rewrite redir_ver. reflexivity. Qed.
Lemma redir_dead u nu x : live x = false -> redir u nu x = x.
Proof. unfold redir. intros ->. reflexivity. Qed.
Lemma opt_id_eqb_true a id : opt_id_eqb a id = true <-> a = Some id.
Proof.
  destruct a as [x|]; cbn; [|split; discriminate]. rewrite N.eqb_eq. split; [intros ->; reflexivity|].
  intros H. injection H as ->. reflexivity.
Qed.

Lemma pairwise_rel_map g l :
  (forall x, live (g x) = live x /\ cn_lo (g x) = cn_lo x /\ cn_keys (g x) = cn_keys x) ->
  pairwise rel l -> pairwise rel (map g l).
Proof.
  intros Hg. induction l as [|x l IH]; cbn [map pairwise]; [auto|]. intros [H1 H2]. split; [|auto].
  intros y Hy. apply in_map_iff in Hy as (y0&<-&Hy0). specialize (H1 y0 Hy0).
  destruct (Hg x) as (A1&A2&A3). destruct (Hg y0) as (B1&B2&B3).
  unfold rel in *. rewrite A1, A2, A3, B1, B2. exact H1.
Qed.

Lemma next_ok_skip u nu tl :
  next_ok (Some u) tl -> nexts_ok tl ->
  (forall Y, In Y tl -> cn_id Y = u -> live Y = false /\ cn_next Y = nu) -> next_ok nu tl.
Proof.
  induction tl as [|Y tl IH]; cbn [next_ok nexts_ok]; [discriminate|].
  intros [H|[H1 H2]] [N1 N2] HU.
  - injection H as H. destruct (HU Y (or_introl eq_refl) (eq_sym H)) as [D E]. right. split; [exact D|].
    rewrite <- E. exact N1.
  - right. split; [exact H1|]. apply IH; auto. intros Z HZ. apply HU. right. exact HZ.
Qed.

Lemma nexts_ok_redir u nu l :
  nexts_ok l -> (forall Y, In Y l -> cn_id Y = u -> live Y = false /\ cn_next Y = nu) ->
  nexts_ok (map (redir u nu) l).
Proof.
  induction l as [|X tl IH]; cbn [map nexts_ok]; [auto|]. intros [H1 H2] HU.
  assert (HU' : forall Y, In Y tl -> cn_id Y = u -> live Y = false /\ cn_next Y = nu)
    by (intros Z HZ; apply HU; right; exact HZ).
  split; [|apply IH; assumption].
  apply next_ok_map; [apply redir_id|intros x _ Hx; rewrite redir_live; exact Hx|].
  unfold redir. destruct (live X && opt_id_eqb (cn_next X) u) eqn:C; [|exact H1].
  cbn [with_next cn_next]. apply andb_true_iff in C as [_ C]. apply opt_id_eqb_true in C.
  rewrite C in H1. eapply next_ok_skip; eauto.
Qed.

Lemma WF_redir ms f u U' :
  WF ms f -> find_node u ms = Some U' -> live U' = false -> WF (map (redir u (cn_next U')) ms) f.
Proof.
  intros W Hf Hd. pose proof (wf_nodup _ _ W) as Hnd. destruct W as [W1 W2 W3 W4 W5 W6]. constructor.
  - rewrite ids_map by apply redir_id. exact W1.
  - intros x Hx. apply in_map_iff in Hx as (y&<-&Hy). rewrite redir_id. auto.
  - intros x Hx. apply in_map_iff in Hx as (y&<-&Hy). rewrite redir_live, redir_keys. auto.
  - intros x Hx. apply in_map_iff in Hx as (y&<-&Hy). unfold node_ok. rewrite redir_keys, redir_lo.
    apply W4, Hy.
  - apply pairwise_rel_map; [|exact W5]. intros x. rewrite redir_live, redir_lo, redir_keys. auto.
  - apply nexts_ok_redir; [exact W6|]. intros Y HY E. rewrite <- E in Hf.
    rewrite (nodup_find _ _ Hnd HY) in Hf. injection Hf as ->. auto.
Qed.

Lemma first_live_split l nx :
  first_live l = Some nx ->
  exists d l3, l = d ++ nx :: l3 /\ (forall x, In x d -> live x = false) /\ live nx = true.
Proof.
  induction l as [|x l IH]; cbn [first_live]; [discriminate|]. destruct (live x) eqn:Lx.
  - intros H. injection H as ->. exists [], l. repeat split; auto. intros ? [].
  - intros H. destruct (IH H) as (d&l3&->&Hd&Hl). exists (x :: d), l3. repeat split; auto.
    intros y [<-|Hy]; auto.
Qed.

Lemma WF_kill l1 U l2 f :
  WF (l1 ++ U :: l2) f -> WF (l1 ++ kill_f U :: l2) f.
Proof.
  intros W. apply (WF_replace _ _ _ _ _ W); try reflexivity.
  - split; cbn; [reflexivity|intros ? []].
  - intros a _. apply rel_dead_r. reflexivity.
  - intros b _. apply rel_dead_l. reflexivity.
Qed.

Lemma WF_kill_absorb l1 U d NX l3 f :
  WF (l1 ++ U :: d ++ NX :: l3) f -> live U = true -> live NX = true ->
  (forall x, In x d -> live x = false) ->
  WF (l1 ++ kill_f U :: d ++ lo_f (cn_lo U) NX :: l3) f.
Proof.
  intros W LU LN Hd. pose proof (WF_kill _ _ _ _ W) as W'.
  destruct (WF_pair _ _ _ _ W) as [Pa Pb].
  assert (HNX : In NX (d ++ NX :: l3)) by (apply in_or_app; right; left; reflexivity).
  destruct (Pb NX HNX LU LN) as [Q1 Q2].
  replace (l1 ++ U :: d ++ NX :: l3) with ((l1 ++ U :: d) ++ NX :: l3) in W
    by (rewrite <- app_assoc; reflexivity).
  destruct (WF_pair _ _ _ _ W) as [Pa' Pb'].
  assert (Hok : node_ok NX) by (apply (wf_ok _ _ W), in_or_app; right; left; reflexivity).
  assert (Hdd : live NX = false -> cn_keys NX = [])
    by (apply (wf_dead _ _ W), in_or_app; right; left; reflexivity).
  replace (l1 ++ kill_f U :: d ++ NX :: l3) with ((l1 ++ kill_f U :: d) ++ NX :: l3) in W'
    by (rewrite <- app_assoc; reflexivity).
  replace (l1 ++ kill_f U :: d ++ lo_f (cn_lo U) NX :: l3)
    with ((l1 ++ kill_f U :: d) ++ lo_f (cn_lo U) NX :: l3) by (rewrite <- app_assoc; reflexivity).
  apply (WF_replace _ _ _ _ _ W'); try reflexivity; auto.
  - destruct Hok as [H1 H2]. split; [exact H1|]. cbn. intros k Hk. specialize (H2 k Hk). lia.
  - intros a Ha. apply in_app_or in Ha as [Ha|[<-|Ha]].
    + intros La _. destruct (Pa a Ha La LU) as [R1 R2]. cbn. split; assumption.
    + apply rel_dead_l. reflexivity.
    + apply rel_dead_l. auto.
  - intros b Hb _ Lb. destruct (Pb' b Hb LN Lb) as [R1 R2]. cbn. split; [lia|exact R2].
Qed.

Lemma kill_redir U u : kill_f (redir u (cn_next U) U) = redir u (cn_next U) (kill_f U).
Proof.
  rewrite (redir_dead _ _ (kill_f U)) by reflexivity.
  unfold redir. destruct (_ && _); reflexivity.
Qed.

Lemma WF_unlink_left ns f u U :
  WF ns f -> find_node u ns = Some U ->
  WF (update_node u kill_f (map (redir u (cn_next U)) ns)) f.
Proof.
  intros W Hf. destruct (find_node_split _ _ _ Hf) as (l1&l2&->&Hn&Hid).
  rewrite map_app. cbn [map]. rewrite update_node_mid;
    [|rewrite ids_map by apply redir_id; exact Hn|rewrite redir_id; exact Hid].
  rewrite kill_redir. pose proof (WF_kill _ _ _ _ W) as W'.
  assert (Hf' : find_node u (l1 ++ kill_f U :: l2) = Some (kill_f U)) by (apply find_node_mid; auto).
  pose proof (WF_redir _ _ _ _ W' Hf' eq_refl) as W''. rewrite map_app in W''. exact W''.
Qed.

Lemma WF_unlink_right ns f u U NX :
  WF ns f -> find_node u ns = Some U -> live U = true -> first_live (after u ns) = Some NX ->
  WF (update_node u kill_f (map (redir u (cn_next U)) (update_node (cn_id NX) (lo_f (cn_lo U)) ns))) f.
Proof.
  intros W Hf LU Hfl. destruct (find_node_split _ _ _ Hf) as (l1&l2&->&Hn&Hid).
  rewrite after_mid in Hfl by auto. destruct (first_live_split _ _ Hfl) as (d&l3&->&Hd&LN).
  pose proof (wf_nodup _ _ W) as Hnd.
  assert (E1 : update_node (cn_id NX) (lo_f (cn_lo U)) (l1 ++ U :: d ++ NX :: l3)
               = l1 ++ U :: d ++ lo_f (cn_lo U) NX :: l3).
  { replace (l1 ++ U :: d ++ NX :: l3) with ((l1 ++ U :: d) ++ NX :: l3) in *
      by (rewrite <- app_assoc; reflexivity).
    destruct (nodup_mid _ _ _ Hnd) as [N1 _]. rewrite update_node_mid by auto.
    rewrite <- app_assoc. reflexivity. }
  rewrite E1. rewrite map_app. cbn [map]. rewrite update_node_mid;
    [|rewrite ids_map by apply redir_id; exact Hn|rewrite redir_id; exact Hid].
  rewrite kill_redir. pose proof (WF_kill_absorb _ _ _ _ _ _ W LU LN Hd) as W'.
  assert (Hf' : find_node u (l1 ++ kill_f U :: d ++ lo_f (cn_lo U) NX :: l3) = Some (kill_f U))
    by (apply find_node_mid; auto).
  pose proof (WF_redir _ _ _ _ W' Hf' eq_refl) as W''. rewrite map_app in W''. exact W''.
Qed.

(** *** inversion of the writer steps *)
Lemma cstep_ins fx s k s' :
  cstep fx s (EIns k) = Some s' ->
  exists n, ~ In k (all_keys (c_nodes s)) /\ cover k (c_nodes s) = Some n /\
    s' = {| c_nodes := update_node (cn_id n) (ins_f k) (c_nodes s); c_fresh := c_fresh s; c_scan := c_scan s;
            c_stable := c_stable s;
            c_ever := if scanning (c_scan s) then k :: c_ever s else c_ever s |}.
Proof.
  cbn [cstep]. destruct (mem k (all_keys (c_nodes s))) eqn:M; [discriminate|].
  destruct (cover k (c_nodes s)) as [n|] eqn:C; [|discriminate]. intros H. injection H as <-.
  exists n. apply mem_false in M. auto.
Qed.
Lemma cstep_rem fx s k s' :
  cstep fx s (ERem k) = Some s' ->
  exists n, In k (all_keys (c_nodes s)) /\ cover k (c_nodes s) = Some n /\
    s' = {| c_nodes := update_node (cn_id n) (rem_f k) (c_nodes s); c_fresh := c_fresh s; c_scan := c_scan s;
            c_stable := remove_key k (c_stable s); c_ever := c_ever s |}.
Proof.
  cbn [cstep]. destruct (mem k (all_keys (c_nodes s))) eqn:M; [|discriminate]. cbn [negb].
  destruct (cover k (c_nodes s)) as [n|] eqn:C; [|discriminate]. intros H. injection H as <-.
  exists n. apply mem_true in M. auto.
Qed.
Lemma cstep_split fx s t m s' :
  cstep fx s (ESplit t m) = Some s' ->
  exists T, find_node t (c_nodes s) = Some T /\ live T = true /\ In m (cn_keys T) /\
    (exists x, In x (cn_keys T) /\ x < m) /\
    s' = {| c_nodes := insert_after t (split_nw m (c_fresh s) T) (update_node t (split_f m (c_fresh s)) (c_nodes s));
            c_fresh := c_fresh s + 1; c_scan := c_scan s; c_stable := c_stable s; c_ever := c_ever s |}.
Proof.
  cbn [cstep]. destruct (find_node t (c_nodes s)) as [T|] eqn:F; [|discriminate].
  destruct (live T && mem m (cn_keys T) && existsb (fun x => x <? m) (cn_keys T)) eqn:C; [|discriminate].
  apply andb_true_iff in C as [C C3]. apply andb_true_iff in C as [C1 C2].
  intros H. injection H as <-. exists T. apply mem_true in C2. apply existsb_exists in C3 as (x&Hx&Hxm).
  apply N.ltb_lt in Hxm. repeat split; eauto.
Qed.
Lemma cstep_unlink fx s u ar s' :
  cstep fx s (EUnlink u ar) = Some s' ->
  exists U, find_node u (c_nodes s) = Some U /\ live U = true /\ cn_keys U = [] /\
    ((ar = true /\ exists NX, first_live (after u (c_nodes s)) = Some NX /\
       s' = {| c_nodes := update_node u kill_f (map (redir u (cn_next U))
                             (update_node (cn_id NX) (lo_f (cn_lo U)) (c_nodes s)));
               c_fresh := c_fresh s; c_scan := c_scan s; c_stable := c_stable s; c_ever := c_ever s |}) \/
     (ar = false /\
       s' = {| c_nodes := update_node u kill_f (map (redir u (cn_next U)) (c_nodes s));
               c_fresh := c_fresh s; c_scan := c_scan s; c_stable := c_stable s; c_ever := c_ever s |})).
Proof.
  cbn [cstep]. destruct (find_node u (c_nodes s)) as [U|] eqn:F; [|discriminate].
  destruct (live U) eqn:LU; [|discriminate]. cbn [andb].
  destruct (cn_keys U) as [|? ?] eqn:K; [|discriminate].
  destruct ar.
  - destruct (first_live (after u (c_nodes s))) as [NX|] eqn:FL; [|discriminate].
    intros H. injection H as <-. exists U. repeat split; auto. left. split; [reflexivity|]. exists NX. auto.
  - destruct (has_live (before u (c_nodes s))); [|discriminate].
    intros H. injection H as <-. exists U. repeat split; auto.
Qed.

Definition writer (e : cev) : bool :=
  match e with EIns _ | ERem _ | ESplit _ _ | EUnlink _ _ => true | _ => false end.

Lemma cstep_scan_nodes fx s e s' :
  writer e = false -> cstep fx s e = Some s' ->
  c_nodes s' = c_nodes s /\ c_fresh s' = c_fresh s.
Proof.
  destruct e; try discriminate; intros _; cbn [cstep].
  - destruct (sc_pc (c_scan s)); try discriminate.
    destruct (start_scan _ _ _ _); [|discriminate]. intros H. injection H as <-. auto.
  - destruct (sc_pc (c_scan s)); try discriminate.
    destruct (find_node _ _); [|discriminate]. intros H. injection H as <-. auto.
  - destruct (sc_pc (c_scan s)); try discriminate. intros H. injection H as <-. auto.
  - destruct (sc_pc (c_scan s)); try discriminate.
    destruct (find_node _ _); [|discriminate].
    destruct (start_scan _ _ _ _) as [sc'|].
    + destruct (cver_eqb _ _).
      * destruct (fx && _); [intros H; injection H as <-; auto|].
        destruct (if existsb _ _ then None else sc_nxt (c_scan s)); intros H; injection H as <-; auto.
      * destruct (_ || _); intros H; injection H as <-; auto.
    + destruct (cver_eqb _ _).
      * destruct (fx && _); [discriminate|].
        destruct (if existsb _ _ then None else sc_nxt (c_scan s)); intros H; injection H as <-; auto.
      * destruct (_ || _); [discriminate|]. intros H; injection H as <-; auto.
Qed.

Lemma WF_step fx s e s' :
  WF (c_nodes s) (c_fresh s) -> cstep fx s e = Some s' -> WF (c_nodes s') (c_fresh s').
Proof.
  intros W H. destruct (writer e) eqn:We.
  - destruct e; try discriminate.
    + apply cstep_ins in H as (n&Hk&Hc&->). cbn. apply WF_ins; assumption.
    + apply cstep_rem in H as (n&Hk&Hc&->). cbn. apply WF_rem; [assumption|].
      destruct (cover_spec _ _ _ Hc) as (l1&l2&->&_). apply in_or_app. right. left. reflexivity.
    + apply cstep_split in H as (T&Hf&LT&Hm&Hx&->). cbn.
      destruct (find_node_split _ _ _ Hf) as (l1&l2&E&Hn&Hid). rewrite E in *.
      rewrite update_node_mid by auto. rewrite insert_after_mid by auto.
      apply WF_split; assumption.
    + apply cstep_unlink in H as (U&Hf&LU&HK&[(_&NX&Hfl&->)|(_&->)]); cbn.
      * apply WF_unlink_right; assumption.
      * apply WF_unlink_left; assumption.
  - destruct (cstep_scan_nodes _ _ _ _ We H) as [-> ->]. exact W.
Qed.

(** ** 5. the writer steps as id-preserving maps *)
Record wmap (ns : list cnode) (g : cnode -> cnode) (gain lost : N -> Prop) : Prop := {
  g_id : forall x, cn_id (g x) = cn_id x;
  g_dead : forall x, In x ns -> live x = false -> g x = x;
  g_vle : forall x, In x ns -> vle (cn_ver x) (cn_ver (g x));
  (* an unchanged version only excludes inserts, splits and the unlink: keys may have been removed *)
  g_same : forall x, In x ns -> cn_ver (g x) = cn_ver x -> forall k, In k (cn_keys (g x)) -> In k (cn_keys x);
  g_lo : forall x, In x ns -> cn_lo (g x) <= cn_lo x;
  (* a lower bound only moves when the node absorbs the range of the live node unlinked right before it *)
  g_lo_up : forall x, In x ns -> live (g x) = true ->
            cn_lo (g x) = cn_lo x \/
            exists u U, find_node u ns = Some U /\ live U = true /\ live (g U) = false /\
                        cn_lo (g x) = cn_lo U /\ first_live (after u ns) = Some x;
  g_keys : forall x, In x ns -> forall k, In k (lk (g x)) -> In k (lk x) \/ gain k;
  g_keep : forall x, In x ns -> forall k, In k (lk x) -> In k (lk (g x)) \/ lost k }.

Lemma upd_id id f x : (forall y, cn_id (f y) = cn_id y) -> cn_id (upd id f x) = cn_id x.
Proof. intros H. unfold upd. destruct (_ =? _); auto. Qed.

Lemma live_same_ver a b : cv_del (cn_ver a) = cv_del (cn_ver b) -> live a = live b.
Proof. unfold live. intros ->. reflexivity. Qed.

Lemma wmap_ins ns f k n :
  WF ns f -> cover k ns = Some n -> wmap ns (upd (cn_id n) (ins_f k)) (eq k) (fun _ => False).
Proof.
  intros W Hc. destruct (cover_spec _ _ _ Hc) as (l1&l2&E&Hl&_).
  assert (Hin : In n ns) by (rewrite E; apply in_or_app; right; left; reflexivity).
  assert (Huniq : forall x, In x ns -> cn_id x = cn_id n -> x = n).
  { intros x Hx Ex. pose proof (nodup_find _ _ (wf_nodup _ _ W) Hx) as F1.
    pose proof (nodup_find _ _ (wf_nodup _ _ W) Hin) as F2. congruence. }
  constructor; intros x; unfold upd.
  - destruct (_ =? _); reflexivity.
  - intros Hx Hd. destruct (N.eqb_spec (cn_id x) (cn_id n)) as [Ex|]; [|reflexivity].
    rewrite (Huniq x Hx Ex) in Hd. congruence.
  - intros _. destruct (_ =? _); [apply vle_bump_ins|apply vle_refl].
  - intros _. destruct (_ =? _); [|auto]. cbn. intros H. exfalso. exact (bump_ins_neq _ H).
  - intros _. destruct (_ =? _); cbn; lia.
  - intros _ _. left. destruct (_ =? _); reflexivity.
  - intros _ k'. destruct (_ =? _); [|auto]. rewrite !in_lk. unfold live at 1. cbn. fold (live x).
    intros [H1 H2]. apply in_insert_sorted in H2 as [->|H2]; auto.
  - intros _ k'. destruct (_ =? _); [|auto]. rewrite !in_lk. unfold live at 2. cbn. fold (live x).
    intros [H1 H2]. left. split; [exact H1|]. apply in_insert_sorted. auto.
Qed.

Lemma nodup_uniq ns x n : NoDup (ids ns) -> In x ns -> In n ns -> cn_id x = cn_id n -> x = n.
Proof.
  intros Hnd Hx Hn E. pose proof (nodup_find _ _ Hnd Hx) as F1. pose proof (nodup_find _ _ Hnd Hn) as F2.
  congruence.
Qed.

Lemma wmap_rem ns f k n :
  WF ns f -> In n ns -> live n = true -> wmap ns (upd (cn_id n) (rem_f k)) (fun _ => False) (eq k).
Proof.
  intros W Hin Hl. constructor; intros x; unfold upd.
  - destruct (_ =? _); reflexivity.
  - intros Hx Hd. destruct (N.eqb_spec (cn_id x) (cn_id n)) as [Ex|]; [|reflexivity].
    rewrite (nodup_uniq _ _ _ (wf_nodup _ _ W) Hx Hin Ex) in Hd. congruence.
  - intros _. destruct (_ =? _); apply vle_refl.
  - intros _. destruct (_ =? _); [|auto]. cbn. intros _ k' Hk'. apply in_remove_key in Hk' as [Hk' _]. exact Hk'.
  - intros _. destruct (_ =? _); cbn; lia.
  - intros _ _. left. destruct (_ =? _); reflexivity.
  - intros _ k'. destruct (_ =? _); [|auto]. rewrite !in_lk. unfold live at 1. cbn. fold (live x).
    intros [H1 H2]. apply in_remove_key in H2 as [H2 _]. auto.
  - intros _ k'. destruct (_ =? _); [|auto]. rewrite !in_lk. unfold live at 2. cbn. fold (live x).
    intros [H1 H2]. destruct (N.eq_dec k' k) as [->|Hne]; [right; reflexivity|left].
    split; [exact H1|]. apply in_remove_key. auto.
Qed.

Lemma wmap_split ns f t T m :
  WF ns f -> find_node t ns = Some T -> live T = true ->
  wmap ns (upd t (split_f m f)) (fun _ => False) (fun k => In k (lk (split_nw m f T))).
Proof.
  intros W Hf Hl. destruct (find_node_In _ _ _ Hf) as [Hin Hid]. subst t.
  constructor; intros x; unfold upd.
  - destruct (_ =? _); reflexivity.
  - intros Hx Hd. destruct (N.eqb_spec (cn_id x) (cn_id T)) as [Ex|]; [|reflexivity].
    rewrite (nodup_uniq _ _ _ (wf_nodup _ _ W) Hx Hin Ex) in Hd. congruence.
  - intros _. destruct (_ =? _); [apply vle_bump_split|apply vle_refl].
  - intros _. destruct (_ =? _); [|auto]. cbn. intros H. exfalso. exact (bump_split_neq _ H).
  - intros _. destruct (_ =? _); cbn; lia.
  - intros _ _. left. destruct (_ =? _); reflexivity.
  - intros _ k'. destruct (_ =? _); [|auto]. rewrite !in_lk. unfold live at 1. cbn. fold (live x).
    intros [H1 H2]. apply filter_In in H2 as [H2 _]. auto.
  - intros Hx k'. destruct (N.eqb_spec (cn_id x) (cn_id T)) as [Ex|]; [|auto].
    rewrite (nodup_uniq _ _ _ (wf_nodup _ _ W) Hx Hin Ex). rewrite !in_lk.
    unfold live at 2 3. cbn. fold (live T).
    intros [H1 H2]. destruct (N.ltb_spec k' m) as [Hlt|Hge].
    + left. split; [exact H1|]. apply filter_In. split; [exact H2|]. apply N.ltb_lt. exact Hlt.
    + right. split; [reflexivity|]. apply filter_In. split; [exact H2|]. apply N.leb_le. exact Hge.
Qed.

Definition unl_g (u : N) (nu : option N) (L : cnode -> cnode) (x : cnode) : cnode :=
  upd u kill_f (redir u nu (L x)).

Lemma wmap_unlink ns f u U nu L :
  WF ns f -> find_node u ns = Some U -> live U = true -> cn_keys U = [] ->
  (forall x, cn_id (L x) = cn_id x /\ cn_ver (L x) = cn_ver x /\ cn_keys (L x) = cn_keys x) ->
  (forall x, In x ns -> live x = false -> L x = x) ->
  (forall x, In x ns -> cn_lo (L x) <= cn_lo x) ->
  (forall x, In x ns -> cn_lo (L x) = cn_lo x \/ (cn_lo (L x) = cn_lo U /\ first_live (after u ns) = Some x)) ->
  wmap ns (unl_g u nu L) (fun _ => False) (fun _ => False).
Proof.
  intros W Hf LU KU HL HLd HLlo HLup. destruct (find_node_In _ _ _ Hf) as [Hin Hid]. subst u.
  assert (Hu : forall x, In x ns -> cn_id x = cn_id U -> x = U)
    by (intros x Hx Ex; exact (nodup_uniq _ _ _ (wf_nodup _ _ W) Hx Hin Ex)).
  assert (Hlive : forall x, live (redir (cn_id U) nu (L x)) = live x).
  { intros x. rewrite redir_live. apply live_same_ver. destruct (HL x) as (_&->&_). reflexivity. }
  constructor; intros x; unfold unl_g, upd; rewrite ?redir_id; destruct (HL x) as (L1&L2&L3); rewrite ?L1.
  - destruct (_ =? _); cbn; rewrite ?redir_id; auto.
  - intros Hx Hd. destruct (N.eqb_spec (cn_id x) (cn_id U)) as [Ex|].
    + rewrite (Hu x Hx Ex) in Hd. congruence.
    + rewrite (HLd x Hx Hd). apply redir_dead, Hd.
  - intros _. destruct (_ =? _); cbn; rewrite redir_ver, L2; [apply vle_set_del|apply vle_refl].
  - intros Hx. destruct (N.eqb_spec (cn_id x) (cn_id U)) as [Ex|].
    + cbn. rewrite redir_ver, L2. rewrite (Hu x Hx Ex). intros H. apply (f_equal cv_del) in H. cbn in H.
      unfold live in LU. rewrite <- H in LU. discriminate.
    + intros _ k. rewrite redir_keys, L3. auto.
  - intros Hx. destruct (_ =? _); cbn; rewrite redir_lo; auto.
  - intros Hx. destruct (N.eqb_spec (cn_id x) (cn_id U)) as [Ex|Ex].
    + cbn. discriminate.
    + rewrite redir_lo. intros _. destruct (HLup x Hx) as [E|[E1 E2]]; [left; exact E|right].
      exists (cn_id U), U. split; [exact Hf|]. split; [exact LU|]. split; [|split; assumption].
      unfold unl_g, upd. rewrite redir_id. destruct (HL U) as (LU1&_&_). rewrite LU1, N.eqb_refl. reflexivity.
  - intros Hx k. destruct (N.eqb_spec (cn_id x) (cn_id U)) as [Ex|].
    + rewrite in_lk. cbn. intros [_ []].
    + rewrite !in_lk, Hlive, redir_keys, L3. auto.
  - intros Hx k. destruct (N.eqb_spec (cn_id x) (cn_id U)) as [Ex|].
    + rewrite (Hu x Hx Ex). rewrite in_lk, KU. intros [_ []].
    + rewrite !in_lk, Hlive, redir_keys, L3. auto.
Qed.

Lemma unlink_left_map ns u nu :
  NoDup (ids ns) ->
  update_node u kill_f (map (redir u nu) ns) = map (unl_g u nu (fun x => x)) ns.
Proof.
  intros Hnd. rewrite update_node_map by (rewrite ids_map by apply redir_id; exact Hnd).
  rewrite map_map. reflexivity.
Qed.
Lemma unlink_right_map ns u nu nx lo :
  NoDup (ids ns) ->
  update_node u kill_f (map (redir u nu) (update_node nx (lo_f lo) ns))
  = map (unl_g u nu (upd nx (lo_f lo))) ns.
Proof.
  intros Hnd. rewrite (update_node_map nx) by exact Hnd.
  rewrite update_node_map.
  - rewrite !map_map. reflexivity.
  - rewrite ids_map by apply redir_id. rewrite ids_map; [exact Hnd|].
    intros x. apply upd_id. reflexivity.
Qed.

Lemma L_right_facts ns f u U NX :
  WF ns f -> find_node u ns = Some U -> live U = true -> first_live (after u ns) = Some NX ->
  let L := upd (cn_id NX) (lo_f (cn_lo U)) in
  (forall x, cn_id (L x) = cn_id x /\ cn_ver (L x) = cn_ver x /\ cn_keys (L x) = cn_keys x) /\
  (forall x, In x ns -> live x = false -> L x = x) /\
  (forall x, In x ns -> cn_lo (L x) <= cn_lo x) /\
  (forall x, In x ns -> cn_lo (L x) = cn_lo x \/ (cn_lo (L x) = cn_lo U /\ first_live (after u ns) = Some x)).
Proof.
  intros W Hf LU Hfl L. pose proof Hfl as Hfl0. destruct (find_node_split _ _ _ Hf) as (l1&l2&E&Hn&Hid).
  rewrite E, after_mid in Hfl by auto. destruct (first_live_split _ _ Hfl) as (d&l3&E2&Hd&LN).
  assert (HinN : In NX ns).
  { rewrite E, E2. apply in_or_app. right. right. apply in_or_app. right. left. reflexivity. }
  assert (Hlo : cn_lo U <= cn_lo NX).
  { rewrite E in W. destruct (WF_pair _ _ _ _ W) as [_ Pb].
    apply (Pb NX); auto. rewrite E2. apply in_or_app. right. left. reflexivity. }
  subst L. unfold upd. split; [|split; [|split]]; intros x.
  - destruct (_ =? _); auto.
  - intros Hx Hdx. destruct (N.eqb_spec (cn_id x) (cn_id NX)) as [Ex|]; [|reflexivity].
    rewrite (nodup_uniq _ _ _ (wf_nodup _ _ W) Hx HinN Ex) in Hdx. congruence.
  - intros Hx. destruct (N.eqb_spec (cn_id x) (cn_id NX)) as [Ex|]; [|lia].
    rewrite (nodup_uniq _ _ _ (wf_nodup _ _ W) Hx HinN Ex). cbn. exact Hlo.
  - intros Hx. destruct (N.eqb_spec (cn_id x) (cn_id NX)) as [Ex|]; [right|left; reflexivity].
    rewrite (nodup_uniq _ _ _ (wf_nodup _ _ W) Hx HinN Ex). cbn. split; [reflexivity|exact Hfl0].
Qed.

(** one description for all four writer steps *)
Definition wshape (s s' : cstate) (g : cnode -> cnode) (gain lost : N -> Prop) : Prop :=
    ((c_nodes s' = map g (c_nodes s) /\
      (forall k, In k (c_stable s) -> In k (c_stable s') \/ lost k) /\
      (forall k, In k (c_stable s') -> ~ lost k)) \/
     (exists t T nw, find_node t (c_nodes s) = Some T /\ live T = true /\
        (cn_ver (g T) <> cn_ver T /\ live (g T) = true) /\
        cn_id nw = c_fresh s /\ (live nw = true /\ cn_lo T <= cn_lo nw) /\ (forall k, lost k <-> In k (lk nw)) /\
        (forall k, In k (lk nw) -> In k (lk T)) /\ (forall k, ~ gain k) /\
        c_stable s' = c_stable s /\
        c_nodes s' = insert_after t nw (map g (c_nodes s)))).

Definition wtrans (s s' : cstate) : Prop :=
  c_scan s' = c_scan s /\
  exists g gain lost, wmap (c_nodes s) g gain lost /\
    (forall k, In k (c_stable s') -> In k (c_stable s)) /\
    (forall k, In k (c_ever s) -> In k (c_ever s')) /\
    (forall k, In k (c_ever s') -> In k (c_ever s) \/ gain k) /\
    (forall k, gain k -> scanning (c_scan s) = true -> In k (c_ever s')) /\
    (forall k, gain k -> ~ In k (all_keys (c_nodes s))) /\
    wshape s s' g gain lost.

Lemma writer_shape fx s e s' :
  WF (c_nodes s) (c_fresh s) -> writer e = true -> cstep fx s e = Some s' -> wtrans s s'.
Proof.
  intros W We H. pose proof (wf_nodup _ _ W) as Hnd. destruct e; try discriminate.
  - apply cstep_ins in H as (n&Hk&Hc&->). split; [reflexivity|].
    exists (upd (cn_id n) (ins_f k)), (eq k), (fun _ => False).
    split; [eapply wmap_ins; eauto|]. cbn.
    split; [auto|]. split; [destruct (scanning _); cbn; auto|].
    split; [destruct (scanning _); cbn; intuition|].
    split; [intros k' <- ->; left; reflexivity|]. split; [intros k' <-; exact Hk|].
    left. split; [apply update_node_map, Hnd|]. split; auto.
  - apply cstep_rem in H as (n&Hk&Hc&->). split; [reflexivity|].
    destruct (cover_spec _ _ _ Hc) as (l1&l2&E&Hl&_).
    assert (Hin : In n (c_nodes s)) by (rewrite E; apply in_or_app; right; left; reflexivity).
    exists (upd (cn_id n) (rem_f k)), (fun _ => False), (eq k).
    split; [eapply wmap_rem; eauto|]. cbn.
    split; [intros k' Hk'; apply in_remove_key in Hk' as [? _]; assumption|].
    split; [auto|]. split; [auto|]. split; [intros ? []|]. split; [intros ? []|].
    left. split; [apply update_node_map, Hnd|]. split.
    + intros k' Hk'. destruct (N.eq_dec k' k) as [->|Hne]; [right; reflexivity|left].
      apply in_remove_key. auto.
    + intros k' Hk' <-. apply in_remove_key in Hk' as [_ Hk']. apply Hk'. reflexivity.
  - apply cstep_split in H as (T&Hf&LT&Hm&Hx&->). split; [reflexivity|].
    exists (upd id (split_f m (c_fresh s))), (fun _ => False), (fun k => In k (lk (split_nw m (c_fresh s) T))).
    split; [eapply wmap_split; eauto|]. cbn.
    split; [auto|]. split; [auto|]. split; [auto|]. split; [intros ? []|]. split; [intros ? []|].
    right. exists id, T, (split_nw m (c_fresh s) T).
    destruct (find_node_In _ _ _ Hf) as [Hin Hid].
    split; [exact Hf|]. split; [exact LT|]. split.
    { unfold upd. rewrite Hid, N.eqb_refl. cbn. split; [apply bump_split_neq|exact LT]. }
    split; [reflexivity|]. split.
    { split; [reflexivity|]. cbn. destruct (wf_ok _ _ W T Hin) as [_ Hlo]. apply Hlo, Hm. }
    split; [tauto|]. split.
    { intros k. rewrite !in_lk. cbn. intros [_ Hk]. apply filter_In in Hk as [Hk _]. auto. }
    split; [auto|]. split; [reflexivity|]. rewrite update_node_map by exact Hnd. reflexivity.
  - apply cstep_unlink in H as (U&Hf&LU&HK&[(_&NX&Hfl&->)|(_&->)]); (split; [reflexivity|]).
    + destruct (L_right_facts _ _ _ _ _ W Hf LU Hfl) as (A1&A2&A3&A4).
      exists (unl_g id (cn_next U) (upd (cn_id NX) (lo_f (cn_lo U)))), (fun _ => False), (fun _ => False).
      split; [eapply wmap_unlink; eauto|]. cbn.
      split; [auto|]. split; [auto|]. split; [auto|]. split; [intros ? []|]. split; [intros ? []|].
      left. split; [apply unlink_right_map, Hnd|]. split; auto.
    + exists (unl_g id (cn_next U) (fun x => x)), (fun _ => False), (fun _ => False).
      split; [eapply wmap_unlink; eauto; intros; solve [lia|left; reflexivity]|]. cbn.
      split; [auto|]. split; [auto|]. split; [auto|]. split; [intros ? []|]. split; [intros ? []|].
      left. split; [apply unlink_left_map, Hnd|]. split; auto.
Qed.

(** ** 6. the scanner steps *)
Definition sc_restart (l : N) (r : option N) (rs : N) (n : cnode) : cscan :=
  {| sc_pc := CRead; sc_l := l; sc_r := r; sc_cur := cn_id n; sc_v := cn_ver n; sc_snap := [];
     sc_nxt := None; sc_nv := cver0; sc_res := []; sc_nvset := []; sc_restarts := rs |}.
Definition beyond (sc : cscan) : bool :=
  existsb (fun k => negb (le_r k (sc_r sc))) (filter (fun k => sc_l sc <=? k) (sc_snap sc)).
Definition deliver_res (sc : cscan) : list N :=
  sc_res sc ++ filter (fun k => le_r k (sc_r sc)) (filter (fun k => sc_l sc <=? k) (sc_snap sc)).
Definition sc_done (sc : cscan) : cscan :=
  {| sc_pc := CDone; sc_l := sc_l sc; sc_r := sc_r sc; sc_cur := sc_cur sc; sc_v := sc_v sc;
     sc_snap := []; sc_nxt := None; sc_nv := cver0; sc_res := deliver_res sc;
     sc_nvset := sc_nvset sc ++ [(sc_cur sc, sc_v sc)]; sc_restarts := sc_restarts sc |}.
Definition sc_adv (sc : cscan) (nx : N) : cscan :=
  {| sc_pc := CRead; sc_l := sc_l sc; sc_r := sc_r sc; sc_cur := nx; sc_v := sc_nv sc;
     sc_snap := []; sc_nxt := None; sc_nv := cver0; sc_res := deliver_res sc;
     sc_nvset := sc_nvset sc ++ [(sc_cur sc, sc_v sc)]; sc_restarts := sc_restarts sc |}.
Definition sc_reread (sc : cscan) (w : cver) : cscan :=
  {| sc_pc := CRead; sc_l := sc_l sc; sc_r := sc_r sc; sc_cur := sc_cur sc; sc_v := w;
     sc_snap := []; sc_nxt := None; sc_nv := cver0; sc_res := sc_res sc;
     sc_nvset := sc_nvset sc; sc_restarts := sc_restarts sc |}.
Definition sc_read (sc : cscan) (n : cnode) : cscan :=
  {| sc_pc := CNextVer; sc_l := sc_l sc; sc_r := sc_r sc; sc_cur := sc_cur sc; sc_v := sc_v sc;
     sc_snap := cn_keys n; sc_nxt := cn_next n; sc_nv := sc_nv sc; sc_res := sc_res sc;
     sc_nvset := sc_nvset sc; sc_restarts := sc_restarts sc |}.
Definition sc_nextver (sc : cscan) (nv : cver) : cscan :=
  {| sc_pc := CValidate; sc_l := sc_l sc; sc_r := sc_r sc; sc_cur := sc_cur sc; sc_v := sc_v sc;
     sc_snap := sc_snap sc; sc_nxt := sc_nxt sc; sc_nv := nv; sc_res := sc_res sc;
     sc_nvset := sc_nvset sc; sc_restarts := sc_restarts sc |}.
Definition stale (sc : cscan) : bool :=
  match last_key (sc_res sc) with
  | Some lk => existsb (fun k => k <=? lk) (sc_snap sc)
  | None => false
  end.

Lemma start_scan_inv ns l r rs sc' :
  start_scan ns l r rs = Some sc' -> exists n, cover l ns = Some n /\ sc' = sc_restart l r rs n.
Proof.
  unfold start_scan. destruct (cover l ns) as [n|]; [|discriminate]. intros H. injection H as <-.
  exists n. split; reflexivity.
Qed.

Lemma cstep_begin fx s l r s' :
  cstep fx s (EBegin l r) = Some s' ->
  sc_pc (c_scan s) = CIdle /\ exists n, cover l (c_nodes s) = Some n /\
  s' = {| c_nodes := c_nodes s; c_fresh := c_fresh s; c_scan := sc_restart l r 0 n;
          c_stable := all_keys (c_nodes s); c_ever := all_keys (c_nodes s) |}.
Proof.
  cbn [cstep]. destruct (sc_pc (c_scan s)); try discriminate.
  destruct (start_scan _ _ _ _) as [sc'|] eqn:E; [|discriminate].
  apply start_scan_inv in E as (n&Hc&->). intros H. injection H as <-. split; [reflexivity|]. exists n. auto.
Qed.
Lemma cstep_read fx s s' :
  cstep fx s ERead = Some s' ->
  sc_pc (c_scan s) = CRead /\ exists c, find_node (sc_cur (c_scan s)) (c_nodes s) = Some c /\
  s' = set_scan s (sc_read (c_scan s) c).
Proof.
  cbn [cstep]. destruct (sc_pc (c_scan s)); try discriminate.
  destruct (find_node _ _) as [c|]; [|discriminate]. intros H. injection H as <-.
  split; [reflexivity|]. exists c. auto.
Qed.
Lemma cstep_nextver fx s s' :
  cstep fx s ENextVer = Some s' ->
  sc_pc (c_scan s) = CNextVer /\
  s' = set_scan s (sc_nextver (c_scan s)
         match sc_nxt (c_scan s) with
         | Some id => match find_node id (c_nodes s) with Some n => cn_ver n | None => cver0 end
         | None => cver0 end).
Proof.
  cbn [cstep]. destruct (sc_pc (c_scan s)); try discriminate. intros H. injection H as <-. auto.
Qed.

Lemma cstep_validate fx s s' :
  cstep fx s EValidate = Some s' ->
  let sc := c_scan s in
  sc_pc sc = CValidate /\ exists c, find_node (sc_cur sc) (c_nodes s) = Some c /\
  ((exists n, cover (sc_l sc) (c_nodes s) = Some n /\
      s' = set_scan s (sc_restart (sc_l sc) (sc_r sc) (sc_restarts sc + 1) n)) \/
   (cn_ver c = sc_v sc /\ (fx = true -> stale sc = false) /\
      (((beyond sc = true \/ sc_nxt sc = None) /\ s' = set_scan s (sc_done sc)) \/
       (exists nx, beyond sc = false /\ sc_nxt sc = Some nx /\ s' = set_scan s (sc_adv sc nx)))) \/
   (cn_ver c <> sc_v sc /\ cv_del (cn_ver c) = false /\ s' = set_scan s (sc_reread sc (cn_ver c)))).
Proof.
  cbn [cstep]. cbv zeta. destruct (sc_pc (c_scan s)); try discriminate.
  destruct (find_node _ _) as [c|]; [|discriminate]. intros H. split; [reflexivity|]. exists c.
  split; [reflexivity|].
  assert (Hrs : forall x, match start_scan (c_nodes s) (sc_l (c_scan s)) (sc_r (c_scan s))
                                 (sc_restarts (c_scan s) + 1) with
                          | Some sc' => Some (set_scan s sc') | None => None end = Some x ->
          exists n, cover (sc_l (c_scan s)) (c_nodes s) = Some n /\
            x = set_scan s (sc_restart (sc_l (c_scan s)) (sc_r (c_scan s)) (sc_restarts (c_scan s) + 1) n)).
  { intros x. destruct (start_scan _ _ _ _) as [sc'|] eqn:E; [|discriminate].
    apply start_scan_inv in E as (n&Hc&->). intros Hx. injection Hx as <-. exists n. auto. }
  destruct (cver_eqb (cn_ver c) (sc_v (c_scan s))) eqn:Ev.
  - apply cver_eqb_eq in Ev. fold (stale (c_scan s)) in H.
    destruct (fx && stale (c_scan s)) eqn:Est.
    + left. apply Hrs, H.
    + right. left. split; [exact Ev|]. split.
      { intros ->. exact Est. }
      fold (beyond (c_scan s)) in H. fold (deliver_res (c_scan s)) in H.
      destruct (beyond (c_scan s)) eqn:Eb.
      * left. injection H as <-. split; [left; reflexivity|reflexivity].
      * destruct (sc_nxt (c_scan s)) as [nx|] eqn:En.
        -- right. exists nx. injection H as <-. repeat split.
        -- left. injection H as <-. split; [right; reflexivity|reflexivity].
  - destruct (negb (cv_split (cn_ver c) =? cv_split (sc_v (c_scan s))) || cv_del (cn_ver c)) eqn:Eo.
    + left. apply Hrs, H.
    + right. right. apply orb_false_iff in Eo as [_ Eo]. injection H as <-.
      split; [|split; [exact Eo|reflexivity]]. intros E. rewrite E in Ev.
      assert (cver_eqb (sc_v (c_scan s)) (sc_v (c_scan s)) = true) by (apply cver_eqb_eq; reflexivity).
      congruence.
Qed.

(** ** 7. first layer: ghosts, ascending, sound *)
Lemma in_all_keys_insert_after k t nw l :
  In k (all_keys (insert_after t nw l)) <-> In k (all_keys l) \/ (In t (ids l) /\ In k (lk nw)).
Proof.
  induction l as [|x l IH]; cbn [insert_after ids map In].
  - cbn. tauto.
  - destruct (N.eqb_spec (cn_id x) t) as [E|E].
    + rewrite !all_keys_cons, !in_app_iff. tauto.
    + rewrite !all_keys_cons, !in_app_iff, IH. fold (ids l). tauto.
Qed.

Lemma all_keys_map_sub ns g gain lost k :
  wmap ns g gain lost -> In k (all_keys (map g ns)) -> In k (all_keys ns) \/ gain k.
Proof.
  intros Wm H. apply in_all_keys in H as (y&Hy&Hk). apply in_map_iff in Hy as (x&<-&Hx).
  destruct (g_keys _ _ _ _ Wm x Hx k Hk); [left|right; assumption]. apply in_all_keys. eauto.
Qed.
Lemma all_keys_map_sup ns g gain lost k :
  wmap ns g gain lost -> In k (all_keys ns) -> In k (all_keys (map g ns)) \/ lost k.
Proof.
  intros Wm H. apply in_all_keys in H as (x&Hx&Hk).
  destruct (g_keep _ _ _ _ Wm x Hx k Hk); [left|right; assumption]. apply in_all_keys.
  exists (g x). split; [apply in_map; exact Hx|assumption].
Qed.

Lemma filter_filter {A} (f g : A -> bool) l : filter f (filter g l) = filter (fun x => g x && f x) l.
Proof.
  induction l as [|x l IH]; [reflexivity|]. cbn [filter]. destruct (g x); cbn [filter andb]; rewrite IH; reflexivity.
Qed.
Lemma deliver_res_eq sc :
  deliver_res sc = sc_res sc ++ filter (in_interval (sc_l sc) (sc_r sc)) (sc_snap sc).
Proof. unfold deliver_res. rewrite filter_filter. reflexivity. Qed.

Lemma stale_false sc :
  stale sc = false -> sorted_strict (sc_res sc) = true ->
  forall a b, In a (sc_res sc) -> In b (sc_snap sc) -> a < b.
Proof.
  unfold stale. intros Hst Hs a b Ha Hb. destruct (last_key (sc_res sc)) as [k|] eqn:E.
  - apply last_key_some in E as (l'&E). rewrite E in *.
    assert (k < b).
    { destruct (N.ltb_spec k b) as [|Hle]; [assumption|]. exfalso.
      assert (existsb (fun k0 => k0 <=? k) (sc_snap sc) = true); [|congruence].
      apply existsb_exists. exists b. split; [exact Hb|]. apply N.leb_le. exact Hle. }
    apply in_app_or in Ha as [Ha|[<-|[]]]; [|assumption].
    apply sorted_app in Hs as (_&_&Hs). specialize (Hs a k Ha (or_introl eq_refl)). lia.
  - apply last_key_none in E. rewrite E in Ha. destruct Ha.
Qed.

Record InvA (fx : bool) (s : cstate) : Prop := {
  ia_stable : forall k, In k (c_stable s) -> In k (all_keys (c_nodes s));
  ia_ever : scanning (c_scan s) = true -> forall k, In k (all_keys (c_nodes s)) -> In k (c_ever s);
  ia_sorted : fx = true -> sorted_strict (sc_res (c_scan s)) = true;
  ia_res : forall k, In k (sc_res (c_scan s)) ->
             in_interval (sc_l (c_scan s)) (sc_r (c_scan s)) k = true /\ In k (c_ever s);
  ia_snap : sorted_strict (sc_snap (c_scan s)) = true /\
            forall k, In k (sc_snap (c_scan s)) -> In k (c_ever s) }.

Lemma InvA_init fx kss : InvA fx (cinit kss).
Proof.
  constructor; cbn.
  - intros ? [].
  - discriminate.
  - reflexivity.
  - intros ? [].
  - split; [reflexivity|intros ? []].
Qed.

Lemma InvA_wtrans fx s s' :
  WF (c_nodes s) (c_fresh s) -> InvA fx s -> wtrans s s' -> InvA fx s'.
Proof.
  intros W [I1 I2 I3 I4 I5] (Hsc&g&gain&lost&Wm&S1&E1&E1'&E2&E3&Hshape). constructor; rewrite ?Hsc.
  - intros k Hk. specialize (I1 k (S1 k Hk)).
    destruct Hshape as [(->&_&Hl)|(t&T&nw&Hf&LT&_&_&_&Hlost&_&_&_&->)].
    + destruct (all_keys_map_sup _ _ _ _ k Wm I1) as [H|H]; [exact H|]. exfalso. exact (Hl k Hk H).
    + apply in_all_keys_insert_after. destruct (all_keys_map_sup _ _ _ _ k Wm I1) as [H|H]; [left; exact H|].
      right. split; [|apply Hlost, H]. rewrite ids_map by apply (g_id _ _ _ _ Wm).
      destruct (find_node_In _ _ _ Hf) as [Hin <-]. apply in_map. exact Hin.
  - intros Hscan k Hk.
    assert (In k (all_keys (c_nodes s)) \/ gain k) as [H|H].
    { destruct Hshape as [(E&_)|(t&T&nw&Hf&LT&_&_&_&_&Hsub&_&_&E)]; rewrite E in Hk.
      - eapply all_keys_map_sub; eauto.
      - apply in_all_keys_insert_after in Hk as [Hk|[_ Hk]]; [eapply all_keys_map_sub; eauto|].
        left. apply in_all_keys. exists T. split; [apply (find_node_In _ _ _ Hf)|apply Hsub, Hk]. }
    + apply E1, I2; assumption.
    + apply E2; assumption.
  - exact I3.
  - intros k Hk. destruct (I4 k Hk). auto.
  - destruct I5 as [H1 H2]. split; [exact H1|]. intros k Hk. apply E1, H2, Hk.
Qed.

Lemma InvA_step fx s e s' :
  WF (c_nodes s) (c_fresh s) -> InvA fx s -> cstep fx s e = Some s' -> InvA fx s'.
Proof.
  intros W I H. destruct (writer e) eqn:We.
  { eapply InvA_wtrans; eauto. eapply writer_shape; eauto. }
  destruct I as [I1 I2 I3 I4 I5]. destruct e; try discriminate.
  - apply cstep_begin in H as (Hpc&n&Hc&->). constructor; cbn; auto; try (intros ? []).
    split; [reflexivity|intros ? []].
  - apply cstep_read in H as (Hpc&c&Hf&->).
    assert (Hscan : scanning (c_scan s) = true) by (unfold scanning; rewrite Hpc; reflexivity).
    constructor; cbn; auto.
    destruct (find_node_In _ _ _ Hf) as [Hin _]. split; [apply (wf_ok _ _ W c Hin)|].
    intros k Hk. apply I2; [exact Hscan|]. apply in_all_keys. exists c. split; [exact Hin|].
    apply in_lk. split; [|exact Hk]. destruct (live c) eqn:L; [reflexivity|].
    rewrite (wf_dead _ _ W c Hin L) in Hk. destruct Hk.
  - apply cstep_nextver in H as (Hpc&->). constructor; cbn; auto.
    intros _. apply I2. unfold scanning. rewrite Hpc. reflexivity.
  - apply cstep_validate in H as (Hpc&c&Hf&Hcases).
    assert (Hscan : scanning (c_scan s) = true) by (unfold scanning; rewrite Hpc; reflexivity).
    assert (Hdel : forall k, In k (deliver_res (c_scan s)) ->
              in_interval (sc_l (c_scan s)) (sc_r (c_scan s)) k = true /\ In k (c_ever s)).
    { intros k Hk. rewrite deliver_res_eq in Hk. apply in_app_or in Hk as [Hk|Hk]; [auto|].
      apply filter_In in Hk as [Hk1 Hk2]. split; [exact Hk2|]. apply I5, Hk1. }
    assert (Hsort : fx = true -> stale (c_scan s) = false -> sorted_strict (deliver_res (c_scan s)) = true).
    { intros Hfx Hst. rewrite deliver_res_eq. apply sorted_app. split; [auto|]. split.
      - apply sorted_filter, I5.
      - intros a b Ha Hb. apply filter_In in Hb as [Hb _]. eapply stale_false; eauto. }
    destruct Hcases as [(n&Hc&->)|[(Hv&Hst&[(_&->)|(nx&_&_&->)])|(_&_&->)]];
      constructor; cbn; auto; try (intros ? []); try (split; [reflexivity|intros ? []]).
Qed.

Lemma crun_inv (P : cstate -> Prop) fx :
  (forall s e s', P s -> cstep fx s e = Some s' -> P s') ->
  forall evs s s', P s -> crun fx s evs = Some s' -> P s'.
Proof.
  intros Hstep. induction evs as [|e evs IH]; intros s s' HP; cbn [crun].
  - intros H. injection H as <-. exact HP.
  - destruct (cstep fx s e) as [s1|] eqn:E; [|discriminate]. intros H. eapply IH; [|exact H].
    eapply Hstep; eauto.
Qed.

Lemma reach_A fx kss evs s :
  kss_ok kss = true -> crun fx (cinit kss) evs = Some s -> WF (c_nodes s) (c_fresh s) /\ InvA fx s.
Proof.
  intros Hk. apply (crun_inv (fun s => WF (c_nodes s) (c_fresh s) /\ InvA fx s)).
  - intros s0 e s' [W I] H. split; [eapply WF_step; eauto|eapply InvA_step; eauto].
  - split; [apply WF_init, Hk|apply InvA_init].
Qed.

Theorem chain_scan_ascending : forall kss evs s,
  kss_ok kss = true -> crun true (cinit kss) evs = Some s ->
  sorted_strict (sc_res (c_scan s)) = true.
Proof. intros kss evs s Hk H. destruct (reach_A _ _ _ _ Hk H) as [_ I]. apply (ia_sorted _ _ I eq_refl). Qed.

Theorem chain_scan_sound : forall kss evs s k,
  kss_ok kss = true -> crun true (cinit kss) evs = Some s ->
  In k (sc_res (c_scan s)) ->
  in_interval (sc_l (c_scan s)) (sc_r (c_scan s)) k = true /\ In k (c_ever s).
Proof. intros kss evs s k Hk H Hin. destruct (reach_A _ _ _ _ Hk H) as [_ I]. apply (ia_res _ _ I k Hin). Qed.

(** soundness does not depend on the repair *)
Theorem chain_scan_sound_any : forall fx kss evs s k,
  kss_ok kss = true -> crun fx (cinit kss) evs = Some s ->
  In k (sc_res (c_scan s)) ->
  in_interval (sc_l (c_scan s)) (sc_r (c_scan s)) k = true /\ In k (c_ever s).
Proof. intros fx kss evs s k Hk H Hin. destruct (reach_A _ _ _ _ Hk H) as [_ I]. apply (ia_res _ _ I k Hin). Qed.

Theorem chain_stable_present : forall fx kss evs s k,
  kss_ok kss = true -> crun fx (cinit kss) evs = Some s -> In k (c_stable s) -> In k (all_keys (c_nodes s)).
Proof. intros fx kss evs s k Hk H Hin. destruct (reach_A _ _ _ _ Hk H) as [_ I]. apply (ia_stable _ _ I k Hin). Qed.

Theorem chain_present_ever : forall fx kss evs s k,
  kss_ok kss = true -> crun fx (cinit kss) evs = Some s -> scanning (c_scan s) = true ->
  In k (all_keys (c_nodes s)) -> In k (c_ever s).
Proof.
  intros fx kss evs s k Hk H Hs Hin. destruct (reach_A _ _ _ _ Hk H) as [_ I]. apply (ia_ever _ _ I Hs k Hin).
Qed.

(** ** 8. how positions move under a writer step *)
Lemma next_ok_insert_after nx t nw l :
  (forall Y, In Y l -> cn_id Y = t -> live Y = true) ->
  next_ok nx l -> next_ok nx (insert_after t nw l).
Proof.
  intros Ht. induction l as [|Y l IH]; cbn [insert_after next_ok]; [auto|].
  intros [H|[H1 H2]].
  - destruct (cn_id Y =? t); left; exact H.
  - destruct (N.eqb_spec (cn_id Y) t) as [E|E].
    + rewrite (Ht Y (or_introl eq_refl) E) in H1. discriminate.
    + right. split; [exact H1|]. apply IH; [|exact H2]. intros Z HZ. apply Ht. right. exact HZ.
Qed.

Lemma in_ids_find ns id l T :
  NoDup (ids ns) -> (forall x, In x l -> In x ns) -> In id (ids l) -> find_node id ns = Some T -> In T l.
Proof.
  intros Hnd Hsub Hin Hf. unfold ids in Hin. apply in_map_iff in Hin as (y&E&Hy).
  destruct (find_node_In _ _ _ Hf) as [HT HidT].
  assert (y = T) by (apply (nodup_uniq ns); auto; congruence). subst y. exact Hy.
Qed.

(** [B] is below the lower bound of every live node of [l]: what a reader keeps of a key it saw in a node
    once that key may have been removed (the version of the node does not tell) *)
Definition lo_above (B : N) (l : list cnode) : Prop := forall b, In b l -> live b = true -> B < cn_lo b.

Lemma first_live_app_live l n l2 x : live n = true -> first_live (l ++ n :: l2) = Some x -> In x (l ++ [n]).
Proof.
  intros Ln. induction l as [|y l IH]; cbn [app first_live].
  - rewrite Ln. intros H. injection H as <-. left. reflexivity.
  - destruct (live y).
    + intros H. injection H as <-. left. reflexivity.
    + intros H. right. apply IH, H.
Qed.

Lemma nodup_ids_app_disj (a b : list cnode) x : NoDup (ids (a ++ b)) -> In x a -> In x b -> False.
Proof.
  intros Hnd Ha Hb. apply in_split in Ha as (a1&a2&->). rewrite <- app_assoc in Hnd. cbn [app] in Hnd.
  destruct (nodup_mid _ _ _ Hnd) as [_ N2]. apply N2. rewrite ids_app. apply in_or_app. right.
  apply in_map. exact Hb.
Qed.

(** the node that takes over the range of an unlinked node [U] is the first live node after it: seen from a
    live node [n] other than [U], both are on the same side *)
Lemma after_first_live_pos ns id n u U x :
  NoDup (ids ns) -> find_node id ns = Some n -> live n = true -> find_node u ns = Some U -> id <> u ->
  first_live (after u ns) = Some x -> In x (after id ns) -> In U (after id ns).
Proof.
  intros Hnd Hf Ln HfU Hne Hfl Hx.
  destruct (find_node_split _ _ _ Hf) as (l1&l2&E&Hn&Hid). destruct (find_node_In _ _ _ HfU) as [HinU HidU].
  subst ns. rewrite after_mid in Hx by assumption. rewrite after_mid by assumption.
  assert (Hnd2 : NoDup (ids ((l1 ++ [n]) ++ l2))) by (rewrite <- app_assoc; exact Hnd).
  apply in_app_or in HinU as [HinU|[EU|HinU]];
    [|exfalso; apply Hne; rewrite <- Hid, <- HidU, EU; reflexivity|exact HinU].
  exfalso. apply in_split in HinU as (a&b&->).
  assert (N1 : ~ In u (ids a)).
  { rewrite <- app_assoc in Hnd. cbn [app] in Hnd. destruct (nodup_mid _ _ _ Hnd) as [N1 _].
    rewrite HidU in N1. exact N1. }
  rewrite <- app_assoc in Hfl. cbn [app] in Hfl. rewrite after_mid in Hfl by assumption.
  apply (first_live_app_live b n l2 x Ln) in Hfl.
  apply (nodup_ids_app_disj _ _ x Hnd2); [|exact Hx].
  apply in_app_or in Hfl as [Hfl|Hfl]; apply in_or_app; [left; apply in_or_app; right; right; exact Hfl|right; exact Hfl].
Qed.

Lemma in_insert_after_inv x t nw l : In x (insert_after t nw l) -> (x = nw /\ In t (ids l)) \/ In x l.
Proof.
  induction l as [|y l IH]; [intros []|]. cbn [insert_after ids map].
  destruct (N.eqb_spec (cn_id y) t) as [E|E]; cbn [In].
  - intros [H|[H|H]]; [right; left; exact H|left; split; [symmetry; exact H|left; exact E]|right; right; exact H].
  - intros [H|H]; [right; left; exact H|]. destruct (IH H) as [[H1 H2]|H1]; [left; split; [exact H1|right; exact H2]|].
    right; right; exact H1.
Qed.

Section Shape.
  Variables (s s' : cstate) (g : cnode -> cnode) (gain lost : N -> Prop).
  Hypothesis W : WF (c_nodes s) (c_fresh s).
  Hypothesis Wm : wmap (c_nodes s) g gain lost.
  Hypothesis Hsh : wshape s s' g gain lost.

  Lemma wshape_find id n : find_node id (c_nodes s) = Some n -> find_node id (c_nodes s') = Some (g n).
  Proof.
    intros Hf. destruct Hsh as [(->&_)|(t&T&nw&_&_&_&Hnw&_&_&_&_&_&->)].
    - rewrite find_node_map by apply (g_id _ _ _ _ Wm). rewrite Hf. reflexivity.
    - rewrite find_node_insert_after.
      + rewrite find_node_map by apply (g_id _ _ _ _ Wm). rewrite Hf. reflexivity.
      + destruct (find_node_In _ _ _ Hf) as [Hin <-]. pose proof (wf_fresh _ _ W n Hin). lia.
  Qed.

  Lemma wshape_after id n nx :
    find_node id (c_nodes s) = Some n -> cn_ver (g n) = cn_ver n ->
    next_ok nx (after id (c_nodes s)) -> next_ok nx (after id (c_nodes s')).
  Proof.
    intros Hf Hv Hn. pose proof (g_id _ _ _ _ Wm) as gid.
    assert (Hmap : next_ok nx (map g (after id (c_nodes s)))).
    { apply next_ok_map; [exact gid| |exact Hn]. intros x Hx Hd.
      rewrite (g_dead _ _ _ _ Wm x (in_after _ _ _ Hx) Hd). exact Hd. }
    destruct Hsh as [(->&_)|(t&T&nw&HfT&LT&(HvT&LgT)&Hnw&_&_&_&_&_&->)].
    - rewrite after_map by exact gid. exact Hmap.
    - destruct (find_node_In _ _ _ Hf) as [Hin Hid]. destruct (find_node_In _ _ _ HfT) as [HinT HidT].
      assert (id <> t).
      { intros ->. rewrite Hf in HfT. injection HfT as ->. contradiction. }
      rewrite after_insert_after.
      + rewrite after_map by exact gid. apply next_ok_insert_after; [|exact Hmap].
        intros Y HY E. apply in_map_iff in HY as (y&<-&Hy). rewrite gid in E.
        assert (y = T).
        { apply (nodup_uniq (c_nodes s)); [apply (wf_nodup _ _ W)|eapply in_after; eauto|exact HinT|congruence]. }
        subst y. exact LgT.
      + rewrite ids_map by exact gid. apply (wf_nodup _ _ W).
      + pose proof (wf_fresh _ _ W n Hin). lia.
      + assumption.
  Qed.

  Lemma wshape_lo_above id n B :
    find_node id (c_nodes s) = Some n -> live n = true -> cn_ver (g n) = cn_ver n ->
    lo_above B (after id (c_nodes s)) -> lo_above B (after id (c_nodes s')).
  Proof.
    intros Hf Ln Hv Hab. pose proof (g_id _ _ _ _ Wm) as gid. pose proof (wf_nodup _ _ W) as Hnd.
    destruct (find_node_In _ _ _ Hf) as [Hin Hid].
    assert (Hmap : forall b, In b (after id (c_nodes s)) -> live (g b) = true -> B < cn_lo (g b)).
    { intros b Hb Lb. pose proof (in_after _ _ _ Hb) as Hbin.
      destruct (g_lo_up _ _ _ _ Wm b Hbin Lb) as [E|(u&U&HfU&LU&LgU&E&Hfl)]; rewrite E.
      - apply Hab; [exact Hb|]. destruct (live b) eqn:L; [reflexivity|].
        rewrite (g_dead _ _ _ _ Wm b Hbin L) in Lb. congruence.
      - apply Hab; [|exact LU]. apply (after_first_live_pos _ id n u U b); auto.
        intros ->. rewrite Hf in HfU. injection HfU as ->.
        rewrite (live_same_ver (g U) U) in LgU by (rewrite Hv; reflexivity). congruence. }
    destruct Hsh as [(->&_)|(t&T&nw&HfT&LT&(HvT&LgT)&Hnw&(_&HloT)&_&_&_&_&->)].
    - rewrite after_map by exact gid. intros b' Hb' Lb'. apply in_map_iff in Hb' as (b&<-&Hb).
      apply Hmap; assumption.
    - destruct (find_node_In _ _ _ HfT) as [HinT HidT].
      assert (id <> t).
      { intros ->. rewrite Hf in HfT. injection HfT as ->. contradiction. }
      rewrite after_insert_after;
        [|rewrite ids_map by exact gid; exact Hnd|pose proof (wf_fresh _ _ W n Hin); lia|assumption].
      rewrite after_map by exact gid. intros b' Hb' Lb'.
      apply in_insert_after_inv in Hb' as [[-> Ht]|Hb'].
      + rewrite ids_map in Ht by exact gid.
        assert (HTa : In T (after id (c_nodes s))).
        { apply (in_ids_find (c_nodes s) t); auto. intros x; apply in_after. }
        specialize (Hab T HTa LT). lia.
      + apply in_map_iff in Hb' as (b&<-&Hb). apply Hmap; assumption.
  Qed.

  Lemma wshape_before_keys id n k :
    find_node id (c_nodes s) = Some n ->
    In k (all_keys (before id (c_nodes s'))) -> In k (all_keys (before id (c_nodes s))) \/ gain k.
  Proof.
    intros Hf. pose proof (g_id _ _ _ _ Wm) as gid.
    assert (Hmap : In k (all_keys (map g (before id (c_nodes s)))) ->
                   In k (all_keys (before id (c_nodes s))) \/ gain k).
    { intros H. apply in_all_keys in H as (y&Hy&Hk). apply in_map_iff in Hy as (x&<-&Hx).
      destruct (g_keys _ _ _ _ Wm x (in_before _ _ _ Hx) k Hk); [left|right; assumption].
      apply in_all_keys. eauto. }
    destruct Hsh as [(->&_)|(t&T&nw&HfT&LT&_&Hnw&_&_&Hsub&_&_&->)].
    - rewrite before_map by exact gid. exact Hmap.
    - destruct (find_node_In _ _ _ Hf) as [Hin Hid].
      destruct (N.eq_dec id t) as [->|Hne].
      + rewrite before_insert_after_same, before_map by exact gid. exact Hmap.
      + rewrite before_insert_after; [|pose proof (wf_fresh _ _ W n Hin); lia|exact Hne].
        rewrite before_map by exact gid. intros H. apply in_all_keys_insert_after in H as [H|[H1 H2]]; [auto|].
        left. rewrite ids_map in H1 by exact gid. apply in_all_keys. exists T. split; [|apply Hsub, H2].
        apply (in_ids_find (c_nodes s) t); auto; [apply (wf_nodup _ _ W)|intros x; apply in_before].
  Qed.
End Shape.

(** ** 9. second layer: versions, snapshot, frontier (no stable key is lost) *)
Lemma cover_find ns f l n : WF ns f -> cover l ns = Some n -> find_node (cn_id n) ns = Some n.
Proof.
  intros W Hc. destruct (cover_spec _ _ _ Hc) as (l1&l2&E&_). apply nodup_find; [apply (wf_nodup _ _ W)|].
  rewrite E. apply in_or_app. right. left. reflexivity.
Qed.

(** keys of the live nodes before a live node are below its lower bound *)
Lemma before_below ns f id P k :
  WF ns f -> find_node id ns = Some P -> live P = true ->
  In k (all_keys (before id ns)) -> k < cn_lo P.
Proof.
  intros W Hf LP Hk. destruct (find_node_split _ _ _ Hf) as (l1&l2&E&Hn&Hid).
  rewrite E in *. rewrite before_mid in Hk by auto. destruct (WF_pair _ _ _ _ W) as [Pa _].
  apply in_all_keys in Hk as (a&Ha&Hka). apply in_lk in Hka as [La Hka].
  destruct (Pa a Ha La LP) as [_ Q]. apply Q, Hka.
Qed.

Lemma cover_frontier ns f l n k :
  WF ns f -> cover l ns = Some n -> l <= k -> ~ In k (all_keys (before (cn_id n) ns)).
Proof.
  intros W Hc Hlk Hin. pose proof (cover_find _ _ _ _ W Hc) as Hf.
  destruct (cover_spec _ _ _ Hc) as (_&_&_&Ln&Hlo&_).
  pose proof (before_below _ _ _ _ _ W Hf Ln Hin). lia.
Qed.

Lemma before_via ns cur c d Y l3 :
  NoDup (ids ns) -> find_node cur ns = Some c -> after cur ns = d ++ Y :: l3 ->
  before (cn_id Y) ns = before cur ns ++ c :: d /\ find_node (cn_id Y) ns = Some Y.
Proof.
  intros Hnd Hf Ha. pose proof (before_after_split _ _ _ Hf) as E. rewrite Ha in E.
  assert (E' : ns = (before cur ns ++ c :: d) ++ Y :: l3) by (rewrite <- app_assoc; exact E).
  rewrite E' in Hnd. destruct (nodup_mid _ _ _ Hnd) as [N1 _].
  split.
  - rewrite E' at 1. apply before_mid; auto.
  - rewrite E' at 1. apply find_node_mid; auto.
Qed.

Lemma all_keys_dead d : (forall x, In x d -> live x = false) -> all_keys d = [].
Proof.
  induction d as [|x d IH]; [reflexivity|]. intros H. rewrite all_keys_cons. unfold lk.
  rewrite (H x (or_introl eq_refl)). cbn [app]. apply IH. intros y Hy. apply H. right. exact Hy.
Qed.

Lemma in_interval_l l r k : in_interval l r k = true -> l <= k.
Proof. unfold in_interval. intros H. apply andb_true_iff in H as [H _]. apply N.leb_le, H. Qed.

Record InvB (s : cstate) : Prop := {
  ib_cur : scanning (c_scan s) = true ->
           exists c, find_node (sc_cur (c_scan s)) (c_nodes s) = Some c /\ vle (sc_v (c_scan s)) (cn_ver c);
  ib_nvset : forall id v, In (id, v) (sc_nvset (c_scan s)) ->
           exists n, find_node id (c_nodes s) = Some n /\ vle v (cn_ver n);
  ib_snap : sc_pc (c_scan s) = CNextVer \/ sc_pc (c_scan s) = CValidate ->
           forall c, find_node (sc_cur (c_scan s)) (c_nodes s) = Some c -> cn_ver c = sc_v (c_scan s) ->
           (* the version does not count removes: the snapshot is a superset of the keys of the node *)
           (forall k, In k (cn_keys c) -> In k (sc_snap (c_scan s))) /\
           next_ok (sc_nxt (c_scan s)) (after (sc_cur (c_scan s)) (c_nodes s)) /\
           (* ... and every key of the snapshot, still there or not, is below the range of all later nodes *)
           (forall k, In k (sc_snap (c_scan s)) ->
              live c = true /\ lo_above k (after (sc_cur (c_scan s)) (c_nodes s)));
  ib_nxt : sc_pc (c_scan s) = CNextVer \/ sc_pc (c_scan s) = CValidate ->
           forall y, sc_nxt (c_scan s) = Some y ->
           exists Y, find_node y (c_nodes s) = Some Y /\
                     (sc_pc (c_scan s) = CValidate -> vle (sc_nv (c_scan s)) (cn_ver Y));
  ib_front : scanning (c_scan s) = true ->
           forall k, In k (c_stable s) -> in_interval (sc_l (c_scan s)) (sc_r (c_scan s)) k = true ->
           In k (sc_res (c_scan s)) \/ ~ In k (all_keys (before (sc_cur (c_scan s)) (c_nodes s)));
  ib_done : sc_pc (c_scan s) = CDone ->
           forall k, In k (c_stable s) -> in_interval (sc_l (c_scan s)) (sc_r (c_scan s)) k = true ->
           In k (sc_res (c_scan s)) }.

Lemma InvB_init kss : InvB (cinit kss).
Proof.
  constructor; cbn; try discriminate; try (intros [|]; discriminate).
  intros ? ? [].
Qed.

Lemma InvB_wtrans fx s s' :
  WF (c_nodes s) (c_fresh s) -> InvA fx s -> InvB s -> wtrans s s' -> InvB s'.
Proof.
  intros W IA [B1 B2 B3 B4 B5 B6] (Hsc&g&gain&lost&Wm&S1&E1&E1'&E2&E3&Hsh).
  pose proof (wshape_find _ _ _ _ _ W Wm Hsh) as Hfind.
  constructor; rewrite ?Hsc.
  - intros Hs. destruct (B1 Hs) as (c&Hf&Hv). exists (g c). split; [apply Hfind, Hf|].
    eapply vle_trans; [exact Hv|]. apply (g_vle _ _ _ _ Wm), (find_node_In _ _ _ Hf).
  - intros id v Hin. destruct (B2 id v Hin) as (n&Hf&Hv). exists (g n). split; [apply Hfind, Hf|].
    eapply vle_trans; [exact Hv|]. apply (g_vle _ _ _ _ Wm), (find_node_In _ _ _ Hf).
  - intros Hpc c' Hf' Hv'.
    assert (Hs : scanning (c_scan s) = true) by (unfold scanning; destruct Hpc as [-> | ->]; reflexivity).
    destruct (B1 Hs) as (c&Hf&Hv). rewrite (Hfind _ _ Hf) in Hf'. injection Hf' as <-.
    pose proof (g_vle _ _ _ _ Wm c (proj1 (find_node_In _ _ _ Hf))) as Hv2.
    assert (Ec : cn_ver c = sc_v (c_scan s)).
    { apply vle_antisym; [rewrite <- Hv'; exact Hv2|exact Hv]. }
    destruct (B3 Hpc c Hf Ec) as (Hsnap&Hnx&Hlo). split; [|split].
    + intros k Hk. apply Hsnap. apply (g_same _ _ _ _ Wm c); [apply (find_node_In _ _ _ Hf)|congruence|exact Hk].
    + eapply wshape_after; eauto. congruence.
    + intros k Hk. destruct (Hlo k Hk) as [Lc Hab]. split.
      * rewrite (live_same_ver (g c) c) by (f_equal; congruence). exact Lc.
      * apply (wshape_lo_above _ _ _ _ _ W Wm Hsh _ c); auto. congruence.
  - intros Hpc y Hy. destruct (B4 Hpc y Hy) as (Y&Hf&Hv). exists (g Y). split; [apply Hfind, Hf|].
    intros Hp. eapply vle_trans; [exact (Hv Hp)|]. apply (g_vle _ _ _ _ Wm), (find_node_In _ _ _ Hf).
  - intros Hs k Hk Hi. destruct (B1 Hs) as (c&Hf&_).
    destruct (B5 Hs k (S1 k Hk) Hi) as [H|H]; [left; exact H|right]. intros Hin.
    destruct (wshape_before_keys _ _ _ _ _ W Wm Hsh _ _ k Hf Hin) as [H'|H']; [contradiction|].
    apply (E3 k H'). apply (ia_stable _ _ IA), S1, Hk.
  - intros Hpc k Hk Hi. apply B6; auto.
Qed.

Lemma InvB_restart s' l r rs n :
  WF (c_nodes s') (c_fresh s') -> cover l (c_nodes s') = Some n -> c_scan s' = sc_restart l r rs n -> InvB s'.
Proof.
  intros W Hc Hsc. constructor; rewrite Hsc; cbn; try discriminate; try (intros [|]; discriminate).
  - intros _. exists n. split; [eapply cover_find; eauto|apply vle_refl].
  - intros ? ? [].
  - intros _ k _ Hi. right. eapply cover_frontier; eauto. apply (in_interval_l _ _ _ Hi).
Qed.

Lemma beyond_spec sc :
  beyond sc = true -> exists k0, In k0 (sc_snap sc) /\ le_r k0 (sc_r sc) = false.
Proof.
  unfold beyond. intros H. apply existsb_exists in H as (k0&Hk&Hr). apply filter_In in Hk as [Hk _].
  exists k0. split; [exact Hk|]. apply negb_true_iff in Hr. exact Hr.
Qed.

Lemma in_interval_le_r l r k : in_interval l r k = true -> le_r k r = true.
Proof. unfold in_interval. intros H. apply andb_true_iff in H as [_ H]. exact H. Qed.

Lemma le_r_mono r a b : a <= b -> le_r b r = true -> le_r a r = true.
Proof. destruct r as [x|]; cbn; [|auto]. rewrite !N.leb_le. lia. Qed.

(** keys of a live node are below the lower bounds of the live nodes after it *)
Lemma after_above ns f id c k :
  WF ns f -> find_node id ns = Some c -> In k (cn_keys c) -> live c = true /\ lo_above k (after id ns).
Proof.
  intros W Hf Hk. destruct (find_node_split _ _ _ Hf) as (l1&l2&E&Hn&Hid). rewrite E in *.
  rewrite after_mid by auto. destruct (WF_pair _ _ _ _ W) as [_ Pb].
  assert (Hinc : In c (l1 ++ c :: l2)) by (apply in_or_app; right; left; reflexivity).
  assert (Lc : live c = true).
  { destruct (live c) eqn:L; [reflexivity|]. rewrite (wf_dead _ _ W c Hinc L) in Hk. destruct Hk. }
  split; [exact Lc|]. intros b Hb Lb. destruct (Pb b Hb Lc Lb) as [_ Q]. apply Q, Hk.
Qed.

(** after a validated node that held a key beyond r when it was read, or has no successor, nothing of the
    interval follows *)
Lemma nothing_after ns f cur l r k :
  WF ns f ->
  ((exists k0, le_r k0 r = false /\ lo_above k0 (after cur ns)) \/ next_ok None (after cur ns)) ->
  In k (all_keys (after cur ns)) -> in_interval l r k = true -> False.
Proof.
  intros W Hcase Hk Hi. destruct Hcase as [(k0&Hr&Hab)|Hnone].
  - apply in_all_keys in Hk as (b&Hb&Hkb). apply in_lk in Hkb as [Lb Hkb].
    specialize (Hab b Hb Lb).
    destruct (wf_ok _ _ W b (in_after _ _ _ Hb)) as [_ Hlo]. specialize (Hlo k Hkb).
    apply in_interval_le_r in Hi. rewrite (le_r_mono r k0 k) in Hr; [discriminate|lia|exact Hi].
  - rewrite all_keys_dead in Hk; [destruct Hk|]. apply next_ok_none, Hnone.
Qed.

Lemma InvB_step fx s e s' :
  WF (c_nodes s) (c_fresh s) -> InvA fx s -> InvB s -> cstep fx s e = Some s' -> InvB s'.
Proof.
  intros W IA IB H. destruct (writer e) eqn:We.
  { eapply InvB_wtrans; eauto. eapply writer_shape; eauto. }
  pose proof (wf_nodup _ _ W) as Hnd.
  destruct e; try discriminate.
  - apply cstep_begin in H as (Hpc&n&Hc&->). eapply InvB_restart; cbn; eauto.
  - apply cstep_read in H as (Hpc&c&Hf&->). destruct IB as [B1 B2 B3 B4 B5 B6].
    assert (Hs : scanning (c_scan s) = true) by (unfold scanning; rewrite Hpc; reflexivity).
    constructor; cbn; auto; try discriminate.
    + intros _ c' Hf' _. rewrite Hf in Hf'. injection Hf' as <-. split; [auto|]. split.
      * eapply nexts_ok_after; [apply (wf_next _ _ W)|exact Hf].
      * intros k Hk. eapply after_above; eauto.
    + intros _ y Hy. pose proof (nexts_ok_after _ _ _ (wf_next _ _ W) Hf) as Hn. rewrite Hy in Hn.
      apply next_ok_in in Hn. unfold ids in Hn. apply in_map_iff in Hn as (Y&<-&HY).
      apply in_after in HY. exists Y. split; [apply nodup_find; assumption|discriminate].
  - apply cstep_nextver in H as (Hpc&->). destruct IB as [B1 B2 B3 B4 B5 B6].
    assert (Hs : scanning (c_scan s) = true) by (unfold scanning; rewrite Hpc; reflexivity).
    constructor; cbn; auto; try discriminate.
    intros _ y Hy. destruct (B4 (or_introl Hpc) y Hy) as (Y&HfY&_). exists Y. split; [exact HfY|].
      intros _. rewrite Hy, HfY. apply vle_refl.
  - apply cstep_validate in H as (Hpc&c&Hf&Hcases).
    assert (Hs : scanning (c_scan s) = true) by (unfold scanning; rewrite Hpc; reflexivity).
    destruct Hcases as [(n&Hc&->)|[(Hv&Hst&Hcases)|(Hv&Hdel&->)]].
    + eapply InvB_restart; cbn; eauto.
    + destruct IB as [B1 B2 B3 B4 B5 B6].
      destruct (B3 (or_intror Hpc) c Hf Hv) as (Hsnap&Hnx&Hlo).
      assert (Hnv : forall id v, In (id, v) (sc_nvset (c_scan s) ++ [(sc_cur (c_scan s), sc_v (c_scan s))]) ->
                exists n, find_node id (c_nodes s) = Some n /\ vle v (cn_ver n)).
      { intros id v Hin. apply in_app_or in Hin as [Hin|[Hin|[]]]; [auto|]. injection Hin as <- <-.
        exists c. split; [exact Hf|]. rewrite Hv. apply vle_refl. }
      pose proof (before_after_split _ _ _ Hf) as Ens.
      assert (Hkeys : forall k, In k (c_stable s) ->
                in_interval (sc_l (c_scan s)) (sc_r (c_scan s)) k = true ->
                In k (deliver_res (c_scan s)) \/ In k (all_keys (after (sc_cur (c_scan s)) (c_nodes s)))).
      { intros k Hk Hi. rewrite deliver_res_eq.
        destruct (B5 Hs k Hk Hi) as [H|H]; [left; apply in_or_app; left; exact H|].
        pose proof (ia_stable _ _ IA k Hk) as Hall. rewrite Ens, all_keys_app, all_keys_cons in Hall.
        apply in_app_or in Hall as [Hall|Hall]; [contradiction|].
        apply in_app_or in Hall as [Hall|Hall]; [|right; exact Hall].
        left. apply in_or_app. right. apply filter_In. split; [|exact Hi].
        apply Hsnap. apply in_lk in Hall. apply Hall. }
      destruct Hcases as [(Hend&->)|(nx&Hbey&Hnxt&->)].
      * constructor; cbn; auto; try discriminate; try (intros [|]; discriminate).
        intros _ k Hk Hi. destruct (Hkeys k Hk Hi) as [H|H]; [exact H|]. exfalso.
        eapply (nothing_after _ _ (sc_cur (c_scan s))); eauto.
        destruct Hend as [Hb|Hn]; [left|right; rewrite <- Hn; exact Hnx].
        apply beyond_spec in Hb as (k0&Hk0&Hr). exists k0. split; [exact Hr|apply (Hlo k0 Hk0)].
      * rewrite Hnxt in Hnx. destruct (next_ok_some _ _ Hnx) as (d&Y&l3&Ea&HidY&Hd).
        destruct (before_via _ _ _ _ _ _ Hnd Hf Ea) as [Ebef HfY]. rewrite HidY in *.
        constructor; cbn; auto; try discriminate; try (intros [|]; discriminate).
        -- intros _. destruct (B4 (or_intror Hpc) nx Hnxt) as (Y'&HfY'&Hvy). exists Y'. auto.
        -- intros _ k Hk Hi. destruct (Hkeys k Hk Hi) as [H|H]; [left; exact H|].
           destruct (in_dec N.eq_dec k (deliver_res (c_scan s))) as [Hin|Hnin]; [left; exact Hin|right].
           rewrite Ebef, all_keys_app, all_keys_cons. intros Hb.
           apply in_app_or in Hb as [Hb|Hb].
           { destruct (B5 Hs k Hk Hi) as [H'|H']; [|contradiction].
             apply Hnin. rewrite deliver_res_eq. apply in_or_app. left. exact H'. }
           apply in_app_or in Hb as [Hb|Hb].
           { apply Hnin. rewrite deliver_res_eq. apply in_or_app. right. apply filter_In. split; [|exact Hi].
             apply Hsnap. apply in_lk in Hb. apply Hb. }
           rewrite (all_keys_dead d Hd) in Hb. destruct Hb.
    + destruct IB as [B1 B2 B3 B4 B5 B6].
      constructor; cbn; auto; try discriminate; try (intros [|]; discriminate).
      intros _. exists c. split; [exact Hf|apply vle_refl].
Qed.

Lemma reach_B fx kss evs s :
  kss_ok kss = true -> crun fx (cinit kss) evs = Some s ->
  WF (c_nodes s) (c_fresh s) /\ InvA fx s /\ InvB s.
Proof.
  intros Hk. apply (crun_inv (fun s => WF (c_nodes s) (c_fresh s) /\ InvA fx s /\ InvB s)).
  - intros s0 e s' (W&IA&IB) H. split; [eapply WF_step; eauto|]. split; [eapply InvA_step; eauto|].
    eapply InvB_step; eauto.
  - split; [apply WF_init, Hk|]. split; [apply InvA_init|apply InvB_init].
Qed.

(** T3 holds with and without the repair *)
Theorem chain_scan_no_lost_stable_key_any : forall fx kss evs s k,
  kss_ok kss = true -> crun fx (cinit kss) evs = Some s ->
  sc_pc (c_scan s) = CDone -> In k (c_stable s) ->
  in_interval (sc_l (c_scan s)) (sc_r (c_scan s)) k = true ->
  In k (sc_res (c_scan s)).
Proof.
  intros fx kss evs s k Hk H Hpc Hin Hi. destruct (reach_B _ _ _ _ Hk H) as (_&_&IB).
  apply (ib_done _ IB Hpc k Hin Hi).
Qed.

Theorem chain_scan_no_lost_stable_key : forall kss evs s k,
  kss_ok kss = true -> crun true (cinit kss) evs = Some s ->
  sc_pc (c_scan s) = CDone -> In k (c_stable s) ->
  in_interval (sc_l (c_scan s)) (sc_r (c_scan s)) k = true ->
  In k (sc_res (c_scan s)).
Proof. intros kss evs s k. apply chain_scan_no_lost_stable_key_any. Qed.

(** ** 10. third layer: the recorded versions protect the covered range *)
Definition upto (id : N) (ns : list cnode) : list cnode :=
  before id ns ++ match find_node id ns with Some n => [n] | None => [] end.

Lemma in_insert_after_old x t nw l : In x l -> In x (insert_after t nw l).
Proof.
  induction l as [|y l IH]; [intros []|]. cbn [insert_after]. destruct (cn_id y =? t); cbn [In].
  - intros [?|?]; auto.
  - intros [?|?]; auto.
Qed.
Lemma in_insert_after_new t nw l : In t (ids l) -> In nw (insert_after t nw l).
Proof.
  induction l as [|y l IH]; [intros []|]. cbn [insert_after ids map In].
  destruct (N.eqb_spec (cn_id y) t) as [E|E]; cbn [In]; [auto|]. intros [?|?]; [contradiction|auto].
Qed.
Lemma insert_after_app_l t nw a b : In t (ids a) -> insert_after t nw (a ++ b) = insert_after t nw a ++ b.
Proof.
  induction a as [|y a IH]; [intros []|]. cbn [insert_after ids map In app].
  destruct (N.eqb_spec (cn_id y) t) as [E|E]; [reflexivity|]. intros [?|?]; [contradiction|].
  cbn [app]. f_equal. apply IH. assumption.
Qed.

Lemma filter_all_keys_map f g l :
  (forall n, In n l -> filter f (lk (g n)) = filter f (lk n)) ->
  filter f (all_keys (map g l)) = filter f (all_keys l).
Proof.
  induction l as [|x l IH]; [reflexivity|]. intros H. cbn [map]. rewrite !all_keys_cons, !filter_app.
  rewrite H by (left; reflexivity). f_equal. apply IH. intros n Hn. apply H. right. exact Hn.
Qed.
Lemma filter_all_keys_insert_after f t nw l :
  filter f (lk nw) = [] -> filter f (all_keys (insert_after t nw l)) = filter f (all_keys l).
Proof.
  intros Hnw. induction l as [|x l IH]; [reflexivity|]. cbn [insert_after].
  destruct (cn_id x =? t).
  - rewrite !all_keys_cons, !filter_app, Hnw. reflexivity.
  - rewrite !all_keys_cons, !filter_app, IH. reflexivity.
Qed.
Lemma filter_below l r L : (forall k, In k L -> k < l) -> filter (in_interval l r) L = [].
Proof.
  induction L as [|x L IH]; [reflexivity|]. intros H. cbn [filter]. unfold in_interval at 1.
  destruct (N.leb_spec l x) as [Hle|_]; [specialize (H x (or_introl eq_refl)); lia|].
  cbn [andb]. apply IH. intros k Hk. apply H. right. exact Hk.
Qed.

Section Shape2.
  Variables (s s' : cstate) (g : cnode -> cnode) (gain lost : N -> Prop).
  Hypothesis W : WF (c_nodes s) (c_fresh s).
  Hypothesis Wm : wmap (c_nodes s) g gain lost.
  Hypothesis Hsh : wshape s s' g gain lost.

  Lemma wshape_before_in p P x :
    find_node p (c_nodes s) = Some P -> In x (before p (c_nodes s)) -> In (g x) (before p (c_nodes s')).
  Proof.
    intros Hf Hx. pose proof (g_id _ _ _ _ Wm) as gid.
    destruct Hsh as [(->&_)|(t&T&nw&HfT&LT&_&Hnw&_&_&_&_&_&->)].
    - rewrite before_map by exact gid. apply in_map, Hx.
    - destruct (N.eq_dec p t) as [->|Hne].
      + rewrite before_insert_after_same, before_map by exact gid. apply in_map, Hx.
      + destruct (find_node_In _ _ _ Hf) as [Hin Hid].
        rewrite before_insert_after; [|pose proof (wf_fresh _ _ W P Hin); lia|exact Hne].
        rewrite before_map by exact gid. apply in_insert_after_old, in_map, Hx.
  Qed.

  Lemma wshape_upto pm PM :
    find_node pm (c_nodes s) = Some PM -> cn_ver (g PM) = cn_ver PM ->
    upto pm (c_nodes s') = map g (upto pm (c_nodes s)) \/
    exists t T nw, find_node t (c_nodes s) = Some T /\ live T = true /\ In T (before pm (c_nodes s)) /\
      cn_ver (g T) <> cn_ver T /\
      (forall p P, find_node p (c_nodes s) = Some P -> In T (before p (c_nodes s)) ->
                   In nw (before p (c_nodes s'))) /\
      upto pm (c_nodes s') = insert_after t nw (map g (upto pm (c_nodes s))).
  Proof.
    intros Hf Hv. pose proof (g_id _ _ _ _ Wm) as gid. unfold upto.
    rewrite (wshape_find _ _ _ _ _ W Wm Hsh _ _ Hf), Hf.
    destruct Hsh as [(->&_)|(t&T&nw&HfT&LT&(HvT&_)&Hnw&_&_&_&_&_&->)].
    - left. rewrite before_map by exact gid. rewrite map_app. reflexivity.
    - destruct (find_node_In _ _ _ Hf) as [Hin Hid]. destruct (find_node_In _ _ _ HfT) as [HinT HidT].
      assert (Hne : pm <> t).
      { intros ->. rewrite Hf in HfT. injection HfT as ->. contradiction. }
      rewrite before_insert_after; [|pose proof (wf_fresh _ _ W PM Hin); lia|exact Hne].
      rewrite before_map by exact gid.
      destruct (in_dec N.eq_dec t (ids (before pm (c_nodes s)))) as [Hit|Hnit].
      + right. exists t, T, nw. split; [exact HfT|]. split; [exact LT|].
        split; [apply (in_ids_find (c_nodes s) t); auto; [apply (wf_nodup _ _ W)|intros x; apply in_before]|].
        split; [exact HvT|]. split.
        * intros p P HfP HTin. destruct (find_node_In _ _ _ HfP) as [HinP HidP].
          assert (p <> t).
          { intros ->. apply (before_not_in t (c_nodes s)). rewrite <- HidT at 1. apply in_map. exact HTin. }
          rewrite before_insert_after; [|pose proof (wf_fresh _ _ W P HinP); lia|assumption].
          rewrite before_map by exact gid. apply in_insert_after_new. rewrite ids_map by exact gid.
          rewrite <- HidT. apply in_map. exact HTin.
        * rewrite map_app. cbn [map]. rewrite insert_after_app_l; [reflexivity|].
          rewrite ids_map by exact gid. exact Hit.
      + left. rewrite insert_after_notin by (rewrite ids_map by exact gid; exact Hnit).
        rewrite map_app. reflexivity.
  Qed.
End Shape2.

Definition Hcur (s : cstate) : Prop :=
  forall id v, In (id, v) (sc_nvset (c_scan s)) ->
    exists n, find_node id (c_nodes s) = Some n /\ cn_ver n = v.
Definition first_rec (sc : cscan) : N * cver := hd (sc_cur sc, sc_v sc) (sc_nvset sc).
Definition recorded (sc : cscan) (id : N) : Prop := In id (map fst (sc_nvset sc)).

Record InvC (s : cstate) : Prop := {
  ic_first :
    exists n, find_node (fst (first_rec (c_scan s))) (c_nodes s) = Some n /\
              cn_lo n <= sc_l (c_scan s) /\ cv_del (snd (first_rec (c_scan s))) = false;
  ic_empty : sc_nvset (c_scan s) = [] -> sc_res (c_scan s) = [] /\ sc_pc (c_scan s) <> CDone;
  ic_main : Hcur s -> forall rest pm vm, sc_nvset (c_scan s) = rest ++ [(pm, vm)] ->
    (* removes are invisible in the versions: the result covers the present keys, it may hold removed ones *)
    (forall k, In k (all_keys (upto pm (c_nodes s))) ->
       in_interval (sc_l (c_scan s)) (sc_r (c_scan s)) k = true -> In k (sc_res (c_scan s))) /\
    (forall n, In n (upto pm (c_nodes s)) -> live n = true ->
       recorded (c_scan s) (cn_id n) \/ In (cn_id n) (ids (before (fst (first_rec (c_scan s))) (c_nodes s)))) /\
    (scanning (c_scan s) = true -> next_ok (Some (sc_cur (c_scan s))) (after pm (c_nodes s))) /\
    (sc_pc (c_scan s) = CDone ->
       (exists k0, le_r k0 (sc_r (c_scan s)) = false /\
          (exists PM, find_node pm (c_nodes s) = Some PM /\ live PM = true) /\
          lo_above k0 (after pm (c_nodes s))) \/
       next_ok None (after pm (c_nodes s))) }.

Lemma InvC_init kss : kss_ok kss = true -> InvC (cinit kss).
Proof.
  intros Hk. constructor; cbn.
  - unfold kss_ok in Hk. destruct kss as [|ks tl0]; [discriminate|]. cbn [mk_nodes find_node cn_id].
    rewrite N.eqb_refl. eexists. split; [reflexivity|]. cbn. split; [lia|reflexivity].
  - intros _. split; [reflexivity|discriminate].
  - intros _ rest pm vm H. destruct rest; discriminate.
Qed.

Lemma in_upto n id ns : In n (upto id ns) -> In n ns.
Proof.
  unfold upto. intros H. apply in_app_or in H as [H|H]; [eapply in_before; eauto|].
  destruct (find_node id ns) as [x|] eqn:E; [|destruct H]. destruct H as [<-|[]].
  apply (find_node_In _ _ _ E).
Qed.

Lemma hd_in {A} (d : A) l x rest : l = rest ++ [x] -> In (hd d l) l.
Proof. intros ->. destruct rest; left; reflexivity. Qed.

Lemma live_of_ver n v : cn_ver n = v -> cv_del v = false -> live n = true.
Proof. unfold live. intros -> ->. reflexivity. Qed.

Lemma InvC_wtrans s s' :
  WF (c_nodes s) (c_fresh s) -> WF (c_nodes s') (c_fresh s') -> InvB s -> InvC s -> wtrans s s' -> InvC s'.
Proof.
  intros W W' IB [C1 C2 C3] (Hsc&g&gain&lost&Wm&S1&E1&E1'&E2&E3&Hsh).
  pose proof (wshape_find _ _ _ _ _ W Wm Hsh) as Hfind.
  pose proof (g_id _ _ _ _ Wm) as gid. pose proof (wf_nodup _ _ W) as Hnd.
  constructor; rewrite ?Hsc.
  - destruct C1 as (n&Hf&Hlo&Hd). exists (g n). split; [apply Hfind, Hf|]. split; [|exact Hd].
    pose proof (g_lo _ _ _ _ Wm n (proj1 (find_node_In _ _ _ Hf))). lia.
  - exact C2.
  - intros HC' rest pm vm Env. unfold Hcur in HC'. rewrite Hsc in HC'.
    (* the recorded nodes are untouched by this step *)
    assert (Hrec : forall id v, In (id, v) (sc_nvset (c_scan s)) ->
              exists n, find_node id (c_nodes s) = Some n /\ cn_ver n = v /\ cn_ver (g n) = cn_ver n).
    { intros id v Hin. destruct (ib_nvset _ IB id v Hin) as (n&Hf&Hv).
      destruct (HC' id v Hin) as (n'&Hf'&Hv'). rewrite (Hfind _ _ Hf) in Hf'. injection Hf' as <-.
      pose proof (g_vle _ _ _ _ Wm n (proj1 (find_node_In _ _ _ Hf))) as Hv2.
      assert (cn_ver n = v) by (apply vle_antisym; [rewrite <- Hv'; exact Hv2|exact Hv]).
      exists n. repeat split; auto. congruence. }
    assert (HC : Hcur s).
    { intros id v Hin. destruct (Hrec id v Hin) as (n&Hf&Hv&_). eauto. }
    destruct (C3 HC rest pm vm Env) as (R1&R2&R3&R4).
    assert (Hpmin : In (pm, vm) (sc_nvset (c_scan s))) by (rewrite Env; apply in_or_app; right; left; reflexivity).
    destruct (Hrec pm vm Hpmin) as (PM&HfPM&HvPM&HgPM).
    (* the first recorded node *)
    assert (Hp1in : In (first_rec (c_scan s)) (sc_nvset (c_scan s))) by (eapply hd_in; eauto).
    destruct C1 as (P1&HfP1&HloP1&HdelP1).
    destruct (first_rec (c_scan s)) as [p1 v1] eqn:Efr. cbn [fst snd] in *.
    destruct (Hrec p1 v1 Hp1in) as (P1'&HfP1'&HvP1&HgP1). rewrite HfP1 in HfP1'. injection HfP1' as <-.
    assert (LP1 : live P1 = true) by (eapply live_of_ver; eauto).
    assert (LgP1 : live (g P1) = true) by (eapply live_of_ver; [rewrite HgP1; exact HvP1|exact HdelP1]).
    assert (HlogP1 : cn_lo (g P1) <= sc_l (c_scan s)).
    { pose proof (g_lo _ _ _ _ Wm P1 (proj1 (find_node_In _ _ _ HfP1))). lia. }
    (* keys before the first recorded node are outside the interval, before and after the step *)
    assert (Hlow' : forall n k, In n (before p1 (c_nodes s')) -> In k (lk n) ->
              in_interval (sc_l (c_scan s)) (sc_r (c_scan s)) k = true -> False).
    { intros n k Hn Hk Hi.
      assert (k < cn_lo (g P1)).
      { apply (before_below (c_nodes s') (c_fresh s') p1 (g P1) k W' (Hfind _ _ HfP1) LgP1).
        apply in_all_keys. eauto. }
      apply in_interval_l in Hi. lia. }
    (* pointwise: the part of every node up to pm that lies in the interval can only shrink *)
    assert (Hpt : forall n, In n (upto pm (c_nodes s)) -> forall k, In k (lk (g n)) ->
              in_interval (sc_l (c_scan s)) (sc_r (c_scan s)) k = true -> In k (lk n)).
    { intros n Hn k Hk Hi. pose proof (in_upto _ _ _ Hn) as Hnin. destruct (live n) eqn:Ln.
      - destruct (R2 n Hn Ln) as [Hr|Hb].
        + unfold recorded in Hr. apply in_map_iff in Hr as ([id v]&Eid&Hin). cbn in Eid. subst id.
          destruct (Hrec _ _ Hin) as (n'&Hf'&_&Hg'). rewrite (nodup_find _ _ Hnd Hnin) in Hf'. injection Hf' as <-.
          apply in_lk in Hk as [_ Hk]. apply in_lk. split; [exact Ln|].
          exact (g_same _ _ _ _ Wm n Hnin Hg' k Hk).
        + exfalso. assert (Hnb : In n (before p1 (c_nodes s))).
          { apply (in_ids_find (c_nodes s) (cn_id n)); auto; [intros x; apply in_before|apply nodup_find; auto]. }
          apply (Hlow' (g n) k); [|exact Hk|exact Hi].
          exact (wshape_before_in s s' g gain lost W Wm Hsh p1 P1 n HfP1 Hnb).
      - rewrite (g_dead _ _ _ _ Wm n Hnin Ln) in Hk. exact Hk. }
    assert (Hptk : forall k, In k (all_keys (map g (upto pm (c_nodes s)))) ->
              in_interval (sc_l (c_scan s)) (sc_r (c_scan s)) k = true -> In k (all_keys (upto pm (c_nodes s)))).
    { intros k Hk Hi. apply in_all_keys in Hk as (y&Hy&Hky). apply in_map_iff in Hy as (n&<-&Hn).
      apply in_all_keys. exists n. split; [exact Hn|apply Hpt; assumption]. }
    assert (Hcl : forall n, In n (upto pm (c_nodes s)) -> live (g n) = true ->
              recorded (c_scan s) (cn_id (g n)) \/ In (cn_id (g n)) (ids (before p1 (c_nodes s')))).
    { intros n Hn Lgn. pose proof (in_upto _ _ _ Hn) as Hnin.
      assert (Ln : live n = true).
      { destruct (live n) eqn:Ln; [reflexivity|]. rewrite (g_dead _ _ _ _ Wm n Hnin Ln) in Lgn. congruence. }
      rewrite gid. destruct (R2 n Hn Ln) as [Hr|Hb]; [left; exact Hr|right].
      assert (Hnb : In n (before p1 (c_nodes s))).
      { apply (in_ids_find (c_nodes s) (cn_id n)); auto; [intros x; apply in_before|apply nodup_find; auto]. }
      rewrite <- (gid n). apply in_map.
      exact (wshape_before_in s s' g gain lost W Wm Hsh p1 P1 n HfP1 Hnb). }
    split; [|split; [|split]].
    + intros k Hk Hi. apply R1; [|exact Hi].
      destruct (wshape_upto _ _ _ _ _ W Wm Hsh pm PM HfPM HgPM) as [E|(t&T&nw&HfT&LT&HTin&HvT&Hnw&E)];
        rewrite E in Hk.
      * apply Hptk; assumption.
      * apply in_all_keys_insert_after in Hk as [Hk|[_ Hk]]; [apply Hptk; assumption|].
        exfalso. apply (Hlow' nw k); [|exact Hk|exact Hi]. apply (Hnw p1 P1 HfP1).
        assert (HTu : In T (upto pm (c_nodes s))) by (apply in_or_app; left; exact HTin).
        destruct (R2 T HTu LT) as [Hr|Hb].
        -- exfalso. unfold recorded in Hr. apply in_map_iff in Hr as ([id v]&Eid&Hin). cbn in Eid. subst id.
           destruct (Hrec _ _ Hin) as (n'&Hf'&_&Hg').
           rewrite (nodup_find _ _ Hnd (in_upto _ _ _ HTu)) in Hf'. injection Hf' as <-. contradiction.
        -- apply (in_ids_find (c_nodes s) (cn_id T)); auto; [intros x; apply in_before|].
           apply nodup_find; auto. apply (in_upto _ _ _ HTu).
    + intros n' Hn' Ln'.
      destruct (wshape_upto _ _ _ _ _ W Wm Hsh pm PM HfPM HgPM) as [E|(t&T&nw&HfT&LT&HTin&HvT&Hnw&E)];
        rewrite E in Hn'.
      * apply in_map_iff in Hn' as (n&<-&Hn). apply Hcl; assumption.
      * apply in_insert_after in Hn' as [->|Hn'].
        -- right. apply in_map. apply (Hnw p1 P1 HfP1).
           assert (HTu : In T (upto pm (c_nodes s))) by (apply in_or_app; left; exact HTin).
           destruct (R2 T HTu LT) as [Hr|Hb].
           ++ exfalso. unfold recorded in Hr. apply in_map_iff in Hr as ([id v]&Eid&Hin). cbn in Eid. subst id.
              destruct (Hrec _ _ Hin) as (n'&Hf'&_&Hg').
              rewrite (nodup_find _ _ Hnd (in_upto _ _ _ HTu)) in Hf'. injection Hf' as <-. contradiction.
           ++ apply (in_ids_find (c_nodes s) (cn_id T)); auto; [intros x; apply in_before|].
              apply nodup_find; auto. apply (in_upto _ _ _ HTu).
        -- apply in_map_iff in Hn' as (n&<-&Hn). apply Hcl; assumption.
    + intros Hs. exact (wshape_after s s' g gain lost W Wm Hsh pm PM _ HfPM HgPM (R3 Hs)).
    + intros Hpc. destruct (R4 Hpc) as [(k0&Hr&(PM'&Hf'&LPM)&Hab)|Hn].
      * left. rewrite HfPM in Hf'. injection Hf' as <-. exists k0. split; [exact Hr|]. split.
        -- exists (g PM). split; [apply Hfind, HfPM|].
           rewrite (live_same_ver (g PM) PM) by (rewrite HgPM; reflexivity). exact LPM.
        -- apply (wshape_lo_above s s' g gain lost W Wm Hsh pm PM); auto.
      * right. exact (wshape_after s s' g gain lost W Wm Hsh pm PM _ HfPM HgPM Hn).
Qed.

Lemma InvC_restart s' l r rs n :
  WF (c_nodes s') (c_fresh s') -> cover l (c_nodes s') = Some n -> c_scan s' = sc_restart l r rs n -> InvC s'.
Proof.
  intros W Hc Hsc. destruct (cover_spec _ _ _ Hc) as (_&_&_&Ln&Hlo&_).
  constructor; rewrite Hsc; cbn.
  - exists n. split; [eapply cover_find; eauto|]. split; [exact Hlo|].
    unfold live in Ln. apply negb_true_iff in Ln. exact Ln.
  - intros _. split; [reflexivity|discriminate].
  - intros _ rest pm vm H. destruct rest; discriminate.
Qed.

Lemma first_rec_snoc (d' : N * cver) l cur v : hd d' (l ++ [(cur, v)]) = hd (cur, v) l.
Proof. destruct l; reflexivity. Qed.

Lemma lk_keys ns f c : WF ns f -> In c ns -> lk c = cn_keys c.
Proof.
  intros W Hin. unfold lk. destruct (live c) eqn:L; [reflexivity|]. symmetry. apply (wf_dead _ _ W c Hin L).
Qed.

Lemma deliver_main s c :
  WF (c_nodes s) (c_fresh s) -> InvC s -> Hcur s ->
  sc_pc (c_scan s) = CValidate ->
  find_node (sc_cur (c_scan s)) (c_nodes s) = Some c -> cn_ver c = sc_v (c_scan s) ->
  (forall k, In k (cn_keys c) -> In k (sc_snap (c_scan s))) ->
  (forall k, In k (all_keys (upto (sc_cur (c_scan s)) (c_nodes s))) ->
     in_interval (sc_l (c_scan s)) (sc_r (c_scan s)) k = true -> In k (deliver_res (c_scan s))) /\
  (forall n, In n (upto (sc_cur (c_scan s)) (c_nodes s)) -> live n = true ->
     In (cn_id n) (map fst (sc_nvset (c_scan s) ++ [(sc_cur (c_scan s), sc_v (c_scan s))])) \/
     In (cn_id n) (ids (before (fst (first_rec (c_scan s))) (c_nodes s)))).
Proof.
  intros W [C1 C2 C3] HC Hpc Hf Hv Hsnap. pose proof (wf_nodup _ _ W) as Hnd.
  destruct (find_node_In _ _ _ Hf) as [Hcin Hcid].
  assert (Hs : scanning (c_scan s) = true) by (unfold scanning; rewrite Hpc; reflexivity).
  assert (Hc : forall k, In k (lk c) -> in_interval (sc_l (c_scan s)) (sc_r (c_scan s)) k = true ->
            In k (deliver_res (c_scan s))).
  { intros k Hk Hi. rewrite deliver_res_eq. apply in_or_app. right. apply filter_In. split; [|exact Hi].
    apply Hsnap. apply in_lk in Hk. apply Hk. }
  unfold upto at 1 2. rewrite Hf.
  destruct (sc_nvset (c_scan s)) as [|p0 l0] eqn:Env.
  - destruct (C2 eq_refl) as [Hres _].
    unfold first_rec in *. rewrite Env in *. cbn [hd fst snd] in *.
    destruct C1 as (c'&Hf'&Hlo&Hdel). rewrite Hf in Hf'. injection Hf' as <-.
    assert (Lc : live c = true) by (eapply live_of_ver; eauto).
    split.
    + intros k Hk Hi. rewrite all_keys_app in Hk. apply in_app_or in Hk as [Hk|Hk].
      * exfalso. pose proof (before_below _ _ _ _ _ W Hf Lc Hk). apply in_interval_l in Hi. lia.
      * rewrite all_keys_cons in Hk. cbn [all_keys flat_map] in Hk. rewrite app_nil_r in Hk. apply Hc; assumption.
    + intros n Hn _. apply in_app_or in Hn as [Hn|[<-|[]]].
      * right. apply in_map. exact Hn.
      * left. cbn. left. symmetry. exact Hcid.
  - assert (Hne : p0 :: l0 <> []) by discriminate.
    destruct (exists_last Hne) as (rest&[pm vm]&Elast). rewrite Elast in *. clear Hne.
    destruct (C3 HC rest pm vm eq_refl) as (R1&R2&R3&_).
    assert (Hpmin : In (pm, vm) (sc_nvset (c_scan s))) by (rewrite Env; apply in_or_app; right; left; reflexivity).
    destruct (HC pm vm Hpmin) as (PM&HfPM&_).
    destruct (next_ok_some _ _ (R3 Hs)) as (d&Y&l3&Ea&HidY&Hd).
    destruct (before_via _ _ _ _ _ _ Hnd HfPM Ea) as [Ebef HfY]. rewrite HidY in *.
    rewrite Hf in HfY. injection HfY as <-. rewrite Ebef.
    assert (Eu : upto pm (c_nodes s) = before pm (c_nodes s) ++ [PM]) by (unfold upto; rewrite HfPM; reflexivity).
    split.
    + intros k Hk Hi. rewrite all_keys_app in Hk. apply in_app_or in Hk as [Hk|Hk].
      * rewrite deliver_res_eq. apply in_or_app. left. apply R1; [|exact Hi]. rewrite Eu.
        rewrite all_keys_app in Hk |- *. apply in_app_or in Hk as [Hk|Hk]; apply in_or_app; [left; exact Hk|].
        rewrite all_keys_cons in Hk. apply in_app_or in Hk as [Hk|Hk].
        -- right. rewrite all_keys_cons. apply in_or_app. left. exact Hk.
        -- rewrite (all_keys_dead d Hd) in Hk. destruct Hk.
      * rewrite all_keys_cons in Hk. cbn [all_keys flat_map] in Hk. rewrite app_nil_r in Hk. apply Hc; assumption.
    + intros n Hn Ln. rewrite map_app, in_app_iff.
      apply in_app_or in Hn as [Hn|[<-|[]]]; [|left; right; left; symmetry; exact Hcid].
      apply in_app_or in Hn as [Hn|[<-|Hn]].
      * destruct (R2 n) as [H|H]; [rewrite Eu; apply in_or_app; left; exact Hn|exact Ln| |right; exact H].
        left; left. unfold recorded in H. rewrite Env in H. exact H.
      * destruct (R2 PM) as [H|H]; [rewrite Eu; apply in_or_app; right; left; reflexivity|exact Ln| |right; exact H].
        left; left. unfold recorded in H. rewrite Env in H. exact H.
      * rewrite (Hd n Hn) in Ln. discriminate.
Qed.

Lemma Hcur_snoc s s' cur v :
  c_nodes s' = c_nodes s -> sc_nvset (c_scan s') = sc_nvset (c_scan s) ++ [(cur, v)] ->
  Hcur s' -> Hcur s /\ exists n, find_node cur (c_nodes s) = Some n /\ cn_ver n = v.
Proof.
  intros En Ev HC. unfold Hcur in *. rewrite En, Ev in HC. split.
  - intros id v0 Hin. apply HC, in_or_app. left. exact Hin.
  - apply HC, in_or_app. right. left. reflexivity.
Qed.

Lemma InvC_step fx s e s' :
  WF (c_nodes s) (c_fresh s) -> InvB s -> InvC s -> cstep fx s e = Some s' -> InvC s'.
Proof.
  intros W IB IC H. pose proof (WF_step _ _ _ _ W H) as W'. destruct (writer e) eqn:We.
  { apply (InvC_wtrans s s' W W' IB IC). eapply writer_shape; eauto. }
  destruct e; try discriminate.
  - apply cstep_begin in H as (Hpc&n&Hc&->). eapply InvC_restart; cbn; eauto.
  - apply cstep_read in H as (Hpc&c&Hf&->). destruct IC as [C1 C2 C3].
    constructor; cbn; auto.
    + intros E. destruct (C2 E) as [? _]. split; [assumption|discriminate].
    + intros HC rest pm vm Env. destruct (C3 HC rest pm vm Env) as (R1&R2&R3&R4).
      split; [exact R1|]. split; [exact R2|]. split; [|discriminate].
      intros _. apply R3. unfold scanning. rewrite Hpc. reflexivity.
  - apply cstep_nextver in H as (Hpc&->). destruct IC as [C1 C2 C3].
    constructor; cbn; auto.
    + intros E. destruct (C2 E) as [? _]. split; [assumption|discriminate].
    + intros HC rest pm vm Env. destruct (C3 HC rest pm vm Env) as (R1&R2&R3&R4).
      split; [exact R1|]. split; [exact R2|]. split; [|discriminate].
      intros _. apply R3. unfold scanning. rewrite Hpc. reflexivity.
  - apply cstep_validate in H as (Hpc&c&Hf&Hcases).
    assert (Hs : scanning (c_scan s) = true) by (unfold scanning; rewrite Hpc; reflexivity).
    destruct Hcases as [(n&Hc&->)|[(Hv&Hst&Hcases)|(Hv&Hdel&->)]].
    + eapply InvC_restart; cbn; eauto.
    + destruct (ib_snap _ IB (or_intror Hpc) c Hf Hv) as (Hsnap&Hnx&Hlo).
      destruct Hcases as [(Hend&->)|(nx&Hbey&Hnxt&->)].
      * constructor; cbn [set_scan c_scan c_nodes sc_done sc_pc sc_l sc_r sc_cur sc_v sc_res sc_nvset].
        -- unfold first_rec. cbn [sc_done sc_nvset sc_cur sc_v]. rewrite first_rec_snoc.
           apply (ic_first _ IC).
        -- intros E. destruct (sc_nvset (c_scan s)); discriminate.
        -- intros HC' rest pm vm Env.
           destruct (Hcur_snoc s (set_scan s (sc_done (c_scan s))) _ _ eq_refl eq_refl HC') as [HC _].
           apply app_inj_tail in Env as [<- Epm]. injection Epm as <- <-.
           destruct (deliver_main s c W IC HC Hpc Hf Hv Hsnap) as [D1 D2].
           split; [exact D1|]. split.
           { unfold recorded, first_rec. cbn [sc_done sc_nvset sc_cur sc_v]. rewrite first_rec_snoc. exact D2. }
           split; [discriminate|]. intros _.
           destruct Hend as [Hb|Hn]; [left|right; rewrite <- Hn; exact Hnx].
           apply beyond_spec in Hb as (k0&Hk0&Hr). destruct (Hlo k0 Hk0) as [Lc Hab].
           exists k0. split; [exact Hr|]. split; [exists c; auto|exact Hab].
      * constructor; cbn [set_scan c_scan c_nodes sc_adv sc_pc sc_l sc_r sc_cur sc_v sc_res sc_nvset].
        -- unfold first_rec. cbn [sc_adv sc_nvset sc_cur sc_v]. rewrite first_rec_snoc.
           apply (ic_first _ IC).
        -- intros E. destruct (sc_nvset (c_scan s)); discriminate.
        -- intros HC' rest pm vm Env.
           destruct (Hcur_snoc s (set_scan s (sc_adv (c_scan s) nx)) _ _ eq_refl eq_refl HC') as [HC _].
           apply app_inj_tail in Env as [<- Epm]. injection Epm as <- <-.
           destruct (deliver_main s c W IC HC Hpc Hf Hv Hsnap) as [D1 D2].
           split; [exact D1|]. split.
           { unfold recorded, first_rec. cbn [sc_adv sc_nvset sc_cur sc_v]. rewrite first_rec_snoc. exact D2. }
           split; [|discriminate]. intros _. rewrite <- Hnxt. exact Hnx.
    + destruct IC as [C1 C2 C3].
      constructor; cbn [set_scan c_scan c_nodes sc_reread sc_pc sc_l sc_r sc_cur sc_v sc_res sc_nvset].
      * unfold first_rec in *. cbn [sc_reread sc_nvset sc_cur sc_v].
        destruct (sc_nvset (c_scan s)) as [|p0 l0]; [|exact C1]. cbn [hd fst snd] in *.
        destruct C1 as (c'&Hf'&Hlo&_). rewrite Hf in Hf'. injection Hf' as <-. exists c. auto.
      * intros E. destruct (C2 E) as [? _]. split; [assumption|discriminate].
      * intros HC rest pm vm Env. destruct (C3 HC rest pm vm Env) as (R1&R2&R3&R4).
        split; [exact R1|]. split.
        { unfold recorded, first_rec in *. cbn [sc_reread sc_nvset sc_cur sc_v].
          rewrite Env in *. destruct rest; exact R2. }
        split; [|discriminate]. intros _. apply R3, Hs.
Qed.

Lemma reach_C fx kss evs s :
  kss_ok kss = true -> crun fx (cinit kss) evs = Some s ->
  WF (c_nodes s) (c_fresh s) /\ InvA fx s /\ InvB s /\ InvC s.
Proof.
  intros Hk. apply (crun_inv (fun s => WF (c_nodes s) (c_fresh s) /\ InvA fx s /\ InvB s /\ InvC s)).
  - intros s0 e s' (W&IA&IB&IC) H. split; [eapply WF_step; eauto|]. split; [eapply InvA_step; eauto|].
    split; [eapply InvB_step; eauto|eapply InvC_step; eauto].
  - split; [apply WF_init, Hk|]. split; [apply InvA_init|]. split; [apply InvB_init|apply InvC_init, Hk].
Qed.

(** ** 11. T4 after the faithfulness fix: what the recorded versions tell

    A remove does not change the version word of its border, so "every recorded (node, version) pair is still
    current" excludes inserts into, splits of and unlinks of the recorded nodes, not removes.  What holds:
    - no undetected insert: every key of the interval that exists now is in the result;
    - the result is the current keys of the interval plus keys removed since they were read (which, by
      [chain_scan_sound], were present at an instant of the scan);
    - without a remove since the invocation the result is exactly the current keys of the interval;
    - the old exact form is refuted by a remove after the scan. *)
Lemma filter_none {A} (f : A -> bool) l : (forall x, In x l -> f x = false) -> filter f l = [].
Proof.
  induction l as [|x l IH]; [reflexivity|]. intros H. cbn [filter]. rewrite (H x (or_introl eq_refl)).
  apply IH. intros y Hy. apply H. right. exact Hy.
Qed.

(** at the level of the invariant (used again by ChainLimProofs) *)
Lemma InvC_no_phantom_insert s k :
  WF (c_nodes s) (c_fresh s) -> InvC s -> sc_pc (c_scan s) = CDone -> Hcur s ->
  In k (all_keys (c_nodes s)) -> in_interval (sc_l (c_scan s)) (sc_r (c_scan s)) k = true ->
  In k (sc_res (c_scan s)).
Proof.
  intros W IC Hpc HC Hin Hi. pose proof HC as HC'. unfold Hcur in HC.
  destruct (sc_nvset (c_scan s)) as [|p0 l0] eqn:Env in |- *.
  { destruct (ic_empty _ IC Env) as [_ Hn]. contradiction. }
  assert (Hne : p0 :: l0 <> []) by discriminate.
  destruct (exists_last Hne) as (rest&[pm vm]&Elast). rewrite Elast in Env. clear Hne Elast.
  destruct (ic_main _ IC HC' rest pm vm Env) as (R1&_&_&R4).
  assert (Hpmin : In (pm, vm) (sc_nvset (c_scan s))) by (rewrite Env; apply in_or_app; right; left; reflexivity).
  destruct (HC pm vm Hpmin) as (PM&HfPM&_).
  rewrite (before_after_split _ _ _ HfPM) in Hin.
  replace (before pm (c_nodes s) ++ PM :: after pm (c_nodes s))
    with ((before pm (c_nodes s) ++ [PM]) ++ after pm (c_nodes s)) in Hin by (rewrite <- app_assoc; reflexivity).
  rewrite all_keys_app in Hin. apply in_app_or in Hin as [Hin|Hin].
  - apply R1; [|exact Hi]. unfold upto. rewrite HfPM. exact Hin.
  - exfalso. eapply (nothing_after _ _ pm); eauto.
    destruct (R4 Hpc) as [(k0&Hr&_&Hab)|Hn]; [left; eauto|right; exact Hn].
Qed.

Theorem chain_scan_no_phantom_insert_any : forall fx kss evs s k,
  kss_ok kss = true -> crun fx (cinit kss) evs = Some s ->
  sc_pc (c_scan s) = CDone ->
  (forall id v, In (id, v) (sc_nvset (c_scan s)) ->
     exists n, find_node id (c_nodes s) = Some n /\ cn_ver n = v) ->
  In k (all_keys (c_nodes s)) -> in_interval (sc_l (c_scan s)) (sc_r (c_scan s)) k = true ->
  In k (sc_res (c_scan s)).
Proof.
  intros fx kss evs s k Hk H Hpc HC Hin Hi. destruct (reach_C _ _ _ _ Hk H) as (W&_&_&IC).
  apply InvC_no_phantom_insert; assumption.
Qed.

Theorem chain_scan_no_phantom_insert : forall kss evs s k,
  kss_ok kss = true -> crun true (cinit kss) evs = Some s -> sc_pc (c_scan s) = CDone ->
  (forall id v, In (id, v) (sc_nvset (c_scan s)) -> exists n, find_node id (c_nodes s) = Some n /\ cn_ver n = v) ->
  In k (all_keys (c_nodes s)) -> in_interval (sc_l (c_scan s)) (sc_r (c_scan s)) k = true ->
  In k (sc_res (c_scan s)).
Proof. intros kss evs s k. apply chain_scan_no_phantom_insert_any. Qed.

(** *** sorted lists are determined by their elements *)
Lemma all_keys_sorted ns :
  (forall n, In n ns -> node_ok n) -> pairwise rel ns -> sorted_strict (all_keys ns) = true.
Proof.
  induction ns as [|x l IH]; [reflexivity|]. intros Hok HP. cbn [pairwise] in HP. destruct HP as [P1 P2].
  rewrite all_keys_cons. apply sorted_app. split; [|split].
  - unfold lk. destruct (live x); [apply Hok; left; reflexivity|reflexivity].
  - apply IH; [intros n Hn; apply Hok; right; exact Hn|exact P2].
  - intros a b Ha Hb. apply in_lk in Ha as [La Ha]. apply in_all_keys in Hb as (y&Hy&Hb).
    apply in_lk in Hb as [Ly Hb]. destruct (P1 y Hy La Ly) as [_ Q]. specialize (Q a Ha).
    destruct (Hok y (or_intror Hy)) as [_ Hlo]. specialize (Hlo b Hb). lia.
Qed.
Lemma WF_sorted ns f : WF ns f -> sorted_strict (all_keys ns) = true.
Proof. intros W. apply all_keys_sorted; [apply (wf_ok _ _ W)|apply (wf_ord _ _ W)]. Qed.

Lemma sorted_ext l1 : forall l2, sorted_strict l1 = true -> sorted_strict l2 = true ->
  (forall k, In k l1 <-> In k l2) -> l1 = l2.
Proof.
  induction l1 as [|x l1 IH]; intros [|y l2] H1 H2 Hiff.
  - reflexivity.
  - exfalso. exact (proj2 (Hiff y) (or_introl eq_refl)).
  - exfalso. exact (proj1 (Hiff x) (or_introl eq_refl)).
  - apply sorted_cons in H1 as [A1 A2]. apply sorted_cons in H2 as [B1 B2].
    assert (x = y).
    { destruct (proj1 (Hiff x) (or_introl eq_refl)) as [E|Hx]; [symmetry; exact E|].
      destruct (proj2 (Hiff y) (or_introl eq_refl)) as [E|Hy]; [exact E|].
      specialize (A1 y Hy). specialize (B1 x Hx). lia. }
    subst y. f_equal. apply IH; auto. intros k. split; intros Hk.
    + destruct (proj1 (Hiff k) (or_intror Hk)) as [E|H']; [|exact H']. subst k. specialize (A1 x Hk). lia.
    + destruct (proj2 (Hiff k) (or_intror Hk)) as [E|H']; [|exact H']. subst k. specialize (B1 x Hk). lia.
Qed.
Lemma sorted_NoDup l : sorted_strict l = true -> NoDup l.
Proof.
  induction l as [|x l IH]; intros H; [constructor|]. apply sorted_cons in H as [H1 H2].
  constructor; [|auto]. intros Hin. specialize (H1 _ Hin). lia.
Qed.
Lemma nodup_app_keys (a b : list N) :
  NoDup a -> NoDup b -> (forall x, In x a -> In x b -> False) -> NoDup (a ++ b).
Proof.
  induction a as [|x a IH]; intros Ha Hb Hd; [exact Hb|]. cbn [app]. apply NoDup_cons_iff in Ha as [Hx Ha].
  constructor.
  - intros Hin. apply in_app_or in Hin as [Hin|Hin]; [contradiction|]. apply (Hd x); [left; reflexivity|exact Hin].
  - apply IH; auto. intros y Hy. apply Hd. right. exact Hy.
Qed.

(** the keys of the result that exist no more *)
Definition removed_since (s : cstate) : list N :=
  filter (fun k => negb (mem k (all_keys (c_nodes s)))) (sc_res (c_scan s)).

Lemma in_removed_since s k :
  In k (removed_since s) <-> In k (sc_res (c_scan s)) /\ ~ In k (all_keys (c_nodes s)).
Proof. unfold removed_since. rewrite filter_In, negb_true_iff, mem_false. reflexivity. Qed.

(** every result key either is a current key of the interval or exists no more (any [fx], no hypothesis on
    the recorded versions: this is T2) *)
Theorem chain_scan_result_split_any : forall fx kss evs s k,
  kss_ok kss = true -> crun fx (cinit kss) evs = Some s -> In k (sc_res (c_scan s)) ->
  In k (filter (in_interval (sc_l (c_scan s)) (sc_r (c_scan s))) (all_keys (c_nodes s))) \/
  (In k (removed_since s) /\ In k (c_ever s)).
Proof.
  intros fx kss evs s k Hk H Hin. destruct (chain_scan_sound_any _ _ _ _ _ Hk H Hin) as [Hi He].
  destruct (mem k (all_keys (c_nodes s))) eqn:M.
  - left. apply filter_In. split; [apply mem_true, M|exact Hi].
  - right. split; [|exact He]. apply in_removed_since. split; [exact Hin|apply mem_false, M].
Qed.

(** result = current keys of the interval + keys removed since they were read *)
Theorem chain_scan_result_superset : forall kss evs s,
  kss_ok kss = true -> crun true (cinit kss) evs = Some s -> sc_pc (c_scan s) = CDone ->
  (forall id v, In (id, v) (sc_nvset (c_scan s)) -> exists n, find_node id (c_nodes s) = Some n /\ cn_ver n = v) ->
  exists removed,
    Permutation (sc_res (c_scan s))
      (filter (in_interval (sc_l (c_scan s)) (sc_r (c_scan s))) (all_keys (c_nodes s)) ++ removed) /\
    (forall k, In k removed -> ~ In k (all_keys (c_nodes s))).
Proof.
  intros kss evs s Hk H Hpc HC. exists (removed_since s).
  destruct (reach_A _ _ _ _ Hk H) as [W IA]. pose proof (ia_sorted _ _ IA eq_refl) as Hsort.
  split; [|intros k Hkr; apply in_removed_since in Hkr; apply Hkr].
  apply NoDup_Permutation.
  - apply sorted_NoDup, Hsort.
  - apply nodup_app_keys.
    + apply sorted_NoDup, sorted_filter, (WF_sorted _ _ W).
    + apply NoDup_filter, sorted_NoDup, Hsort.
    + intros x Hx Hr. apply filter_In in Hx as [Hx _]. apply in_removed_since in Hr as [_ Hr]. contradiction.
  - intros k. rewrite in_app_iff. split.
    + intros Hin. destruct (chain_scan_result_split_any _ _ _ _ _ Hk H Hin) as [H1|[H1 _]]; auto.
    + intros [Hin|Hin].
      * apply filter_In in Hin as [Hin Hi]. eapply chain_scan_no_phantom_insert; eauto.
      * apply in_removed_since in Hin. apply Hin.
Qed.

(** the sublist form: the current keys of the interval are the result without the keys that exist no more,
    in the same order *)
Theorem chain_scan_current_keys_sublist : forall kss evs s,
  kss_ok kss = true -> crun true (cinit kss) evs = Some s -> sc_pc (c_scan s) = CDone ->
  (forall id v, In (id, v) (sc_nvset (c_scan s)) -> exists n, find_node id (c_nodes s) = Some n /\ cn_ver n = v) ->
  filter (in_interval (sc_l (c_scan s)) (sc_r (c_scan s))) (all_keys (c_nodes s)) =
  filter (fun k => mem k (all_keys (c_nodes s))) (sc_res (c_scan s)).
Proof.
  intros kss evs s Hk H Hpc HC. destruct (reach_A _ _ _ _ Hk H) as [W IA].
  apply sorted_ext.
  - apply sorted_filter, (WF_sorted _ _ W).
  - apply sorted_filter, (ia_sorted _ _ IA eq_refl).
  - intros k. rewrite !filter_In, mem_true. split.
    + intros [Hin Hi]. split; [|exact Hin]. eapply chain_scan_no_phantom_insert; eauto.
    + intros [Hin Hm]. split; [exact Hm|]. apply (ia_res _ _ IA k Hin).
Qed.

(** *** no remove since the invocation: the old exact form *)
Definition NR (s : cstate) : Prop := forall k, In k (c_ever s) -> In k (all_keys (c_nodes s)).
Definition no_rem (e : cev) : Prop := forall k, e <> ERem k.

Lemma NR_step fx s e s' :
  WF (c_nodes s) (c_fresh s) -> no_rem e -> NR s -> cstep fx s e = Some s' -> NR s'.
Proof.
  intros W Hnr HN H. pose proof (wf_nodup _ _ W) as Hnd. unfold NR in *. destruct e.
  - apply cstep_ins in H as (n&Hk&Hc&->). cbn [c_nodes c_ever]. rewrite update_node_map by exact Hnd.
    pose proof (wmap_ins _ _ k n W Hc) as Wm.
    destruct (cover_spec _ _ _ Hc) as (l1&l2&E&Ln&_).
    assert (Hin : In n (c_nodes s)) by (rewrite E; apply in_or_app; right; left; reflexivity).
    assert (Hold : forall k', In k' (all_keys (c_nodes s)) ->
              In k' (all_keys (map (upd (cn_id n) (ins_f k)) (c_nodes s)))).
    { intros k' Hk'. destruct (all_keys_map_sup _ _ _ _ k' Wm Hk') as [H'|[]]. exact H'. }
    assert (Hnew : In k (all_keys (map (upd (cn_id n) (ins_f k)) (c_nodes s)))).
    { apply in_all_keys. exists (upd (cn_id n) (ins_f k) n). split; [apply in_map, Hin|].
      unfold upd. rewrite N.eqb_refl. apply in_lk. split; [exact Ln|]. cbn. apply in_insert_sorted. auto. }
    intros k' Hk'. destruct (scanning (c_scan s)); [destruct Hk' as [<-|Hk']|]; auto.
  - exfalso. exact (Hnr k eq_refl).
  - apply cstep_split in H as (T&Hf&LT&Hm&Hx&->). cbn [c_nodes c_ever]. rewrite update_node_map by exact Hnd.
    pose proof (wmap_split _ _ id T m W Hf LT) as Wm. destruct (find_node_In _ _ _ Hf) as [HinT HidT].
    intros k' Hk'. apply in_all_keys_insert_after.
    destruct (all_keys_map_sup _ _ _ _ k' Wm (HN k' Hk')) as [H'|H']; [left; exact H'|right].
    split; [|exact H']. rewrite ids_map by apply (g_id _ _ _ _ Wm). rewrite <- HidT. apply in_map, HinT.
  - apply cstep_unlink in H as (U&Hf&LU&HK&[(_&NX&Hfl&->)|(_&->)]); cbn [c_nodes c_ever].
    + destruct (L_right_facts _ _ _ _ _ W Hf LU Hfl) as (A1&A2&A3&A4).
      rewrite unlink_right_map by exact Hnd.
      pose proof (wmap_unlink _ _ id U (cn_next U) _ W Hf LU HK A1 A2 A3 A4) as Wm.
      intros k' Hk'. destruct (all_keys_map_sup _ _ _ _ k' Wm (HN k' Hk')) as [H'|[]]. exact H'.
    + rewrite unlink_left_map by exact Hnd.
      assert (Wm : wmap (c_nodes s) (unl_g id (cn_next U) (fun x => x)) (fun _ => False) (fun _ => False)).
      { eapply wmap_unlink; eauto; intros; solve [lia|left; reflexivity]. }
      intros k' Hk'. destruct (all_keys_map_sup _ _ _ _ k' Wm (HN k' Hk')) as [H'|[]]. exact H'.
  - apply cstep_begin in H as (_&n&_&->). cbn. auto.
  - apply cstep_read in H as (_&c&_&->). exact HN.
  - apply cstep_nextver in H as (_&->). exact HN.
  - apply cstep_validate in H as (_&c&_&[(n&_&->)|[(_&_&[(_&->)|(nx&_&_&->)])|(_&_&->)]]); exact HN.
Qed.

Lemma crun_inv_ev (Q : cev -> Prop) (P : cstate -> Prop) fx :
  (forall s e s', Q e -> P s -> cstep fx s e = Some s' -> P s') ->
  forall evs s s', (forall e, In e evs -> Q e) -> P s -> crun fx s evs = Some s' -> P s'.
Proof.
  intros Hstep. induction evs as [|e evs IH]; intros s s' HQ HP; cbn [crun].
  - intros H. injection H as <-. exact HP.
  - destruct (cstep fx s e) as [s1|] eqn:E; [|discriminate]. intros H.
    apply (IH s1 s'); [intros e' He'; apply HQ; right; exact He'| |exact H].
    eapply Hstep; eauto. apply HQ. left. reflexivity.
Qed.

Lemma crun_app fx evs1 : forall s evs2,
  crun fx s (evs1 ++ evs2) = match crun fx s evs1 with Some s1 => crun fx s1 evs2 | None => None end.
Proof.
  induction evs1 as [|e evs1 IH]; intros s evs2; cbn [app crun]; [reflexivity|].
  destruct (cstep fx s e); [apply IH|reflexivity].
Qed.

Lemma NR_run fx evs s s' :
  WF (c_nodes s) (c_fresh s) -> NR s -> (forall k, ~ In (ERem k) evs) -> crun fx s evs = Some s' -> NR s'.
Proof.
  intros W HN Hnr H.
  assert (HP : WF (c_nodes s') (c_fresh s') /\ NR s'); [|apply HP].
  apply (crun_inv_ev no_rem (fun s => WF (c_nodes s) (c_fresh s) /\ NR s) fx) with (evs := evs) (s := s); auto.
  - intros s0 e s1 HQ [W0 N0] Hs. split; [eapply WF_step; eauto|eapply NR_step; eauto].
  - intros e He k ->. exact (Hnr k He).
Qed.

Lemma phantom_free_core s :
  WF (c_nodes s) (c_fresh s) -> InvA true s -> NR s ->
  (forall k, In k (all_keys (c_nodes s)) -> in_interval (sc_l (c_scan s)) (sc_r (c_scan s)) k = true ->
             In k (sc_res (c_scan s))) ->
  sc_res (c_scan s) = filter (in_interval (sc_l (c_scan s)) (sc_r (c_scan s))) (all_keys (c_nodes s)).
Proof.
  intros W IA HN Hsup. apply sorted_ext.
  - apply (ia_sorted _ _ IA eq_refl).
  - apply sorted_filter, (WF_sorted _ _ W).
  - intros k. rewrite filter_In. split.
    + intros Hin. destruct (ia_res _ _ IA k Hin) as [Hi He]. split; [apply HN, He|exact Hi].
    + intros [Hin Hi]. apply Hsup; assumption.
Qed.

(** no remove after the invocation of the scan: whatever happened before, the result is exact *)
Theorem chain_scan_phantom_free_no_removes_since_begin : forall kss pre l r post s,
  kss_ok kss = true -> crun true (cinit kss) (pre ++ EBegin l r :: post) = Some s -> sc_pc (c_scan s) = CDone ->
  (forall k, ~ In (ERem k) post) ->
  (forall id v, In (id, v) (sc_nvset (c_scan s)) -> exists n, find_node id (c_nodes s) = Some n /\ cn_ver n = v) ->
  sc_res (c_scan s) = filter (in_interval (sc_l (c_scan s)) (sc_r (c_scan s))) (all_keys (c_nodes s)).
Proof.
  intros kss pre l r post s Hk H Hpc Hnr HC.
  destruct (reach_A _ _ _ _ Hk H) as [W IA].
  apply phantom_free_core; auto; [|intros k; eapply chain_scan_no_phantom_insert; eauto].
  rewrite crun_app in H. destruct (crun true (cinit kss) pre) as [s0|] eqn:E0; [|discriminate].
  cbn [crun] in H. destruct (cstep true s0 (EBegin l r)) as [s1|] eqn:E1; [|discriminate].
  destruct (reach_A _ _ _ _ Hk E0) as [W0 _]. pose proof (WF_step _ _ _ _ W0 E1) as W1.
  apply (NR_run true post s1 s W1); auto.
  apply cstep_begin in E1 as (_&n&_&->). intros k. cbn. auto.
Qed.

(** no remove at all *)
Theorem chain_scan_phantom_free_no_removes : forall kss evs s,
  kss_ok kss = true -> crun true (cinit kss) evs = Some s -> sc_pc (c_scan s) = CDone ->
  (forall k, ~ In (ERem k) evs) ->
  (forall id v, In (id, v) (sc_nvset (c_scan s)) -> exists n, find_node id (c_nodes s) = Some n /\ cn_ver n = v) ->
  sc_res (c_scan s) = filter (in_interval (sc_l (c_scan s)) (sc_r (c_scan s))) (all_keys (c_nodes s)).
Proof.
  intros kss evs s Hk H Hpc Hnr HC. destruct (reach_A _ _ _ _ Hk H) as [W IA].
  apply phantom_free_core; auto; [|intros k; eapply chain_scan_no_phantom_insert; eauto].
  apply (NR_run true evs (cinit kss) s (WF_init _ Hk)); auto. intros k [].
Qed.

(** the exact form of T4 is false once removes are not recorded in the versions: scan everything, then remove
    20 -- every recorded pair is still current, the result still holds 20 *)
Definition refute_trace : list cev :=
  [EBegin 0 None; ERead; ENextVer; EValidate; ERead; ENextVer; EValidate; ERem 20].

Theorem chain_phantom_free_with_remove_refuted :
  exists evs s, crun true (cinit [[10]; [20; 30]]) evs = Some s /\ sc_pc (c_scan s) = CDone /\
    (forall id v, In (id, v) (sc_nvset (c_scan s)) -> exists n, find_node id (c_nodes s) = Some n /\ cn_ver n = v) /\
    sc_res (c_scan s) = [10; 20; 30] /\ all_keys (c_nodes s) = [10; 30] /\
    sc_res (c_scan s) <> filter (in_interval (sc_l (c_scan s)) (sc_r (c_scan s))) (all_keys (c_nodes s)).
Proof.
  exists refute_trace.
  destruct (crun true (cinit [[10]; [20; 30]]) refute_trace) as [s|] eqn:E; [|vm_compute in E; discriminate].
  exists s. split; [reflexivity|].
  assert (Some s = crun true (cinit [[10]; [20; 30]]) refute_trace) as H by (symmetry; exact E).
  vm_compute in H. injection H as ->. cbn [c_scan c_nodes sc_pc sc_nvset sc_res sc_l sc_r].
  split; [reflexivity|]. split.
  { intros id v [Hin|[Hin|[]]]; injection Hin as <- <-; eexists; (split; [vm_compute; reflexivity|reflexivity]). }
  split; [reflexivity|]. split; [vm_compute; reflexivity|]. vm_compute. discriminate.
Qed.

(** the hypotheses of the theorems above are satisfiable: in the run of [chain_nonvacuous] (which contains a
    remove, an unlink and a restart) every recorded version is still current at the end *)
Example chain_phantom_free_nonvacuous :
  exists evs s, crun true (cinit [[10]; [20; 30]]) evs = Some s /\ sc_pc (c_scan s) = CDone /\
    sc_nvset (c_scan s) <> [] /\
    forallb (fun p => match find_node (fst p) (c_nodes s) with
                      | Some n => cver_eqb (cn_ver n) (snd p) | None => false end)
            (sc_nvset (c_scan s)) = true /\
    sc_res (c_scan s) = filter (in_interval (sc_l (c_scan s)) (sc_r (c_scan s))) (all_keys (c_nodes s)).
Proof.
  exists (f8_trace ++ [ERead; ENextVer; EValidate]).
  destruct (crun true (cinit [[10]; [20; 30]]) (f8_trace ++ [ERead; ENextVer; EValidate])) as [s|] eqn:E;
    [|vm_compute in E; discriminate].
  exists s. split; [reflexivity|].
  assert (Some s = crun true (cinit [[10]; [20; 30]]) (f8_trace ++ [ERead; ENextVer; EValidate])) as H
    by (symmetry; exact E).
  vm_compute in H. injection H as ->. vm_compute. repeat split; try reflexivity. discriminate.
Qed.

(** ... and a run with an insert and a split but no remove after the invocation, to which the exact theorem
    applies (the remove before the invocation does not matter) *)
Example chain_phantom_free_no_removes_nonvacuous :
  exists pre l r post s, crun true (cinit [[10]; [20; 30]]) (pre ++ EBegin l r :: post) = Some s /\
    sc_pc (c_scan s) = CDone /\ (forall k, ~ In (ERem k) post) /\
    (forall id v, In (id, v) (sc_nvset (c_scan s)) -> exists n, find_node id (c_nodes s) = Some n /\ cn_ver n = v) /\
    sc_res (c_scan s) = [10; 25; 30].
Proof.
  exists [ERem 20], 0, None, [ERead; ENextVer; EValidate; EIns 25; ERead; ENextVer; EValidate; ERead; ENextVer; EValidate].
  set (evs := [ERem 20] ++ EBegin 0 None ::
              [ERead; ENextVer; EValidate; EIns 25; ERead; ENextVer; EValidate; ERead; ENextVer; EValidate]).
  destruct (crun true (cinit [[10]; [20; 30]]) evs) as [s|] eqn:E; [|vm_compute in E; discriminate].
  exists s. split; [reflexivity|].
  assert (Some s = crun true (cinit [[10]; [20; 30]]) evs) as H by (symmetry; exact E).
  vm_compute in H. injection H as ->. cbn [c_scan c_nodes sc_pc sc_nvset sc_res sc_l sc_r].
  split; [reflexivity|]. split.
  { intros k Hin. cbn in Hin. repeat (destruct Hin as [Hin|Hin]; [discriminate|]). exact Hin. }
  split; [|reflexivity].
  intros id v Hin. cbn [In] in Hin.
  repeat (destruct Hin as [Hin|Hin]; [injection Hin as <- <-; eexists; (split; [vm_compute; reflexivity|reflexivity])|]).
  destruct Hin.
Qed.

Print Assumptions chain_scan_ascending.
Print Assumptions chain_scan_sound.
Print Assumptions chain_scan_sound_any.
Print Assumptions chain_scan_no_lost_stable_key.
Print Assumptions chain_scan_no_lost_stable_key_any.
Print Assumptions chain_scan_no_phantom_insert.
Print Assumptions chain_scan_no_phantom_insert_any.
Print Assumptions chain_scan_result_split_any.
Print Assumptions chain_scan_result_superset.
Print Assumptions chain_scan_current_keys_sublist.
Print Assumptions chain_scan_phantom_free_no_removes.
Print Assumptions chain_scan_phantom_free_no_removes_since_begin.
Print Assumptions chain_phantom_free_with_remove_refuted.
Print Assumptions chain_stable_present.
Print Assumptions chain_present_ever.
Print Assumptions chain_original_not_ascending.
Print Assumptions chain_nonvacuous.
Print Assumptions chain_phantom_free_nonvacuous.
Print Assumptions chain_phantom_free_no_removes_nonvacuous.
