(** * LeafProofs: the leaf-level (border node) interface for the tree proofs.

    Entries of a leaf in rank order, well-formedness [WF_leaf], and the exact
    effect of lookup / rank / insert / split / delete on the entry list. *)
From Coq Require Import NArith PeanoNat Lia ZifyBool ZifyN Bool List Sorted.
From Yk Require Import ListAux Word64 Nibble PermDefs PermProofs VersionDefs KeyDefs KeyProofs TreeDefs.
Import ListNotations.

(** ** Interface definitions *)
Definition leaf_entries (l : leaf) : list slot_t := map snd (leaf_ranked l).
Definition leaf_keys (l : leaf) : list ktuple := map sl_key (leaf_entries l).
Definition sorted_keys (ks : list ktuple) : Prop :=
  StronglySorted (fun a b => canon_lt a b = true) ks.
Definition entry_ok (s : slot_t) : Prop :=
  kt_wf (sl_key s) = true /\
  (match sl_lv s with
   | LLink => kl (sl_key s) = 9%N
   | LValue _ => (kl (sl_key s) <= 8)%N
   | LEmpty => False
   end).
Definition WF_leaf (l : leaf) : Prop :=
  Valid (lf_perm l) /\ length (lf_slots l) = 15%nat /\
  Forall entry_ok (leaf_entries l) /\ sorted_keys (leaf_keys l).

(** ** 7a. [set_nth] algebra *)
Lemma set_nth_length {A} n (x : A) l : length (set_nth n x l) = length l.
Proof.
  revert n. induction l as [|a l IH]; intros [|n]; cbn [set_nth length]; auto.
Qed.

Lemma nth_set_nth {A} (d x : A) l i j :
  nth j (set_nth i x l) d =
    if (j =? i)%nat && (i <? length l)%nat then x else nth j l d.
Proof.
  revert i j. induction l as [|a l IH]; intros i j.
  - assert (set_nth i x (@nil A) = []) as -> by (destruct i; reflexivity).
    cbn [length]. destruct (Nat.ltb_spec i 0); [lia|]. rewrite andb_false_r. reflexivity.
  - destruct i as [|i], j as [|j]; cbn [set_nth nth length].
    + reflexivity.
    + reflexivity.
    + reflexivity.
    + rewrite IH.
      destruct (Nat.eqb_spec j i); destruct (Nat.eqb_spec (S j) (S i)); try lia;
        destruct (Nat.ltb_spec i (length l)); destruct (Nat.ltb_spec (S i) (S (length l)));
        try lia; reflexivity.
Qed.

Lemma nth_set_nth_eq {A} (d x : A) l i : (i < length l)%nat -> nth i (set_nth i x l) d = x.
Proof.
  intros H. rewrite nth_set_nth.
  destruct (Nat.eqb_spec i i); [|lia]. destruct (Nat.ltb_spec i (length l)); [|lia]. reflexivity.
Qed.

Lemma nth_set_nth_neq {A} (d x : A) l i j : j <> i -> nth j (set_nth i x l) d = nth j l d.
Proof.
  intros H. rewrite nth_set_nth. destruct (Nat.eqb_spec j i); [lia|]. reflexivity.
Qed.

Lemma set_nth_out {A} (x : A) l i : (length l <= i)%nat -> set_nth i x l = l.
Proof.
  revert i. induction l as [|a l IH]; intros i H; [destruct i; reflexivity|].
  destruct i as [|i]; cbn [length] in H; [lia|]. cbn [set_nth]. f_equal. apply IH. lia.
Qed.

(** ** list helpers: [insert_at] / [remove_at] under [map], [Forall], sortedness *)
Lemma map_insert_at {A B} (f : A -> B) r x l :
  map f (insert_at r x l) = insert_at r (f x) (map f l).
Proof. unfold insert_at. rewrite map_app, firstn_map, skipn_map. reflexivity. Qed.

Lemma map_remove_at {A B} (f : A -> B) r l :
  map f (remove_at r l) = remove_at r (map f l).
Proof. unfold remove_at. rewrite map_app, firstn_map, skipn_map. reflexivity. Qed.

Lemma split_at_nth {A} (d : A) l r :
  (r < length l)%nat -> l = firstn r l ++ nth r l d :: skipn (S r) l.
Proof.
  intros H. rewrite <- (skipn_S_nth d) by exact H. symmetry. apply firstn_skipn.
Qed.

Lemma Forall_insert_at {A} (P : A -> Prop) r x l :
  Forall P l -> P x -> Forall P (insert_at r x l).
Proof.
  intros Hl Hx. unfold insert_at. apply Forall_app. split.
  - apply Forall_forall. intros y Hy. rewrite Forall_forall in Hl. apply Hl.
    rewrite <- (firstn_skipn r l). apply in_or_app. left. exact Hy.
  - constructor; [exact Hx|].
    apply Forall_forall. intros y Hy. rewrite Forall_forall in Hl. apply Hl.
    rewrite <- (firstn_skipn r l). apply in_or_app. right. exact Hy.
Qed.

Lemma Forall_firstn {A} (P : A -> Prop) r l : Forall P l -> Forall P (firstn r l).
Proof.
  intros Hl. apply Forall_forall. intros y Hy. rewrite Forall_forall in Hl. apply Hl.
  rewrite <- (firstn_skipn r l). apply in_or_app. left. exact Hy.
Qed.

Lemma Forall_skipn {A} (P : A -> Prop) r l : Forall P l -> Forall P (skipn r l).
Proof.
  intros Hl. apply Forall_forall. intros y Hy. rewrite Forall_forall in Hl. apply Hl.
  rewrite <- (firstn_skipn r l). apply in_or_app. right. exact Hy.
Qed.

Lemma Forall_remove_at {A} (P : A -> Prop) r l : Forall P l -> Forall P (remove_at r l).
Proof.
  intros Hl. unfold remove_at. apply Forall_app. split;
    [apply Forall_firstn|apply Forall_skipn]; exact Hl.
Qed.

Lemma firstn_remove_at {A} r (l : list A) : firstn r (remove_at r l) = firstn r l.
Proof.
  unfold remove_at. rewrite firstn_app, firstn_firstn, Nat.min_id.
  rewrite firstn_length.
  replace (r - Nat.min r (length l))%nat with
    (if (r <=? length l)%nat then 0 else r - length l)%nat
    by (destruct (Nat.leb_spec r (length l)); lia).
  destruct (Nat.leb_spec r (length l)).
  - cbn [firstn]. apply app_nil_r.
  - rewrite (skipn_all2 (n := S r)) by lia. rewrite firstn_nil. apply app_nil_r.
Qed.

Lemma nth_map_seq {A} (f : nat -> A) a n i d :
  (i < n)%nat -> nth i (map f (seq a n)) d = f (a + i)%nat.
Proof.
  intros H. rewrite (nth_indep _ d (f 0%nat)) by (rewrite map_length, seq_length; exact H).
  rewrite map_nth, seq_nth by exact H. reflexivity.
Qed.

Lemma skipn_firstn_app {A} r n (l : list A) :
  (r <= n)%nat -> skipn r (firstn n l) ++ skipn n l = skipn r l.
Proof.
  revert n l. induction r as [|r IH]; intros n l H.
  - cbn [skipn]. apply firstn_skipn.
  - destruct n as [|n]; [lia|]. destruct l as [|a l]; [reflexivity|].
    cbn [firstn skipn]. apply IH. lia.
Qed.

Lemma insert_at_app_l {A} r (x : A) l n :
  (r <= n)%nat -> insert_at r x (firstn n l) ++ skipn n l = insert_at r x l.
Proof.
  intros H. unfold insert_at. rewrite <- app_assoc. cbn [app].
  rewrite firstn_firstn, Nat.min_l by exact H. f_equal. f_equal.
  apply skipn_firstn_app. exact H.
Qed.

Lemma insert_at_app_r {A} r (x : A) l n :
  (n <= r)%nat -> firstn n l ++ insert_at (r - n) x (skipn n l) = insert_at r x l.
Proof.
  revert r l. induction n as [|n IH]; intros r l H.
  - cbn [firstn skipn app]. rewrite Nat.sub_0_r. reflexivity.
  - destruct r as [|r]; [lia|]. destruct l as [|a l].
    + cbn [firstn skipn app]. unfold insert_at. rewrite !firstn_nil, !skipn_nil. reflexivity.
    + cbn [firstn skipn app Nat.sub]. rewrite IH by lia. reflexivity.
Qed.

(** ** sorted key lists *)
Lemma sorted_app_iff l1 l2 :
  sorted_keys (l1 ++ l2) <->
  sorted_keys l1 /\ sorted_keys l2 /\
  (forall a b, In a l1 -> In b l2 -> canon_lt a b = true).
Proof.
  unfold sorted_keys. induction l1 as [|x l1 IH]; cbn [app].
  - split.
    + intros H. split; [constructor|]. split; [exact H|]. intros a b [].
    + intros (_ & H & _). exact H.
  - split.
    + intros H. apply StronglySorted_inv in H. destruct H as [H1 H2].
      apply IH in H1. destruct H1 as (S1 & S2 & C).
      apply Forall_app in H2. destruct H2 as [F1 F2].
      split; [constructor; assumption|]. split; [exact S2|].
      intros a b [<-|Ha] Hb.
      * rewrite Forall_forall in F2. apply F2. exact Hb.
      * apply C; assumption.
    + intros (S1 & S2 & C). apply StronglySorted_inv in S1. destruct S1 as [S1 F1].
      constructor.
      * apply IH. split; [exact S1|]. split; [exact S2|].
        intros a b Ha Hb. apply C; [right; exact Ha|exact Hb].
      * apply Forall_app. split; [exact F1|].
        apply Forall_forall. intros b Hb. apply C; [left; reflexivity|exact Hb].
Qed.

Lemma sorted_cons_iff x l :
  sorted_keys (x :: l) <-> sorted_keys l /\ Forall (fun t => canon_lt x t = true) l.
Proof.
  unfold sorted_keys. split.
  - apply StronglySorted_inv.
  - intros [H1 H2]. constructor; assumption.
Qed.

Lemma sorted_firstn r l : sorted_keys l -> sorted_keys (firstn r l).
Proof. intros H. rewrite <- (firstn_skipn r l) in H. apply sorted_app_iff in H. apply H. Qed.

Lemma sorted_skipn r l : sorted_keys l -> sorted_keys (skipn r l).
Proof. intros H. rewrite <- (firstn_skipn r l) in H. apply sorted_app_iff in H. apply H. Qed.

Lemma sorted_drop_mid l1 x l2 : sorted_keys (l1 ++ x :: l2) -> sorted_keys (l1 ++ l2).
Proof.
  intros H. apply sorted_app_iff in H. destruct H as (S1 & S2 & C).
  apply sorted_cons_iff in S2. apply sorted_app_iff. split; [exact S1|].
  split; [apply S2|]. intros a b Ha Hb. apply C; [exact Ha|right; exact Hb].
Qed.

Lemma sorted_remove_at r l : sorted_keys l -> sorted_keys (remove_at r l).
Proof.
  intros H. destruct (Nat.lt_ge_cases r (length l)) as [Hr|Hr].
  - rewrite (split_at_nth {| ks := 0; kl := 0 |} l r Hr) in H.
    apply sorted_drop_mid in H. exact H.
  - unfold remove_at. rewrite firstn_all2, skipn_all2 by lia. rewrite app_nil_r. exact H.
Qed.

Lemma sorted_NoDup l : sorted_keys l -> NoDup l.
Proof.
  induction l as [|x l IH]; intros H; [constructor|].
  apply sorted_cons_iff in H. destruct H as [H1 H2]. constructor; [|apply IH; exact H1].
  intros Hin. rewrite Forall_forall in H2. specialize (H2 x Hin).
  rewrite canon_lt_irrefl in H2. discriminate.
Qed.

Lemma sorted_insert r k l :
  sorted_keys l ->
  Forall (fun t => canon_lt t k = true) (firstn r l) ->
  Forall (fun t => canon_lt k t = true) (skipn r l) ->
  sorted_keys (insert_at r k l).
Proof.
  intros Hs H1 H2. unfold insert_at. apply sorted_app_iff.
  split; [apply sorted_firstn; exact Hs|]. split.
  - apply sorted_cons_iff. split; [apply sorted_skipn; exact Hs|exact H2].
  - intros a b Ha [<-|Hb].
    + rewrite Forall_forall in H1. apply H1. exact Ha.
    + rewrite <- (firstn_skipn r l) in Hs. apply sorted_app_iff in Hs. apply Hs; assumption.
Qed.

(** a separator at the head of the right part splits a sorted list *)
Lemma sorted_sep A B sep :
  sorted_keys (A ++ B) -> hd_error B = Some sep ->
  Forall (fun t => canon_lt t sep = true) A /\ Forall (fun t => canon_lt t sep = false) B.
Proof.
  intros H Hh. destruct B as [|b B]; [discriminate|]. cbn [hd_error] in Hh.
  injection Hh as ->. apply sorted_app_iff in H. destruct H as (_ & S2 & C). split.
  - apply Forall_forall. intros a Ha. apply C; [exact Ha|left; reflexivity].
  - apply sorted_cons_iff in S2. destruct S2 as [_ F]. constructor.
    + apply canon_lt_irrefl.
    + apply Forall_forall. intros t Ht. rewrite Forall_forall in F.
      apply canon_lt_asym. apply F. exact Ht.
Qed.

(** ** entries as a function of (permutation list, slot array) *)
Definition ents (p : list N) (sl : list slot_t) : list slot_t :=
  map (fun i => nth (N.to_nat i) sl empty_slot) p.

Lemma leaf_entries_ents l : leaf_entries l = ents (perm_list (lf_perm l)) (lf_slots l).
Proof. unfold leaf_entries, leaf_ranked, ents. rewrite map_map. reflexivity. Qed.

Lemma leaf_ranked_fst l : map fst (leaf_ranked l) = perm_list (lf_perm l).
Proof. unfold leaf_ranked. rewrite map_map. cbn [fst]. apply map_id. Qed.

Lemma leaf_ranked_length l : length (leaf_ranked l) = N.to_nat (leaf_cnk l).
Proof. unfold leaf_ranked, leaf_cnk. rewrite map_length. apply perm_list_length. Qed.

Lemma leaf_entries_length l : length (leaf_entries l) = N.to_nat (leaf_cnk l).
Proof. unfold leaf_entries. rewrite map_length. apply leaf_ranked_length. Qed.

Lemma leaf_keys_length l : length (leaf_keys l) = N.to_nat (leaf_cnk l).
Proof. unfold leaf_keys. rewrite map_length. apply leaf_entries_length. Qed.

Lemma leaf_ranked_nth_error l r slot s :
  nth_error (leaf_ranked l) r = Some (slot, s) <->
  nth_error (perm_list (lf_perm l)) r = Some slot /\ s = slot_at l slot.
Proof.
  unfold leaf_ranked. rewrite nth_error_map.
  destruct (nth_error (perm_list (lf_perm l)) r) as [i|]; cbn [option_map].
  - split.
    + intros H. injection H as -> <-. split; reflexivity.
    + intros [H ->]. injection H as ->. reflexivity.
  - split; [discriminate|intros [H _]; discriminate].
Qed.

Lemma leaf_ranked_entries l r slot s :
  nth_error (leaf_ranked l) r = Some (slot, s) -> nth_error (leaf_entries l) r = Some s.
Proof. intros H. unfold leaf_entries. rewrite nth_error_map, H. reflexivity. Qed.

Lemma ents_length p sl : length (ents p sl) = length p.
Proof. apply map_length. Qed.

Lemma ents_nth p sl r d :
  (r < length p)%nat -> nth r (ents p sl) d = nth (N.to_nat (nth r p 0%N)) sl empty_slot.
Proof.
  intros H. unfold ents.
  set (f := fun i => nth (N.to_nat i) sl empty_slot).
  rewrite (nth_indep _ d (f 0%N)) by (rewrite map_length; exact H).
  rewrite map_nth. reflexivity.
Qed.

(** writing a slot that the permutation does not mention changes no entry *)
Lemma ents_set_nth_notin p sl j x :
  ~ In j p -> ents p (set_nth (N.to_nat j) x sl) = ents p sl.
Proof.
  intros H. unfold ents. apply map_ext_in. intros i Hi.
  apply nth_set_nth_neq. intros E. apply H.
  assert (i = j) as -> by lia. exact Hi.
Qed.

Lemma leaf_ranked_set_nth_notin l j x v :
  ~ In j (perm_list (lf_perm l)) ->
  leaf_ranked (leaf_with l v (lf_perm l) (set_nth (N.to_nat j) x (lf_slots l))) = leaf_ranked l.
Proof.
  intros H. unfold leaf_ranked, leaf_with. cbn [lf_perm]. apply map_ext_in. intros i Hi.
  f_equal. unfold slot_at. cbn [lf_slots]. apply nth_set_nth_neq. intros E. apply H.
  assert (i = j) as -> by lia. exact Hi.
Qed.

Lemma ents_insert p sl r j x :
  ~ In j p -> (N.to_nat j < length sl)%nat ->
  ents (insert_at r j p) (set_nth (N.to_nat j) x sl) = insert_at r x (ents p sl).
Proof.
  intros Hn Hj. unfold ents at 1. rewrite map_insert_at.
  rewrite nth_set_nth_eq by exact Hj.
  fold (ents p (set_nth (N.to_nat j) x sl)). rewrite ents_set_nth_notin by exact Hn. reflexivity.
Qed.

Lemma nth_notin_remove_at {A} (d : A) l r :
  NoDup l -> (r < length l)%nat -> ~ In (nth r l d) (remove_at r l).
Proof.
  intros Hnd Hr. rewrite (split_at_nth d l r Hr) in Hnd.
  apply NoDup_remove_2 in Hnd. exact Hnd.
Qed.

Lemma ents_remove p sl r :
  ents (remove_at r p) sl = remove_at r (ents p sl).
Proof. unfold ents. apply map_remove_at. Qed.

Lemma ents_delete p sl r x :
  NoDup p -> (r < length p)%nat ->
  ents (remove_at r p) (set_nth (N.to_nat (nth r p 0%N)) x sl) = remove_at r (ents p sl).
Proof.
  intros Hnd Hr. rewrite ents_set_nth_notin by (apply nth_notin_remove_at; assumption).
  apply ents_remove.
Qed.

(** ** [WF_leaf] depends on the permutation and the slots only *)
Lemma leaf_entries_cong l l' :
  lf_perm l' = lf_perm l -> lf_slots l' = lf_slots l -> leaf_entries l' = leaf_entries l.
Proof. intros Hp Hs. rewrite !leaf_entries_ents, Hp, Hs. reflexivity. Qed.

Lemma WF_leaf_cong l l' :
  lf_perm l' = lf_perm l -> lf_slots l' = lf_slots l -> WF_leaf l -> WF_leaf l'.
Proof.
  intros Hp Hs (H1 & H2 & H3 & H4). unfold WF_leaf, leaf_keys.
  rewrite (leaf_entries_cong l l' Hp Hs), Hp, Hs.
  split; [exact H1|]. split; [exact H2|]. split; [exact H3|exact H4].
Qed.

Lemma leaf_with_id l v p s : lf_id (leaf_with l v p s) = lf_id l.
Proof. reflexivity. Qed.
Lemma leaf_with_ver l v p s : lf_ver (leaf_with l v p s) = v.
Proof. reflexivity. Qed.
Lemma leaf_with_perm l v p s : lf_perm (leaf_with l v p s) = p.
Proof. reflexivity. Qed.
Lemma leaf_with_slots l v p s : lf_slots (leaf_with l v p s) = s.
Proof. reflexivity. Qed.

Lemma leaf_entries_with_ver l v : leaf_entries (leaf_with l v (lf_perm l) (lf_slots l)) = leaf_entries l.
Proof. apply leaf_entries_cong; reflexivity. Qed.

Lemma WF_leaf_with_ver l v : WF_leaf l -> WF_leaf (leaf_with l v (lf_perm l) (lf_slots l)).
Proof. apply WF_leaf_cong; reflexivity. Qed.

Lemma leaf_insert_at_id l slot k lv r : lf_id (leaf_insert_at l slot k lv r) = lf_id l.
Proof. reflexivity. Qed.
Lemma leaf_insert_at_ver l slot k lv r : lf_ver (leaf_insert_at l slot k lv r) = lf_ver l.
Proof. reflexivity. Qed.
Lemma leaf_delete_id l r slot : lf_id (leaf_delete l r slot) = lf_id l.
Proof. reflexivity. Qed.
Lemma leaf_delete_ver l r slot : lf_ver (leaf_delete l r slot) = lf_ver l.
Proof. reflexivity. Qed.

Lemma WF_leaf_cnk l : WF_leaf l -> (leaf_cnk l <= 15)%N.
Proof. intros (H & _). apply H. Qed.

Lemma WF_leaf_keys_wf l : WF_leaf l -> Forall (fun t => kt_wf t = true) (leaf_keys l).
Proof.
  intros (_ & _ & H & _). unfold leaf_keys. apply Forall_forall. intros t Ht.
  apply in_map_iff in Ht. destruct Ht as (s & <- & Hs).
  rewrite Forall_forall in H. apply (H s Hs).
Qed.

Lemma WF_leaf_keys_NoDup l : WF_leaf l -> NoDup (leaf_keys l).
Proof. intros (_ & _ & _ & H). apply sorted_NoDup. exact H. Qed.

(** ** 1. Lookup *)
Definition keys_of (es : list (N * slot_t)) : list ktuple := map (fun e => sl_key (snd e)) es.

Lemma leaf_keys_keys_of l : leaf_keys l = keys_of (leaf_ranked l).
Proof. unfold leaf_keys, leaf_entries, keys_of. apply map_map. Qed.

Lemma lookup_probe_cases k t :
  kt_wf k = true -> kt_wf t = true ->
  match lookup_probe k t with
  | Hit => k = t
  | Stop => canon_lt k t = true
  | Next => canon_lt t k = true
  end.
Proof.
  intros Hk Ht. destruct (lookup_probe_site k t Hk Ht) as (_ & H1 & H2 & H3).
  destruct (lookup_probe k t).
  - apply ktuple_eq. apply H1. reflexivity.
  - apply H2. reflexivity.
  - apply H3. reflexivity.
Qed.

Lemma lookup_ranked_some es k : forall n rank slot s,
  kt_wf k = true -> Forall (fun t => kt_wf t = true) (keys_of es) ->
  lookup_ranked es k n = Some (rank, slot, s) ->
  (n <= rank)%nat /\ nth_error es (rank - n) = Some (slot, s) /\ sl_key s = k.
Proof.
  induction es as [|[i s0] es IH]; intros n rank slot s Hk Hw H; [discriminate|].
  cbn [lookup_ranked] in H. cbn [keys_of map snd] in Hw.
  apply Forall_cons_iff in Hw. destruct Hw as [Hw0 Hw].
  pose proof (lookup_probe_cases k (sl_key s0) Hk Hw0) as C.
  destruct (lookup_probe k (sl_key s0)).
  - injection H as <- <- <-. rewrite Nat.sub_diag. cbn [nth_error].
    split; [lia|]. split; [reflexivity|]. symmetry. exact C.
  - discriminate.
  - apply IH in H; [|exact Hk|exact Hw]. destruct H as (H1 & H2 & H3).
    split; [lia|]. split; [|exact H3].
    replace (rank - n)%nat with (S (rank - S n)) by lia. exact H2.
Qed.

Lemma lookup_ranked_none es k : forall n,
  kt_wf k = true -> Forall (fun t => kt_wf t = true) (keys_of es) -> sorted_keys (keys_of es) ->
  (lookup_ranked es k n = None <-> ~ In k (keys_of es)).
Proof.
  induction es as [|[i s0] es IH]; intros n Hk Hw Hs.
  - cbn. split; [intros _ []|reflexivity].
  - cbn [lookup_ranked]. cbn [keys_of map snd] in *. fold (keys_of es) in *.
    apply Forall_cons_iff in Hw. destruct Hw as [Hw0 Hw].
    apply sorted_cons_iff in Hs. destruct Hs as [Hs Hf].
    pose proof (lookup_probe_cases k (sl_key s0) Hk Hw0) as C.
    destruct (lookup_probe k (sl_key s0)).
    + split; [discriminate|]. intros H. exfalso. apply H. left. symmetry. exact C.
    + split; [|reflexivity]. intros _ [E|Hin].
      * rewrite E, canon_lt_irrefl in C. discriminate.
      * rewrite Forall_forall in Hf. specialize (Hf k Hin).
        apply canon_lt_asym in Hf. congruence.
    + rewrite (IH (S n) Hk Hw Hs). split.
      * intros H [E|Hin]; [|exact (H Hin)]. rewrite E, canon_lt_irrefl in C. discriminate.
      * intros H Hin. apply H. right. exact Hin.
Qed.

Theorem leaf_lookup_some l k rank slot s :
  WF_leaf l -> kt_wf k = true ->
  leaf_lookup l k = Some (rank, slot, s) ->
  nth_error (leaf_ranked l) rank = Some (slot, s) /\ sl_key s = k.
Proof.
  intros Hwf Hk H. unfold leaf_lookup in H.
  apply lookup_ranked_some in H; [|exact Hk|].
  - rewrite Nat.sub_0_r in H. destruct H as (_ & H1 & H2). split; assumption.
  - rewrite <- leaf_keys_keys_of. apply WF_leaf_keys_wf. exact Hwf.
Qed.

Theorem leaf_lookup_none l k :
  WF_leaf l -> kt_wf k = true ->
  (leaf_lookup l k = None <-> ~ In k (leaf_keys l)).
Proof.
  intros Hwf Hk. unfold leaf_lookup. rewrite leaf_keys_keys_of.
  apply lookup_ranked_none; [exact Hk| |]; rewrite <- leaf_keys_keys_of.
  - apply WF_leaf_keys_wf. exact Hwf.
  - apply Hwf.
Qed.

(** the slot/entry found is the one stored at the key's (unique) rank *)
Theorem leaf_lookup_found l k r :
  WF_leaf l -> kt_wf k = true -> nth_error (leaf_keys l) r = Some k ->
  exists slot s, leaf_lookup l k = Some (r, slot, s) /\
                 nth_error (leaf_ranked l) r = Some (slot, s) /\ sl_key s = k.
Proof.
  intros Hwf Hk Hr.
  destruct (leaf_lookup l k) as [[[r' slot] s]|] eqn:E.
  - destruct (leaf_lookup_some l k r' slot s Hwf Hk E) as [H1 H2].
    assert (nth_error (leaf_keys l) r' = Some k) as Hr'.
    { unfold leaf_keys. rewrite nth_error_map, (leaf_ranked_entries l r' slot s H1).
      cbn [option_map]. rewrite H2. reflexivity. }
    assert (r' = r) as ->.
    { pose proof (WF_leaf_keys_NoDup l Hwf) as Hnd. rewrite NoDup_nth_error in Hnd.
      apply Hnd; [|congruence]. apply nth_error_Some. congruence. }
    exists slot, s. repeat split; assumption.
  - exfalso. apply (leaf_lookup_none l k Hwf Hk) in E. apply E.
    apply nth_error_In with r. exact Hr.
Qed.

Theorem leaf_lookup_in l k :
  WF_leaf l -> kt_wf k = true -> In k (leaf_keys l) ->
  exists r slot s, leaf_lookup l k = Some (r, slot, s) /\
                   nth_error (leaf_ranked l) r = Some (slot, s) /\ sl_key s = k /\
                   nth_error (leaf_keys l) r = Some k /\
                   (forall r', nth_error (leaf_keys l) r' = Some k -> r' = r).
Proof.
  intros Hwf Hk Hin. apply In_nth_error in Hin. destruct Hin as [r Hr].
  destruct (leaf_lookup_found l k r Hwf Hk Hr) as (slot & s & H1 & H2 & H3).
  exists r, slot, s. repeat split; try assumption.
  intros r' Hr'. pose proof (WF_leaf_keys_NoDup l Hwf) as Hnd. rewrite NoDup_nth_error in Hnd.
  apply Hnd; [|congruence]. apply nth_error_Some. congruence.
Qed.

(** ** 2. Rank *)
Lemma rank_ranked_spec es k : forall n,
  sorted_keys (keys_of es) -> ~ In k (keys_of es) ->
  (n <= rank_ranked es k n)%nat /\
  (rank_ranked es k n - n <= length es)%nat /\
  Forall (fun t => canon_lt t k = true) (firstn (rank_ranked es k n - n) (keys_of es)) /\
  Forall (fun t => canon_lt k t = true) (skipn (rank_ranked es k n - n) (keys_of es)).
Proof.
  induction es as [|[i s0] es IH]; intros n Hs Hn.
  - cbn [rank_ranked keys_of map length]. rewrite Nat.sub_diag. cbn [firstn skipn].
    repeat split; try lia; constructor.
  - cbn [rank_ranked]. cbn [keys_of map snd] in *. fold (keys_of es) in *.
    apply sorted_cons_iff in Hs. destruct Hs as [Hs Hf].
    rewrite rank_probe_site.
    destruct (canon_lt k (sl_key s0)) eqn:E.
    + rewrite Nat.sub_diag. cbn [firstn skipn length].
      split; [lia|]. split; [lia|]. split; [constructor|].
      constructor; [exact E|].
      apply Forall_forall. intros t Ht. rewrite Forall_forall in Hf.
      apply canon_lt_trans with (sl_key s0); [exact E|apply Hf; exact Ht].
    + assert (~ In k (keys_of es)) as Hn' by (intros X; apply Hn; right; exact X).
      destruct (IH (S n) Hs Hn') as (H1 & H2 & H3 & H4).
      replace (rank_ranked es k (S n) - n)%nat with (S (rank_ranked es k (S n) - S n)) by lia.
      cbn [firstn skipn length].
      split; [lia|]. split; [lia|]. split; [|exact H4].
      constructor; [|exact H3].
      destruct (canon_lt (sl_key s0) k) eqn:E2; [reflexivity|].
      exfalso. apply Hn. left. apply canon_lt_trich; assumption.
Qed.

Theorem leaf_rank_spec l k :
  WF_leaf l -> ~ In k (leaf_keys l) ->
  (leaf_rank l k <= length (leaf_keys l))%nat /\
  Forall (fun t => canon_lt t k = true) (firstn (leaf_rank l k) (leaf_keys l)) /\
  Forall (fun t => canon_lt k t = true) (skipn (leaf_rank l k) (leaf_keys l)).
Proof.
  intros Hwf Hn. unfold leaf_rank. rewrite leaf_keys_keys_of in *.
  destruct (rank_ranked_spec (leaf_ranked l) k 0) as (_ & H2 & H3 & H4).
  - rewrite <- leaf_keys_keys_of. apply Hwf.
  - exact Hn.
  - rewrite Nat.sub_0_r in *. unfold keys_of at 1. rewrite map_length.
    split; [exact H2|]. split; assumption.
Qed.

Theorem leaf_rank_sorted l k :
  WF_leaf l -> ~ In k (leaf_keys l) ->
  sorted_keys (insert_at (leaf_rank l k) k (leaf_keys l)).
Proof.
  intros Hwf Hn. destruct (leaf_rank_spec l k Hwf Hn) as (_ & H2 & H3).
  apply sorted_insert; [apply Hwf|exact H2|exact H3].
Qed.

(** where a sorted insertion position is, relative to a stored key *)
Lemma rank_below l k j t :
  WF_leaf l -> ~ In k (leaf_keys l) -> nth_error (leaf_keys l) j = Some t ->
  ((leaf_rank l k <= j)%nat <-> canon_lt k t = true) /\
  ((j < leaf_rank l k)%nat <-> canon_lt t k = true).
Proof.
  intros Hwf Hn Hj. destruct (leaf_rank_spec l k Hwf Hn) as (_ & H2 & H3).
  rewrite Forall_forall in H2, H3.
  assert ((j < leaf_rank l k)%nat -> canon_lt t k = true) as A.
  { intros Hlt. apply H2. apply nth_error_In with j.
    rewrite <- Hj. clear -Hlt. revert j Hlt. generalize (leaf_keys l) as ks.
    induction (leaf_rank l k) as [|r IH]; intros ks j Hlt; [lia|].
    destruct ks as [|a ks]; [destruct j; reflexivity|].
    destruct j as [|j]; [reflexivity|]. cbn [firstn nth_error]. apply IH. lia. }
  assert ((leaf_rank l k <= j)%nat -> canon_lt k t = true) as B.
  { intros Hle. apply H3. apply nth_error_In with (j - leaf_rank l k)%nat.
    rewrite <- Hj. clear -Hle. revert j Hle. generalize (leaf_keys l) as ks.
    induction (leaf_rank l k) as [|r IH]; intros ks j Hle.
    - rewrite Nat.sub_0_r. reflexivity.
    - destruct j as [|j]; [lia|]. destruct ks as [|a ks].
      + cbn [skipn]. destruct (S j - S r)%nat; reflexivity.
      + cbn [skipn nth_error Nat.sub]. apply IH. lia. }
  split; split; try assumption.
  - intros H. destruct (Nat.le_gt_cases (leaf_rank l k) j) as [|G]; [assumption|].
    apply A in G. apply canon_lt_asym in G. congruence.
  - intros H. destruct (Nat.le_gt_cases (leaf_rank l k) j) as [G|]; [|assumption].
    apply B in G. apply canon_lt_asym in G. congruence.
Qed.

(** ** 3. Plain insert *)
Lemma leaf_keys_insert l' l r x :
  leaf_entries l' = insert_at r x (leaf_entries l) ->
  leaf_keys l' = insert_at r (sl_key x) (leaf_keys l).
Proof. intros H. unfold leaf_keys. rewrite H. apply map_insert_at. Qed.

(** general form: any position that keeps the keys sorted *)
Lemma leaf_insert_at_gen l k lv r :
  WF_leaf l -> (leaf_cnk l < 15)%N -> (r <= length (leaf_entries l))%nat ->
  entry_ok {| sl_key := k; sl_lv := lv |} ->
  sorted_keys (insert_at r k (leaf_keys l)) ->
  leaf_entries (leaf_insert_at l (get_empty_slot (lf_perm l)) k lv r) =
    insert_at r {| sl_key := k; sl_lv := lv |} (leaf_entries l) /\
  WF_leaf (leaf_insert_at l (get_empty_slot (lf_perm l)) k lv r).
Proof.
  intros Hwf Hc Hr Hok Hsorted.
  destruct Hwf as (Hv & Hlen & Hall & Hs).
  unfold leaf_cnk in Hc. rewrite leaf_entries_length in Hr. unfold leaf_cnk in Hr.
  destruct (get_empty_slot_free (lf_perm l) Hc) as (Hnin & Hlt & _).
  set (slot := get_empty_slot (lf_perm l)) in *.
  destruct (c19_insert (lf_perm l) (N.of_nat r) slot Hv Hc ltac:(lia) Hlt Hnin) as (Hpl & Hcnk & Hv').
  rewrite Nat2N.id in Hpl.
  assert (leaf_entries (leaf_insert_at l slot k lv r) =
          insert_at r {| sl_key := k; sl_lv := lv |} (leaf_entries l)) as He.
  { rewrite !leaf_entries_ents. unfold leaf_insert_at.
    rewrite leaf_with_perm, leaf_with_slots, Hpl.
    apply ents_insert; [exact Hnin|lia]. }
  split; [exact He|].
  split; [exact Hv'|]. split.
  { unfold leaf_insert_at. rewrite leaf_with_slots, set_nth_length. exact Hlen. }
  split.
  - rewrite He. apply Forall_insert_at; assumption.
  - rewrite (leaf_keys_insert _ _ _ _ He). exact Hsorted.
Qed.

Theorem leaf_insert_at_spec l k lv :
  WF_leaf l -> (leaf_cnk l < 15)%N -> kt_wf k = true -> ~ In k (leaf_keys l) ->
  entry_ok {| sl_key := k; sl_lv := lv |} ->
  leaf_entries (leaf_insert_at l (get_empty_slot (lf_perm l)) k lv (leaf_rank l k)) =
    insert_at (leaf_rank l k) {| sl_key := k; sl_lv := lv |} (leaf_entries l) /\
  WF_leaf (leaf_insert_at l (get_empty_slot (lf_perm l)) k lv (leaf_rank l k)).
Proof.
  intros Hwf Hc _ Hn Hok.
  apply leaf_insert_at_gen; try assumption.
  - destruct (leaf_rank_spec l k Hwf Hn) as (H & _).
    unfold leaf_keys in H. rewrite map_length in H. exact H.
  - apply leaf_rank_sorted; assumption.
Qed.

Theorem leaf_put_nosplit l k lv nid :
  WF_leaf l -> leaf_cnk l <> 15%N -> kt_wf k = true -> ~ In k (leaf_keys l) ->
  entry_ok {| sl_key := k; sl_lv := lv |} ->
  exists l' info,
    leaf_put l k lv nid = (IOne (BLeaf l'), info) /\
    leaf_entries l' = insert_at (leaf_rank l k) {| sl_key := k; sl_lv := lv |} (leaf_entries l) /\
    WF_leaf l' /\ lf_id l' = lf_id l /\
    pi_modified info = lf_id l /\ pi_created info = None.
Proof.
  intros Hwf Hc Hk Hn Hok.
  assert (leaf_cnk l < 15)%N as Hc' by (pose proof (WF_leaf_cnk l Hwf); lia).
  unfold leaf_put. cbv zeta.
  destruct (N.eqb_spec (leaf_cnk l) 15) as [E|_]; [contradiction|].
  eexists. eexists. split; [reflexivity|].
  set (v1 := if (leaf_cnk l =? 0)%N then _ else _). clearbody v1.
  set (l0 := leaf_with l v1 (lf_perm l) (lf_slots l)).
  destruct (leaf_insert_at_spec l k lv Hwf Hc' Hk Hn Hok) as [He Hw].
  set (l1 := leaf_insert_at l0 (get_empty_slot (lf_perm l)) k lv (leaf_rank l k)).
  assert (lf_perm l1 = lf_perm (leaf_insert_at l (get_empty_slot (lf_perm l)) k lv (leaf_rank l k)))
    as Hp by reflexivity.
  assert (lf_slots l1 = lf_slots (leaf_insert_at l (get_empty_slot (lf_perm l)) k lv (leaf_rank l k)))
    as Hsl by reflexivity.
  split.
  { rewrite leaf_entries_with_ver. rewrite (leaf_entries_cong _ _ Hp Hsl). exact He. }
  split.
  { apply WF_leaf_with_ver. apply (WF_leaf_cong _ _ Hp Hsl). exact Hw. }
  repeat split.
Qed.

(** ** 5. Delete *)
Theorem leaf_delete_spec l rank slot s :
  WF_leaf l -> nth_error (leaf_ranked l) rank = Some (slot, s) ->
  leaf_entries (leaf_delete l rank slot) = remove_at rank (leaf_entries l) /\
  WF_leaf (leaf_delete l rank slot) /\
  lf_id (leaf_delete l rank slot) = lf_id l.
Proof.
  intros (Hv & Hlen & Hall & Hs) Hr.
  apply leaf_ranked_nth_error in Hr. destruct Hr as [Hr _].
  assert (rank < length (perm_list (lf_perm l)))%nat as Hlt
    by (apply nth_error_Some; congruence).
  assert (nth rank (perm_list (lf_perm l)) 0%N = slot) as Hslot
    by (apply nth_error_nth; exact Hr).
  pose proof Hlt as Hlt'. rewrite perm_list_length in Hlt'.
  destruct (c19_delete (lf_perm l) (N.of_nat rank) Hv ltac:(lia)) as (Hpl & Hcnk & Hv').
  rewrite Nat2N.id in Hpl.
  destruct Hv as (Hw64 & Hc15 & Hnd & Hf15).
  unfold leaf_delete.
  set (slots' := match sl_lv (slot_at l slot) with
                 | LValue v => if v_inline v then lf_slots l else _
                 | _ => lf_slots l end).
  assert (exists x, slots' = lf_slots l \/ slots' = set_nth (N.to_nat slot) x (lf_slots l)) as Hsl.
  { unfold slots'. destruct (sl_lv (slot_at l slot)) as [|v|].
    - exists empty_slot. left. reflexivity.
    - destruct (v_inline v); [exists empty_slot; left; reflexivity|].
      eexists. right. reflexivity.
    - exists empty_slot. left. reflexivity. }
  clearbody slots'. destruct Hsl as [x Hsl].
  assert (length slots' = 15%nat) as Hlen'.
  { destruct Hsl as [->| ->]; [exact Hlen|]. rewrite set_nth_length. exact Hlen. }
  assert (leaf_entries (leaf_with l (lf_ver l) (delete_rank (lf_perm l) (N.of_nat rank)) slots') =
          remove_at rank (leaf_entries l)) as He.
  { rewrite !leaf_entries_ents, leaf_with_perm, leaf_with_slots, Hpl.
    destruct Hsl as [->| ->]; [apply ents_remove|].
    rewrite <- Hslot. apply ents_delete; assumption. }
  split; [exact He|]. split; [|reflexivity].
  split; [exact Hv'|]. split; [exact Hlen'|]. split.
  - rewrite He. apply Forall_remove_at. exact Hall.
  - unfold leaf_keys. rewrite He, map_remove_at. apply sorted_remove_at. exact Hs.
Qed.

Corollary leaf_delete_keys l rank slot s :
  WF_leaf l -> nth_error (leaf_ranked l) rank = Some (slot, s) ->
  leaf_keys (leaf_delete l rank slot) = remove_at rank (leaf_keys l).
Proof.
  intros Hwf Hr. destruct (leaf_delete_spec l rank slot s Hwf Hr) as (He & _).
  unfold leaf_keys. rewrite He. apply map_remove_at.
Qed.

Lemma leaf_delete_cnk l rank slot s :
  WF_leaf l -> nth_error (leaf_ranked l) rank = Some (slot, s) ->
  leaf_cnk (leaf_delete l rank slot) = (leaf_cnk l - 1)%N.
Proof.
  intros (Hv & _) Hr. apply leaf_ranked_nth_error in Hr. destruct Hr as [Hr _].
  assert (rank < length (perm_list (lf_perm l)))%nat as Hlt
    by (apply nth_error_Some; congruence).
  rewrite perm_list_length in Hlt.
  destruct (c19_delete (lf_perm l) (N.of_nat rank) Hv ltac:(lia)) as (_ & Hcnk & _).
  exact Hcnk.
Qed.

(** ** 6. Fresh leaves *)
Lemma fresh_slots_length : length fresh_slots = 15%nat.
Proof. reflexivity. Qed.

Lemma empty_leaf_WF id v :
  WF_leaf {| lf_id := id; lf_ver := v; lf_perm := 0; lf_slots := fresh_slots |} /\
  leaf_entries {| lf_id := id; lf_ver := v; lf_perm := 0; lf_slots := fresh_slots |} = [].
Proof.
  split; [|reflexivity].
  split; [exact init_valid|]. split; [reflexivity|]. split; constructor.
Qed.

Theorem single_leaf_spec id k lv :
  entry_ok {| sl_key := k; sl_lv := lv |} ->
  WF_leaf (single_leaf id k lv) /\
  leaf_entries (single_leaf id k lv) = [{| sl_key := k; sl_lv := lv |}] /\
  lf_id (single_leaf id k lv) = id.
Proof.
  intros Hok. unfold single_leaf.
  set (l0 := {| lf_id := id; lf_ver := v_new_layer_border; lf_perm := 0; lf_slots := fresh_slots |}).
  destruct (empty_leaf_WF id v_new_layer_border) as [Hwf He]. fold l0 in Hwf, He.
  assert (get_empty_slot (lf_perm l0) = 0%N) as Hslot by reflexivity.
  destruct (leaf_insert_at_gen l0 k lv 0 Hwf) as [H1 H2].
  - unfold leaf_cnk. cbn. lia.
  - lia.
  - exact Hok.
  - unfold leaf_keys. rewrite He. unfold insert_at. cbn [map firstn skipn app].
    constructor; constructor.
  - rewrite Hslot in H1, H2. split; [exact H2|]. split; [|reflexivity].
    rewrite H1, He. reflexivity.
Qed.

Theorem empty_tree_leaf_spec id :
  exists l, t_layers (empty_tree id) = [([], BLeaf l)] /\ WF_leaf l /\ leaf_entries l = [] /\ lf_id l = id.
Proof.
  eexists. split; [reflexivity|].
  destruct (empty_leaf_WF id (v_fresh_border true)) as [H1 H2].
  split; [exact H1|]. split; [exact H2|reflexivity].
Qed.

(** ** 4. Split *)

(** the moves of border_split: after [n] moves starting at new slot [i], the old
    leaf keeps its first 8 entries and the new slot array holds the entries of
    rank 8.. in slots [i .. i+n-1] *)
Lemma split_moves_spec n : forall i old ns old' ns',
  Valid (lf_perm old) -> length (lf_slots old) = 15%nat ->
  get_cnk (lf_perm old) = N.of_nat (8 + n) -> (i + n <= length ns)%nat ->
  split_moves n i old ns = (old', ns') ->
  lf_id old' = lf_id old /\ lf_ver old' = lf_ver old /\
  Valid (lf_perm old') /\ get_cnk (lf_perm old') = 8%N /\ length (lf_slots old') = 15%nat /\
  leaf_entries old' = firstn 8 (leaf_entries old) /\
  length ns' = length ns /\
  (forall j, nth j ns' empty_slot =
             if (i <=? j)%nat && (j <? i + n)%nat
             then nth (8 + (j - i)) (leaf_entries old) empty_slot
             else nth j ns empty_slot).
Proof.
  induction n as [|m IH]; intros i old ns old' ns' Hv Hlen Hc Hi H.
  - cbn [split_moves] in H. injection H as <- <-.
    split; [reflexivity|]. split; [reflexivity|]. split; [exact Hv|]. split; [exact Hc|].
    split; [exact Hlen|]. split; [|split; [reflexivity|]].
    + symmetry. apply firstn_all2. rewrite leaf_entries_length. unfold leaf_cnk. lia.
    + intros j. destruct (Nat.leb_spec i j); destruct (Nat.ltb_spec j (i + 0)); try lia; reflexivity.
  - cbn [split_moves] in H.
    set (p := perm_list (lf_perm old)) in *.
    assert (length p = 8 + S m)%nat as Hpl by (unfold p; rewrite perm_list_length; lia).
    assert (get_index_of_rank (lf_perm old) 8 = nth 8 p 0%N) as Hsrc.
    { rewrite (c19_index _ _ 0%N) by lia. reflexivity. }
    rewrite Hsrc in H.
    destruct (c19_delete (lf_perm old) 8 Hv ltac:(lia)) as (Hpl' & Hcnk' & Hv').
    change (N.to_nat 8) with 8%nat in Hpl'. fold p in Hpl'.
    set (old1 := leaf_with old (lf_ver old) (delete_rank (lf_perm old) 8)
                   (set_nth (N.to_nat (nth 8 p 0%N)) empty_slot (lf_slots old))) in *.
    set (s := slot_at old (nth 8 p 0%N)) in *.
    destruct Hv as (Hw64 & Hc15 & Hnd & Hf15). fold p in Hnd.
    assert (leaf_entries old1 = remove_at 8 (leaf_entries old)) as He1.
    { rewrite !leaf_entries_ents. unfold old1. rewrite leaf_with_perm, leaf_with_slots, Hpl'.
      fold p. apply ents_delete; [exact Hnd|lia]. }
    assert (s = nth 8 (leaf_entries old) empty_slot) as Hs.
    { rewrite leaf_entries_ents. fold p. rewrite ents_nth by lia. reflexivity. }
    assert (length (leaf_entries old) = 8 + S m)%nat as HlenE
      by (rewrite leaf_entries_ents, ents_length; exact Hpl).
    apply IH in H.
    + destruct H as (H1 & H2 & H3 & H4 & H5 & H6 & H7 & H8).
      split; [exact H1|]. split; [exact H2|]. split; [exact H3|]. split; [exact H4|].
      split; [exact H5|]. split.
      { rewrite H6, He1. apply firstn_remove_at. }
      split; [rewrite H7; apply set_nth_length|].
      intros j. rewrite H8, He1, nth_set_nth.
      rewrite nth_remove_at by lia.
      destruct (Nat.leb_spec (S i) j) as [A|A]; destruct (Nat.ltb_spec j (S i + m)) as [B|B];
        cbn [andb].
      * destruct (Nat.ltb_spec (8 + (j - S i)) 8); [lia|].
        destruct (Nat.leb_spec i j); [|lia]. destruct (Nat.ltb_spec j (i + S m)); [|lia].
        cbn [andb]. f_equal. lia.
      * destruct (Nat.eqb_spec j i); [lia|]. cbn [andb].
        destruct (Nat.leb_spec i j); destruct (Nat.ltb_spec j (i + S m)); cbn [andb]; try lia;
          reflexivity.
      * destruct (Nat.eqb_spec j i) as [->|Hne].
        -- destruct (Nat.ltb_spec i (length ns)); [|lia]. cbn [andb].
           destruct (Nat.leb_spec i i); [|lia]. destruct (Nat.ltb_spec i (i + S m)); [|lia].
           cbn [andb]. rewrite Hs. f_equal. lia.
        -- cbn [andb]. destruct (Nat.leb_spec i j); [lia|]. reflexivity.
      * destruct (Nat.eqb_spec j i); [lia|]. cbn [andb].
        destruct (Nat.leb_spec i j); [lia|]. reflexivity.
    + exact Hv'.
    + unfold old1. rewrite leaf_with_slots, set_nth_length. exact Hlen.
    + unfold old1. rewrite leaf_with_perm, Hcnk', Hc. lia.
    + rewrite set_nth_length. lia.
Qed.

Lemma split_dest7_list : perm_list (split_dest 7) = map N.of_nat (seq 0 7).
Proof. apply (c19_split 7); lia. Qed.

Lemma new_leaf_entries ns E :
  length E = 15%nat ->
  (forall j, (j < 7)%nat -> nth j ns empty_slot = nth (8 + j) E empty_slot) ->
  ents (perm_list (split_dest 7)) ns = skipn 8 E.
Proof.
  intros HE H. rewrite split_dest7_list. unfold ents. rewrite map_map.
  apply (list_ext_nth empty_slot).
  - rewrite map_length, seq_length, skipn_length. lia.
  - intros i Hi. rewrite map_length, seq_length in Hi.
    rewrite nth_map_seq by exact Hi. rewrite Nat2N.id. cbn [Nat.add].
    rewrite nth_skipn. apply H. exact Hi.
Qed.

(** what a leaf split establishes *)
Definition split_post (l : leaf) (k : ktuple) (lv : lvw) (nid : N)
           (L : leaf) (sep : ktuple) (R : leaf) (info : put_info) : Prop :=
  leaf_entries L ++ leaf_entries R =
    insert_at (leaf_rank l k) {| sl_key := k; sl_lv := lv |} (leaf_entries l) /\
  WF_leaf L /\ WF_leaf R /\ lf_id L = lf_id l /\ lf_id R = nid /\
  (8 <= length (leaf_entries L))%nat /\ (7 <= length (leaf_entries R))%nat /\
  (length (leaf_entries L) + length (leaf_entries R) = 16)%nat /\
  hd_error (leaf_keys R) = Some sep /\
  Forall (fun t => canon_lt t sep = true) (leaf_keys L) /\
  Forall (fun t => canon_lt t sep = false) (leaf_keys R) /\
  pi_modified info = lf_id l /\ pi_created info = Some nid.

Lemma split_finish l k lv nid L0 R0 vL vR sep :
  WF_leaf l -> leaf_cnk l = 15%N -> ~ In k (leaf_keys l) ->
  leaf_entries L0 ++ leaf_entries R0 =
    insert_at (leaf_rank l k) {| sl_key := k; sl_lv := lv |} (leaf_entries l) ->
  WF_leaf L0 -> WF_leaf R0 -> lf_id L0 = lf_id l -> lf_id R0 = nid ->
  (8 <= length (leaf_entries L0))%nat -> (7 <= length (leaf_entries R0))%nat ->
  hd_error (leaf_keys R0) = Some sep ->
  split_post l k lv nid
    (leaf_with L0 vL (lf_perm L0) (lf_slots L0)) sep
    (leaf_with R0 vR (lf_perm R0) (lf_slots R0))
    {| pi_modified := lf_id l; pi_created := Some nid |}.
Proof.
  intros Hwf Hc Hn He HwL HwR HiL HiR H8 H7 Hhd.
  unfold split_post. unfold leaf_keys. rewrite !leaf_entries_with_ver.
  fold (leaf_keys L0). fold (leaf_keys R0).
  assert (length (leaf_entries l) = 15%nat) as HE by (rewrite leaf_entries_length, Hc; reflexivity).
  destruct (leaf_rank_spec l k Hwf Hn) as (Hr & _).
  unfold leaf_keys in Hr. rewrite map_length in Hr.
  assert (sorted_keys (leaf_keys L0 ++ leaf_keys R0)) as Hsorted.
  { unfold leaf_keys. rewrite <- map_app, He, map_insert_at. cbn [sl_key].
    apply leaf_rank_sorted; assumption. }
  destruct (sorted_sep _ _ _ Hsorted Hhd) as [F1 F2].
  split; [exact He|]. split; [apply WF_leaf_with_ver; exact HwL|].
  split; [apply WF_leaf_with_ver; exact HwR|]. split; [exact HiL|]. split; [exact HiR|].
  split; [exact H8|]. split; [exact H7|]. split.
  { rewrite <- app_length, He, insert_at_length by lia. lia. }
  split; [exact Hhd|]. split; [exact F1|]. split; [exact F2|]. split; reflexivity.
Qed.

Theorem leaf_put_split l k lv nid :
  WF_leaf l -> leaf_cnk l = 15%N -> kt_wf k = true -> ~ In k (leaf_keys l) ->
  entry_ok {| sl_key := k; sl_lv := lv |} ->
  exists L sep R info,
    leaf_put l k lv nid = (ISplit (BLeaf L) sep (BLeaf R), info) /\
    split_post l k lv nid L sep R info.
Proof.
  intros Hwf Hc Hk Hn Hok.
  pose proof Hwf as (Hv & Hlen & Hall & Hs).
  assert (length (leaf_entries l) = 15%nat) as HE by (rewrite leaf_entries_length, Hc; reflexivity).
  assert (length (leaf_keys l) = 15%nat) as HK by (unfold leaf_keys; rewrite map_length; exact HE).
  unfold leaf_put. cbv zeta.
  destruct (N.eqb_spec (leaf_cnk l) 15) as [_|X]; [|contradiction].
  set (v2 := set_splitting _ true). clearbody v2.
  destruct (split_moves 7 0 (leaf_with l v2 (lf_perm l) (lf_slots l)) fresh_slots)
    as [old ns] eqn:Hsm.
  apply split_moves_spec in Hsm;
    [|exact Hv|exact Hlen|rewrite leaf_with_perm; exact Hc|rewrite fresh_slots_length; lia].
  destruct Hsm as (Hido & _ & Hvo & Hco & Hleno & Heo & Hlns & Hns).
  rewrite leaf_with_id in Hido. rewrite leaf_entries_with_ver in Heo, Hns.
  rewrite fresh_slots_length in Hlns.
  set (new := {| lf_id := nid; lf_ver := v2; lf_perm := split_dest 7; lf_slots := ns |}).
  set (E := leaf_entries l) in *.
  set (r := leaf_rank l k).
  set (x := {| sl_key := k; sl_lv := lv |}) in *.
  (* the new leaf holds the entries of rank 8.. *)
  assert (forall j, (j < 7)%nat -> nth j ns empty_slot = nth (8 + j) E empty_slot) as Hns'.
  { intros j Hj. rewrite Hns. destruct (Nat.leb_spec 0 j); [|lia].
    destruct (Nat.ltb_spec j (0 + 7)); [|lia]. cbn [andb]. f_equal. lia. }
  assert (leaf_entries new = skipn 8 E) as Hen.
  { rewrite leaf_entries_ents. apply new_leaf_entries; [exact HE|exact Hns']. }
  assert (leaf_keys old = firstn 8 (leaf_keys l)) as Hko.
  { unfold leaf_keys. rewrite Heo. symmetry. apply firstn_map. }
  assert (leaf_keys new = skipn 8 (leaf_keys l)) as Hkn.
  { unfold leaf_keys. rewrite Hen. symmetry. apply skipn_map. }
  assert (WF_leaf old) as Hwo.
  { split; [exact Hvo|]. split; [exact Hleno|]. split.
    - rewrite Heo. apply Forall_firstn. exact Hall.
    - rewrite Hko. apply sorted_firstn. exact Hs. }
  assert (WF_leaf new) as Hwn.
  { split; [apply (c19_split 7); lia|]. split; [exact Hlns|]. split.
    - rewrite Hen. apply Forall_skipn. exact Hall.
    - rewrite Hkn. apply sorted_skipn. exact Hs. }
  (* the first key of the new leaf *)
  set (first := sl_key (slot_at new 0)).
  assert (slot_at new 0 = nth 8 E empty_slot) as Hfirst_slot.
  { unfold slot_at. change (N.to_nat 0) with 0%nat. cbn [lf_slots new].
    rewrite Hns' by lia. reflexivity. }
  assert (nth_error (leaf_keys l) 8 = Some first) as Hfirst.
  { unfold leaf_keys. rewrite nth_error_map. fold E.
    rewrite (nth_error_nth' E empty_slot) by lia. cbn [option_map].
    unfold first. rewrite Hfirst_slot. reflexivity. }
  assert (kt_wf first = true) as Hwfirst.
  { pose proof (WF_leaf_keys_wf l Hwf) as W. rewrite Forall_forall in W.
    apply W. apply nth_error_In with 8%nat. exact Hfirst. }
  destruct (rank_below l k 8 first Hwf Hn Hfirst) as [Rb1 Rb2]. fold r in Rb1, Rb2.
  assert (bsplit_left k first (N.of_nat r) 8 = canon_lt k first) as Hbs.
  { apply bsplit_left_site; [exact Hk|exact Hwfirst| |].
    - destruct (N.eq_dec (ks k) (ks first)) as [E1|E1]; [|left; exact E1].
      right. intros E2. apply Hn. apply nth_error_In with 8%nat.
      rewrite Hfirst. f_equal. symmetry. apply ktuple_eq. split; assumption.
    - intros Hlt. apply Rb1. apply N.ltb_lt in Hlt. lia. }
  rewrite Hbs.
  destruct (leaf_rank_spec l k Hwf Hn) as (Hr15 & _). fold r in Hr15. rewrite HK in Hr15.
  pose proof (leaf_rank_sorted l k Hwf Hn) as Hsorted. fold r in Hsorted.
  assert (hd_error (skipn 8 (leaf_keys l)) = Some first) as Hhd8.
  { rewrite (skipn_S_nth {| ks := 0; kl := 0 |}) by lia. cbn [hd_error]. f_equal.
    apply nth_error_nth. exact Hfirst. }
  destruct (canon_lt k first) eqn:Hside; cbv beta iota.
  - (* left *)
    assert (r <= 8)%nat as Hr8 by (apply Rb1; reflexivity).
    destruct (leaf_insert_at_gen old k lv r Hwo) as [Hi1 Hi2].
    + unfold leaf_cnk. rewrite Hco. lia.
    + rewrite Heo, firstn_length. lia.
    + exact Hok.
    + rewrite Hko. rewrite <- (insert_at_app_l r k (leaf_keys l) 8 Hr8) in Hsorted.
      apply sorted_app_iff in Hsorted. apply Hsorted.
    + eexists. eexists. eexists. eexists. split; [reflexivity|].
      apply split_finish;
        [exact Hwf|exact Hc|exact Hn| |exact Hi2|exact Hwn|exact Hido|reflexivity| | |].
      * rewrite Hi1, Heo, Hen. apply insert_at_app_l. exact Hr8.
      * rewrite Hi1, insert_at_length; rewrite Heo, firstn_length; lia.
      * rewrite Hen, skipn_length. lia.
      * rewrite Hkn. exact Hhd8.
  - (* right *)
    assert (8 < r)%nat as Hr8.
    { destruct (Nat.le_gt_cases r 8) as [G|G]; [|exact G]. apply Rb1 in G. congruence. }
    destruct (leaf_insert_at_gen new k lv (r - 8) Hwn) as [Hi1 Hi2].
    + unfold leaf_cnk. cbn [lf_perm new]. vm_compute. reflexivity.
    + rewrite Hen, skipn_length. lia.
    + exact Hok.
    + rewrite Hkn. rewrite <- (insert_at_app_r r k (leaf_keys l) 8) in Hsorted by lia.
      apply sorted_app_iff in Hsorted. apply Hsorted.
    + eexists. eexists. eexists. eexists. split; [reflexivity|].
      set (new2 := leaf_insert_at new (get_empty_slot (lf_perm new)) k lv (r - 8)) in *.
      assert (hd_error (leaf_keys new2) = Some first) as Hhd2.
      { unfold leaf_keys. rewrite Hi1, map_insert_at. fold (leaf_keys new). rewrite Hkn.
        unfold insert_at.
        destruct (r - 8)%nat as [|q] eqn:Eq; [lia|].
        rewrite (skipn_S_nth {| ks := 0; kl := 0 |}) in Hhd8 |- * by lia.
        cbn [firstn app hd_error] in *. exact Hhd8. }
      assert (sl_key (slot_at new2 0) = first) as Hsep.
      { unfold first. f_equal. unfold new2, leaf_insert_at, slot_at.
        rewrite !leaf_with_slots. change (N.to_nat 0) with 0%nat.
        apply nth_set_nth_neq.
        assert (get_cnk (lf_perm new) < 15)%N as Hc7 by (cbn [lf_perm new]; vm_compute; reflexivity).
        destruct (get_empty_slot_free (lf_perm new) Hc7) as (Hnin & _).
        intros E0. apply Hnin.
        assert (get_empty_slot (lf_perm new) = 0%N) as -> by lia.
        cbn [lf_perm new]. rewrite split_dest7_list. left. reflexivity. }
      rewrite Hsep.
      apply split_finish;
        [exact Hwf|exact Hc|exact Hn| |exact Hwo|exact Hi2|exact Hido|reflexivity| | |exact Hhd2].
      * rewrite Hi1, Heo, Hen. apply insert_at_app_r. lia.
      * rewrite Heo, firstn_length. lia.
      * rewrite Hi1, insert_at_length; rewrite Hen, skipn_length; lia.
Qed.

(** ** 7b. frame facts: [slot_at] after a slot write, in-place overwrite of an entry *)
Lemma slot_at_set_nth l v p i x j :
  slot_at (leaf_with l v p (set_nth (N.to_nat i) x (lf_slots l))) j =
    if (j =? i)%N && (N.to_nat i <? length (lf_slots l))%nat then x else slot_at l j.
Proof.
  unfold slot_at. rewrite leaf_with_slots, nth_set_nth.
  destruct (N.eqb_spec j i) as [->|Hne].
  - rewrite Nat.eqb_refl. reflexivity.
  - destruct (Nat.eqb_spec (N.to_nat j) (N.to_nat i)); [lia|]. reflexivity.
Qed.

Lemma slot_at_with_ver l v j : slot_at (leaf_with l v (lf_perm l) (lf_slots l)) j = slot_at l j.
Proof. reflexivity. Qed.

Lemma leaf_ranked_with_ver l v : leaf_ranked (leaf_with l v (lf_perm l) (lf_slots l)) = leaf_ranked l.
Proof. reflexivity. Qed.

Lemma leaf_lookup_with_ver l v k : leaf_lookup (leaf_with l v (lf_perm l) (lf_slots l)) k = leaf_lookup l k.
Proof. reflexivity. Qed.

Lemma leaf_rank_with_ver l v k : leaf_rank (leaf_with l v (lf_perm l) (lf_slots l)) k = leaf_rank l k.
Proof. reflexivity. Qed.

Lemma map_set_nth {A B} (f : A -> B) n x l : map f (set_nth n x l) = set_nth n (f x) (map f l).
Proof.
  revert n. induction l as [|a l IH]; intros [|n]; cbn [set_nth map]; try reflexivity.
  rewrite IH. reflexivity.
Qed.

Lemma set_nth_same {A} n (x : A) l : nth_error l n = Some x -> set_nth n x l = l.
Proof.
  revert n. induction l as [|a l IH]; intros [|n] H; cbn [set_nth nth_error] in *; try discriminate.
  - injection H as ->. reflexivity.
  - rewrite IH by exact H. reflexivity.
Qed.

Lemma Forall_set_nth {A} (P : A -> Prop) n x l : Forall P l -> P x -> Forall P (set_nth n x l).
Proof.
  intros Hl Hx. revert n. induction Hl as [|a l Ha Hl IH]; intros [|n]; cbn [set_nth];
    try constructor; auto.
Qed.

Lemma ents_overwrite p sl r x :
  NoDup p -> (r < length p)%nat -> (N.to_nat (nth r p 0%N) < length sl)%nat ->
  ents p (set_nth (N.to_nat (nth r p 0%N)) x sl) = set_nth r x (ents p sl).
Proof.
  intros Hnd Hr Hs. apply (list_ext_nth empty_slot).
  - rewrite set_nth_length, !ents_length. reflexivity.
  - intros i Hi. rewrite ents_length in Hi.
    rewrite ents_nth by exact Hi. rewrite !nth_set_nth, ents_length.
    destruct (Nat.ltb_spec (N.to_nat (nth r p 0%N)) (length sl)); [|lia].
    destruct (Nat.ltb_spec r (length p)); [|lia].
    rewrite !andb_true_r.
    destruct (Nat.eqb_spec i r) as [->|Hne].
    + rewrite Nat.eqb_refl. reflexivity.
    + destruct (Nat.eqb_spec (N.to_nat (nth i p 0%N)) (N.to_nat (nth r p 0%N))) as [E|_].
      * exfalso. apply Hne. rewrite (NoDup_nth p 0%N) in Hnd. apply Hnd; [exact Hi|exact Hr|lia].
      * rewrite ents_nth by exact Hi. reflexivity.
Qed.

(** overwriting the value word of a stored entry (put on an existing key) *)
Theorem leaf_overwrite_spec l v rank slot s x :
  WF_leaf l -> nth_error (leaf_ranked l) rank = Some (slot, s) ->
  sl_key x = sl_key s -> entry_ok x ->
  leaf_entries (leaf_with l v (lf_perm l) (set_nth (N.to_nat slot) x (lf_slots l))) =
    set_nth rank x (leaf_entries l) /\
  leaf_keys (leaf_with l v (lf_perm l) (set_nth (N.to_nat slot) x (lf_slots l))) = leaf_keys l /\
  WF_leaf (leaf_with l v (lf_perm l) (set_nth (N.to_nat slot) x (lf_slots l))).
Proof.
  intros (Hv & Hlen & Hall & Hs) Hr Hkey Hok.
  pose proof (leaf_ranked_entries l rank slot s Hr) as Hre.
  apply leaf_ranked_nth_error in Hr. destruct Hr as [Hr _].
  assert (rank < length (perm_list (lf_perm l)))%nat as Hlt
    by (apply nth_error_Some; congruence).
  assert (nth rank (perm_list (lf_perm l)) 0%N = slot) as Hslot
    by (apply nth_error_nth; exact Hr).
  pose proof Hv as (_ & _ & Hnd & Hf15).
  assert (slot < 15)%N as Hs15.
  { rewrite Forall_forall in Hf15. apply Hf15. apply nth_error_In with rank. exact Hr. }
  set (l' := leaf_with l v (lf_perm l) (set_nth (N.to_nat slot) x (lf_slots l))).
  assert (leaf_entries l' = set_nth rank x (leaf_entries l)) as He.
  { rewrite !leaf_entries_ents. unfold l'. rewrite leaf_with_perm, leaf_with_slots, <- Hslot.
    apply ents_overwrite; [exact Hnd|exact Hlt|]. rewrite Hslot. lia. }
  assert (leaf_keys l' = leaf_keys l) as Hk.
  { unfold leaf_keys. rewrite He, map_set_nth. apply set_nth_same.
    rewrite nth_error_map, Hre. cbn [option_map]. rewrite Hkey. reflexivity. }
  split; [exact He|]. split; [exact Hk|].
  split; [exact Hv|]. split.
  { unfold l'. rewrite leaf_with_slots, set_nth_length. exact Hlen. }
  split.
  - rewrite He. apply Forall_set_nth; assumption.
  - rewrite Hk. exact Hs.
Qed.

(** key-level corollary of a split *)
Corollary split_post_keys l k lv nid L sep R info :
  split_post l k lv nid L sep R info ->
  leaf_keys L ++ leaf_keys R = insert_at (leaf_rank l k) k (leaf_keys l).
Proof.
  intros (He & _). unfold leaf_keys. rewrite <- map_app, He, map_insert_at. reflexivity.
Qed.

(** ** sanity: the hypotheses are satisfiable on a full leaf, and the split
    theorem's conclusion is what the executable model computes *)
Module LeafExample.
  Local Open Scope N_scope.
  Definition kk (i : N) : ktuple := {| ks := 1000 * i; kl := 8 |}.
  Definition vv (i : N) : lvw := LValue {| v_id := i; v_bytes := []; v_align := 8; v_inline := false |}.
  Definition put1 (l : leaf) (i : N) : leaf :=
    match fst (leaf_put l (kk i) (vv i) 99) with IOne (BLeaf l') => l' | _ => l end.
  Definition l0 : leaf := single_leaf 1 (kk 8) (vv 8).
  Definition l15 : leaf :=
    fold_left put1 [3; 12; 1; 15; 7; 10; 2; 14; 5; 9; 4; 13; 6; 11] l0.

  Example l15_full : leaf_cnk l15 = 15 /\ map ks (leaf_keys l15) = map (fun i => 1000 * N.of_nat i) (seq 1 15).
  Proof. vm_compute. split; reflexivity. Qed.

  Example l15_WF : WF_leaf l15.
  Proof.
    split; [apply perm_validb_sound; vm_compute; reflexivity|].
    split; [vm_compute; reflexivity|]. split.
    - let e := eval vm_compute in (leaf_entries l15) in change (leaf_entries l15) with e.
      repeat (apply Forall_cons; [split; [vm_compute; reflexivity|cbn [sl_lv sl_key kl]; lia]|]).
      apply Forall_nil.
    - let e := eval vm_compute in (leaf_keys l15) in change (leaf_keys l15) with e.
      repeat constructor.
  Qed.

  Example l15_split_applies :
    exists L sep R info,
      leaf_put l15 {| ks := 4500; kl := 9 |} LLink 77 = (ISplit (BLeaf L) sep (BLeaf R), info) /\
      split_post l15 {| ks := 4500; kl := 9 |} LLink 77 L sep R info.
  Proof.
    apply leaf_put_split.
    - exact l15_WF.
    - vm_compute. reflexivity.
    - vm_compute. reflexivity.
    - let e := eval vm_compute in (leaf_keys l15) in change (leaf_keys l15) with e.
      cbn [In]. intros H. repeat (destruct H as [H|H]; [discriminate H|]). exact H.
    - split; [vm_compute; reflexivity|reflexivity].
  Qed.

  (* the model's actual output on that input: 5 entries go left of the new key *)
  Example l15_split_computed :
    match fst (leaf_put l15 {| ks := 4500; kl := 9 |} LLink 77) with
    | ISplit (BLeaf L) sep (BLeaf R) =>
      (map ks (leaf_keys L), ks sep, map ks (leaf_keys R), lf_id R)
    | _ => ([], 0, [], 0)
    end = ([1000; 2000; 3000; 4000; 4500; 5000; 6000; 7000; 8000], 9000,
           [9000; 10000; 11000; 12000; 13000; 14000; 15000], 77).
  Proof. vm_compute. reflexivity. Qed.
End LeafExample.

(** ** axiom audit *)
Print Assumptions leaf_lookup_some.
Print Assumptions leaf_lookup_none.
Print Assumptions leaf_lookup_found.
Print Assumptions leaf_lookup_in.
Print Assumptions leaf_rank_spec.
Print Assumptions leaf_rank_sorted.
Print Assumptions leaf_insert_at_spec.
Print Assumptions leaf_put_nosplit.
Print Assumptions leaf_put_split.
Print Assumptions leaf_delete_spec.
Print Assumptions leaf_overwrite_spec.
Print Assumptions single_leaf_spec.
Print Assumptions empty_tree_leaf_spec.
