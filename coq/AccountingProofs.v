(** * AccountingProofs: allocation accounting at store level (property C11).

    "Everything allocated is released; retired objects are released exactly once."

    [store_allocs tr] = every allocation id reachable from a storage: the node ids
    of all layers and the ids of all out-of-line values.

    A. list facts, [store_allocs], the layer map ([layer_set]/[layer_del]) as a multiset.
    B. one layer: insert / overwrite / delete as multiset identities.
    C. [put_accounting], [remove_accounting].
    D. operation histories ([history_accounting]).
    E. the system ([exec]): drop_storage / destroy release whole trees at once. *)
From Coq Require Import ZArith NArith PeanoNat Lia ZifyBool ZifyN Bool List Sorted Permutation.
From Yk Require Import ListAux Word64 PermDefs VersionDefs KeyDefs KeyProofs TreeDefs ScanDefs
     SysDefs SpecDefs LeafProofs LayerProofs StoreProofs SysProofs.
Import ListNotations.
Local Open Scope N_scope.

(** ** A. definitions *)

(** the allocation id of a value: inline values are words, not objects *)
Definition vid (v : value) : list N := if v_inline v then [] else [v_id v].

(** the value object hanging off a slot (exactly the expression used by [put_walk] /
    [remove_walk] for the ids handed to the gc) *)
Definition slot_vids (s : slot_t) : list N :=
  match sl_lv s with
  | LValue v => if v_inline v then [] else [v_id v]
  | _ => []
  end.

Definition val_ids (es : list slot_t) : list N := flat_map slot_vids es.

(** one layer: its nodes ([bt_ids]) and the values of its entries ([bt_elems]: the
    entries in the permutation, i.e. stale slot contents are not reachable) *)
Definition layer_allocs (root : bt) : list N := bt_ids root ++ val_ids (bt_elems root).

Definition layers_allocs (ls : layers_t) : list N := flat_map (fun pr => layer_allocs (snd pr)) ls.

(** every allocation id reachable from the store (a null root pointer reaches nothing) *)
Definition store_allocs (tr : tree) : list N :=
  if t_null tr then [] else layers_allocs (t_layers tr).

(** all ids retired by a remove *)
Definition ro_retired (ro : rem_out) : list N := ro_retired_values ro ++ ro_retired_nodes ro.

(** the allocation part of the store invariant ([WF_store] says nothing about value ids) *)
Definition alloc_ok (ctr : N) (tr : tree) : Prop :=
  NoDup (store_allocs tr) /\ forall i, In i (store_allocs tr) -> i < ctr.

(** the value passed to [put] is a new object *)
Definition value_new (ctr : N) (tr : tree) (v : value) : Prop :=
  v_inline v = false -> v_id v < ctr /\ ~ In (v_id v) (store_allocs tr).

(** [a; a+1; ...; a+n-1] *)
Fixpoint nseq (a : N) (n : nat) : list N :=
  match n with O => [] | S m => a :: nseq (a + 1) m end.

Lemma nseq_in : forall n a i, In i (nseq a n) <-> a <= i < a + N.of_nat n.
Proof.
  induction n as [|n IH]; intros a i; cbn [nseq In].
  - split; [intros []|lia].
  - rewrite IH. lia.
Qed.

Lemma nseq_NoDup : forall n a, NoDup (nseq a n).
Proof.
  induction n as [|n IH]; intros a; cbn [nseq]; constructor; [|apply IH].
  rewrite nseq_in. lia.
Qed.

Lemma nseq_app : forall n m a, nseq a (n + m) = nseq a n ++ nseq (a + N.of_nat n) m.
Proof.
  induction n as [|n IH]; intros m a.
  - cbn [nseq app Nat.add]. f_equal. lia.
  - cbn [nseq app Nat.add]. f_equal. rewrite IH. f_equal. f_equal. lia.
Qed.

(** the ids [a .. b-1] *)
Definition nrange (a b : N) : list N := nseq a (N.to_nat (b - a)).

Lemma nrange_in a b i : In i (nrange a b) <-> a <= i < b.
Proof. unfold nrange. rewrite nseq_in. lia. Qed.

Lemma nrange_NoDup a b : NoDup (nrange a b).
Proof. apply nseq_NoDup. Qed.

Lemma nrange_app a b c : a <= b -> b <= c -> nrange a c = nrange a b ++ nrange b c.
Proof.
  intros H1 H2. unfold nrange.
  replace (N.to_nat (c - a)) with (N.to_nat (b - a) + N.to_nat (c - b))%nat by lia.
  rewrite nseq_app. f_equal. f_equal. lia.
Qed.

(** *** permutation helpers *)
Lemma perm_swap3 {A} (a b c : list A) : Permutation (a ++ b ++ c) (b ++ a ++ c).
Proof. apply Permutation_app_swap_app. Qed.

Lemma val_ids_app a b : val_ids (a ++ b) = val_ids a ++ val_ids b.
Proof. unfold val_ids. apply flat_map_app. Qed.

Lemma val_ids_mid A s B : Permutation (val_ids (A ++ s :: B)) (slot_vids s ++ val_ids (A ++ B)).
Proof.
  rewrite !val_ids_app. change (val_ids (s :: B)) with (slot_vids s ++ val_ids B).
  apply perm_swap3.
Qed.

Lemma val_ids_perm a b : Permutation a b -> Permutation (val_ids a) (val_ids b).
Proof. intros H. unfold val_ids. apply Permutation_flat_map. exact H. Qed.

(** *** the layer map as a multiset *)
Lemma layers_allocs_set ls p r' :
  Permutation (layers_allocs (layer_set ls p r')) (layer_allocs r' ++ layers_allocs (layer_del ls p)).
Proof.
  induction ls as [|[q u] ls IH]; cbn [layer_set layer_del].
  - unfold layers_allocs. cbn [flat_map snd]. apply Permutation_refl.
  - destruct (prefix_eqb q p).
    + unfold layers_allocs. cbn [flat_map snd]. apply Permutation_refl.
    + unfold layers_allocs in *. cbn [flat_map snd].
      eapply Permutation_trans; [apply Permutation_app_head; exact IH|]. apply perm_swap3.
Qed.

Lemma layers_allocs_get ls p root : layer_get ls p = Some root ->
  Permutation (layers_allocs ls) (layer_allocs root ++ layers_allocs (layer_del ls p)).
Proof.
  induction ls as [|[q u] ls IH]; cbn [layer_get layer_del]; [discriminate|].
  destruct (prefix_eqb q p).
  - intros H. injection H as <-. unfold layers_allocs. cbn [flat_map snd]. apply Permutation_refl.
  - intros H. unfold layers_allocs in *. cbn [flat_map snd].
    eapply Permutation_trans; [apply Permutation_app_head; exact (IH H)|]. apply perm_swap3.
Qed.

Lemma layer_del_absent ls p : layer_get ls p = None -> layer_del ls p = ls.
Proof.
  induction ls as [|[q u] ls IH]; cbn [layer_get layer_del]; [reflexivity|].
  destruct (prefix_eqb q p); [discriminate|]. intros H. rewrite (IH H). reflexivity.
Qed.

(** replacing the root of an existing layer *)
Lemma layers_allocs_replace ls p root r' X Y :
  layer_get ls p = Some root ->
  Permutation (layer_allocs r' ++ X) (Y ++ layer_allocs root) ->
  Permutation (layers_allocs (layer_set ls p r') ++ X) (Y ++ layers_allocs ls).
Proof.
  intros Eg H. set (D := layers_allocs (layer_del ls p)).
  apply Permutation_trans with ((layer_allocs r' ++ D) ++ X).
  { apply Permutation_app_tail. apply layers_allocs_set. }
  apply Permutation_trans with (Y ++ layer_allocs root ++ D).
  2:{ apply Permutation_app_head. apply Permutation_sym. apply layers_allocs_get. exact Eg. }
  rewrite (app_assoc Y). apply Permutation_trans with ((layer_allocs r' ++ X) ++ D).
  - rewrite <- !app_assoc. apply Permutation_app_head. apply Permutation_app_comm.
  - apply Permutation_app_tail. exact H.
Qed.

(** ** B. one layer *)

(** insert into a layer: the new nodes are fresh ids taken from the counter *)
Lemma layer_put_acc root k lv ctr root' info ctr' :
  WF_layer root -> kt_wf k = true -> ~ In k (bt_keys root) ->
  entry_ok {| sl_key := k; sl_lv := lv |} ->
  (forall i, In i (bt_ids root) -> i < ctr) ->
  layer_put root k lv ctr = Some (root', info, ctr') ->
  exists nodes,
    Permutation (layer_allocs root') (nodes ++ slot_vids {| sl_key := k; sl_lv := lv |} ++ layer_allocs root) /\
    NoDup nodes /\ (forall i, In i nodes -> ctr <= i < ctr') /\ ctr <= ctr'.
Proof.
  intros Hwf Hk Hnin Hok Hids E.
  destruct (layer_put_spec root k lv ctr Hwf Hk Hnin Hok Hids)
    as (r2 & i2 & c2 & E2 & Hwf' & _ & _ & Hperm & Hc & _ & Hold & Hnew & _).
  rewrite E in E2. injection E2 as <- <- <-.
  set (nodes := filter (fun i => ctr <=? i) (bt_ids root')).
  assert (NoDup nodes) as Nn by (apply NoDup_filter; exact (proj2 Hwf')).
  assert (forall i, In i nodes -> ctr <= i < ctr') as Rn.
  { intros i Hi. apply filter_In in Hi. destruct Hi as [Hi Hge].
    destruct (Hnew i Hi) as [H|H]; [|exact H]. pose proof (Hids i H). lia. }
  exists nodes. split; [|split; [exact Nn|split; [exact Rn|exact Hc]]].
  assert (Permutation (bt_ids root') (nodes ++ bt_ids root)) as Pid.
  { apply NoDup_Permutation.
    - exact (proj2 Hwf').
    - apply NoDup_app_intro; [exact Nn|exact (proj2 Hwf)|].
      intros x H1 H2. pose proof (Rn x H1). pose proof (Hids x H2). lia.
    - intros x. rewrite in_app_iff. split.
      + intros Hx. destruct (Hnew x Hx) as [H|H]; [right; exact H|].
        left. apply filter_In. split; [exact Hx|]. lia.
      + intros [Hx|Hx]; [apply filter_In in Hx; apply Hx|apply Hold; exact Hx]. }
  unfold layer_allocs.
  apply Permutation_trans with ((nodes ++ bt_ids root) ++
        val_ids ({| sl_key := k; sl_lv := lv |} :: bt_elems root)).
  { apply Permutation_app; [exact Pid|apply val_ids_perm; exact Hperm]. }
  change (val_ids ({| sl_key := k; sl_lv := lv |} :: bt_elems root))
    with (slot_vids {| sl_key := k; sl_lv := lv |} ++ val_ids (bt_elems root)).
  rewrite <- app_assoc. apply Permutation_app_head. apply perm_swap3.
Qed.

(** overwrite: the new value replaces the old one, which is what goes to the gc *)
Lemma layer_update_acc root k l rank slot s v :
  WF_layer root -> kt_wf k = true ->
  find_leaf root k = Some l -> leaf_lookup l k = Some (rank, slot, s) -> kl k <= 8 ->
  let root' := update_leaf root k (fun l0 =>
                 leaf_with l0 (lf_ver l0) (lf_perm l0)
                           (set_nth (N.to_nat slot) {| sl_key := sl_key s; sl_lv := LValue v |} (lf_slots l0))) in
  Permutation (layer_allocs root' ++ slot_vids s) (vid v ++ layer_allocs root).
Proof.
  intros Hwf Hk Ef El Hkl root'.
  destruct (layer_update_spec root k l rank slot s v Hwf Hk Ef El Hkl)
    as (_ & _ & _ & Hids & _ & (A & B & HA & HB) & _).
  fold root' in Hids, HB. unfold layer_allocs. rewrite Hids, HA, HB.
  set (x := {| sl_key := sl_key s; sl_lv := LValue v |}).
  apply Permutation_trans with ((bt_ids root ++ slot_vids x ++ val_ids (A ++ B)) ++ slot_vids s).
  { apply Permutation_app_tail. apply Permutation_app_head. apply val_ids_mid. }
  change (slot_vids x) with (vid v).
  apply Permutation_trans with (vid v ++ bt_ids root ++ slot_vids s ++ val_ids (A ++ B)).
  2:{ apply Permutation_app_head. apply Permutation_app_head. apply Permutation_sym. apply val_ids_mid. }
  rewrite <- !app_assoc.
  eapply Permutation_trans; [apply perm_swap3|]. apply Permutation_app_head. apply Permutation_app_head.
  apply Permutation_app_comm.
Qed.

(** delete one entry from the layer at [p]: retired nodes + the entry's value leave the store *)
Lemma layer_remove_acc ls p k root ls' gone ret :
  layer_get ls p = Some root -> WF_layer root -> kt_wf k = true -> In k (bt_keys root) ->
  layer_remove ls p k = Some (ls', gone, ret) ->
  exists s, In s (bt_elems root) /\ sl_key s = k /\
    Permutation (layers_allocs ls) (layers_allocs ls' ++ slot_vids s ++ ret).
Proof.
  intros Eg Hwf Hk Hin E.
  destruct (layer_remove_spec ls p k root Eg Hwf Hk Hin) as (ls2 & g2 & r2 & E2 & C).
  rewrite E in E2. injection E2 as <- <- <-.
  set (D := layers_allocs (layer_del ls p)).
  pose proof (layers_allocs_get ls p root Eg) as PG. fold D in PG.
  destruct C as [C|[C|C]].
  - destruct C as (_ & root' & root'' & _ & _ & -> & _ & _ & (A & s & B & HA & Hs & HB) & Hperm).
    exists s. split; [rewrite HA; apply in_or_app; right; left; reflexivity|]. split; [exact Hs|].
    eapply Permutation_trans; [exact PG|].
    apply Permutation_trans with ((layer_allocs root'' ++ D) ++ slot_vids s ++ ret).
    2:{ apply Permutation_app_tail. apply Permutation_sym. apply layers_allocs_set. }
    unfold layer_allocs. rewrite HA, HB.
    apply Permutation_trans with (((ret ++ bt_ids root'') ++ slot_vids s ++ val_ids (A ++ B)) ++ D).
    { apply Permutation_app_tail. apply Permutation_app; [exact Hperm|apply val_ids_mid]. }
    rewrite <- !app_assoc.
    eapply Permutation_trans; [apply perm_swap3|]. apply Permutation_app_head.
    (* ret ++ sv ++ vals ++ D  ~  vals ++ D ++ sv ++ ret *)
    apply Permutation_trans with ((ret ++ slot_vids s) ++ val_ids (A ++ B) ++ D).
    { rewrite <- app_assoc. apply Permutation_refl. }
    eapply Permutation_trans; [apply Permutation_app_comm|]. rewrite <- app_assoc.
    apply Permutation_app_head. apply Permutation_app_head. apply Permutation_app_comm.
  - destruct C as (_ & _ & -> & l & s & -> & Hent & Hs & ->).
    exists s. split; [cbn [bt_elems]; rewrite Hent; left; reflexivity|]. split; [exact Hs|].
    eapply Permutation_trans; [exact PG|]. fold D.
    unfold layer_allocs. cbn [bt_elems bt_ids]. rewrite Hent. unfold val_ids. cbn [flat_map].
    rewrite app_nil_r. eapply Permutation_trans; [apply Permutation_app_comm|].
    apply Permutation_app_head. apply Permutation_app_comm.
  - destruct C as (_ & -> & -> & l & s & l'' & -> & Hent & Hs & -> & _ & He'' & Hid).
    exists s. split; [cbn [bt_elems]; rewrite Hent; left; reflexivity|]. split; [exact Hs|].
    eapply Permutation_trans; [exact PG|].
    apply Permutation_trans with ((layer_allocs (BLeaf l'') ++ D) ++ slot_vids s ++ []).
    2:{ apply Permutation_app_tail. apply Permutation_sym. apply layers_allocs_set. }
    unfold layer_allocs. cbn [bt_elems bt_ids]. rewrite Hent, He'', Hid. unfold val_ids. cbn [flat_map].
    rewrite !app_nil_r. cbn [app]. apply perm_skip. apply Permutation_app_comm.
Qed.

(** ** C. put and remove *)

Lemma snoc_app_neq (p : prefix) x r : p <> (p ++ [x]) ++ r.
Proof.
  intros H. apply (f_equal (@length N)) in H. rewrite !app_length in H. cbn [length] in H. lia.
Qed.

(** the chain of fresh one-entry layers of a long key: one new border per remaining
    tuple, no counter value skipped, the value hangs off the last one *)
Lemma new_chain_acc v : forall ts q ctr ls ls1 ctr1,
  vp ts -> (forall r, layer_get ls (q ++ r) = None) ->
  new_chain q ts v ctr ls = (ls1, ctr1) ->
  ctr1 = ctr + N.of_nat (length ts) /\
  Permutation (layers_allocs ls1) (nseq ctr (length ts) ++ vid v ++ layers_allocs ls).
Proof.
  induction ts as [|t rest IH]; intros q ctr ls ls1 ctr1 V Hnb E; [contradiction|].
  cbn [vp] in V. destruct V as [Hw V].
  assert (layer_del ls q = ls) as Hdel.
  { apply layer_del_absent. specialize (Hnb []). rewrite app_nil_r in Hnb. exact Hnb. }
  destruct rest as [|t2 r].
  - cbn [new_chain] in E. injection E as <- <-.
    destruct (single_leaf_WF_layer ctr t (LValue v)) as (_ & Hel & Hid); [split; [exact Hw|exact V]|].
    split; [cbn [length]; lia|].
    eapply Permutation_trans; [apply layers_allocs_set|]. rewrite Hdel.
    unfold layer_allocs. rewrite Hel, Hid. unfold val_ids. cbn [flat_map nseq length].
    rewrite app_nil_r. apply Permutation_refl.
  - destruct V as [H9 V]. cbn [new_chain] in E.
    destruct (single_leaf_WF_layer ctr t LLink) as (_ & Hel & Hid); [split; [exact Hw|exact H9]|].
    set (ls_a := layer_set ls q (BLeaf (single_leaf ctr t LLink))) in *.
    destruct (IH (q ++ [ks t]) (ctr + 1) ls_a ls1 ctr1 V) as [C1 P1]; [|exact E|].
    { intros r0. unfold ls_a. rewrite layer_get_set_other by apply snoc_app_neq.
      rewrite <- app_assoc. apply Hnb. }
    split; [cbn [length]; cbn [length] in C1; lia|].
    eapply Permutation_trans; [exact P1|].
    assert (Permutation (layers_allocs ls_a) (ctr :: layers_allocs ls)) as Pa.
    { unfold ls_a. eapply Permutation_trans; [apply layers_allocs_set|]. rewrite Hdel.
      unfold layer_allocs. rewrite Hel, Hid. unfold val_ids, slot_vids. cbn [flat_map sl_lv app].
      apply Permutation_refl. }
    change (nseq ctr (length (t :: t2 :: r))) with (ctr :: nseq (ctr + 1) (length (t2 :: r))).
    cbn [app].
    apply Permutation_trans with (nseq (ctr + 1) (length (t2 :: r)) ++ vid v ++ ctr :: layers_allocs ls).
    { apply Permutation_app_head. apply Permutation_app_head. exact Pa. }
    apply Permutation_sym.
    eapply Permutation_trans; [apply Permutation_middle|]. apply Permutation_app_head. apply Permutation_middle.
Qed.

(** the walk of [put]: new nodes come from the counter, the new value becomes reachable,
    an overwritten value is handed to the gc; a failed unique insert changes nothing *)
Lemma put_walk_acc v unique : forall ts p ctr ls ls' o ctr',
  WFL ctr ls None -> vp ts -> layer_get ls p <> None ->
  put_walk ts p ls v unique ctr = Some (ls', o, ctr') ->
  exists nodes,
    NoDup nodes /\ (forall i, In i nodes -> ctr <= i < ctr') /\ ctr <= ctr' /\
    match po_status o with
    | St_OK => Permutation (layers_allocs ls' ++ po_retired o) ((vid v ++ nodes) ++ layers_allocs ls)
    | _ => ls' = ls /\ po_retired o = [] /\ ctr' = ctr /\ nodes = []
    end.
Proof.
  induction ts as [|t rest IH]; intros p ctr ls ls' o ctr' W V Hp E; [contradiction|].
  cbn [vp] in V. destruct V as [Hw V].
  pose proof (wl_layer _ _ _ W) as Hwf.
  destruct (layer_get ls p) as [root|] eqn:Eg; [|contradiction]. clear Hp.
  destruct (walk_step ctr ls None p root t W Eg Hw) as (l & Ef & Hl).
  pose proof (Hwf p root Eg) as Hwr.
  cbn [put_walk] in E. rewrite Eg, Ef in E.
  destruct (leaf_lookup l t) as [[[rk slot] s]|] eqn:El.
  - destruct Hl as (Hin & Hs & He & Hoks). pose proof Hoks as [_ Hok]. rewrite Hs in Hok.
    destruct rest as [|t2 r].
    + pose proof (layer_update_acc root t l rk slot s v Hwr Hw Ef El V) as P. cbn zeta in P.
      unfold slot_vids in P.
      destruct (sl_lv s) as [|ov|] eqn:Elv; [contradiction| |lia].
      destruct unique.
      * injection E as <- <- <-. exists []. split; [constructor|]. split; [intros i []|]. split; [lia|].
        cbn [po_status]. repeat split; reflexivity.
      * injection E as <- <- <-. exists []. split; [constructor|]. split; [intros i []|]. split; [lia|].
        cbn [po_status po_retired]. rewrite app_nil_r.
        apply (layers_allocs_replace ls p root _ _ _ Eg). exact P.
    + destruct V as [H9 V]. destruct (sl_lv s) as [|ov|] eqn:Elv; [contradiction|lia|].
      apply (IH (p ++ [ks t]) ctr ls ls' o ctr' W V); [|exact E].
      apply (wl_link _ _ _ W p root (ks t) Eg); [|discriminate].
      rewrite (mk9_ks t H9), <- Hs, <- Elv, mk_eta. exact Hin.
  - destruct Hl as [He Hnin].
    set (lv := match rest with [] => LValue v | _ :: _ => LLink end) in *.
    assert (entry_ok {| sl_key := t; sl_lv := lv |}) as Hokn.
    { split; [exact Hw|]. unfold lv. cbn [sl_lv sl_key]. destruct rest; [exact V|apply V]. }
    destruct (layer_put root t lv ctr) as [[[root' info] ctr1]|] eqn:Eput; [|discriminate].
    destruct (layer_put_acc root t lv ctr root' info ctr1 Hwr Hw Hnin Hokn
                (fun i => wl_ids _ _ _ W p root i Eg) Eput) as (nodes1 & P1 & N1 & R1 & C1).
    destruct rest as [|t2 r].
    + cbn [new_chain] in E. injection E as <- <- <-. exists nodes1.
      split; [exact N1|]. split; [exact R1|]. split; [exact C1|]. cbn [po_status po_retired].
      apply (layers_allocs_replace ls p root _ _ _ Eg). rewrite app_nil_r.
      eapply Permutation_trans; [exact P1|]. unfold lv, slot_vids. cbn [sl_lv]. fold (vid v).
      rewrite !app_assoc. apply Permutation_app_tail. apply Permutation_app_comm.
    + destruct V as [H9 V]. set (ls_a := layer_set ls p root') in *.
      assert (layer_get ls (p ++ [ks t]) = None) as Hnone.
      { destruct (layer_get ls (p ++ [ks t])) as [ry|] eqn:Ey; [|reflexivity]. exfalso.
        destruct (wl_parent _ _ _ W p (ks t) ry Ey) as (_ & r0 & E0 & Hin0).
        rewrite Eg in E0. injection E0 as <-. rewrite (mk9_ks t H9) in Hin0.
        apply Hnin. change t with (sl_key (mk t LLink)). apply in_map. exact Hin0. }
      destruct (new_chain (p ++ [ks t]) (t2 :: r) v ctr1 ls_a) as [ls2 ctr2] eqn:Enc.
      injection E as <- <- <-.
      destruct (new_chain_acc v (t2 :: r) (p ++ [ks t]) ctr1 ls_a ls2 ctr2 V) as [C2 P2]; [|exact Enc|].
      { intros r0. unfold ls_a. rewrite layer_get_set_other by apply snoc_app_neq.
        destruct (layer_get ls ((p ++ [ks t]) ++ r0)) eqn:Ey; [|reflexivity]. exfalso.
        apply (layer_prefix_closed ctr ls None (p ++ [ks t]) W r0); [rewrite Ey; discriminate|exact Hnone]. }
      set (n := length (t2 :: r)) in *.
      exists (nodes1 ++ nseq ctr1 n). split.
      { apply NoDup_app_intro; [exact N1|apply nseq_NoDup|].
        intros x H1 H2. apply R1 in H1. apply nseq_in in H2. lia. }
      split.
      { intros i Hi. apply in_app_or in Hi. destruct Hi as [Hi|Hi].
        - apply R1 in Hi. lia.
        - apply nseq_in in Hi. lia. }
      split; [lia|]. cbn [po_status po_retired]. rewrite app_nil_r.
      eapply Permutation_trans; [exact P2|].
      assert (Permutation (layers_allocs ls_a) (nodes1 ++ layers_allocs ls)) as Pa.
      { pose proof (layers_allocs_replace ls p root root' [] nodes1 Eg) as X.
        rewrite !app_nil_r in X. apply X. eapply Permutation_trans; [exact P1|].
        unfold lv, slot_vids. cbn [sl_lv app]. apply Permutation_refl. }
      apply Permutation_trans with (nseq ctr1 n ++ vid v ++ nodes1 ++ layers_allocs ls).
      { apply Permutation_app_head. apply Permutation_app_head. exact Pa. }
      rewrite <- !app_assoc. eapply Permutation_trans; [apply perm_swap3|].
      apply Permutation_app_head. apply perm_swap3.
Qed.

Lemma put_core ctr tr k v unique tr' po ctr' :
  WF_store ctr tr -> bytes k ->
  put tr k v unique ctr = Some (tr', po, ctr') ->
  exists nodes,
    NoDup nodes /\ (forall i, In i nodes -> ctr <= i < ctr') /\ ctr <= ctr' /\
    match po_status po with
    | St_OK => Permutation (store_allocs tr' ++ po_retired po) ((vid v ++ nodes) ++ store_allocs tr)
    | _ => tr' = tr /\ po_retired po = [] /\ ctr' = ctr /\ nodes = []
    end.
Proof.
  intros W Hb E. destruct (path_vp k Hb) as [V _].
  unfold put in E. unfold store_allocs. destruct tr as [ls nl]. destruct nl; cbn [t_null t_layers] in *.
  - destruct (new_chain [] (path_of_key k) v ctr []) as [ls1 ctr1] eqn:Enc.
    injection E as <- <- <-.
    destruct (new_chain_acc v _ [] ctr [] ls1 ctr1 V (fun r => eq_refl) Enc) as [C P].
    exists (nseq ctr (length (path_of_key k))). split; [apply nseq_NoDup|]. split.
    { intros i Hi. apply nseq_in in Hi. lia. }
    split; [lia|]. cbn [po_status po_retired t_null t_layers]. rewrite !app_nil_r.
    eapply Permutation_trans; [exact P|]. unfold layers_allocs. cbn [flat_map]. rewrite app_nil_r.
    apply Permutation_app_comm.
  - unfold WF_store in W. cbn [t_null t_layers] in W.
    destruct (put_walk (path_of_key k) [] ls v unique ctr) as [[[ls' o] c]|] eqn:Ew; [|discriminate].
    injection E as <- <- <-.
    destruct (put_walk_acc v unique _ [] ctr ls ls' o c W V (wl_exc _ _ _ W) Ew) as (nodes & N1 & R1 & C1 & H).
    exists nodes. split; [exact N1|]. split; [exact R1|]. split; [exact C1|]. cbn [t_null t_layers].
    destruct (po_status o); try exact H.
    all: destruct H as (-> & H2 & H3 & H4); repeat split; assumption.
Qed.

(** *** put: what is reachable afterwards, together with what was handed to the gc, is
    exactly what was reachable before plus the fresh ids; nothing is duplicated.
    [fresh] = the new value object (if it was stored) + the new nodes (ids taken from
    the counter).  A failed unique insert changes nothing: the value it was given never
    becomes reachable and is not handed to the gc -- the caller releases it. *)
Theorem put_accounting ctr tr k v unique tr' po ctr' :
  WF_store ctr tr -> alloc_ok ctr tr -> value_new ctr tr v -> bytes k ->
  put tr k v unique ctr = Some (tr', po, ctr') ->
  exists fresh,
    Permutation (store_allocs tr' ++ po_retired po) (fresh ++ store_allocs tr) /\
    NoDup fresh /\
    (forall i, In i fresh -> ctr <= i < ctr' \/ In i (vid v)) /\
    NoDup (store_allocs tr' ++ po_retired po) /\
    (forall i, In i (store_allocs tr' ++ po_retired po) -> i < ctr') /\ ctr <= ctr' /\
    match po_status po with
    | St_OK => incl (vid v) fresh
    | _ => fresh = [] /\ tr' = tr /\ po_retired po = [] /\ ctr' = ctr
    end.
Proof.
  intros W [ND BD] VN Hb E.
  destruct (put_core ctr tr k v unique tr' po ctr' W Hb E) as (nodes & N1 & R1 & C1 & H).
  assert (forall i, In i (vid v) -> i < ctr /\ ~ In i (store_allocs tr)) as Hv.
  { unfold vid. intros i Hi. destruct (v_inline v) eqn:Ei; [destruct Hi|].
    destruct Hi as [<-|[]]. apply VN. exact Ei. }
  assert (NoDup (vid v)) as Nv.
  { unfold vid. destruct (v_inline v); constructor; [intros []|constructor]. }
  assert (forall fresh, NoDup fresh ->
            (forall i, In i fresh -> ctr <= i < ctr' \/ In i (vid v)) ->
            Permutation (store_allocs tr' ++ po_retired po) (fresh ++ store_allocs tr) ->
            NoDup (store_allocs tr' ++ po_retired po) /\
            (forall i, In i (store_allocs tr' ++ po_retired po) -> i < ctr')) as Hfin.
  { intros fresh Nf Rf P. split.
    - apply (Permutation_NoDup (Permutation_sym P)). apply NoDup_app_intro; [exact Nf|exact ND|].
      intros x H1 H2. destruct (Rf x H1) as [H3|H3].
      + pose proof (BD x H2). lia.
      + exact (proj2 (Hv x H3) H2).
    - intros i Hi. apply (Permutation_in _ P) in Hi. apply in_app_or in Hi. destruct Hi as [Hi|Hi].
      + destruct (Rf i Hi) as [H3|H3]; [lia|]. pose proof (proj1 (Hv i H3)). lia.
      + pose proof (BD i Hi). lia. }
  assert (NoDup (vid v ++ nodes)) as Nvn.
  { apply NoDup_app_intro; [exact Nv|exact N1|]. intros x H1 H2. pose proof (proj1 (Hv x H1)).
    pose proof (R1 x H2). lia. }
  assert (forall i, In i (vid v ++ nodes) -> ctr <= i < ctr' \/ In i (vid v)) as Rvn.
  { intros i Hi. apply in_app_or in Hi. destruct Hi as [Hi|Hi]; [right; exact Hi|left; exact (R1 i Hi)]. }
  destruct (po_status po) eqn:Est.
  1:{ exists (vid v ++ nodes). split; [exact H|]. split; [exact Nvn|]. split; [exact Rvn|].
      destruct (Hfin _ Nvn Rvn H) as [F1 F2]. split; [exact F1|]. split; [exact F2|]. split; [exact C1|].
      intros x Hx. apply in_or_app. left. exact Hx. }
  all: destruct H as (-> & H2 & -> & ->); exists []; rewrite H2, app_nil_r; cbn [app];
    (split; [apply Permutation_refl|]); (split; [constructor|]); (split; [intros i []|]);
    (split; [exact ND|]); (split; [exact BD|]); (split; [lia|]); repeat split; reflexivity.
Qed.

(** the cascade: every emptied next layer is deleted together with its link *)
Lemma cascade_acc ctr : forall n p ls ret, length p = n -> p <> [] -> WFL ctr ls (Some p) ->
  forall f ls' ret', cascade f ls p ret = Some (ls', ret') ->
  exists ret2, ret' = ret ++ ret2 /\ Permutation (layers_allocs ls) (layers_allocs ls' ++ ret2).
Proof.
  induction n as [|n IH]; intros p ls ret Hlen Hp W f ls' ret' E.
  { destruct p; [contradiction|discriminate]. }
  destruct (exists_last Hp) as (up & x & ->). destruct f as [|f]; [discriminate|].
  cbn [cascade] in E. rewrite rev_unit, remove_last_snoc in E.
  pose proof (wl_layer _ _ _ W) as Hwf.
  destruct (wl_exc _ _ _ W) as [Hnone Hpar]. destruct (Hpar up x eq_refl) as (r0 & E0 & Hin0).
  pose proof (Hwf up r0 E0) as Hwr.
  pose proof (layer_entry_ok ls Hwf up r0 _ E0 Hin0) as [Hwx _]. cbn [mk sl_key] in Hwx.
  assert (In (mk9 x) (bt_keys r0)) as Hink.
  { change (mk9 x) with (sl_key (mk (mk9 x) LLink)). apply in_map. exact Hin0. }
  change {| ks := x; kl := 9 |} with (mk9 x) in E.
  destruct (layer_remove ls up (mk9 x)) as [[[ls1 gone] ret1]|] eqn:Er; [|discriminate].
  destruct (layer_remove_acc ls up (mk9 x) r0 ls1 gone ret1 E0 Hwr Hwx Hink Er) as (s & Hs1 & Hs2 & P).
  assert (s = mk (mk9 x) LLink) as Es.
  { apply (WF_bt_key_inj None None r0 _ _ (proj1 Hwr)); [exact Hs1|exact Hin0|exact Hs2]. }
  assert (slot_vids s = []) as Hsv by (rewrite Es; reflexivity).
  rewrite Hsv in P. cbn [app] in P.
  destruct gone.
  - destruct (layer_remove_cases ls up (mk9 x) r0 E0 Hwr Hwx Hink) as (ls2 & g2 & r2 & E2 & [C|C]);
      rewrite Er in E2; injection E2 as <- <- <-; [destruct C as [C _]; discriminate|].
    destruct C as (_ & Hup & -> & s' & Hel & Hs').
    assert (WFL ctr (layer_del ls up) (Some up)) as W1.
    { apply (WFL_del ctr ls (Some (up ++ [x])) up r0 W Hup E0).
      - intros y Hy. rewrite Hel in Hy. destruct Hy as [H|[]].
        rewrite Hel in Hs1. destruct Hs1 as [H1|[]]. rewrite H1, Es in H.
        apply mk_inj in H. destruct H as [H _]. apply mk9_inj in H. subst y. reflexivity.
      - right. exists x. reflexivity. }
    rewrite app_length in Hlen. cbn [length] in Hlen.
    destruct (IH up (layer_del ls up) (ret ++ ret1) ltac:(lia) Hup W1 f ls' ret' E) as (ret2 & -> & P2).
    exists (ret1 ++ ret2). split; [rewrite app_assoc; reflexivity|].
    eapply Permutation_trans; [exact P|].
    apply Permutation_trans with ((layers_allocs ls' ++ ret2) ++ ret1).
    { apply Permutation_app_tail. exact P2. }
    rewrite <- app_assoc. apply Permutation_app_head. apply Permutation_app_comm.
  - injection E as <- <-. exists ret1. split; [reflexivity|exact P].
Qed.

Lemma remove_walk_acc ctr ls : WFL ctr ls None ->
  forall ts p ls' o, vp ts -> layer_get ls p <> None ->
  remove_walk ts p ls = Some (ls', o) ->
  Permutation (layers_allocs ls) (layers_allocs ls' ++ ro_retired o).
Proof.
  intros W. pose proof (wl_layer _ _ _ W) as Hwf.
  induction ts as [|t rest IH]; intros p ls' o V Hp E; [contradiction|].
  cbn [vp] in V. destruct V as [Hw V].
  destruct (layer_get ls p) as [root|] eqn:Eg; [|contradiction]. clear Hp.
  destruct (walk_step ctr ls None p root t W Eg Hw) as (l & Ef & Hl).
  pose proof (Hwf p root Eg) as Hwr.
  cbn [remove_walk] in E. rewrite Eg, Ef in E.
  destruct (leaf_lookup l t) as [[[rk slot] s]|] eqn:El.
  - destruct Hl as (Hin & Hs & He & Hoks). pose proof Hoks as [_ Hok]. rewrite Hs in Hok.
    destruct rest as [|t2 r].
    + assert (In t (bt_keys root)) as Hink by (rewrite <- Hs; apply in_elems_in_keys; exact Hin).
      destruct (layer_remove ls p t) as [[[ls1 gone] ret]|] eqn:Er; [|discriminate].
      destruct (layer_remove_acc ls p t root ls1 gone ret Eg Hwr Hw Hink Er) as (s' & Hs1 & Hs2 & P).
      assert (s' = s) as ->.
      { apply (WF_bt_key_inj None None root _ _ (proj1 Hwr)); [exact Hs1|exact Hin|congruence]. }
      fold (slot_vids s) in E.
      destruct gone.
      * destruct (layer_remove_cases ls p t root Eg Hwr Hw Hink) as (ls2 & g2 & r2 & E2 & [C|C]);
          rewrite Er in E2; injection E2 as <- <- <-; [destruct C as [C _]; discriminate|].
        destruct C as (_ & Hpn & -> & s' & Hel & Hs').
        assert (WFL ctr (layer_del ls p) (Some p)) as W1.
        { apply (WFL_del ctr ls None p root W Hpn Eg).
          - intros y Hy. rewrite Hel in Hy. destruct Hy as [H|[]].
            rewrite Hel in Hin. destruct Hin as [H1|[]].
            assert (sl_lv s = LLink) as X by (rewrite <- H1, H; reflexivity).
            rewrite X in Hok. lia.
          - left. reflexivity. }
        destruct (cascade (S (length p)) (layer_del ls p) p ret) as [[ls2 ret2]|] eqn:Ec; [|discriminate].
        injection E as <- <-.
        destruct (cascade_acc ctr (length p) p (layer_del ls p) ret eq_refl Hpn W1 _ ls2 ret2 Ec)
          as (ret3 & -> & P3).
        unfold ro_retired. cbn [ro_retired_values ro_retired_nodes].
        eapply Permutation_trans; [exact P|].
        apply Permutation_trans with ((layers_allocs ls2 ++ ret3) ++ slot_vids s ++ ret).
        { apply Permutation_app_tail. exact P3. }
        rewrite <- !app_assoc. apply Permutation_app_head.
        eapply Permutation_trans; [apply perm_swap3|]. apply Permutation_app_head. apply Permutation_app_comm.
      * injection E as <- <-. unfold ro_retired. cbn [ro_retired_values ro_retired_nodes]. exact P.
    + destruct V as [H9 V]. destruct (sl_lv s) as [|ov|] eqn:Elv; [contradiction|lia|].
      apply (IH (p ++ [ks t]) ls' o V); [|exact E].
      apply (wl_link _ _ _ W p root (ks t) Eg); [|discriminate].
      rewrite (mk9_ks t H9), <- Hs, <- Elv, mk_eta. exact Hin.
  - injection E as <- <-. unfold ro_retired. cbn [ro_retired_values ro_retired_nodes app].
    rewrite app_nil_r. apply Permutation_refl.
Qed.

(** *** remove: reachable-before = reachable-after + retired, without duplicates *)
Theorem remove_accounting ctr tr k tr' ro :
  WF_store ctr tr -> alloc_ok ctr tr -> bytes k -> remove tr k = Some (tr', ro) ->
  Permutation (store_allocs tr) (store_allocs tr' ++ ro_retired ro) /\
  NoDup (store_allocs tr' ++ ro_retired ro) /\
  (forall i, In i (store_allocs tr' ++ ro_retired ro) -> i < ctr).
Proof.
  intros W [ND BD] Hb E. destruct (path_vp k Hb) as [V _].
  assert (Permutation (store_allocs tr) (store_allocs tr' ++ ro_retired ro)) as P.
  { unfold remove in E. unfold store_allocs in *. destruct tr as [ls nl].
    destruct nl; cbn [t_null t_layers] in *.
    - injection E as <- <-. cbn. constructor.
    - unfold WF_store in W. cbn [t_null t_layers] in W.
      destruct (remove_walk (path_of_key k) [] ls) as [[ls' o]|] eqn:Ew; [|discriminate].
      injection E as <- <-. cbn [t_null t_layers].
      exact (remove_walk_acc ctr ls W _ [] ls' o V (wl_exc _ _ _ W) Ew). }
  split; [exact P|]. split.
  - exact (Permutation_NoDup P ND).
  - intros i Hi. apply BD. exact (Permutation_in _ (Permutation_sym P) Hi).
Qed.

(** only reachable objects are handed to the gc by a put *)
Lemma put_walk_retired v unique : forall ts p ctr ls ls' o ctr',
  WFL ctr ls None -> vp ts -> layer_get ls p <> None ->
  put_walk ts p ls v unique ctr = Some (ls', o, ctr') ->
  incl (po_retired o) (layers_allocs ls).
Proof.
  induction ts as [|t rest IH]; intros p ctr ls ls' o ctr' W V Hp E; [contradiction|].
  cbn [vp] in V. destruct V as [Hw V].
  destruct (layer_get ls p) as [root|] eqn:Eg; [|contradiction]. clear Hp.
  destruct (walk_step ctr ls None p root t W Eg Hw) as (l & Ef & Hl).
  cbn [put_walk] in E. rewrite Eg, Ef in E.
  destruct (leaf_lookup l t) as [[[rk slot] s]|] eqn:El.
  - destruct Hl as (Hin & Hs & He & Hoks). pose proof Hoks as [_ Hok]. rewrite Hs in Hok.
    destruct rest as [|t2 r].
    + fold (slot_vids s) in E. destruct unique; injection E as <- <- <-; cbn [po_retired]; [intros x []|].
      intros x Hx. apply (Permutation_in _ (Permutation_sym (layers_allocs_get ls p root Eg))).
      apply in_or_app. left. unfold layer_allocs. apply in_or_app. right.
      unfold val_ids. apply in_flat_map. exists s. split; [exact Hin|exact Hx].
    + destruct V as [H9 V]. destruct (sl_lv s) as [|ov|] eqn:Elv; [contradiction|lia|].
      apply (IH (p ++ [ks t]) ctr ls ls' o ctr' W V); [|exact E].
      apply (wl_link _ _ _ W p root (ks t) Eg); [|discriminate].
      rewrite (mk9_ks t H9), <- Hs, <- Elv, mk_eta. exact Hin.
  - destruct (layer_put root t _ ctr) as [[[root' info] ctr1]|]; [|discriminate].
    destruct (new_chain _ rest v ctr1 _) as [ls2 ctr2]. injection E as <- <- <-. intros x [].
Qed.

Theorem put_retired_reachable ctr tr k v unique tr' po ctr' :
  WF_store ctr tr -> bytes k -> put tr k v unique ctr = Some (tr', po, ctr') ->
  incl (po_retired po) (store_allocs tr).
Proof.
  intros W Hb E. destruct (path_vp k Hb) as [V _].
  unfold put in E. unfold store_allocs. destruct tr as [ls nl]. destruct nl; cbn [t_null t_layers] in *.
  - destruct (new_chain [] (path_of_key k) v ctr []) as [ls1 ctr1]. injection E as <- <- <-. intros x [].
  - unfold WF_store in W. cbn [t_null t_layers] in W.
    destruct (put_walk (path_of_key k) [] ls v unique ctr) as [[[ls' o] c]|] eqn:Ew; [|discriminate].
    injection E as <- <- <-.
    exact (put_walk_retired v unique _ [] ctr ls ls' o c W V (wl_exc _ _ _ W) Ew).
Qed.

(** ** D. operation histories *)

Inductive hop :=
| HPut (k : key) (bs : list N) (align : N) (unique inline : bool)
| HRemove (k : key).

Definition hop_bytes (o : hop) : Prop :=
  match o with HPut k _ _ _ _ => bytes k | HRemove k => bytes k end.

Definition mem (i : N) (l : list N) : bool := existsb (N.eqb i) l.

(** the counter values [a .. b-1] that did not become an object in [used] *)
Definition unused (a b : N) (used : list N) : list N :=
  filter (fun i => negb (mem i used)) (nrange a b).

Record hstate := {
  h_tr : tree;
  h_ctr : N;            (* next allocation id *)
  h_ret : list N;       (* R: everything handed to the gc so far, in order *)
  h_skip : list N;      (* counter values that never became a reachable / retired object *)
}.

(** one operation, with the id discipline of [SysDefs.exec]: the value is allocated
    first (id = counter), then [put] runs with the next counter value *)
Definition hstep (st : hstate) (o : hop) : option hstate :=
  match o with
  | HPut k bs al u il =>
    let v := mk_value (h_ctr st) bs al il in
    match put (h_tr st) k v u (h_ctr st + 1) with
    | None => None
    | Some (tr', po, c') =>
      Some {| h_tr := tr'; h_ctr := c'; h_ret := h_ret st ++ po_retired po;
              h_skip := h_skip st ++ unused (h_ctr st) c' (store_allocs tr' ++ po_retired po) |}
    end
  | HRemove k =>
    match remove (h_tr st) k with
    | None => None
    | Some (tr', ro) =>
      Some {| h_tr := tr'; h_ctr := h_ctr st; h_ret := h_ret st ++ ro_retired ro; h_skip := h_skip st |}
    end
  end.

Fixpoint run_ops (ops : list hop) (st : hstate) : option hstate :=
  match ops with
  | [] => Some st
  | o :: r => match hstep st o with None => None | Some st' => run_ops r st' end
  end.

(** a fresh user storage: root border with id 1, counter 2 *)
Definition h_init : hstate := {| h_tr := empty_tree 1; h_ctr := 2; h_ret := []; h_skip := [] |}.

Record HInv (st : hstate) : Prop := {
  hi_wf : WF_store (h_ctr st) (h_tr st);
  hi_pos : 1 <= h_ctr st;
  hi_perm : Permutation (store_allocs (h_tr st) ++ h_ret st ++ h_skip st) (nrange 1 (h_ctr st));
}.

Lemma mem_spec i l : mem i l = true <-> In i l.
Proof.
  unfold mem. rewrite existsb_exists. split.
  - intros (x & Hx & E). apply N.eqb_eq in E. subst x. exact Hx.
  - intros H. exists i. split; [exact H|apply N.eqb_refl].
Qed.

Lemma filter_split_perm {A} (f : A -> bool) l :
  Permutation l (filter f l ++ filter (fun x => negb (f x)) l).
Proof.
  induction l as [|a l IH]; [constructor|]. cbn [filter]. destruct (f a); cbn [negb app].
  - apply perm_skip. exact IH.
  - eapply Permutation_trans; [apply perm_skip; exact IH|]. apply Permutation_middle.
Qed.

Ltac perm_count :=
  apply (Permutation_count_occ N.eq_dec); let x := fresh "x" in intros x;
  repeat match goal with
         | H : Permutation _ _ |- _ =>
           let H' := fresh in
           pose proof (proj1 (Permutation_count_occ N.eq_dec _ _) H x) as H'; clear H
         end;
  repeat rewrite count_occ_app in *; repeat rewrite count_occ_nil in *; lia.

Lemma HInv_allocs st : HInv st ->
  NoDup (store_allocs (h_tr st)) /\ (forall i, In i (store_allocs (h_tr st)) -> 1 <= i < h_ctr st) /\
  NoDup (store_allocs (h_tr st) ++ h_ret st) /\
  (forall i, In i (store_allocs (h_tr st) ++ h_ret st) -> 1 <= i < h_ctr st).
Proof.
  intros I. pose proof (hi_perm _ I) as P.
  pose proof (Permutation_NoDup (Permutation_sym P) (nrange_NoDup _ _)) as ND.
  assert (forall i, In i (store_allocs (h_tr st) ++ h_ret st ++ h_skip st) -> 1 <= i < h_ctr st) as B.
  { intros i Hi. apply (Permutation_in _ P) in Hi. apply nrange_in in Hi. exact Hi. }
  rewrite app_assoc in ND. apply NoDup_app_inv in ND. destruct ND as (ND & _ & _).
  pose proof ND as ND2. apply NoDup_app_inv in ND2. destruct ND2 as (ND2 & _ & _).
  split; [exact ND2|]. split.
  - intros i Hi. apply B. apply in_or_app. left. exact Hi.
  - split; [exact ND|]. intros i Hi. apply B. rewrite app_assoc. apply in_or_app. left. exact Hi.
Qed.

Lemma hstep_inv st o st' : HInv st -> hop_bytes o -> hstep st o = Some st' -> HInv st'.
Proof.
  intros I Hb E. destruct (HInv_allocs st I) as (ND & BD & _ & _).
  pose proof (hi_wf _ I) as W. pose proof (hi_pos _ I) as Hpos. pose proof (hi_perm _ I) as P.
  destruct o as [k bs al u il|k]; cbn [hstep hop_bytes] in *.
  - set (c := h_ctr st) in *. set (v := mk_value c bs al il) in *.
    assert (WF_store (c + 1) (h_tr st)) as W1 by (apply (WF_store_mono _ _ _ W); lia).
    destruct (put_refines (c + 1) (h_tr st) k v u W1 Hb) as (tr' & po & c' & Eput & W' & Hc & _).
    rewrite Eput in E. injection E as <-.
    assert (alloc_ok (c + 1) (h_tr st)) as AO.
    { split; [exact ND|]. intros i Hi. pose proof (BD i Hi). lia. }
    assert (value_new (c + 1) (h_tr st) v) as VN.
    { intros _. unfold v, mk_value. cbn [v_id]. destruct il; (split; [lia|]).
      - intros H. pose proof (BD _ H). lia.
      - intros H. pose proof (BD _ H). lia. }
    destruct (put_accounting (c + 1) (h_tr st) k v u tr' po c' W1 AO VN Hb Eput)
      as (fresh & PF & NF & RF & NDL & _ & _ & _).
    assert (forall i, In i fresh -> c <= i < c') as RF'.
    { intros i Hi. destruct (RF i Hi) as [H|H]; [lia|]. unfold vid, v, mk_value in H. cbn [v_inline v_id] in H.
      destruct il; [destruct H|]. destruct H as [<-|[]]. lia. }
    set (used := store_allocs tr' ++ po_retired po) in *.
    assert (Permutation (nrange c c') (fresh ++ unused c c' used)) as PU.
    { eapply Permutation_trans; [apply (filter_split_perm (fun i => mem i used))|].
      apply Permutation_app_tail. apply NoDup_Permutation.
      - apply NoDup_filter. apply nrange_NoDup.
      - exact NF.
      - intros x. rewrite filter_In, nrange_in, mem_spec. split.
        + intros [Hr Hx]. apply (Permutation_in _ PF) in Hx. apply in_app_or in Hx.
          destruct Hx as [Hx|Hx]; [exact Hx|]. pose proof (BD x Hx). lia.
        + intros Hx. split; [apply RF'; exact Hx|].
          apply (Permutation_in _ (Permutation_sym PF)). apply in_or_app. left. exact Hx. }
    constructor; cbn [h_tr h_ctr h_ret h_skip].
    + exact W'.
    + lia.
    + rewrite (nrange_app 1 c c') by lia. fold used. unfold used in PF.
      clear - P PF PU. perm_count.
  - destruct (remove_refines (h_ctr st) (h_tr st) k W Hb) as (tr' & ro & Erem & W' & _).
    rewrite Erem in E. injection E as <-.
    assert (alloc_ok (h_ctr st) (h_tr st)) as AO.
    { split; [exact ND|]. intros i Hi. pose proof (BD i Hi). lia. }
    destruct (remove_accounting (h_ctr st) (h_tr st) k tr' ro W AO Hb Erem) as (PR & _ & _).
    constructor; cbn [h_tr h_ctr h_ret h_skip].
    + exact W'.
    + exact Hpos.
    + clear - P PR. perm_count.
Qed.

Lemma HInv_init : HInv h_init.
Proof.
  constructor; cbn [h_init h_tr h_ctr h_ret h_skip].
  - apply empty_tree_wf. lia.
  - lia.
  - vm_compute. apply Permutation_refl.
Qed.

Lemma run_ops_inv : forall ops st st', HInv st -> Forall hop_bytes ops -> run_ops ops st = Some st' -> HInv st'.
Proof.
  induction ops as [|o ops IH]; intros st st' I Hb E; cbn [run_ops] in E.
  - injection E as <-. exact I.
  - apply Forall_cons_iff in Hb. destruct Hb as [Hb1 Hb].
    destruct (hstep st o) as [st1|] eqn:E1; [|discriminate].
    exact (IH st1 st' (hstep_inv st o st1 I Hb1 E1) Hb E).
Qed.

(** *** histories: with [R] = all ids retired along the way, [R] has no duplicates
    (nothing is retired twice), is disjoint from what is still reachable, and every id
    taken from the counter is exactly one of: reachable, retired, or skipped (a counter
    value that never became an object: the value of a failed unique insert / an inline
    value, and the sibling id the model reserves at a border that did not split). *)
Theorem history_accounting ops st :
  Forall hop_bytes ops -> run_ops ops h_init = Some st ->
  WF_store (h_ctr st) (h_tr st) /\
  NoDup (store_allocs (h_tr st) ++ h_ret st) /\
  (forall i, In i (store_allocs (h_tr st) ++ h_ret st) -> 1 <= i < h_ctr st) /\
  Permutation (store_allocs (h_tr st) ++ h_ret st ++ h_skip st) (nrange 1 (h_ctr st)).
Proof.
  intros Hb E. pose proof (run_ops_inv ops h_init st HInv_init Hb E) as I.
  destruct (HInv_allocs st I) as (_ & _ & ND & BD).
  split; [exact (hi_wf _ I)|]. split; [exact ND|]. split; [exact BD|exact (hi_perm _ I)].
Qed.

(** nothing is lost: whatever was reachable or retired at some point of a history is
    reachable or retired at every later point *)
Lemma hstep_mono st o st' : HInv st -> hop_bytes o -> hstep st o = Some st' ->
  incl (store_allocs (h_tr st) ++ h_ret st) (store_allocs (h_tr st') ++ h_ret st').
Proof.
  intros I Hb E. destruct (HInv_allocs st I) as (ND & BD & _ & _).
  pose proof (hi_wf _ I) as W.
  destruct o as [k bs al u il|k]; cbn [hstep hop_bytes] in *.
  - set (c := h_ctr st) in *. set (v := mk_value c bs al il) in *.
    assert (WF_store (c + 1) (h_tr st)) as W1 by (apply (WF_store_mono _ _ _ W); lia).
    destruct (put (h_tr st) k v u (c + 1)) as [[[tr' po] c']|] eqn:Eput; [|discriminate].
    injection E as <-. cbn [h_tr h_ret].
    assert (alloc_ok (c + 1) (h_tr st)) as AO.
    { split; [exact ND|]. intros i Hi. pose proof (BD i Hi). lia. }
    assert (value_new (c + 1) (h_tr st) v) as VN.
    { intros _. unfold v, mk_value. cbn [v_id]. destruct il; (split; [lia|]).
      - intros H. pose proof (BD _ H). lia.
      - intros H. pose proof (BD _ H). lia. }
    destruct (put_accounting (c + 1) (h_tr st) k v u tr' po c' W1 AO VN Hb Eput) as (fresh & PF & _).
    intros x Hx. rewrite !in_app_iff. apply in_app_or in Hx.
    destruct Hx as [Hx|Hx]; [|right; left; exact Hx].
    assert (In x (fresh ++ store_allocs (h_tr st))) as H by (apply in_or_app; right; exact Hx).
    apply (Permutation_in _ (Permutation_sym PF)) in H. apply in_app_or in H.
    destruct H as [H|H]; [left; exact H|right; right; exact H].
  - destruct (remove (h_tr st) k) as [[tr' ro]|] eqn:Erem; [|discriminate].
    injection E as <-. cbn [h_tr h_ret].
    assert (alloc_ok (h_ctr st) (h_tr st)) as AO.
    { split; [exact ND|]. intros i Hi. pose proof (BD i Hi). lia. }
    destruct (remove_accounting (h_ctr st) (h_tr st) k tr' ro W AO Hb Erem) as (PR & _ & _).
    intros x Hx. apply in_app_or in Hx. destruct Hx as [Hx|Hx].
    + apply (Permutation_in _ PR) in Hx. apply in_app_or in Hx.
      destruct Hx as [Hx|Hx]; apply in_or_app; [left; exact Hx|right; apply in_or_app; right; exact Hx].
    + apply in_or_app. right. apply in_or_app. left. exact Hx.
Qed.

Theorem history_nothing_lost : forall ops2 ops1 st1 st,
  Forall hop_bytes ops1 -> Forall hop_bytes ops2 ->
  run_ops ops1 h_init = Some st1 -> run_ops ops2 st1 = Some st ->
  incl (store_allocs (h_tr st1) ++ h_ret st1) (store_allocs (h_tr st) ++ h_ret st).
Proof.
  intros ops2 ops1 st1 st Hb1 Hb2 E1.
  pose proof (run_ops_inv ops1 h_init st1 HInv_init Hb1 E1) as I1. clear E1 Hb1.
  revert st1 I1 Hb2. induction ops2 as [|o ops IH]; intros st1 I1 Hb2 E; cbn [run_ops] in E.
  - injection E as <-. apply incl_refl.
  - apply Forall_cons_iff in Hb2. destruct Hb2 as [Hb Hb2].
    destruct (hstep st1 o) as [st2|] eqn:E2; [|discriminate].
    eapply incl_tran; [exact (hstep_mono st1 o st2 I1 Hb E2)|].
    exact (IH st2 (hstep_inv st1 o st2 I1 Hb E2) Hb2 E).
Qed.

(** *** the fate of the value id: a failed unique insert (or an inline value) leaves the
    id taken for the value neither reachable nor retired -- put itself must release
    what it speculatively allocated; otherwise the value is reachable afterwards *)
Theorem put_value_fate c tr k bs al u il tr' po c' :
  WF_store c tr -> alloc_ok c tr -> bytes k ->
  put tr k (mk_value c bs al il) u (c + 1) = Some (tr', po, c') ->
  (il = false /\ po_status po = St_OK -> In c (store_allocs tr')) /\
  (il = true \/ po_status po <> St_OK -> ~ In c (store_allocs tr' ++ po_retired po)) /\
  (po_status po <> St_OK -> tr' = tr /\ po_retired po = [] /\ c' = c + 1).
Proof.
  intros W [ND BD] Hb E. set (v := mk_value c bs al il) in *.
  assert (WF_store (c + 1) tr) as W1 by (apply (WF_store_mono _ _ _ W); lia).
  assert (alloc_ok (c + 1) tr) as AO.
  { split; [exact ND|]. intros i Hi. pose proof (BD i Hi). lia. }
  assert (value_new (c + 1) tr v) as VN.
  { intros Hi. unfold v, mk_value in *. cbn [v_inline v_id] in *. destruct il; [discriminate|].
    split; [lia|]. intros H. pose proof (BD _ H). lia. }
  destruct (put_accounting (c + 1) tr k v u tr' po c' W1 AO VN Hb E)
    as (fresh & PF & NF & RF & NDL & _ & _ & HS).
  pose proof (put_retired_reachable (c + 1) tr k v u tr' po c' W1 Hb E) as HR.
  assert (vid v = if il then [] else [c]) as Hvid.
  { unfold vid, v, mk_value. cbn [v_inline v_id]. destruct il; reflexivity. }
  assert (In c (store_allocs tr' ++ po_retired po) -> In c fresh) as Hcf.
  { intros H. apply (Permutation_in _ PF) in H. apply in_app_or in H.
    destruct H as [H|H]; [exact H|]. pose proof (BD c H). lia. }
  split; [|split].
  - intros [-> Est]. rewrite Est in HS. rewrite Hvid in HS.
    assert (In c fresh) as Hc by (apply HS; left; reflexivity).
    assert (In c (store_allocs tr' ++ po_retired po)) as H.
    { apply (Permutation_in _ (Permutation_sym PF)). apply in_or_app. left. exact Hc. }
    apply in_app_or in H. destruct H as [H|H]; [exact H|]. pose proof (BD c (HR c H)). lia.
  - intros Hor H. apply Hcf in H. destruct Hor as [->|Hne].
    + destruct (RF c H) as [X|X]; [lia|]. rewrite Hvid in X. destruct X.
    + destruct (po_status po); try contradiction; destruct HS as (-> & _); destruct H.
  - intros Hne. destruct (po_status po); try contradiction; destruct HS as (_ & H1 & H2 & H3);
      (split; [exact H1|]; split; [exact H2|exact H3]).
Qed.

(** ** a concrete history: a border split, a new next layer (two, in fact), an
    overwrite, a failed unique insert, an inline value, and removes that empty layers,
    a border and an interior node *)
Module AccountingExample.
  Definition k1 (i : N) : key := [i].
  Definition k17 : key := [1;2;3;4;5;6;7;8;1;2;3;4;5;6;7;8;9].
  Definition ops1 : list hop :=
    (* 16 entries: the root border (id 1) splits (sibling 33), new interior root (34) *)
    map (fun i => HPut (k1 (N.of_nat i)) [N.of_nat i] 8 false false) (seq 1 16) ++
    [ HPut k17 [17] 8 false false;           (* long key: value 35, two new next layers 37, 38 *)
      HPut (k1 3) [33] 8 false false;        (* overwrite: new value 39, the old one (6) goes to the gc *)
      HPut (k1 3) [34] 8 true false;         (* unique insert fails: value id 40 skipped *)
      HPut (k1 20) [1;2;3] 8 false true ].   (* inline value: no object (41, 42 skipped) *)
  Definition ops2 : list hop :=
    [ HRemove k17;                           (* empties both next layers (cascade): 35, 38, 37 *)
      HRemove (k1 20);                       (* inline: nothing to retire *)
      HRemove (k1 1) ] ++                    (* value 2 *)
    (* empty the right border: it is retired (33), and so is the collapsed interior root (34) *)
    map (fun i => HRemove (k1 (N.of_nat i))) (seq 9 8).

  Definition run (ops : list hop) : hstate := match run_ops ops h_init with Some st => st | None => h_init end.
  Definition view (st : hstate) :=
    (h_ctr st, length (t_layers (h_tr st)), store_allocs (h_tr st), h_ret st, h_skip st).

  Lemma bytes_check (ops : list hop) :
    forallb (fun o => match o with HPut k _ _ _ _ | HRemove k => forallb (fun b => b <? 256) k end) ops = true ->
    Forall hop_bytes ops.
  Proof.
    intros H. apply Forall_forall. intros o Ho. rewrite forallb_forall in H. specialize (H o Ho).
    destruct o; cbn [hop_bytes]; apply Forall_forall; intros b Hb'; rewrite forallb_forall in H;
      specialize (H b Hb'); lia.
  Qed.

  Example ex_ops_bytes : Forall hop_bytes (ops1 ++ ops2).
  Proof. apply bytes_check. vm_compute. reflexivity. Qed.

  (* counter, number of layers, reachable ids, retired ids (in order), skipped ids *)
  Example ex_mid : view (run ops1) =
    (43, 3%nat,
     [34; 1; 33; 2; 4; 39; 8; 10; 12; 14; 16; 18; 20; 22; 24; 26; 28; 30; 32; 37; 38; 35],
     [6],
     [3; 5; 7; 9; 11; 13; 15; 17; 19; 21; 23; 25; 27; 29; 31; 36; 40; 41; 42]).
  Proof. vm_compute. reflexivity. Qed.

  Example ex_final : view (run (ops1 ++ ops2)) =
    (43, 1%nat,
     [1; 4; 39; 8; 10; 12; 14; 16],
     [6; 35; 38; 37; 2; 18; 20; 22; 24; 26; 28; 30; 32; 33; 34],
     [3; 5; 7; 9; 11; 13; 15; 17; 19; 21; 23; 25; 27; 29; 31; 36; 40; 41; 42]).
  Proof. vm_compute. reflexivity. Qed.

  (* the theorem applies to this history *)
  Example ex_history : NoDup (store_allocs (h_tr (run (ops1 ++ ops2))) ++ h_ret (run (ops1 ++ ops2))).
  Proof.
    destruct (run_ops (ops1 ++ ops2) h_init) as [st|] eqn:E; [|vm_compute in E; discriminate].
    unfold run. rewrite E. exact (proj1 (proj2 (history_accounting _ st ex_ops_bytes E))).
  Qed.
End AccountingExample.

(** the id of an out-of-line value is taken by the caller *before* [put] runs (as in
    [exec]: value id = counter, put runs at counter + 1), so "every fresh id lies in
    [ctr, ctr')" does not hold for the value: here fresh = [2] while put ran at 3 *)
Example put_fresh_value_below_ctr :
  (store_allocs (empty_tree 1),
   match put (empty_tree 1) [1] (mk_value 2 [7] 8 false) false 3 with
   | Some (tr', po, ctr') => (store_allocs tr', po_retired po, ctr')
   | None => ([], [], 0)
   end) = ([1], ([1; 2], [], 4)).
Proof. vm_compute. reflexivity. Qed.

(** ** E. the system: several storages, one counter *)

Definition trees_allocs (ts : list (N * tree)) : list N := flat_map (fun x => store_allocs (snd x)) ts.

(** everything reachable from the system: the outer tree (storage table: its nodes and
    the tree_instance values) and every user tree *)
Definition sys_allocs (s : sys) : list N := store_allocs (sy_outer s) ++ trees_allocs (sy_trees s).

(** what an operation releases: overwritten / removed values and retired nodes go to
    the gc; delete_storage and destroy release whole trees at once *)
Definition sys_released (s : sys) (o : op) : list N :=
  match o with
  | OPut _ _ _ _ _ _ => match snd (exec s o) with RPut po => po_retired po | _ => [] end
  | ORemove _ _ => match snd (exec s o) with RRemove ro => ro_retired ro | _ => [] end
  | ODropStorage name =>
    match find_storage s name with
    | Some (Some sid) =>
      match remove (sy_outer s) name with
      | Some (_, ro) =>
        ro_retired ro ++
        match ro_status ro, trees_get (sy_trees s) sid with
        | St_OK, Some t => store_allocs t
        | _, _ => []
        end
      | None => []
      end
    | _ => []
    end
  | ODestroy => if t_null (sy_outer s) then [] else sys_allocs s
  | _ => []
  end.

Record SAcc (s : sys) : Prop := {
  sa_inv : exists p, SysInv s p;
  sa_nodup : NoDup (sys_allocs s);
  sa_bound : forall i, In i (sys_allocs s) -> i < sy_ctr s;
  sa_sids : forall sid t, In (sid, t) (sy_trees s) -> sid < sy_ctr s;
  sa_null : t_null (sy_outer s) = true -> sy_trees s = [];
}.

Lemma trees_allocs_set ts i t' :
  Permutation (trees_allocs (trees_set ts i t')) (store_allocs t' ++ trees_allocs (trees_del ts i)).
Proof.
  induction ts as [|[j u] ts IH]; cbn [trees_set trees_del].
  - unfold trees_allocs. cbn [flat_map snd]. apply Permutation_refl.
  - destruct (N.eqb j i).
    + unfold trees_allocs. cbn [flat_map snd]. apply Permutation_refl.
    + unfold trees_allocs in *. cbn [flat_map snd].
      eapply Permutation_trans; [apply Permutation_app_head; exact IH|]. apply perm_swap3.
Qed.

Lemma trees_allocs_get ts i t : trees_get ts i = Some t ->
  Permutation (trees_allocs ts) (store_allocs t ++ trees_allocs (trees_del ts i)).
Proof.
  induction ts as [|[j u] ts IH]; cbn [trees_get trees_del]; [discriminate|].
  destruct (N.eqb j i).
  - intros H. injection H as <-. unfold trees_allocs. cbn [flat_map snd]. apply Permutation_refl.
  - intros H. unfold trees_allocs in *. cbn [flat_map snd].
    eapply Permutation_trans; [apply Permutation_app_head; exact (IH H)|]. apply perm_swap3.
Qed.

Lemma trees_del_absent ts i : trees_get ts i = None -> trees_del ts i = ts.
Proof.
  induction ts as [|[j u] ts IH]; cbn [trees_get trees_del]; [reflexivity|].
  destruct (N.eqb j i); [discriminate|]. intros H. rewrite (IH H). reflexivity.
Qed.

Lemma trees_get_in ts i t : trees_get ts i = Some t -> In (i, t) ts.
Proof.
  induction ts as [|[j u] ts IH]; cbn [trees_get]; [discriminate|].
  destruct (N.eqb_spec j i) as [->|Hn].
  - intros H. injection H as <-. left. reflexivity.
  - intros H. right. exact (IH H).
Qed.

Lemma trees_get_fresh ts c : (forall sid t, In (sid, t) ts -> sid < c) -> trees_get ts c = None.
Proof.
  intros H. destruct (trees_get ts c) as [t|] eqn:E; [|reflexivity].
  apply trees_get_in in E. apply H in E. lia.
Qed.

Lemma trees_set_in ts i t' sid t : In (sid, t) (trees_set ts i t') -> (sid, t) = (i, t') \/ In (sid, t) ts.
Proof.
  induction ts as [|[j u] ts IH]; cbn [trees_set].
  - intros [H|[]]. left. symmetry. exact H.
  - destruct (N.eqb_spec j i) as [->|Hn].
    + intros [H|H]; [left; symmetry; exact H|right; right; exact H].
    + intros [H|H]; [right; left; exact H|]. destruct (IH H) as [X|X]; [left; exact X|right; right; exact X].
Qed.

Lemma trees_del_in ts i sid t : In (sid, t) (trees_del ts i) -> In (sid, t) ts.
Proof.
  induction ts as [|[j u] ts IH]; cbn [trees_del]; [intros []|].
  destruct (N.eqb j i).
  - intros H. right. exact H.
  - intros [H|H]; [left; exact H|right; exact (IH H)].
Qed.

Lemma sys_tree_alloc_ok s sid tr :
  NoDup (sys_allocs s) -> (forall i, In i (sys_allocs s) -> i < sy_ctr s) ->
  trees_get (sy_trees s) sid = Some tr -> alloc_ok (sy_ctr s) tr.
Proof.
  intros ND BD G. pose proof (trees_allocs_get _ _ _ G) as P. unfold sys_allocs in *.
  apply NoDup_app_inv in ND. destruct ND as (_ & ND & _).
  pose proof (Permutation_NoDup P ND) as ND2. apply NoDup_app_inv in ND2. destruct ND2 as (ND2 & _ & _).
  split; [exact ND2|]. intros i Hi. apply BD. apply in_or_app. right.
  apply (Permutation_in _ (Permutation_sym P)). apply in_or_app. left. exact Hi.
Qed.

Lemma sys_outer_alloc_ok s :
  NoDup (sys_allocs s) -> (forall i, In i (sys_allocs s) -> i < sy_ctr s) -> alloc_ok (sy_ctr s) (sy_outer s).
Proof.
  intros ND BD. unfold sys_allocs in *. apply NoDup_app_inv in ND. destruct ND as (ND & _ & _).
  split; [exact ND|]. intros i Hi. apply BD. apply in_or_app. left. exact Hi.
Qed.

Lemma alloc_ok_mono c c' tr : alloc_ok c tr -> c <= c' -> alloc_ok c' tr.
Proof. intros [ND BD] H. split; [exact ND|]. intros i Hi. pose proof (BD i Hi). lia. Qed.

(** read-only operations *)
Lemma exec_readonly s o :
  match o with OFind _ | OList | OGet _ _ | OScan _ _ => True | _ => False end ->
  fst (exec s o) = s.
Proof.
  destruct o; try contradiction; intros _; unfold exec;
    repeat match goal with
           | |- context [match ?x with _ => _ end] => destruct x
           end; reflexivity.
Qed.

Lemma exec_inv s p o : SysInv s p -> op_bytes o -> exists p', SysInv (fst (exec s o)) p'.
Proof.
  intros I Hb. destruct (noscan o) eqn:En.
  - pose proof (step_refines s p o I Hb En) as S. unfold step_ok in S.
    destruct (exec s o) as [s' x]. destruct (spec_exec p o) as [p' y]. exists p'. apply S.
  - exists p. rewrite exec_readonly; [exact I|]. destruct o; try discriminate; exact Logic.I.
Qed.

(** closing a step: from the multiset identity to the invariant of the new state *)
Lemma SAcc_step s s' rel fresh :
  SAcc s -> (exists p', SysInv s' p') ->
  Permutation (sys_allocs s' ++ rel) (fresh ++ sys_allocs s) ->
  NoDup fresh -> (forall i, In i fresh -> sy_ctr s <= i < sy_ctr s') -> sy_ctr s <= sy_ctr s' ->
  (forall sid t, In (sid, t) (sy_trees s') -> sid < sy_ctr s') ->
  (t_null (sy_outer s') = true -> sy_trees s' = []) ->
  SAcc s' /\ NoDup (sys_allocs s' ++ rel) /\ (forall i, In i (sys_allocs s' ++ rel) -> i < sy_ctr s').
Proof.
  intros A I' P NF RF Hc Hs Hn.
  assert (NoDup (sys_allocs s' ++ rel)) as ND.
  { apply (Permutation_NoDup (Permutation_sym P)). apply NoDup_app_intro; [exact NF|exact (sa_nodup _ A)|].
    intros x H1 H2. pose proof (RF x H1). pose proof (sa_bound _ A x H2). lia. }
  assert (forall i, In i (sys_allocs s' ++ rel) -> i < sy_ctr s') as BD.
  { intros i Hi. apply (Permutation_in _ P) in Hi. apply in_app_or in Hi. destruct Hi as [Hi|Hi].
    - apply RF in Hi. lia.
    - pose proof (sa_bound _ A i Hi). lia. }
  split; [|split; [exact ND|exact BD]]. constructor.
  - exact I'.
  - apply NoDup_app_inv in ND. apply ND.
  - intros i Hi. apply BD. apply in_or_app. left. exact Hi.
  - exact Hs.
  - exact Hn.
Qed.

Definition exec_post (s : sys) (o : op) : Prop :=
  let s' := fst (exec s o) in
  SAcc s' /\
  exists fresh,
    Permutation (sys_allocs s' ++ sys_released s o) (fresh ++ sys_allocs s) /\
    NoDup fresh /\ (forall i, In i fresh -> sy_ctr s <= i < sy_ctr s') /\ sy_ctr s <= sy_ctr s' /\
    NoDup (sys_allocs s' ++ sys_released s o) /\
    (forall i, In i (sys_allocs s' ++ sys_released s o) -> i < sy_ctr s').

Lemma exec_post_same s o : SAcc s -> fst (exec s o) = s -> sys_released s o = [] -> exec_post s o.
Proof.
  intros A E R. unfold exec_post. rewrite E, R, app_nil_r. split; [exact A|]. exists [].
  split; [apply Permutation_refl|]. split; [constructor|]. split; [intros i []|]. split; [lia|].
  split; [exact (sa_nodup _ A)|exact (sa_bound _ A)].
Qed.

Lemma exec_post_intro s o s' rel fresh :
  SAcc s -> fst (exec s o) = s' -> sys_released s o = rel ->
  (exists p', SysInv s' p') ->
  Permutation (sys_allocs s' ++ rel) (fresh ++ sys_allocs s) ->
  NoDup fresh -> (forall i, In i fresh -> sy_ctr s <= i < sy_ctr s') -> sy_ctr s <= sy_ctr s' ->
  (forall sid t, In (sid, t) (sy_trees s') -> sid < sy_ctr s') ->
  (t_null (sy_outer s') = true -> sy_trees s' = []) ->
  exec_post s o.
Proof.
  intros A E1 E2 I' P NF RF Hc Hs Hn. unfold exec_post. rewrite E1, E2.
  destruct (SAcc_step s s' rel fresh A I' P NF RF Hc Hs Hn) as (A' & ND & BD).
  split; [exact A'|]. exists fresh. repeat split; try assumption; apply RF; assumption.
Qed.

(** a unique insert never overwrites, so it hands nothing to the gc *)
Lemma put_walk_unique_retired v : forall ts p ls ctr ls' o ctr',
  put_walk ts p ls v true ctr = Some (ls', o, ctr') -> po_retired o = [].
Proof.
  induction ts as [|t rest IH]; intros p ls ctr ls' o ctr' E; [discriminate|].
  cbn [put_walk] in E.
  destruct (layer_get ls p) as [root|]; [|discriminate].
  destruct (find_leaf root t) as [l|]; [|discriminate].
  destruct (leaf_lookup l t) as [[[rk slot] s]|].
  - destruct rest as [|t2 r].
    + injection E as <- <- <-. reflexivity.
    + exact (IH _ _ _ _ _ _ E).
  - destruct (layer_put root t _ ctr) as [[[root' info] ctr1]|]; [|discriminate].
    destruct (new_chain _ rest v ctr1 _) as [ls2 ctr2]. injection E as <- <- <-. reflexivity.
Qed.

Lemma put_unique_retired tr k v ctr tr' po ctr' :
  put tr k v true ctr = Some (tr', po, ctr') -> po_retired po = [].
Proof.
  unfold put. destruct (t_null tr).
  - destruct (new_chain [] (path_of_key k) v ctr []) as [ls c1]. intros H. injection H as <- <- <-. reflexivity.
  - destruct (put_walk (path_of_key k) [] (t_layers tr) v true ctr) as [[[ls o] c1]|] eqn:E; [|discriminate].
    intros H. injection H as <- <- <-. exact (put_walk_unique_retired v _ _ _ _ _ _ _ E).
Qed.

Lemma store_allocs_empty id : store_allocs (empty_tree id) = [id].
Proof.
  unfold store_allocs, empty_tree. cbn [t_null t_layers]. unfold layers_allocs. cbn [flat_map snd].
  unfold layer_allocs. rewrite (proj2 (empty_leaf_WF_layer id (v_fresh_border true))). reflexivity.
Qed.

Lemma acc_put s n k bs al u il : SAcc s -> bytes n -> bytes k -> exec_post s (OPut n k bs al u il).
Proof.
  intros A Hb Hk. destruct (sa_inv _ A) as (p & I).
  pose proof (exec_inv s p (OPut n k bs al u il) I (conj Hb Hk)) as I'.
  pose proof (find_storage_spec s p n I Hb) as F.
  destruct (ssys_get (sp_map p) n) as [m|].
  - destruct F as (sid & tr & F & St & Hs & G & W & Nn & _).
    assert (WF_store (sy_ctr s + 1) tr) as W1 by (apply (WF_store_mono _ _ _ W); lia).
    destruct (put_refines (sy_ctr s + 1) tr k (mk_value (sy_ctr s) bs al il) u W1 Hk)
      as (tr' & po & c' & Eput & W' & Hc & _).
    assert (fst (exec s (OPut n k bs al u il)) =
            {| sy_ctr := c'; sy_outer := sy_outer s; sy_trees := trees_set (sy_trees s) sid tr' |}) as E1.
    { unfold exec. rewrite F, G, Eput. reflexivity. }
    assert (sys_released s (OPut n k bs al u il) = po_retired po) as E2.
    { unfold sys_released, exec. rewrite F, G, Eput. reflexivity. }
    rewrite E1 in I'.
    pose proof (sys_tree_alloc_ok s sid tr (sa_nodup _ A) (sa_bound _ A) G) as AO.
    pose proof (alloc_ok_mono _ (sy_ctr s + 1) _ AO ltac:(lia)) as AO1.
    assert (value_new (sy_ctr s + 1) tr (mk_value (sy_ctr s) bs al il)) as VN.
    { intros Hi. unfold mk_value in *. cbn [v_inline v_id] in *. destruct il; [discriminate|].
      split; [lia|]. intros H. pose proof (proj2 AO _ H). lia. }
    destruct (put_accounting _ tr k _ u tr' po c' W1 AO1 VN Hk Eput) as (fresh & PF & NF & RF & _).
    apply (exec_post_intro s _ _ _ fresh A E1 E2 I'); cbn [sy_ctr sy_outer sy_trees].
    + unfold sys_allocs. cbn [sy_outer sy_trees].
      pose proof (trees_allocs_set (sy_trees s) sid tr') as P1.
      pose proof (trees_allocs_get (sy_trees s) sid tr G) as P2.
      clear - PF P1 P2. perm_count.
    + exact NF.
    + intros i Hi. destruct (RF i Hi) as [H|H]; [lia|]. unfold vid, mk_value in H. cbn [v_inline v_id] in H.
      destruct il; [destruct H|]. destruct H as [<-|[]]. lia.
    + lia.
    + intros sd t Hin. apply trees_set_in in Hin. destruct Hin as [Hin|Hin].
      * injection Hin as -> _. lia.
      * pose proof (sa_sids _ A sd t Hin). lia.
    + intros Hn. unfold stor in St. rewrite (get_some_not_null _ _ _ St) in Hn. discriminate.
  - apply exec_post_same; [exact A| |].
    + unfold exec. rewrite F. reflexivity.
    + unfold sys_released, exec. rewrite F. reflexivity.
Qed.

Lemma acc_remove s n k : SAcc s -> bytes n -> bytes k -> exec_post s (ORemove n k).
Proof.
  intros A Hb Hk. destruct (sa_inv _ A) as (p & I).
  pose proof (exec_inv s p (ORemove n k) I (conj Hb Hk)) as I'.
  pose proof (find_storage_spec s p n I Hb) as F.
  destruct (ssys_get (sp_map p) n) as [m|].
  - destruct F as (sid & tr & F & St & Hs & G & W & Nn & _).
    destruct (remove_refines (sy_ctr s) tr k W Hk) as (tr' & ro & Erem & W' & _).
    assert (fst (exec s (ORemove n k)) =
            {| sy_ctr := sy_ctr s; sy_outer := sy_outer s; sy_trees := trees_set (sy_trees s) sid tr' |}) as E1.
    { unfold exec. rewrite F, G, Erem. reflexivity. }
    assert (sys_released s (ORemove n k) = ro_retired ro) as E2.
    { unfold sys_released, exec. rewrite F, G, Erem. reflexivity. }
    rewrite E1 in I'.
    pose proof (sys_tree_alloc_ok s sid tr (sa_nodup _ A) (sa_bound _ A) G) as AO.
    destruct (remove_accounting _ tr k tr' ro W AO Hk Erem) as (PR & _).
    apply (exec_post_intro s _ _ _ [] A E1 E2 I'); cbn [sy_ctr sy_outer sy_trees].
    + unfold sys_allocs. cbn [sy_outer sy_trees].
      pose proof (trees_allocs_set (sy_trees s) sid tr') as P1.
      pose proof (trees_allocs_get (sy_trees s) sid tr G) as P2.
      clear - PR P1 P2. perm_count.
    + constructor.
    + intros i [].
    + lia.
    + intros sd t Hin. apply trees_set_in in Hin. destruct Hin as [Hin|Hin].
      * injection Hin as -> _. exact Hs.
      * exact (sa_sids _ A sd t Hin).
    + intros Hn. unfold stor in St. rewrite (get_some_not_null _ _ _ St) in Hn. discriminate.
  - apply exec_post_same; [exact A| |].
    + unfold exec. rewrite F. reflexivity.
    + unfold sys_released, exec. rewrite F. reflexivity.
Qed.

(** create_storage: new border (counter), tree_instance value (counter + 1), then a unique
    put into the outer tree.  When the name exists, nothing becomes reachable: both ids
    are skipped (the C++ code releases the border and the tree_instance it prepared). *)
Lemma acc_create s n : SAcc s -> bytes n -> exec_post s (OCreate n).
Proof.
  intros A Hb. destruct (sa_inv _ A) as (p & I).
  pose proof (exec_inv s p (OCreate n) I Hb) as I'.
  assert (WF_store (sy_ctr s + 2) (sy_outer s)) as W2 by (apply (WF_store_mono _ _ _ (si_outer _ _ I)); lia).
  destruct (put_refines _ _ n (storage_value (sy_ctr s + 1) (sy_ctr s)) true W2 Hb)
    as (outer' & po & c' & Eput & W' & Hc & _).
  pose proof (sys_outer_alloc_ok s (sa_nodup _ A) (sa_bound _ A)) as AO.
  pose proof (alloc_ok_mono _ (sy_ctr s + 2) _ AO ltac:(lia)) as AO2.
  assert (value_new (sy_ctr s + 2) (sy_outer s) (storage_value (sy_ctr s + 1) (sy_ctr s))) as VN.
  { intros _. cbn [storage_value v_id]. split; [lia|]. intros H. pose proof (proj2 AO _ H). lia. }
  destruct (put_accounting _ _ n _ true outer' po c' W2 AO2 VN Hb Eput) as (fresh & PF & NF & RF & _ & _ & _ & HS).
  rewrite (put_unique_retired _ _ _ _ _ _ _ Eput) in PF.
  assert (sys_released s (OCreate n) = []) as E2 by reflexivity.
  destruct (po_status po) eqn:Est.
  1:{ assert (fst (exec s (OCreate n)) =
              {| sy_ctr := c'; sy_outer := outer';
                 sy_trees := trees_set (sy_trees s) (sy_ctr s) (empty_tree (sy_ctr s)) |}) as E1.
      { unfold exec. cbv zeta. rewrite Eput, Est. reflexivity. }
      rewrite E1 in I'.
      apply (exec_post_intro s _ _ _ ([sy_ctr s] ++ fresh) A E1 E2 I'); cbn [sy_ctr sy_outer sy_trees].
      - unfold sys_allocs. cbn [sy_outer sy_trees].
        pose proof (trees_allocs_set (sy_trees s) (sy_ctr s) (empty_tree (sy_ctr s))) as P1.
        rewrite (trees_del_absent _ _ (trees_get_fresh _ _ (sa_sids _ A))), store_allocs_empty in P1.
        clear - PF P1. perm_count.
      - cbn [app]. constructor; [|exact NF]. intros H. destruct (RF _ H) as [X|X]; [lia|].
        unfold vid in X. cbn [storage_value v_inline v_id] in X. destruct X as [X|[]]. lia.
      - intros i Hi. destruct Hi as [<-|Hi]; [lia|]. destruct (RF _ Hi) as [X|X]; [lia|].
        unfold vid in X. cbn [storage_value v_inline v_id] in X. destruct X as [<-|[]]. lia.
      - lia.
      - intros sd t Hin. apply trees_set_in in Hin. destruct Hin as [Hin|Hin].
        + injection Hin as -> _. lia.
        + pose proof (sa_sids _ A sd t Hin). lia.
      - intros Hn. rewrite (put_not_null _ _ _ _ _ _ _ _ Eput) in Hn. discriminate. }
  all: destruct HS as (-> & -> & _ & ->);
    assert (fst (exec s (OCreate n)) =
            {| sy_ctr := sy_ctr s + 2; sy_outer := sy_outer s; sy_trees := sy_trees s |}) as E1
      by (unfold exec; cbv zeta; rewrite Eput, Est; reflexivity);
    rewrite E1 in I';
    apply (exec_post_intro s _ _ _ [] A E1 E2 I'); cbn [sy_ctr sy_outer sy_trees];
    [ unfold sys_allocs; cbn [sy_outer sy_trees app]; rewrite app_nil_r; apply Permutation_refl
    | constructor | intros i [] | lia
    | intros sd t Hin; pose proof (sa_sids _ A sd t Hin); lia
    | exact (sa_null _ A) ].
Qed.

(** delete_storage: the entry leaves the outer tree (its tree_instance value and any
    emptied nodes go to the gc) and the whole user tree is released at once *)
Lemma acc_drop s n : SAcc s -> bytes n -> exec_post s (ODropStorage n).
Proof.
  intros A Hb. destruct (sa_inv _ A) as (p & I).
  pose proof (exec_inv s p (ODropStorage n) I Hb) as I'.
  pose proof (find_storage_spec s p n I Hb) as F.
  destruct (ssys_get (sp_map p) n) as [m|].
  - destruct F as (sid & tr & F & St & Hs & G & W & Nn & _).
    destruct (remove_refines _ _ n (si_outer _ _ I) Hb) as (outer' & ro & Erem & W' & R).
    pose proof St as St0. unfold stor in St0.
    rewrite (get_some_not_null _ _ _ St0), St0 in R. destruct R as [R1 _].
    assert (fst (exec s (ODropStorage n)) =
            {| sy_ctr := sy_ctr s; sy_outer := outer'; sy_trees := trees_del (sy_trees s) sid |}) as E1.
    { unfold exec. rewrite F, Erem, R1. reflexivity. }
    assert (sys_released s (ODropStorage n) = ro_retired ro ++ store_allocs tr) as E2.
    { unfold sys_released. rewrite F, Erem, R1, G. reflexivity. }
    rewrite E1 in I'.
    pose proof (sys_outer_alloc_ok s (sa_nodup _ A) (sa_bound _ A)) as AO.
    destruct (remove_accounting _ _ n outer' ro (si_outer _ _ I) AO Hb Erem) as (PR & _).
    apply (exec_post_intro s _ _ _ [] A E1 E2 I'); cbn [sy_ctr sy_outer sy_trees].
    + unfold sys_allocs. cbn [sy_outer sy_trees].
      pose proof (trees_allocs_get (sy_trees s) sid tr G) as P2.
      clear - PR P2. perm_count.
    + constructor.
    + intros i [].
    + lia.
    + intros sd t Hin. apply trees_del_in in Hin. exact (sa_sids _ A sd t Hin).
    + intros Hn. rewrite (remove_null _ _ _ _ Erem), (get_some_not_null _ _ _ St0) in Hn. discriminate.
  - apply exec_post_same; [exact A| |].
    + unfold exec. rewrite F. reflexivity.
    + unfold sys_released. rewrite F. reflexivity.
Qed.

(** destroy: everything reachable is released at once *)
Lemma acc_destroy s : SAcc s -> exec_post s ODestroy.
Proof.
  intros A. destruct (sa_inv _ A) as (p & I).
  pose proof (exec_inv s p ODestroy I Logic.I) as I'.
  destruct (t_null (sy_outer s)) eqn:En.
  - apply exec_post_same; [exact A| |].
    + unfold exec. rewrite En. reflexivity.
    + unfold sys_released. rewrite En. reflexivity.
  - assert (fst (exec s ODestroy) = {| sy_ctr := sy_ctr s; sy_outer := null_tree; sy_trees := [] |}) as E1.
    { unfold exec. rewrite En. reflexivity. }
    assert (sys_released s ODestroy = sys_allocs s) as E2.
    { unfold sys_released. rewrite En. reflexivity. }
    rewrite E1 in I'.
    apply (exec_post_intro s _ _ _ [] A E1 E2 I'); cbn [sy_ctr sy_outer sy_trees].
    + apply Permutation_refl.
    + constructor.
    + intros i [].
    + lia.
    + intros sd t [].
    + reflexivity.
Qed.

(** *** the accounting identity for every operation of the system *)
Theorem exec_accounting s o : SAcc s -> op_bytes o -> exec_post s o.
Proof.
  intros A Hb. destruct o; cbn [op_bytes] in Hb.
  - apply acc_create; assumption.
  - apply acc_drop; assumption.
  - apply exec_post_same; [exact A|apply exec_readonly; exact Logic.I|reflexivity].
  - apply exec_post_same; [exact A|apply exec_readonly; exact Logic.I|reflexivity].
  - destruct Hb. apply acc_put; assumption.
  - apply exec_post_same; [exact A|apply exec_readonly; exact Logic.I|reflexivity].
  - destruct Hb. apply acc_remove; assumption.
  - apply exec_post_same; [exact A|apply exec_readonly; exact Logic.I|reflexivity].
  - apply acc_destroy; assumption.
Qed.

(** delete_storage releases exactly the dropped tree (plus what the outer remove retires) *)
Corollary drop_storage_releases_tree s n sid tr :
  SAcc s -> bytes n -> find_storage s n = Some (Some sid) -> trees_get (sy_trees s) sid = Some tr ->
  let s' := fst (exec s (ODropStorage n)) in
  exists gc, sys_released s (ODropStorage n) = gc ++ store_allocs tr /\
    Permutation (sys_allocs s) (sys_allocs s' ++ gc ++ store_allocs tr) /\
    NoDup (sys_allocs s' ++ gc ++ store_allocs tr) /\
    sy_trees s' = trees_del (sy_trees s) sid.
Proof.
  intros A Hb F G. destruct (sa_inv _ A) as (p & I).
  pose proof (find_storage_spec s p n I Hb) as F'.
  destruct (ssys_get (sp_map p) n) as [m|]; [|congruence].
  destruct F' as (sid' & tr2 & F2 & St & _). rewrite F in F2. injection F2 as <-.
  destruct (remove_refines _ _ n (si_outer _ _ I) Hb) as (outer' & ro & Erem & W' & R).
  pose proof St as St0. unfold stor in St0.
  rewrite (get_some_not_null _ _ _ St0), St0 in R. destruct R as [R1 _].
  assert (sys_released s (ODropStorage n) = ro_retired ro ++ store_allocs tr) as E2.
  { unfold sys_released. rewrite F, Erem, R1, G. reflexivity. }
  assert (fst (exec s (ODropStorage n)) =
          {| sy_ctr := sy_ctr s; sy_outer := outer'; sy_trees := trees_del (sy_trees s) sid |}) as E1.
  { unfold exec. rewrite F, Erem, R1. reflexivity. }
  destruct (exec_accounting s (ODropStorage n) A Hb) as (_ & fresh & P & _ & RF & _ & ND & _).
  cbv zeta. rewrite E2 in P, ND. rewrite E1 in *. cbn [sy_ctr sy_trees] in *.
  assert (fresh = []) as -> by (destruct fresh as [|x r]; [reflexivity|]; specialize (RF x (or_introl eq_refl)); lia).
  exists (ro_retired ro). split; [exact E2|]. split; [apply Permutation_sym; exact P|]. split; [exact ND|reflexivity].
Qed.

Corollary destroy_releases_all s : SAcc s ->
  sys_allocs (fst (exec s ODestroy)) = [] /\ sys_released s ODestroy = sys_allocs s.
Proof.
  intros A. unfold exec, sys_released. destruct (t_null (sy_outer s)) eqn:En; cbn [fst].
  - unfold sys_allocs, store_allocs. rewrite En, (sa_null _ A En). split; reflexivity.
  - split; reflexivity.
Qed.

(** *** operation sequences of the system *)
Fixpoint released_all (s : sys) (ops : list op) : list N :=
  match ops with
  | [] => []
  | o :: r => sys_released s o ++ released_all (fst (exec s o)) r
  end.

Lemma exec_all_fst s o r : fst (exec_all s (o :: r)) = fst (exec_all (fst (exec s o)) r).
Proof.
  cbn [exec_all]. destruct (exec s o) as [s1 x]. cbn [fst]. destruct (exec_all s1 r) as [s2 xs]. reflexivity.
Qed.

Lemma exec_all_accounting : forall ops s, SAcc s -> Forall op_bytes ops ->
  let s' := fst (exec_all s ops) in
  SAcc s' /\ sy_ctr s <= sy_ctr s' /\
  exists fresh,
    Permutation (sys_allocs s' ++ released_all s ops) (fresh ++ sys_allocs s) /\
    NoDup fresh /\ (forall i, In i fresh -> sy_ctr s <= i < sy_ctr s').
Proof.
  induction ops as [|o ops IH]; intros s A Hb.
  - cbn [exec_all fst released_all]. split; [exact A|]. split; [lia|]. exists [].
    rewrite app_nil_r. split; [apply Permutation_refl|]. split; [constructor|intros i []].
  - apply Forall_cons_iff in Hb. destruct Hb as [Hb1 Hb].
    destruct (exec_accounting s o A Hb1) as (A1 & f1 & P1 & N1 & R1 & C1 & _).
    destruct (IH (fst (exec s o)) A1 Hb) as (A2 & C2 & f2 & P2 & N2 & R2).
    cbv zeta. rewrite exec_all_fst. cbn [released_all].
    split; [exact A2|]. split; [lia|]. exists (f1 ++ f2). split; [|split].
    + clear - P1 P2. perm_count.
    + apply NoDup_app_intro; [exact N1|exact N2|]. intros x H1 H2. apply R1 in H1. apply R2 in H2. lia.
    + intros i Hi. apply in_app_or in Hi. destruct Hi as [Hi|Hi]; [apply R1 in Hi|apply R2 in Hi]; lia.
Qed.

Lemma SAcc_init : SAcc sys_init.
Proof.
  constructor; cbn.
  - exists spec_init. exact SysInv_init.
  - constructor.
  - intros i [].
  - intros sid t [].
  - reflexivity.
Qed.

(** from init: what is reachable together with everything released so far is, without
    duplicates, a set of ids taken from the counter -- nothing is released twice, nothing
    released is still reachable; after a final destroy nothing is reachable, so everything
    that ever became an object has been released exactly once (zero balance) *)
Theorem sys_history_accounting ops : Forall op_bytes ops ->
  let s' := fst (exec_all sys_init ops) in
  SAcc s' /\ NoDup (sys_allocs s' ++ released_all sys_init ops) /\
  (forall i, In i (sys_allocs s' ++ released_all sys_init ops) -> 1 <= i < sy_ctr s').
Proof.
  intros Hb. destruct (exec_all_accounting ops sys_init SAcc_init Hb) as (A & _ & fresh & P & NF & RF).
  cbv zeta. split; [exact A|]. change (sys_allocs sys_init) with (@nil N) in P. rewrite app_nil_r in P. split.
  - exact (Permutation_NoDup (Permutation_sym P) NF).
  - intros i Hi. apply (Permutation_in _ P) in Hi. apply RF in Hi. cbn [sys_init sy_ctr] in Hi. exact Hi.
Qed.

Corollary sys_destroy_zero_balance ops : Forall op_bytes ops ->
  sys_allocs (fst (exec_all sys_init (ops ++ [ODestroy]))) = [].
Proof.
  intros Hb.
  assert (forall l s, fst (exec_all s (l ++ [ODestroy])) = fst (exec (fst (exec_all s l)) ODestroy)) as X.
  { induction l as [|o l IH]; intros s.
    - cbn [app exec_all fst]. destruct (exec s ODestroy). reflexivity.
    - change ((o :: l) ++ [ODestroy]) with (o :: (l ++ [ODestroy])). rewrite !exec_all_fst. apply IH. }
  rewrite X. apply destroy_releases_all.
  exact (proj1 (exec_all_accounting ops sys_init SAcc_init Hb)).
Qed.

Module SysAccountingExample.
  Definition sops : list op :=
    [ OCreate [65];                          (* border 1, tree_instance 2, outer root border 3 *)
      OCreate [66];
      OCreate [65];                          (* duplicate: ids skipped, nothing reachable *)
      OPut [65] [1] [10] 8 false false;
      OPut [65] [1;2;3;4;5;6;7;8;9] [11] 8 false false;   (* a next layer in storage A *)
      OPut [66] [1] [20] 8 false false;
      OPut [65] [1] [12] 8 false false;      (* overwrite *)
      ODropStorage [65] ].                   (* releases the whole tree of A at once *)
  Definition view (ops : list op) :=
    let s := fst (exec_all sys_init ops) in (sy_ctr s, sys_allocs s, released_all sys_init ops).

  (* counter, reachable ids, released ids in order: the overwritten value 9; then
     delete_storage: tree_instance 2 (gc), and A's tree at once: border 1, value 16,
     next-layer border 13, value 11.  Left: outer border 3, B's tree_instance 5, B's
     border 4 and value 14 *)
  Example ex_sys : view sops = (17, [3; 5; 4; 14], [9; 2; 1; 16; 13; 11]).
  Proof. vm_compute. reflexivity. Qed.

  (* destroy: zero balance *)
  Example ex_sys_destroy : view (sops ++ [ODestroy]) = (17, [], [9; 2; 1; 16; 13; 11; 3; 5; 4; 14]).
  Proof. vm_compute. reflexivity. Qed.

  Example ex_sys_bytes : Forall op_bytes (sops ++ [ODestroy]).
  Proof.
    assert (forall k, forallb (fun b => b <? 256) k = true -> bytes k) as B.
    { intros k H. apply Forall_forall. intros b Hb. rewrite forallb_forall in H. specialize (H b Hb). lia. }
    repeat (apply Forall_cons; [cbn [op_bytes]; repeat split; try (apply B; vm_compute; reflexivity)|]).
    apply Forall_nil.
  Qed.

  Example ex_sys_theorem :
    NoDup (sys_allocs (fst (exec_all sys_init sops)) ++ released_all sys_init sops).
  Proof.
    apply (sys_history_accounting sops).
    pose proof ex_sys_bytes as H. apply Forall_app in H. apply H.
  Qed.
End SysAccountingExample.

(** ** axiom audit *)
Print Assumptions put_accounting.
Print Assumptions put_retired_reachable.
Print Assumptions put_value_fate.
Print Assumptions remove_accounting.
Print Assumptions history_accounting.
Print Assumptions history_nothing_lost.
Print Assumptions exec_accounting.
Print Assumptions drop_storage_releases_tree.
Print Assumptions destroy_releases_all.
Print Assumptions sys_history_accounting.
Print Assumptions sys_destroy_zero_balance.
