(** * ScanDefs: scan (interface_scan.h + scan_helper.h), quiescent semantics,
    with the node-version vector. *)
From Yk Require Export TreeDefs.
Local Open Scope N_scope.

Inductive endpoint := EP_EXCL | EP_INCL | EP_INF.
Definition ep_eqb (a b : endpoint) : bool :=
  match a, b with EP_EXCL, EP_EXCL | EP_INCL, EP_INCL | EP_INF, EP_INF => true | _, _ => false end.

(** std::string_view::compare / memcmp on byte lists *)
Fixpoint cmp_bytes (a b : key) : cmp3 :=
  match a, b with
  | [], [] => Eq3
  | [], _ :: _ => Lt3
  | _ :: _, [] => Gt3
  | x :: a', y :: b' => match cmpN x y with Eq3 => cmp_bytes a' b' | c => c end
  end.
(** memcmp over the first n bytes (both have at least n) *)
Definition memcmp_bytes (a b : key) (n : nat) : cmp3 := cmp_bytes (firstn n a) (firstn n b).

(** check_empty_scan_range *)
Definition check_empty_scan_range (l : key) (le : endpoint) (r : key) (re : endpoint) : status :=
  match re with
  | EP_INF => St_OK
  | _ =>
    match le with
    | EP_INF => if ep_eqb re EP_EXCL && (match r with [] => true | _ => false end) then St_ERR_BAD_USAGE else St_OK
    | _ =>
      match cmp_bytes l r with
      | Lt3 => St_OK
      | Gt3 => St_ERR_BAD_USAGE
      | Eq3 => if ep_eqb le EP_INCL && ep_eqb re EP_INCL then St_OK else St_ERR_BAD_USAGE
      end
    end
  end.

(** the first min(n, 8) bytes of a slice, most significant first *)
Fixpoint bytes_of_slice_aux (s : N) (n : nat) (i : nat) : key :=
  match n with
  | O => []
  | S m => (N.shiftr s (8 * (7 - N.of_nat i))) mod 256 :: bytes_of_slice_aux s m (S i)
  end.
Definition bytes_of_slice (s : N) (n : N) : key :=
  bytes_of_slice_aux s (N.to_nat (N.min n 8)) 0.

Record scan_args := {
  sa_l : key; sa_le : endpoint; sa_r : key; sa_re : endpoint;
  sa_max : nat; sa_rtl : bool;
  sa_lnull : bool; sa_rnull : bool;   (* string_view with null data() *)
}.

Record scan_acc := {
  ac_tuples : list (key * value);       (* in push order *)
  ac_nv : list (N * N);                 (* (border id, version) in push order *)
}.
Definition acc_push_t (a : scan_acc) (k : key) (v : value) (id : N) (ver : N) : scan_acc :=
  {| ac_tuples := ac_tuples a ++ [(k, v)]; ac_nv := ac_nv a ++ [(id, ver)] |}.
Definition acc_push_nv (a : scan_acc) (id : N) (ver : N) : scan_acc :=
  {| ac_tuples := ac_tuples a; ac_nv := ac_nv a ++ [(id, ver)] |}.

Definition max_reached (mx : nat) (a : scan_acc) : bool :=
  negb (Nat.eqb mx 0) && Nat.leb mx (length (ac_tuples a)).

(** in-order leaves of a layer *)
Fixpoint bt_leaves (t : bt) : list leaf :=
  match t with
  | BLeaf l => [l]
  | BInt _ _ _ ch => flat_map bt_leaves ch
  end.

Fixpoint skip_to (id : N) (ls : list leaf) : list leaf :=
  match ls with
  | [] => []
  | l :: r => if N.eqb (lf_id l) id then ls else skip_to id r
  end.

(** the descent tuple of scan(): slice of the first <= 8 bytes, length truncated to 8 bits *)
Definition scan_descent_tuple (l : key) (rtl : bool) : ktuple :=
  if rtl then {| ks := 18446744073709551615; kl := 8 |}
  else {| ks := slice_of_bytes l 8; kl := N.of_nat (length l) mod 256 |}.

Inductive sb_res := SB_END | SB_CONT | SB_ERR.

Section ScanBorder.
  (** [fix2]: record the enclosing border also when the scan ends on one of its layer
      links (the "fix:" commit for finding F2); [false] = the pinned source *)
  Variable fix2 : bool.
  (** [sub p_slices p_bytes l le r re acc] scans the layer at prefix p_slices *)
  Variable sub : prefix -> key -> key -> endpoint -> key -> endpoint -> scan_acc -> option scan_acc.
  Variable mx : nat.
  Variable p_slices : prefix.
  Variable p_bytes : key.
  Variable l : key. Variable le : endpoint.
  Variable r : key. Variable re : endpoint.
  Variable bid : N. Variable bver : N.

  (** the loop over the entries of one border (scan_border); [pushed] = tuple_pushed_num *)
  Fixpoint scan_entries (es : list (N * slot_t)) (pushed : bool) (acc : scan_acc)
    : sb_res * bool * scan_acc :=
    match es with
    | [] => (SB_CONT, pushed, acc)
    | (_, s) :: rest =>
      let kt := sl_key s in
      let full := p_bytes ++ bytes_of_slice (ks kt) (kl kt) in
      if 8 <? kl kt then
        (* layer link *)
        let lsl := slice_of_bytes l 8 in
        let larg :=
          match le with
          | EP_INF => Some ([], EP_INF)
          | _ => match cmpN lsl (ks kt) with
                 | Lt3 => Some ([], EP_INF)
                 | Eq3 => Some (skipn 8 l, le)
                 | Gt3 => None
                 end
          end in
        match larg with
        | None => scan_entries rest pushed acc
        | Some (al, ale) =>
          let rarg :=
            match re with
            | EP_INF => Some (Some ([], EP_INF))
            | _ =>
              let n := Nat.min (length r) (length full) in
              match memcmp_bytes r full n with
              | Lt3 => None
              | Eq3 => if Nat.leb (length r) (length full) then None else Some (Some (r, re))
              | Gt3 => Some (Some ([], EP_INF))
              end
            end in
          match rarg with
          | None => (SB_END, pushed, if fix2 && negb pushed then acc_push_nv acc bid bver else acc)
          | Some None => (SB_ERR, pushed, acc)
          | Some (Some (ar, are)) =>
            match sub (p_slices ++ [ks kt]) full al ale ar are acc with
            | None => (SB_ERR, pushed, acc)
            | Some acc' =>
              if max_reached mx acc'
              then (SB_END, pushed, if fix2 && negb pushed then acc_push_nv acc' bid bver else acc')
              else scan_entries rest pushed acc'
            end
          end
        end
      else
        match sl_lv s with
        | LValue v =>
          let in_range (_ : unit) :=
            let acc' := acc_push_t acc full v bid bver in
            if max_reached mx acc' then (SB_END, true, acc') else scan_entries rest true acc' in
          let pass_left :=
            match le with
            | EP_INF => true
            | _ =>
              let lsl := slice_of_bytes l 8 in
              match cmpN lsl (ks kt) with
              | Gt3 => false
              | Eq3 => negb ((kl kt <? N.of_nat (length l)) ||
                             ((N.of_nat (length l) =? kl kt) && ep_eqb le EP_EXCL))
              | Lt3 => true
              end
            end in
          if negb pass_left then scan_entries rest pushed acc
          else
            match re with
            | EP_INF => in_range tt
            | _ =>
              let n := Nat.min (length r) (length full) in
              let c := memcmp_bytes r full n in
              let inr := match c with
                         | Gt3 => true
                         | Eq3 => Nat.ltb (length full) (length r) ||
                                  (Nat.eqb (length r) (length full) && ep_eqb re EP_INCL)
                         | Lt3 => false
                         end in
              if inr then in_range tt
              else (SB_END, pushed, if pushed then acc else acc_push_nv acc bid bver)
            end
        | _ => (SB_ERR, pushed, acc)
        end
    end.
End ScanBorder.

Section ScanLeaves.
  Variable fix2 : bool.
  Variable sub : prefix -> key -> key -> endpoint -> key -> endpoint -> scan_acc -> option scan_acc.
  Variable mx : nat. Variable rtl : bool.
  Variable p_slices : prefix. Variable p_bytes : key.
  Variable l : key. Variable le : endpoint.
  Variable r : key. Variable re : endpoint.

  (** the walk along the border chain *)
  Fixpoint scan_leaves (ls : list leaf) (acc : scan_acc) : option scan_acc :=
    match ls with
    | [] => Some acc
    | lf :: rest =>
      let es := if rtl then rev (leaf_ranked lf) else leaf_ranked lf in
      match scan_entries fix2 sub mx p_slices p_bytes l le r re (lf_id lf) (lf_ver lf) es false acc with
      | (SB_ERR, _, _) => None
      | (SB_END, _, acc') => Some acc'
      | (SB_CONT, pushed, acc') =>
        let acc'' := if pushed then acc' else acc_push_nv acc' (lf_id lf) (lf_ver lf) in
        match rest with
        | [] => Some acc''
        | _ => scan_leaves rest acc''
        end
      end
    end.
End ScanLeaves.

(** scan of one layer (scan_helper.h scan): descent with the left key, then the chain *)
Fixpoint scan_layer (fix2 : bool) (fuel : nat) (ls : layers_t) (mx : nat) (rtl : bool)
         (p_slices : prefix) (p_bytes : key) (l : key) (le : endpoint) (r : key) (re : endpoint)
         (acc : scan_acc) : option scan_acc :=
  match fuel with
  | O => None
  | S f =>
    match layer_get ls p_slices with
    | None => None
    | Some root =>
      match find_leaf root (scan_descent_tuple l rtl) with
      | None => None
      | Some start =>
        scan_leaves fix2 (scan_layer fix2 f ls mx rtl) mx rtl p_slices p_bytes l le r re
                    (skip_to (lf_id start) (bt_leaves root)) acc
      end
    end
  end.

Record scan_out := {
  so_status : status;
  so_tuples : list (key * value);
  so_nv : list (N * N);
}.

Definition scan_fail (s : status) : scan_out := {| so_status := s; so_tuples := []; so_nv := [] |}.

(** argument validation of scan(): Some status = rejected *)
Definition scan_validate (a : scan_args) : option status :=
  if (sa_lnull a && negb (Nat.eqb (length (sa_l a)) 0)) || (sa_rnull a && negb (Nat.eqb (length (sa_r a)) 0))
  then Some St_ERR_BAD_USAGE
  else match check_empty_scan_range (sa_l a) (sa_le a) (sa_r a) (sa_re a) with
  | St_OK =>
    if sa_rtl a && (negb (ep_eqb (sa_re a) EP_INF) || negb (Nat.eqb (sa_max a) 1))
    then Some St_ERR_BAD_USAGE else None
  | s => Some s
  end.

(** the traversal part of scan() *)
Definition scan_body (fix2 : bool) (tr : tree) (a : scan_args) : option scan_out :=
  if t_null tr then Some (scan_fail St_OK_ROOT_IS_NULL)
  else
    match layer_get (t_layers tr) [] with
    | None => None
    | Some root =>
      match find_leaf root (scan_descent_tuple (sa_l a) (sa_rtl a)) with
      | None => None
      | Some start =>
        if get_deleted (lf_ver start) && get_root (lf_ver start)
        then Some {| so_status := St_OK; so_tuples := []; so_nv := [(lf_id start, lf_ver start)] |}
        else
          match scan_layer fix2 (S (length (t_layers tr))) (t_layers tr) (sa_max a) (sa_rtl a)
                           [] [] (sa_l a) (sa_le a) (sa_r a) (sa_re a)
                           {| ac_tuples := []; ac_nv := [] |} with
          | None => None
          | Some acc => Some {| so_status := St_OK; so_tuples := ac_tuples acc; so_nv := ac_nv acc |}
          end
      end
    end.

(** scan as in the pinned source: the left key was used for the descent even
    when its endpoint was INF (finding F1) *)
Definition scan_orig (tr : tree) (a : scan_args) : option scan_out :=
  match scan_validate a with
  | Some s => Some (scan_fail s)
  | None => scan_body false tr a
  end.

(** an INF endpoint ignores the key passed with it ("fix:" commit for F1) *)
Definition scan_normalise (a : scan_args) : scan_args :=
  match sa_le a with
  | EP_INF => {| sa_l := []; sa_le := EP_INF; sa_r := sa_r a; sa_re := sa_re a; sa_max := sa_max a;
                 sa_rtl := sa_rtl a; sa_lnull := sa_lnull a; sa_rnull := sa_rnull a |}
  | _ => a
  end.

(** the public scan on a tree_instance (current source) *)
Definition scan (tr : tree) (a : scan_args) : option scan_out :=
  match scan_validate a with
  | Some s => Some (scan_fail s)
  | None => scan_body true tr (scan_normalise a)
  end.

(** the scan before the F2 fix (with the F1 fix) *)
Definition scan_nofix2 (tr : tree) (a : scan_args) : option scan_out :=
  match scan_validate a with
  | Some s => Some (scan_fail s)
  | None => scan_body false tr (scan_normalise a)
  end.
