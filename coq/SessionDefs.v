(** * SessionDefs: the session-slot table (thread_info.h gain_the_right,
    thread_info_table.h assign_thread_info / leave_thread_info), one shared
    access per step, any number of threads, any interleaving, any capacity n.

    Executable definitions only; proofs in SessionProofs.v. *)
From Coq Require Export NArith List Bool PeanoNat.
Export ListNotations.

Inductive tpc :=
| TIdle
| TProbe (i : nat)                 (* in enter: about to load running_ of slot i *)
| TCas (i : nat)                   (* loaded false: about to CAS slot i *)
| TClaimed (i : nat) (pub : bool)  (* CAS succeeded; pub = begin epoch stored at least once *)
| TFull                            (* every slot was seen occupied: about to return WARN_MAX_SESSIONS *)
| THold (i : nat)                  (* enter returned token i; leave not yet called *)
| TLeaving (i : nat)               (* leave called *)
| TLeave1 (i : nat).               (* begin epoch cleared, running_ still true *)

Record sst := {
  running : nat -> bool;
  begin_ : nat -> N;
  pc : nat -> tpc;
  obs : nat -> list nat;  (* ghost: slots this thread observed occupied during its current enter *)
}.

Definition upd {A} (f : nat -> A) (i : nat) (v : A) : nat -> A :=
  fun j => if Nat.eqb j i then v else f j.

Definition sinit : sst :=
  {| running := fun _ => false; begin_ := fun _ => 0%N; pc := fun _ => TIdle; obs := fun _ => [] |}.

Inductive sev :=
| EnterCall (t : nat)
| LoadRunning (t i : nat) (v : bool)     (* running_.load() of slot i returned v *)
| CasRunning (t i : nat) (ok : bool)     (* compare_exchange(false -> true) on slot i *)
| StoreBegin (t i : nat) (e : N)         (* set_begin_epoch(e) inside enter *)
| EnterRet (t : nat) (r : option nat)    (* enter returns token r / WARN_MAX_SESSIONS *)
| LeaveCall (t i : nat)
| ClearBegin (t i : nat)                 (* set_begin_epoch(0) *)
| ClearRunning (t i : nat).              (* set_running(false); leave returns *)

Definition next_probe (n i : nat) : tpc := if Nat.ltb (S i) n then TProbe (S i) else TFull.

Definition sstep (n : nat) (s : sst) (e : sev) : option sst :=
  match e with
  | EnterCall t =>
    match pc s t with
    | TIdle => Some {| running := running s; begin_ := begin_ s;
                       pc := upd (pc s) t (if Nat.ltb 0 n then TProbe 0 else TFull);
                       obs := upd (obs s) t [] |}
    | _ => None
    end
  | LoadRunning t i v =>
    match pc s t with
    | TProbe j =>
      if negb (Nat.eqb i j) || negb (Bool.eqb v (running s i)) then None
      else if v
      then Some {| running := running s; begin_ := begin_ s;
                   pc := upd (pc s) t (next_probe n i); obs := upd (obs s) t (i :: obs s t) |}
      else Some {| running := running s; begin_ := begin_ s;
                   pc := upd (pc s) t (TCas i); obs := obs s |}
    | _ => None
    end
  | CasRunning t i ok =>
    match pc s t with
    | TCas j =>
      if negb (Nat.eqb i j) then None
      else if ok
      then (if running s i then None
            else Some {| running := upd (running s) i true; begin_ := begin_ s;
                         pc := upd (pc s) t (TClaimed i false); obs := obs s |})
      else (if running s i
            then Some {| running := running s; begin_ := begin_ s;
                         pc := upd (pc s) t (next_probe n i); obs := upd (obs s) t (i :: obs s t) |}
            else Some s (* spurious failure of the weak CAS: retry *))
    | _ => None
    end
  | StoreBegin t i e =>
    match pc s t with
    | TClaimed j _ =>
      if negb (Nat.eqb i j) || (e =? 0)%N then None
      else Some {| running := running s; begin_ := upd (begin_ s) i e;
                   pc := upd (pc s) t (TClaimed i true); obs := obs s |}
    | _ => None
    end
  | EnterRet t r =>
    match pc s t, r with
    | TClaimed j true, Some i =>
      if Nat.eqb i j
      then Some {| running := running s; begin_ := begin_ s; pc := upd (pc s) t (THold i); obs := obs s |}
      else None
    | TFull, None =>
      Some {| running := running s; begin_ := begin_ s; pc := upd (pc s) t TIdle; obs := obs s |}
    | _, _ => None
    end
  | LeaveCall t i =>
    match pc s t with
    | THold j => if Nat.eqb i j
                 then Some {| running := running s; begin_ := begin_ s;
                              pc := upd (pc s) t (TLeaving i); obs := obs s |}
                 else None
    | _ => None
    end
  | ClearBegin t i =>
    match pc s t with
    | TLeaving j => if Nat.eqb i j
                    then Some {| running := running s; begin_ := upd (begin_ s) i 0%N;
                                 pc := upd (pc s) t (TLeave1 i); obs := obs s |}
                    else None
    | _ => None
    end
  | ClearRunning t i =>
    match pc s t with
    | TLeave1 j => if Nat.eqb i j
                   then Some {| running := upd (running s) i false; begin_ := begin_ s;
                                pc := upd (pc s) t TIdle; obs := obs s |}
                   else None
    | _ => None
    end
  end.

Fixpoint srun (n : nat) (s : sst) (tr : list sev) : option sst :=
  match tr with
  | [] => Some s
  | e :: r => match sstep n s e with Some s' => srun n s' r | None => None end
  end.

(** the slot a thread owns (from its successful CAS until it clears running_) *)
Definition owns (p : tpc) : option nat :=
  match p with
  | TClaimed i _ | THold i | TLeaving i | TLeave1 i => Some i
  | _ => None
  end.

(** the token a thread holds between enter's return and leave's call *)
Definition holds (p : tpc) : option nat :=
  match p with THold i => Some i | _ => None end.
