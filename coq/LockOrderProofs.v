(** * LockOrderProofs: an ordered acquisition discipline admits no deadlock *)
From Coq Require Import List Bool PeanoNat Lia.
From Yk Require Import LockOrderDefs.

Lemma orderedb_spec rank t : orderedb rank t = true <-> ordered rank t.
Proof.
  unfold orderedb, ordered. destruct (waits t) as [l|]; [|tauto].
  rewrite forallb_forall, Forall_forall. split; intros H x Hx.
  - apply Nat.ltb_lt. apply H. exact Hx.
  - apply Nat.ltb_lt. apply H. exact Hx.
Qed.

(** among waiting threads, one whose awaited lock has maximal rank *)
Lemma max_waiter rank (ts : list lthread) :
  ts <> [] -> (forall t, In t ts -> waits t <> None) ->
  exists t l, In t ts /\ waits t = Some l /\
    forall t' l', In t' ts -> waits t' = Some l' -> rank l' <= rank l.
Proof.
  induction ts as [|a ts IH]; intros Hne Hall; [congruence|].
  destruct (waits a) as [la|] eqn:Ea; [|exfalso; apply (Hall a); [left; reflexivity|exact Ea]].
  destruct ts as [|b ts'].
  - exists a, la. split; [left; reflexivity|]. split; [exact Ea|].
    intros t' l' [<-|[]] Hw. rewrite Ea in Hw. injection Hw as <-. lia.
  - destruct IH as (t & l & Hin & Hw & Hmax); [discriminate|intros x Hx; apply Hall; right; exact Hx|].
    destruct (Nat.le_gt_cases (rank la) (rank l)) as [Hle|Hgt].
    + exists t, l. split; [right; exact Hin|]. split; [exact Hw|].
      intros t' l' [<-|Hin'] Hw'.
      * rewrite Ea in Hw'. injection Hw' as <-. exact Hle.
      * apply (Hmax t' l' Hin' Hw').
    + exists a, la. split; [left; reflexivity|]. split; [exact Ea|].
      intros t' l' [<-|Hin'] Hw'.
      * rewrite Ea in Hw'. injection Hw' as <-. lia.
      * specialize (Hmax t' l' Hin' Hw'). lia.
Qed.

(** if every thread respects some rank function and every awaited lock is held by a
    thread of the system, then not all threads are waiting: somebody can run *)
Theorem ordered_no_deadlock rank (ts : list lthread) :
  ts <> [] -> Forall (ordered rank) ts -> awaited_held ts ->
  exists t, In t ts /\ waits t = None.
Proof.
  intros Hne Hord Hheld.
  destruct (existsb (fun t => match waits t with None => true | Some _ => false end) ts) eqn:E.
  - apply existsb_exists in E. destruct E as (t & Hin & Ht). exists t. split; [exact Hin|].
    destruct (waits t); [discriminate|reflexivity].
  - exfalso.
    assert (forall t, In t ts -> waits t <> None) as Hall.
    { intros t Hin Hn.
      assert (existsb (fun t => match waits t with None => true | Some _ => false end) ts = true) as E'.
      { apply existsb_exists. exists t. split; [exact Hin|]. rewrite Hn. reflexivity. }
      congruence. }
    destruct (max_waiter rank ts Hne Hall) as (t & l & Hin & Hw & Hmax).
    destruct (Hheld t l Hin Hw) as (t' & Hin' & Hl).
    destruct (waits t') as [l'|] eqn:Ew'; [|apply (Hall t' Hin'); exact Ew'].
    rewrite Forall_forall in Hord. pose proof (Hord t' Hin') as Ho.
    unfold ordered in Ho. rewrite Ew' in Ho. rewrite Forall_forall in Ho.
    specialize (Ho l Hl). specialize (Hmax t' l' Hin' Ew'). lia.
Qed.

(** readers hold nothing: a system whose waiting threads hold no lock cannot deadlock either
    (instance: optimistic readers spin on a version word that only a lock holder changes) *)
Corollary readers_never_block_writers rank (ts : list lthread) :
  ts <> [] -> Forall (ordered rank) ts -> awaited_held ts ->
  ~ (forall t, In t ts -> waits t <> None).
Proof.
  intros Hne Ho Hh Hall. destruct (ordered_no_deadlock rank ts Hne Ho Hh) as (t & Hin & Hw).
  apply (Hall t Hin Hw).
Qed.
