(** * LayerProofs: the layer-level (one B+-tree) interface for the tree proofs.

    Elements of a layer in key order, well-formedness [WF_bt] / [WF_layer], and
    the exact effect of find / lookup / put / update / delete / layer_remove on
    the element list and on the set of node ids. *)
From Coq Require Import NArith PeanoNat Lia ZifyBool ZifyN Bool List Sorted Permutation.
From Yk Require Import ListAux Word64 PermDefs PermProofs VersionDefs KeyDefs KeyProofs
     TreeDefs ScanDefs LeafProofs.
Import ListNotations.

(** ** Interface definitions *)
Fixpoint bt_elems (t : bt) : list slot_t :=
  match t with
  | BLeaf l => leaf_entries l
  | BInt _ _ _ ch => flat_map bt_elems ch
  end.
Definition bt_keys (t : bt) : list ktuple := map sl_key (bt_elems t).
Fixpoint bt_ids (t : bt) : list N :=
  match t with
  | BLeaf l => [lf_id l]
  | BInt id _ _ ch => id :: flat_map bt_ids ch
  end.

Definition dk : ktuple := {| ks := 0; kl := 0 |}.
Definition dleaf : leaf := {| lf_id := 0; lf_ver := 0; lf_perm := 0; lf_slots := [] |}.
Definition dbt : bt := BLeaf dleaf.

(** optional bounds: [None] is infinite *)
Definition lo_ok (lo : option ktuple) (k : ktuple) : Prop :=
  match lo with None => True | Some b => canon_lt k b = false end.     (* lo <= k *)
Definition lo_lt (lo : option ktuple) (k : ktuple) : Prop :=
  match lo with None => True | Some b => canon_lt b k = true end.      (* lo < k *)
Definition hi_ok (hi : option ktuple) (k : ktuple) : Prop :=
  match hi with None => True | Some b => canon_lt k b = true end.      (* k < hi *)
Definition in_bnd lo hi k : Prop := lo_ok lo k /\ hi_ok hi k.          (* element keys *)
Definition sep_bnd lo hi k : Prop := lo_lt lo k /\ hi_ok hi k.         (* separators *)

(** bounds of child [i] of an interior node with separators [keys] *)
Definition lo_at (lo : option ktuple) (keys : list ktuple) (i : nat) : option ktuple :=
  match i with O => lo | S j => Some (nth j keys dk) end.
Definition hi_at (hi : option ktuple) (keys : list ktuple) (i : nat) : option ktuple :=
  if (i <? length keys)%nat then Some (nth i keys dk) else hi.

Inductive WF_bt : option ktuple -> option ktuple -> bt -> Prop :=
| WF_leaf_node lo hi l :
    WF_leaf l -> Forall (in_bnd lo hi) (leaf_keys l) -> WF_bt lo hi (BLeaf l)
| WF_int_node lo hi id ver keys ch :
    (1 <= length keys <= 15)%nat -> length ch = S (length keys) ->
    sorted_keys keys -> Forall (fun s => kt_wf s = true) keys ->
    Forall (sep_bnd lo hi) keys ->
    (forall i, (i < length ch)%nat -> WF_bt (lo_at lo keys i) (hi_at hi keys i) (nth i ch dbt)) ->
    (forall i, (i < length ch)%nat -> bt_elems (nth i ch dbt) <> []) ->
    WF_bt lo hi (BInt id ver keys ch).

Definition WF_layer (root : bt) : Prop := WF_bt None None root /\ NoDup (bt_ids root).

(** the children part of [WF_bt] for an interior node (no bound on the number of keys) *)
Definition kids_ok lo hi (keys : list ktuple) (ch : list bt) : Prop :=
  length ch = S (length keys) /\
  sorted_keys keys /\ Forall (fun s => kt_wf s = true) keys /\
  Forall (sep_bnd lo hi) keys /\
  (forall i, (i < length ch)%nat -> WF_bt (lo_at lo keys i) (hi_at hi keys i) (nth i ch dbt)) /\
  (forall i, (i < length ch)%nat -> bt_elems (nth i ch dbt) <> []).

Lemma WF_int_iff lo hi id ver keys ch :
  WF_bt lo hi (BInt id ver keys ch) <-> (1 <= length keys <= 15)%nat /\ kids_ok lo hi keys ch.
Proof.
  split.
  - intros H. inversion H; subst. split; [assumption|]. repeat split; assumption.
  - intros (H1 & H2 & H3 & H4 & H5 & H6 & H7). constructor; assumption.
Qed.

Lemma WF_leaf_iff lo hi l :
  WF_bt lo hi (BLeaf l) <-> WF_leaf l /\ Forall (in_bnd lo hi) (leaf_keys l).
Proof.
  split.
  - intros H. inversion H; subst. split; assumption.
  - intros [H1 H2]. constructor; assumption.
Qed.

(** ** induction principle for [bt] *)
Lemma bt_ind' (P : bt -> Prop) :
  (forall l, P (BLeaf l)) ->
  (forall id ver keys ch, Forall P ch -> P (BInt id ver keys ch)) ->
  forall t, P t.
Proof.
  intros Hl Hi. fix IH 1. intros [l|id ver keys ch].
  - apply Hl.
  - apply Hi. revert ch. fix IHch 1. intros [|c ch].
    + constructor.
    + constructor; [apply IH|apply IHch].
Qed.

(** ** order facts *)
Lemma canon_le_lt_trans a b c : canon_lt b a = false -> canon_lt b c = true -> canon_lt a c = true.
Proof. unfold canon_lt. lia. Qed.
Lemma canon_lt_le_trans a b c : canon_lt a b = true -> canon_lt c b = false -> canon_lt a c = true.
Proof. unfold canon_lt. lia. Qed.
Lemma canon_le_trans a b c : canon_lt b a = false -> canon_lt c b = false -> canon_lt c a = false.
Proof. unfold canon_lt. lia. Qed.
Lemma canon_lt_le a b : canon_lt a b = true -> canon_lt b a = false.
Proof. apply canon_lt_asym. Qed.

Definition lo_le (lo' lo : option ktuple) : Prop :=
  match lo' with
  | None => True
  | Some a => match lo with None => False | Some b => canon_lt b a = false end
  end.
Definition hi_le (hi hi' : option ktuple) : Prop :=
  match hi' with
  | None => True
  | Some b' => match hi with None => False | Some b => canon_lt b' b = false end
  end.

Lemma lo_le_refl lo : lo_le lo lo.
Proof. destruct lo; cbn; [apply canon_lt_irrefl|exact I]. Qed.
Lemma hi_le_refl hi : hi_le hi hi.
Proof. destruct hi; cbn; [apply canon_lt_irrefl|exact I]. Qed.

Lemma lo_ok_widen lo' lo k : lo_le lo' lo -> lo_ok lo k -> lo_ok lo' k.
Proof.
  destruct lo' as [a|]; [|intros; exact I]. destruct lo as [b|]; cbn; [|intros []].
  intros H1 H2. eapply canon_le_trans; eassumption.
Qed.
Lemma lo_lt_widen lo' lo k : lo_le lo' lo -> lo_lt lo k -> lo_lt lo' k.
Proof.
  destruct lo' as [a|]; [|intros; exact I]. destruct lo as [b|]; cbn; [|intros []].
  intros H1 H2. eapply canon_le_lt_trans; eassumption.
Qed.
Lemma hi_ok_widen hi hi' k : hi_le hi hi' -> hi_ok hi k -> hi_ok hi' k.
Proof.
  destruct hi' as [a|]; [|intros; exact I]. destruct hi as [b|]; cbn; [|intros []].
  intros H1 H2. eapply canon_lt_le_trans; eassumption.
Qed.
Lemma lo_lt_ok lo k : lo_lt lo k -> lo_ok lo k.
Proof. destruct lo; cbn; [apply canon_lt_asym|auto]. Qed.
Lemma lo_lt_le lo k : lo_lt lo k -> lo_le lo (Some k).
Proof. destruct lo; cbn; [apply canon_lt_asym|auto]. Qed.
Lemma hi_ok_le hi k : hi_ok hi k -> hi_le (Some k) hi.
Proof. destruct hi; cbn; [apply canon_lt_asym|auto]. Qed.
Lemma lo_ok_lt_trans lo a b : lo_ok lo a -> canon_lt a b = true -> lo_lt lo b.
Proof. destruct lo; cbn; [|auto]. intros. eapply canon_le_lt_trans; eassumption. Qed.
Lemma lo_lt_trans lo a b : lo_lt lo a -> canon_lt a b = true -> lo_lt lo b.
Proof. destruct lo; cbn; [|auto]. intros. eapply canon_lt_trans; eassumption. Qed.
Lemma hi_ok_trans hi a b : canon_lt a b = true -> hi_ok hi b -> hi_ok hi a.
Proof. destruct hi; cbn; [|auto]. intros. eapply canon_lt_trans; eassumption. Qed.
Lemma hi_ok_le_trans hi a b : canon_lt b a = false -> hi_ok hi b -> hi_ok hi a.
Proof. destruct hi; cbn; [|auto]. intros. eapply canon_le_lt_trans; eassumption. Qed.

Lemma sorted_nth_lt keys : sorted_keys keys -> forall i j,
  (i < j)%nat -> (j < length keys)%nat -> canon_lt (nth i keys dk) (nth j keys dk) = true.
Proof.
  induction keys as [|a keys IH]; intros Hs i j Hij Hj; [cbn in Hj; lia|].
  apply sorted_cons_iff in Hs. destruct Hs as [Hs Hf].
  destruct j as [|j]; [lia|]. cbn [length] in Hj. destruct i as [|i]; cbn [nth].
  - rewrite Forall_forall in Hf. apply Hf. apply nth_In. lia.
  - apply IH; [exact Hs|lia|lia].
Qed.

Lemma sorted_nth_le keys : sorted_keys keys -> forall i j,
  (i <= j)%nat -> (j < length keys)%nat -> canon_lt (nth j keys dk) (nth i keys dk) = false.
Proof.
  intros Hs i j Hij Hj. destruct (Nat.eq_dec i j) as [->|Hne]; [apply canon_lt_irrefl|].
  apply canon_lt_asym. apply sorted_nth_lt; [exact Hs|lia|exact Hj].
Qed.

(** ** list helpers *)
Lemma set_nth_split {A} i (x : A) l :
  (i < length l)%nat -> set_nth i x l = firstn i l ++ x :: skipn (S i) l.
Proof.
  revert i. induction l as [|a l IH]; intros i H; [cbn in H; lia|].
  destruct i as [|i]; [reflexivity|]. cbn [set_nth firstn skipn app]. f_equal. apply IH.
  cbn [length] in H. lia.
Qed.

Lemma insert_after_set {A} i (x r : A) l :
  (i < length l)%nat -> insert_at (S i) r (set_nth i x l) = firstn i l ++ x :: r :: skipn (S i) l.
Proof.
  revert i. induction l as [|a l IH]; intros i H; [cbn in H; lia|].
  destruct i as [|i]; [reflexivity|]. cbn [length] in H.
  specialize (IH i ltac:(lia)). unfold insert_at in *.
  cbn [set_nth firstn skipn app]. f_equal. exact IH.
Qed.

Lemma flat_map_split {A B} (f : A -> list B) (d : A) l i :
  (i < length l)%nat ->
  flat_map f l = flat_map f (firstn i l) ++ f (nth i l d) ++ flat_map f (skipn (S i) l).
Proof.
  intros H. rewrite (split_at_nth d l i H) at 1. rewrite flat_map_app. cbn [flat_map]. reflexivity.
Qed.

Lemma flat_map_set_nth {A B} (f : A -> list B) l i x :
  (i < length l)%nat ->
  flat_map f (set_nth i x l) = flat_map f (firstn i l) ++ f x ++ flat_map f (skipn (S i) l).
Proof.
  intros H. rewrite set_nth_split by exact H. rewrite flat_map_app. cbn [flat_map]. reflexivity.
Qed.

Lemma flat_map_insert_after_set {A B} (f : A -> list B) l i x r :
  (i < length l)%nat ->
  flat_map f (insert_at (S i) r (set_nth i x l)) =
    flat_map f (firstn i l) ++ (f x ++ f r) ++ flat_map f (skipn (S i) l).
Proof.
  intros H. rewrite insert_after_set by exact H. rewrite flat_map_app. cbn [flat_map].
  rewrite <- app_assoc. reflexivity.
Qed.

Lemma flat_map_remove_at {A B} (f : A -> list B) l i :
  flat_map f (remove_at i l) = flat_map f (firstn i l) ++ flat_map f (skipn (S i) l).
Proof. unfold remove_at. apply flat_map_app. Qed.

Lemma in_flat_map_nth {A B} (f : A -> list B) (d : A) l y :
  In y (flat_map f l) <-> exists i, (i < length l)%nat /\ In y (f (nth i l d)).
Proof.
  rewrite in_flat_map. split.
  - intros (x & Hx & Hy). destruct (In_nth l x d Hx) as (i & Hi & E).
    exists i. split; [exact Hi|]. rewrite E. exact Hy.
  - intros (i & Hi & Hy). exists (nth i l d). split; [apply nth_In; exact Hi|exact Hy].
Qed.

Lemma height_child id ver keys ch i :
  (i < length ch)%nat -> (bt_height (nth i ch dbt) < bt_height (BInt id ver keys ch))%nat.
Proof.
  intros H. cbn [bt_height]. apply Nat.lt_succ_r.
  assert (forall c, In c ch ->
            (bt_height c <= fold_right (fun c m => Nat.max (bt_height c) m) 0 ch)%nat) as G.
  { clear. induction ch as [|a ch IH]; intros c []; cbn [fold_right].
    - subst. lia.
    - specialize (IH c H). lia. }
  apply G. apply nth_In. exact H.
Qed.

Lemma nth_error_child (ch : list bt) i :
  (i < length ch)%nat -> nth_error ch i = Some (nth i ch dbt).
Proof. apply nth_error_nth'. Qed.

(** ** [bt_set_ver] changes nothing of interest *)
Lemma bt_set_ver_elems t v : bt_elems (bt_set_ver t v) = bt_elems t.
Proof. destruct t; reflexivity. Qed.
Lemma bt_set_ver_ids t v : bt_ids (bt_set_ver t v) = bt_ids t.
Proof. destruct t; reflexivity. Qed.
Lemma bt_set_ver_id t v : bt_id (bt_set_ver t v) = bt_id t.
Proof. destruct t; reflexivity. Qed.
Lemma bt_set_ver_leaves_entries t v :
  map leaf_entries (bt_leaves (bt_set_ver t v)) = map leaf_entries (bt_leaves t).
Proof. destruct t; reflexivity. Qed.
Lemma bt_set_ver_WF lo hi t v : WF_bt lo hi t -> WF_bt lo hi (bt_set_ver t v).
Proof.
  intros H. destruct t as [l|id ver keys ch]; cbn [bt_set_ver].
  - apply WF_leaf_iff in H. destruct H as [H1 H2]. apply WF_leaf_iff. split.
    + revert H1. apply WF_leaf_cong; reflexivity.
    + exact H2.
  - apply WF_int_iff in H. apply WF_int_iff. exact H.
Qed.
Lemma set_root_flag_elems t b : bt_elems (set_root_flag t b) = bt_elems t.
Proof. apply bt_set_ver_elems. Qed.
Lemma set_root_flag_ids t b : bt_ids (set_root_flag t b) = bt_ids t.
Proof. apply bt_set_ver_ids. Qed.
Lemma set_root_flag_WF lo hi t b : WF_bt lo hi t -> WF_bt lo hi (set_root_flag t b).
Proof. apply bt_set_ver_WF. Qed.
Lemma set_root_flag_WF_layer t b : WF_layer t -> WF_layer (set_root_flag t b).
Proof.
  intros [H1 H2]. split; [apply set_root_flag_WF; exact H1|].
  rewrite set_root_flag_ids. exact H2.
Qed.

(** ** bounds widening *)
Lemma WF_bt_widen lo hi t :
  WF_bt lo hi t -> forall lo' hi', lo_le lo' lo -> hi_le hi hi' -> WF_bt lo' hi' t.
Proof.
  induction 1 as [lo hi l Hl Hb|lo hi id ver keys ch Hn Hlen Hs Hw Hsb Hc IH Hne];
    intros lo' hi' Hlo Hhi.
  - constructor; [exact Hl|]. eapply Forall_impl; [|exact Hb].
    intros k [H1 H2]. split; [eapply lo_ok_widen|eapply hi_ok_widen]; eassumption.
  - constructor; try assumption.
    + eapply Forall_impl; [|exact Hsb].
      intros k [H1 H2]. split; [eapply lo_lt_widen|eapply hi_ok_widen]; eassumption.
    + intros i Hi. apply IH; [exact Hi| |].
      * destruct i; cbn [lo_at]; [exact Hlo|apply lo_le_refl].
      * unfold hi_at. destruct (i <? length keys)%nat; [apply hi_le_refl|exact Hhi].
Qed.

(** ** 1. the elements are sorted, well-formed and within the bounds *)
Lemma lo_at_cons lo s keys i : lo_at lo (s :: keys) (S i) = lo_at (Some s) keys i.
Proof. destruct i; reflexivity. Qed.
Lemma hi_at_cons hi s keys i : hi_at hi (s :: keys) (S i) = hi_at hi keys i.
Proof. reflexivity. Qed.

Lemma flat_keys_sorted (f : bt -> list ktuple) ch : forall lo hi keys,
  length ch = S (length keys) -> sorted_keys keys -> Forall (sep_bnd lo hi) keys ->
  (forall i, (i < length ch)%nat ->
     sorted_keys (f (nth i ch dbt)) /\
     Forall (in_bnd (lo_at lo keys i) (hi_at hi keys i)) (f (nth i ch dbt))) ->
  sorted_keys (flat_map f ch) /\ Forall (in_bnd lo hi) (flat_map f ch).
Proof.
  induction ch as [|c ch IH]; intros lo hi keys Hlen Hsk Hsb Hc; [cbn in Hlen; lia|].
  cbn [flat_map]. destruct keys as [|s keys].
  - destruct ch; [|cbn in Hlen; lia]. cbn [flat_map]. rewrite app_nil_r.
    destruct (Hc 0%nat ltac:(cbn; lia)) as [H1 H2]. cbn in H1, H2. split; assumption.
  - apply Forall_cons_iff in Hsb. destruct Hsb as [[Hs1 Hs2] Hsb].
    apply sorted_cons_iff in Hsk. destruct Hsk as [Hsk Hsf].
    destruct (Hc 0%nat ltac:(cbn; lia)) as [H1 H2]. cbn [nth lo_at] in H1, H2.
    change (hi_at hi (s :: keys) 0) with (Some s) in H2.
    destruct (IH (Some s) hi keys) as [I1 I2].
    + cbn [length] in Hlen. lia.
    + exact Hsk.
    + rewrite Forall_forall in Hsb, Hsf |- *. intros k Hk. split; [|apply Hsb; exact Hk].
      cbn. apply Hsf. exact Hk.
    + intros i Hi. specialize (Hc (S i) ltac:(cbn [length]; lia)).
      rewrite lo_at_cons, hi_at_cons in Hc. exact Hc.
    + split.
      * apply sorted_app_iff. split; [exact H1|]. split; [exact I1|].
        intros a b Ha Hb. rewrite Forall_forall in H2, I2.
        destruct (H2 a Ha) as [_ Ha2]. destruct (I2 b Hb) as [Hb1 _]. cbn in Ha2, Hb1.
        eapply canon_lt_le_trans; eassumption.
      * apply Forall_app. split.
        -- eapply Forall_impl; [|exact H2]. intros k [K1 K2]. split; [exact K1|].
           cbn in K2. eapply hi_ok_trans; eassumption.
        -- eapply Forall_impl; [|exact I2]. intros k [K1 K2]. split; [|exact K2].
           apply (lo_ok_widen lo (Some s)); [apply lo_lt_le; exact Hs1|exact K1].
Qed.
Theorem bt_elems_sorted lo hi t :
  WF_bt lo hi t ->
  sorted_keys (bt_keys t) /\
  Forall (fun k => kt_wf k = true) (bt_keys t) /\
  Forall entry_ok (bt_elems t) /\
  Forall (in_bnd lo hi) (bt_keys t).
Proof.
  induction 1 as [lo hi l Hl Hb|lo hi id ver keys ch Hn Hlen Hs Hw Hsb Hc IH Hne].
  - unfold bt_keys. cbn [bt_elems]. fold (leaf_keys l).
    split; [apply Hl|]. split; [apply WF_leaf_keys_wf; exact Hl|]. split; [apply Hl|exact Hb].
  - assert (bt_keys (BInt id ver keys ch) = flat_map bt_keys ch) as E.
    { unfold bt_keys. cbn [bt_elems]. clear. induction ch as [|c ch I]; [reflexivity|].
      cbn [flat_map]. rewrite map_app, I. reflexivity. }
    rewrite E.
    destruct (flat_keys_sorted bt_keys ch lo hi keys Hlen Hs Hsb) as [S1 S2].
    { intros i Hi. destruct (IH i Hi) as (A & _ & _ & B). split; assumption. }
    split; [exact S1|]. split; [|split; [|exact S2]].
    + apply Forall_forall. intros k Hk. apply (in_flat_map_nth bt_keys dbt) in Hk.
      destruct Hk as (i & Hi & Hk). destruct (IH i Hi) as (_ & A & _).
      rewrite Forall_forall in A. apply A. exact Hk.
    + cbn [bt_elems]. apply Forall_forall. intros s Hs'.
      apply (in_flat_map_nth bt_elems dbt) in Hs'.
      destruct Hs' as (i & Hi & Hk). destruct (IH i Hi) as (_ & _ & A & _).
      rewrite Forall_forall in A. apply A. exact Hk.
Qed.

Corollary WF_bt_sorted lo hi t : WF_bt lo hi t -> sorted_keys (bt_keys t).
Proof. intros H. apply (bt_elems_sorted lo hi t H). Qed.
Corollary WF_bt_keys_wf lo hi t : WF_bt lo hi t -> Forall (fun k => kt_wf k = true) (bt_keys t).
Proof. intros H. apply (bt_elems_sorted lo hi t H). Qed.
Corollary WF_bt_entries_ok lo hi t : WF_bt lo hi t -> Forall entry_ok (bt_elems t).
Proof. intros H. apply (bt_elems_sorted lo hi t H). Qed.
Corollary WF_bt_keys_bnd lo hi t : WF_bt lo hi t -> Forall (in_bnd lo hi) (bt_keys t).
Proof. intros H. apply (bt_elems_sorted lo hi t H). Qed.
Corollary WF_bt_keys_NoDup lo hi t : WF_bt lo hi t -> NoDup (bt_keys t).
Proof. intros H. apply sorted_NoDup. apply (WF_bt_sorted lo hi t H). Qed.

Lemma in_elems_in_keys t s : In s (bt_elems t) -> In (sl_key s) (bt_keys t).
Proof. intros H. unfold bt_keys. apply in_map. exact H. Qed.

Lemma in_keys_in_elems t k : In k (bt_keys t) -> exists s, In s (bt_elems t) /\ sl_key s = k.
Proof.
  unfold bt_keys. intros H. apply in_map_iff in H. destruct H as (s & E & H). exists s. split; assumption.
Qed.

(** entries with the same key are the same entry *)
Lemma map_NoDup_inj {A B} (f : A -> B) l a b :
  NoDup (map f l) -> In a l -> In b l -> f a = f b -> a = b.
Proof.
  induction l as [|x l IH]; intros Hnd Ha Hb E; [destruct Ha|].
  cbn [map] in Hnd. apply NoDup_cons_iff in Hnd. destruct Hnd as [Hx Hnd].
  destruct Ha as [->|Ha], Hb as [->|Hb].
  - reflexivity.
  - exfalso. apply Hx. rewrite E. apply in_map. exact Hb.
  - exfalso. apply Hx. rewrite <- E. apply in_map. exact Ha.
  - apply IH; assumption.
Qed.

Lemma WF_bt_key_inj lo hi t a b :
  WF_bt lo hi t -> In a (bt_elems t) -> In b (bt_elems t) -> sl_key a = sl_key b -> a = b.
Proof. intros H. apply map_NoDup_inj. apply (WF_bt_keys_NoDup lo hi t H). Qed.

(** sorted lists are determined by their contents *)
Lemma sorted_perm_eq (l1 l2 : list slot_t) :
  sorted_keys (map sl_key l1) -> sorted_keys (map sl_key l2) -> Permutation l1 l2 -> l1 = l2.
Proof.
  revert l2. induction l1 as [|a l1 IH]; intros l2 H1 H2 HP.
  - apply Permutation_nil in HP. subst. reflexivity.
  - destruct l2 as [|b l2]; [apply Permutation_sym, Permutation_nil in HP; discriminate|].
    cbn [map] in H1, H2. apply sorted_cons_iff in H1, H2.
    destruct H1 as [S1 F1], H2 as [S2 F2]. rewrite Forall_forall in F1, F2.
    assert (a = b) as ->.
    { assert (In a (b :: l2)) as Ha by (eapply Permutation_in; [exact HP|left; reflexivity]).
      assert (In b (a :: l1)) as Hb
        by (eapply Permutation_in; [apply Permutation_sym; exact HP|left; reflexivity]).
      destruct Ha as [->|Ha]; [reflexivity|]. destruct Hb as [->|Hb]; [reflexivity|].
      specialize (F2 _ (in_map sl_key _ _ Ha)). specialize (F1 _ (in_map sl_key _ _ Hb)).
      apply canon_lt_asym in F1. congruence. }
    f_equal. apply IH; [exact S1|exact S2|]. eapply Permutation_cons_inv. exact HP.
Qed.

(** ** 7. leaves *)
Lemma bt_leaves_elems t : flat_map leaf_entries (bt_leaves t) = bt_elems t.
Proof.
  induction t as [l|id ver keys ch IH] using bt_ind'.
  - cbn. apply app_nil_r.
  - cbn [bt_leaves bt_elems]. induction IH as [|c ch Hc _ IH2]; [reflexivity|].
    cbn [flat_map]. rewrite flat_map_app, Hc, IH2. reflexivity.
Qed.

Lemma bt_leaves_ids_incl t l : In l (bt_leaves t) -> In (lf_id l) (bt_ids t).
Proof.
  induction t as [l0|id ver keys ch IH] using bt_ind'.
  - cbn. intros [->|[]]. left. reflexivity.
  - cbn [bt_leaves bt_ids]. intros H. right. rewrite in_flat_map in *.
    destruct H as (c & Hc & H). exists c. split; [exact Hc|].
    rewrite Forall_forall in IH. apply IH; assumption.
Qed.

Lemma bt_leaves_WF lo hi t : WF_bt lo hi t -> forall l, In l (bt_leaves t) -> WF_leaf l.
Proof.
  induction 1 as [lo hi l Hl Hb|lo hi id ver keys ch Hn Hlen Hs Hw Hsb Hc IH Hne]; intros l' Hin.
  - cbn in Hin. destruct Hin as [<-|[]]. exact Hl.
  - cbn [bt_leaves] in Hin. apply (in_flat_map_nth bt_leaves dbt) in Hin.
    destruct Hin as (i & Hi & Hin). apply (IH i Hi). exact Hin.
Qed.

Lemma bt_leaves_nonempty lo hi t :
  WF_bt lo hi t -> bt_elems t <> [] -> forall l, In l (bt_leaves t) -> leaf_entries l <> [].
Proof.
  induction 1 as [lo hi l Hl Hb|lo hi id ver keys ch Hn Hlen Hs Hw Hsb Hc IH Hne]; intros Hnn l' Hin.
  - cbn in Hin. destruct Hin as [<-|[]]. exact Hnn.
  - cbn [bt_leaves] in Hin. apply (in_flat_map_nth bt_leaves dbt) in Hin.
    destruct Hin as (i & Hi & Hin). apply (IH i Hi); [apply Hne; exact Hi|exact Hin].
Qed.

(** every leaf is non-empty, except possibly a root leaf *)
Lemma bt_leaves_nonempty_root lo hi t :
  WF_bt lo hi t -> forall l, In l (bt_leaves t) -> leaf_entries l <> [] \/ t = BLeaf l.
Proof.
  intros H l Hin. destruct t as [l0|id ver keys ch].
  - right. cbn in Hin. destruct Hin as [->|[]]. reflexivity.
  - left. apply WF_int_iff in H. destruct H as (_ & _ & _ & _ & _ & Hc & Hne).
    cbn [bt_leaves] in Hin. apply (in_flat_map_nth bt_leaves dbt) in Hin.
    destruct Hin as (i & Hi & Hin).
    eapply bt_leaves_nonempty; [apply Hc; exact Hi|apply Hne; exact Hi|exact Hin].
Qed.

Lemma bt_leaves_not_nil t lo hi : WF_bt lo hi t -> bt_leaves t <> [].
Proof.
  induction 1 as [lo hi l Hl Hb|lo hi id ver keys ch Hn Hlen Hs Hw Hsb Hc IH Hne].
  - discriminate.
  - cbn [bt_leaves]. destruct ch as [|c ch]; [cbn in Hlen; lia|]. cbn [flat_map].
    specialize (IH 0%nat ltac:(cbn; lia)). cbn [nth] in IH.
    destruct (bt_leaves c); [contradiction|discriminate].
Qed.
(** ** routing: the first separator greater than the key *)
Definition is_pos (keys : list ktuple) (k : ktuple) (i : nat) : Prop :=
  (i <= length keys)%nat /\
  (forall j, (j < i)%nat -> canon_lt k (nth j keys dk) = false) /\
  ((i < length keys)%nat -> canon_lt k (nth i keys dk) = true).

Lemma is_pos_unique keys k i p : is_pos keys k i -> is_pos keys k p -> i = p.
Proof.
  intros (A1 & A2 & A3) (B1 & B2 & B3).
  destruct (Nat.lt_trichotomy i p) as [H|[H|H]]; [|exact H|].
  - specialize (B2 i H). rewrite A3 in B2 by lia. discriminate.
  - specialize (A2 p H). rewrite B3 in A2 by lia. discriminate.
Qed.

Lemma is_pos_cons_true s keys k : canon_lt k s = true -> is_pos (s :: keys) k 0.
Proof.
  intros H. split; [lia|]. split; [intros j Hj; lia|]. intros _. exact H.
Qed.

Lemma is_pos_cons_false s keys k p :
  canon_lt k s = false -> is_pos keys k p -> is_pos (s :: keys) k (S p).
Proof.
  intros H (A1 & A2 & A3). split; [cbn [length]; lia|]. split.
  - intros [|j] Hj; cbn [nth]; [exact H|apply A2; lia].
  - cbn [length nth]. intros Hp. apply A3. lia.
Qed.

Lemma route_S keys k : forall n, route keys k (S n) = S (route keys k n).
Proof.
  induction keys as [|s keys IH]; intros n; cbn [route]; [reflexivity|].
  destruct (route_probe k s); [reflexivity|apply IH].
Qed.
Lemma iins_pos_S keys k : forall n, iins_pos keys k (S n) = S (iins_pos keys k n).
Proof.
  induction keys as [|s keys IH]; intros n; cbn [iins_pos]; [reflexivity|].
  destruct (iins_probe k s); [reflexivity|apply IH].
Qed.

Lemma route_is_pos keys k :
  Forall (fun s => kt_wf s = true) keys -> kt_wf k = true -> is_pos keys k (route keys k 0).
Proof.
  intros Hw Hk. induction Hw as [|s keys Hs Hw IH].
  - split; [cbn; lia|]. split; [intros j Hj; cbn in Hj; lia|cbn; intros Hj; lia].
  - cbn [route]. rewrite (route_probe_site k s Hk Hs).
    destruct (canon_lt k s) eqn:E.
    + apply is_pos_cons_true. exact E.
    + rewrite route_S. apply is_pos_cons_false; assumption.
Qed.

Lemma iins_pos_is_pos keys k :
  Forall (fun s => kt_wf s = true) keys -> kt_wf k = true -> is_pos keys k (iins_pos keys k 0).
Proof.
  intros Hw Hk. induction Hw as [|s keys Hs Hw IH].
  - split; [cbn; lia|]. split; [intros j Hj; cbn in Hj; lia|cbn; intros Hj; lia].
  - cbn [iins_pos]. rewrite (iins_probe_site k s Hk Hs).
    destruct (canon_lt k s) eqn:E.
    + apply is_pos_cons_true. exact E.
    + rewrite iins_pos_S. apply is_pos_cons_false; assumption.
Qed.

Lemma is_pos_firstn keys k i n : is_pos keys k i -> (i <= n)%nat -> is_pos (firstn n keys) k i.
Proof.
  intros (A1 & A2 & A3) Hn. unfold is_pos. rewrite firstn_length. split; [lia|]. split.
  - intros j Hj. rewrite nth_firstn. destruct (Nat.ltb_spec j n); [|lia]. apply A2. exact Hj.
  - intros Hi. rewrite nth_firstn. destruct (Nat.ltb_spec i n); [|lia]. apply A3. lia.
Qed.

Lemma is_pos_skipn keys k i n : is_pos keys k i -> (n <= i)%nat -> is_pos (skipn n keys) k (i - n).
Proof.
  intros (A1 & A2 & A3) Hn. unfold is_pos. rewrite skipn_length. split; [lia|]. split.
  - intros j Hj. rewrite nth_skipn. apply A2. lia.
  - intros Hi. rewrite nth_skipn. replace (n + (i - n))%nat with i by lia. apply A3. lia.
Qed.

(** a key within the bounds of child [i] is routed to child [i] *)
Lemma is_pos_of_bounds lo hi keys k i :
  sorted_keys keys -> (i <= length keys)%nat ->
  lo_ok (lo_at lo keys i) k -> hi_ok (hi_at hi keys i) k -> is_pos keys k i.
Proof.
  intros Hs Hi Hlo Hhi. split; [exact Hi|]. split.
  - intros j Hj. destruct i as [|i]; [lia|]. cbn [lo_at lo_ok] in Hlo.
    eapply canon_le_trans; [|exact Hlo]. apply sorted_nth_le; [exact Hs|lia|lia].
  - intros Hlt. unfold hi_at in Hhi. destruct (Nat.ltb_spec i (length keys)); [|lia]. exact Hhi.
Qed.

Lemma is_pos_bounds lo hi keys k i :
  is_pos keys k i -> in_bnd lo hi k -> in_bnd (lo_at lo keys i) (hi_at hi keys i) k.
Proof.
  intros (A1 & A2 & A3) [B1 B2]. split.
  - destruct i as [|i]; cbn [lo_at]; [exact B1|]. cbn. apply A2. lia.
  - unfold hi_at. destruct (Nat.ltb_spec i (length keys)); [|exact B2]. cbn. apply A3. assumption.
Qed.

(** separators strictly inside child [i]'s bounds are inserted at position [i] *)
Lemma sep_is_pos lo hi keys k i :
  sorted_keys keys -> (i <= length keys)%nat ->
  sep_bnd (lo_at lo keys i) (hi_at hi keys i) k -> is_pos keys k i.
Proof.
  intros Hs Hi [H1 H2]. eapply is_pos_of_bounds; try eassumption. apply lo_lt_ok. exact H1.
Qed.

(** an element of an interior node with key [k] lives in the child [k] is routed to *)
Lemma kids_route lo hi keys ch k :
  kids_ok lo hi keys ch -> kt_wf k = true ->
  (route keys k 0 < length ch)%nat /\
  (in_bnd lo hi k ->
   in_bnd (lo_at lo keys (route keys k 0)) (hi_at hi keys (route keys k 0)) k) /\
  forall s, In s (flat_map bt_elems ch) -> sl_key s = k ->
            In s (bt_elems (nth (route keys k 0) ch dbt)).
Proof.
  intros (Hlen & Hs & Hw & Hsb & Hc & Hne) Hk.
  pose proof (route_is_pos keys k Hw Hk) as Hp.
  split; [destruct Hp as (P1 & _); lia|]. split; [apply is_pos_bounds; exact Hp|].
  intros s Hin Hsk. apply (in_flat_map_nth bt_elems dbt) in Hin. destruct Hin as (j & Hj & Hin).
  assert (is_pos keys k j) as Hpj.
  { pose proof (WF_bt_keys_bnd _ _ _ (Hc j Hj)) as B. rewrite Forall_forall in B.
    destruct (B k) as [B1 B2]; [rewrite <- Hsk; apply in_elems_in_keys; exact Hin|].
    eapply is_pos_of_bounds; try eassumption. lia. }
  rewrite (is_pos_unique keys k _ _ Hp Hpj). exact Hin.
Qed.

(** ** 2. find_leaf and lookup *)
Lemma bt_find_leaf_spec fuel : forall t lo hi k,
  WF_bt lo hi t -> kt_wf k = true -> (bt_height t < fuel)%nat ->
  exists l, bt_find_leaf fuel t k = Some l /\ WF_leaf l /\ In l (bt_leaves t) /\
            (forall s, In s (bt_elems t) -> sl_key s = k -> In s (leaf_entries l)) /\
            (forall s, In s (leaf_entries l) -> In s (bt_elems t)).
Proof.
  induction fuel as [|f IH]; intros t lo hi k Hwf Hk Hh; [lia|].
  destruct t as [l|id ver keys ch]; cbn [bt_find_leaf].
  - apply WF_leaf_iff in Hwf. exists l. split; [reflexivity|]. split; [apply Hwf|].
    split; [left; reflexivity|]. split; auto.
  - apply WF_int_iff in Hwf. destruct Hwf as [Hn Hkids].
    destruct (kids_route lo hi keys ch k Hkids Hk) as (Hi & _ & Hroute).
    set (i := route keys k 0) in *.
    destruct Hkids as (Hlen & Hs & Hw & Hsb & Hc & Hne).
    rewrite (nth_error_child ch i Hi).
    destruct (IH (nth i ch dbt) _ _ k (Hc i Hi) Hk) as (l & E & Hl & Hin & H1 & H2).
    { pose proof (height_child id ver keys ch i Hi). lia. }
    exists l. split; [exact E|]. split; [exact Hl|]. split; [|split].
    + cbn [bt_leaves]. apply (in_flat_map_nth bt_leaves dbt). exists i. split; assumption.
    + intros s Hs1 Hs2. apply H1; [|exact Hs2]. apply Hroute; assumption.
    + intros s Hs1. cbn [bt_elems]. apply (in_flat_map_nth bt_elems dbt). exists i.
      split; [exact Hi|apply H2; exact Hs1].
Qed.

Theorem find_leaf_spec root k :
  WF_bt None None root -> kt_wf k = true ->
  exists l, find_leaf root k = Some l /\ WF_leaf l /\ In l (bt_leaves root) /\
            (forall s, In s (bt_elems root) -> sl_key s = k -> In s (leaf_entries l)) /\
            (forall s, In s (leaf_entries l) -> In s (bt_elems root)).
Proof. intros H Hk. unfold find_leaf. eapply bt_find_leaf_spec; try eassumption. lia. Qed.

(** the fuel does not matter *)
Lemma bt_find_leaf_fuel fuel fuel' t lo hi k :
  WF_bt lo hi t -> kt_wf k = true -> (bt_height t < fuel)%nat -> (bt_height t < fuel')%nat ->
  bt_find_leaf fuel t k = bt_find_leaf fuel' t k.
Proof.
  revert fuel' t lo hi. induction fuel as [|f IH]; intros fuel' t lo hi Hwf Hk H1 H2; [lia|].
  destruct fuel' as [|f']; [lia|].
  destruct t as [l|id ver keys ch]; cbn [bt_find_leaf]; [reflexivity|].
  apply WF_int_iff in Hwf. destruct Hwf as [Hn Hkids].
  destruct (kids_route lo hi keys ch k Hkids Hk) as (Hi & _).
  destruct Hkids as (_ & _ & _ & _ & Hc & _).
  rewrite (nth_error_child ch _ Hi).
  pose proof (height_child id ver keys ch _ Hi).
  eapply IH; [apply Hc; exact Hi|exact Hk|lia|lia].
Qed.

Definition layer_lookup (root : bt) (k : ktuple) : option slot_t :=
  match find_leaf root k with
  | Some l => option_map (fun x => snd x) (leaf_lookup l k)
  | None => None
  end.

Lemma leaf_lookup_entry l k r slot s :
  WF_leaf l -> kt_wf k = true -> leaf_lookup l k = Some (r, slot, s) ->
  In s (leaf_entries l) /\ sl_key s = k /\ nth_error (leaf_entries l) r = Some s.
Proof.
  intros Hl Hk E. destruct (leaf_lookup_some l k r slot s Hl Hk E) as [H1 H2].
  pose proof (leaf_ranked_entries l r slot s H1) as H3.
  split; [eapply nth_error_In; exact H3|]. split; assumption.
Qed.

Theorem layer_lookup_some root k s :
  WF_bt None None root -> kt_wf k = true ->
  (layer_lookup root k = Some s <-> In s (bt_elems root) /\ sl_key s = k).
Proof.
  intros Hwf Hk. unfold layer_lookup.
  destruct (find_leaf_spec root k Hwf Hk) as (l & -> & Hl & _ & H1 & H2). split.
  - destruct (leaf_lookup l k) as [[[r slot] s']|] eqn:E; [|discriminate].
    cbn. intros H. injection H as ->.
    destruct (leaf_lookup_entry l k r slot s Hl Hk E) as (A & B & _).
    split; [apply H2; exact A|exact B].
  - intros [Hin Hs]. pose proof (H1 s Hin Hs) as Hin'.
    destruct (leaf_lookup_in l k Hl Hk) as (r & slot & s' & E & _ & Hs' & _).
    { rewrite <- Hs. unfold leaf_keys. apply in_map. exact Hin'. }
    rewrite E. cbn. f_equal.
    destruct (leaf_lookup_entry l k r slot s' Hl Hk E) as (A & _).
    eapply (WF_bt_key_inj None None root); [exact Hwf|apply H2; exact A|exact Hin|congruence].
Qed.

Theorem layer_lookup_none root k :
  WF_bt None None root -> kt_wf k = true ->
  (layer_lookup root k = None <-> ~ In k (bt_keys root)).
Proof.
  intros Hwf Hk. split.
  - intros E Hin. apply in_keys_in_elems in Hin. destruct Hin as (s & Hin & Hs).
    assert (layer_lookup root k = Some s) as E' by (apply layer_lookup_some; auto).
    congruence.
  - intros Hn. destruct (layer_lookup root k) as [s|] eqn:E; [|reflexivity].
    apply layer_lookup_some in E; [|exact Hwf|exact Hk]. destruct E as [Hin Hs].
    exfalso. apply Hn. rewrite <- Hs. apply in_elems_in_keys. exact Hin.
Qed.

(** the leaf found holds the key iff the layer does *)
Lemma find_leaf_lookup root k l :
  WF_bt None None root -> kt_wf k = true -> find_leaf root k = Some l ->
  (leaf_lookup l k = None <-> ~ In k (bt_keys root)) /\
  (forall r slot s, leaf_lookup l k = Some (r, slot, s) ->
     In s (bt_elems root) /\ sl_key s = k /\ nth_error (leaf_entries l) r = Some s).
Proof.
  intros Hwf Hk E. pose proof (layer_lookup_none root k Hwf Hk) as HN.
  destruct (find_leaf_spec root k Hwf Hk) as (l' & E' & Hl & _ & H1 & H2).
  rewrite E in E'. injection E' as <-. unfold layer_lookup in HN. rewrite E in HN. split.
  - rewrite <- HN. destruct (leaf_lookup l k); cbn; split; congruence.
  - intros r slot s Hs. destruct (leaf_lookup_entry l k r slot s Hl Hk Hs) as (A & B & C).
    split; [apply H2; exact A|]. split; assumption.
Qed.
